package c14

import (
	"encoding/json"
	"fmt"
	"math/rand/v2"
	"sort"
	"strings"

	corev1 "k8s.io/api/core/v1"
	"k8s.io/apimachinery/pkg/api/resource"

	v1 "sigs.k8s.io/karpenter/pkg/apis/v1"
	"sigs.k8s.io/karpenter/pkg/controllers/nodeclaim/lifecycle"
	"sigs.k8s.io/karpenter/pkg/scheduling"

	"verifharness/internal/core"
	"verifharness/internal/registry"
)

func init() { registry.Register("C14", Ops) }

// ---------- taint universe ----------

var (
	tUnreg = Taint{v1.UnregisteredTaintKey, string(corev1.TaintEffectNoExecute)}
	// the same taint as kubelets / controllers write it in the wild: --register-with-taints=karpenter.sh/unregistered=true:NoExecute,
	// and NoExecute taints get a timeAdded stamp
	tUnregVal   = Taint{v1.UnregisteredTaintKey, string(corev1.TaintEffectNoExecute), "true"}
	tUnregStamp = Taint{v1.UnregisteredTaintKey, string(corev1.TaintEffectNoExecute), "", "2"}
	tUnregBoth  = Taint{v1.UnregisteredTaintKey, string(corev1.TaintEffectNoExecute), "true", "2"}
	tClaim      = Taint{"example.com/dedicated", "NoSchedule"}
	tStartA     = Taint{"example.com/startup-a", "NoSchedule"}
	tStartB     = Taint{"example.com/startup-b", "NoExecute"}
	tDecoy      = Taint{"example.com/startup-a", "NoExecute"}          // same key as a startup taint, other effect: does not match
	tNearEph    = Taint{"node.kubernetes.io/unreachable", "NoExecute"} // not in KnownEphemeralTaints (only :NoSchedule is)
	tReadyCtl   = Taint{"readiness.k8s.io/network", "NoSchedule"}      // known by key prefix
	tOther      = Taint{"example.com/other", "NoSchedule"}
)

// ephemeral taints straight from the code's table (the Lean spec has its own, documented, list)
func ephTaints() []Taint {
	var out []Taint
	for _, t := range scheduling.KnownEphemeralTaints {
		if t.Key == v1.UnregisteredTaintKey {
			continue
		}
		out = append(out, Taint{t.Key, string(t.Effect), t.Value})
	}
	return append(out, tReadyCtl)
}

func pick[T any](r *rand.Rand, xs []T) T { return xs[r.IntN(len(xs))] }

var taintValues = []string{"true", "pending", "x"}

// vary gives a taint the payload it may carry on a real Node: mostly as is, else another value and / or a timeAdded stamp
// (identity — key and effect — is untouched).
func vary(r *rand.Rand, t Taint) Taint {
	switch x := r.IntN(10); {
	case x < 6:
	case x < 8:
		t[2] = pick(r, taintValues)
	case x < 9:
		t[3] = fmt.Sprint(r.IntN(4))
	default:
		t[2], t[3] = pick(r, taintValues), fmt.Sprint(r.IntN(4))
	}
	return t
}

// unregVariant: how the unregistered taint shows up on a fresh Node
func unregVariant(r *rand.Rand) Taint {
	return pick(r, []Taint{tUnreg, tUnreg, tUnregVal, tUnregStamp, tUnregBoth})
}

// readyVariant: the Ready condition of a fresh Node: False, True, Unknown, or not posted yet
func readyVariant(r *rand.Rand) string {
	return pick(r, []string{"F", "F", "F", "T", "T", "T", "T", "U", "U", "N"})
}

// ---------- c14.lifecycle: random histories ----------

var faultSites = []struct {
	site    string
	classes []string
}{
	{"nc.patch.lock", []string{"conflict", "notfound", "err"}},
	{"nc.delete", []string{"notfound", "err"}},
	{"node.list", []string{"err"}},
	{"node.patch.lock", []string{"conflict", "notfound", "err"}},
	{"node.patch", []string{"notfound", "err"}},
	{"nc.patch", []string{"notfound", "err"}},
	{"nc.status", []string{"notfound", "err"}},
	// the NodePool read of updateNodePoolRegistrationHealth (only made for a NodeClaim that names a NodePool)
	{"np.get", []string{"notfound", "err"}},
}

var createOutcomes = []string{"ice", "ncnr", "gen", "cerr"}

func genClaim(r *rand.Rand) ClaimIn {
	c := ClaimIn{Startup: []Taint{}, Taints: []Taint{}}
	switch r.IntN(5) {
	case 0:
	case 1:
		c.Startup = []Taint{tStartA}
	case 2:
		c.Startup = []Taint{tStartB}
	case 3:
		c.Startup = []Taint{tStartA, tStartB}
	case 4:
		c.Startup = []Taint{tStartB, tStartA}
	}
	if r.IntN(2) == 0 {
		c.Taints = []Taint{tClaim}
		if r.IntN(3) == 0 {
			c.Taints[0][2] = "gpu"
		}
	}
	for i := range c.Startup {
		if r.IntN(4) == 0 {
			c.Startup[i][2] = "pending"
		}
	}
	c.Res = r.IntN(3)
	// the NodePool: none named | there and owning | named but gone | re-created under the same name (other UID)
	switch x := r.IntN(8); {
	case x < 3:
	case x < 6:
		c.Pool = true
	case x < 7:
		c.Pool, c.Ps = true, "gone"
	default:
		c.Pool, c.Ps = true, "other"
	}
	c.Fin = r.IntN(5) == 0
	// one NodeClaim in four is created with finalizers of other controllers (one or two; with Fin karpenter's own sits
	// after the first of them)
	if r.IntN(4) == 0 {
		c.Ff = foreignFinalizers[:1+r.IntN(2)]
	}
	// one in four: the provider's error text is not the short ASCII default
	if r.IntN(4) == 0 {
		m := pick(r, errShapes)
		c.Em = &m
	}
	return c
}

var foreignFinalizers = []string{"backup.example.com/snapshot", "example.com/provider-cleanup"}

// errShapes: provider error texts around truncateMessage's limit (300): short; 299 / 300 / 301 ASCII bytes; multi-byte
// texts just below / at / above 300 BYTES with far fewer than 300 characters; texts with more than 300 characters of
// 2..4 bytes each; an ASCII head followed by multi-byte characters. Byte 300 of the text is always a character boundary
// (errMsgOK): a LaunchFailed message cut inside a character reaches the API server as U+FFFD and is re-patched on
// every pass — churn the model does not describe.
var errShapes = func() []ErrMsg {
	all := []ErrMsg{{10, 1, 0}, {0, 1, 299}, {0, 1, 300}, {0, 1, 301}, {0, 1, 700},
		{0, 3, 99}, {0, 3, 100}, {0, 3, 120}, {0, 3, 161}, {0, 2, 149}, {0, 2, 150}, {0, 2, 200}, {0, 4, 75}, {0, 4, 100},
		{0, 2, 400}, {0, 3, 300}, {0, 3, 301}, {0, 4, 330},
		{150, 3, 60}, {100, 2, 120}, {296, 4, 2}, {300, 3, 40}, {20, 4, 70}, {60, 3, 80}, {277, 3, 50}}
	var out []ErrMsg
	for _, m := range all {
		if errMsgOK(m) {
			out = append(out, m)
		}
	}
	return out
}()

func errMsgOK(m ErrMsg) bool { return m.aligned(300) }

func errLabel(m *ErrMsg) string {
	if m == nil {
		return "provider-error-text=default"
	}
	size := "<300B"
	switch {
	case m.bytes() == 300:
		size = "=300B"
	case m.bytes() > 300:
		size = ">300B"
	}
	chars := "<300chars"
	if m.runes() >= 300 {
		chars = ">=300chars"
	}
	kind := "ascii"
	if m.W > 1 && m.N > 0 {
		kind = "multibyte"
	}
	return "provider-error-text=" + kind + size + "," + chars
}

// dnsOff: values of the karpenter.sh/do-not-sync-taints label that do NOT opt out (only the exact string "true" does)
var dnsOff = []string{"false", "", "True", "1"}

func genNodeStep(r *rand.Rand, c ClaimIn) Step {
	s := Step{K: "node", Taints: []Taint{}}
	if r.IntN(10) < 8 {
		s.Taints = append(s.Taints, unregVariant(r))
	}
	eph := ephTaints()
	for i := 0; i < 2; i++ {
		if r.IntN(10) < 4 {
			s.Taints = appendUniq(s.Taints, vary(r, pick(r, eph)))
		}
	}
	for _, t := range c.Startup {
		if r.IntN(10) < 3 {
			s.Taints = appendUniq(s.Taints, vary(r, t))
		}
	}
	for _, t := range []Taint{tDecoy, tNearEph, tOther, tClaim} {
		if r.IntN(10) < 1 {
			s.Taints = appendUniq(s.Taints, vary(r, t))
		}
	}
	r.Shuffle(len(s.Taints), func(i, j int) { s.Taints[i], s.Taints[j] = s.Taints[j], s.Taints[i] })
	s.Rs = readyVariant(r)
	s.Res = r.IntN(10) < 4
	s.Dns = r.IntN(10) < 1
	if !s.Dns && r.IntN(10) < 2 {
		v := pick(r, dnsOff)
		s.Dl = &v
	}
	s.Reg = r.IntN(10) < 1
	return s
}

// genStray: a Node of the cluster that is not this NodeClaim's — it has no provider id (a node that just joined and
// waits for the cloud controller manager, or one not backed by a cloud instance) or another instance's id. It looks
// like a Karpenter node would (the taints, readiness and resources a fresh node has), so that adopting it by mistake
// would go all the way.
func genStray(r *rand.Rand, c ClaimIn) Step {
	s := genNodeStep(r, c)
	s.K = "stray"
	s.Dns, s.Reg, s.Dl = false, false, nil
	s.Pid = pick(r, []string{"", "", "x"})
	if r.IntN(2) == 0 {
		s.Rs, s.Res = "T", true
	}
	return s
}

// appendUniq: a Node carries at most one taint per (key, effect)
func appendUniq(ts []Taint, t Taint) []Taint {
	for _, x := range ts {
		if x.same(t) {
			return ts
		}
	}
	return append(ts, t)
}

func genRec(r *rand.Rand, pFault float64) Step {
	s := Step{K: "rec"}
	if r.IntN(10) < 3 {
		s.Lag = 1 + r.IntN(6)
	}
	if r.IntN(4) == 0 {
		s.Create = pick(r, createOutcomes)
	}
	if r.Float64() < pFault {
		s.F = map[string]string{}
		n := 1
		if r.IntN(5) == 0 {
			n = 2
		}
		for i := 0; i < n; i++ {
			fs := pick(r, faultSites)
			s.F[fs.site] = pick(r, fs.classes)
		}
	}
	return s
}

func genHistory(r *rand.Rand, t core.Tier) any {
	switch x := r.IntN(12); {
	case x < 4:
		return genChaotic(r, t)
	case x < 6:
		return genOverdue(r, t)
	}
	return genGuided(r, t)
}

// genOverdue: a NodeClaim that gets stuck — every launch attempt fails with a retryable error, or it launches and its
// node never registers (never appears, or appears twice) — reconciled now and then (faults, lagging copies) until
// just before / at / just after the launch (5m) or registration (15m) deadline, and a few times beyond it. The
// NodePool it names is there, gone from the start, re-created, or deleted somewhere along the way.
func genOverdue(r *rand.Rand, t core.Tier) any {
	c := genClaim(r)
	if r.IntN(2) == 0 { // lean towards NodeClaims that name a NodePool
		c.Pool = true
		c.Ps = pick(r, []string{"", "gone", "gone", "other"})
	}
	launchFails := r.IntN(2) == 0
	edge := 900
	if launchFails {
		edge = 300
	}
	pFault := []float64{0, 0, 0.15, 0.4}[r.IntN(4)]
	var steps []Step
	now := 0
	rec := func() Step {
		s := genRec(r, pFault)
		s.Create = ""
		if s.Lag > 0 && r.IntN(2) == 0 {
			s.Lag = 0
		}
		if launchFails {
			s.Create = pick(r, []string{"gen", "gen", "cerr"})
		}
		now++
		return s
	}
	poolDelAt := -1
	if c.Pool && c.Ps == "" && r.IntN(3) == 0 {
		poolDelAt = r.IntN(6)
	}
	n := 2 + r.IntN(5)
	for i := 0; i < n; i++ {
		if i == poolDelAt {
			steps = append(steps, Step{K: "pooldel"})
		}
		steps = append(steps, rec())
		if !launchFails && i == 0 && r.IntN(4) == 0 {
			// the node shows up twice (Registered=False, MultipleNodesFound) or shows up and leaves again
			steps = append(steps, genNodeStep(r, c))
			if r.IntN(2) == 0 {
				steps = append(steps, genNodeStep(r, c))
			} else {
				steps = append(steps, rec(), Step{K: "gone"})
			}
		}
		if room := edge - 10 - now; room > 0 && r.IntN(3) > 0 {
			secs := 1 + r.IntN(room)
			now += secs
			steps = append(steps, Step{K: "adv", Secs: secs})
		}
	}
	if poolDelAt >= n {
		steps = append(steps, Step{K: "pooldel"})
	}
	if target := edge + r.IntN(5) - 2; target > now {
		steps = append(steps, Step{K: "adv", Secs: target - now})
		now = target
	}
	// the reconciles around and past the deadline: mostly clean, sometimes with a fault at the NodePool read or the delete
	for i, m := 0, 2+r.IntN(3); i < m; i++ {
		s := rec()
		if r.IntN(3) == 0 {
			fs := pick(r, []struct{ site, class string }{{"np.get", "err"}, {"np.get", "notfound"}, {"nc.delete", "err"}, {"nc.delete", "notfound"}, {"nc.status", "err"}})
			s.F = map[string]string{fs.site: fs.class}
		}
		steps = append(steps, s)
		if r.IntN(2) == 0 {
			secs := 1 + r.IntN(3)
			now += secs
			steps = append(steps, Step{K: "adv", Secs: secs})
		}
	}
	steps = append(steps, Step{K: "rec"}, Step{K: "rec"})
	return In{Claim: c, Steps: steps}
}

// genGuided follows the life of a NodeClaim (launch, node appears, the node gets ready piece by piece) so that
// Registered / Initialized are reached often, with faults, lagging copies and adverse events mixed in.
func genGuided(r *rand.Rand, t core.Tier) any {
	c := genClaim(r)
	maxLen := 30
	if t == core.Thorough {
		maxLen = 60
	}
	n := 8 + r.IntN(maxLen-7)
	pFault := []float64{0, 0.1, 0.25, 0.5}[r.IntN(4)]
	pLag := []int{0, 0, 15, 40}[r.IntN(4)]
	launched, node := false, false
	var present []Taint // taints probably on the node
	var steps []Step
	if r.IntN(4) == 0 {
		steps = append(steps, genStray(r, c)) // the cluster has other Nodes before this NodeClaim is launched
		n++
	}
	now := 0
	userDeleteAt := -1
	if r.IntN(12) == 0 {
		userDeleteAt = n/2 + r.IntN(n/2+1)
	}
	for len(steps) < n {
		if len(steps) == userDeleteAt {
			steps = append(steps, Step{K: "del"})
			continue
		}
		if r.IntN(2) == 0 {
			s := Step{K: "rec"}
			if r.IntN(100) < pLag {
				s.Lag = 1 + r.IntN(4)
			}
			if !launched && r.IntN(4) == 0 {
				s.Create = pick(r, createOutcomes)
			}
			if r.Float64() < pFault {
				fs := pick(r, faultSites)
				s.F = map[string]string{fs.site: pick(r, fs.classes)}
				if r.IntN(6) == 0 {
					fs2 := pick(r, faultSites)
					s.F[fs2.site] = pick(r, fs2.classes)
				}
			}
			if s.Create == "" && s.F["nc.patch.lock"] == "" {
				launched = true
			}
			steps = append(steps, s)
			now++
			continue
		}
		x := r.IntN(100)
		switch {
		case launched && !node:
			if x < 80 {
				ns := genNodeStep(r, c)
				present = append(append(append([]Taint{}, ns.Taints...), c.Startup...), c.Taints...)
				steps = append(steps, ns)
				node = true
			} else {
				secs := 1 + r.IntN(20)
				now += secs
				steps = append(steps, Step{K: "adv", Secs: secs})
			}
		case node:
			switch {
			case x < 22:
				steps = append(steps, Step{K: "ready"})
			case x < 60:
				if len(present) > 0 {
					i := r.IntN(len(present))
					tt := present[i]
					present = append(present[:i:i], present[i+1:]...)
					steps = append(steps, Step{K: "rmt", T: &tt})
				} else {
					steps = append(steps, Step{K: "res"})
				}
			case x < 74:
				steps = append(steps, Step{K: "res"})
			case x < 80:
				tt := vary(r, pick(r, append([]Taint{tUnreg, tDecoy, tNearEph, tOther, tStartA, tStartB}, ephTaints()...)))
				present = appendUniq(present, tt)
				steps = append(steps, Step{K: "addt", T: &tt})
			case x < 83:
				steps = append(steps, Step{K: pick(r, []string{"unready", "unkready", "noready"})})
			case x < 86:
				steps = append(steps, Step{K: "unres"})
			case x < 89:
				steps = append(steps, Step{K: "gone"})
				node = false
			case x < 91:
				if r.IntN(2) == 0 {
					steps = append(steps, genNodeStep(r, c)) // a second node with the same provider id
				} else {
					steps = append(steps, genStray(r, c)) // another Node joins the cluster
				}
			default:
				secs := 1 + r.IntN(20)
				now += secs
				steps = append(steps, Step{K: "adv", Secs: secs})
			}
		default:
			secs := 1 + r.IntN(30)
			if r.IntN(4) == 0 {
				target := pick(r, []int{300, 900}) + r.IntN(5) - 2
				if target > now {
					secs = target - now
				}
			}
			now += secs
			steps = append(steps, Step{K: "adv", Secs: secs})
		}
	}
	// let the dust settle: two clean reconciles on the current copy
	steps = append(steps, Step{K: "rec"}, Step{K: "rec"})
	return In{Claim: c, Steps: steps}
}

func genChaotic(r *rand.Rand, t core.Tier) any {
	c := genClaim(r)
	maxLen := 28
	if t == core.Thorough {
		maxLen = 60
	}
	n := 6 + r.IntN(maxLen-5)
	pFault := []float64{0, 0.15, 0.35, 0.6}[r.IntN(4)]
	taintPool := append([]Taint{tUnreg, tClaim, tStartA, tStartB, tDecoy, tNearEph, tOther}, ephTaints()...)
	var steps []Step
	if r.IntN(4) == 0 {
		steps = append(steps, genStray(r, c))
		n++
	}
	now := 0
	nodes := 0
	for len(steps) < n {
		x := r.IntN(100)
		switch {
		case x < 2:
			if c.Pool && r.IntN(3) == 0 {
				steps = append(steps, Step{K: "pooldel"})
			} else {
				steps = append(steps, genStray(r, c))
			}
		case x < 45:
			steps = append(steps, genRec(r, pFault))
			now++ // roughly: a reconcile that patches sleeps one second
		case x < 55:
			if nodes == 0 || r.IntN(5) == 0 {
				steps = append(steps, genNodeStep(r, c))
				nodes++
			} else {
				steps = append(steps, Step{K: "ready"})
			}
		case x < 62:
			steps = append(steps, Step{K: pick(r, []string{"ready", "ready", "ready", "unready", "unkready", "noready"})})
		case x < 68:
			steps = append(steps, Step{K: pick(r, []string{"res", "res", "unres"})})
		case x < 82:
			tt := pick(r, taintPool)
			k := "rmt"
			if r.IntN(4) == 0 {
				k = "addt"
				tt = vary(r, tt)
			}
			steps = append(steps, Step{K: k, T: &tt})
		case x < 84:
			steps = append(steps, Step{K: "gone"})
			nodes = 0
		case x < 96:
			// clock: small steps, or a jump to just before / at / just after one of the two liveness edges
			secs := 1 + r.IntN(30)
			if r.IntN(3) == 0 {
				edge := pick(r, []int{300, 900})
				target := edge + r.IntN(5) - 2
				if target > now {
					secs = target - now
				}
			}
			now += secs
			steps = append(steps, Step{K: "adv", Secs: secs})
		case x < 97:
			if len(steps) > n/2 {
				steps = append(steps, Step{K: "del"})
			}
		default:
			steps = append(steps, genRec(r, 0))
		}
	}
	return In{Claim: c, Steps: steps}
}

func impl(raw json.RawMessage) (any, error) {
	var in In
	if err := json.Unmarshal(raw, &in); err != nil {
		return nil, err
	}
	return run(in)
}

func decodeOut(v any) *Out {
	b, err := json.Marshal(v)
	if err != nil {
		return nil
	}
	var o Out
	if json.Unmarshal(b, &o) != nil {
		return nil
	}
	return &o
}

func reachedCreate(_ json.RawMessage, implV any) bool {
	o := decodeOut(implV)
	if o == nil {
		return false
	}
	for _, s := range o.Steps {
		if len(s.Creates) > 0 {
			return true
		}
	}
	return false
}

func histLabels(raw json.RawMessage, implV any) []string {
	var in In
	json.Unmarshal(raw, &in)
	set := map[string]bool{}
	set[fmt.Sprintf("len<=%d", ((len(in.Steps)/10)+1)*10)] = true
	set[fmt.Sprintf("startup=%d", len(in.Claim.Startup))] = true
	set[fmt.Sprintf("res=%d", in.Claim.Res)] = true
	set[fmt.Sprintf("foreign-finalizers=%d,own=%v", len(in.Claim.Ff), in.Claim.Fin)] = true
	set[errLabel(in.Claim.Em)] = true
	payload := func(t Taint) string {
		switch {
		case t[2] != "" && t[3] != "":
			return "value+timeAdded"
		case t[2] != "":
			return "value"
		case t[3] != "":
			return "timeAdded"
		}
		return "bare"
	}
	for _, t := range append(append([]Taint{}, in.Claim.Startup...), in.Claim.Taints...) {
		if t[2] != "" {
			set["claim-taint-with-value"] = true
		}
	}
	poolState := "unnamed"
	if in.Claim.labelled() {
		poolState = "owning"
		if in.Claim.Ps != "" {
			poolState = in.Claim.Ps
		}
	}
	set["nodepool="+poolState] = true
	unregAt := make([]string, len(in.Steps)) // the form of the unregistered taint the latest Node joined with
	lastUnreg := "absent"
	for i, s := range in.Steps {
		set["step:"+s.K] = true
		if s.Lag > 0 {
			set["lagged-view"] = true
		}
		if s.K == "node" {
			set["node-joins:ready="+s.readyStatus()] = true
			unreg := "absent"
			for _, t := range s.Taints {
				if t.same(tUnreg) {
					unreg = payload(t)
				} else {
					set["node-joins:taint:"+payload(t)] = true
				}
			}
			set["node-joins:unregistered="+unreg] = true
			lastUnreg = unreg
			switch {
			case s.Dl != nil:
				set[fmt.Sprintf("node-joins:do-not-sync-taints=%q", *s.Dl)] = true
			case s.Dns:
				set[`node-joins:do-not-sync-taints="true"`] = true
			default:
				set["node-joins:do-not-sync-taints:absent"] = true
			}
		}
		unregAt[i] = lastUnreg
		if s.K == "addt" && s.T != nil {
			set["addt:"+payload(*s.T)] = true
		}
		if s.K == "stray" {
			if s.Pid == "" {
				set["stray-node:no-provider-id"] = true
			} else {
				set["stray-node:other-provider-id"] = true
			}
		}
		for site, cls := range s.F {
			set["fault:"+site+":"+cls] = true
		}
	}
	if o := decodeOut(implV); o != nil {
		okCreates := 0
		prevR := ""
		for i, s := range o.Steps {
			if s.Claim.R == "T" && prevR != "T" && i < len(unregAt) {
				set["registered:node-joined-with-unregistered="+unregAt[i]] = true
			}
			prevR = s.Claim.R
			capacity, deleted, poolAns := false, false, ""
			for _, c := range s.Calls {
				set["call:"+c] = true
				capacity = capacity || c == "create:ice" || c == "create:ncnr"
				deleted = deleted || strings.HasPrefix(c, "nc.delete:")
				if strings.HasPrefix(c, "np.get:") {
					poolAns = strings.TrimPrefix(c, "np.get:")
				}
			}
			if s.Rec && !s.View.Del && !capacity && s.View.R != "T" {
				// a liveness deadline had passed: what the NodePool read said, and whether the delete was issued
				kind := "registration"
				if s.View.L != "T" {
					kind = "launch"
				}
				switch {
				case deleted && poolAns == "":
					set["timeout:"+kind+":deleted(no-nodepool-named)"] = true
				case deleted:
					set["timeout:"+kind+":deleted(nodepool-read="+poolAns+")"] = true
				case poolAns != "" && poolAns != "ok" && poolAns != "notfound" && s.Claim.R != "T":
					set["timeout:"+kind+":held-back(nodepool-read="+poolAns+")"] = true
				}
			}
			for _, c := range s.Creates {
				if c.Ok {
					okCreates++
				}
				if len(s.View.Ff) > 0 {
					set[fmt.Sprintf("create-reached:foreign-finalizers-on-view,own-on-view=%v", s.View.Fin)] = true
				}
				if in.Claim.Em != nil {
					set["create-answer-with-long-or-multibyte-text:"+strings.SplitN(lastCreate(s.Calls), ":", 2)[1]] = true
				}
			}
			if s.Claim.Lm > 0 {
				if s.Claim.Lm > 300 {
					set["launch-failed-message:truncated"] = true
				} else {
					set["launch-failed-message:whole"] = true
				}
			}
			if s.Rec && s.View.Del {
				set["deletion-path"] = true
				if len(s.View.Ff) > 0 {
					set["deletion-path:foreign-finalizers-still-on-view"] = true
				}
			}
			if strings.HasPrefix(s.Result, "after:") {
				set["result:after"] = true
			} else if s.Result != "" {
				set["result:"+s.Result] = true
			}
			for _, x := range []struct{ n, v, r string }{{"L", s.Claim.L, s.Claim.Lr}, {"R", s.Claim.R, s.Claim.Rr}, {"I", s.Claim.I, s.Claim.Ir}} {
				if x.v != "" {
					rr := x.r
					if i := strings.Index(rr, "|"); i >= 0 {
						rr = rr[:i]
					}
					set[x.n+"="+x.v+"/"+rr] = true
				}
			}
			if len(s.Nodes) > 1 {
				set["duplicate-node"] = true
			}
			if len(s.Nodes) == 1 && s.Rec {
				// what the Ready gate saw when it was the one that blocked, and the payload the removed / kept taints carried
				rd := s.Nodes[0].Ready
				if rd == "" {
					rd = "N"
				}
				if s.Claim.Ir == "NodeNotReady" {
					set["init-blocked:ready="+rd] = true
				}
				if strings.HasPrefix(s.Claim.Ir, "StartupTaintsExist") || strings.HasPrefix(s.Claim.Ir, "KnownEphemeralTaintsExist") {
					if strings.Count(s.Claim.Ir, "|") == 3 {
						set["init-blocked:taint-with-value"] = true
					}
				}
			}
		}
		set[fmt.Sprintf("instances=%d", okCreates)] = true
	}
	out := make([]string, 0, len(set))
	for k := range set {
		out = append(out, k)
	}
	sort.Strings(out)
	return out
}

func lastCreate(calls []string) string {
	out := "create:none"
	for _, c := range calls {
		if strings.HasPrefix(c, "create:") {
			out = c
		}
	}
	return out
}

// signature: which clause family a failing history belongs to (used only to match known findings)
func histSignature(_ json.RawMessage, implV any) string {
	o := decodeOut(implV)
	if o == nil {
		return "no-output"
	}
	ok := 0
	for _, s := range o.Steps {
		if s.Result == "panic" {
			return "reconcile-panic"
		}
		for _, c := range s.Creates {
			if c.Ok {
				ok++
			}
			if !c.Fin && c.Exists {
				return "create-without-finalizer"
			}
		}
	}
	if ok > 1 {
		return "double-create"
	}
	// a condition that went true on a reconcile handed a copy in which it was not, against what the Node looked like
	prev := ClaimObs{}
	for _, s := range o.Steps {
		if s.Claim.Exists && s.Claim.R == "T" && prev.R != "T" && s.View.R != "T" {
			if len(s.Nodes) != 1 {
				return "registered-without-single-node"
			}
			for _, t := range s.Nodes[0].Taints {
				if t.same(tUnreg) {
					return "registered-with-unregistered-taint"
				}
			}
		}
		if s.Claim.Exists && s.Claim.I == "T" && prev.I != "T" && s.View.I != "T" {
			if len(s.Nodes) != 1 {
				return "initialized-without-single-node"
			}
			if s.Nodes[0].Ready != "T" {
				return "initialized-node-not-ready"
			}
		}
		prev = s.Claim
	}
	return "lifecycle"
}

func histShrink(raw json.RawMessage) []any {
	var in In
	json.Unmarshal(raw, &in)
	var out []any
	for _, c := range core.ShrinkList(in.Steps) {
		out = append(out, In{Claim: in.Claim, Steps: c})
	}
	// drop faults / lags / create outcomes one step at a time
	for i, s := range in.Steps {
		if s.K != "rec" {
			continue
		}
		if len(s.F) > 0 || s.Lag > 0 || s.Create != "" {
			cp := append([]Step{}, in.Steps...)
			if len(s.F) > 0 {
				cp[i].F = nil
			} else if s.Lag > 0 {
				cp[i].Lag = 0
			} else {
				cp[i].Create = ""
			}
			out = append(out, In{Claim: in.Claim, Steps: cp})
		}
	}
	if len(in.Claim.Ff) > 0 {
		c := in.Claim
		c.Ff = c.Ff[:len(c.Ff)-1]
		out = append(out, In{Claim: c, Steps: in.Steps})
	}
	if in.Claim.Em != nil {
		c := in.Claim
		c.Em = nil
		out = append(out, In{Claim: c, Steps: in.Steps})
	}
	if len(in.Claim.Startup) > 0 || len(in.Claim.Taints) > 0 || in.Claim.labelled() || in.Claim.Res != 0 {
		c := in.Claim
		switch {
		case c.Ps != "":
			c.Ps, c.Pool = "", true
		case c.Pool:
			c.Pool = false
		case len(c.Taints) > 0:
			c.Taints = []Taint{}
		case len(c.Startup) > 0:
			c.Startup = c.Startup[:len(c.Startup)-1]
		default:
			c.Res = 0
		}
		out = append(out, In{Claim: c, Steps: in.Steps})
	}
	return out
}

// ---------- c14.faults: every single-fault position x node scripts (exhaustive) ----------

type faultKind struct {
	site, class string // site "create": class is the provider outcome
}

func allFaultKinds() []faultKind {
	var out []faultKind
	for _, fs := range faultSites {
		for _, c := range fs.classes {
			out = append(out, faultKind{fs.site, c})
		}
	}
	for _, c := range createOutcomes {
		out = append(out, faultKind{"create", c})
	}
	return out
}

// node scripts: the node appears (with the unregistered taint, a kubelet not-ready taint, not Ready, resources not
// yet reported, startup taints synced by registration), then the four things that must happen before Initialized
// in some order, a reconcile after every event.
func permutations(xs []string) [][]string {
	if len(xs) <= 1 {
		return [][]string{append([]string{}, xs...)}
	}
	var out [][]string
	for i := range xs {
		rest := append(append([]string{}, xs[:i]...), xs[i+1:]...)
		for _, p := range permutations(rest) {
			out = append(out, append([]string{xs[i]}, p...))
		}
	}
	return out
}

// The script number also picks how the fresh Node looks: which form of the unregistered taint it carries (bare, with a
// value, with a timeAdded stamp, both), whether its kubelet taint carries payload, and what its Ready condition says
// before the "ready" event (False, Unknown, not posted yet).
var (
	scriptUnreg = []Taint{tUnreg, tUnregVal, tUnregStamp, tUnregBoth}
	scriptReady = []string{"F", "U", "N"}
)

func scriptSteps(order []string, nodeBeforeLaunch bool, variant int) []Step {
	notReady := Taint{corev1.TaintNodeNotReady, string(corev1.TaintEffectNoSchedule)}
	onNode := notReady
	if variant%2 == 1 {
		onNode[3] = "1"
	}
	node := Step{K: "node", Taints: []Taint{scriptUnreg[variant%len(scriptUnreg)], onNode}, Rs: scriptReady[variant%len(scriptReady)]}
	var steps []Step
	if nodeBeforeLaunch {
		steps = append(steps, node) // no instance yet: nothing appears
		// ... but the cluster has a Node without provider id that looks just like the one to come
		steps = append(steps, Step{K: "stray", Taints: []Taint{tUnreg}, Rs: "T", Res: true})
	}
	steps = append(steps, Step{K: "rec"}, Step{K: "rec"}, node, Step{K: "rec"})
	for _, ev := range order {
		switch ev {
		case "ready":
			steps = append(steps, Step{K: "ready"})
		case "startup":
			steps = append(steps, Step{K: "rmt", T: &tStartA})
		case "eph":
			steps = append(steps, Step{K: "rmt", T: &notReady})
		case "res":
			steps = append(steps, Step{K: "res"})
		}
		steps = append(steps, Step{K: "rec"})
	}
	return append(steps, Step{K: "rec"})
}

func enumFaults(t core.Tier) []any {
	claim := ClaimIn{Startup: []Taint{tStartA}, Taints: []Taint{tClaim}, Res: 1, Pool: true}
	orders := permutations([]string{"ready", "startup", "eph", "res"})
	if t == core.Quick {
		// six scripts: each event first / last at least once
		orders = [][]string{orders[0], orders[5], orders[9], orders[14], orders[18], orders[23]}
	}
	kinds := allFaultKinds()
	var out []any
	bases := [][]Step{}
	for oi, order := range orders {
		bases = append(bases, scriptSteps(order, oi%2 == 1, oi))
	}
	// one more script: the node shows up complete (no unregistered / kubelet taint, Ready, resources reported), so
	// that registration and initialization fall into the same reconcile
	bases = append(bases, []Step{{K: "rec"}, {K: "node", Taints: []Taint{}, Ready: true, Res: true}, {K: "rec"},
		{K: "rmt", T: &tStartA}, {K: "rec"}, {K: "rec"}})
	for _, base := range bases {
		out = append(out, In{Claim: claim, Steps: base}) // fault free
		for p, s := range base {
			if s.K != "rec" {
				continue
			}
			for _, k := range kinds {
				for _, retryLag := range []int{0, 3} {
					if retryLag > 0 && !(k.site == "nc.status" || k.site == "nc.patch" || k.site == "create") {
						continue
					}
					steps := make([]Step, 0, len(base)+2)
					steps = append(steps, base[:p]...)
					f := Step{K: "rec"}
					if k.site == "create" {
						f.Create = k.class
					} else {
						f.F = map[string]string{k.site: k.class}
					}
					if k.site == "nc.delete" {
						f.Create = "ice" // a delete is only reached through a capacity error (or a liveness timeout)
					}
					// the faulted reconcile, then the retry controller-runtime would make (possibly on a lagging copy)
					steps = append(steps, f, Step{K: "rec", Lag: retryLag}, Step{K: "rec"})
					steps = append(steps, base[p+1:]...)
					out = append(out, In{Claim: claim, Steps: steps})
				}
			}
		}
	}
	// the same scripts for NodeClaims created with finalizers of other controllers (karpenter's own absent / in the
	// middle / after them) and for providers whose error text is long and / or multi-byte: fault free, and one fault at
	// the first reconcile — every error class of the finalizer patch, every provider outcome, a failing delete after a
	// capacity error — followed by retries on the current and on a lagging copy
	variants := []ClaimIn{}
	for _, v := range []struct {
		ff  []string
		fin bool
		em  *ErrMsg
	}{
		{foreignFinalizers[:1], false, nil}, {foreignFinalizers[:2], false, nil}, {foreignFinalizers[:1], true, nil}, {foreignFinalizers[:2], true, nil},
		{nil, false, &ErrMsg{0, 3, 120}}, {nil, false, &ErrMsg{0, 1, 300}}, {nil, true, &ErrMsg{0, 2, 400}}, {foreignFinalizers[:1], false, &ErrMsg{150, 3, 60}},
		{nil, false, &ErrMsg{0, 4, 75}}, {nil, false, &ErrMsg{0, 1, 299}},
	} {
		c := claim
		c.Ff, c.Fin, c.Em = v.ff, v.fin, v.em
		variants = append(variants, c)
	}
	vbases := [][]Step{bases[0], bases[len(bases)-1]}
	if t == core.Thorough {
		vbases = append(append([][]Step{}, bases[:6]...), bases[len(bases)-1])
	}
	for _, c := range variants {
		for _, base := range vbases {
			out = append(out, In{Claim: c, Steps: base})
			for _, k := range kinds {
				if !(k.site == "create" || k.site == "nc.patch.lock" || k.site == "nc.delete" || k.site == "nc.status") {
					continue
				}
				f := Step{K: "rec"}
				if k.site == "create" {
					f.Create = k.class
				} else {
					f.F = map[string]string{k.site: k.class}
				}
				if k.site == "nc.delete" {
					f.Create = "ice"
				}
				for _, retryLag := range []int{0, 2} {
					steps := append([]Step{f, {K: "rec", Lag: retryLag, Create: f.Create}, {K: "rec"}}, base...)
					out = append(out, In{Claim: c, Steps: steps})
				}
			}
		}
	}
	if t == core.Thorough {
		// fault pairs on the first two reconciles (launch) and on the registration reconcile and its retry
		base := scriptSteps(orders[0], false, 0)
		for _, k1 := range kinds {
			for _, k2 := range kinds {
				for _, at := range []int{0, 3} {
					steps := append([]Step{}, base[:at]...)
					for _, k := range []faultKind{k1, k2} {
						f := Step{K: "rec"}
						if k.site == "create" {
							f.Create = k.class
						} else {
							f.F = map[string]string{k.site: k.class}
						}
						steps = append(steps, f)
					}
					steps = append(steps, Step{K: "rec"})
					steps = append(steps, base[at:]...)
					out = append(out, In{Claim: claim, Steps: steps})
				}
			}
		}
	}
	return out
}

// ---------- c14.timeouts: the two liveness deadlines x the NodePool the NodeClaim names (exhaustive) ----------

// enumTimeouts: a NodeClaim that does not get anywhere — launch fails with a retryable error on every attempt, or the
// instance is created and no node (or two nodes) ever shows up — reconciled at the start, half way, and then around
// the deadline (offsets -1, 0, +1 s and far beyond); the reconcile at the deadline meets one fault (or none) at the
// NodePool read / the delete / the status patch and is retried. All of it for every state of the NodePool the
// NodeClaim names: none named, there, gone from the start, re-created with another UID, deleted half way.
func enumTimeouts(t core.Tier) []any {
	type pool struct {
		pool    bool
		ps      string
		delHalf bool
	}
	pools := []pool{{false, "", false}, {true, "", false}, {true, "gone", false}, {true, "other", false}, {true, "", true}}
	modes := []string{"launch:gen", "launch:cerr", "noreg", "noreg:twins"}
	faults := []faultKind{{"", ""}, {"np.get", "notfound"}, {"np.get", "err"}, {"nc.delete", "notfound"}, {"nc.delete", "err"}, {"nc.status", "err"}, {"nc.patch", "notfound"}}
	offsets := []int{-1, 0, 1}
	if t == core.Thorough {
		offsets = []int{-2, -1, 0, 1, 2, 700}
		faults = append(faults, faultKind{"np.get", "conflict"}, faultKind{"nc.status", "notfound"}, faultKind{"node.list", "err"})
	}
	var out []any
	for _, pl := range pools {
		for _, mode := range modes {
			for _, off := range offsets {
				for _, fk := range faults {
					for vi, fin := range []bool{false, true, false, false} {
						if vi > 0 && !(fk.site == "" || fk.site == "np.get") {
							continue
						}
						c := ClaimIn{Startup: []Taint{tStartA}, Taints: []Taint{}, Res: 0, Pool: pl.pool, Ps: pl.ps, Fin: fin}
						switch vi {
						case 2: // created with another controller's finalizer
							c.Ff = foreignFinalizers[:1]
						case 3: // the provider's error text is long and multi-byte (matters when the launch keeps failing)
							if !strings.HasPrefix(mode, "launch:") || fk.site != "" {
								continue
							}
							c.Em = &ErrMsg{0, 3, 120 + 20*len(out)%3}
						}
						create, edge := "", 900
						if strings.HasPrefix(mode, "launch:") {
							create, edge = strings.TrimPrefix(mode, "launch:"), 300
						}
						rec := func() Step { return Step{K: "rec", Create: create} }
						// the clock: every reconcile that patches sleeps one second; the first one always does, later ones only when
						// something changed. Count what is certain and let the offsets (and the sweep's random histories) cover the rest.
						steps := []Step{rec()}
						now := 1
						if mode == "noreg:twins" {
							steps = append(steps, Step{K: "node", Taints: []Taint{tUnreg}, Rs: "F"}, Step{K: "node", Taints: []Taint{tUnreg}, Rs: "F"}, rec())
							now++ // Registered goes False: a patch
						}
						steps = append(steps, Step{K: "adv", Secs: edge/2 - now})
						now = edge / 2
						if pl.delHalf {
							steps = append(steps, Step{K: "pooldel"})
						}
						steps = append(steps, rec())
						if mode == "noreg:twins" {
							// Registered=False since the second reconcile: the registration deadline counts from that transition (t=1)
							steps = append(steps, Step{K: "adv", Secs: edge + 1 + off - now})
						} else {
							steps = append(steps, Step{K: "adv", Secs: edge + off - now})
						}
						at := rec()
						if fk.site != "" {
							at.F = map[string]string{fk.site: fk.class}
						}
						steps = append(steps, at, rec(), Step{K: "adv", Secs: 2}, rec(), Step{K: "rec"})
						out = append(out, In{Claim: c, Steps: steps})
					}
				}
			}
		}
	}
	return out
}

// ---------- c14.gates: every way a fresh Node can look x the gates of Registered / Initialized (exhaustive) ----------

// enumGates: launch; a Node appears in one of the enumerated shapes; two reconciles (registration, initialization);
// then whatever still blocks is cleared one event at a time with a reconcile after each. No faults, current copies.
func enumGates(t core.Tier) []any {
	notReadyNX := Taint{corev1.TaintNodeNotReady, string(corev1.TaintEffectNoExecute)}
	cloud := Taint{"node.cloudprovider.kubernetes.io/uninitialized", "NoSchedule", "true"}
	unregs := []*Taint{nil, &tUnreg, &tUnregVal, &tUnregStamp, &tUnregBoth}
	readys := []string{"T", "F", "U", "N"}
	ephs := [][]Taint{{}, {notReadyNX}, {{notReadyNX[0], notReadyNX[1], "", "3"}}, {cloud}}
	// the NodeClaim's startup taint as the node carries it: not at all, as in the spec, with another value and a stamp
	starts := [][]Taint{{}, {tStartA}, {{tStartA[0], tStartA[1], "pending", "1"}}}
	// dl: the do-not-sync-taints label with a value that does not opt out ("-" = no such label)
	type flags struct {
		res, reg, dns bool
		dl            string
	}
	fl := []flags{{true, false, false, "-"}, {true, false, true, "-"}, {true, false, false, "false"}}
	claims := []ClaimIn{{Startup: []Taint{tStartA}, Taints: []Taint{tClaim}, Res: 1, Pool: true}}
	if t == core.Thorough {
		fl = []flags{{true, false, false, "-"}, {false, false, false, "-"}, {true, true, false, "-"}, {true, false, true, "-"}, {false, true, true, "-"},
			{true, false, false, "false"}, {true, false, false, ""}, {false, true, false, "True"}}
		claims = append(claims,
			ClaimIn{Startup: []Taint{{tStartA[0], tStartA[1], "boot"}}, Taints: []Taint{{tClaim[0], tClaim[1], "gpu"}}, Res: 0, Pool: false},
			ClaimIn{Startup: []Taint{}, Taints: []Taint{}, Res: 2, Pool: true, Fin: true})
	}
	var out []any
	for _, c := range claims {
		for _, u := range unregs {
			for _, rs := range readys {
				for _, eph := range ephs {
					for _, st := range starts {
						for _, f := range fl {
							node := Step{K: "node", Taints: []Taint{}, Rs: rs, Res: f.res, Reg: f.reg, Dns: f.dns}
							if f.dl != "-" {
								v := f.dl
								node.Dl = &v
							}
							node.Taints = append(node.Taints, eph...)
							if u != nil {
								node.Taints = append(node.Taints, *u)
							}
							node.Taints = append(node.Taints, st...)
							steps := []Step{{K: "rec"}, node, {K: "rec"}, {K: "rec"}}
							// clear the blockers: Ready last but one, so that every other gate is open while Ready is still U / N / F
							for _, e := range eph {
								e := e
								steps = append(steps, Step{K: "rmt", T: &e}, Step{K: "rec"})
							}
							steps = append(steps, Step{K: "rmt", T: &tStartA}, Step{K: "rec"})
							if !f.res {
								steps = append(steps, Step{K: "res"}, Step{K: "rec"})
							}
							if rs != "T" {
								steps = append(steps, Step{K: "ready"}, Step{K: "rec"})
							}
							steps = append(steps, Step{K: "rec"})
							out = append(out, In{Claim: c, Steps: steps})
						}
					}
				}
			}
		}
	}
	return out
}

// ---------- c14.init: the exported initialization predicates ----------

type InitIn struct {
	Startup []Taint  `json:"startup"`
	Node    []Taint  `json:"node"`
	Reqs    [][2]int `json:"reqs"`  // requested extended resources: [resource index, quantity]
	Alloc   [][2]int `json:"alloc"` // node allocatable: [resource index, quantity]
}

type InitOut struct {
	Startup   *Taint `json:"startup"`   // first startup taint still on the node (nil: all removed)
	Ephemeral *Taint `json:"ephemeral"` // first known ephemeral taint on the node
	Resources bool   `json:"resources"` // every requested extended resource is reported
}

var initUniverse = []Taint{tStartA, tStartB, tDecoy, tNearEph, tReadyCtl, tOther,
	{corev1.TaintNodeNotReady, "NoSchedule"}, {corev1.TaintNodeNotReady, "NoExecute"}, {corev1.TaintNodeUnreachable, "NoSchedule"},
	{"node.cloudprovider.kubernetes.io/uninitialized", "NoSchedule", "true"}, tUnreg, {"readiness.k8s.io", "NoSchedule"}}

func resNameOf(i int) corev1.ResourceName {
	return corev1.ResourceName(fmt.Sprintf("example.com/dev-%d", i))
}

func implInit(raw json.RawMessage) (any, error) {
	var in InitIn
	if err := json.Unmarshal(raw, &in); err != nil {
		return nil, err
	}
	nc := &v1.NodeClaim{}
	nc.Spec.StartupTaints = toTaints(in.Startup)
	if len(in.Reqs) > 0 {
		nc.Spec.Resources.Requests = corev1.ResourceList{}
		for _, q := range in.Reqs {
			nc.Spec.Resources.Requests[resNameOf(q[0])] = *resource.NewQuantity(int64(q[1]), resource.DecimalSI)
		}
	}
	n := &corev1.Node{}
	n.Spec.Taints = toTaints(in.Node) // with the value / timeAdded the input gives them; MatchTaint must ignore both
	if len(in.Alloc) > 0 {
		n.Status.Allocatable = corev1.ResourceList{}
		for _, q := range in.Alloc {
			n.Status.Allocatable[resNameOf(q[0])] = *resource.NewQuantity(int64(q[1]), resource.DecimalSI)
		}
	}
	out := InitOut{}
	if t, ok := lifecycle.StartupTaintsRemoved(n, nc); !ok {
		tt := taintOf(*t)
		out.Startup = &tt
	}
	if t, ok := lifecycle.KnownEphemeralTaintsRemoved(n); !ok {
		tt := taintOf(*t)
		out.Ephemeral = &tt
	}
	_, out.Resources = lifecycle.RequestedResourcesRegistered(n, nc)
	return out, nil
}

func genInit(r *rand.Rand, _ core.Tier) any {
	in := InitIn{Startup: []Taint{}, Node: []Taint{}, Reqs: [][2]int{}, Alloc: [][2]int{}}
	for i, n := 0, r.IntN(4); i < n; i++ {
		in.Startup = appendUniq(in.Startup, vary(r, pick(r, initUniverse[:6])))
	}
	for i, n := 0, r.IntN(6); i < n; i++ {
		in.Node = appendUniq(in.Node, vary(r, pick(r, initUniverse)))
	}
	for i := 0; i < 3; i++ {
		if r.IntN(2) == 0 {
			in.Reqs = append(in.Reqs, [2]int{i, r.IntN(3)})
		}
		if r.IntN(2) == 0 {
			in.Alloc = append(in.Alloc, [2]int{i, r.IntN(2) * (1 + r.IntN(3))})
		}
	}
	return in
}

func enumInit(_ core.Tier) []any {
	var out []any
	// every ordered startup list of length <= 2 over 3 taints x every node taint *pair order* over a 7-taint universe
	st := []Taint{tStartA, tStartB, tDecoy}
	startups := [][]Taint{{}}
	for _, a := range st {
		startups = append(startups, []Taint{a})
		for _, b := range st {
			if a != b {
				startups = append(startups, []Taint{a, b})
			}
		}
	}
	uni := []Taint{tStartA, tStartB, tDecoy, tNearEph, tReadyCtl, {corev1.TaintNodeNotReady, "NoExecute"}, tUnreg}
	// the same universe as a real Node carries it: values and timeAdded stamps on (identity is key + effect)
	uniPayload := []Taint{{tStartA[0], tStartA[1], "pending"}, {tStartB[0], tStartB[1], "", "1"}, {tDecoy[0], tDecoy[1], "x", "2"}, tNearEph,
		{tReadyCtl[0], tReadyCtl[1], "true"}, {corev1.TaintNodeNotReady, "NoExecute", "", "3"}, tUnregBoth}
	for pass, uni := range [][]Taint{uni, uniPayload} {
		for _, s := range startups {
			if pass == 1 && len(s) == 2 {
				continue
			}
			for mask := 0; mask < 1<<len(uni); mask++ {
				var nt []Taint
				for i, t := range uni {
					if mask&(1<<i) != 0 {
						nt = append(nt, t)
					}
				}
				if nt == nil {
					nt = []Taint{}
				}
				out = append(out, InitIn{Startup: s, Node: nt, Reqs: [][2]int{}, Alloc: [][2]int{}})
				if len(nt) >= 2 { // reversed node order: which taint is reported first
					rev := make([]Taint, len(nt))
					for i := range nt {
						rev[len(nt)-1-i] = nt[i]
					}
					out = append(out, InitIn{Startup: s, Node: rev, Reqs: [][2]int{}, Alloc: [][2]int{}})
				}
			}
		}
	}
	// resources: one or two requested resources x quantities {0,1} x allocatable {absent, 0, 1}
	for q0 := -1; q0 <= 1; q0++ {
		for q1 := -1; q1 <= 1; q1++ {
			for a0 := -1; a0 <= 1; a0++ {
				for a1 := -1; a1 <= 1; a1++ {
					in := InitIn{Startup: []Taint{}, Node: []Taint{}, Reqs: [][2]int{}, Alloc: [][2]int{}}
					if q0 >= 0 {
						in.Reqs = append(in.Reqs, [2]int{0, q0})
					}
					if q1 >= 0 {
						in.Reqs = append(in.Reqs, [2]int{1, q1})
					}
					if a0 >= 0 {
						in.Alloc = append(in.Alloc, [2]int{0, a0})
					}
					if a1 >= 0 {
						in.Alloc = append(in.Alloc, [2]int{1, a1})
					}
					out = append(out, in)
				}
			}
		}
	}
	return out
}

func Ops() []*core.Op {
	return []*core.Op{
		{
			Name: "c14.lifecycle",
			Doc:  "the real lifecycle.Controller.Reconcile on the fake client + fake cloud provider, driven by random histories: reconciles (fresh or lagging copy, injected faults on every API write / node list / provider Create) interleaved with node events, clock steps to the liveness edges and user deletes; one controller (launch cache kept) per history; one NodeClaim in four is created with one or two finalizers of other controllers (karpenter's own absent / after the first of them), one in four meets a provider whose error text is long and / or multi-byte (around the 300-byte limit of truncateMessage)",
			N: func(t core.Tier) int {
				if t == core.Thorough {
					return 20000
				}
				return 2000
			},
			Gen:        genHistory,
			Impl:       impl,
			Rule:       "non-trivial = provider Create is reached at least once; distinct = distinct (claim, step list)",
			Nontrivial: reachedCreate,
			Labels:     histLabels,
			Signature:  histSignature,
			Shrink:     histShrink,
		},
		{
			Name:           "c14.faults",
			Doc:            "the same controller on scripted histories: node appears, then Ready / startup taint removed / kubelet taint removed / extended resource reported in every order (6 orders quick, all 24 thorough), a reconcile after every event; for every reconcile position and every (call site, error class) one injected fault followed by the retry (on the current or a lagging copy); thorough adds all fault pairs on launch and registration; the first and the last script (thorough: the first six and the last) again for NodeClaims created with finalizers of other controllers (4 layouts) and for providers with long / multi-byte error texts (6 shapes): fault free and with one fault at the first reconcile (finalizer patch, provider outcome, delete after a capacity error, status patch) retried on the current and on a lagging copy",
			N:              func(core.Tier) int { return 0 },
			Enum:           enumFaults,
			Impl:           impl,
			Rule:           "non-trivial = provider Create is reached",
			ExhaustiveNote: "every single-fault position x {7 call sites x their error classes, 4 provider Create outcomes} x node scripts",
			Nontrivial:     reachedCreate,
			Labels:         histLabels,
			Signature:      histSignature,
			Shrink:         histShrink,
		},
		{
			Name:           "c14.timeouts",
			Doc:            "the same controller on NodeClaims that get stuck: every launch attempt fails with a retryable error (generic, CreateError), or the instance is created and no node / two nodes show up; reconciled at the start, half way and at the launch (5m) / registration (15m) deadline -1, 0, +1 s (thorough: -2..+2 and far beyond), the reconcile at the deadline with one fault at the NodePool read / NodeClaim delete / status or metadata patch and its retries; for every state of the NodePool the NodeClaim's label names: none named, there and owning, gone from the start, re-created under the same name (other UID), deleted half way",
			N:              func(core.Tier) int { return 0 },
			Enum:           enumTimeouts,
			Impl:           impl,
			Rule:           "non-trivial = provider Create is reached",
			ExhaustiveNote: "5 NodePool states x {launch fails gen / cerr, never registers, two nodes} x deadline offsets x {no fault, NodePool read notfound / err, delete notfound / err, status err, metadata notfound} x finalizer pre-set or not / another controller's finalizer present / (launch fails:) a 360..366-byte multi-byte provider error text",
			Nontrivial:     reachedCreate,
			Labels:         histLabels,
			Signature:      histSignature,
			Shrink:         histShrink,
		},
		{
			Name:           "c14.gates",
			Doc:            "the same controller, fault free, on every shape of a fresh Node: unregistered taint {absent, bare, with value, with timeAdded, both} x Ready condition {True, False, Unknown, not posted} x kubelet / cloud-provider taint {none, bare, stamped, with value} x the NodeClaim's startup taint on the node {absent, as in the spec, other value + stamp} x the karpenter.sh/do-not-sync-taints label {absent, \"true\" (opts out), \"false\" (does not)} (thorough: x resource reported / registered label / do-not-sync-taints x 3 NodeClaim specs); reconciled, then every remaining blocker cleared one event at a time (Ready last) with a reconcile after each",
			N:              func(core.Tier) int { return 0 },
			Enum:           enumGates,
			Impl:           impl,
			Rule:           "non-trivial = provider Create is reached",
			ExhaustiveNote: "5 unregistered-taint forms x 4 Ready states x 4 ephemeral-taint forms x 3 startup-taint forms x do-not-sync-taints {absent, \"true\", \"false\"} (x 8 flag sets incl. the label values \"\" and \"True\" x 3 claims in the thorough tier)",
			Nontrivial:     reachedCreate,
			Labels:         histLabels,
			Signature:      histSignature,
			Shrink:         histShrink,
		},
		{
			Name: "c14.init",
			Doc:  "lifecycle.StartupTaintsRemoved / KnownEphemeralTaintsRemoved / RequestedResourcesRegistered on generated (NodeClaim, Node) pairs: which taint is reported, whether every requested extended resource is registered",
			N: func(t core.Tier) int {
				if t == core.Thorough {
					return 20000
				}
				return 2000
			},
			Gen:            genInit,
			Enum:           enumInit,
			Impl:           implInit,
			Rule:           "non-trivial = the node has at least one taint or a resource is requested",
			ExhaustiveNote: "ordered startup lists (<=2 of 3) x all subsets of a 7-taint universe in both orders; 2 resources x request {absent,0,1} x allocatable {absent,0,1}",
			Nontrivial: func(raw json.RawMessage, _ any) bool {
				var in InitIn
				json.Unmarshal(raw, &in)
				return len(in.Node) > 0 || len(in.Reqs) > 0
			},
			Labels: func(raw json.RawMessage, implV any) []string {
				var in InitIn
				json.Unmarshal(raw, &in)
				l := []string{fmt.Sprintf("startup=%d", len(in.Startup)), fmt.Sprintf("node-taints=%d", len(in.Node)), fmt.Sprintf("reqs=%d", len(in.Reqs))}
				b, _ := json.Marshal(implV)
				var o InitOut
				json.Unmarshal(b, &o)
				if o.Startup != nil {
					l = append(l, "startup-taint-present")
				}
				if o.Ephemeral != nil {
					l = append(l, "ephemeral-taint-present")
				}
				if !o.Resources {
					l = append(l, "resource-missing")
				}
				return l
			},
			Signature: func(json.RawMessage, any) string { return "init" },
			Shrink: func(raw json.RawMessage) []any {
				var in InitIn
				json.Unmarshal(raw, &in)
				var out []any
				for _, c := range core.ShrinkList(in.Node) {
					out = append(out, InitIn{Startup: in.Startup, Node: c, Reqs: in.Reqs, Alloc: in.Alloc})
				}
				for _, c := range core.ShrinkList(in.Startup) {
					out = append(out, InitIn{Startup: c, Node: in.Node, Reqs: in.Reqs, Alloc: in.Alloc})
				}
				for _, c := range core.ShrinkList(in.Reqs) {
					out = append(out, InitIn{Startup: in.Startup, Node: in.Node, Reqs: c, Alloc: in.Alloc})
				}
				return out
			},
		},
	}
}
