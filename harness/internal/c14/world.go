// Package c14: NodeClaim lifecycle (launch once, finalizer first, Launched -> Registered -> Initialized,
// capacity errors delete) — the REAL lifecycle controller on the fake client vs the Lean model.
package c14

import (
	"context"
	"encoding/json"
	"strconv"

	"errors"
	"fmt"
	"github.com/go-logr/logr"
	"regexp"
	"sort"
	"strings"
	"time"

	corev1 "k8s.io/api/core/v1"
	apierrors "k8s.io/apimachinery/pkg/api/errors"
	"k8s.io/apimachinery/pkg/api/resource"
	metav1 "k8s.io/apimachinery/pkg/apis/meta/v1"
	"k8s.io/apimachinery/pkg/runtime"
	"k8s.io/apimachinery/pkg/runtime/schema"
	"k8s.io/apimachinery/pkg/types"
	clocktesting "k8s.io/utils/clock/testing"
	"sigs.k8s.io/controller-runtime/pkg/client"
	"sigs.k8s.io/controller-runtime/pkg/client/fake"
	"sigs.k8s.io/controller-runtime/pkg/client/interceptor"
	"sigs.k8s.io/controller-runtime/pkg/log"
	"sigs.k8s.io/controller-runtime/pkg/reconcile"

	_ "sigs.k8s.io/karpenter/pkg/apis"
	v1 "sigs.k8s.io/karpenter/pkg/apis/v1"
	"sigs.k8s.io/karpenter/pkg/cloudprovider"
	fakecp "sigs.k8s.io/karpenter/pkg/cloudprovider/fake"
	"sigs.k8s.io/karpenter/pkg/controllers/nodeclaim/lifecycle"
	"sigs.k8s.io/karpenter/pkg/operator/options"
	"sigs.k8s.io/karpenter/pkg/state/nodepoolhealth"
	"sigs.k8s.io/karpenter/pkg/test"
	"sigs.k8s.io/karpenter/pkg/test/v1alpha1"
)

// ---------- protocol types (shared with lean/Karp/Driver/C14.lean) ----------

// Taint is [key, effect, value, timeAdded]: key and effect identify a taint (Taint.MatchTaint, and the API server
// refuses two taints with the same key and effect on one Node); value and timeAdded (seconds since the start of the
// history, "" = nil) are payload that taints written by kubelet (--register-with-taints=k=v:e), the cloud controller
// manager and the node lifecycle controller carry. JSON: trailing empty fields are dropped, [key, effect] is valid.
type Taint [4]string

func (t Taint) MarshalJSON() ([]byte, error) {
	n := 4
	for n > 2 && t[n-1] == "" {
		n--
	}
	return json.Marshal(t[:n])
}

func (t Taint) same(u Taint) bool { return t[0] == u[0] && t[1] == u[1] }

func (t Taint) core() corev1.Taint {
	out := corev1.Taint{Key: t[0], Effect: corev1.TaintEffect(t[1]), Value: t[2]}
	if t[3] != "" {
		secs, err := strconv.Atoi(t[3])
		if err != nil {
			panic(fmt.Sprintf("bad timeAdded %q", t[3]))
		}
		ts := metav1.NewTime(t0.Add(time.Duration(secs) * time.Second))
		out.TimeAdded = &ts
	}
	return out
}

func taintOf(t corev1.Taint) Taint {
	out := Taint{t.Key, string(t.Effect), t.Value, ""}
	if t.TimeAdded != nil {
		out[3] = strconv.Itoa(int(t.TimeAdded.Time.Sub(t0) / time.Second))
	}
	return out
}

type ClaimIn struct {
	Startup []Taint `json:"startup"` // spec.startupTaints
	Taints  []Taint `json:"taints"`  // spec.taints
	Res     int     `json:"res"`     // 0: no extended resource requested, 1: requested (non-zero), 2: requested with quantity 0
	Pool    bool    `json:"pool"`    // owned by a NodePool (label + owner reference)
	// Ps: the NodePool the label names, when it is not simply there: "gone" = label and owner reference but no such
	// NodePool (deleted while the NodeClaim is still around), "other" = a NodePool of that name with another UID (deleted
	// and re-created: the owner reference no longer matches). "" with Pool: the NodePool exists and owns the NodeClaim.
	Ps string `json:"ps,omitempty"`
	Fin     bool    `json:"fin"`     // termination finalizer already present when the history starts
	// Ff: finalizers of OTHER controllers the NodeClaim is created with (a provider-specific controller, a backup / GitOps
	// tool, metadata.finalizers of a hand-written manifest). The first one precedes karpenter's own finalizer in the list
	// (when Fin), the others follow it. Their owners release them as soon as the NodeClaim is terminating (after the step
	// that made it so): a foreign finalizer never holds a NodeClaim back once karpenter's own is gone.
	Ff []string `json:"ff,omitempty"`
	// Em: the text of the error the provider's Create answers with (every error class), nil = a short ASCII text
	Em *ErrMsg `json:"em,omitempty"`
}

// ErrMsg: Pre ASCII characters followed by N characters of W bytes each (W = 1..4: 'y', U+00E9, U+5BB9, U+1F600)
type ErrMsg struct {
	Pre int `json:"pre"`
	W   int `json:"w"`
	N   int `json:"n"`
}

var errRunes = map[int]string{1: "y", 2: "\u00e9", 3: "\u5bb9", 4: "\U0001F600"}

func (m *ErrMsg) text() string {
	r, ok := errRunes[m.W]
	if !ok || m.Pre < 0 || m.N < 0 {
		panic(fmt.Sprintf("bad error text shape %+v", *m))
	}
	return strings.Repeat("x", m.Pre) + strings.Repeat(r, m.N)
}

func (m *ErrMsg) bytes() int { return m.Pre + m.W*m.N }
func (m *ErrMsg) runes() int { return m.Pre + m.N }

// aligned: byte `at` of the text is a character boundary (or beyond its end)
func (m *ErrMsg) aligned(at int) bool {
	return m.bytes() <= at || m.Pre >= at || (at-m.Pre)%m.W == 0
}

type Step struct {
	K string `json:"k"`
	// rec
	Lag    int               `json:"lag,omitempty"`    // hand Reconcile the object as it was `lag` steps ago (clipped: views never go backwards)
	Create string            `json:"create,omitempty"` // outcome of provider Create if it is reached: "" ok | ice | ncnr | gen | cerr
	F      map[string]string `json:"f,omitempty"`      // call site -> injected error class (conflict | notfound | err)
	// node
	Taints []Taint `json:"taints,omitempty"`
	Ready  bool    `json:"ready,omitempty"` // Ready condition True / False ...
	Rs     string  `json:"rs,omitempty"`    // ... unless given here: T | F | U (Unknown) | N (no Ready condition posted yet)
	Res    bool    `json:"res,omitempty"`
	Dns    bool    `json:"dns,omitempty"` // karpenter.sh/do-not-sync-taints=true
	// Dl: the value of the karpenter.sh/do-not-sync-taints label when it is there with something other than "true" (only
	// "true" opts out): "false", "" (present, empty), "True", "1", ... — nil: see Dns
	Dl *string `json:"dl,omitempty"`
	Reg    bool    `json:"reg,omitempty"` // karpenter.sh/registered label already present
	// stray: a Node that does not belong to this NodeClaim: Pid "" = no provider id (yet), anything else = the id of
	// some other instance; taints / ready / res as for "node"
	Pid string `json:"pid,omitempty"`
	// addt / rmt
	T *Taint `json:"t,omitempty"`
	// adv
	Secs int `json:"secs,omitempty"`
}

type In struct {
	Claim ClaimIn `json:"claim"`
	Steps []Step  `json:"steps"`
}

type ClaimObs struct {
	Exists bool   `json:"exists,omitempty"`
	Fin    bool   `json:"fin,omitempty"`
	Del    bool   `json:"del,omitempty"`
	Conds  bool   `json:"conds,omitempty"` // status.conditions initialised
	L      string `json:"L,omitempty"`     // T | F | U
	R      string `json:"R,omitempty"`
	I      string `json:"I,omitempty"`
	Lr     string `json:"Lr,omitempty"` // reason (+ "|key|effect[|value]" detail where the message names a taint)
	Rr     string `json:"Rr,omitempty"`
	Ir     string `json:"Ir,omitempty"`
	Lt     int    `json:"Lt,omitempty"` // lastTransitionTime, seconds since the start of the history
	Rt     int    `json:"Rt,omitempty"`
	It     int    `json:"It,omitempty"`
	Pid    bool   `json:"pid,omitempty"`     // status.providerID set
	PLabel bool   `json:"plabels,omitempty"` // provider-resolved labels present
	Node   bool   `json:"nodeName,omitempty"`
	Ff     []string `json:"ff,omitempty"` // finalizers other than karpenter's, in list order
	Lm     int      `json:"Lm,omitempty"` // byte length of the Launched condition's message when its reason is LaunchFailed
}

type NodeObs struct {
	Taints []Taint `json:"taints,omitempty"`
	Fin    bool    `json:"fin,omitempty"`
	Owner  bool    `json:"owner,omitempty"`
	ULabel bool    `json:"ulabels,omitempty"` // the NodeClaim's own labels are on the node
	PLabel bool    `json:"plabels,omitempty"` // the provider-resolved labels are on the node
	Reg    bool    `json:"reg,omitempty"`
	Init   bool    `json:"init,omitempty"`
	Dns    bool    `json:"dns,omitempty"`
	Ready  string  `json:"ready,omitempty"` // status of the Ready condition: T | F | U, absent: no such condition
	Res    bool    `json:"res,omitempty"`
}

type CreateObs struct {
	Ok     bool `json:"ok,omitempty"`     // the provider created an instance
	Fin    bool `json:"fin,omitempty"`    // the API server's copy of the NodeClaim carried the termination finalizer at call time
	Exists bool `json:"exists,omitempty"` // the API server still had the NodeClaim at call time
}

type StepObs struct {
	Rec     bool        `json:"rec,omitempty"`
	Calls   []string    `json:"calls,omitempty"`   // writes and provider calls in order, "site:outcome"
	Reads   int         `json:"reads,omitempty"`   // node list calls (not compared with the model)
	Result  string      `json:"result,omitempty"`  // ok | requeue | after:<s> | err | panic (Reconcile panicked; controller-runtime recovers and retries)
	View    ClaimObs    `json:"view,omitempty"`    // what Reconcile was handed
	Claim   ClaimObs    `json:"claim,omitempty"`   // API server state after the step
	Nodes   []NodeObs   `json:"nodes,omitempty"`   // nodes carrying the instance's provider id, by name
	Strays  []NodeObs   `json:"strays,omitempty"`  // every other Node of the cluster, by name
	Creates []CreateObs `json:"creates,omitempty"` // provider Create calls made in this step
	Inst    int         `json:"instances,omitempty"`
	Now     int         `json:"now,omitempty"`
}

type Out struct {
	Steps []StepObs `json:"steps"`
}

// ---------- the world ----------

const (
	claimName   = "claim-a"
	claimUID    = "uid-claim-a"
	poolName    = "pool-a"
	poolUID     = "uid-pool-a"
	userLabel   = "example.com/team"
	customCause = "CustomReason"
	// the generic provider error's text when the input gives none (the Lean driver knows its length: 20 bytes)
	defaultGenericText = "provider unavailable"
)

var resName = fakecp.ResourceGPUVendorA

// a private, small scheme: the fake client's tracker walks every known type on each write
var smallScheme = func() *runtime.Scheme {
	s := runtime.NewScheme()
	metav1.AddToGroupVersion(s, corev1.SchemeGroupVersion)
	s.AddKnownTypes(corev1.SchemeGroupVersion, &corev1.Node{}, &corev1.NodeList{})
	gv := schema.GroupVersion{Group: "karpenter.sh", Version: "v1"}
	metav1.AddToGroupVersion(s, gv)
	s.AddKnownTypes(gv, &v1.NodePool{}, &v1.NodePoolList{}, &v1.NodeClaim{}, &v1.NodeClaimList{})
	return s
}()

func init() { log.SetLogger(logr.Discard()) }

var t0 = time.Date(2026, 1, 1, 0, 0, 0, 0, time.UTC)

var errInjected = errors.New("injected failure")

type world struct {
	ctx   context.Context
	base  client.WithWatch
	cl    client.Client
	clk   *clocktesting.FakeClock
	cp    *provider
	ctrl  *lifecycle.Controller
	in    ClaimIn
	insts []string // provider ids of created instances, in order

	// per reconcile
	faults  map[string]string
	create  string
	calls   []string
	reads   int
	creates []CreateObs

	nodeSeq  int
	straySeq int
	versions []*v1.NodeClaim // API server copy after every step (nil = gone); versions[0] = initial
	lastView int
}

type provider struct {
	*fakecp.CloudProvider
	w *world
}

func (p *provider) Create(ctx context.Context, nc *v1.NodeClaim) (*v1.NodeClaim, error) {
	w := p.w
	cur := &v1.NodeClaim{}
	err := w.base.Get(ctx, types.NamespacedName{Name: claimName}, cur)
	obs := CreateObs{Exists: err == nil}
	if err == nil {
		obs.Fin = hasFinalizer(cur.Finalizers)
	}
	text := func(def string) error {
		if w.in.Em != nil {
			return errors.New(w.in.Em.text())
		}
		return errors.New(def)
	}
	switch w.create {
	case "ice":
		p.CloudProvider.NextCreateErr = cloudprovider.NewInsufficientCapacityError(text("no capacity"))
	case "ncnr":
		p.CloudProvider.NextCreateErr = cloudprovider.NewNodeClassNotReadyError(text("nodeclass not ready"))
	case "gen":
		p.CloudProvider.NextCreateErr = text(defaultGenericText)
	case "cerr":
		p.CloudProvider.NextCreateErr = cloudprovider.NewCreateError(text("launch refused"), customCause, "instance creation failed")
	}
	out, cerr := p.CloudProvider.Create(ctx, nc)
	cls := "ok"
	if cerr != nil {
		cls = w.create
		if cls == "" {
			cls = "err"
		}
	} else {
		obs.Ok = true
		w.insts = append(w.insts, out.Status.ProviderID)
	}
	w.calls = append(w.calls, "create:"+cls)
	w.creates = append(w.creates, obs)
	return out, cerr
}

// labelled: the NodeClaim carries the karpenter.sh/nodepool label (and an owner reference to that NodePool)
func (c ClaimIn) labelled() bool { return c.Pool || c.Ps != "" }

func hasFinalizer(fs []string) bool {
	for _, f := range fs {
		if f == v1.TerminationFinalizer {
			return true
		}
	}
	return false
}

func classify(err error) string {
	switch {
	case err == nil:
		return "ok"
	case apierrors.IsConflict(err):
		return "conflict"
	case apierrors.IsNotFound(err):
		return "notfound"
	}
	return "err"
}

func injected(class string, gr schema.GroupResource, name string) error {
	switch class {
	case "conflict":
		return apierrors.NewConflict(gr, name, fmt.Errorf("injected conflict"))
	case "notfound":
		return apierrors.NewNotFound(gr, name)
	}
	return errInjected
}

func kindOf(obj any) (string, schema.GroupResource) {
	switch obj.(type) {
	case *v1.NodeClaim, *v1.NodeClaimList:
		return "nc", schema.GroupResource{Group: "karpenter.sh", Resource: "nodeclaims"}
	case *corev1.Node, *corev1.NodeList:
		return "node", schema.GroupResource{Resource: "nodes"}
	case *v1.NodePool:
		return "np", schema.GroupResource{Group: "karpenter.sh", Resource: "nodepools"}
	}
	return "", schema.GroupResource{}
}

// do runs one intercepted call: an injected fault replaces the call, otherwise the fake client decides.
func (w *world) do(site string, gr schema.GroupResource, name string, real func() error) error {
	var err error
	if c, ok := w.faults[site]; ok {
		err = injected(c, gr, name)
	} else {
		err = real()
	}
	w.calls = append(w.calls, site+":"+classify(err))
	return err
}

func isLockPatch(obj client.Object, p client.Patch) bool {
	b, err := p.Data(obj)
	return err == nil && strings.Contains(string(b), `"resourceVersion"`)
}

func newWorld(in ClaimIn) *world {
	w := &world{in: in, faults: map[string]string{}}
	w.ctx = options.ToContext(context.Background(), test.Options())
	w.clk = clocktesting.NewFakeClock(t0)

	nc := &v1.NodeClaim{
		ObjectMeta: metav1.ObjectMeta{
			Name:              claimName,
			UID:               claimUID,
			CreationTimestamp: metav1.NewTime(t0),
			Labels:            map[string]string{userLabel: "a"},
		},
		Spec: v1.NodeClaimSpec{
			NodeClassRef: &v1.NodeClassReference{Group: "karpenter.test.sh", Kind: "TestNodeClass", Name: "default"},
			Requirements: []v1.NodeSelectorRequirementWithMinValues{},
		},
	}
	nc.Spec.StartupTaints = toTaints(in.Startup)
	nc.Spec.Taints = toTaints(in.Taints)
	switch in.Res {
	case 1:
		nc.Spec.Resources.Requests = corev1.ResourceList{resName: resource.MustParse("1")}
	case 2:
		nc.Spec.Resources.Requests = corev1.ResourceList{resName: resource.MustParse("0")}
	}
	for i, f := range in.Ff {
		if f == "" || f == v1.TerminationFinalizer {
			panic(fmt.Sprintf("bad foreign finalizer %q", f))
		}
		if i == 1 && in.Fin {
			nc.Finalizers = append(nc.Finalizers, v1.TerminationFinalizer)
		}
		nc.Finalizers = append(nc.Finalizers, f)
	}
	if in.Fin && len(in.Ff) < 2 {
		nc.Finalizers = append(nc.Finalizers, v1.TerminationFinalizer)
	}
	objs := []client.Object{nc}
	if in.labelled() {
		np := &v1.NodePool{
			ObjectMeta: metav1.ObjectMeta{Name: poolName, UID: poolUID, CreationTimestamp: metav1.NewTime(t0)},
			Spec: v1.NodePoolSpec{Template: v1.NodeClaimTemplate{Spec: v1.NodeClaimTemplateSpec{
				NodeClassRef: &v1.NodeClassReference{Group: "karpenter.test.sh", Kind: "TestNodeClass", Name: "default"},
				Requirements: []v1.NodeSelectorRequirementWithMinValues{},
			}}},
		}
		nc.Labels[v1.NodePoolLabelKey] = poolName
		nc.OwnerReferences = []metav1.OwnerReference{{APIVersion: "karpenter.sh/v1", Kind: "NodePool", Name: poolName, UID: poolUID}}
		switch in.Ps {
		case "":
			objs = append(objs, np)
		case "other":
			np.UID = poolUID + "-recreated"
			objs = append(objs, np)
		case "gone":
		default:
			panic(fmt.Sprintf("bad pool state %q", in.Ps))
		}
	}
	_ = v1alpha1.Group // make sure the test node class is registered in the scheme (package init)
	w.base = fake.NewClientBuilder().WithScheme(smallScheme).
		WithStatusSubresource(&v1.NodeClaim{}, &v1.NodePool{}).
		WithIndex(&corev1.Node{}, "spec.providerID", func(o client.Object) []string { return []string{o.(*corev1.Node).Spec.ProviderID} }).
		WithObjects(objs...).Build()
	w.cl = interceptor.NewClient(w.base, interceptor.Funcs{
		Patch: func(ctx context.Context, c client.WithWatch, obj client.Object, p client.Patch, opts ...client.PatchOption) error {
			k, gr := kindOf(obj)
			if k == "" || k == "np" {
				return c.Patch(ctx, obj, p, opts...)
			}
			site := k + ".patch"
			if isLockPatch(obj, p) {
				site += ".lock"
			}
			return w.do(site, gr, obj.GetName(), func() error { return c.Patch(ctx, obj, p, opts...) })
		},
		SubResourcePatch: func(ctx context.Context, c client.Client, sub string, obj client.Object, p client.Patch, opts ...client.SubResourcePatchOption) error {
			k, gr := kindOf(obj)
			if k == "" || k == "np" { // the NodePool's registration-health condition is C20's subject
				return c.SubResource(sub).Patch(ctx, obj, p, opts...)
			}
			site := k + "." + sub
			if isLockPatch(obj, p) {
				site += ".lock"
			}
			return w.do(site, gr, obj.GetName(), func() error { return c.SubResource(sub).Patch(ctx, obj, p, opts...) })
		},
		Delete: func(ctx context.Context, c client.WithWatch, obj client.Object, opts ...client.DeleteOption) error {
			k, gr := kindOf(obj)
			if k == "" || k == "np" {
				return c.Delete(ctx, obj, opts...)
			}
			return w.do(k+".delete", gr, obj.GetName(), func() error { return c.Delete(ctx, obj, opts...) })
		},
		// the NodePool read of updateNodePoolRegistrationHealth (registration.go, liveness.go): part of the call log
		Get: func(ctx context.Context, c client.WithWatch, key client.ObjectKey, obj client.Object, opts ...client.GetOption) error {
			k, gr := kindOf(obj)
			if k != "np" {
				return c.Get(ctx, key, obj, opts...)
			}
			return w.do("np.get", gr, key.Name, func() error { return c.Get(ctx, key, obj, opts...) })
		},
		List: func(ctx context.Context, c client.WithWatch, list client.ObjectList, opts ...client.ListOption) error {
			k, _ := kindOf(list)
			if k != "node" {
				return c.List(ctx, list, opts...)
			}
			w.reads++
			if _, ok := w.faults["node.list"]; ok {
				return errInjected
			}
			return c.List(ctx, list, opts...)
		},
	})
	w.cp = &provider{CloudProvider: fakecp.NewCloudProvider(), w: w}
	w.ctrl = lifecycle.NewController(w.clk, w.cl, w.cp, test.NewEventRecorder(), nodepoolhealth.NewState(), nil)
	w.versions = []*v1.NodeClaim{w.serverClaim()}
	return w
}

func (w *world) serverClaim() *v1.NodeClaim {
	cur := &v1.NodeClaim{}
	if err := w.base.Get(w.ctx, types.NamespacedName{Name: claimName}, cur); err != nil {
		return nil
	}
	return cur
}

// nodes: the Nodes that carry the provider id of an instance created for the NodeClaim (stray = false), or all the
// others (stray = true), oldest first
func (w *world) nodes(stray bool) []*corev1.Node {
	l := &corev1.NodeList{}
	if err := w.base.List(w.ctx, l); err != nil {
		panic(err)
	}
	out := []*corev1.Node{}
	for i := range l.Items {
		own := false
		for _, id := range w.insts {
			own = own || l.Items[i].Spec.ProviderID == id
		}
		if own != stray {
			out = append(out, &l.Items[i])
		}
	}
	sort.Slice(out, func(i, j int) bool {
		return out[i].CreationTimestamp.Before(&out[j].CreationTimestamp) || (out[i].CreationTimestamp.Equal(&out[j].CreationTimestamp) && out[i].Name < out[j].Name)
	})
	return out
}

func toTaints(ts []Taint) []corev1.Taint {
	var out []corev1.Taint
	for _, t := range ts {
		out = append(out, t.core())
	}
	return out
}

// readyConditions: the Node's status.conditions for a Ready status T | F | U | N (N: the kubelet has not posted Ready
// yet). Other conditions are always there, one of them True, so that the Ready condition has to be looked up by type.
func readyConditions(rs string) []corev1.NodeCondition {
	conds := []corev1.NodeCondition{
		{Type: corev1.NodeMemoryPressure, Status: corev1.ConditionFalse, Reason: "KubeletHasSufficientMemory"},
		{Type: "example.com/AgentHealthy", Status: corev1.ConditionTrue, Reason: "AgentRunning"},
	}
	switch rs {
	case "T":
		conds = append(conds, corev1.NodeCondition{Type: corev1.NodeReady, Status: corev1.ConditionTrue, Reason: "KubeletReady"})
	case "F":
		conds = append(conds, corev1.NodeCondition{Type: corev1.NodeReady, Status: corev1.ConditionFalse, Reason: "KubeletNotReady"})
	case "U":
		conds = append(conds, corev1.NodeCondition{Type: corev1.NodeReady, Status: corev1.ConditionUnknown, Reason: "NodeStatusUnknown"})
	case "N":
	default:
		panic(fmt.Sprintf("bad Ready status %q", rs))
	}
	return conds
}

func (w *world) updateNode(f func(n *corev1.Node)) {
	ns := w.nodes(false)
	if len(ns) == 0 {
		return
	}
	n := ns[0]
	f(n)
	want := n.Status.DeepCopy()
	if err := w.base.Update(w.ctx, n); err != nil { // metadata + spec (the fake client ignores status here)
		panic(err)
	}
	n.Status = *want
	if err := w.base.Status().Update(w.ctx, n); err != nil {
		panic(err)
	}
}

func (w *world) env(s Step) error {
	switch s.K {
	case "node":
		if len(w.insts) == 0 {
			return nil // no instance, no kubelet
		}
		w.nodeSeq++
		n := &corev1.Node{
			ObjectMeta: metav1.ObjectMeta{
				Name:              fmt.Sprintf("node-%02d", w.nodeSeq),
				UID:               types.UID(fmt.Sprintf("uid-node-%02d", w.nodeSeq)),
				CreationTimestamp: metav1.NewTime(t0.Add(time.Duration(w.nodeSeq) * time.Second)),
				Labels:            map[string]string{corev1.LabelHostname: fmt.Sprintf("node-%02d", w.nodeSeq)},
			},
			Spec:   corev1.NodeSpec{ProviderID: w.insts[0], Taints: toTaints(s.Taints)},
			Status: corev1.NodeStatus{Conditions: readyConditions(s.readyStatus())},
		}
		if s.Res {
			n.Status.Allocatable = corev1.ResourceList{resName: resource.MustParse("1")}
		} else {
			n.Status.Allocatable = corev1.ResourceList{resName: resource.MustParse("0")}
		}
		n.Status.Capacity = n.Status.Allocatable
		if s.Dns {
			n.Labels[v1.NodeDoNotSyncTaintsLabelKey] = "true"
		}
		if s.Dl != nil {
			n.Labels[v1.NodeDoNotSyncTaintsLabelKey] = *s.Dl
		}
		if s.Reg {
			n.Labels[v1.NodeRegisteredLabelKey] = "true"
		}
		return w.base.Create(w.ctx, n)
	case "stray":
		w.straySeq++
		pid := s.Pid
		if pid != "" {
			pid = fmt.Sprintf("fake:///stray-%02d-%s", w.straySeq, s.Pid)
		}
		n := &corev1.Node{
			ObjectMeta: metav1.ObjectMeta{
				Name:              fmt.Sprintf("stray-%02d", w.straySeq),
				UID:               types.UID(fmt.Sprintf("uid-stray-%02d", w.straySeq)),
				CreationTimestamp: metav1.NewTime(t0.Add(-time.Duration(100-w.straySeq) * time.Second)),
				Labels:            map[string]string{corev1.LabelHostname: fmt.Sprintf("stray-%02d", w.straySeq)},
			},
			Spec:   corev1.NodeSpec{ProviderID: pid, Taints: toTaints(s.Taints)},
			Status: corev1.NodeStatus{Conditions: readyConditions(s.readyStatus())},
		}
		if s.Res {
			n.Status.Allocatable = corev1.ResourceList{resName: resource.MustParse("1")}
		} else {
			n.Status.Allocatable = corev1.ResourceList{resName: resource.MustParse("0")}
		}
		n.Status.Capacity = n.Status.Allocatable
		return w.base.Create(w.ctx, n)
	case "gone":
		for _, n := range w.nodes(false) {
			n.Finalizers = nil
			if err := w.base.Update(w.ctx, n); err != nil {
				return err
			}
			if err := w.base.Delete(w.ctx, n); err != nil && !apierrors.IsNotFound(err) {
				return err
			}
		}
	case "ready":
		w.updateNode(func(n *corev1.Node) { n.Status.Conditions = readyConditions("T") })
	case "unready":
		w.updateNode(func(n *corev1.Node) { n.Status.Conditions = readyConditions("F") })
	case "unkready": // the node lifecycle controller: the kubelet stopped posting status
		w.updateNode(func(n *corev1.Node) { n.Status.Conditions = readyConditions("U") })
	case "noready": // no Ready condition at all
		w.updateNode(func(n *corev1.Node) { n.Status.Conditions = readyConditions("N") })
	case "res":
		w.updateNode(func(n *corev1.Node) {
			n.Status.Allocatable = corev1.ResourceList{resName: resource.MustParse("1")}
		})
	case "unres":
		w.updateNode(func(n *corev1.Node) { n.Status.Allocatable = corev1.ResourceList{} })
	case "addt":
		w.updateNode(func(n *corev1.Node) {
			for _, t := range n.Spec.Taints {
				if t.Key == s.T[0] && string(t.Effect) == s.T[1] {
					return // the API server refuses a second taint with the same key and effect
				}
			}
			n.Spec.Taints = append(n.Spec.Taints, s.T.core())
		})
	case "rmt":
		w.updateNode(func(n *corev1.Node) {
			var keep []corev1.Taint
			for _, t := range n.Spec.Taints {
				if !(t.Key == s.T[0] && string(t.Effect) == s.T[1]) {
					keep = append(keep, t)
				}
			}
			n.Spec.Taints = keep
		})
	case "adv":
		w.clk.Step(time.Duration(s.Secs) * time.Second)
	case "pooldel": // the NodePool is deleted (its NodeClaims are still around until garbage collection gets to them)
		np := &v1.NodePool{}
		if err := w.base.Get(w.ctx, types.NamespacedName{Name: poolName}, np); err == nil {
			return client.IgnoreNotFound(w.base.Delete(w.ctx, np))
		}
	case "del":
		if cur := w.serverClaim(); cur != nil {
			return client.IgnoreNotFound(w.base.Delete(w.ctx, cur))
		}
	default:
		return fmt.Errorf("bad step kind %q", s.K)
	}
	return nil
}

func (s Step) readyStatus() string {
	switch {
	case s.Rs != "":
		return s.Rs
	case s.Ready:
		return "T"
	}
	return "F"
}

var quoted = regexp.MustCompile(`"([^"]*)"`)

func condObs(nc *v1.NodeClaim, typ string) (st, reason string, ltt int) {
	for _, c := range nc.Status.Conditions {
		if c.Type != typ {
			continue
		}
		switch c.Status {
		case metav1.ConditionTrue:
			st = "T"
		case metav1.ConditionFalse:
			st = "F"
		default:
			st = "U"
		}
		reason = c.Reason
		if reason == "StartupTaintsExist" || reason == "KnownEphemeralTaintsExist" {
			// the message names the first offending taint: `... "key[=value]:effect" still exists`
			if m := quoted.FindStringSubmatch(c.Message); m != nil {
				kv := m[1]
				i := strings.LastIndex(kv, ":")
				key, eff, val := kv[:i], kv[i+1:], ""
				if j := strings.Index(key, "="); j >= 0 {
					key, val = key[:j], key[j+1:]
				}
				reason += "|" + key + "|" + eff
				if val != "" {
					reason += "|" + val
				}
			}
		}
		ltt = int(c.LastTransitionTime.Time.Sub(t0) / time.Second)
		return
	}
	return "", "", 0
}

func (w *world) claimObs(nc *v1.NodeClaim) ClaimObs {
	if nc == nil {
		return ClaimObs{}
	}
	o := ClaimObs{Exists: true, Fin: hasFinalizer(nc.Finalizers), Del: !nc.DeletionTimestamp.IsZero(), Conds: len(nc.Status.Conditions) > 0,
		Pid: nc.Status.ProviderID != "", Node: nc.Status.NodeName != ""}
	o.L, o.Lr, o.Lt = condObs(nc, v1.ConditionTypeLaunched)
	o.R, o.Rr, o.Rt = condObs(nc, v1.ConditionTypeRegistered)
	o.I, o.Ir, o.It = condObs(nc, v1.ConditionTypeInitialized)
	_, o.PLabel = nc.Labels[corev1.LabelInstanceTypeStable]
	for _, f := range nc.Finalizers {
		if f != v1.TerminationFinalizer {
			o.Ff = append(o.Ff, f)
		}
	}
	for _, c := range nc.Status.Conditions {
		if c.Type == v1.ConditionTypeLaunched && c.Reason == "LaunchFailed" {
			o.Lm = len(c.Message)
		}
	}
	return o
}

// releaseForeign: the owners of the other finalizers let go of a NodeClaim that is terminating
func (w *world) releaseForeign() error {
	cur := w.serverClaim()
	if cur == nil || cur.DeletionTimestamp.IsZero() {
		return nil
	}
	keep := []string{}
	for _, f := range cur.Finalizers {
		if f == v1.TerminationFinalizer {
			keep = append(keep, f)
		}
	}
	if len(keep) == len(cur.Finalizers) {
		return nil
	}
	cur.Finalizers = keep
	return client.IgnoreNotFound(w.base.Update(w.ctx, cur))
}

// reconcile: controller-runtime recovers a panic of Reconcile and retries with backoff
func (w *world) reconcile(view *v1.NodeClaim) (res string) {
	defer func() {
		if p := recover(); p != nil {
			res = "panic"
		}
	}()
	r, err := w.ctrl.Reconcile(w.ctx, view)
	return resultClass(r, err)
}

func (w *world) nodeObs(stray bool) []NodeObs {
	out := []NodeObs{}
	for _, n := range w.nodes(stray) {
		o := NodeObs{Taints: []Taint{}, Fin: hasFinalizer(n.Finalizers)}
		for _, t := range n.Spec.Taints {
			o.Taints = append(o.Taints, taintOf(t))
		}
		for _, r := range n.OwnerReferences {
			if r.Kind == "NodeClaim" && r.UID == claimUID {
				o.Owner = true
			}
		}
		_, o.ULabel = n.Labels[userLabel]
		_, o.PLabel = n.Labels[corev1.LabelInstanceTypeStable]
		_, o.Reg = n.Labels[v1.NodeRegisteredLabelKey]
		_, o.Init = n.Labels[v1.NodeInitializedLabelKey]
		o.Dns = n.Labels[v1.NodeDoNotSyncTaintsLabelKey] == "true"
		for _, c := range n.Status.Conditions {
			if c.Type == corev1.NodeReady && o.Ready == "" {
				switch c.Status {
				case corev1.ConditionTrue:
					o.Ready = "T"
				case corev1.ConditionFalse:
					o.Ready = "F"
				default:
					o.Ready = "U"
				}
			}
		}
		q := n.Status.Allocatable[resName]
		o.Res = !q.IsZero()
		out = append(out, o)
	}
	return out
}

func resultClass(r reconcile.Result, err error) string {
	switch {
	case err != nil:
		return "err"
	case r.RequeueAfter > 0:
		return fmt.Sprintf("after:%d", int(r.RequeueAfter/time.Second))
	case r.Requeue: //nolint:staticcheck
		return "requeue"
	}
	return "ok"
}

func run(in In) (Out, error) {
	w := newWorld(in.Claim)
	out := Out{Steps: []StepObs{}}
	for _, s := range in.Steps {
		so := StepObs{Calls: []string{}, Creates: []CreateObs{}}
		if s.K == "rec" {
			so.Rec = true
			cur := len(w.versions) - 1
			vi := cur - s.Lag
			if vi < w.lastView {
				vi = w.lastView
			}
			w.lastView = vi
			view := w.versions[vi]
			so.View = w.claimObs(view)
			if view != nil {
				w.faults, w.create, w.calls, w.reads, w.creates = s.F, s.Create, []string{}, 0, []CreateObs{}
				if w.faults == nil {
					w.faults = map[string]string{}
				}
				so.Result = w.reconcile(view.DeepCopy())
				so.Calls, so.Reads, so.Creates = w.calls, w.reads, w.creates
				w.faults = map[string]string{}
			} else {
				so.Result = "ok" // controller-runtime does not call Reconcile for an object its cache no longer has
			}
		} else if err := w.env(s); err != nil {
			return out, err
		}
		if err := w.releaseForeign(); err != nil {
			return out, err
		}
		sc := w.serverClaim()
		w.versions = append(w.versions, sc)
		so.Claim = w.claimObs(sc)
		so.Nodes = w.nodeObs(false)
		so.Strays = w.nodeObs(true)
		so.Inst = len(w.insts)
		so.Now = int(w.clk.Now().Sub(t0) / time.Second)
		out.Steps = append(out.Steps, so)
	}
	return out, nil
}
