// Package c19: NodePool weight and price ordering — real code vs Lean model/spec.
//
// Leaf ops drive nodepoolutils.OrderByWeight, InstanceTypes.OrderByPrice/Truncate, Offerings.Available/
// Compatible/Cheapest/MostExpensive, NodeClaimTemplate.ToNodeClaim and (through the verif hook
// ParallelizeUntilForVerif) parallelizeUntil; c19.pass drives whole passes of the real Provisioner
// (Schedule + CreateNodeClaims on the controller-runtime fake client) with weighted NodePools.
package c19

import (
	"context"
	"encoding/json"
	"fmt"
	"math/rand/v2"
	"runtime"
	"sort"
	"sync"
	"sync/atomic"

	"github.com/samber/lo"
	corev1 "k8s.io/api/core/v1"
	"k8s.io/apimachinery/pkg/api/resource"
	metav1 "k8s.io/apimachinery/pkg/apis/meta/v1"

	v1 "sigs.k8s.io/karpenter/pkg/apis/v1"
	"sigs.k8s.io/karpenter/pkg/cloudprovider"
	provscheduling "sigs.k8s.io/karpenter/pkg/controllers/provisioning/scheduling"
	"sigs.k8s.io/karpenter/pkg/operator/options"
	"sigs.k8s.io/karpenter/pkg/scheduling"
	"sigs.k8s.io/karpenter/pkg/test"
	nodepoolutils "sigs.k8s.io/karpenter/pkg/utils/nodepool"

	"verifharness/internal/core"
	"verifharness/internal/registry"
)

func init() { registry.Register("C19", Ops) }

// ---------------------------------------------------------------------------------------------
// shared JSON vocabulary
// ---------------------------------------------------------------------------------------------

type ReqJ struct {
	Key  string   `json:"key"`
	Op   string   `json:"op"` // In | NotIn | Exists | DoesNotExist
	Vals []string `json:"vals"`
}

type OffJ struct {
	Zone  string `json:"zone"`
	Ct    string `json:"ct"`
	Price int    `json:"price"` // price × 1024 (dyadic grid: exact as float64)
	Avail bool   `json:"avail"`
	Rid   string `json:"rid,omitempty"` // reservation id (capacity type "reserved" only)
	Cap   int    `json:"cap,omitempty"` // reservation capacity
}

type TypeJ struct {
	Name      string `json:"name"`
	Offerings []OffJ `json:"offerings"`
	CPU       int    `json:"cpu,omitempty"`      // capacity, milli-cores (pass only)
	Pods      int    `json:"pods,omitempty"`     // pod capacity (pass only)
	Overhead  int    `json:"overhead,omitempty"` // kube-reserved cpu, milli-cores (pass only)
}

const (
	zoneKey = corev1.LabelTopologyZone
	ctKey   = v1.CapacityTypeLabelKey
	itKey   = corev1.LabelInstanceTypeStable
)

var zones = []string{"z1", "z2", "z3"}
var cts = []string{v1.CapacityTypeSpot, v1.CapacityTypeOnDemand}
var ops = []string{"In", "NotIn", "Exists", "DoesNotExist"}

func mkReq(r ReqJ) *scheduling.Requirement {
	return scheduling.NewRequirement(r.Key, corev1.NodeSelectorOperator(r.Op), r.Vals...)
}

func mkReqs(rs []ReqJ) scheduling.Requirements {
	return scheduling.NewRequirements(lo.Map(rs, func(r ReqJ, _ int) *scheduling.Requirement { return mkReq(r) })...)
}

func mkOfferings(os []OffJ) cloudprovider.Offerings {
	out := cloudprovider.Offerings{}
	for _, o := range os {
		labels := map[string]string{ctKey: o.Ct, zoneKey: o.Zone}
		if o.Rid != "" {
			labels[cloudprovider.ReservationIDLabel] = o.Rid
		}
		out = append(out, &cloudprovider.Offering{
			Available:           o.Avail,
			Price:               float64(o.Price) / 1024.0,
			ReservationCapacity: o.Cap,
			Requirements:        scheduling.NewLabelRequirements(labels),
		})
	}
	return out
}

// bare instance type: what the leaf functions look at (Name, Offerings, the instance-type requirement)
func mkBareType(t TypeJ) *cloudprovider.InstanceType {
	return &cloudprovider.InstanceType{
		Name:         t.Name,
		Offerings:    mkOfferings(t.Offerings),
		Requirements: scheduling.NewRequirements(scheduling.NewRequirement(itKey, corev1.NodeSelectorOpIn, t.Name)),
	}
}

func priceInt(f float64) int { return int(f * 1024.0) }

func names(its []*cloudprovider.InstanceType) []string {
	out := make([]string, 0, len(its))
	for _, it := range its {
		out = append(out, it.Name)
	}
	return out
}

// ---- generators for the shared vocabulary ----

var pricePool = []int{0, 1, 10, 100, 100, 250, 250, 512, 1024, 1024, 2048, 4000}

func genOfferings(r *rand.Rand, maxN int) []OffJ {
	n := r.IntN(maxN + 1)
	out := make([]OffJ, 0, n)
	for i := 0; i < n; i++ {
		p := pricePool[r.IntN(len(pricePool))]
		if r.IntN(6) == 0 {
			p = r.IntN(5000)
		}
		out = append(out, OffJ{Zone: zones[r.IntN(len(zones))], Ct: cts[r.IntN(len(cts))], Price: p, Avail: r.IntN(5) != 0})
	}
	return out
}

func genReqs(r *rand.Rand) []ReqJ {
	var out []ReqJ
	n := 0
	switch x := r.IntN(10); {
	case x < 2:
		n = 0
	case x < 7:
		n = 1
	case x < 9:
		n = 2
	default:
		n = 3
	}
	for i := 0; i < n; i++ {
		key, dom := zoneKey, zones
		if r.IntN(2) == 0 {
			key, dom = ctKey, cts
		}
		op := ops[0]
		switch x := r.IntN(10); {
		case x < 5:
			op = "In"
		case x < 8:
			op = "NotIn"
		case x < 9:
			op = "Exists"
		default:
			op = "DoesNotExist"
		}
		var vals []string
		if op == "In" || op == "NotIn" {
			for _, v := range dom {
				if r.IntN(2) == 0 {
					vals = append(vals, v)
				}
			}
			if r.IntN(12) == 0 {
				vals = append(vals, "elsewhere")
			}
			if op == "NotIn" && len(vals) == 0 { // NotIn [] is rejected by validation; keep it meaningful
				vals = []string{dom[0]}
			}
		}
		if vals == nil {
			vals = []string{}
		}
		out = append(out, ReqJ{Key: key, Op: op, Vals: vals})
	}
	if out == nil {
		out = []ReqJ{}
	}
	return out
}

func genTypes(r *rand.Rand, maxTypes, maxOff int) []TypeJ {
	n := r.IntN(maxTypes + 1)
	out := make([]TypeJ, 0, n)
	perm := r.Perm(n)
	for i := 0; i < n; i++ {
		out = append(out, TypeJ{Name: fmt.Sprintf("t%02d", perm[i]), Offerings: genOfferings(r, maxOff)})
	}
	return out
}

// ---------------------------------------------------------------------------------------------
// c19.weight — nodepoolutils.OrderByWeight
// ---------------------------------------------------------------------------------------------

type PoolJ struct {
	Name   string `json:"name"`
	Weight *int32 `json:"weight"`
}

type WeightIn struct {
	Pools []PoolJ `json:"pools"`
}

type WeightOut struct {
	Order []PoolOutJ `json:"order"`
}

type PoolOutJ struct {
	Name   string `json:"name"`
	Weight int    `json:"weight"` // lo.FromPtr(Spec.Weight)
}

var poolNames = []string{"a", "ab", "abc", "b", "B", "pool-1", "pool-10", "pool-2", "z", "zz", "default", "é", "gpu", "spot-pool", ""}
var poolWeights = []int32{1, 1, 10, 10, 50, 50, 100, 100, 2, 99}

func genWeight(r *rand.Rand, t core.Tier) any {
	maxN := 8
	if t == core.Thorough {
		maxN = 24
	}
	n := r.IntN(maxN + 1)
	in := WeightIn{Pools: []PoolJ{}}
	few := r.IntN(2) == 0 // draw from few weights so that ties are the norm
	for i := 0; i < n; i++ {
		p := PoolJ{Name: poolNames[r.IntN(len(poolNames))]}
		if r.IntN(4) == 0 {
			p.Name = fmt.Sprintf("np-%d", r.IntN(30))
		}
		switch x := r.IntN(20); {
		case x < 4:
			p.Weight = nil
		case x == 4:
			p.Weight = lo.ToPtr(int32(0))
		case x == 5: // outside the CRD range (1..100): the function must still order them
			p.Weight = lo.ToPtr([]int32{-1, -100, 2147483647, -2147483648, 101}[r.IntN(5)])
		default:
			if few {
				p.Weight = lo.ToPtr(poolWeights[r.IntN(4)])
			} else {
				p.Weight = lo.ToPtr(poolWeights[r.IntN(len(poolWeights))])
			}
		}
		in.Pools = append(in.Pools, p)
	}
	return in
}

// every list of at most 3 pools over {a, ab, b} × {nil, 1, 2}
func enumWeight(_ core.Tier) []any {
	var univ []PoolJ
	for _, n := range []string{"a", "ab", "b"} {
		univ = append(univ, PoolJ{Name: n}, PoolJ{Name: n, Weight: lo.ToPtr(int32(1))}, PoolJ{Name: n, Weight: lo.ToPtr(int32(2))})
	}
	out := []any{WeightIn{Pools: []PoolJ{}}}
	for _, a := range univ {
		out = append(out, WeightIn{Pools: []PoolJ{a}})
		for _, b := range univ {
			out = append(out, WeightIn{Pools: []PoolJ{a, b}})
			for _, c := range univ {
				out = append(out, WeightIn{Pools: []PoolJ{a, b, c}})
			}
		}
	}
	return out
}

func implWeight(raw json.RawMessage) (any, error) {
	var in WeightIn
	if err := json.Unmarshal(raw, &in); err != nil {
		return nil, err
	}
	nps := make([]*v1.NodePool, 0, len(in.Pools))
	for _, p := range in.Pools {
		np := &v1.NodePool{ObjectMeta: metav1.ObjectMeta{Name: p.Name}}
		if p.Weight != nil {
			np.Spec.Weight = lo.ToPtr(*p.Weight)
		}
		nps = append(nps, np)
	}
	nodepoolutils.OrderByWeight(nps)
	out := WeightOut{Order: []PoolOutJ{}}
	for _, np := range nps {
		out.Order = append(out.Order, PoolOutJ{Name: np.Name, Weight: int(lo.FromPtr(np.Spec.Weight))})
	}
	return out, nil
}

func weightTie(in WeightIn) bool {
	seen := map[int32]bool{}
	for _, p := range in.Pools {
		w := lo.FromPtr(p.Weight)
		if seen[w] {
			return true
		}
		seen[w] = true
	}
	return false
}

// ---------------------------------------------------------------------------------------------
// c19.price — InstanceTypes.OrderByPrice and InstanceTypes.Truncate
// ---------------------------------------------------------------------------------------------

type PriceIn struct {
	Reqs       []ReqJ  `json:"reqs"`
	Types      []TypeJ `json:"types"`
	Max        int     `json:"max"`
	MinTypes   *int    `json:"min_types"`   // minValues on the instance-type key (nil = no minValues)
	BestEffort bool    `json:"best_effort"` // MinValuesPolicy
}

type PriceOut struct {
	Ordered   []string `json:"ordered"`   // OrderByPrice(reqs)
	Truncated []string `json:"truncated"` // Truncate(ctx, reqs, max)
	Err       string   `json:"err"`       // "" | "minvalues"
}

func genPrice(r *rand.Rand, t core.Tier) any {
	maxT := 9
	if t == core.Thorough && r.IntN(4) == 0 {
		maxT = 40
	}
	in := PriceIn{Reqs: genReqs(r), Types: genTypes(r, maxT, 4)}
	n := len(in.Types)
	switch x := r.IntN(10); {
	case x < 6:
		in.Max = r.IntN(n + 1)
	case x < 7:
		in.Max = n
	case x < 8:
		in.Max = n + 1 + r.IntN(3)
	case x < 9:
		in.Max = 0
	default:
		in.Max = -1 - r.IntN(3)
	}
	if r.IntN(4) == 0 {
		m := r.IntN(n + 2)
		in.MinTypes = &m
		in.BestEffort = r.IntN(3) == 0
	}
	return in
}

func ctxWith(bestEffort bool, cpuRequests int) context.Context {
	o := test.Options()
	if bestEffort {
		o.MinValuesPolicy = options.MinValuesPolicyBestEffort
	}
	if cpuRequests >= 0 { // -1 = leave the default
		o.CPURequests = int64(cpuRequests)
	}
	return options.ToContext(context.Background(), o)
}

func implPrice(raw json.RawMessage) (any, error) {
	var in PriceIn
	if err := json.Unmarshal(raw, &in); err != nil {
		return nil, err
	}
	reqs := mkReqs(in.Reqs)
	if in.MinTypes != nil {
		reqs.Add(scheduling.NewRequirementWithFlexibility(itKey, corev1.NodeSelectorOpExists, in.MinTypes))
	}
	mk := func() cloudprovider.InstanceTypes {
		its := cloudprovider.InstanceTypes{}
		for _, t := range in.Types {
			its = append(its, mkBareType(t))
		}
		return its
	}
	out := PriceOut{}
	out.Ordered = names(mk().OrderByPrice(reqs))
	tr, err := mk().Truncate(ctxWith(in.BestEffort, -1), reqs, in.Max)
	out.Truncated = names(tr)
	if err != nil {
		out.Err = "minvalues"
	}
	return out, nil
}

// effective price as the harness sees it (labels only, not part of any verdict)
func usableJ(reqs []ReqJ, o OffJ) bool {
	if !o.Avail {
		return false
	}
	for _, r := range reqs {
		var v string
		switch r.Key {
		case zoneKey:
			v = o.Zone
		case ctKey:
			v = o.Ct
		default:
			continue
		}
		in := lo.Contains(r.Vals, v)
		switch r.Op {
		case "In":
			if !in {
				return false
			}
		case "NotIn":
			if in {
				return false
			}
		case "DoesNotExist":
			return false
		}
	}
	return true
}

func effJ(reqs []ReqJ, t TypeJ) int {
	best := -1
	for _, o := range t.Offerings {
		if usableJ(reqs, o) && (best < 0 || o.Price < best) {
			best = o.Price
		}
	}
	return best
}

func priceLabels(reqs []ReqJ, types []TypeJ, max int) []string {
	l := []string{fmt.Sprintf("types<=%d", ((len(types)+4)/5)*5)}
	seen := map[int]int{}
	none := 0
	for _, t := range types {
		e := effJ(reqs, t)
		seen[e]++
		if e < 0 {
			none++
		}
	}
	tie := false
	for _, c := range seen {
		if c > 1 {
			tie = true
		}
	}
	if tie {
		l = append(l, "price-tie")
	}
	if none > 0 {
		l = append(l, "type-without-usable-offering")
	}
	switch {
	case max <= 0:
		l = append(l, "max<=0")
	case max < len(types):
		l = append(l, "truncating")
		// tie across the cut?
		es := make([]int, 0, len(types))
		for _, t := range types {
			e := effJ(reqs, t)
			if e < 0 {
				e = 1 << 40
			}
			es = append(es, e)
		}
		sort.Ints(es)
		if es[max-1] == es[max] {
			l = append(l, "tie-across-cut")
		}
	default:
		l = append(l, "max>=len")
	}
	for _, r := range reqs {
		l = append(l, "req:"+r.Op)
	}
	return l
}

// ---------------------------------------------------------------------------------------------
// c19.offerings — Offerings.Available / Compatible / HasCompatible / Cheapest / MostExpensive
// ---------------------------------------------------------------------------------------------

type OffIn struct {
	Reqs      []ReqJ `json:"reqs"`
	Offerings []OffJ `json:"offerings"`
}

type OffOut struct {
	Cheapest *int `json:"cheapest"` // price of Available().Compatible(reqs).Cheapest(), null when there is none
	Dearest  *int `json:"dearest"`
	Count    int  `json:"count"` // len(Available().Compatible(reqs))
	Has      bool `json:"has"`   // Available().HasCompatible(reqs)
}

func genOff(r *rand.Rand, _ core.Tier) any {
	return OffIn{Reqs: genReqs(r), Offerings: genOfferings(r, 6)}
}

func implOff(raw json.RawMessage) (any, error) {
	var in OffIn
	if err := json.Unmarshal(raw, &in); err != nil {
		return nil, err
	}
	reqs := mkReqs(in.Reqs)
	ofs := mkOfferings(in.Offerings)
	sel := ofs.Available().Compatible(reqs)
	out := OffOut{Count: len(sel), Has: ofs.Available().HasCompatible(reqs)}
	if c := sel.Cheapest(); c != nil {
		out.Cheapest = lo.ToPtr(priceInt(c.Price))
	}
	if d := sel.MostExpensive(); d != nil {
		out.Dearest = lo.ToPtr(priceInt(d.Price))
	}
	return out, nil
}

// ---------------------------------------------------------------------------------------------
// c19.tonodeclaim — NodeClaimTemplate.ToNodeClaim (OrderByPrice + lo.Slice(…, 0, MaxInstanceTypes))
// ---------------------------------------------------------------------------------------------

type ToNCIn struct {
	Pool     string  `json:"pool"`
	Static   bool    `json:"static"`
	Reqs     []ReqJ  `json:"reqs"` // NodePool template requirements (zone / capacity-type)
	Types    []TypeJ `json:"types"`
	MaxTypes *int    `json:"max_types"` // value given to the package variable MaxInstanceTypes; nil = leave the default
}

type ToNCOut struct {
	HasTypeReq bool     `json:"has_type_req"`
	Types      []string `json:"types"` // values of the instance-type requirement, sorted
	PoolLabel  string   `json:"pool_label"`
	MaxUsed    int      `json:"max_used"` // the value MaxInstanceTypes had during the call
	// PoolReq: values of the NodeClaim's requirement karpenter.sh/nodepool In [...], sorted; null = it has none
	PoolReq *[]string `json:"pool_req"`
}

var maxTypesMu sync.RWMutex // MaxInstanceTypes is a package variable of the real code: writers set it for one case, readers only run passes

func genToNC(r *rand.Rand, t core.Tier) any {
	in := ToNCIn{Pool: fmt.Sprintf("pool-%d", r.IntN(5)), Static: r.IntN(8) == 0, Reqs: genReqs(r)}
	// the pool's own requirements never use DoesNotExist on zone/capacity-type in practice, keep a little of it anyway
	if r.IntN(12) == 0 {
		// the real default (600): mostly small catalogs, now and then one around the bound (those cost ~0.5 s each in the driver)
		n := 1 + r.IntN(20)
		if big := map[core.Tier]int{core.Quick: 16, core.Thorough: 8}[t]; r.IntN(big) == 0 {
			n = 595 + r.IntN(12)
		}
		in.Types = make([]TypeJ, 0, n)
		for i := 0; i < n; i++ {
			in.Types = append(in.Types, TypeJ{Name: fmt.Sprintf("t%04d", i), Offerings: []OffJ{{Zone: zones[r.IntN(3)], Ct: cts[r.IntN(2)], Price: pricePool[r.IntN(len(pricePool))] + r.IntN(3), Avail: r.IntN(10) != 0}}})
		}
		r.Shuffle(len(in.Types), func(i, j int) { in.Types[i], in.Types[j] = in.Types[j], in.Types[i] })
		return in
	}
	in.Types = genTypes(r, 9, 4)
	m := r.IntN(len(in.Types) + 2)
	if r.IntN(8) == 0 {
		m = 0
	}
	in.MaxTypes = &m
	return in
}

func implToNC(raw json.RawMessage) (any, error) {
	var in ToNCIn
	if err := json.Unmarshal(raw, &in); err != nil {
		return nil, err
	}
	np := test.NodePool(v1.NodePool{ObjectMeta: metav1.ObjectMeta{Name: in.Pool}})
	np.UID = "uid-" + "pool"
	for _, r := range in.Reqs {
		np.Spec.Template.Spec.Requirements = append(np.Spec.Template.Spec.Requirements, v1.NodeSelectorRequirementWithMinValues{
			Key: r.Key, Operator: corev1.NodeSelectorOperator(r.Op), Values: r.Vals,
		})
	}
	if in.Static {
		np.Spec.Replicas = lo.ToPtr(int64(1))
	}
	nct := provscheduling.NewNodeClaimTemplate(np)
	for _, t := range in.Types {
		nct.InstanceTypeOptions = append(nct.InstanceTypeOptions, mkBareType(t))
	}
	maxTypesMu.Lock()
	old := provscheduling.MaxInstanceTypes
	if in.MaxTypes != nil {
		provscheduling.MaxInstanceTypes = *in.MaxTypes
	}
	used := provscheduling.MaxInstanceTypes
	nc := nct.ToNodeClaim()
	provscheduling.MaxInstanceTypes = old
	maxTypesMu.Unlock()
	out := ToNCOut{Types: []string{}, PoolLabel: nc.Labels[v1.NodePoolLabelKey], MaxUsed: used}
	for _, r := range nc.Spec.Requirements {
		if r.Key == itKey {
			out.HasTypeReq = true
			out.Types = append(out.Types, r.Values...)
		}
		if r.Key == v1.NodePoolLabelKey && r.Operator == corev1.NodeSelectorOpIn {
			vs := append([]string{}, r.Values...)
			sort.Strings(vs)
			out.PoolReq = &vs
		}
	}
	sort.Strings(out.Types)
	return out, nil
}

// ---------------------------------------------------------------------------------------------
// c19.parallel — parallelizeUntil (through the verif hook) under forced interleavings
// ---------------------------------------------------------------------------------------------

type ParIn struct {
	Workers int    `json:"workers"`
	Cont    []bool `json:"cont"`  // what doWorkPiece(i) returns
	Delay   []int  `json:"delay"` // Gosched() calls inside doWorkPiece(i) before it returns
}

type ParOut struct {
	Processed []int `json:"processed"` // how often each piece was evaluated
	MaxActive int   `json:"max_active"`
	Returned  bool  `json:"returned_after_all_finished"` // no evaluation was still running when parallelizeUntil returned
	// the publication protocol of addToNewNodeClaim replayed on top: least index that returned false among the processed
	Published int `json:"published"` // -1 = none
}

func genPar(r *rand.Rand, t core.Tier) any {
	maxP := 12
	if t == core.Thorough {
		maxP = 40
	}
	n := r.IntN(maxP + 1)
	in := ParIn{Workers: []int{1, 1, 2, 2, 3, 5, 8, 16, 0}[r.IntN(9)], Cont: make([]bool, n), Delay: make([]int, n)}
	pTrue := []float64{0.2, 0.5, 0.8, 0.95, 1.0}[r.IntN(5)]
	for i := range in.Cont {
		in.Cont[i] = r.Float64() < pTrue
		switch r.IntN(4) {
		case 0:
			in.Delay[i] = 0
		case 1:
			in.Delay[i] = r.IntN(4)
		case 2:
			in.Delay[i] = r.IntN(40)
		default:
			// earlier pieces slower than later ones: a later success is published first
			in.Delay[i] = (n - i) * 3
		}
	}
	return in
}

func implPar(raw json.RawMessage) (any, error) {
	var in ParIn
	if err := json.Unmarshal(raw, &in); err != nil {
		return nil, err
	}
	n := len(in.Cont)
	processed := make([]int32, n)
	var active, maxActive, running int32
	var mu sync.Mutex
	published := -1
	provscheduling.ParallelizeUntilForVerif(in.Workers, n, func(i int) bool {
		a := atomic.AddInt32(&active, 1)
		atomic.AddInt32(&running, 1)
		for {
			m := atomic.LoadInt32(&maxActive)
			if a <= m || atomic.CompareAndSwapInt32(&maxActive, m, a) {
				break
			}
		}
		for k := 0; k < in.Delay[i]; k++ {
			runtime.Gosched()
		}
		atomic.AddInt32(&processed[i], 1)
		if !in.Cont[i] {
			mu.Lock()
			if published < 0 || i < published {
				published = i
			}
			mu.Unlock()
		}
		atomic.AddInt32(&active, -1)
		atomic.AddInt32(&running, -1)
		return in.Cont[i]
	})
	out := ParOut{Processed: make([]int, n), MaxActive: int(maxActive), Returned: atomic.LoadInt32(&running) == 0, Published: published}
	for i := range processed {
		out.Processed[i] = int(atomic.LoadInt32(&processed[i]))
	}
	return out, nil
}

// ---------------------------------------------------------------------------------------------
// ops
// ---------------------------------------------------------------------------------------------

func n(quick, thorough int) func(core.Tier) int {
	return func(t core.Tier) int {
		if t == core.Thorough {
			return thorough
		}
		return quick
	}
}

func Ops() []*core.Op {
	return []*core.Op{
		{
			Name: "c19.weight",
			Doc:  "nodepoolutils.OrderByWeight on 0..8 (thorough: 0..24) NodePools with nil/tied/out-of-range weights and shared-prefix names; the order of (name, weight)",
			N:    n(3000, 60000),
			Gen:  genWeight,
			Enum: enumWeight,
			Impl: implWeight,
			Rule: "non-trivial = at least two pools share a weight (nil counts as 0), so the name tie-break decides",
			Nontrivial: func(raw json.RawMessage, _ any) bool {
				var in WeightIn
				json.Unmarshal(raw, &in)
				return weightTie(in)
			},
			Labels: func(raw json.RawMessage, _ any) []string {
				var in WeightIn
				json.Unmarshal(raw, &in)
				l := []string{fmt.Sprintf("pools=%d", min(len(in.Pools), 9))}
				if weightTie(in) {
					l = append(l, "weight-tie")
				}
				for _, p := range in.Pools {
					if p.Weight == nil {
						l = append(l, "nil-weight")
						break
					}
				}
				return l
			},
			Signature:      func(json.RawMessage, any) string { return "weight" },
			ExhaustiveNote: "every list of ≤3 pools over {a,ab,b}×{nil,1,2} (820 lists)",
			Shrink: func(raw json.RawMessage) []any {
				var in WeightIn
				json.Unmarshal(raw, &in)
				var out []any
				for _, c := range core.ShrinkList(in.Pools) {
					out = append(out, WeightIn{Pools: c})
				}
				return out
			},
		},
		{
			Name: "c19.price",
			Doc:  "InstanceTypes.OrderByPrice(reqs) and InstanceTypes.Truncate(ctx, reqs, max) (incl. minValues on the instance-type key under both policies) on catalogs with price ties, unavailable and incompatible offerings",
			N:    n(4000, 80000),
			Gen:  genPrice,
			Impl: implPrice,
			Rule: "non-trivial = two types share their effective price (cheapest compatible available offering) or a type has none",
			Nontrivial: func(raw json.RawMessage, _ any) bool {
				var in PriceIn
				json.Unmarshal(raw, &in)
				for _, l := range priceLabels(in.Reqs, in.Types, in.Max) {
					if l == "price-tie" || l == "type-without-usable-offering" {
						return true
					}
				}
				return false
			},
			Labels: func(raw json.RawMessage, impl any) []string {
				var in PriceIn
				json.Unmarshal(raw, &in)
				l := priceLabels(in.Reqs, in.Types, in.Max)
				if in.MinTypes != nil {
					l = append(l, "minValues")
					if m, ok := impl.(map[string]any); ok && m["err"] == "minvalues" {
						l = append(l, "minValues-error")
					}
				}
				return l
			},
			Signature: func(json.RawMessage, any) string { return "price" },
			Shrink: func(raw json.RawMessage) []any {
				var in PriceIn
				json.Unmarshal(raw, &in)
				var out []any
				for _, c := range core.ShrinkList(in.Types) {
					x := in
					x.Types = c
					out = append(out, x)
				}
				for _, c := range core.ShrinkList(in.Reqs) {
					x := in
					x.Reqs = c
					out = append(out, x)
				}
				for i := range in.Types {
					for _, c := range core.ShrinkList(in.Types[i].Offerings) {
						x := in
						x.Types = append([]TypeJ{}, in.Types...)
						x.Types[i].Offerings = c
						out = append(out, x)
					}
				}
				return out
			},
		},
		{
			Name: "c19.offerings",
			Doc:  "Offerings.Available().Compatible(reqs) with Cheapest/MostExpensive/HasCompatible: the price OrderByPrice ranks by",
			N:    n(3000, 60000),
			Gen:  genOff,
			Impl: implOff,
			Rule: "non-trivial = at least one offering is filtered out and at least one survives",
			Nontrivial: func(raw json.RawMessage, impl any) bool {
				var in OffIn
				json.Unmarshal(raw, &in)
				k := 0
				for _, o := range in.Offerings {
					if usableJ(in.Reqs, o) {
						k++
					}
				}
				return k > 0 && k < len(in.Offerings)
			},
			Labels: func(raw json.RawMessage, _ any) []string {
				var in OffIn
				json.Unmarshal(raw, &in)
				k := 0
				for _, o := range in.Offerings {
					if usableJ(in.Reqs, o) {
						k++
					}
				}
				return []string{fmt.Sprintf("offerings=%d", len(in.Offerings)), fmt.Sprintf("usable=%d", k)}
			},
			Signature: func(json.RawMessage, any) string { return "offerings" },
			Shrink: func(raw json.RawMessage) []any {
				var in OffIn
				json.Unmarshal(raw, &in)
				var out []any
				for _, c := range core.ShrinkList(in.Offerings) {
					out = append(out, OffIn{Reqs: in.Reqs, Offerings: c})
				}
				for _, c := range core.ShrinkList(in.Reqs) {
					out = append(out, OffIn{Reqs: c, Offerings: in.Offerings})
				}
				return out
			},
		},
		{
			Name: "c19.tonodeclaim",
			Doc:  "NewNodeClaimTemplate(nodePool).ToNodeClaim(): the instance-type requirement of the NodeClaim = the MaxInstanceTypes cheapest options (package variable set to small values, and the real default 600 against catalogs of 595..606 types); static pools get none; the NodeClaim requires karpenter.sh/nodepool In [its pool] (the template requirement derived from the injected label)",
			N:    n(1500, 15000),
			Gen:  genToNC,
			Impl: implToNC,
			Rule: "non-trivial = the bound truncates (more options than MaxInstanceTypes)",
			Nontrivial: func(raw json.RawMessage, impl any) bool {
				var in ToNCIn
				json.Unmarshal(raw, &in)
				m := 600
				if in.MaxTypes != nil {
					m = *in.MaxTypes
				}
				return !in.Static && len(in.Types) > m
			},
			Labels: func(raw json.RawMessage, _ any) []string {
				var in ToNCIn
				json.Unmarshal(raw, &in)
				l := []string{}
				if in.Static {
					l = append(l, "static")
				}
				if in.MaxTypes == nil {
					l = append(l, "default-max")
					if len(in.Types) > 600 {
						l = append(l, "over-600")
					}
				} else {
					l = append(l, priceLabels(in.Reqs, in.Types, *in.MaxTypes)...)
				}
				return l
			},
			Signature: func(json.RawMessage, any) string { return "tonodeclaim" },
			Shrink: func(raw json.RawMessage) []any {
				var in ToNCIn
				json.Unmarshal(raw, &in)
				var out []any
				if len(in.Types) > 60 { // big catalogs cost ~0.5 s per evaluation: halves only
					h := len(in.Types) / 2
					for _, c := range [][]TypeJ{in.Types[:h], in.Types[h:]} {
						x := in
						x.Types = append([]TypeJ{}, c...)
						out = append(out, x)
					}
					return out
				}
				for _, c := range core.ShrinkList(in.Types) {
					x := in
					x.Types = c
					out = append(out, x)
				}
				for _, c := range core.ShrinkList(in.Reqs) {
					x := in
					x.Reqs = c
					out = append(out, x)
				}
				return out
			},
		},
		{
			Name: "c19.parallel",
			Doc:  "parallelizeUntil (verif hook) with 0..16 workers over 0..12 (thorough 0..40) pieces, per-piece Gosched delays that make later pieces finish first; which pieces were evaluated and the least stopping index published under a mutex",
			N:    n(3000, 40000),
			Gen:  genPar,
			Impl: implPar,
			Rule: "non-trivial = more than one worker and some piece before the last one stops its worker",
			Nontrivial: func(raw json.RawMessage, _ any) bool {
				var in ParIn
				json.Unmarshal(raw, &in)
				if in.Workers < 2 {
					return false
				}
				for i, c := range in.Cont {
					if !c && i < len(in.Cont)-1 {
						return true
					}
				}
				return false
			},
			Labels: func(raw json.RawMessage, impl any) []string {
				var in ParIn
				json.Unmarshal(raw, &in)
				l := []string{fmt.Sprintf("workers=%d", in.Workers)}
				if m, ok := impl.(map[string]any); ok {
					if ma, ok := m["max_active"].(json.Number); ok {
						l = append(l, "max-active="+ma.String())
					}
				}
				return l
			},
			Signature: func(json.RawMessage, any) string { return "parallel" },
			Shrink: func(raw json.RawMessage) []any {
				var in ParIn
				json.Unmarshal(raw, &in)
				var out []any
				for i := range in.Cont {
					x := ParIn{Workers: in.Workers}
					x.Cont = append(append([]bool{}, in.Cont[:i]...), in.Cont[i+1:]...)
					x.Delay = append(append([]int{}, in.Delay[:i]...), in.Delay[i+1:]...)
					out = append(out, x)
				}
				return out
			},
		},
		passOp(),
		reservedOp(),
	}
}

var _ = resource.MustParse
