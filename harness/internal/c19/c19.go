// Package c19: correspondence ops for C19 (stub, not yet built).
package c19

import (
	"verifharness/internal/core"
	"verifharness/internal/registry"
)

func init() { registry.Register("C19", Ops) }

func Ops() []*core.Op { return nil }
