package c19

import (
	"context"
	"encoding/json"
	"fmt"
	"math/rand/v2"
	"sort"
	"time"

	"github.com/awslabs/operatorpkg/status"
	"github.com/samber/lo"
	corev1 "k8s.io/api/core/v1"
	"k8s.io/apimachinery/pkg/api/resource"
	metav1 "k8s.io/apimachinery/pkg/apis/meta/v1"
	"k8s.io/apimachinery/pkg/runtime/serializer"
	"k8s.io/apimachinery/pkg/types"
	"k8s.io/client-go/kubernetes/scheme"
	clienttesting "k8s.io/client-go/testing"
	clocktesting "k8s.io/utils/clock/testing"
	"sigs.k8s.io/controller-runtime/pkg/client"
	fakeclient "sigs.k8s.io/controller-runtime/pkg/client/fake"

	_ "sigs.k8s.io/karpenter/pkg/apis"
	v1 "sigs.k8s.io/karpenter/pkg/apis/v1"
	"sigs.k8s.io/karpenter/pkg/cloudprovider"
	fakecp "sigs.k8s.io/karpenter/pkg/cloudprovider/fake"
	"sigs.k8s.io/karpenter/pkg/controllers/provisioning"
	provscheduling "sigs.k8s.io/karpenter/pkg/controllers/provisioning/scheduling"
	"sigs.k8s.io/karpenter/pkg/controllers/state"
	"sigs.k8s.io/karpenter/pkg/operator/options"
	"sigs.k8s.io/karpenter/pkg/state/virtualpods"
	"sigs.k8s.io/karpenter/pkg/test"

	"verifharness/internal/core"
)

// ---------------------------------------------------------------------------------------------
// c19.pass — whole passes of the real Provisioner with weighted NodePools
// ---------------------------------------------------------------------------------------------

// CondJ is one stored status condition of a NodePool: its type and status ("True" | "False" | "Unknown").
type CondJ struct {
	Type   string `json:"type"`
	Status string `json:"status"`
}

type PassPoolJ struct {
	Name   string `json:"name"`
	Weight *int32 `json:"weight"`
	// Ready: the NodePool's root condition Ready is True. When Conds is absent (older corpus files, c19.reserved) the
	// harness writes the test builder's all-True conditions for Ready=true and NodeClassReady=False for Ready=false.
	Ready bool `json:"ready"`
	// Conds, when present, is the complete status.conditions list stored on the NodePool (possibly empty: a NodePool that
	// has not been reconciled yet). It is always a list the ConditionSet API produces (the generator builds it through
	// that API), so the stored root condition Ready is consistent with its dependents.
	Conds    *[]CondJ          `json:"conds,omitempty"`
	Static   bool              `json:"static"`
	Deleting bool              `json:"deleting"`
	Reqs     []ReqJ            `json:"reqs"`   // template requirements on zone / capacity-type / instance-type
	Labels   map[string]string `json:"labels"` // template labels (custom keys)
	Taints   []string          `json:"taints"` // NoSchedule taints (key only)
	// SoftTaints: PreferNoSchedule taints of the template (key only): a preference, not a constraint
	SoftTaints []string `json:"soft_taints,omitempty"`
	// MinTypes: the template carries the requirement instance-type Exists with minValues = MinTypes (0 = none)
	MinTypes int `json:"min_types,omitempty"`
	Types      []TypeJ  `json:"types"`
	LimitCPU int               `json:"limit_cpu,omitempty"` // spec.limits.cpu, milli-cores (c19.reserved only; 0 = none)
}

// readyCond: the stored root condition Ready is True
func readyCond(cs []CondJ) bool {
	for _, c := range cs {
		if c.Type == status.ConditionReady {
			return c.Status == string(metav1.ConditionTrue)
		}
	}
	return false
}

// isReady: what the input says about the pool's readiness
func (p PassPoolJ) isReady() bool {
	if p.Conds != nil {
		return readyCond(*p.Conds)
	}
	return p.Ready
}

func (p PassPoolJ) usable() bool { return p.isReady() && !p.Static && !p.Deleting }

// readinessLabel classifies how the pool's readiness is expressed on the object (input distribution)
func (p PassPoolJ) readinessLabel() string {
	if p.Conds == nil {
		return lo.Ternary(p.Ready, "ready=True", "ready=False")
	}
	if len(*p.Conds) == 0 {
		return "ready=no-conditions"
	}
	for _, c := range *p.Conds {
		if c.Type == status.ConditionReady {
			return "ready=" + c.Status
		}
	}
	return "ready=absent"
}

// genConds draws the status conditions of one NodePool by driving the real ConditionSet API (operatorpkg) the way the
// NodePool controllers do: the dependents ValidationSucceeded / NodeClassReady and the independent
// NodeRegistrationHealthy are set True / False / Unknown or left alone, in a random order; the root condition Ready is
// whatever the API derives. A NodePool nobody has reconciled yet has no conditions at all.
func genConds(r *rand.Rand, mostlyReady bool) []CondJ {
	np := &v1.NodePool{}
	np.CreationTimestamp = metav1.NewTime(epoch)
	apply := func(t string, st int) {
		switch st {
		case 0:
			np.StatusConditions().SetTrue(t)
		case 1:
			np.StatusConditions().SetFalse(t, "NotReady", "not ready")
		case 2:
			np.StatusConditions().SetUnknown(t)
		} // 3: not set by anybody (the ConditionSet initialises missing dependents to Unknown once it is used)
	}
	if mostlyReady {
		apply(v1.ConditionTypeValidationSucceeded, 0)
		apply(v1.ConditionTypeNodeClassReady, 0)
		// registration health is no dependent of Ready: a pool with failing registrations is still a ready pool
		apply(v1.ConditionTypeNodeRegistrationHealthy, []int{2, 2, 0, 1, 3}[r.IntN(5)])
	} else {
		if r.IntN(6) == 0 {
			return []CondJ{} // not reconciled yet
		}
		ts := []string{v1.ConditionTypeValidationSucceeded, v1.ConditionTypeNodeClassReady, v1.ConditionTypeNodeRegistrationHealthy}
		r.Shuffle(len(ts), func(a, b int) { ts[a], ts[b] = ts[b], ts[a] })
		for _, t := range ts {
			apply(t, []int{0, 0, 0, 1, 2, 2, 3}[r.IntN(7)])
		}
	}
	out := []CondJ{}
	for _, c := range np.Status.Conditions {
		out = append(out, CondJ{Type: c.Type, Status: string(c.Status)})
	}
	// the API orders the list by transition time (wall clock): canonical order for a reproducible input
	sort.Slice(out, func(a, b int) bool { return out[a].Type < out[b].Type })
	return out
}

type PassPodJ struct {
	Name string   `json:"name"`
	CPU  int      `json:"cpu"` // milli-cores
	Sel  []ReqJ   `json:"sel"` // nodeSelector entries: op In, exactly one value
	Aff  []ReqJ   `json:"aff"` // one required node-affinity term
	Tol  []string `json:"tol"` // tolerated taint keys (toleration Exists with effect NoSchedule)
	// TolAll: keys tolerated by a toleration without an effect (matches NoSchedule and PreferNoSchedule taints alike);
	// TolSoft: keys tolerated for the effect PreferNoSchedule only
	TolAll  []string `json:"tol_all,omitempty"`
	TolSoft []string `json:"tol_soft,omitempty"`
}

type PassIn struct {
	Stream      string      `json:"stream,omitempty"` // which generator stream drew the case (labels only)
	Pools       []PassPoolJ `json:"pools"`
	Pods        []PassPodJ  `json:"pods"`
	CPURequests int         `json:"cpu_requests"` // options.CPURequests: ceil(/1000) workers evaluate the templates
	MaxTypes    int         `json:"max_types"`    // value given to scheduling.MaxInstanceTypes for the pass
	// BestEffort: the operator option MinValuesPolicy is BestEffort (default Strict)
	BestEffort bool `json:"best_effort,omitempty"`
	Reps        int         `json:"reps"`         // the pass is repeated on fresh worlds; all repetitions must agree with the spec
}

type ClaimJ struct {
	Pool  string   `json:"pool"`  // NodePool label of the created NodeClaim
	Pods  []string `json:"pods"`  // pods the scheduler put on it, in the order they were added (first = the pod that opened it)
	Types []string `json:"types"` // values of the instance-type requirement of the created NodeClaim, sorted
	// PoolReq: values of the created NodeClaim's own requirement karpenter.sh/nodepool In [...], sorted; null = it has none
	PoolReq *[]string `json:"pool_req"`
}

type PassRun struct {
	Claims      []ClaimJ `json:"claims"`      // sorted by first pod
	Unscheduled []string `json:"unscheduled"` // pods with a scheduling error, sorted
	Missing     []string `json:"missing"`     // pods neither placed nor reported (ignored by validation), sorted
	Deferred    []string `json:"deferred"`    // the unscheduled pods whose error is a ReservedOfferingError, sorted
}

type PassOut struct {
	Runs []PassRun `json:"runs"` // distinct outcomes over the repetitions (usually one)
	Err  string    `json:"err"`
}

const teamKey = "example.com/team"

var poolKey = v1.NodePoolLabelKey

var softKeys = []string{"dedicated", "gpu", "spot-ish"}

var teams = []string{"a", "b"}

func genPassType(r *rand.Rand, name string) TypeJ {
	t := TypeJ{Name: name, CPU: []int{1000, 2000, 4000, 4000, 8000, 16000}[r.IntN(6)], Pods: []int{1, 2, 3, 110, 110}[r.IntN(5)], Overhead: []int{0, 100, 100, 250}[r.IntN(4)]}
	t.Offerings = genOfferings(r, 3)
	if len(t.Offerings) == 0 || r.IntN(3) != 0 {
		t.Offerings = append(t.Offerings, OffJ{Zone: zones[r.IntN(3)], Ct: cts[r.IntN(2)], Price: pricePool[r.IntN(len(pricePool))], Avail: true})
	}
	// offerings of one instance type are unique per (zone, capacity type)
	seen := map[string]bool{}
	t.Offerings = lo.Filter(t.Offerings, func(o OffJ, _ int) bool {
		k := o.Zone + "/" + o.Ct
		if seen[k] {
			return false
		}
		seen[k] = true
		return true
	})
	return t
}

func genPoolReqs(r *rand.Rand, typeNames []string, strict int) []ReqJ {
	out := []ReqJ{}
	if r.IntN(10) >= strict {
		return out
	}
	if r.IntN(3) == 0 {
		vals := lo.Filter(zones, func(string, int) bool { return r.IntN(2) == 0 })
		if len(vals) == 0 {
			vals = []string{zones[r.IntN(3)]}
		}
		op := "In"
		if r.IntN(4) == 0 {
			op = "NotIn"
		}
		out = append(out, ReqJ{Key: zoneKey, Op: op, Vals: vals})
	}
	if r.IntN(3) == 0 {
		op := "In"
		if r.IntN(4) == 0 {
			op = "NotIn"
		}
		out = append(out, ReqJ{Key: ctKey, Op: op, Vals: []string{cts[r.IntN(2)]}})
	}
	if r.IntN(5) == 0 && len(typeNames) > 0 {
		vals := lo.Filter(typeNames, func(string, int) bool { return r.IntN(2) == 0 })
		if len(vals) == 0 {
			vals = []string{typeNames[0]}
		}
		op := "In"
		if r.IntN(3) == 0 {
			op = "NotIn"
		}
		out = append(out, ReqJ{Key: itKey, Op: op, Vals: vals})
	}
	return out
}

// genReadiness: one pool in `oneIn` gets conditions drawn freely (Ready False / Unknown / True through either dependent,
// or no conditions at all), the others the conditions of a healthy reconciled pool
func genReadiness(r *rand.Rand, p *PassPoolJ, oneIn int) {
	conds := genConds(r, r.IntN(oneIn) != 0)
	p.Conds = &conds
	p.Ready = readyCond(conds)
}

// genPassZonal — the stream "one pool opens several NodeClaims whose price rankings differ": a uniform catalog (every
// type is offered in every zone × capacity type of the case, mostly big enough for every pod, so a pod's requirements
// exclude few or no instance types and all NodeClaims of a pool start from the same option list), prices drawn
// independently per (type, zone, capacity type) so that the ranking under one zone / capacity type differs from the
// ranking under another, small pods pinned to different zones / capacity types, and a truncation bound below the
// catalog size. What one NodeClaim's ordering and truncation does must not show in another NodeClaim.
func genPassZonal(r *rand.Rand, t core.Tier) any {
	in := PassIn{Stream: "zonal", Pools: []PassPoolJ{}, Pods: []PassPodJ{}}
	zs := append([]string{}, zones...)
	r.Shuffle(len(zs), func(a, b int) { zs[a], zs[b] = zs[b], zs[a] })
	zs = zs[:2+r.IntN(2)]
	cs := append([]string{}, cts...)
	r.Shuffle(len(cs), func(a, b int) { cs[a], cs[b] = cs[b], cs[a] })
	cs = cs[:1+r.IntN(2)]
	nCat := 3 + r.IntN(6)
	if t == core.Thorough && r.IntN(4) == 0 {
		nCat = 8 + r.IntN(13)
	}
	uniformSize := r.IntN(10) < 7
	var catalog []TypeJ
	for i := 0; i < nCat; i++ {
		ty := TypeJ{Name: fmt.Sprintf("t%02d", i), CPU: 16000, Pods: 110, Overhead: []int{0, 100}[r.IntN(2)]}
		if !uniformSize {
			ty.CPU = []int{2000, 4000, 8000, 16000}[r.IntN(4)]
			ty.Pods = []int{1, 2, 110, 110}[r.IntN(4)]
		}
		for _, z := range zs {
			for _, c := range cs {
				price := 1 + r.IntN(4000)
				if r.IntN(5) == 0 {
					price = pricePool[r.IntN(len(pricePool))] // ties across types
				}
				ty.Offerings = append(ty.Offerings, OffJ{Zone: z, Ct: c, Price: price, Avail: r.IntN(25) != 0})
			}
		}
		catalog = append(catalog, ty)
	}
	nPools := []int{1, 1, 2, 2, 3}[r.IntN(5)]
	used := map[string]bool{}
	for i := 0; i < nPools; i++ {
		p := PassPoolJ{Labels: map[string]string{}, Taints: []string{}, Reqs: []ReqJ{}}
		for {
			p.Name = []string{"a", "ab", "b", "default", "np-1", "np-2", "z"}[r.IntN(7)]
			if !used[p.Name] {
				used[p.Name] = true
				break
			}
		}
		if r.IntN(5) != 0 {
			p.Weight = lo.ToPtr([]int32{10, 50, 50, 100}[r.IntN(4)])
		}
		genReadiness(r, &p, 10)
		p.Types = append([]TypeJ{}, catalog...)
		if r.IntN(4) == 0 {
			p.Types = lo.Filter(catalog, func(TypeJ, int) bool { return r.IntN(4) != 0 })
		}
		if p.Types == nil {
			p.Types = []TypeJ{}
		}
		r.Shuffle(len(p.Types), func(a, b int) { p.Types[a], p.Types[b] = p.Types[b], p.Types[a] })
		if r.IntN(5) == 0 { // a template requirement that excludes no offering zone of the case, or one of them
			p.Reqs = append(p.Reqs, ReqJ{Key: zoneKey, Op: "In", Vals: append([]string{}, zs[:1+r.IntN(len(zs))]...)})
		}
		in.Pools = append(in.Pools, p)
	}
	nPods := 2 + r.IntN(5)
	for i := 0; i < nPods; i++ {
		p := PassPodJ{Name: fmt.Sprintf("pod-%02d", i), CPU: []int{100, 250, 500, 1000}[r.IntN(4)], Sel: []ReqJ{}, Aff: []ReqJ{}, Tol: []string{}}
		switch x := r.IntN(10); {
		case x < 6:
			p.Sel = append(p.Sel, ReqJ{Key: zoneKey, Op: "In", Vals: []string{zs[r.IntN(len(zs))]}})
		case x < 7:
			p.Aff = append(p.Aff, ReqJ{Key: zoneKey, Op: "NotIn", Vals: []string{zs[r.IntN(len(zs))]}})
		}
		if len(cs) > 1 && r.IntN(3) == 0 {
			p.Sel = append(p.Sel, ReqJ{Key: ctKey, Op: "In", Vals: []string{cs[r.IntN(len(cs))]}})
		}
		in.Pods = append(in.Pods, p)
	}
	in.CPURequests = []int{1000, 1000, 2000, 4000, 8000, 16000}[r.IntN(6)]
	in.MaxTypes = []int{1, 1, 2, 2, 3, 4}[r.IntN(6)]
	in.Reps = 2
	if t == core.Thorough {
		in.Reps = 4
	}
	return in
}

// genPassTargeted — two streams on a uniform catalog (every type offered in every zone, big enough for every pod), so
// that which pool hosts a pod is decided by the pool's taints / zone requirement / name and not by its instance types:
//
//	"prefer": NodePools with PreferNoSchedule taints anywhere in the weight order (often NOT on the lowest-weight pool),
//	  pods that tolerate them (for every effect / for PreferNoSchedule only) or not, pools and pods pinned to zones so
//	  that frequently the only pools able to host a pod are soft-tainted ones: the preference must steer the pod to an
//	  untainted pool while there is one and must never leave it without a node;
//	"byname": pods that select or exclude NodePools BY NAME (nodeSelector karpenter.sh/nodepool=X, required affinity
//	  In / NotIn / Exists / DoesNotExist on that key; sometimes a name no pool has), usually not the highest-weight pool.
func genPassTargeted(r *rand.Rand, t core.Tier, kind string) any {
	in := PassIn{Stream: kind, Pools: []PassPoolJ{}, Pods: []PassPodJ{}}
	nCat := 1 + r.IntN(4)
	var catalog []TypeJ
	for i := 0; i < nCat; i++ {
		ty := TypeJ{Name: fmt.Sprintf("t%02d", i), CPU: []int{4000, 8000, 16000}[r.IntN(3)], Pods: []int{1, 3, 110, 110}[r.IntN(4)], Overhead: []int{0, 100}[r.IntN(2)]}
		for _, z := range zones {
			ty.Offerings = append(ty.Offerings, OffJ{Zone: z, Ct: cts[r.IntN(2)], Price: pricePool[r.IntN(len(pricePool))], Avail: r.IntN(15) != 0})
		}
		catalog = append(catalog, ty)
	}
	nPools := []int{1, 2, 2, 2, 3, 3, 3, 4, 4, 5}[r.IntN(10)]
	used := map[string]bool{}
	for i := 0; i < nPools; i++ {
		p := PassPoolJ{Labels: map[string]string{}, Taints: []string{}, Reqs: []ReqJ{}}
		for {
			p.Name = []string{"a", "ab", "b", "default", "high", "low", "np-1", "np-2", "z"}[r.IntN(9)]
			if !used[p.Name] {
				used[p.Name] = true
				break
			}
		}
		switch x := r.IntN(10); {
		case x < 1:
			p.Weight = nil
		case x < 4:
			p.Weight = lo.ToPtr([]int32{10, 50}[r.IntN(2)])
		default:
			p.Weight = lo.ToPtr(int32(1 + r.IntN(100)))
		}
		genReadiness(r, &p, 12)
		p.Types = append([]TypeJ{}, catalog...)
		r.Shuffle(len(p.Types), func(a, b int) { p.Types[a], p.Types[b] = p.Types[b], p.Types[a] })
		if r.IntN(2) == 0 {
			p.Reqs = append(p.Reqs, ReqJ{Key: zoneKey, Op: "In", Vals: []string{zones[r.IntN(3)]}})
		}
		if r.IntN(6) == 0 {
			p.Labels[teamKey] = teams[r.IntN(2)]
		}
		if r.IntN(8) == 0 {
			p.Taints = append(p.Taints, []string{"dedicated", "gpu"}[r.IntN(2)])
		}
		softP := map[string]int{"prefer": 2, "byname": 6}[kind]
		if r.IntN(softP) == 0 {
			p.SoftTaints = append(p.SoftTaints, softKeys[r.IntN(len(softKeys))])
			if r.IntN(5) == 0 {
				p.SoftTaints = lo.Uniq(append(p.SoftTaints, softKeys[r.IntN(len(softKeys))]))
			}
		}
		in.Pools = append(in.Pools, p)
	}
	if kind == "prefer" && !lo.ContainsBy(in.Pools, func(p PassPoolJ) bool { return len(p.SoftTaints) > 0 }) {
		i := r.IntN(len(in.Pools))
		in.Pools[i].SoftTaints = []string{softKeys[r.IntN(len(softKeys))]}
	}
	names := lo.Map(in.Pools, func(p PassPoolJ, _ int) string { return p.Name })
	nPods := 1 + r.IntN(4)
	for i := 0; i < nPods; i++ {
		p := PassPodJ{Name: fmt.Sprintf("pod-%02d", i), CPU: []int{100, 500, 1000, 3000}[r.IntN(4)], Sel: []ReqJ{}, Aff: []ReqJ{}, Tol: []string{}}
		if r.IntN(2) == 0 {
			p.Sel = append(p.Sel, ReqJ{Key: zoneKey, Op: "In", Vals: []string{zones[r.IntN(3)]}})
		}
		if r.IntN(8) == 0 {
			p.Sel = append(p.Sel, ReqJ{Key: teamKey, Op: "In", Vals: []string{teams[r.IntN(2)]}})
		}
		if r.IntN(4) == 0 {
			p.Tol = append(p.Tol, []string{"dedicated", "gpu"}[r.IntN(2)])
		}
		if r.IntN(5) == 0 {
			p.TolAll = append(p.TolAll, softKeys[r.IntN(len(softKeys))])
		}
		if r.IntN(6) == 0 {
			p.TolSoft = append(p.TolSoft, softKeys[r.IntN(len(softKeys))])
		}
		byNameP := map[string]int{"prefer": 8, "byname": 1}[kind]
		if r.IntN(byNameP) == 0 {
			pick := func() string {
				if r.IntN(12) == 0 {
					return "ghost"
				}
				return names[r.IntN(len(names))]
			}
			switch x := r.IntN(10); {
			case x < 4:
				p.Sel = append(p.Sel, ReqJ{Key: poolKey, Op: "In", Vals: []string{pick()}})
			case x < 6:
				p.Aff = append(p.Aff, ReqJ{Key: poolKey, Op: "In", Vals: lo.Uniq([]string{pick(), pick()})})
			case x < 9:
				p.Aff = append(p.Aff, ReqJ{Key: poolKey, Op: "NotIn", Vals: lo.Uniq([]string{pick(), pick()})})
			default:
				p.Aff = append(p.Aff, ReqJ{Key: poolKey, Op: []string{"Exists", "Exists", "DoesNotExist"}[r.IntN(3)], Vals: []string{}})
			}
			if r.IntN(10) == 0 && len(p.Aff) == 0 { // selector and affinity on the name together
				p.Aff = append(p.Aff, ReqJ{Key: poolKey, Op: []string{"In", "NotIn"}[r.IntN(2)], Vals: []string{pick()}})
			}
		}
		in.Pods = append(in.Pods, p)
	}
	in.CPURequests = []int{1000, 1000, 2000, 3000, 8000, 16000, 0}[r.IntN(7)]
	in.MaxTypes = []int{1, 2, 600, 600}[r.IntN(4)]
	in.Reps = 2
	if t == core.Thorough {
		in.Reps = 4
	}
	return in
}

// fixMaxTypes: under the Strict policy a NodeClaim cut to MaxInstanceTypes below its pool's minValues is dropped AFTER
// scheduling and its pods are not retried in the pass (Results.TruncateInstanceTypes; the leaf op c19.price covers that
// rule): passes keep MaxInstanceTypes at or above every minValues
func fixMaxTypes(in *PassIn) {
	if in.BestEffort {
		return
	}
	for _, p := range in.Pools {
		if p.MinTypes > in.MaxTypes {
			in.MaxTypes = 600
		}
	}
}

// genPassMinValues — the stream "minvalues": NodePools whose template asks for minValues distinct instance types,
// frequently MORE than the pool's own catalog (or what its requirements / the available offerings leave of it) can
// offer, mostly on pools that are not the lowest-weight one; the operator policy is BestEffort in three cases out of
// five (the pool is then still able to host: minValues is relaxed) and Strict otherwise (the pool is infeasible); pods
// that pin or exclude instance types so that a pool which meets its minValues by itself does not for the pod.
func genPassMinValues(r *rand.Rand, t core.Tier) any {
	in := PassIn{Stream: "minvalues", Pools: []PassPoolJ{}, Pods: []PassPodJ{}, BestEffort: r.IntN(5) < 3}
	nCat := 1 + r.IntN(5)
	var catalog []TypeJ
	for i := 0; i < nCat; i++ {
		ty := TypeJ{Name: fmt.Sprintf("t%02d", i), CPU: []int{2000, 4000, 8000, 8000}[r.IntN(4)], Pods: 110, Overhead: []int{0, 100}[r.IntN(2)]}
		dead := r.IntN(8) == 0 // every offering sold out
		for _, z := range zones {
			ty.Offerings = append(ty.Offerings, OffJ{Zone: z, Ct: cts[r.IntN(2)], Price: pricePool[r.IntN(len(pricePool))], Avail: !dead && r.IntN(12) != 0})
		}
		catalog = append(catalog, ty)
	}
	nPools := []int{1, 2, 2, 2, 3, 3, 4}[r.IntN(7)]
	used := map[string]bool{}
	for i := 0; i < nPools; i++ {
		p := PassPoolJ{Labels: map[string]string{}, Taints: []string{}, Reqs: []ReqJ{}}
		for {
			p.Name = []string{"a", "ab", "b", "default", "fallback", "preferred", "np-1", "np-2", "z"}[r.IntN(9)]
			if !used[p.Name] {
				used[p.Name] = true
				break
			}
		}
		switch x := r.IntN(10); {
		case x < 1:
			p.Weight = nil
		case x < 3:
			p.Weight = lo.ToPtr([]int32{10, 50}[r.IntN(2)])
		default:
			p.Weight = lo.ToPtr(int32(1 + r.IntN(100)))
		}
		genReadiness(r, &p, 15)
		p.Types = lo.Filter(catalog, func(TypeJ, int) bool { return r.IntN(3) != 0 })
		if len(p.Types) == 0 && r.IntN(10) != 0 {
			p.Types = []TypeJ{catalog[r.IntN(len(catalog))]}
		}
		if p.Types == nil {
			p.Types = []TypeJ{}
		}
		r.Shuffle(len(p.Types), func(a, b int) { p.Types[a], p.Types[b] = p.Types[b], p.Types[a] })
		p.MinTypes = []int{0, 0, 1, 2, 2, 3, 3, 4, 5}[r.IntN(9)]
		if r.IntN(3) == 0 { // around the size of the pool's catalog: one less, exactly, one more
			p.MinTypes = max(0, len(p.Types)-1+r.IntN(3))
		}
		if r.IntN(4) == 0 {
			p.Reqs = append(p.Reqs, ReqJ{Key: zoneKey, Op: "In", Vals: []string{zones[r.IntN(3)]}})
		}
		if r.IntN(6) == 0 && len(p.Types) > 0 {
			p.Reqs = append(p.Reqs, ReqJ{Key: itKey, Op: "NotIn", Vals: []string{p.Types[r.IntN(len(p.Types))].Name}})
		}
		if r.IntN(10) == 0 {
			p.SoftTaints = append(p.SoftTaints, softKeys[r.IntN(len(softKeys))])
		}
		in.Pools = append(in.Pools, p)
	}
	nPods := 1 + r.IntN(4)
	for i := 0; i < nPods; i++ {
		p := PassPodJ{Name: fmt.Sprintf("pod-%02d", i), CPU: []int{500, 1000, 3000, 5000, 7000}[r.IntN(5)], Sel: []ReqJ{}, Aff: []ReqJ{}, Tol: []string{}}
		if r.IntN(5) == 0 {
			p.Sel = append(p.Sel, ReqJ{Key: itKey, Op: "In", Vals: []string{catalog[r.IntN(len(catalog))].Name}})
		}
		if r.IntN(4) == 0 {
			p.Sel = append(p.Sel, ReqJ{Key: zoneKey, Op: "In", Vals: []string{zones[r.IntN(3)]}})
		}
		if r.IntN(5) == 0 {
			vals := lo.Filter(catalog, func(TypeJ, int) bool { return r.IntN(3) == 0 })
			if len(vals) == 0 {
				vals = []TypeJ{catalog[0]}
			}
			p.Aff = append(p.Aff, ReqJ{Key: itKey, Op: []string{"NotIn", "NotIn", "In"}[r.IntN(3)], Vals: lo.Map(vals, func(t TypeJ, _ int) string { return t.Name })})
		}
		in.Pods = append(in.Pods, p)
	}
	in.CPURequests = []int{1000, 1000, 2000, 4000, 8000, 0}[r.IntN(6)]
	in.MaxTypes = []int{1, 2, 3, 5, 600, 600, 600}[r.IntN(7)]
	fixMaxTypes(&in)
	in.Reps = 2
	if t == core.Thorough {
		in.Reps = 4
	}
	return in
}

func genPass(r *rand.Rand, t core.Tier) any {
	switch r.IntN(12) {
	case 0, 1:
		return genPassZonal(r, t)
	case 2, 3:
		return genPassTargeted(r, t, "prefer")
	case 4, 5:
		return genPassTargeted(r, t, "byname")
	case 6, 7:
		return genPassMinValues(r, t)
	}
	in := PassIn{Pools: []PassPoolJ{}, Pods: []PassPodJ{}}
	nPools := []int{1, 2, 2, 3, 3, 4, 4, 5, 5, 5}[r.IntN(10)]
	// a shared catalog: pools mostly offer the same instance types (as one provider does), sometimes their own
	nCat := 2 + r.IntN(6)
	var catalog []TypeJ
	for i := 0; i < nCat; i++ {
		catalog = append(catalog, genPassType(r, fmt.Sprintf("t%02d", i)))
	}
	fewWeights := r.IntN(2) == 0
	strict := []int{1, 3, 3, 6, 9}[r.IntN(5)] // how constrained pools and pods are in this case (out of 10)
	usedNames := map[string]bool{}
	for i := 0; i < nPools; i++ {
		p := PassPoolJ{Ready: true, Labels: map[string]string{}, Taints: []string{}}
		for {
			p.Name = []string{"a", "ab", "b", "c", "default", "gpu", "np-1", "np-10", "np-2", "z"}[r.IntN(10)]
			if !usedNames[p.Name] {
				usedNames[p.Name] = true
				break
			}
		}
		switch x := r.IntN(10); {
		case x < 2:
			p.Weight = nil
		case fewWeights:
			p.Weight = lo.ToPtr([]int32{10, 50}[r.IntN(2)])
		default:
			p.Weight = lo.ToPtr(int32(1 + r.IntN(100)))
		}
		switch r.IntN(30) {
		case 1:
			p.Static = true
		case 2:
			p.Deleting = true
		}
		genReadiness(r, &p, 7)
		// instance types
		switch x := r.IntN(10); {
		case x < 6:
			p.Types = append([]TypeJ{}, catalog...)
		case x < 9:
			p.Types = lo.Filter(catalog, func(TypeJ, int) bool { return r.IntN(2) == 0 })
			if len(p.Types) == 0 && r.IntN(4) != 0 {
				p.Types = []TypeJ{catalog[r.IntN(len(catalog))]}
			}
		default:
			p.Types = []TypeJ{genPassType(r, fmt.Sprintf("own-%d", i))}
		}
		if p.Types == nil {
			p.Types = []TypeJ{}
		}
		r.Shuffle(len(p.Types), func(a, b int) { p.Types[a], p.Types[b] = p.Types[b], p.Types[a] })
		p.Reqs = genPoolReqs(r, lo.Map(p.Types, func(t TypeJ, _ int) string { return t.Name }), strict+2)
		if r.IntN(3) == 0 {
			p.Labels[teamKey] = teams[r.IntN(2)]
		}
		if r.IntN(10) < strict && r.IntN(3) == 0 {
			p.Taints = append(p.Taints, []string{"dedicated", "gpu"}[r.IntN(2)])
		}
		if r.IntN(8) == 0 { // a preference, whatever the strictness of the case
			p.SoftTaints = append(p.SoftTaints, softKeys[r.IntN(len(softKeys))])
		}
		if r.IntN(8) == 0 { // flexibility asked of the pool's NodeClaims
			p.MinTypes = 1 + r.IntN(3)
		}
		in.Pools = append(in.Pools, p)
	}
	nPods := 1 + r.IntN(6)
	if t == core.Thorough && r.IntN(5) == 0 {
		nPods = 1 + r.IntN(14)
	}
	for i := 0; i < nPods; i++ {
		p := PassPodJ{Name: fmt.Sprintf("pod-%02d", i), CPU: []int{100, 250, 500, 500, 900, 1000, 1000, 1500, 1500, 1900, 1900, 2000, 3900, 3900, 4000, 7750}[r.IntN(16)], Sel: []ReqJ{}, Aff: []ReqJ{}, Tol: []string{}}
		if r.IntN(3) == 0 {
			p.Tol = append(p.Tol, []string{"dedicated", "gpu"}[r.IntN(2)])
			if r.IntN(3) == 0 {
				p.Tol = []string{"dedicated", "gpu"}
			}
		}
		if r.IntN(10) == 0 {
			p.TolAll = append(p.TolAll, softKeys[r.IntN(len(softKeys))])
		}
		if r.IntN(12) == 0 {
			p.TolSoft = append(p.TolSoft, softKeys[r.IntN(len(softKeys))])
		}
		if r.IntN(10) >= strict {
			in.Pods = append(in.Pods, p)
			continue
		}
		if r.IntN(40) == 0 {
			p.CPU = 17000 // fits nothing
		}
		if r.IntN(4) == 0 {
			p.Sel = append(p.Sel, ReqJ{Key: zoneKey, Op: "In", Vals: []string{zones[r.IntN(3)]}})
		}
		if r.IntN(5) == 0 {
			p.Sel = append(p.Sel, ReqJ{Key: ctKey, Op: "In", Vals: []string{cts[r.IntN(2)]}})
		}
		if r.IntN(4) == 0 {
			p.Sel = append(p.Sel, ReqJ{Key: teamKey, Op: "In", Vals: []string{teams[r.IntN(2)]}})
		}
		if r.IntN(10) == 0 && len(catalog) > 0 {
			p.Sel = append(p.Sel, ReqJ{Key: itKey, Op: "In", Vals: []string{catalog[r.IntN(len(catalog))].Name}})
		}
		if r.IntN(8) == 0 { // a NodePool selected by name
			p.Sel = append(p.Sel, ReqJ{Key: poolKey, Op: "In", Vals: []string{in.Pools[r.IntN(len(in.Pools))].Name}})
		}
		if r.IntN(3) == 0 {
			// the required affinity term constrains well-known keys only: a NotIn/Exists/DoesNotExist on a custom key makes
			// that key "defined" on the in-flight NodeClaim, after which other pods' values for it are adopted as a node
			// label (C01/C04 territory, not the ordering this property is about)
			key, dom := zoneKey, zones
			switch r.IntN(6) {
			case 0, 1:
				key, dom = ctKey, cts
			case 2:
				key, dom = poolKey, lo.Map(in.Pools, func(q PassPoolJ, _ int) string { return q.Name })
			}
			op := []string{"In", "In", "NotIn", "NotIn", "NotIn", "Exists", "Exists", "DoesNotExist"}[r.IntN(8)]
			var vals []string
			if op == "In" || op == "NotIn" {
				vals = lo.Filter(dom, func(string, int) bool { return r.IntN(2) == 0 })
				if len(vals) == 0 {
					vals = []string{dom[0]}
				}
			} else {
				vals = []string{}
			}
			p.Aff = append(p.Aff, ReqJ{Key: key, Op: op, Vals: vals})
		}
		in.Pods = append(in.Pods, p)
	}
	// a small dedicated stream: one pod whose own requirements on a custom key contradict each other (known finding)
	if r.IntN(25) == 0 {
		i := r.IntN(len(in.Pods))
		v := teams[r.IntN(2)]
		in.Pods[i].Sel = lo.Filter(in.Pods[i].Sel, func(s ReqJ, _ int) bool { return s.Key != teamKey })
		in.Pods[i].Sel = append(in.Pods[i].Sel, ReqJ{Key: teamKey, Op: "In", Vals: []string{v}})
		if r.IntN(2) == 0 {
			in.Pods[i].Aff = append(in.Pods[i].Aff, ReqJ{Key: teamKey, Op: "DoesNotExist", Vals: []string{}})
		} else {
			in.Pods[i].Aff = append(in.Pods[i].Aff, ReqJ{Key: teamKey, Op: "NotIn", Vals: []string{v}})
		}
	}
	in.CPURequests = []int{1000, 2000, 8000, 5000, 500, 1000, 2000, 8000, 16000, 0}[r.IntN(10)]
	in.MaxTypes = []int{1, 2, 3, 5, 600}[r.IntN(5)]
	in.BestEffort = r.IntN(3) == 0
	fixMaxTypes(&in)
	in.Reps = 3
	if t == core.Thorough {
		in.Reps = 8
	}
	return in
}

func mkPassType(t TypeJ) *cloudprovider.InstanceType {
	ofs := lo.Map(mkOfferings(t.Offerings), func(o *cloudprovider.Offering, _ int) cloudprovider.Offering { return *o })
	it := fakecp.NewInstanceType(t.Name,
		fakecp.WithResources(corev1.ResourceList{
			corev1.ResourceCPU:    *resource.NewMilliQuantity(int64(t.CPU), resource.DecimalSI),
			corev1.ResourceMemory: resource.MustParse("64Gi"),
			corev1.ResourcePods:   *resource.NewQuantity(int64(t.Pods), resource.DecimalSI),
		}),
		fakecp.WithOfferings(ofs...))
	it.Overhead = &cloudprovider.InstanceTypeOverhead{KubeReserved: corev1.ResourceList{
		corev1.ResourceCPU: *resource.NewMilliQuantity(int64(t.Overhead), resource.DecimalSI),
	}}
	return it
}

var epoch = time.Date(2026, 1, 1, 0, 0, 0, 0, time.UTC)

func newKube() client.Client {
	// a plain object tracker: the default field-managed tracker rebuilds a REST mapper of the whole scheme on every Create
	tracker := clienttesting.NewObjectTracker(scheme.Scheme, serializer.NewCodecFactory(scheme.Scheme).UniversalDecoder())
	return fakeclient.NewClientBuilder().WithScheme(scheme.Scheme).WithObjectTracker(tracker).
		WithIndex(&corev1.Pod{}, "spec.nodeName", func(o client.Object) []string { return []string{o.(*corev1.Pod).Spec.NodeName} }).
		WithIndex(&corev1.Node{}, "spec.providerID", func(o client.Object) []string { return []string{o.(*corev1.Node).Spec.ProviderID} }).
		WithIndex(&v1.NodeClaim{}, "status.providerID", func(o client.Object) []string { return []string{o.(*v1.NodeClaim).Status.ProviderID} }).
		WithStatusSubresource(&v1.NodeClaim{}, &v1.NodePool{}).
		Build()
}

func runPassOnce(in *PassIn) (*PassRun, error) {
	ctx := ctxWith(in.BestEffort, in.CPURequests)
	kube := newKube()
	clk := clocktesting.NewFakeClock(epoch.Add(24 * time.Hour))
	cp := fakecp.NewCloudProvider()
	for i, p := range in.Pools {
		np := test.NodePool(v1.NodePool{ObjectMeta: metav1.ObjectMeta{Name: p.Name}})
		np.UID = types.UID(fmt.Sprintf("np-uid-%d", i))
		np.CreationTimestamp = metav1.NewTime(epoch.Add(time.Duration(i) * time.Second))
		np.Spec.Limits = nil
		if p.LimitCPU > 0 {
			np.Spec.Limits = v1.Limits(corev1.ResourceList{corev1.ResourceCPU: *resource.NewMilliQuantity(int64(p.LimitCPU), resource.DecimalSI)})
		}
		if p.Weight != nil {
			np.Spec.Weight = lo.ToPtr(*p.Weight)
		}
		for _, r := range p.Reqs {
			np.Spec.Template.Spec.Requirements = append(np.Spec.Template.Spec.Requirements, v1.NodeSelectorRequirementWithMinValues{
				Key: r.Key, Operator: corev1.NodeSelectorOperator(r.Op), Values: r.Vals,
			})
		}
		if p.MinTypes > 0 {
			np.Spec.Template.Spec.Requirements = append(np.Spec.Template.Spec.Requirements, v1.NodeSelectorRequirementWithMinValues{
				Key: itKey, Operator: corev1.NodeSelectorOpExists, MinValues: lo.ToPtr(p.MinTypes),
			})
		}
		if len(p.Labels) > 0 {
			np.Spec.Template.Labels = lo.Assign(np.Spec.Template.Labels, p.Labels)
		}
		for _, k := range p.Taints {
			np.Spec.Template.Spec.Taints = append(np.Spec.Template.Spec.Taints, corev1.Taint{Key: k, Value: "true", Effect: corev1.TaintEffectNoSchedule})
		}
		for _, k := range p.SoftTaints {
			np.Spec.Template.Spec.Taints = append(np.Spec.Template.Spec.Taints, corev1.Taint{Key: k, Value: "true", Effect: corev1.TaintEffectPreferNoSchedule})
		}
		if p.Static {
			np.Spec.Replicas = lo.ToPtr(int64(1))
		}
		if p.Conds != nil {
			// the stored list, verbatim (reasons and times are not part of the input)
			np.Status.Conditions = nil
			for _, c := range *p.Conds {
				np.Status.Conditions = append(np.Status.Conditions, status.Condition{
					Type: c.Type, Status: metav1.ConditionStatus(c.Status), Reason: c.Type, Message: "verif",
					LastTransitionTime: np.CreationTimestamp,
				})
			}
			// only lists the ConditionSet API itself leaves alone are inside the model: on a hand-made list whose root
			// disagrees with its dependents the API would rewrite the root the moment the object is looked at
			chk := np.DeepCopy()
			if root := chk.StatusConditions().Root(); len(*p.Conds) > 0 && lo.ContainsBy(*p.Conds, func(c CondJ) bool { return c.Type == status.ConditionReady }) &&
				(root.IsTrue() != readyCond(*p.Conds)) {
				return nil, fmt.Errorf("nodepool %s: stored conditions are not a list the ConditionSet API produces", p.Name)
			}
		} else if !p.Ready {
			np.StatusConditions().SetFalse(v1.ConditionTypeNodeClassReady, "NotReady", "node class is not ready")
		}
		if p.Deleting {
			np.Finalizers = append(np.Finalizers, "verif.example.com/hold")
		}
		if err := kube.Create(ctx, np); err != nil {
			return nil, fmt.Errorf("create nodepool: %w", err)
		}
		stored := &v1.NodePool{}
		if err := kube.Get(ctx, types.NamespacedName{Name: p.Name}, stored); err != nil || len(stored.Status.Conditions) != len(np.Status.Conditions) {
			return nil, fmt.Errorf("nodepool %s: the status conditions were not stored as given (%v)", p.Name, err)
		}
		if p.Deleting { // with a finalizer present the fake client only sets the deletionTimestamp
			if err := kube.Delete(ctx, np); err != nil {
				return nil, fmt.Errorf("delete nodepool: %w", err)
			}
			chk := &v1.NodePool{}
			if err := kube.Get(ctx, types.NamespacedName{Name: p.Name}, chk); err != nil || chk.DeletionTimestamp.IsZero() {
				return nil, fmt.Errorf("nodepool %s is not in deleting state (%v)", p.Name, err)
			}
		}
		cp.InstanceTypesForNodePool[p.Name] = lo.Map(p.Types, func(t TypeJ, _ int) *cloudprovider.InstanceType { return mkPassType(t) })
	}
	for i, p := range in.Pods {
		opts := test.PodOptions{
			ObjectMeta: metav1.ObjectMeta{Name: p.Name, Namespace: "default"},
			ResourceRequirements: corev1.ResourceRequirements{Requests: corev1.ResourceList{
				corev1.ResourceCPU: *resource.NewMilliQuantity(int64(p.CPU), resource.DecimalSI),
			}},
		}
		if len(p.Sel) > 0 {
			opts.NodeSelector = map[string]string{}
			for _, s := range p.Sel {
				opts.NodeSelector[s.Key] = s.Vals[0]
			}
		}
		for _, a := range p.Aff {
			opts.NodeRequirements = append(opts.NodeRequirements, corev1.NodeSelectorRequirement{Key: a.Key, Operator: corev1.NodeSelectorOperator(a.Op), Values: a.Vals})
		}
		for _, k := range p.Tol {
			opts.Tolerations = append(opts.Tolerations, corev1.Toleration{Key: k, Operator: corev1.TolerationOpExists, Effect: corev1.TaintEffectNoSchedule})
		}
		for _, k := range p.TolAll {
			opts.Tolerations = append(opts.Tolerations, corev1.Toleration{Key: k, Operator: corev1.TolerationOpExists})
		}
		for _, k := range p.TolSoft {
			opts.Tolerations = append(opts.Tolerations, corev1.Toleration{Key: k, Operator: corev1.TolerationOpExists, Effect: corev1.TaintEffectPreferNoSchedule})
		}
		pod := test.UnschedulablePod(opts)
		pod.UID = types.UID(fmt.Sprintf("pod-uid-%03d", i))
		pod.CreationTimestamp = metav1.NewTime(epoch.Add(time.Duration(i) * time.Second))
		if err := kube.Create(ctx, pod); err != nil {
			return nil, fmt.Errorf("create pod: %w", err)
		}
	}
	cluster := state.NewCluster(clk, kube, cp)
	prov := provisioning.NewProvisioner(kube, test.NewEventRecorder(), cp, cluster, clk, nil, virtualpods.NewVirtualPodCache(kube))
	results, err := prov.Schedule(ctx)
	if err != nil {
		return nil, fmt.Errorf("schedule: %w", err)
	}
	claims := results.NewNodeClaims
	created, err := prov.CreateNodeClaims(ctx, claims, provisioning.WithReason("provisioned"))
	if err != nil {
		return nil, fmt.Errorf("create nodeclaims: %w", err)
	}
	run := &PassRun{Claims: []ClaimJ{}, Unscheduled: []string{}, Missing: []string{}, Deferred: []string{}}
	placed := map[string]bool{}
	for i, c := range claims {
		nc := &v1.NodeClaim{}
		if err := kube.Get(ctx, types.NamespacedName{Name: created[i]}, nc); err != nil {
			return nil, fmt.Errorf("get nodeclaim %q: %w", created[i], err)
		}
		cj := ClaimJ{Pool: nc.Labels[v1.NodePoolLabelKey], Pods: []string{}, Types: []string{}}
		for _, p := range c.Pods {
			cj.Pods = append(cj.Pods, p.Name)
			placed[p.Name] = true
		}
		for _, r := range nc.Spec.Requirements {
			if r.Key == itKey {
				cj.Types = append(cj.Types, r.Values...)
			}
			if r.Key == poolKey && r.Operator == corev1.NodeSelectorOpIn {
				vs := append([]string{}, r.Values...)
				sort.Strings(vs)
				cj.PoolReq = &vs
			}
		}
		sort.Strings(cj.Types)
		run.Claims = append(run.Claims, cj)
	}
	for _, en := range results.ExistingNodes {
		for _, p := range en.Pods {
			placed[p.Name] = true
		}
	}
	sort.Slice(run.Claims, func(a, b int) bool { return run.Claims[a].Pods[0] < run.Claims[b].Pods[0] })
	errd := map[string]bool{}
	for p, e := range results.PodErrors {
		errd[p.Name] = true
		run.Unscheduled = append(run.Unscheduled, p.Name)
		if provscheduling.IsReservedOfferingError(e) {
			run.Deferred = append(run.Deferred, p.Name)
		}
	}
	sort.Strings(run.Unscheduled)
	sort.Strings(run.Deferred)
	for _, p := range in.Pods {
		if !placed[p.Name] && !errd[p.Name] {
			run.Missing = append(run.Missing, p.Name)
		}
	}
	sort.Strings(run.Missing)
	return run, nil
}

func implPass(raw json.RawMessage) (any, error) {
	var in PassIn
	if err := json.Unmarshal(raw, &in); err != nil {
		return nil, err
	}
	// MaxInstanceTypes is a package variable of the real code ("intentionally var to help in testing")
	maxTypesMu.Lock()
	old := provscheduling.MaxInstanceTypes
	provscheduling.MaxInstanceTypes = in.MaxTypes
	defer func() {
		provscheduling.MaxInstanceTypes = old
		maxTypesMu.Unlock()
	}()
	out := PassOut{Runs: []PassRun{}}
	seen := map[string]bool{}
	reps := in.Reps
	if reps <= 0 {
		reps = 1
	}
	for k := 0; k < reps; k++ {
		run, err := runPassOnce(&in)
		if err != nil {
			out.Err = err.Error()
			return out, nil
		}
		b, _ := json.Marshal(run)
		if !seen[string(b)] {
			seen[string(b)] = true
			out.Runs = append(out.Runs, *run)
		}
	}
	sort.Slice(out.Runs, func(a, b int) bool {
		x, _ := json.Marshal(out.Runs[a])
		y, _ := json.Marshal(out.Runs[b])
		return string(x) < string(y)
	})
	return out, nil
}

func passLabels(raw json.RawMessage, impl any) []string {
	var in PassIn
	json.Unmarshal(raw, &in)
	l := []string{fmt.Sprintf("pools=%d", len(in.Pools)), fmt.Sprintf("workers=%d", max(1, (in.CPURequests+999)/1000)), fmt.Sprintf("maxTypes=%d", in.MaxTypes)}
	if in.Stream != "" {
		l = append(l, "stream="+in.Stream)
	}
	ws := map[int32]int{}
	for _, p := range in.Pools {
		ws[lo.FromPtr(p.Weight)]++
		if !p.usable() {
			l = append(l, "unusable-pool")
		}
		l = append(l, "pool:"+p.readinessLabel())
		// a pool that is not ready (for whatever reason) outranks a usable one: its weight must not count
		if !p.isReady() && lo.ContainsBy(in.Pools, func(q PassPoolJ) bool { return q.usable() && lo.FromPtr(q.Weight) < lo.FromPtr(p.Weight) }) {
			l = append(l, "unready-pool-outranks-usable-pool:"+p.readinessLabel())
		}
	}
	for _, c := range ws {
		if c > 1 {
			l = append(l, "weight-tie")
			break
		}
	}
	if selfContradictoryCustomKey(in) {
		l = append(l, "self-contradictory-pod")
	}
	// PreferNoSchedule taints: where in the weight order of the usable pools do they sit
	order := lo.Filter(weightOrderNames(in), func(nm string, _ int) bool {
		q, _ := lo.Find(in.Pools, func(q PassPoolJ) bool { return q.Name == nm })
		return q.usable()
	})
	poolByName := lo.KeyBy(in.Pools, func(q PassPoolJ) string { return q.Name })
	for i, nm := range order {
		if len(poolByName[nm].SoftTaints) > 0 {
			l = append(l, "soft-tainted-pool")
			if i < len(order)-1 {
				l = append(l, "soft-tainted-pool-not-last-in-weight-order")
				if len(poolByName[order[len(order)-1]].SoftTaints) == 0 {
					l = append(l, "soft-tainted-pool-above-untainted-last-pool")
				}
			}
		}
	}
	if lo.ContainsBy(in.Pools, func(q PassPoolJ) bool { return q.MinTypes > 0 }) {
		l = append(l, "minvalues:policy="+lo.Ternary(in.BestEffort, "BestEffort", "Strict"))
	}
	for i, nm := range order {
		if q := poolByName[nm]; q.MinTypes > len(q.Types) {
			l = append(l, "pool-minvalues-above-own-catalog:"+lo.Ternary(in.BestEffort, "BestEffort", "Strict"))
			if i < len(order)-1 {
				l = append(l, "pool-minvalues-above-own-catalog-not-last-in-weight-order:"+lo.Ternary(in.BestEffort, "BestEffort", "Strict"))
			}
		}
	}
	podByName := lo.KeyBy(in.Pods, func(q PassPodJ) string { return q.Name })
	namesPool := func(q PassPodJ) bool {
		return lo.ContainsBy(q.Sel, func(s ReqJ) bool { return s.Key == poolKey }) || lo.ContainsBy(q.Aff, func(s ReqJ) bool { return s.Key == poolKey })
	}
	for _, q := range in.Pods {
		if namesPool(q) {
			l = append(l, "pod-constrains-pool-name")
		}
		if len(q.TolAll) > 0 || len(q.TolSoft) > 0 {
			l = append(l, "pod-tolerates-soft-taint-key")
		}
	}
	var out PassOut
	if b, err := json.Marshal(impl); err == nil && json.Unmarshal(b, &out) == nil {
		if len(out.Runs) > 1 {
			l = append(l, "runs-differ")
		}
		if len(out.Runs) > 0 {
			run := out.Runs[0]
			l = append(l, fmt.Sprintf("claims=%d", min(len(run.Claims), 6)))
			if len(run.Unscheduled) > 0 {
				l = append(l, "unscheduled-pods")
			}
			if len(run.Missing) > 0 {
				l = append(l, "ignored-pods")
			}
			first := weightOrderNames(in)
			for _, c := range run.Claims {
				if len(first) > 0 && c.Pool != first[0] {
					l = append(l, "fallback-to-lower-pool")
					break
				}
			}
			for _, c := range run.Claims {
				if len(c.Pods) > 1 {
					l = append(l, "shared-claim")
					break
				}
			}
			for _, c := range run.Claims {
				opener, pool := podByName[c.Pods[0]], poolByName[c.Pool]
				if lo.ContainsBy(pool.SoftTaints, func(k string) bool { return !lo.Contains(opener.TolAll, k) && !lo.Contains(opener.TolSoft, k) }) {
					l = append(l, "claim-opened-against-taint-preference")
					if len(order) > 0 && c.Pool != order[len(order)-1] {
						l = append(l, "claim-opened-against-taint-preference-not-in-last-pool")
					}
				}
				if idx := lo.IndexOf(order, c.Pool); len(pool.SoftTaints) == 0 && idx > 0 && lo.ContainsBy(order[:idx], func(nm string) bool { return len(poolByName[nm].SoftTaints) > 0 }) {
					l = append(l, "claim-below-soft-tainted-pool")
				}
				if pool.MinTypes > 0 {
					l = append(l, "claim-in-pool-with-minvalues")
					if len(c.Types) < pool.MinTypes && in.MaxTypes >= pool.MinTypes {
						l = append(l, "claim-with-relaxed-minvalues")
						if len(order) > 0 && c.Pool != order[len(order)-1] {
							l = append(l, "claim-with-relaxed-minvalues-not-in-last-pool")
						}
					}
				}
				if namesPool(opener) {
					l = append(l, "claim-for-pod-constraining-pool-name")
					if len(order) > 0 && c.Pool != order[0] {
						l = append(l, "claim-for-pod-constraining-pool-name-not-in-first-pool")
					}
				}
			}
			for _, c := range run.Claims {
				if len(c.Types) == in.MaxTypes {
					l = append(l, "truncated-or-exact")
					break
				}
			}
			// several NodeClaims of one pool whose instance types were cut to different sets: their orderings differ
			perPool := map[string][]ClaimJ{}
			for _, c := range run.Claims {
				perPool[c.Pool] = append(perPool[c.Pool], c)
			}
			several, differ := false, false
			for _, cs := range perPool {
				if len(cs) > 1 {
					several = true
					for _, c := range cs[1:] {
						if len(c.Types) == in.MaxTypes && fmt.Sprint(c.Types) != fmt.Sprint(cs[0].Types) {
							differ = true
						}
					}
				}
			}
			if several {
				l = append(l, "several-claims-in-one-pool")
			}
			if differ {
				l = append(l, "claims-of-one-pool-cut-differently")
			}
		}
	}
	return l
}

// pool names in weight order (labels only)
func weightOrderNames(in PassIn) []string {
	ps := append([]PassPoolJ{}, in.Pools...)
	sort.SliceStable(ps, func(a, b int) bool {
		wa, wb := lo.FromPtr(ps[a].Weight), lo.FromPtr(ps[b].Weight)
		if wa == wb {
			return ps[a].Name > ps[b].Name
		}
		return wa > wb
	})
	return lo.Map(ps, func(p PassPoolJ, _ int) string { return p.Name })
}

// selfContradictoryCustomKey: some pod requires a custom label to have a value (nodeSelector) and, in its required node
// affinity, to be absent or different — no node can ever satisfy it.
func selfContradictoryCustomKey(in PassIn) bool {
	for _, p := range in.Pods {
		for _, s := range p.Sel {
			if s.Key == zoneKey || s.Key == ctKey || s.Key == itKey || s.Key == poolKey || len(s.Vals) != 1 {
				continue
			}
			for _, a := range p.Aff {
				if a.Key != s.Key {
					continue
				}
				if a.Op == "DoesNotExist" || (a.Op == "NotIn" && lo.Contains(a.Vals, s.Vals[0])) || (a.Op == "In" && !lo.Contains(a.Vals, s.Vals[0])) {
					return true
				}
			}
		}
	}
	return false
}

func passOp() *core.Op {
	return &core.Op{
		Name: "c19.pass",
		Doc:  "whole passes of the real Provisioner (Schedule + CreateNodeClaims on the fake client, fake cloud provider) with 1..5 weighted NodePools (ties, nil weights, static/deleting pools, status conditions written through the real ConditionSet API: Ready True / False / Unknown via either dependent, registration health set or not, or no conditions at all; taints, template labels and requirements, per-pool catalogs with price ties), 1..6 pods without inter-pod constraints, 1/2/5/8 template-evaluation workers, MaxInstanceTypes 1/2/3/5/600; one case in six from the stream zonal (uniform catalog priced independently per zone × capacity type, small pods pinned to different zones / capacity types, MaxInstanceTypes 1..4 below the catalog size: several NodeClaims of one pool start from the same option list and must be ordered and cut independently), one in six from the stream prefer (uniform catalog; PreferNoSchedule taints anywhere in the weight order, mostly not on the lowest-weight pool; pools and pods pinned to zones so that often only soft-tainted pools can host a pod; tolerations per key for every effect / PreferNoSchedule only / none), one in six from the stream byname (pods selecting or excluding NodePools by name through nodeSelector or required affinity In / NotIn / Exists / DoesNotExist on karpenter.sh/nodepool, unknown names); one in six from the stream minvalues (templates asking for minValues distinct instance types, often more than the pool's own catalog / requirements / available offerings leave, operator policy BestEffort in three cases of five and Strict otherwise, pods pinning or excluding instance types); soft taints, name selectors, minValues and the BestEffort policy also sprinkled over the general stream; each pass repeated on fresh worlds; observed: NodePool label, pods, instance-type requirement and the own requirement karpenter.sh/nodepool In [...] of every created NodeClaim",
		N:    n(700, 3000),
		Gen:  genPass,
		Impl: implPass,
		Rule: "non-trivial = at least one NodeClaim was created and (two pools tie in weight, or a claim went to a pool other than the first in weight order, or a claim's instance types were cut to MaxInstanceTypes, or a claim was opened against a PreferNoSchedule taint, or for a pod that constrains the NodePool name, or in a pool that asks for minValues)",
		Nontrivial: func(raw json.RawMessage, impl any) bool {
			ls := passLabels(raw, impl)
			has := func(s string) bool { return lo.Contains(ls, s) }
			return !has("claims=0") && (has("weight-tie") || has("fallback-to-lower-pool") || has("truncated-or-exact") ||
				has("claim-opened-against-taint-preference") || has("claim-for-pod-constraining-pool-name") || has("claim-in-pool-with-minvalues"))
		},
		Labels: passLabels,
		Signature: func(raw json.RawMessage, _ any) string {
			var in PassIn
			json.Unmarshal(raw, &in)
			if selfContradictoryCustomKey(in) {
				return "pod-with-self-contradictory-custom-label-requirement"
			}
			return "pass"
		},
		Shrink: func(raw json.RawMessage) []any {
			var in PassIn
			json.Unmarshal(raw, &in)
			var out []any
			for _, c := range core.ShrinkList(in.Pods) {
				x := in
				x.Pods = c
				out = append(out, x)
			}
			for _, c := range core.ShrinkList(in.Pools) {
				x := in
				x.Pools = c
				out = append(out, x)
			}
			for i := range in.Pools {
				for _, c := range core.ShrinkList(in.Pools[i].Types) {
					x := in
					x.Pools = append([]PassPoolJ{}, in.Pools...)
					x.Pools[i].Types = c
					out = append(out, x)
				}
				for _, c := range core.ShrinkList(in.Pools[i].Reqs) {
					x := in
					x.Pools = append([]PassPoolJ{}, in.Pools...)
					x.Pools[i].Reqs = c
					out = append(out, x)
				}
			}
			return out
		},
	}
}

var _ = context.Background
var _ = options.FromContext
