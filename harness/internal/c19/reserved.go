package c19

import (
	"encoding/json"
	"fmt"
	"math/rand/v2"
	"sort"

	"github.com/samber/lo"
	v1 "sigs.k8s.io/karpenter/pkg/apis/v1"

	"verifharness/internal/core"
)

// ---------------------------------------------------------------------------------------------
// c19.reserved — whole passes in which pools own capacity reservations (the reserved-offering branch of
// addToNewNodeClaim: no fallback to a lower-weight pool, an earlier success beats a later reserved error)
// ---------------------------------------------------------------------------------------------

type RPoolJ struct {
	Name   string `json:"name"`
	Weight *int32 `json:"weight"`
	Team   string `json:"team"`  // template label example.com/team, "" = none
	CPU    int    `json:"cpu"`   // capacity of the pool's single instance type (pod capacity 1: one pod per node)
	Cap    int    `json:"cap"`   // capacity of the pool's reservation; 0 = no reserved offering
	Price  int    `json:"price"` // on-demand price; the reserved offering is cheaper
	Limit  int    `json:"limit"` // spec.limits.cpu in milli-cores; 0 = no limit
}

type RPodJ struct {
	Name string `json:"name"`
	CPU  int    `json:"cpu"`
	Team string `json:"team"` // nodeSelector example.com/team, "" = none
}

type ReservedIn struct {
	Pools       []RPoolJ `json:"pools"`
	Pods        []RPodJ  `json:"pods"`
	CPURequests int      `json:"cpu_requests"`
	Reps        int      `json:"reps"`
}

type RPlacedJ struct {
	Pod  string `json:"pod"`
	Pool string `json:"pool"`
}

type ReservedRun struct {
	Placed        []RPlacedJ `json:"placed"`        // sorted by pod
	Deferred      []string   `json:"deferred"`      // ReservedOfferingError
	Unschedulable []string   `json:"unschedulable"` // any other error
}

type ReservedOut struct {
	Runs []ReservedRun `json:"runs"`
	Err  string        `json:"err"`
}

const rOverhead = 100

func genReserved(r *rand.Rand, t core.Tier) any {
	in := ReservedIn{Pools: []RPoolJ{}, Pods: []RPodJ{}}
	nPools := 1 + r.IntN(4)
	used := map[string]bool{}
	few := r.IntN(3) == 0
	for i := 0; i < nPools; i++ {
		p := RPoolJ{CPU: []int{4000, 4000, 4000, 2000}[r.IntN(4)], Price: 1024 + 100*r.IntN(4)}
		for {
			p.Name = []string{"a", "ab", "b", "c", "np-1", "np-10", "np-2", "z"}[r.IntN(8)]
			if !used[p.Name] {
				used[p.Name] = true
				break
			}
		}
		switch {
		case r.IntN(8) == 0:
			p.Weight = nil
		case few:
			p.Weight = lo.ToPtr([]int32{10, 50}[r.IntN(2)])
		default:
			p.Weight = lo.ToPtr(int32(1 + r.IntN(100)))
		}
		p.Team = []string{"", "", "a", "b"}[r.IntN(4)]
		if r.IntN(2) == 0 {
			p.Cap = 1 + r.IntN(2)
		}
		if r.IntN(3) == 0 { // a cpu limit that admits 0, 1 or 2 nodes of the pool's instance type (with boundary values)
			p.Limit = []int{p.CPU - 1, p.CPU, p.CPU, p.CPU + 500, 2*p.CPU - 1, 2 * p.CPU, 2*p.CPU + 1}[r.IntN(7)]
		}
		in.Pools = append(in.Pools, p)
	}
	nPods := 1 + r.IntN(7)
	cpus := r.Perm(20) // distinct requests: the queue order (cpu descending) is then fixed
	for i := 0; i < nPods; i++ {
		p := RPodJ{Name: fmt.Sprintf("pod-%02d", i), CPU: 500 + 150*cpus[i], Team: []string{"", "", "", "a", "b"}[r.IntN(5)]}
		if r.IntN(25) == 0 {
			p.CPU = 9000 + i // fits nothing
		}
		in.Pods = append(in.Pods, p)
	}
	in.CPURequests = []int{1000, 2000, 4000, 8000, 16000}[r.IntN(5)]
	in.Reps = 4
	if t == core.Thorough {
		in.Reps = 10
	}
	return in
}

func reservedToPass(in *ReservedIn) *PassIn {
	out := &PassIn{CPURequests: in.CPURequests, MaxTypes: 600, Reps: 1}
	for _, p := range in.Pools {
		q := PassPoolJ{Name: p.Name, Weight: p.Weight, Ready: true, Reqs: []ReqJ{}, Labels: map[string]string{}, Taints: []string{}, LimitCPU: p.Limit}
		if p.Team != "" {
			q.Labels[teamKey] = p.Team
		}
		t := TypeJ{Name: "it-" + p.Name, CPU: p.CPU, Pods: 1, Overhead: rOverhead, Offerings: []OffJ{
			{Zone: "z1", Ct: v1.CapacityTypeOnDemand, Price: p.Price, Avail: true},
		}}
		if p.Cap > 0 {
			t.Offerings = append(t.Offerings, OffJ{Zone: "z1", Ct: v1.CapacityTypeReserved, Price: 10, Avail: true, Rid: "r-" + p.Name, Cap: p.Cap})
		}
		q.Types = []TypeJ{t}
		out.Pools = append(out.Pools, q)
	}
	for _, p := range in.Pods {
		q := PassPodJ{Name: p.Name, CPU: p.CPU, Sel: []ReqJ{}, Aff: []ReqJ{}, Tol: []string{}}
		if p.Team != "" {
			q.Sel = append(q.Sel, ReqJ{Key: teamKey, Op: "In", Vals: []string{p.Team}})
		}
		out.Pods = append(out.Pods, q)
	}
	return out
}

func implReserved(raw json.RawMessage) (any, error) {
	var in ReservedIn
	if err := json.Unmarshal(raw, &in); err != nil {
		return nil, err
	}
	pin := reservedToPass(&in)
	maxTypesMu.RLock() // the pass reads scheduling.MaxInstanceTypes (left at its default here)
	defer maxTypesMu.RUnlock()
	out := ReservedOut{Runs: []ReservedRun{}}
	seen := map[string]bool{}
	for k := 0; k < max(1, in.Reps); k++ {
		run, err := runPassOnce(pin)
		if err != nil {
			out.Err = err.Error()
			return out, nil
		}
		rr := ReservedRun{Placed: []RPlacedJ{}, Deferred: run.Deferred, Unschedulable: []string{}}
		for _, c := range run.Claims {
			for _, p := range c.Pods {
				rr.Placed = append(rr.Placed, RPlacedJ{Pod: p, Pool: c.Pool})
			}
		}
		sort.Slice(rr.Placed, func(a, b int) bool { return rr.Placed[a].Pod < rr.Placed[b].Pod })
		for _, u := range append(append([]string{}, run.Unscheduled...), run.Missing...) {
			if !lo.Contains(run.Deferred, u) {
				rr.Unschedulable = append(rr.Unschedulable, u)
			}
		}
		sort.Strings(rr.Unschedulable)
		b, _ := json.Marshal(rr)
		if !seen[string(b)] {
			seen[string(b)] = true
			out.Runs = append(out.Runs, rr)
		}
	}
	sort.Slice(out.Runs, func(a, b int) bool {
		x, _ := json.Marshal(out.Runs[a])
		y, _ := json.Marshal(out.Runs[b])
		return string(x) < string(y)
	})
	return out, nil
}

func reservedLabels(raw json.RawMessage, impl any) []string {
	var in ReservedIn
	json.Unmarshal(raw, &in)
	l := []string{fmt.Sprintf("pools=%d", len(in.Pools)), fmt.Sprintf("workers=%d", (in.CPURequests+999)/1000)}
	for _, p := range in.Pools {
		if p.Cap > 0 {
			l = append(l, "pool-with-reservation")
			break
		}
	}
	for _, p := range in.Pools {
		if p.Limit > 0 {
			l = append(l, "pool-with-limit")
			break
		}
	}
	var out ReservedOut
	if b, err := json.Marshal(impl); err == nil && json.Unmarshal(b, &out) == nil && len(out.Runs) > 0 {
		if len(out.Runs) > 1 {
			l = append(l, "runs-differ")
		}
		if len(out.Runs[0].Deferred) > 0 {
			l = append(l, "deferred-pods")
		}
		if len(out.Runs[0].Unschedulable) > 0 {
			l = append(l, "unschedulable-pods")
		}
		pools := map[string]bool{}
		for _, p := range out.Runs[0].Placed {
			pools[p.Pool] = true
		}
		if len(pools) > 1 {
			l = append(l, "several-pools-used")
		}
	}
	return l
}

func reservedOp() *core.Op {
	return &core.Op{
		Name: "c19.reserved",
		Doc:  "whole passes of the real Provisioner (strict reserved-offering mode) with 1..4 weighted NodePools some of which own a capacity reservation of 1..2 nodes and/or a cpu limit admitting 0..2 nodes, 1..7 pods that each need a node of their own, 1..16 evaluation workers, repeated on fresh worlds: which pool every pod's NodeClaim is in, which pods wait for reserved capacity (ReservedOfferingError), which are unschedulable",
		N:    n(500, 3500),
		Gen:  genReserved,
		Impl: implReserved,
		Rule: "non-trivial = some pod is deferred for reserved capacity (the reserved-offering branch of addToNewNodeClaim decided) or nodes were opened in several pools (fallback after a limit / infeasibility)",
		Nontrivial: func(raw json.RawMessage, impl any) bool {
			ls := reservedLabels(raw, impl)
			return lo.Contains(ls, "deferred-pods") || lo.Contains(ls, "several-pools-used")
		},
		Labels:    reservedLabels,
		Signature: func(json.RawMessage, any) string { return "reserved" },
		Shrink: func(raw json.RawMessage) []any {
			var in ReservedIn
			json.Unmarshal(raw, &in)
			var out []any
			for _, c := range core.ShrinkList(in.Pods) {
				x := in
				x.Pods = c
				out = append(out, x)
			}
			for _, c := range core.ShrinkList(in.Pools) {
				x := in
				x.Pools = c
				out = append(out, x)
			}
			return out
		},
	}
}
