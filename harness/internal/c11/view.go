package c11

import (
	"math"
	"net"
	"sort"
	"strings"

	corev1 "k8s.io/api/core/v1"
	metav1 "k8s.io/apimachinery/pkg/apis/meta/v1"
	"k8s.io/apimachinery/pkg/util/sets"

	v1 "sigs.k8s.io/karpenter/pkg/apis/v1"
	"sigs.k8s.io/karpenter/pkg/controllers/state"
	"sigs.k8s.io/karpenter/pkg/scheduling"
	"sigs.k8s.io/karpenter/pkg/utils/resources"
)

// ---------- the observation ("view") of a state.Cluster through its exported accessors ----------

// NodeView is everything exported accessors tell about one StateNode. Quantities: cpu in milli-units,
// the rest in units; disruption cost in units of 2^-27 (exact for the generated inputs).
type NodeView struct {
	Pid   string  `json:"pid"`
	Name  string  `json:"name"`
	Node  string  `json:"node"`  // "<name>#<version>" of the cached Node object, "" if none
	Claim string  `json:"claim"` // "<name>#<version>" of the cached NodeClaim object, "" if none
	Pool  string  `json:"pool"`  // Labels()[karpenter.sh/nodepool]
	Flags string  `json:"fl"`    // R registered, I initialized, M MarkedForDeletion, D Deleted, N nominated
	Cap   []int64 `json:"cap"`   // Capacity(): [cpu, memory, pods, ext, nodes]
	Req   []int64 `json:"req"`   // PodRequests()
	Lim   []int64 `json:"lim"`   // PodLimits()
	DReq  []int64 `json:"dreq"`  // DaemonSetRequests()
	DLim  []int64 `json:"dlim"`  // DaemonSetLimits()
	Cost  int64   `json:"cost"`  // DisruptionCost() * 2^27
	HP    []int   `json:"hp"`    // HostPortUsage().Conflicts probes: [mask(fresh pod), mask(pod universe[0]), ...]
	Vol   string  `json:"vol"`   // VolumeUsage().ExceedsLimits probes, one '0'/'1' per probe
}

type PoolView struct {
	Name string  `json:"name"`
	Res  []int64 `json:"res"` // NodePoolResourcesFor
	Cnt  []int   `json:"cnt"` // NodePoolState.GetNodeCount: active, deleting, pendingdisruption
}

type View struct {
	Nodes  []NodeView `json:"nodes"`
	Pools  []PoolView `json:"pools"`
	Claims []string   `json:"claims"` // per claim name of the universe: "<name>:<E|-><U|->" NodeClaimExists / UnlaunchedNodeClaimExists
}

// universe of names an observation ranges over (derived from the input, identically in Lean)
type universe struct {
	pools   []string // pool names in the input plus ""
	claims  []string
	pods    []string
	drivers []string
	pvcIDs  []string // "default/<pvc name>"
}

func universeOf(in *In) *universe {
	pools, claims, pods, drivers, pvcs := map[string]bool{"": true}, map[string]bool{}, map[string]bool{}, map[string]bool{}, map[string]bool{}
	for _, p := range in.Pvcs {
		if p.D != "" {
			drivers[p.D] = true
		}
		pvcs[ns+"/"+p.N] = true
	}
	for i := range in.Ev {
		e := &in.Ev[i]
		switch e.T {
		case "node":
			pools[e.Pool] = true
			for _, l := range e.Lim {
				drivers[l.D] = true
			}
		case "claim":
			pools[e.Pool] = true
			claims[e.Name] = true
		case "claimGone", "rc":
			claims[e.Name] = true
		case "pod", "podGone", "rp", "rpf":
			pods[e.Name] = true
		}
	}
	return &universe{pools: sortedKeys(pools), claims: sortedKeys(claims), pods: sortedKeys(pods), drivers: sortedKeys(drivers), pvcIDs: sortedKeys(pvcs)}
}

func resVec(rl corev1.ResourceList) []int64 {
	q := func(n corev1.ResourceName) int64 {
		v := rl[n]
		return v.Value()
	}
	cpu := rl[corev1.ResourceCPU]
	return []int64{cpu.MilliValue(), q(corev1.ResourceMemory), q(corev1.ResourcePods), q(extRes), q(resources.Node)}
}

var probeIPs = []string{"0.0.0.0", "10.0.0.1", "10.0.0.2", "10.0.0.3"}
var probePorts = []int32{80, 443}
var probeProtos = []corev1.Protocol{corev1.ProtocolTCP, corev1.ProtocolUDP}

func hostPortMask(u *scheduling.HostPortUsage, usedBy string) int {
	pod := &corev1.Pod{ObjectMeta: metav1.ObjectMeta{Name: usedBy, Namespace: ns}}
	mask, bit := 0, 0
	for _, ip := range probeIPs {
		for _, port := range probePorts {
			for _, proto := range probeProtos {
				if u.Conflicts(pod, []scheduling.HostPort{{IP: net.ParseIP(ip), Port: port, Protocol: proto}}) != nil {
					mask |= 1 << bit
				}
				bit++
			}
		}
	}
	return mask
}

// volProbes: the fixed, state-independent family of probe volume sets (per driver):
//
//	{}                                    (once)
//	{d: j fresh ids}            j = 1..3
//	{d: {x} + j fresh ids}      x in the PVC universe, j = 0..2
func volProbes(u *universe) []scheduling.Volumes {
	out := []scheduling.Volumes{{}}
	fresh := []string{"~f1", "~f2", "~f3"}
	for _, d := range u.drivers {
		for j := 1; j <= 3; j++ {
			out = append(out, scheduling.Volumes{d: sets.New(fresh[:j]...)})
		}
		for _, x := range u.pvcIDs {
			for j := 0; j <= 2; j++ {
				s := sets.New(x)
				s.Insert(fresh[:j]...)
				out = append(out, scheduling.Volumes{d: s})
			}
		}
	}
	return out
}

func objTag(name string, annos map[string]string) string {
	return name + "#" + annos[verAnno]
}

func nodeView(c *state.Cluster, sn *state.StateNode, u *universe, probes []scheduling.Volumes) NodeView {
	nv := NodeView{Pid: sn.ProviderID(), Name: sn.Name(), Pool: sn.Labels()[v1.NodePoolLabelKey]}
	if sn.Node != nil {
		nv.Node = objTag(sn.Node.Name, sn.Node.Annotations)
	}
	if sn.NodeClaim != nil {
		nv.Claim = objTag(sn.NodeClaim.Name, sn.NodeClaim.Annotations)
	}
	fl := ""
	if sn.Registered() {
		fl += "R"
	}
	if sn.Initialized() {
		fl += "I"
	}
	if sn.MarkedForDeletion() {
		fl += "M"
	}
	if sn.Deleted() {
		fl += "D"
	}
	if c.IsNodeNominated(nv.Pid) {
		fl += "N"
	}
	nv.Flags = fl
	nv.Cap = resVec(sn.Capacity())
	nv.Req = resVec(sn.PodRequests())
	nv.Lim = resVec(sn.PodLimits())
	nv.DReq = resVec(sn.DaemonSetRequests())
	nv.DLim = resVec(sn.DaemonSetLimits())
	nv.Cost = int64(math.Round(sn.DisruptionCost() * (1 << 27)))
	hp := sn.HostPortUsage()
	nv.HP = append(nv.HP, hostPortMask(hp, probeName))
	for _, p := range u.pods {
		nv.HP = append(nv.HP, hostPortMask(hp, p))
	}
	var sb strings.Builder
	vu := sn.VolumeUsage()
	for _, pr := range probes {
		if vu.ExceedsLimits(pr) != nil {
			sb.WriteByte('1')
		} else {
			sb.WriteByte('0')
		}
	}
	nv.Vol = sb.String()
	return nv
}

func (w *world) view(u *universe, probes []scheduling.Volumes) *View {
	v := &View{Nodes: []NodeView{}, Pools: []PoolView{}, Claims: []string{}}
	// DeepCopyNodes would hide aliasing; read the live StateNodes under the cluster's read lock instead.
	var sns []*state.StateNode
	for sn := range w.cluster.Nodes() {
		sns = append(sns, sn)
	}
	for _, sn := range sns {
		v.Nodes = append(v.Nodes, nodeView(w.cluster, sn, u, probes))
	}
	sort.Slice(v.Nodes, func(i, j int) bool { return v.Nodes[i].Pid < v.Nodes[j].Pid })
	for _, p := range u.pools {
		a, d, pd := w.cluster.NodePoolState.GetNodeCount(p)
		v.Pools = append(v.Pools, PoolView{Name: p, Res: resVec(w.cluster.NodePoolResourcesFor(p)), Cnt: []int{a, d, pd}})
	}
	for _, c := range u.claims {
		s := c + ":"
		if w.cluster.NodeClaimExists(c) {
			s += "E"
		} else {
			s += "-"
		}
		if w.cluster.UnlaunchedNodeClaimExists(c) {
			s += "U"
		} else {
			s += "-"
		}
		v.Claims = append(v.Claims, s)
	}
	return v
}
