// Package c11: the real state.Cluster driven through the real informer controllers on the
// controller-runtime fake client, versus the Lean model (Karp/Model/ClusterState.lean) and the
// from-scratch specification (Karp/Spec/ClusterAbs.lean).
package c11

import (
	"context"
	"fmt"
	"sort"
	"strconv"
	"time"

	"github.com/awslabs/operatorpkg/object"
	"github.com/awslabs/operatorpkg/status"
	appsv1 "k8s.io/api/apps/v1"
	corev1 "k8s.io/api/core/v1"
	storagev1 "k8s.io/api/storage/v1"
	apierrors "k8s.io/apimachinery/pkg/api/errors"
	"k8s.io/apimachinery/pkg/api/resource"
	metav1 "k8s.io/apimachinery/pkg/apis/meta/v1"
	"k8s.io/apimachinery/pkg/runtime"
	"k8s.io/apimachinery/pkg/runtime/schema"
	"k8s.io/apimachinery/pkg/types"
	clocktesting "k8s.io/utils/clock/testing"
	"sigs.k8s.io/controller-runtime/pkg/client"
	"sigs.k8s.io/controller-runtime/pkg/client/fake"
	"sigs.k8s.io/controller-runtime/pkg/client/interceptor"
	"sigs.k8s.io/controller-runtime/pkg/reconcile"

	_ "sigs.k8s.io/karpenter/pkg/apis"
	v1 "sigs.k8s.io/karpenter/pkg/apis/v1"
	fakecp "sigs.k8s.io/karpenter/pkg/cloudprovider/fake"
	"sigs.k8s.io/karpenter/pkg/controllers/state"
	"sigs.k8s.io/karpenter/pkg/controllers/state/informer"
	"sigs.k8s.io/karpenter/pkg/operator/options"
	"sigs.k8s.io/karpenter/pkg/state/cost"
	"sigs.k8s.io/karpenter/pkg/test"
	"sigs.k8s.io/karpenter/pkg/test/v1alpha1"
)

const (
	ns        = "default"
	holdFin   = "verif.karpenter.sh/hold" // keeps an object with a deletionTimestamp in the fake store
	verAnno   = "verif.karpenter.sh/ver"
	extRes    = "example.com/gpu"
	probeName = "zz-probe"
)

var epoch = time.Date(2026, 1, 1, 0, 0, 0, 0, time.UTC)

// ---------- input ----------

type Pvc struct {
	N string `json:"n"`
	D string `json:"d"`           // driver; "" = the PVC does not exist (ignored by GetVolumes)
	V string `json:"v,omitempty"` // "" = resolved through a StorageClass; "pv" = bound to a PV with a CSI driver
}

type Port struct {
	IP    string `json:"ip"` // "" = unspecified (0.0.0.0)
	Port  int32  `json:"port"`
	Proto string `json:"proto"`
}

type Limit struct {
	D string `json:"d"`
	N int32  `json:"n"`
}

// Ev is one event of a history: an API change, a reconcile delivery, or an in-memory mark.
//
//	node / claim / pod      the API object `name` is created or replaced by this version
//	nodeGone / claimGone / podGone   the API object is removed
//	rn / rc / rp            the informer controller of that kind reconciles key `name` (level-triggered: it reads the API now)
//	rpf                     the Pod controller reconciles key `name` while reads of PersistentVolumes / StorageClasses fail
//	                        (a transient API error): if the volume lookup is reached the reconcile returns an error and will be
//	                        retried, so the key stays dirty
//	mark / unmark / nominate  Cluster.MarkForDeletion / UnmarkForDeletion / NominateNodeForPod(pid)
type Ev struct {
	T    string `json:"t"`
	Name string `json:"name,omitempty"`
	Pid  string `json:"pid,omitempty"`
	// mark / unmark: ONE call Cluster.MarkForDeletion(pids...) / UnmarkForDeletion(pids...) with several provider ids (a
	// multi-node disruption command); non-empty Pids takes precedence over Pid
	Pids []string `json:"pids,omitempty"`
	// node + claim
	Pool string  `json:"pool,omitempty"`
	Cap  []int64 `json:"cap,omitempty"` // [cpu milli, memory, pods, ext]
	Del  bool    `json:"del,omitempty"` // metadata.deletionTimestamp set (node, claim; pod: gracefully terminating, still bound and in its phase)
	// node
	Reg  bool    `json:"reg,omitempty"`  // karpenter.sh/registered=true
	Init bool    `json:"init,omitempty"` // karpenter.sh/initialized=true
	It   bool    `json:"it,omitempty"`   // node.kubernetes.io/instance-type present
	Lim  []Limit `json:"lim,omitempty"`  // CSINode allocatable counts
	// claim
	Term      bool `json:"term,omitempty"`      // condition InstanceTerminating=True
	Unmanaged bool `json:"unmanaged,omitempty"` // nodeClassRef of a foreign provider
	// pod
	Node  string   `json:"node,omitempty"`
	Phase string   `json:"phase,omitempty"` // "" = Running
	Req   []int64  `json:"req,omitempty"`   // [cpu milli, memory, ext]
	Lm    []int64  `json:"lm,omitempty"`
	Ds    bool     `json:"ds,omitempty"`   // owned by a DaemonSet
	Dc    *int64   `json:"dc,omitempty"`   // controller.kubernetes.io/pod-deletion-cost
	Prio  *int32   `json:"prio,omitempty"` // spec.priority
	Ports []Port   `json:"ports,omitempty"`
	Vols  []string `json:"vols,omitempty"` // PVC names
}

type In struct {
	Pvcs []Pvc `json:"pvcs"`
	Ev   []Ev  `json:"ev"`
	// Strict: evaluate the property at full strength (no exemption where a recorded defect makes a difference);
	// set on the corpus witnesses of the known findings.
	Strict bool `json:"strict,omitempty"`
}

func isAPI(t string) bool {
	switch t {
	case "node", "claim", "pod", "nodeGone", "claimGone", "podGone":
		return true
	}
	return false
}

func kindOf(t string) string {
	switch t {
	case "node", "nodeGone", "rn":
		return "n"
	case "claim", "claimGone", "rc":
		return "c"
	case "pod", "podGone", "rp", "rpf":
		return "p"
	}
	return ""
}

// faults: switches read by the interceptor of the fake client
type faults struct {
	volGet bool // Get of a PersistentVolume / StorageClass returns an internal error
}

// ---------- world ----------

type world struct {
	ctx     context.Context
	kube    client.Client
	cluster *state.Cluster
	nodeC   *informer.NodeController
	claimC  *informer.NodeClaimController
	podC    *informer.PodController
	cp      *fakecp.CloudProvider
	clk     *clocktesting.FakeClock
	faults  *faults // nil = no fault injection on this client
}

var baseCtx = options.ToContext(context.Background(), test.Options())

// a scheme with only the groups the state controllers touch (building a fake client walks the whole scheme)
var smallScheme = func() *runtime.Scheme {
	s := runtime.NewScheme()
	must := func(err error) {
		if err != nil {
			panic(err)
		}
	}
	must(corev1.AddToScheme(s))
	must(storagev1.AddToScheme(s))
	must(appsv1.AddToScheme(s))
	gv := schema.GroupVersion{Group: "karpenter.sh", Version: "v1"}
	metav1.AddToGroupVersion(s, gv)
	s.AddKnownTypes(gv, &v1.NodePool{}, &v1.NodePoolList{}, &v1.NodeClaim{}, &v1.NodeClaimList{})
	return s
}()

func newKube() client.Client {
	c, _ := newKubeF()
	return c
}

// newKubeF: the fake client plus the fault switches of its interceptor
func newKubeF() (client.Client, *faults) {
	f := &faults{}
	return fake.NewClientBuilder().
		WithScheme(smallScheme).
		WithInterceptorFuncs(interceptor.Funcs{Get: func(ctx context.Context, c client.WithWatch, key client.ObjectKey, obj client.Object, opts ...client.GetOption) error {
			if f.volGet {
				switch obj.(type) {
				case *corev1.PersistentVolume, *storagev1.StorageClass:
					return apierrors.NewInternalError(fmt.Errorf("injected: transient read failure"))
				}
			}
			return c.Get(ctx, key, obj, opts...)
		}}).
		WithStatusSubresource(&v1.NodeClaim{}, &v1.NodePool{}).
		WithIndex(&corev1.Pod{}, "spec.nodeName", func(o client.Object) []string { return []string{o.(*corev1.Pod).Spec.NodeName} }).
		WithIndex(&corev1.Node{}, "spec.providerID", func(o client.Object) []string { return []string{o.(*corev1.Node).Spec.ProviderID} }).
		WithIndex(&v1.NodeClaim{}, "status.providerID", func(o client.Object) []string { return []string{o.(*v1.NodeClaim).Status.ProviderID} }).
		Build(), f
}

func newWorld(kube client.Client) *world {
	w := &world{ctx: baseCtx, kube: kube}
	w.clk = clocktesting.NewFakeClock(epoch)
	w.cp = fakecp.NewCloudProvider()
	w.cluster = state.NewCluster(w.clk, kube, w.cp)
	w.nodeC = informer.NewNodeController(kube, w.cluster)
	w.claimC = informer.NewNodeClaimController(kube, w.cp, w.cluster, cost.NewClusterCost(w.ctx, w.cp, kube))
	w.podC = informer.NewPodController(kube, w.cluster)
	return w
}

func (w *world) setupStorage(pvcs []Pvc) error {
	seenSC := map[string]bool{}
	for _, p := range pvcs {
		if p.D == "" {
			continue
		}
		pvc := &corev1.PersistentVolumeClaim{ObjectMeta: metav1.ObjectMeta{Name: p.N, Namespace: ns}}
		if p.V == "pv" {
			pvName := "pv-" + p.N
			pvc.Spec.VolumeName = pvName
			pv := &corev1.PersistentVolume{ObjectMeta: metav1.ObjectMeta{Name: pvName},
				Spec: corev1.PersistentVolumeSpec{PersistentVolumeSource: corev1.PersistentVolumeSource{CSI: &corev1.CSIPersistentVolumeSource{Driver: p.D, VolumeHandle: pvName}}}}
			if err := w.kube.Create(w.ctx, pv); err != nil {
				return err
			}
		} else {
			sc := "sc-" + p.D
			pvc.Spec.StorageClassName = &sc
			if !seenSC[sc] {
				seenSC[sc] = true
				if err := w.kube.Create(w.ctx, &storagev1.StorageClass{ObjectMeta: metav1.ObjectMeta{Name: sc}, Provisioner: p.D}); err != nil {
					return err
				}
			}
		}
		if err := w.kube.Create(w.ctx, pvc); err != nil {
			return err
		}
	}
	return nil
}

func resList(cpu, mem, pods, ext int64) corev1.ResourceList {
	rl := corev1.ResourceList{}
	if cpu != 0 {
		rl[corev1.ResourceCPU] = *resource.NewMilliQuantity(cpu, resource.DecimalSI)
	}
	if mem != 0 {
		rl[corev1.ResourceMemory] = *resource.NewQuantity(mem, resource.BinarySI)
	}
	if pods != 0 {
		rl[corev1.ResourcePods] = *resource.NewQuantity(pods, resource.DecimalSI)
	}
	if ext != 0 {
		rl[extRes] = *resource.NewQuantity(ext, resource.DecimalSI)
	}
	return rl
}

func at(xs []int64, i int) int64 {
	if i < len(xs) {
		return xs[i]
	}
	return 0
}

// remove deletes an object from the fake store whatever its finalizers are.
func (w *world) remove(obj client.Object) error {
	key := client.ObjectKeyFromObject(obj)
	if err := w.kube.Get(w.ctx, key, obj); err != nil {
		return client.IgnoreNotFound(err)
	}
	if len(obj.GetFinalizers()) > 0 {
		obj.SetFinalizers(nil)
		if err := w.kube.Update(w.ctx, obj); err != nil {
			return err
		}
		// an object that already had a deletionTimestamp is gone now
		if err := w.kube.Get(w.ctx, key, obj); err != nil {
			return client.IgnoreNotFound(err)
		}
	}
	return client.IgnoreNotFound(w.kube.Delete(w.ctx, obj))
}

// put replaces the stored object by `obj` (and gives it a deletionTimestamp when del).
func (w *world) put(obj, blank client.Object, del bool) error {
	if err := w.remove(blank); err != nil {
		return err
	}
	if del {
		obj.SetFinalizers([]string{holdFin})
	}
	if err := w.kube.Create(w.ctx, obj); err != nil {
		return err
	}
	if del {
		return w.kube.Delete(w.ctx, obj)
	}
	return nil
}

var nodeClassGK = object.GVK(&v1alpha1.TestNodeClass{}).GroupKind()

func (w *world) applyAPI(i int, e *Ev) error {
	ver := strconv.Itoa(i)
	switch e.T {
	case "node":
		labels := map[string]string{corev1.LabelHostname: e.Name}
		if e.Pool != "" {
			labels[v1.NodePoolLabelKey] = e.Pool
		}
		if e.Reg {
			labels[v1.NodeRegisteredLabelKey] = "true"
		}
		if e.Init {
			labels[v1.NodeInitializedLabelKey] = "true"
		}
		if e.It {
			labels[corev1.LabelInstanceTypeStable] = "it-1"
		}
		n := &corev1.Node{
			ObjectMeta: metav1.ObjectMeta{Name: e.Name, Labels: labels, Annotations: map[string]string{verAnno: ver}, UID: types.UID("node-" + e.Name + "-" + ver), CreationTimestamp: metav1.NewTime(epoch.Add(time.Duration(i) * time.Second))},
			Spec:       corev1.NodeSpec{ProviderID: e.Pid},
			Status:     corev1.NodeStatus{Capacity: resList(at(e.Cap, 0), at(e.Cap, 1), at(e.Cap, 2), at(e.Cap, 3)), Allocatable: resList(at(e.Cap, 0), at(e.Cap, 1), at(e.Cap, 2), at(e.Cap, 3))},
		}
		if err := w.put(n, &corev1.Node{ObjectMeta: metav1.ObjectMeta{Name: e.Name}}, e.Del); err != nil {
			return err
		}
		// the CSINode belongs to the node version (it is read by the node reconcile only)
		if err := w.remove(&storagev1.CSINode{ObjectMeta: metav1.ObjectMeta{Name: e.Name}}); err != nil {
			return err
		}
		if len(e.Lim) > 0 {
			cn := &storagev1.CSINode{ObjectMeta: metav1.ObjectMeta{Name: e.Name}}
			for _, l := range e.Lim {
				d := storagev1.CSINodeDriver{Name: l.D, NodeID: e.Name}
				if l.N >= 0 {
					c := l.N
					d.Allocatable = &storagev1.VolumeNodeResources{Count: &c}
				}
				cn.Spec.Drivers = append(cn.Spec.Drivers, d)
			}
			return w.kube.Create(w.ctx, cn)
		}
		return nil
	case "nodeGone":
		if err := w.remove(&corev1.Node{ObjectMeta: metav1.ObjectMeta{Name: e.Name}}); err != nil {
			return err
		}
		return w.remove(&storagev1.CSINode{ObjectMeta: metav1.ObjectMeta{Name: e.Name}})
	case "claim":
		labels := map[string]string{}
		if e.Pool != "" {
			labels[v1.NodePoolLabelKey] = e.Pool
		}
		ref := &v1.NodeClassReference{Group: nodeClassGK.Group, Kind: nodeClassGK.Kind, Name: "default"}
		if e.Unmanaged {
			ref = &v1.NodeClassReference{Group: "other.example.com", Kind: "OtherNodeClass", Name: "default"}
		}
		nc := &v1.NodeClaim{
			ObjectMeta: metav1.ObjectMeta{Name: e.Name, Labels: labels, Annotations: map[string]string{verAnno: ver}, UID: types.UID("claim-" + e.Name + "-" + ver), CreationTimestamp: metav1.NewTime(epoch.Add(time.Duration(i) * time.Second))},
			Spec:       v1.NodeClaimSpec{NodeClassRef: ref, Requirements: []v1.NodeSelectorRequirementWithMinValues{}},
			Status:     v1.NodeClaimStatus{ProviderID: e.Pid, Capacity: resList(at(e.Cap, 0), at(e.Cap, 1), at(e.Cap, 2), at(e.Cap, 3)), Allocatable: resList(at(e.Cap, 0), at(e.Cap, 1), at(e.Cap, 2), at(e.Cap, 3))},
		}
		if e.Term {
			nc.Status.Conditions = []status.Condition{{Type: v1.ConditionTypeInstanceTerminating, Status: metav1.ConditionTrue, Reason: "Terminating", Message: "", LastTransitionTime: metav1.NewTime(epoch)}}
		}
		return w.put(nc, &v1.NodeClaim{ObjectMeta: metav1.ObjectMeta{Name: e.Name}}, e.Del)
	case "claimGone":
		return w.remove(&v1.NodeClaim{ObjectMeta: metav1.ObjectMeta{Name: e.Name}})
	case "pod":
		p := &corev1.Pod{
			ObjectMeta: metav1.ObjectMeta{Name: e.Name, Namespace: ns, Annotations: map[string]string{verAnno: ver}, UID: types.UID("pod-" + e.Name + "-" + ver), CreationTimestamp: metav1.NewTime(epoch.Add(time.Duration(i) * time.Second))},
			Spec:       corev1.PodSpec{NodeName: e.Node, Priority: e.Prio},
			Status:     corev1.PodStatus{Phase: corev1.PodPhase(e.Phase)},
		}
		if e.Phase == "" {
			p.Status.Phase = corev1.PodRunning
		}
		if e.Dc != nil {
			p.Annotations[corev1.PodDeletionCost] = strconv.FormatInt(*e.Dc, 10)
		}
		if e.Ds {
			t := true
			p.OwnerReferences = []metav1.OwnerReference{{APIVersion: "apps/v1", Kind: "DaemonSet", Name: "ds-1", UID: "ds-1", Controller: &t, BlockOwnerDeletion: &t}}
		}
		c := corev1.Container{Name: "main", Image: "img",
			Resources: corev1.ResourceRequirements{Requests: resList(at(e.Req, 0), at(e.Req, 1), 0, at(e.Req, 2)), Limits: resList(at(e.Lm, 0), at(e.Lm, 1), 0, at(e.Lm, 2))}}
		for _, hp := range e.Ports {
			c.Ports = append(c.Ports, corev1.ContainerPort{ContainerPort: hp.Port, HostPort: hp.Port, HostIP: hp.IP, Protocol: corev1.Protocol(hp.Proto)})
		}
		p.Spec.Containers = []corev1.Container{c}
		for j, v := range e.Vols {
			p.Spec.Volumes = append(p.Spec.Volumes, corev1.Volume{Name: fmt.Sprintf("v%d", j),
				VolumeSource: corev1.VolumeSource{PersistentVolumeClaim: &corev1.PersistentVolumeClaimVolumeSource{ClaimName: v}}})
		}
		// e.Del: a terminating pod (deletionTimestamp set, kept by a finalizer / its grace period): it still holds its node's resources
		return w.put(p, &corev1.Pod{ObjectMeta: metav1.ObjectMeta{Name: e.Name, Namespace: ns}}, e.Del)
	case "podGone":
		return w.remove(&corev1.Pod{ObjectMeta: metav1.ObjectMeta{Name: e.Name, Namespace: ns}})
	}
	return fmt.Errorf("not an API event: %q", e.T)
}

// reconcile runs the REAL informer controller of the kind for the key. The result classes:
// "ok", "requeue" (pod bound to a node the cluster does not track), "err".
func (w *world) reconcile(t, name string) string {
	var res reconcile.Result
	var err error
	switch t {
	case "rn":
		res, err = w.nodeC.Reconcile(w.ctx, reconcile.Request{NamespacedName: types.NamespacedName{Name: name}})
	case "rc":
		res, err = w.claimC.Reconcile(w.ctx, reconcile.Request{NamespacedName: types.NamespacedName{Name: name}})
	case "rp":
		res, err = w.podC.Reconcile(w.ctx, reconcile.Request{NamespacedName: types.NamespacedName{Name: name, Namespace: ns}})
	}
	if err != nil {
		if apierrors.IsNotFound(err) {
			return "err-notfound"
		}
		return "err"
	}
	//nolint:staticcheck
	if res.Requeue {
		return "requeue"
	}
	return "ok"
}

func sortedKeys[V any](m map[string]V) []string {
	out := make([]string, 0, len(m))
	for k := range m {
		out = append(out, k)
	}
	sort.Strings(out)
	return out
}
