// Package c11: correspondence ops for C11 (stub, not yet built).
package c11

import (
	"verifharness/internal/core"
	"verifharness/internal/registry"
)

func init() { registry.Register("C11", Ops) }

func Ops() []*core.Op { return nil }
