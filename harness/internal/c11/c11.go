package c11

import (
	"encoding/json"
	"fmt"
	"reflect"
	"sort"
	"strings"

	"verifharness/internal/core"
	"verifharness/internal/registry"
)

func init() { registry.Register("C11", Ops) }

// ---------- classification of a divergence between the incremental and the from-scratch view ----------

func decodeOut(impl any) *Out {
	b, err := json.Marshal(impl)
	if err != nil {
		return nil
	}
	var o Out
	if json.Unmarshal(b, &o) != nil {
		return nil
	}
	return &o
}

// viewsAt reconstructs the full view at every step (a nil V repeats the previous one).
func viewsAt(o *Out) map[int]*View {
	m := map[int]*View{}
	var prev *View
	for _, s := range o.Steps {
		if s.V != nil {
			prev = s.V
		}
		m[s.I] = prev
	}
	return m
}

// diffClass names what differs between the incremental view and the from-scratch view, precisely enough that
// two different defects never share a class.
func diffClass(inc, fresh *View) string {
	if inc == nil || fresh == nil {
		return "missing-view"
	}
	var cls []string
	add := func(s string) {
		for _, c := range cls {
			if c == s {
				return
			}
		}
		cls = append(cls, s)
	}
	fn := map[string]*NodeView{}
	for i := range fresh.Nodes {
		fn[fresh.Nodes[i].Pid] = &fresh.Nodes[i]
	}
	seen := map[string]bool{}
	for i := range inc.Nodes {
		a := &inc.Nodes[i]
		seen[a.Pid] = true
		b := fn[a.Pid]
		if b == nil {
			add("extra-statenode")
			continue
		}
		shape := "node"
		if a.Node == "" {
			shape = "claimonly"
		}
		if a.Node != b.Node || a.Claim != b.Claim || a.Name != b.Name || a.Pool != b.Pool {
			add("objects")
		}
		if a.Flags != b.Flags {
			add("flags")
		}
		if !reflect.DeepEqual(a.Cap, b.Cap) {
			add("capacity")
		}
		// everything derived from the pods bound to the node
		resAgg := !reflect.DeepEqual(a.Req, b.Req) || !reflect.DeepEqual(a.Lim, b.Lim) || !reflect.DeepEqual(a.DReq, b.DReq) || !reflect.DeepEqual(a.DLim, b.DLim)
		costD, hpD, volD := a.Cost != b.Cost, !reflect.DeepEqual(a.HP, b.HP), a.Vol != b.Vol
		switch {
		case shape == "claimonly" && (resAgg || costD || hpD || volD):
			add("pod-usage@claimonly") // a state node without Node must not show any pod usage
		case resAgg:
			add("pod-usage@node")
		default:
			if costD {
				if a.Cost < b.Cost {
					add("cost-low@node")
				} else {
					add("cost-high@node")
				}
			}
			if hpD {
				add("hostports-only@node")
			}
			if volD {
				add("volumes-only@node")
			}
		}
	}
	for pid := range fn {
		if !seen[pid] {
			add("missing-statenode")
		}
	}
	for i := range inc.Pools {
		if i >= len(fresh.Pools) {
			break
		}
		if !reflect.DeepEqual(inc.Pools[i].Res, fresh.Pools[i].Res) {
			add("poolresources")
		}
		if !reflect.DeepEqual(inc.Pools[i].Cnt, fresh.Pools[i].Cnt) {
			add("nodecounts")
		}
	}
	if !reflect.DeepEqual(inc.Claims, fresh.Claims) {
		add("claimnames")
	}
	sort.Strings(cls)
	return strings.Join(cls, ",")
}

// signatureHistory: what the implementation's own from-scratch oracle says is stale at the first quiescent point where
// the incremental state differs from it. Only the strict corpus witnesses ("witness:" prefix) can match a known finding:
// in every other case the recorded defects are already exempted by the driver, so a failure is always a new one.
func signatureHistory(raw json.RawMessage, impl any) string {
	var in struct {
		Strict bool `json:"strict"`
	}
	json.Unmarshal(raw, &in)
	pre := ""
	if in.Strict {
		pre = "witness:"
	}
	o := decodeOut(impl)
	if o == nil {
		return pre + "undecodable"
	}
	if o.Panic != "" {
		return pre + "panic:" + o.Panic
	}
	vs := viewsAt(o)
	for _, f := range o.Fresh {
		if c := diffClass(vs[f.I], f.V); c != "" {
			return pre + "stale:" + c
		}
	}
	return pre + "incremental-equals-fresh"
}

// ---------- features of a history (labels / non-triviality) ----------

type features struct {
	pidChange, podMove, podRecreateUnbound, deleteBeforeUpdate, nodeGoneClaimStays, quiescentWithPods bool
	podTerminating                                                                                    bool // a bound, non-terminal pod with a deletionTimestamp is written
	markMany                                                                                          bool // one MarkForDeletion / UnmarkForDeletion call with several provider ids
	markManyGap                                                                                       bool // ... in which an id without state node precedes one with a state node
	lookupFailed                                                                                      bool // a Pod reconcile returned the error of a failed volume lookup
	lookupFailedThenLeft                                                                              bool // ... and the pod was gone / terminal / elsewhere at a later quiescent point
	volPodsOnNode                                                                                     int  // the largest number of live pods with PVC volumes bound to one node name at any time
}

func featuresOf(in *In, o *Out) features {
	var f features
	nodePid, claimPid, podNode := map[string]string{}, map[string]string{}, map[string]string{}
	dirty := map[string]string{}  // key -> last API event type while dirty
	volPod := map[string]string{} // live pod with volumes -> node name
	for _, e := range in.Ev {
		switch e.T {
		case "pod":
			if e.Del && e.Node != "" && e.Phase != "Succeeded" && e.Phase != "Failed" {
				f.podTerminating = true
			}
			delete(volPod, e.Name)
			if len(e.Vols) > 0 && e.Node != "" && e.Phase != "Succeeded" && e.Phase != "Failed" {
				volPod[e.Name] = e.Node
				per := map[string]int{}
				for _, n := range volPod {
					per[n]++
					if per[n] > f.volPodsOnNode {
						f.volPodsOnNode = per[n]
					}
				}
			}
		case "podGone":
			delete(volPod, e.Name)
		}
		switch e.T {
		case "node":
			if old, ok := nodePid[e.Name]; ok && old != e.Pid {
				f.pidChange = true
			}
			nodePid[e.Name] = e.Pid
		case "claim":
			if old, ok := claimPid[e.Name]; ok && old != e.Pid {
				f.pidChange = true
			}
			claimPid[e.Name] = e.Pid
		case "pod":
			if old, ok := podNode[e.Name]; ok && old != "" && old != e.Node {
				if e.Node == "" {
					f.podRecreateUnbound = true
				} else {
					f.podMove = true
				}
			}
			podNode[e.Name] = e.Node
		case "nodeGone":
			if _, ok := claimPid["c"+strings.TrimPrefix(e.Name, "n")]; ok {
				f.nodeGoneClaimStays = true
			}
		}
		if isAPI(e.T) {
			k := kindOf(e.T) + "/" + e.Name
			if prev, ok := dirty[k]; ok && strings.HasSuffix(prev, "Gone") && !strings.HasSuffix(e.T, "Gone") {
				f.deleteBeforeUpdate = true // deleted and recreated before any delivery
			}
			dirty[k] = e.T
		} else if k := kindOf(e.T); k != "" {
			delete(dirty, k+"/"+e.Name)
		}
	}
	if o != nil {
		vs := viewsAt(o)
		// multi-id marks: compare with the state nodes of the previous step
		var before *View
		failedOn := map[string]string{} // pod name -> node it was bound to when its lookup failed
		podNow := map[string]*Ev{}
		next := 0
		for _, s := range o.Steps {
			for ; next <= s.I && next < len(in.Ev); next++ {
				e := &in.Ev[next]
				switch e.T {
				case "pod":
					podNow[e.Name] = e
				case "podGone":
					delete(podNow, e.Name)
				}
			}
			if s.I < len(in.Ev) {
				e := &in.Ev[s.I]
				if (e.T == "mark" || e.T == "unmark") && len(e.Pids) > 1 {
					f.markMany = true
					gap := false
					for _, pid := range e.Pids {
						tracked := false
						if before != nil {
							for _, n := range before.Nodes {
								if n.Pid == pid {
									tracked = true
								}
							}
						}
						if !tracked {
							gap = true
						} else if gap {
							f.markManyGap = true
						}
					}
				}
				if e.T == "rpf" && s.R == "err" {
					f.lookupFailed = true
					if p := podNow[e.Name]; p != nil {
						failedOn[e.Name] = p.Node
					}
				}
			}
			before = vs[s.I]
			if s.Q {
				for name, node := range failedOn {
					if p := podNow[name]; p == nil || p.Node != node || p.Phase == "Succeeded" || p.Phase == "Failed" {
						f.lookupFailedThenLeft = true
					}
				}
			}
		}
		for _, s := range o.Steps {
			if !s.Q {
				continue
			}
			if v := vs[s.I]; v != nil {
				for _, n := range v.Nodes {
					if len(n.Req) > 2 && n.Req[2] > 0 {
						f.quiescentWithPods = true
					}
				}
			}
		}
	}
	return f
}

func labelsHistory(raw json.RawMessage, impl any) []string {
	var in In
	json.Unmarshal(raw, &in)
	o := decodeOut(impl)
	f := featuresOf(&in, o)
	l := []string{fmt.Sprintf("len<=%d", ((len(in.Ev)/40)+1)*40)}
	cnt := map[string]bool{}
	for _, e := range in.Ev {
		cnt["ev:"+e.T] = true
	}
	for k := range cnt {
		l = append(l, k)
	}
	if f.pidChange {
		l = append(l, "provider-id-change")
	}
	if f.podMove {
		l = append(l, "pod-same-name-other-node")
	}
	if f.podRecreateUnbound {
		l = append(l, "pod-same-name-unbound")
	}
	if f.deleteBeforeUpdate {
		l = append(l, "delete-then-recreate-undelivered")
	}
	if f.nodeGoneClaimStays {
		l = append(l, "node-gone-claim-stays")
	}
	if f.quiescentWithPods {
		l = append(l, "quiescent-with-pods")
	}
	if f.podTerminating {
		l = append(l, "pod-terminating-bound")
	}
	if f.volPodsOnNode >= 3 {
		l = append(l, "pods-with-volumes-on-one-node>=3")
	}
	if f.markMany {
		l = append(l, "mark-call-with-several-ids")
	}
	if f.markManyGap {
		l = append(l, "mark-call-untracked-id-before-tracked")
	}
	if f.lookupFailed {
		l = append(l, "pod-reconcile-volume-lookup-failed")
	}
	if f.lookupFailedThenLeft {
		l = append(l, "volume-lookup-failed-then-pod-left")
	}
	if len(in.Pvcs) > len(stdPvcs) {
		l = append(l, "dense-storage-world")
	}
	if o != nil {
		l = append(l, fmt.Sprintf("fresh-oracle-points=%d", len(o.Fresh)))
		if o.Panic != "" {
			l = append(l, "panic:"+o.Panic)
		}
		for _, s := range o.Steps {
			if s.R == "requeue" {
				l = append(l, "pod-requeued-unknown-node")
				break
			}
		}
		l = append(l, "sig:"+signatureHistory(raw, impl))
	}
	return l
}

func shrinkHistory(raw json.RawMessage) []any {
	var in In
	json.Unmarshal(raw, &in)
	var out []any
	for _, c := range core.ShrinkList(in.Ev) {
		out = append(out, In{Pvcs: in.Pvcs, Ev: c})
	}
	// drop events from the end first (keeps prefixes meaningful)
	for k := len(in.Ev) - 1; k >= 0 && k >= len(in.Ev)-60; k-- {
		c := append(append([]Ev{}, in.Ev[:k]...), in.Ev[k+1:]...)
		out = append(out, In{Pvcs: in.Pvcs, Ev: c})
	}
	return out
}

func nontrivialHistory(raw json.RawMessage, impl any) bool {
	var in In
	json.Unmarshal(raw, &in)
	f := featuresOf(&in, decodeOut(impl))
	return f.quiescentWithPods && (f.pidChange || f.podMove || f.podRecreateUnbound || f.deleteBeforeUpdate || f.nodeGoneClaimStays || f.podTerminating || f.volPodsOnNode >= 3 || f.markManyGap || f.lookupFailed)
}

const implDoc = "through the real informer Node/NodeClaim/Pod controllers (Reconcile) into the real state.Cluster on the controller-runtime fake client; every exported accessor of Cluster/StateNode/NodePoolState/HostPortUsage/VolumeUsage after every step; a fresh Cluster fed the same API objects at quiescent points"

func Ops() []*core.Op {
	return []*core.Op{
		{
			Name: "c11.history",
			Doc:  "random event histories (API changes of Nodes/NodeClaims/Pods incl. provider-id changes, same-name pods, undelivered deletes, gracefully terminating pods (deletionTimestamp set, still bound and Running), many pods mounting volumes of one CSI driver on one node; reconcile deliveries in any order with duplicates, Pod deliveries during which PersistentVolume/StorageClass reads fail; MarkForDeletion/Unmark with one or several provider ids incl. untracked ones, Nominate) " + implDoc,
			N: func(t core.Tier) int {
				if t == core.Thorough {
					return 8000
				}
				return 800
			},
			Gen:        genHistory,
			Impl:       implHistory,
			Rule:       "random walks over 1-3 node/claim pairs and 1-5 pod names (8..53 events quick, 8..168 thorough); 12% of the changes of an existing pod start its graceful deletion, 4% of new pods are first seen terminating; 30% dense histories (1-2 machines, a tracked node first, 4-7 pod names, six PVCs of one CSI driver, CSINode limit 0..7, 80% pod events); 40% of the mark/unmark calls carry 2-4 provider ids (every machine in random order plus never-tracked ids); 22% of the deliveries of a pod with volumes run with failing PersistentVolume/StorageClass reads (fake-client interceptor); 5% malformed streams (colliding provider ids etc.: model correspondence only); non-trivial = a quiescent point is reached with pods on a tracked node and the history contains a provider-id change, a same-name pod on another node/unbound, an undelivered delete+recreate, a node removed while its claim stays, a bound terminating pod, >=3 pods with volumes on one node, a several-id mark call with an untracked id before a tracked one, or a failed volume lookup",
			Nontrivial: nontrivialHistory,
			Labels:     labelsHistory,
			Signature:  signatureHistory,
			Shrink:     shrinkHistory,
		},
		{
			Name: "c11.orders",
			Doc:  "every delivery order of the reconciles that settle 15 fixed API scripts (creation, several-id MarkForDeletion with an untracked id first / in the middle, failed volume lookup then the pod leaves / moves / is retried, NodeClaim update after settling, node gets its provider id, pod moves to another node, delete everything, deleting claim, pods start terminating, pods first seen terminating, four pods with volumes of one driver leave one by one / one is re-added, registration) " + implDoc,
			Enum: enumHistory,
			Impl: implHistory,
			Rule: "exhaustive: all permutations of the settling reconciles per script; non-trivial = a quiescent point is reached with pods on a tracked node",
			Nontrivial: func(raw json.RawMessage, impl any) bool {
				var in In
				json.Unmarshal(raw, &in)
				return featuresOf(&in, decodeOut(impl)).quiescentWithPods
			},
			Labels:         labelsHistory,
			Signature:      signatureHistory,
			Shrink:         shrinkHistory,
			ExhaustiveNote: "all delivery orders of the settling reconciles for 15 fixed API scripts",
		},
		usageOp(),
		daemonsetsOp(),
	}
}
