package c11

import (
	"encoding/json"
	"fmt"
	"os"
	"sort"
	"strconv"
	"testing"

	"verifharness/internal/core"
)

// go test -tags verif ./internal/c11 -run TestDebug -v   (N, SEED, ENUM, STRICT, SHOW=<substring of why>, TIER=thorough)
func TestDebug(t *testing.T) {
	n, _ := strconv.Atoi(os.Getenv("N"))
	if n == 0 {
		n = 300
	}
	seed, _ := strconv.Atoi(os.Getenv("SEED"))
	tier := core.Quick
	if os.Getenv("TIER") == "thorough" {
		tier = core.Thorough
	}
	var cases []any
	if os.Getenv("ENUM") != "" {
		cases = enumHistory(tier)
	} else {
		for i := 0; i < n; i++ {
			cases = append(cases, genHistory(core.RNG(uint64(seed), "c11.history", i), tier))
		}
	}
	d, err := core.StartDriver("../../../lean/.lake/build/bin/kdriver")
	if err != nil {
		t.Fatal(err)
	}
	defer d.Close()
	hist := map[string]int{}
	first := map[string]string{}
	wf, pts, ex := 0, 0, 0
	for _, in := range cases {
		x := in.(In)
		x.Strict = os.Getenv("STRICT") != ""
		raw, _ := json.Marshal(x)
		out, err := implHistory(raw)
		if err != nil {
			t.Fatalf("impl: %v\n%s", err, raw)
		}
		ob, _ := json.Marshal(out)
		r, err := d.Ask("c11.history", raw, ob)
		if err != nil {
			t.Fatal(err)
		}
		var extra struct {
			WellFormed   bool `json:"wellFormed"`
			SpecPoints   int  `json:"specPoints"`
			ExemptPoints int  `json:"exemptPoints"`
		}
		json.Unmarshal(r.Extra, &extra)
		if extra.WellFormed {
			wf++
		}
		pts += extra.SpecPoints
		ex += extra.ExemptPoints
		var xo any
		json.Unmarshal(ob, &xo)
		key := "pass"
		switch {
		case r.Err != "":
			key = "ERR " + r.Err
		case r.Spec != nil && !*r.Spec:
			key = "SPEC [" + signatureHistory(raw, xo) + "] " + trunc(r.Why, 160)
		case r.Allowed != nil && !*r.Allowed:
			key = "DISAGREE " + trunc(r.Why, 200)
		}
		hist[key]++
		if _, ok := first[key]; !ok {
			first[key] = string(raw)
		}
	}
	keys := make([]string, 0, len(hist))
	for k := range hist {
		keys = append(keys, k)
	}
	sort.Strings(keys)
	for _, k := range keys {
		fmt.Printf("%5d %s\n", hist[k], k)
	}
	fmt.Printf("cases=%d wellformed=%d specPoints=%d exemptPoints=%d\n", len(cases), wf, pts, ex)
	if w := os.Getenv("SHOW"); w != "" {
		for _, k := range keys {
			if len(k) >= len(w) && contains(k, w) {
				fmt.Println("CASE", k)
				fmt.Println(first[k])
				break
			}
		}
	}
}

func trunc(s string, n int) string {
	if len(s) > n {
		return s[:n]
	}
	return s
}

func contains(s, sub string) bool {
	for i := 0; i+len(sub) <= len(s); i++ {
		if s[i:i+len(sub)] == sub {
			return true
		}
	}
	return false
}
