package c11

import (
	"encoding/json"
	"fmt"
	"math/rand/v2"
	"strconv"
	"time"

	appsv1 "k8s.io/api/apps/v1"
	corev1 "k8s.io/api/core/v1"
	metav1 "k8s.io/apimachinery/pkg/apis/meta/v1"
	"k8s.io/apimachinery/pkg/types"
	"sigs.k8s.io/controller-runtime/pkg/client"
	"sigs.k8s.io/controller-runtime/pkg/reconcile"

	"sigs.k8s.io/karpenter/pkg/controllers/state"
	"sigs.k8s.io/karpenter/pkg/controllers/state/informer"

	"verifharness/internal/core"
)

// c11.daemonsets: the per-DaemonSet pod cache of state.Cluster (UpdateDaemonSet / DeleteDaemonSet / GetDaemonSetPod) driven
// through the REAL informer.DaemonSetController.Reconcile on the fake client.

// DsEv: one event of a DaemonSet history
//
//	ds / dsGone     the DaemonSet `name` is created (with UID `uid`; a recreated DaemonSet has another UID) / removed
//	pod / podGone   the Pod `name` is created or replaced by this version / removed. An in-place update (resize, added
//	                tolerations) keeps `uid` and `ct`; a replacement has another uid and creation time
//	rd              the DaemonSet controller reconciles key `name` (on create, then polled every minute)
type DsEv struct {
	T    string `json:"t"`
	Name string `json:"name"`
	Uid  string `json:"uid,omitempty"`
	Ct   int    `json:"ct,omitempty"`  // creationTimestamp, seconds after the epoch
	Own  string `json:"own,omitempty"` // UID in the pod's controller owner reference ("" = no controller)
	Cpu  int64  `json:"cpu,omitempty"` // cpu request, milli
	Tol  int    `json:"tol,omitempty"` // number of tolerations
}

type DsIn struct {
	Ev     []DsEv `json:"ev"`
	Strict bool   `json:"strict,omitempty"`
}

// DsEntry: what GetDaemonSetPod returns for one DaemonSet name
type DsEntry struct {
	Ds  string `json:"ds"`
	Has bool   `json:"has"`
	Pn  string `json:"pn"`
	Pu  string `json:"pu"`
	Pv  int    `json:"pv"`
	Ct  int    `json:"ct"`
	Own string `json:"own"`
	Cpu int64  `json:"cpu"`
	Tol int    `json:"tol"`
}

type DsStep struct {
	I int       `json:"i"`
	R string    `json:"r"`
	V []DsEntry `json:"v"`
	Q bool      `json:"q"`
}

type DsFresh struct {
	I int       `json:"i"`
	V []DsEntry `json:"v"`
}

type DsOut struct {
	Steps []DsStep  `json:"steps"`
	Fresh []DsFresh `json:"fresh"`
}

func dsNames(in *DsIn) []string {
	m := map[string]bool{}
	for _, e := range in.Ev {
		switch e.T {
		case "ds", "dsGone", "rd":
			m[e.Name] = true
		}
	}
	return sortedKeys(m)
}

func dsView(c *state.Cluster, names []string) []DsEntry {
	out := []DsEntry{}
	for _, n := range names {
		e := DsEntry{Ds: n}
		if p := c.GetDaemonSetPod(&appsv1.DaemonSet{ObjectMeta: metav1.ObjectMeta{Name: n, Namespace: ns}}); p != nil {
			e.Has, e.Pn, e.Pu = true, p.Name, string(p.UID)
			e.Pv, _ = strconv.Atoi(p.Annotations[verAnno])
			e.Ct = int(p.CreationTimestamp.Time.Sub(epoch) / time.Second)
			if ref := metav1.GetControllerOf(p); ref != nil {
				e.Own = string(ref.UID)
			}
			if len(p.Spec.Containers) > 0 {
				q := p.Spec.Containers[0].Resources.Requests[corev1.ResourceCPU]
				e.Cpu = q.MilliValue()
			}
			e.Tol = len(p.Spec.Tolerations)
		}
		out = append(out, e)
	}
	return out
}

func dsReconcile(kube client.Client, c *state.Cluster, name string) string {
	_, err := informer.NewDaemonSetController(kube, c).Reconcile(baseCtx, reconcile.Request{NamespacedName: types.NamespacedName{Name: name, Namespace: ns}})
	if err != nil {
		return "err"
	}
	return "ok"
}

func implDaemonsets(raw json.RawMessage) (any, error) {
	var in DsIn
	if err := json.Unmarshal(raw, &in); err != nil {
		return nil, err
	}
	w := newWorld(newKube())
	names := dsNames(&in)
	out := &DsOut{Steps: []DsStep{}, Fresh: []DsFresh{}}
	dirty := map[string]bool{}
	for i, e := range in.Ev {
		switch e.T {
		case "ds":
			d := &appsv1.DaemonSet{ObjectMeta: metav1.ObjectMeta{Name: e.Name, Namespace: ns, UID: types.UID(e.Uid), CreationTimestamp: metav1.NewTime(epoch)}}
			if err := w.put(d, &appsv1.DaemonSet{ObjectMeta: metav1.ObjectMeta{Name: e.Name, Namespace: ns}}, false); err != nil {
				return nil, err
			}
		case "dsGone":
			if err := w.remove(&appsv1.DaemonSet{ObjectMeta: metav1.ObjectMeta{Name: e.Name, Namespace: ns}}); err != nil {
				return nil, err
			}
		case "pod":
			p := &corev1.Pod{
				ObjectMeta: metav1.ObjectMeta{Name: e.Name, Namespace: ns, UID: types.UID(e.Uid), Annotations: map[string]string{verAnno: strconv.Itoa(i)},
					CreationTimestamp: metav1.NewTime(epoch.Add(time.Duration(e.Ct) * time.Second))},
				Spec: corev1.PodSpec{NodeName: "n1", Containers: []corev1.Container{{Name: "main", Image: "img",
					Resources: corev1.ResourceRequirements{Requests: resList(e.Cpu, 0, 0, 0)}}}},
				Status: corev1.PodStatus{Phase: corev1.PodRunning},
			}
			for j := 0; j < e.Tol; j++ {
				p.Spec.Tolerations = append(p.Spec.Tolerations, corev1.Toleration{Key: fmt.Sprintf("k%d", j), Operator: corev1.TolerationOpExists})
			}
			if e.Own != "" {
				t := true
				p.OwnerReferences = []metav1.OwnerReference{{APIVersion: "apps/v1", Kind: "DaemonSet", Name: "owner", UID: types.UID(e.Own), Controller: &t, BlockOwnerDeletion: &t}}
			}
			if err := w.put(p, &corev1.Pod{ObjectMeta: metav1.ObjectMeta{Name: e.Name, Namespace: ns}}, false); err != nil {
				return nil, err
			}
		case "podGone":
			if err := w.remove(&corev1.Pod{ObjectMeta: metav1.ObjectMeta{Name: e.Name, Namespace: ns}}); err != nil {
				return nil, err
			}
		case "rd":
			r := dsReconcile(w.kube, w.cluster, e.Name)
			delete(dirty, e.Name)
			st := DsStep{I: i, R: r, V: dsView(w.cluster, names), Q: len(dirty) == 0}
			out.Steps = append(out.Steps, st)
			if st.Q && len(out.Fresh) < maxFresh {
				// the from-scratch oracle: a brand-new Cluster that reconciles every DaemonSet key once
				f := newWorld(w.kube)
				for _, n := range names {
					dsReconcile(w.kube, f.cluster, n)
				}
				out.Fresh = append(out.Fresh, DsFresh{I: i, V: dsView(f.cluster, names)})
			}
			continue
		default:
			return nil, fmt.Errorf("bad event type %q", e.T)
		}
		// every DaemonSet key has to be polled again after any change of a DaemonSet or of a pod
		for _, n := range names {
			dirty[n] = true
		}
	}
	return out, nil
}

// ---------- generator ----------

func genDaemonsets(r *rand.Rand, t core.Tier) any {
	maxLen := 30
	if t == core.Thorough {
		maxLen = 80
	}
	n := 6 + r.IntN(maxLen)
	nds := 1 + r.IntN(2)
	npods := 2 + r.IntN(3)
	dsName := func() string { return "d" + itoa(1+r.IntN(nds)) }
	inc := map[string]int{}      // DaemonSet name -> incarnation
	dsUID := map[string]string{} // existing DaemonSets
	pods := map[string]*DsEv{}   // existing pods
	var ev []DsEv
	uidN := 0
	clock := 1
	settle := func() {
		for i := 1; i <= nds; i++ {
			ev = append(ev, DsEv{T: "rd", Name: "d" + itoa(i)})
		}
	}
	someOwner := func() string {
		x := r.Float64()
		switch {
		case x < 0.08:
			return "" // not controlled by anything
		case x < 0.14:
			return "rs-1" // controlled by something else
		}
		d := dsName()
		if u, ok := dsUID[d]; ok && r.Float64() < 0.9 {
			return u
		}
		return fmt.Sprintf("ds-%s-%d", d, inc[d]) // the latest (possibly deleted / not yet created) incarnation
	}
	for len(ev) < n {
		x := r.Float64()
		switch {
		case x < 0.22:
			ev = append(ev, DsEv{T: "rd", Name: dsName()})
		case x < 0.30:
			settle()
		case x < 0.40:
			d := dsName()
			if _, ok := dsUID[d]; ok && r.Float64() < 0.7 {
				delete(dsUID, d)
				ev = append(ev, DsEv{T: "dsGone", Name: d})
			} else {
				inc[d]++
				dsUID[d] = fmt.Sprintf("ds-%s-%d", d, inc[d])
				ev = append(ev, DsEv{T: "ds", Name: d, Uid: dsUID[d]})
			}
		default:
			name := "q" + itoa(1+r.IntN(npods))
			cur := pods[name]
			y := r.Float64()
			switch {
			case cur != nil && y < 0.25:
				delete(pods, name)
				ev = append(ev, DsEv{T: "podGone", Name: name})
			case cur != nil && y < 0.65:
				// updated IN PLACE (same UID and creation time): resized requests and / or tolerations added
				e := *cur
				if r.Float64() < 0.7 {
					e.Cpu = pick[int64](r, 100, 200, 250, 750, 1000)
				}
				if r.Float64() < 0.5 {
					e.Tol = r.IntN(3)
				}
				pods[name] = &e
				ev = append(ev, e)
			default:
				// a new pod (a rollout replaces the pod: new UID, later creation time; 12%: the same second as an earlier pod)
				uidN++
				ct := clock
				if r.Float64() < 0.88 {
					clock++
					ct = clock
				} else if clock > 1 && r.Float64() < 0.5 {
					ct = 1 + r.IntN(clock)
				}
				e := DsEv{T: "pod", Name: name, Uid: "u" + strconv.Itoa(uidN), Ct: ct, Own: someOwner(), Cpu: pick[int64](r, 100, 200, 250), Tol: r.IntN(2)}
				pods[name] = &e
				ev = append(ev, e)
			}
		}
	}
	settle()
	return DsIn{Ev: ev}
}

// ---------- labels ----------

func decodeDsOut(impl any) *DsOut {
	b, err := json.Marshal(impl)
	if err != nil {
		return nil
	}
	var o DsOut
	if json.Unmarshal(b, &o) != nil {
		return nil
	}
	return &o
}

type dsFeatures struct {
	inPlaceOfCached, replaced, dsRecreated, lastPodGone, tie, quiescentWithEntry bool
}

func dsFeaturesOf(in *DsIn, o *DsOut) dsFeatures {
	var f dsFeatures
	if o == nil {
		return f
	}
	cachedUID := map[string]bool{}
	stepAt := map[int]*DsStep{}
	for i := range o.Steps {
		stepAt[o.Steps[i].I] = &o.Steps[i]
	}
	podUID, podCt, dsSeen := map[string]string{}, map[int]int{}, map[string]bool{}
	for i, e := range in.Ev {
		switch e.T {
		case "pod":
			old, ok := podUID[e.Name]
			if ok && old == e.Uid && cachedUID[e.Uid] {
				f.inPlaceOfCached = true
			} else if ok && old != e.Uid {
				f.replaced = true
			}
			if !ok || old != e.Uid {
				podCt[e.Ct]++
				if podCt[e.Ct] > 1 {
					f.tie = true
				}
			}
			podUID[e.Name] = e.Uid
		case "podGone":
			if cachedUID[podUID[e.Name]] {
				f.lastPodGone = true
			}
			delete(podUID, e.Name)
		case "ds":
			if dsSeen[e.Name] {
				f.dsRecreated = true
			}
			dsSeen[e.Name] = true
		case "rd":
			if s := stepAt[i]; s != nil {
				cachedUID = map[string]bool{}
				for _, en := range s.V {
					if en.Has {
						cachedUID[en.Pu] = true
						if s.Q {
							f.quiescentWithEntry = true
						}
					}
				}
			}
		}
	}
	return f
}

func labelsDaemonsets(raw json.RawMessage, impl any) []string {
	var in DsIn
	json.Unmarshal(raw, &in)
	o := decodeDsOut(impl)
	f := dsFeaturesOf(&in, o)
	l := []string{fmt.Sprintf("len<=%d", ((len(in.Ev)/20)+1)*20)}
	add := func(b bool, s string) {
		if b {
			l = append(l, s)
		}
	}
	add(f.inPlaceOfCached, "cached-pod-updated-in-place")
	add(f.replaced, "pod-replaced-new-uid")
	add(f.dsRecreated, "daemonset-recreated-new-uid")
	add(f.lastPodGone, "cached-pod-removed")
	add(f.tie, "equal-creation-times")
	add(f.quiescentWithEntry, "quiescent-with-entry")
	if o != nil {
		l = append(l, fmt.Sprintf("fresh-oracle-points=%d", len(o.Fresh)))
	}
	return l
}

func shrinkDaemonsets(raw json.RawMessage) []any {
	var in DsIn
	json.Unmarshal(raw, &in)
	var out []any
	for _, c := range core.ShrinkList(in.Ev) {
		out = append(out, DsIn{Ev: c, Strict: in.Strict})
	}
	return out
}

func daemonsetsOp() *core.Op {
	return &core.Op{
		Name: "c11.daemonsets",
		Doc:  "random histories of DaemonSets and their pods (created, replaced by a newer pod with another UID, UPDATED IN PLACE with the same UID: resized requests / added tolerations, removed; DaemonSets deleted and recreated under the same name with another UID; pods controlled by nothing / something else; equal creation times) with DaemonSet reconcile deliveries (on create, polled) in any order through the REAL informer.DaemonSetController.Reconcile into the real state.Cluster on the fake client; GetDaemonSetPod of every DaemonSet name after every reconcile; a fresh Cluster that reconciles every key once at quiescent points",
		N: func(t core.Tier) int {
			if t == core.Thorough {
				return 4000
			}
			return 500
		},
		Gen:  genDaemonsets,
		Impl: implDaemonsets,
		Rule: "random walks over 1-2 DaemonSet names and 2-4 pod names (6..35 events quick, 6..85 thorough): 22% reconcile deliveries, 8% settling rounds, 10% DaemonSet created/deleted/recreated, 60% pod events (of an existing pod: 25% removed, 40% updated in place, 35% replaced); 12% of new pods share a creation second with another pod; non-trivial = a quiescent point is reached with a cached pod and the history updates a cached pod in place, replaces a pod, removes the cached pod or recreates a DaemonSet",
		Nontrivial: func(raw json.RawMessage, impl any) bool {
			var in DsIn
			json.Unmarshal(raw, &in)
			f := dsFeaturesOf(&in, decodeDsOut(impl))
			return f.quiescentWithEntry && (f.inPlaceOfCached || f.replaced || f.lastPodGone || f.dsRecreated)
		},
		Labels: labelsDaemonsets,
		Shrink: shrinkDaemonsets,
	}
}
