package c11

import (
	"encoding/json"
	"fmt"
	"math/rand/v2"
	"net"
	"sort"
	"strings"

	corev1 "k8s.io/api/core/v1"
	metav1 "k8s.io/apimachinery/pkg/apis/meta/v1"
	"k8s.io/apimachinery/pkg/types"

	"sigs.k8s.io/karpenter/pkg/scheduling"

	"verifharness/internal/core"
)

// ---------- c11.usage: the two per-node usage trackers at component level ----------
//
// A sequence of Add / DeletePod / DeepCopy on the REAL scheduling.VolumeUsage and scheduling.HostPortUsage (the calls
// StateNode.updateForPod / cleanupForPod make per pod key), observed after every op through the exported API only:
// ExceedsLimits probe family, the exact accounted volume set (measured with limit probes on a deep copy), Conflicts masks,
// and whether a Volumes value handed to Add earlier was changed behind the caller's back.

type UVol struct {
	D string `json:"d"`
	X string `json:"x"`
}

type UOp struct {
	T     string `json:"t"` // add | del | copy
	K     string `json:"k,omitempty"`
	Vols  []UVol `json:"vols,omitempty"`
	Ports []Port `json:"ports,omitempty"`
}

type UIn struct {
	Limits []Limit `json:"limits"`
	Ops    []UOp   `json:"ops"`
}

type UStep struct {
	Vol string   `json:"vol"` // ExceedsLimits per probe of volProbes
	Set []string `json:"set"` // accounted volumes "driver|id" (universe ids) per driver, sorted
	Cnt []int    `json:"cnt"` // number of accounted volumes per driver of the universe
	HP  []int    `json:"hp"`  // Conflicts masks: fresh pod, then every pod key of the universe
	Mut []int    `json:"mut"` // indices of earlier add ops whose Volumes argument no longer has the content it was given with
}

type UOut struct {
	Steps []UStep `json:"steps"`
}

type uUniverse struct {
	keys, drivers, ids []string
}

func uUniverseOf(in *UIn) *uUniverse {
	k, d, x := map[string]bool{}, map[string]bool{}, map[string]bool{}
	for _, l := range in.Limits {
		d[l.D] = true
	}
	for _, o := range in.Ops {
		if o.T != "copy" {
			k[o.K] = true
		}
		for _, v := range o.Vols {
			d[v.D] = true
			x[v.X] = true
		}
	}
	return &uUniverse{keys: sortedKeys(k), drivers: sortedKeys(d), ids: sortedKeys(x)}
}

func volumesOf(vs []UVol) scheduling.Volumes {
	out := scheduling.Volumes{}
	for _, v := range vs {
		out.Add(v.D, v.X)
	}
	return out
}

func canonVolumes(v scheduling.Volumes) string {
	var parts []string
	for d, s := range v {
		for x := range s {
			parts = append(parts, d+"|"+x)
		}
		if len(s) == 0 {
			parts = append(parts, d+"|")
		}
	}
	sort.Strings(parts)
	return strings.Join(parts, ",")
}

const bigLimit = 1 << 20

// accounted: the exact number of volumes accounted for driver d and which universe ids are among them, measured on a
// deep copy through AddLimit / ExceedsLimits only.
func accounted(vu *scheduling.VolumeUsage, u *uUniverse, d string) (int, []string) {
	cp := vu.DeepCopy()
	for _, o := range u.drivers {
		cp.AddLimit(o, bigLimit)
	}
	count := func(extra scheduling.Volumes) int {
		for n := 0; n <= 64; n++ {
			cp.AddLimit(d, n)
			if cp.ExceedsLimits(extra) == nil {
				return n
			}
		}
		return -1
	}
	// a driver without any accounted volume does not occur in the union: ExceedsLimits({}) is nil for limit 0
	n := count(scheduling.Volumes{})
	var in []string
	for _, x := range u.ids {
		ex := scheduling.Volumes{}
		ex.Add(d, x)
		if count(ex) == n && n > 0 {
			in = append(in, d+"|"+x)
		}
	}
	return n, in
}

func implUsage(raw json.RawMessage) (any, error) {
	var in UIn
	if err := json.Unmarshal(raw, &in); err != nil {
		return nil, err
	}
	u := uUniverseOf(&in)
	probes := volProbes(&universe{drivers: u.drivers, pvcIDs: u.ids})
	vu := scheduling.NewVolumeUsage()
	for _, l := range in.Limits {
		if l.N >= 0 {
			vu.AddLimit(l.D, int(l.N))
		}
	}
	hp := scheduling.NewHostPortUsage()
	type given struct {
		i     int
		v     scheduling.Volumes
		canon string
	}
	var args []given
	out := &UOut{Steps: []UStep{}}
	for i, o := range in.Ops {
		pod := &corev1.Pod{ObjectMeta: metav1.ObjectMeta{Name: o.K, Namespace: ns}}
		switch o.T {
		case "add":
			v := volumesOf(o.Vols)
			args = append(args, given{i: i, v: v, canon: canonVolumes(v)})
			vu.Add(pod, v)
			var ports []scheduling.HostPort
			for _, p := range o.Ports {
				ip := p.IP
				if ip == "" {
					ip = "0.0.0.0"
				}
				ports = append(ports, scheduling.HostPort{IP: net.ParseIP(ip), Port: p.Port, Protocol: corev1.Protocol(p.Proto)})
			}
			hp.Add(pod, ports)
		case "del":
			key := types.NamespacedName{Namespace: ns, Name: o.K}
			vu.DeletePod(key)
			hp.DeletePod(key)
		case "copy":
			vu = vu.DeepCopy()
			hp = hp.DeepCopy()
		default:
			return nil, fmt.Errorf("bad op %q", o.T)
		}
		st := UStep{Set: []string{}, Cnt: []int{}, HP: []int{}, Mut: []int{}}
		var sb strings.Builder
		for _, pr := range probes {
			if vu.ExceedsLimits(pr) != nil {
				sb.WriteByte('1')
			} else {
				sb.WriteByte('0')
			}
		}
		st.Vol = sb.String()
		for _, d := range u.drivers {
			n, members := accounted(vu, u, d)
			st.Cnt = append(st.Cnt, n)
			st.Set = append(st.Set, members...)
		}
		st.HP = append(st.HP, hostPortMask(hp, probeName))
		for _, k := range u.keys {
			st.HP = append(st.HP, hostPortMask(hp, k))
		}
		for _, a := range args {
			if canonVolumes(a.v) != a.canon {
				st.Mut = append(st.Mut, a.i)
			}
		}
		out.Steps = append(out.Steps, st)
	}
	return out, nil
}

// ---------- generator ----------

var uIDs = []string{"default/pvc-a", "default/pvc-b", "default/pvc-c", "default/pvc-d", "default/pvc-e"}

func genUsage(r *rand.Rand, t core.Tier) any {
	nk := 2 + r.IntN(5)
	drivers := []string{"csi-1"}
	if r.Float64() < 0.4 {
		drivers = append(drivers, "csi-2")
	}
	in := UIn{Limits: []Limit{}, Ops: []UOp{}}
	for _, d := range drivers {
		if r.Float64() < 0.85 {
			in.Limits = append(in.Limits, Limit{D: d, N: int32(r.IntN(8))})
		}
	}
	if r.Float64() < 0.1 {
		in.Limits = append(in.Limits, Limit{D: "csi-3", N: int32(r.IntN(2))}) // a limit for a driver nobody uses
	}
	n := 4 + r.IntN(22)
	if t == core.Thorough {
		n = 4 + r.IntN(60)
	}
	live := map[string]bool{}
	for len(in.Ops) < n {
		k := "x" + itoa(1+r.IntN(nk))
		x := r.Float64()
		switch {
		case x < 0.55 || len(live) == 0:
			o := UOp{T: "add", K: k}
			for r.Float64() < 0.7 && len(o.Vols) < 3 {
				o.Vols = append(o.Vols, UVol{D: pick(r, drivers...), X: pick(r, uIDs...)})
			}
			for r.Float64() < 0.3 && len(o.Ports) < 3 {
				o.Ports = append(o.Ports, pick(r, portUniverse...))
			}
			in.Ops = append(in.Ops, o)
			live[k] = true
		case x < 0.92:
			// mostly a live key, sometimes one that is not tracked
			if r.Float64() < 0.85 {
				ks := sortedKeys(live)
				k = ks[r.IntN(len(ks))]
			}
			in.Ops = append(in.Ops, UOp{T: "del", K: k})
			delete(live, k)
		default:
			in.Ops = append(in.Ops, UOp{T: "copy"})
		}
	}
	return in
}

// enumUsage: after the prefix "three pods, one volume of the same driver each" (and after no prefix), every sequence of up to
// 3 (thorough: 4) ops over {add x_i with its own volume, add x_i with another pod's volume and its own, del x_i}, i = 1..3.
func enumUsage(t core.Tier) []any {
	own := map[string]string{"x1": uIDs[0], "x2": uIDs[1], "x3": uIDs[2]}
	other := map[string]string{"x1": uIDs[1], "x2": uIDs[2], "x3": uIDs[3]}
	var alphabet []UOp
	for _, k := range []string{"x1", "x2", "x3"} {
		alphabet = append(alphabet,
			UOp{T: "add", K: k, Vols: []UVol{{D: "csi-1", X: own[k]}}},
			UOp{T: "add", K: k, Vols: []UVol{{D: "csi-1", X: other[k]}, {D: "csi-1", X: own[k]}}, Ports: []Port{{"", 80, "TCP"}}},
			UOp{T: "del", K: k})
	}
	prefix := []UOp{alphabet[0], alphabet[3], alphabet[6]}
	maxLen := 3
	if t == core.Thorough {
		maxLen = 4
	}
	var out []any
	var rec func(cur []UOp)
	rec = func(cur []UOp) {
		if len(cur) > 0 {
			out = append(out, UIn{Limits: []Limit{{D: "csi-1", N: 3}}, Ops: append(append([]UOp{}, prefix...), cur...)})
			out = append(out, UIn{Limits: []Limit{{D: "csi-1", N: 2}}, Ops: append([]UOp{}, cur...)})
		}
		if len(cur) == maxLen {
			return
		}
		for _, o := range alphabet {
			rec(append(append([]UOp{}, cur...), o))
		}
	}
	rec(nil)
	return out
}

func labelsUsage(raw json.RawMessage, impl any) []string {
	var in UIn
	json.Unmarshal(raw, &in)
	l := []string{fmt.Sprintf("ops<=%d", ((len(in.Ops)/10)+1)*10)}
	seen := map[string]bool{}
	live := map[string]bool{}
	maxLive, readd, delUntracked, rebuilds := 0, false, false, 0
	for _, o := range in.Ops {
		seen["op:"+o.T] = true
		switch o.T {
		case "add":
			if live[o.K] {
				readd = true
				rebuilds++
			}
			if len(o.Vols) > 0 {
				live[o.K] = true
			}
		case "del":
			if !live[o.K] {
				delUntracked = true
			}
			delete(live, o.K)
			rebuilds++
		}
		if len(live) > maxLive {
			maxLive = len(live)
		}
	}
	for k := range seen {
		l = append(l, k)
	}
	l = append(l, fmt.Sprintf("max-live-pods-with-volumes=%d", maxLive))
	if readd {
		l = append(l, "key-re-added")
	}
	if delUntracked {
		l = append(l, "delete-of-untracked-key")
	}
	if rebuilds >= 2 {
		l = append(l, "rebuilds>=2")
	}
	return l
}

func nontrivialUsage(raw json.RawMessage, impl any) bool {
	var in UIn
	json.Unmarshal(raw, &in)
	live := map[string]bool{}
	dels := 0
	ok := false
	for _, o := range in.Ops {
		switch o.T {
		case "add":
			if len(o.Vols) > 0 {
				live[o.K] = true
			}
		case "del":
			delete(live, o.K)
			dels++
			if len(live) >= 1 && dels >= 1 {
				ok = true
			}
		}
	}
	return ok
}

func shrinkUsage(raw json.RawMessage) []any {
	var in UIn
	json.Unmarshal(raw, &in)
	var out []any
	for _, c := range core.ShrinkList(in.Ops) {
		out = append(out, UIn{Limits: in.Limits, Ops: c})
	}
	return out
}

func usageOp() *core.Op {
	return &core.Op{
		Name: "c11.usage",
		Doc:  "sequences of Add / DeletePod / DeepCopy per pod key on the REAL scheduling.VolumeUsage and scheduling.HostPortUsage (what StateNode.updateForPod / cleanupForPod call); after every op: ExceedsLimits probe family, the exact accounted volume set and count per driver (limit probes on a deep copy), Conflicts masks, and whether a Volumes value given to an earlier Add was altered; the model is SNode.updateForPod / cleanupForPod, the specification the from-scratch union over the table of live pod keys",
		N: func(t core.Tier) int {
			if t == core.Thorough {
				return 4000
			}
			return 600
		},
		Gen:            genUsage,
		Enum:           enumUsage,
		Impl:           implUsage,
		Rule:           "random: 2-6 pod keys, 1-2 drivers, 5 volume ids, limits 0..7 (85%), 4..25 ops (thorough ..63): 55% add (0-3 volumes, 0-3 host ports), 37% delete (15% of an untracked key), 8% deep copy; exhaustive: see ExhaustiveNote; non-trivial = a delete happens while another pod with volumes stays tracked",
		Nontrivial:     nontrivialUsage,
		Labels:         labelsUsage,
		Signature:      func(json.RawMessage, any) string { return "usage-differs-from-table" },
		Shrink:         shrinkUsage,
		ExhaustiveNote: "every sequence of up to 3 (thorough: 4) ops over {add x_i with its own volume, add x_i with another pod's volume too, delete x_i}, i=1..3, from the empty tracker and after three pods with one volume of the same driver each",
	}
}
