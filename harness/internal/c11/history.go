package c11

import (
	"encoding/json"
	"fmt"
	"reflect"
	"strings"

	corev1 "k8s.io/api/core/v1"
	"sigs.k8s.io/controller-runtime/pkg/client"

	v1 "sigs.k8s.io/karpenter/pkg/apis/v1"
)

// Step is the observation after one cache-affecting event (reconcile / mark / unmark / nominate).
type Step struct {
	I int    `json:"i"`           // index of the event
	R string `json:"r,omitempty"` // reconcile result class for rn / rp
	V *View  `json:"v"`           // nil = identical to the previous step's view
	Q bool   `json:"q,omitempty"` // the harness considered the history quiescent here (every changed key reconciled since)
}

// FreshAt is the implementation-side from-scratch oracle: a brand-new Cluster fed the API objects as they are at
// event I (all NodeClaims, then all Nodes, then all Pods through the real informer controllers), with the
// in-memory marks/nominations of the incremental cluster transferred.
type FreshAt struct {
	I int   `json:"i"`
	V *View `json:"v"`
}

type Out struct {
	Steps []Step    `json:"steps"`
	Fresh []FreshAt `json:"fresh"`
	// Panic: the event index at which the real code panicked (processing stops there) and the panic class
	PanicAt *int   `json:"panicAt,omitempty"`
	Panic   string `json:"panic,omitempty"`
}

const maxFresh = 40

func (w *world) freshView(u *universe, inc *View, i int) (*View, error) {
	f := newWorld(w.kube)
	var claims v1.NodeClaimList
	if err := w.kube.List(w.ctx, &claims); err != nil {
		return nil, err
	}
	for _, c := range claims.Items {
		f.reconcile("rc", c.Name)
	}
	var nodes corev1.NodeList
	if err := w.kube.List(w.ctx, &nodes); err != nil {
		return nil, err
	}
	for _, n := range nodes.Items {
		f.reconcile("rn", n.Name)
	}
	var pods corev1.PodList
	if err := w.kube.List(w.ctx, &pods, client.InNamespace(ns)); err != nil {
		return nil, err
	}
	for _, p := range pods.Items {
		f.reconcile("rp", p.Name)
	}
	// in-memory marks are not API state: carry them over from the incremental cluster
	for _, nv := range inc.Nodes {
		if strings.Contains(nv.Flags, "M") && !strings.Contains(nv.Flags, "D") {
			f.cluster.MarkForDeletion(nv.Pid)
		}
		if strings.Contains(nv.Flags, "N") {
			f.cluster.NominateNodeForPod(f.ctx, nv.Pid)
		}
	}
	return f.view(u, volProbes(u)), nil
}

func runHistory(in *In) (*Out, error) {
	kube, flt := newKubeF()
	w := newWorld(kube)
	w.faults = flt
	if err := w.setupStorage(in.Pvcs); err != nil {
		return nil, err
	}
	u := universeOf(in)
	probes := volProbes(u)
	out := &Out{Steps: []Step{}, Fresh: []FreshAt{}}
	dirty := map[string]bool{}
	var prev *View
	apiChanged := true // an API change or a view change since the last oracle point
	for i := range in.Ev {
		e := &in.Ev[i]
		if isAPI(e.T) {
			if err := w.applyAPI(i, e); err != nil {
				return nil, fmt.Errorf("event %d (%s %s): %w", i, e.T, e.Name, err)
			}
			dirty[kindOf(e.T)+"/"+e.Name] = true
			apiChanged = true
			continue
		}
		st := Step{I: i}
		pc := ""
		func() {
			defer func() {
				if r := recover(); r != nil {
					pc = panicClass(fmt.Sprint(r))
				}
			}()
			switch e.T {
			case "rn", "rp":
				st.R = w.reconcile(e.T, e.Name)
				delete(dirty, kindOf(e.T)+"/"+e.Name)
			case "rpf":
				w.faults.volGet = true
				st.R = func() string {
					defer func() { w.faults.volGet = false }()
					return w.reconcile("rp", e.Name)
				}()
				if st.R == "err" {
					dirty["p/"+e.Name] = true // the reconcile failed: controller-runtime retries the key
				} else {
					delete(dirty, "p/"+e.Name)
				}
			case "rc":
				w.reconcile(e.T, e.Name)
				delete(dirty, kindOf(e.T)+"/"+e.Name)
			case "mark":
				if len(e.Pids) > 0 {
					w.cluster.MarkForDeletion(e.Pids...)
				} else {
					w.cluster.MarkForDeletion(e.Pid)
				}
			case "unmark":
				if len(e.Pids) > 0 {
					w.cluster.UnmarkForDeletion(e.Pids...)
				} else {
					w.cluster.UnmarkForDeletion(e.Pid)
				}
			case "nominate":
				w.cluster.NominateNodeForPod(w.ctx, e.Pid)
			default:
				panic("bad event type " + e.T)
			}
		}()
		if pc != "" {
			if strings.HasPrefix(pc, "bad event") {
				return nil, fmt.Errorf("%s", pc)
			}
			idx := i
			out.PanicAt, out.Panic = &idx, pc
			return out, nil
		}
		cur := w.view(u, probes)
		st.Q = len(dirty) == 0
		if prev != nil && reflect.DeepEqual(prev, cur) {
			st.V = nil
		} else {
			st.V = cur
			apiChanged = true
		}
		out.Steps = append(out.Steps, st)
		prev = cur
		// the from-scratch oracle: at quiescent points where something changed since the last oracle point
		if st.Q && apiChanged && len(out.Fresh) < maxFresh {
			fv, err := w.freshView(u, cur, i)
			if err != nil {
				return nil, err
			}
			out.Fresh = append(out.Fresh, FreshAt{I: i, V: fv})
			apiChanged = false
		}
	}
	return out, nil
}

func panicClass(s string) string {
	switch {
	case strings.Contains(s, "nil pointer"):
		return "nil-deref"
	case strings.Contains(s, "assignment to entry in nil map"):
		return "nil-map-write"
	case strings.HasPrefix(s, "bad event"):
		return s
	}
	if len(s) > 60 {
		s = s[:60]
	}
	return s
}

func implHistory(raw json.RawMessage) (any, error) {
	var in In
	if err := json.Unmarshal(raw, &in); err != nil {
		return nil, err
	}
	return runHistory(&in)
}
