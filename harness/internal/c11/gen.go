package c11

import (
	"math/rand/v2"
	"sort"

	"verifharness/internal/core"
)

// ---------- generator: a random walk over API changes, reconcile deliveries and marks ----------

var stdPvcs = []Pvc{{N: "pvc-a", D: "csi-1"}, {N: "pvc-b", D: "csi-1"}, {N: "pvc-c", D: "csi-2"}, {N: "pvc-d", D: "csi-1", V: "pv"}, {N: "pvc-m", D: ""}}

// densePvcs: the storage world of the "dense" histories: six claims of ONE driver (two of them bound to a PV), so that a
// node can carry several pods that mount different volumes of the same driver.
var densePvcs = []Pvc{{N: "pvc-a", D: "csi-1"}, {N: "pvc-b", D: "csi-1"}, {N: "pvc-c", D: "csi-2"}, {N: "pvc-d", D: "csi-1", V: "pv"},
	{N: "pvc-e", D: "csi-1"}, {N: "pvc-f", D: "csi-1"}, {N: "pvc-g", D: "csi-1", V: "pv"}, {N: "pvc-m", D: ""}}

type gstate struct {
	dense  bool  // many pods with volumes of one driver / host ports on one or two nodes, mostly pod events
	pvcs   []Pvc // the storage world pods draw their volumes from
	r      *rand.Rand
	ev     []Ev
	nodes  map[string]*Ev
	claims map[string]*Ev
	pods   map[string]*Ev
	dirty  map[string]bool // "<kind>/<name>"
	nm     int             // number of machines (node/claim pairs)
	np     int             // number of pod names
	malf   bool            // malformed stream: the preconditions of the property (unique provider ids, immutable claim labels, ...) may be broken
	// what keeps a history well-formed
	obsNode     map[string]bool // node name -> the last delivered version is tracked by the cache
	launched    map[string]bool // claim name -> a version with a provider id existed
	claimPool   map[string]string
	claimForeig map[string]bool
	podDs       map[string]bool
}

// accepted: the cache tracks this node version (UpdateNode does not return early)
func accepted(e *Ev) bool {
	owned := e.Pool != ""
	if e.Pid == "" && owned {
		return false
	}
	if owned && !e.It && !e.Init {
		return false
	}
	return true
}

func (g *gstate) emit(e Ev) {
	g.ev = append(g.ev, e)
	if isAPI(e.T) {
		g.dirty[kindOf(e.T)+"/"+e.Name] = true
		c := e
		switch e.T {
		case "node":
			g.nodes[e.Name] = &c
		case "claim":
			g.claims[e.Name] = &c
		case "pod":
			g.pods[e.Name] = &c
		case "nodeGone":
			delete(g.nodes, e.Name)
		case "claimGone":
			delete(g.claims, e.Name)
		case "podGone":
			delete(g.pods, e.Name)
		}
		return
	}
	switch e.T {
	case "rn", "rc", "rp":
		delete(g.dirty, kindOf(e.T)+"/"+e.Name)
	}
	if e.T == "rn" {
		cur := g.nodes[e.Name]
		g.obsNode[e.Name] = cur != nil && accepted(cur)
	}
}

// emitNode keeps the history well-formed: a version the cache would ignore is not written over a tracked one
func (g *gstate) emitNode(e Ev) {
	if !g.malf && g.obsNode[e.Name] && !accepted(&e) {
		if e.Pid == "" {
			e.Pid = "p" + e.Name[1:]
		}
		e.It = true
	}
	g.emit(e)
}

func pick[T any](r *rand.Rand, xs ...T) T { return xs[r.IntN(len(xs))] }

func (g *gstate) machine() int { return 1 + g.r.IntN(g.nm) }

func itoa(i int) string { return string(rune('0' + i)) }

func (g *gstate) pidFor(i int) string {
	if g.malf && g.r.Float64() < 0.3 {
		return "p" + itoa(g.machine())
	}
	return "p" + itoa(i)
}

func (g *gstate) capVec() []int64 {
	r := g.r
	c := []int64{pick[int64](r, 0, 2000, 4000, 8000), pick[int64](r, 0, 4096, 8192), pick[int64](r, 0, 110, 58), pick[int64](r, 0, 0, 0, 1, 4)}
	return c
}

func (g *gstate) limits() []Limit {
	r := g.r
	var out []Limit
	if g.dense {
		// the probes tell k accounted volumes from k+1 when limit-k is in 0..3: keep the limit near the pod count
		if r.Float64() < 0.92 {
			out = append(out, Limit{D: "csi-1", N: int32(r.IntN(8))})
		}
	} else if r.Float64() < 0.7 {
		out = append(out, Limit{D: "csi-1", N: int32(r.IntN(4))})
	}
	if r.Float64() < 0.3 {
		out = append(out, Limit{D: "csi-2", N: int32(r.IntN(3))})
	}
	if r.Float64() < 0.05 {
		out = append(out, Limit{D: "csi-3", N: -1}) // driver without an allocatable count
	}
	return out
}

func (g *gstate) nodeEvent() {
	r := g.r
	i := g.machine()
	name := "n" + itoa(i)
	cur := g.nodes[name]
	if cur == nil {
		e := Ev{T: "node", Name: name, Cap: g.capVec(), Lim: g.limits()}
		if r.Float64() < 0.8 {
			e.Pool = pick(r, "a", "a", "b")
			st := r.IntN(6)
			if st >= 1 {
				e.Pid = g.pidFor(i)
			}
			if st >= 2 {
				e.It = true
			}
			if st >= 3 {
				e.Reg = true
			}
			if st >= 4 {
				e.Init = true
			}
			if r.Float64() < 0.1 { // labels in another order
				e.It = r.Float64() < 0.5
				e.Reg = r.Float64() < 0.5
			}
		} else {
			if r.Float64() < 0.5 {
				e.Pid = g.pidFor(i)
			}
			e.It = r.Float64() < 0.5
		}
		g.emitNode(e)
		return
	}
	x := r.Float64()
	switch {
	case x < 0.12:
		g.emit(Ev{T: "nodeGone", Name: name})
		return
	case x < 0.55: // progress the lifecycle
		e := *cur
		switch {
		case e.Pid == "":
			e.Pid = g.pidFor(i)
		case e.Pool != "" && !e.It:
			e.It = true
		case e.Pool != "" && !e.Reg:
			e.Reg = true
		case e.Pool != "" && !e.Init:
			e.Init = true
		default:
			e.Cap = g.capVec()
		}
		g.emitNode(e)
	case x < 0.7:
		e := *cur
		e.Cap = g.capVec()
		g.emitNode(e)
	case x < 0.8:
		e := *cur
		e.Del = true
		g.emitNode(e)
	case x < 0.88:
		e := *cur
		e.Lim = g.limits()
		g.emitNode(e)
	case x < 0.93: // provider id change to a fresh id of the same machine
		e := *cur
		if e.Pid == "p"+itoa(i) {
			e.Pid = "p" + itoa(i) + "b"
		} else {
			e.Pid = g.pidFor(i)
		}
		g.emitNode(e)
	case x < 0.96:
		e := *cur
		e.Pool = pick(r, "a", "b", "")
		g.emitNode(e)
	default: // a label disappears (unusual)
		e := *cur
		switch r.IntN(3) {
		case 0:
			e.Init = false
		case 1:
			e.Reg = false
		default:
			e.It = false // (emitNode restores it when that would hide a tracked node)
		}
		g.emitNode(e)
	}
}

func (g *gstate) emitClaim(e Ev) {
	if !g.malf {
		if p, ok := g.claimPool[e.Name]; ok {
			e.Pool = p
		}
		if e.Pool == "" {
			e.Pool = "a"
		}
		e.Unmanaged = g.claimForeig[e.Name]
		if e.Term {
			e.Del = true
		}
		if g.launched[e.Name] && e.Pid == "" {
			e.Pid = "p" + e.Name[1:]
		}
	}
	if _, ok := g.claimPool[e.Name]; !ok {
		g.claimPool[e.Name] = e.Pool
		g.claimForeig[e.Name] = e.Unmanaged
	}
	if e.Pid != "" {
		g.launched[e.Name] = true
	}
	g.emit(e)
}

func (g *gstate) claimEvent() {
	r := g.r
	i := g.machine()
	name := "c" + itoa(i)
	cur := g.claims[name]
	if cur == nil {
		e := Ev{T: "claim", Name: name, Pool: pick(r, "a", "a", "b")}
		if r.Float64() < 0.03 {
			e.Pool = "" // only survives in a malformed stream
		}
		if r.Float64() < 0.6 {
			e.Pid = g.pidFor(i)
			e.Cap = g.capVec()
		}
		if r.Float64() < 0.04 {
			e.Unmanaged = true
		}
		g.emitClaim(e)
		return
	}
	x := r.Float64()
	switch {
	case x < 0.15:
		g.emit(Ev{T: "claimGone", Name: name})
	case x < 0.5:
		e := *cur
		if e.Pid == "" {
			e.Pid = g.pidFor(i)
			e.Cap = g.capVec()
		} else if !e.Del {
			e.Del = true
		} else {
			e.Term = true
		}
		g.emitClaim(e)
	case x < 0.7:
		e := *cur
		e.Cap = g.capVec()
		g.emitClaim(e)
	case x < 0.85: // a no-op update (status heartbeat): same content, new version
		e := *cur
		g.emitClaim(e)
	case x < 0.9:
		e := *cur
		if e.Pid == "p"+itoa(i) {
			e.Pid = "p" + itoa(i) + "b"
		} else {
			e.Pid = g.pidFor(i)
		}
		g.emitClaim(e)
	case x < 0.95:
		e := *cur
		e.Term = !e.Term
		g.emitClaim(e)
	default:
		e := *cur
		e.Pool = pick(r, "a", "b") // only survives in a malformed stream
		g.emitClaim(e)
	}
}

var portUniverse = []Port{{"", 80, "TCP"}, {"", 443, "TCP"}, {"10.0.0.1", 80, "TCP"}, {"10.0.0.2", 80, "TCP"}, {"10.0.0.1", 443, "UDP"}, {"", 80, "UDP"}, {"10.0.0.2", 443, "TCP"}}

func (g *gstate) podBody(e *Ev) {
	r := g.r
	e.Req = []int64{pick[int64](r, 0, 100, 250, 1000), pick[int64](r, 0, 128, 512), pick[int64](r, 0, 0, 0, 1)}
	if r.Float64() < 0.5 {
		e.Lm = []int64{pick[int64](r, 0, 200, 2000), pick[int64](r, 0, 256, 1024), pick[int64](r, 0, 0, 1)}
	}
	if ds, ok := g.podDs[e.Name]; ok && !g.malf {
		e.Ds = ds
	} else {
		e.Ds = r.Float64() < 0.25
		g.podDs[e.Name] = e.Ds
	}
	if r.Float64() < 0.5 {
		v := pick[int64](r, 0, 1, -1, 1<<26, -(1 << 27), -(1 << 28), 5<<27, 1<<31-1, -(1<<31 - 1), 12345678)
		e.Dc = &v
	}
	if r.Float64() < 0.4 {
		v := pick[int32](r, 0, 1000, -1000, 1<<25, -(1 << 26), 1000000000, -2147483648)
		e.Prio = &v
	}
	e.Ports = nil
	for r.Float64() < 0.35 && len(e.Ports) < 3 {
		e.Ports = append(e.Ports, pick(r, portUniverse...))
	}
	e.Vols = nil
	pv := 0.45
	if g.dense {
		pv = 0.65
	}
	for r.Float64() < pv && len(e.Vols) < 3 {
		e.Vols = append(e.Vols, g.pvcs[r.IntN(len(g.pvcs))].N)
	}
}

func (g *gstate) someNodeName() string {
	r := g.r
	x := r.Float64()
	switch {
	case x < 0.08:
		return ""
	case x < 0.12:
		return "nx" // a node that never exists
	}
	// prefer nodes that exist
	if len(g.nodes) > 0 && r.Float64() < 0.8 {
		names := sortedKeys(g.nodes)
		return names[r.IntN(len(names))]
	}
	return "n" + itoa(g.machine())
}

func (g *gstate) podEvent() {
	r := g.r
	name := "x" + itoa(1+r.IntN(g.np))
	cur := g.pods[name]
	if cur == nil {
		e := Ev{T: "pod", Name: name, Node: g.someNodeName()}
		g.podBody(&e)
		if e.Node == "" {
			e.Phase = "Pending"
		} else if r.Float64() < 0.05 {
			e.Phase = pick(r, "Succeeded", "Failed")
		}
		if r.Float64() < 0.04 {
			e.Del = true // first seen while already terminating
		}
		g.emit(e)
		return
	}
	x := r.Float64()
	switch {
	case x < 0.2:
		g.emit(Ev{T: "podGone", Name: name})
	case x < 0.32: // completes
		e := *cur
		e.Phase = pick(r, "Succeeded", "Failed")
		g.emit(e)
	case x < 0.44: // graceful deletion starts: deletionTimestamp set, phase and binding unchanged (stays set on later updates)
		e := *cur
		e.Del = true
		g.emit(e)
	case x < 0.56: // gets bound / stays
		e := *cur
		if e.Node == "" {
			e.Node = g.someNodeName()
			if e.Node != "" {
				e.Phase = ""
			}
		}
		g.emit(e)
	case x < 0.68: // annotation / priority / resize in place
		e := *cur
		keepNode, keepPhase := e.Node, e.Phase
		vols, ports := e.Vols, e.Ports
		g.podBody(&e)
		e.Node, e.Phase, e.Vols, e.Ports = keepNode, keepPhase, vols, ports
		g.emit(e)
	default: // deleted and recreated under the same name (the deletion itself is never delivered)
		e := Ev{T: "pod", Name: name, Node: g.someNodeName()}
		g.podBody(&e)
		if e.Node == "" {
			e.Phase = "Pending"
		}
		g.emit(e)
	}
}

// podReconcile: 22% of the deliveries of a pod that mounts volumes happen while PersistentVolume / StorageClass reads fail
// ("rpf": if the lookup is reached the reconcile returns the error and the key stays dirty, a later delivery retries it)
func (g *gstate) podReconcile(name string) {
	if p := g.pods[name]; p != nil && len(p.Vols) > 0 && g.r.Float64() < 0.22 {
		g.emit(Ev{T: "rpf", Name: name})
		return
	}
	g.emit(Ev{T: "rp", Name: name})
}

func (g *gstate) reconcileOne() {
	r := g.r
	if len(g.dirty) > 0 && r.Float64() < 0.85 {
		keys := sortedKeys(g.dirty)
		k := keys[r.IntN(len(keys))]
		if k[:1] == "p" {
			g.podReconcile(k[2:])
			return
		}
		g.emit(Ev{T: "r" + k[:1], Name: k[2:]})
		return
	}
	// a periodic / duplicate delivery of any key
	switch r.IntN(3) {
	case 0:
		g.emit(Ev{T: "rn", Name: "n" + itoa(g.machine())})
	case 1:
		g.emit(Ev{T: "rc", Name: "c" + itoa(g.machine())})
	default:
		g.podReconcile("x" + itoa(1+r.IntN(g.np)))
	}
}

func (g *gstate) settle() {
	keys := sortedKeys(g.dirty)
	g.r.Shuffle(len(keys), func(i, j int) { keys[i], keys[j] = keys[j], keys[i] })
	for _, k := range keys {
		g.emit(Ev{T: "r" + k[:1], Name: k[2:]})
	}
}

func (g *gstate) somePid() string {
	r := g.r
	pid := "p" + itoa(g.machine())
	if r.Float64() < 0.1 {
		pid += "b"
	}
	if r.Float64() < 0.1 {
		pid = "n" + itoa(g.machine()) // unmanaged nodes are keyed by their name
	}
	return pid
}

// markEvent: 40% of the mark / unmark events are ONE call with 2-4 provider ids (a multi-node disruption command): every
// machine's id in random order, with ids the cache never tracked ("pz") or no longer tracks mixed in at any position
func (g *gstate) markEvent() {
	r := g.r
	t := pick(r, "mark", "mark", "unmark", "nominate")
	if t != "nominate" && r.Float64() < 0.4 {
		var pids []string
		for i := 1; i <= g.nm; i++ {
			if r.Float64() < 0.85 {
				pids = append(pids, "p"+itoa(i))
			}
		}
		for len(pids) < 2 || (r.Float64() < 0.5 && len(pids) < 4) {
			pids = append(pids, pick(r, "pz", "pz", g.somePid(), "p"+itoa(g.machine())))
		}
		r.Shuffle(len(pids), func(i, j int) { pids[i], pids[j] = pids[j], pids[i] })
		g.emit(Ev{T: t, Pids: pids})
		return
	}
	g.emit(Ev{T: t, Pid: g.somePid()})
}

func genHistory(r *rand.Rand, t core.Tier) any {
	maxLen := 45
	if t == core.Thorough {
		maxLen = 160
	}
	g := &gstate{r: r, nodes: map[string]*Ev{}, claims: map[string]*Ev{}, pods: map[string]*Ev{}, dirty: map[string]bool{},
		obsNode: map[string]bool{}, launched: map[string]bool{}, claimPool: map[string]string{}, claimForeig: map[string]bool{}, podDs: map[string]bool{}}
	g.nm = 1 + r.IntN(3)
	g.np = 1 + r.IntN(5)
	g.malf = r.Float64() < 0.05
	g.pvcs = stdPvcs
	n := 8 + r.IntN(maxLen)
	// 30%: a dense history: 1-2 machines, 4-7 pod names, six claims of one CSI driver, limits 0..7, 80% pod events; starts with
	// a tracked node so that the pods land on it
	pNode, pClaim := 0.3, 0.55
	if !g.malf && r.Float64() < 0.3 {
		g.dense = true
		g.pvcs = densePvcs
		g.nm = 1 + r.IntN(2)
		g.np = 4 + r.IntN(4)
		n = 20 + r.IntN(maxLen)
		pNode, pClaim = 0.1, 0.18
		e := Ev{T: "node", Name: "n1", Pid: "p1", Cap: g.capVec(), Lim: g.limits(), It: true}
		if r.Float64() < 0.7 {
			e.Pool, e.Reg, e.Init = "a", true, true
		}
		g.emitNode(e)
		g.emit(Ev{T: "rn", Name: "n1"})
	}
	// a lazy informer (long dirty periods) or an eager one
	pRec := 0.25 + 0.4*r.Float64()
	for len(g.ev) < n {
		x := r.Float64()
		switch {
		case x < pRec:
			g.reconcileOne()
		case x < pRec+0.04:
			g.settle()
		case x < pRec+0.09:
			g.markEvent()
		default:
			y := r.Float64()
			switch {
			case y < pNode:
				g.nodeEvent()
			case y < pClaim:
				g.claimEvent()
			default:
				g.podEvent()
			}
		}
	}
	g.settle()
	return In{Pvcs: g.pvcs, Ev: g.ev}
}

// ---------- exhaustive small scope: every delivery order of the reconciles that settle a fixed API script ----------

type script struct {
	name string
	pvcs []Pvc // nil = stdPvcs
	pre  []Ev  // API changes and reconciles that are delivered in the given order
	// the keys left dirty by `pre` are then reconciled in every order
}

func pi64(v int64) *int64 { return &v }

func scripts() []script {
	capA := []int64{4000, 8192, 110, 0}
	capB := []int64{8000, 8192, 58, 1}
	lim1 := []Limit{{D: "csi-1", N: 1}}
	nodeFull := Ev{T: "node", Name: "n1", Pid: "p1", Pool: "a", It: true, Reg: true, Init: true, Cap: capA, Lim: lim1}
	claim := Ev{T: "claim", Name: "c1", Pid: "p1", Pool: "a", Cap: capB}
	podA := Ev{T: "pod", Name: "x1", Node: "n1", Req: []int64{100, 128, 0}, Ports: []Port{{"", 80, "TCP"}}, Vols: []string{"pvc-a"}, Dc: pi64(1 << 27)}
	podDs := Ev{T: "pod", Name: "x2", Node: "n1", Req: []int64{250, 0, 0}, Ds: true}
	with := func(e Ev, f func(*Ev)) Ev { f(&e); return e }
	nodeLim3 := with(nodeFull, func(e *Ev) { e.Lim = []Limit{{D: "csi-1", N: 3}} })
	podVol := func(name, pvc string) Ev {
		return Ev{T: "pod", Name: name, Node: "n1", Req: []int64{100, 128, 0}, Vols: []string{pvc}}
	}
	return []script{
		{name: "create-all", pre: []Ev{claim, nodeFull, podA, podDs}},
		{name: "claim-update-after-settle", pre: []Ev{claim, nodeFull, podA, podDs, {T: "rc", Name: "c1"}, {T: "rn", Name: "n1"}, {T: "rp", Name: "x1"}, {T: "rp", Name: "x2"},
			with(claim, func(e *Ev) { e.Cap = capA }), with(podA, func(e *Ev) { e.Req = []int64{1000, 512, 1} })}},
		{name: "node-gets-provider-id", pre: []Ev{with(nodeFull, func(e *Ev) { e.Pid = ""; e.Pool = "" }), podA, {T: "rn", Name: "n1"}, {T: "rp", Name: "x1"},
			with(nodeFull, func(e *Ev) { e.Pool = "" }), claim, podDs}},
		{name: "pod-moves-to-other-node", pre: []Ev{nodeFull, with(nodeFull, func(e *Ev) { e.Name = "n2"; e.Pid = "p2" }), podA, {T: "rn", Name: "n1"}, {T: "rn", Name: "n2"}, {T: "rp", Name: "x1"},
			with(podA, func(e *Ev) { e.Node = "n2"; e.Vols = []string{"pvc-b"} }), with(nodeFull, func(e *Ev) { e.Cap = capB })}},
		{name: "delete-everything", pre: []Ev{claim, nodeFull, podA, podDs, {T: "rc", Name: "c1"}, {T: "rn", Name: "n1"}, {T: "rp", Name: "x1"}, {T: "rp", Name: "x2"}, {T: "mark", Pid: "p1"},
			{T: "podGone", Name: "x1"}, {T: "podGone", Name: "x2"}, {T: "nodeGone", Name: "n1"}, {T: "claimGone", Name: "c1"}}},
		{name: "claim-deleting-node-stays", pre: []Ev{claim, nodeFull, podA, {T: "rc", Name: "c1"}, {T: "rn", Name: "n1"}, {T: "rp", Name: "x1"}, {T: "nominate", Pid: "p1"},
			with(claim, func(e *Ev) { e.Del = true }), with(nodeFull, func(e *Ev) { e.Del = true }), with(podA, func(e *Ev) { e.Phase = "Succeeded" })}},
		// a gracefully terminating pod (deletionTimestamp set, still Running and bound) keeps counting, whichever of the Pod
		// and Node deliveries comes last
		{name: "pods-terminating", pre: []Ev{claim, nodeFull, podA, podDs, {T: "rc", Name: "c1"}, {T: "rn", Name: "n1"}, {T: "rp", Name: "x1"}, {T: "rp", Name: "x2"},
			with(podA, func(e *Ev) { e.Del = true }), with(podDs, func(e *Ev) { e.Del = true }), with(nodeFull, func(e *Ev) { e.Cap = capB })}},
		{name: "pod-first-seen-terminating", pre: []Ev{nodeFull, with(podA, func(e *Ev) { e.Del = true }), with(podVol("x3", "pvc-b"), func(e *Ev) { e.Del = true }), claim}},
		// several pods mounting different volumes of ONE driver on one node; the pods go away one by one with only Pod deliveries
		{name: "volumes-one-driver-pods-leave", pvcs: densePvcs, pre: []Ev{nodeLim3, podVol("x1", "pvc-a"), podVol("x2", "pvc-b"), podVol("x3", "pvc-e"), podVol("x4", "pvc-g"),
			{T: "rn", Name: "n1"}, {T: "rp", Name: "x1"}, {T: "rp", Name: "x2"}, {T: "rp", Name: "x3"}, {T: "rp", Name: "x4"},
			{T: "podGone", Name: "x1"}, {T: "podGone", Name: "x2"}, with(podVol("x3", "pvc-e"), func(e *Ev) { e.Phase = "Succeeded" })}},
		// ... and with a re-delivered / changed pod in between (VolumeUsage.Add of a tracked key)
		{name: "volumes-one-driver-pod-readded", pvcs: densePvcs, pre: []Ev{nodeLim3, podVol("x1", "pvc-a"), podVol("x2", "pvc-b"), podVol("x3", "pvc-e"), podVol("x4", "pvc-g"),
			{T: "rn", Name: "n1"}, {T: "rp", Name: "x1"}, {T: "rp", Name: "x2"}, {T: "rp", Name: "x3"}, {T: "rp", Name: "x4"},
			podVol("x1", "pvc-f"), {T: "podGone", Name: "x2"}, {T: "podGone", Name: "x4"}}},
		// ONE MarkForDeletion call with several provider ids, one of which is no longer tracked (its Node went away between
		// candidate selection and marking), at the front / in the middle of the list; then one UnmarkForDeletion call
		{name: "mark-many-untracked-first", pre: []Ev{claim, with(claim, func(e *Ev) { e.Name = "c3"; e.Pid = "p3" }), nodeFull, with(nodeFull, func(e *Ev) { e.Name = "n2"; e.Pid = "p2" }), with(nodeFull, func(e *Ev) { e.Name = "n3"; e.Pid = "p3" }),
			{T: "rc", Name: "c1"}, {T: "rc", Name: "c3"}, {T: "rn", Name: "n1"}, {T: "rn", Name: "n2"}, {T: "rn", Name: "n3"}, {T: "nodeGone", Name: "n2"}, {T: "rn", Name: "n2"},
			{T: "mark", Pids: []string{"p2", "p1", "p3"}}, {T: "unmark", Pids: []string{"pz", "p3", "p1"}}, {T: "mark", Pids: []string{"p1", "p2", "p3"}}, podA}},
		// the volume lookup fails when the pod is first observed; the pod then goes away / moves / the lookup is retried
		{name: "volume-lookup-fails-pod-leaves", pre: []Ev{nodeFull, {T: "rn", Name: "n1"}, podA, {T: "rpf", Name: "x1"}, {T: "podGone", Name: "x1"}, podDs}},
		{name: "volume-lookup-fails-pod-moves", pre: []Ev{nodeFull, with(nodeFull, func(e *Ev) { e.Name = "n2"; e.Pid = "p2" }), {T: "rn", Name: "n1"}, {T: "rn", Name: "n2"}, podA, {T: "rpf", Name: "x1"},
			with(podA, func(e *Ev) { e.Node = "n2" }), {T: "rpf", Name: "x1"}, podDs}},
		{name: "volume-lookup-fails-then-retried", pre: []Ev{nodeFull, {T: "rn", Name: "n1"}, podA, {T: "rp", Name: "x1"}, with(podA, func(e *Ev) { e.Req = []int64{1000, 512, 1}; e.Vols = []string{"pvc-b"} }), {T: "rpf", Name: "x1"},
			with(podA, func(e *Ev) { e.Phase = "Succeeded" }), {T: "rpf", Name: "x1"}, podDs}},
		{name: "registration", pre: []Ev{claim, {T: "rc", Name: "c1"}, with(nodeFull, func(e *Ev) { e.Reg = false; e.Init = false; e.Cap = []int64{0, 0, 0, 0} }), podDs, {T: "rn", Name: "n1"},
			with(nodeFull, func(e *Ev) { e.Init = false }), podA, with(claim, func(e *Ev) {})}},
	}
}

func permutations(xs []string) [][]string {
	if len(xs) <= 1 {
		return [][]string{append([]string{}, xs...)}
	}
	var out [][]string
	for i := range xs {
		rest := append(append([]string{}, xs[:i]...), xs[i+1:]...)
		for _, p := range permutations(rest) {
			out = append(out, append([]string{xs[i]}, p...))
		}
	}
	return out
}

func enumHistory(core.Tier) []any {
	var out []any
	for _, s := range scripts() {
		dirty := map[string]bool{}
		for _, e := range s.pre {
			if isAPI(e.T) {
				dirty[kindOf(e.T)+"/"+e.Name] = true
			} else if k := kindOf(e.T); k != "" && e.T != "rpf" {
				delete(dirty, k+"/"+e.Name) // (a faulty pod delivery leaves the key to be retried)
			}
		}
		keys := sortedKeys(dirty)
		sort.Strings(keys)
		for _, perm := range permutations(keys) {
			ev := append([]Ev{}, s.pre...)
			for _, k := range perm {
				ev = append(ev, Ev{T: "r" + k[:1], Name: k[2:]})
			}
			pvcs := s.pvcs
			if pvcs == nil {
				pvcs = stdPvcs
			}
			out = append(out, In{Pvcs: pvcs, Ev: ev})
		}
	}
	return out
}
