package c09

import (
	"encoding/json"

	"verifharness/internal/core"
	"verifharness/internal/registry"
)

func init() { registry.Register("C09", Ops) }

func Ops() []*core.Op {
	return []*core.Op{
		{
			Name: "c09.node",
			Doc:  "one Reconcile of the REAL node termination controller (finalize: claim delete, instance-gone shortcut, taint, awaitDrain, awaitVolumeDetachment, awaitInstanceTermination, status patch, finalizer removal) on the fake client + wrapped fake provider with per-call fault injection (provider Get / Delete fail as a plain error, a crash, or a near miss of 'instance not found': wrapped or bare API NotFound / Conflict / Gone for another object, NodeClassNotReady, InsufficientCapacity, context deadline, a 'not found' message; or answer honestly inside a wrapping error); action log, result, end state and the ground-truth snapshot at every finalizer removal",
			N: func(t core.Tier) int {
				if t == core.Thorough {
					return 30000
				}
				return 2500
			},
			Gen:  genNode,
			Enum: enumNode,
			Impl: implNode,
			Rule: "non-trivial = the reconcile got past the guards (at least one effectful call was made); distinct = distinct inputs",
			Nontrivial: func(_ json.RawMessage, impl any) bool {
				o, ok := impl.(map[string]any)
				return ok && len(nodeReached(o)) > 0
			},
			Labels:         nodeLabels,
			Signature:      nodeSignature,
			Shrink:         shrinkNode,
			ExhaustiveNote: "single-claim matrix ready x instance x taint x Drained state/age x pod case x attachment case (none, blocking, of an undrainable pod, inline, deleted-but-held by the attacher's finalizer, not attached, detach failing) x deadline (7056 states) + every single fault position x class on 60 base states (incl. a lingering deleted attachment with and without an expired deadline)",
		},
		{
			Name: "c09.claim",
			Doc:  "one Reconcile of the REAL NodeClaim lifecycle controller: finalize (grace-period annotation, wait for / delete the Nodes of a registered claim, provider Delete until NotFound, InstanceTerminating patch, finalizer removal) and, for a fresh claim, the launch path that precedes it (finalizer patch, provider Create, persisting patches), with per-call fault injection; action log, result, end state and the ground-truth snapshot at every finalizer removal",
			N: func(t core.Tier) int {
				if t == core.Thorough {
					return 30000
				}
				return 2500
			},
			Gen:  genClaim,
			Enum: enumClaim,
			Impl: implClaim,
			Rule: "non-trivial = at least one effectful call was made; distinct = distinct inputs",
			Nontrivial: func(_ json.RawMessage, impl any) bool {
				o, ok := impl.(map[string]any)
				return ok && len(nodeReached(o)) > 0
			},
			Labels:         claimLabels,
			Signature:      func(json.RawMessage, any) string { return "claim" },
			Shrink:         shrinkClaim,
			ExhaustiveNote: "registered x instance x node case (incl. the claim's Nodes existing only under a name other than status.nodeName) x InstanceTerminating x annotation (486 states) + every single fault position x class on 6 base states + launch path x every fault",
		},
		{
			Name: "c09.protocol",
			Doc:  "whole deletion histories: the REAL node termination controller and the REAL NodeClaim lifecycle controller (incl. the launch that precedes a deletion) reconciling in arbitrary order on one fake API + provider, interleaved with environment events (user deletes, pods leaving / terminating / arriving late, attachments detaching at once or lingering in deletion behind the attacher's finalizer / appearing late, clock, instance disappearing, kubelet not ready, process restart) and per-call faults / crashes; the Lean transition system is compared after every event, the specification judges the ground truth at every finalizer removal and provider Delete, and every state is checked for an orphaned instance",
			N: func(t core.Tier) int {
				if t == core.Thorough {
					return 12000
				}
				return 1200
			},
			Gen:            genProto,
			Enum:           enumProto,
			Impl:           implProto,
			Rule:           "non-trivial = the history reaches the instance stage (the provider is asked to terminate the instance, or a finalizer is removed); distinct = distinct histories",
			Nontrivial:     protoNontrivial,
			Labels:         protoLabels,
			Signature:      func(json.RawMessage, any) string { return "protocol" },
			Shrink:         shrinkProto,
			ExhaustiveNote: "11 scripted histories (two with attachments that linger in deletion, one with an attachment that appears late) x every reconcile event x every fault kind x class injected at that event alone; thorough: + a restart before every event, + every pair of reconcile events x 4x4 failing call kinds",
		},
	}
}
