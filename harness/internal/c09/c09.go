// Package c09: correspondence ops for C09 (stub, not yet built).
package c09

import (
	"verifharness/internal/core"
	"verifharness/internal/registry"
)

func init() { registry.Register("C09", Ops) }

func Ops() []*core.Op { return nil }
