// Package c09: ordered finalization of Nodes / NodeClaims and instance-leak freedom.
//
// The REAL node termination controller (pkg/controllers/node/termination) and the REAL NodeClaim lifecycle
// controller (pkg/controllers/nodeclaim/lifecycle; finalize path and the launch path that precedes it) run on
// the controller-runtime fake client with a fault-injecting, call-classifying interceptor, a fake clock and a
// cloud provider that wraps pkg/cloudprovider/fake (instances terminate asynchronously, as real ones do).
// Whenever a patch removes the termination finalizer of the Node or of the NodeClaim, the interceptor takes a
// snapshot of the ground truth at that instant (taint, pods, volume attachments, provider instance, Nodes of the
// claim); the independent Lean specification (Karp/Spec/Finalize.lean) judges the snapshots, and the Lean model
// (Karp/Model/Term.lean) is compared with what the controllers did.
package c09

import (
	"context"
	"errors"
	"fmt"
	"sort"
	"time"

	"github.com/awslabs/operatorpkg/status"
	"github.com/go-logr/logr"
	corev1 "k8s.io/api/core/v1"
	policyv1 "k8s.io/api/policy/v1"
	storagev1 "k8s.io/api/storage/v1"
	apierrors "k8s.io/apimachinery/pkg/api/errors"
	metav1 "k8s.io/apimachinery/pkg/apis/meta/v1"
	"k8s.io/apimachinery/pkg/runtime"
	"k8s.io/apimachinery/pkg/runtime/schema"
	"k8s.io/apimachinery/pkg/runtime/serializer"
	"k8s.io/apimachinery/pkg/types"
	k8stesting "k8s.io/client-go/testing"
	clocktesting "k8s.io/utils/clock/testing"
	"sigs.k8s.io/controller-runtime/pkg/client"
	"sigs.k8s.io/controller-runtime/pkg/client/fake"
	"sigs.k8s.io/controller-runtime/pkg/client/interceptor"
	crlog "sigs.k8s.io/controller-runtime/pkg/log"
	"sigs.k8s.io/controller-runtime/pkg/reconcile"

	_ "sigs.k8s.io/karpenter/pkg/apis"
	v1 "sigs.k8s.io/karpenter/pkg/apis/v1"
	"sigs.k8s.io/karpenter/pkg/cloudprovider"
	fakecp "sigs.k8s.io/karpenter/pkg/cloudprovider/fake"
	"sigs.k8s.io/karpenter/pkg/controllers/node/termination"
	"sigs.k8s.io/karpenter/pkg/controllers/node/termination/terminator"
	"sigs.k8s.io/karpenter/pkg/controllers/nodeclaim/lifecycle"
	"sigs.k8s.io/karpenter/pkg/operator/options"
	"sigs.k8s.io/karpenter/pkg/state/nodepoolhealth"
	"sigs.k8s.io/karpenter/pkg/test"
)

func init() { crlog.SetLogger(logr.Discard()) }

// All times in the protocol are int64 nanoseconds relative to t0. Object timestamps are whole seconds (the API
// stores RFC3339 seconds); the clock has nanosecond resolution.
var t0 = time.Date(2026, 1, 1, 0, 0, 0, 0, time.UTC)

const (
	second  = int64(time.Second)
	nodeNm  = "node-0"
	otherNd = "node-other"
	claimNm = "claim-0"
	thePID  = "fake://instance-0"
	ns      = "default"
	lbLabel = corev1.LabelNodeExcludeBalancers
)

func at(n int64) time.Time     { return t0.Add(time.Duration(n)) }
func mt(n int64) metav1.Time   { return metav1.NewTime(at(n)) }
func rel(t time.Time) int64    { return int64(t.Sub(t0)) }
func floorSec(n int64) int64   { return n - ((n%second)+second)%second }
func baseCtx() context.Context { return options.ToContext(context.Background(), test.Options()) }

// ---------------------------------------------------------------- scheme / store

var clientScheme = func() *runtime.Scheme {
	s := runtime.NewScheme()
	for _, f := range []func(*runtime.Scheme) error{corev1.AddToScheme, storagev1.AddToScheme, policyv1.AddToScheme} {
		if err := f(s); err != nil {
			panic(err)
		}
	}
	gv := schema.GroupVersion{Group: "karpenter.sh", Version: "v1"}
	s.AddKnownTypes(gv, &v1.NodePool{}, &v1.NodePoolList{}, &v1.NodeClaim{}, &v1.NodeClaimList{})
	metav1.AddToGroupVersion(s, gv)
	return s
}()

var (
	gvrNode  = schema.GroupVersionResource{Group: "", Version: "v1", Resource: "nodes"}
	gvrPod   = schema.GroupVersionResource{Group: "", Version: "v1", Resource: "pods"}
	gvrClaim = schema.GroupVersionResource{Group: "karpenter.sh", Version: "v1", Resource: "nodeclaims"}
	gvrVA    = schema.GroupVersionResource{Group: "storage.k8s.io", Version: "v1", Resource: "volumeattachments"}
)

// crash is the sentinel panic raised by an injected "crash" fault: the process dies at that call.
type crash struct{}

func faultErr(class, name string) error {
	switch class {
	case "", "none":
		return nil
	case "notfound":
		return apierrors.NewNotFound(schema.GroupResource{Group: "karpenter.sh", Resource: "injected"}, name)
	case "conflict":
		return apierrors.NewConflict(schema.GroupResource{Group: "karpenter.sh", Resource: "injected"}, name, errors.New("injected conflict"))
	case "crash":
		panic(crash{})
	default:
		return apierrors.NewInternalError(errors.New("injected failure"))
	}
}

// ---------------------------------------------------------------- provider

// provider wraps the repository's fake cloud provider. Create is the fake's own; Delete follows the documented
// contract (nil when termination was triggered, NodeClaimNotFound when the instance is already gone) but the
// instance stays "terminating" until the environment finishes it (instGone), as a real instance does.
type provider struct {
	*fakecp.CloudProvider
	w           *world
	terminating map[string]bool
	// created: provider ids ever created through Create, by NodeClaim name (ground truth for "was launched")
	created map[string][]string
}

func (p *provider) state(pid string) string {
	if _, ok := p.CloudProvider.CreatedNodeClaims[pid]; !ok {
		return "gone"
	}
	if p.terminating[pid] {
		return "terminating"
	}
	return "running"
}

func (p *provider) Create(ctx context.Context, nc *v1.NodeClaim) (*v1.NodeClaim, error) {
	p.w.log("providerCreate")
	switch p.w.fault("providerCreate") {
	case "":
	case "crash":
		panic(crash{})
	case "ice":
		return nil, cloudprovider.NewInsufficientCapacityError(errors.New("injected ICE"))
	case "ncnr":
		return nil, cloudprovider.NewNodeClassNotReadyError(errors.New("injected nodeclass not ready"))
	default:
		return nil, errors.New("injected provider create failure")
	}
	out, err := p.CloudProvider.Create(ctx, nc)
	if err == nil {
		p.created[nc.Name] = append(p.created[nc.Name], out.Status.ProviderID)
	}
	return out, err
}

// providerErr: the error a failing provider call returns, by class. Besides a plain error, the near misses of the
// provider's "instance not found" answer: errors that are (or wrap) a Kubernetes API NotFound / Conflict for some
// OTHER object (the NodeClass the provider could not resolve), the provider's other typed errors, a context error,
// and a NotFound-looking message without the type. None of them says that the instance is gone.
func providerErr(class, call string) error {
	nodeClass := schema.GroupResource{Group: "karpenter.test.sh", Resource: "testnodeclasses"}
	switch class {
	case "apiNotFound":
		return fmt.Errorf("resolving nodeclass, %w", apierrors.NewNotFound(nodeClass, "default"))
	case "apiNotFoundBare":
		return apierrors.NewNotFound(nodeClass, "default")
	case "apiConflict":
		return fmt.Errorf("updating nodeclass, %w", apierrors.NewConflict(nodeClass, "default", errors.New("injected conflict")))
	case "apiGone":
		return fmt.Errorf("listing instances, %w", apierrors.NewResourceExpired("injected: resource version too old"))
	case "ncnr":
		return fmt.Errorf("%s, %w", call, cloudprovider.NewNodeClassNotReadyError(errors.New("injected nodeclass not ready")))
	case "ice":
		return cloudprovider.NewInsufficientCapacityError(errors.New("injected ICE"))
	case "ctx":
		return fmt.Errorf("%s, %w", call, context.DeadlineExceeded)
	case "notFoundText":
		return fmt.Errorf("%s, nodeclaim not found", call)
	}
	return fmt.Errorf("injected provider %s failure", call)
}

// honestClass: fault classes that leave the provider's honest answer in place ("wrapnf": a genuine not-found answer is
// returned wrapped in another error, which errors.As still sees through)
func wrapAnswer(class string, err error) error {
	if class == "wrapnf" && err != nil {
		return fmt.Errorf("provider call, %w", err)
	}
	return err
}

func (p *provider) Get(ctx context.Context, id string) (*v1.NodeClaim, error) {
	p.w.log("providerGet")
	class := p.w.fault("providerGet")
	switch class {
	case "", "wrapnf":
	case "crash":
		panic(crash{})
	default:
		return nil, providerErr(class, "get")
	}
	out, err := p.CloudProvider.Get(ctx, id)
	return out, wrapAnswer(class, err)
}

func (p *provider) Delete(ctx context.Context, nc *v1.NodeClaim) error {
	p.w.log("providerDelete")
	if p.w.armed && p.w.current == "node" {
		// ground truth at the instant the node termination controller asks for the instance to be terminated
		if n := p.w.node(nodeNm); n != nil {
			s := p.w.snapshot(n)
			s.Kind = "instanceDelete"
			p.w.asked = append(p.w.asked, *s)
		}
	}
	class := p.w.fault("providerDelete")
	switch class {
	case "", "wrapnf":
	case "crash":
		panic(crash{})
	default:
		return providerErr(class, "delete")
	}
	pid := nc.Status.ProviderID
	if _, ok := p.CloudProvider.CreatedNodeClaims[pid]; ok {
		p.terminating[pid] = true // termination triggered; the instance is still there
		return nil
	}
	return wrapAnswer(class, p.CloudProvider.Delete(ctx, nc)) // NodeClaimNotFound
}

// ---------------------------------------------------------------- world

type world struct {
	clk     *clocktesting.FakeClock
	ot      k8stesting.ObjectTracker
	c       client.Client
	cp      *provider
	queue   *terminator.Queue
	term    *termination.Controller
	life    *lifecycle.Controller
	faults  map[string]string
	counts  map[string]int
	calls   []string
	removed []Snapshot
	asked   []Snapshot // snapshots at provider Delete calls made by the node termination controller
	armed   bool
	current string // which controller is reconciling: "node" | "claim"
}

// Snapshot is the ground truth at the instant a finalizer-removing patch was applied.
type Snapshot struct {
	Kind string `json:"kind"` // "node" | "claim"
	Now  int64  `json:"now"`
	// node facts
	Tainted bool   `json:"tainted"`
	Ready   string `json:"ready"`
	Claims  int    `json:"claims"` // NodeClaims whose status.providerID equals the Node's
	// TermTime: the termination deadline carried by the (single) claim's annotation, if any and well-formed
	TermTime *int64    `json:"termTime"`
	Pods     []PodFact `json:"pods"` // pods bound to the node
	VAs      []string  `json:"vas"`  // volume attachments of the node (names): every object that exists in the store
	// VAsTerminating: those of VAs that carry a deletionTimestamp (held by a finalizer; they still exist)
	VAsTerminating []string `json:"vasTerminating"`
	Instance string    `json:"instance"`
	// Lost: an instance launched for the claim, other than the one its status.providerID names, still exists
	Lost bool `json:"lost"`
	// claim facts
	Registered string `json:"registered"`
	Nodes      int    `json:"nodes"` // Nodes whose spec.providerID equals the claim's status.providerID
	PIDSet     bool   `json:"pidSet"`
	// Launched: the provider ever created an instance for this claim (ground truth, not the claim's status)
	Launched bool `json:"launched"`
}

type PodFact struct {
	Name      string `json:"name"`
	Phase     string `json:"phase"`
	DeletedAt *int64 `json:"deletedAt"`
}

func (w *world) log(kind string) {
	if w.armed {
		w.calls = append(w.calls, kind)
	}
}

// fault returns the class injected for this occurrence of the call kind in the current reconcile
// (keys "kind" = every occurrence, "kind#i" = the i-th occurrence only).
func (w *world) fault(kind string) string {
	if !w.armed {
		return ""
	}
	i := w.counts[kind]
	w.counts[kind] = i + 1
	if f, ok := w.faults[fmt.Sprintf("%s#%d", kind, i)]; ok {
		return f
	}
	return w.faults[kind]
}

func hasFinalizer(o metav1.Object) bool {
	for _, f := range o.GetFinalizers() {
		if f == v1.TerminationFinalizer {
			return true
		}
	}
	return false
}

func isTainted(n *corev1.Node) bool {
	for _, t := range n.Spec.Taints {
		if t.Key == v1.DisruptedTaintKey && t.Effect == corev1.TaintEffectNoSchedule {
			return true
		}
	}
	return false
}

func newWorld(now int64, objs ...client.Object) *world {
	w := &world{clk: clocktesting.NewFakeClock(at(now)), faults: map[string]string{}, counts: map[string]int{}}
	w.ot = k8stesting.NewObjectTracker(clientScheme, serializer.NewCodecFactory(clientScheme).UniversalDecoder())
	w.c = fake.NewClientBuilder().
		WithScheme(clientScheme).
		WithObjectTracker(w.ot).
		WithObjects(objs...).
		WithStatusSubresource(&v1.NodeClaim{}, &v1.NodePool{}).
		WithIndex(&corev1.Pod{}, "spec.nodeName", func(o client.Object) []string { return []string{o.(*corev1.Pod).Spec.NodeName} }).
		WithIndex(&storagev1.VolumeAttachment{}, "spec.nodeName", func(o client.Object) []string { return []string{o.(*storagev1.VolumeAttachment).Spec.NodeName} }).
		WithIndex(&corev1.Node{}, "spec.providerID", func(o client.Object) []string { return []string{o.(*corev1.Node).Spec.ProviderID} }).
		WithIndex(&v1.NodeClaim{}, "status.providerID", func(o client.Object) []string { return []string{o.(*v1.NodeClaim).Status.ProviderID} }).
		WithInterceptorFuncs(w.interceptors()).
		Build()
	w.cp = &provider{CloudProvider: fakecp.NewCloudProvider(), w: w, terminating: map[string]bool{}, created: map[string][]string{}}
	w.restart()
	return w
}

// restart: the controller process restarts; everything held in memory (eviction queue, launch cache) is lost.
func (w *world) restart() {
	rec := test.NewEventRecorder()
	w.queue = terminator.NewQueue(w.clk, w.c, rec)
	w.term = termination.NewController(w.clk, w.c, w.cp, terminator.NewTerminator(w.clk, w.c, w.queue, rec), rec)
	w.life = lifecycle.NewController(w.clk, w.c, w.cp, rec, nodepoolhealth.NewState(), nil)
}

func (w *world) interceptors() interceptor.Funcs {
	return interceptor.Funcs{
		Get: func(ctx context.Context, c client.WithWatch, key client.ObjectKey, obj client.Object, opts ...client.GetOption) error {
			if _, ok := obj.(*corev1.PersistentVolumeClaim); ok {
				if err := faultErr(w.fault("getPVC"), key.Name); err != nil {
					return err
				}
			}
			return c.Get(ctx, key, obj, opts...)
		},
		List: func(ctx context.Context, c client.WithWatch, list client.ObjectList, opts ...client.ListOption) error {
			kind := ""
			switch list.(type) {
			case *v1.NodeClaimList:
				kind = "listClaims"
			case *corev1.NodeList:
				kind = "listNodes"
			case *corev1.PodList:
				kind = "listPods"
			case *storagev1.VolumeAttachmentList:
				kind = "listVAs"
			}
			if kind != "" {
				if err := faultErr(w.fault(kind), kind); err != nil {
					return err
				}
			}
			return c.List(ctx, list, opts...)
		},
		Delete: func(ctx context.Context, c client.WithWatch, obj client.Object, opts ...client.DeleteOption) error {
			kind := ""
			switch obj.(type) {
			case *v1.NodeClaim:
				kind = "deleteClaim"
			case *corev1.Node:
				kind = "deleteNode"
			}
			if kind != "" && w.armed {
				w.log(kind)
				if err := faultErr(w.fault(kind), obj.GetName()); err != nil {
					return err
				}
			}
			prev := w.deletionTimestampOf(obj)
			if err := c.Delete(ctx, obj, opts...); err != nil {
				return err
			}
			w.normalizeDeletion(obj, prev)
			return nil
		},
		Patch: func(ctx context.Context, c client.WithWatch, obj client.Object, patch client.Patch, opts ...client.PatchOption) error {
			kind, removal := w.classifyPatch(obj)
			if w.armed {
				w.log(kind)
				if err := faultErr(w.fault(kind), obj.GetName()); err != nil {
					return err
				}
			}
			var snap *Snapshot
			if removal && w.armed {
				snap = w.snapshot(obj)
			}
			if err := c.Patch(ctx, obj, patch, opts...); err != nil {
				return err
			}
			if snap != nil {
				w.removed = append(w.removed, *snap)
			}
			return nil
		},
		SubResourcePatch: func(ctx context.Context, c client.Client, sub string, obj client.Object, patch client.Patch, opts ...client.SubResourcePatchOption) error {
			if _, ok := obj.(*v1.NodeClaim); ok && sub == "status" && w.armed {
				w.log("patchClaimStatus")
				if err := faultErr(w.fault("patchClaimStatus"), obj.GetName()); err != nil {
					return err
				}
			}
			return c.SubResource(sub).Patch(ctx, obj, patch, opts...)
		},
	}
}

// classifyPatch names a main-resource patch by what it changes relative to the stored object.
func (w *world) classifyPatch(obj client.Object) (kind string, removesFinalizer bool) {
	switch o := obj.(type) {
	case *corev1.Node:
		cur := w.node(o.Name)
		if cur != nil && hasFinalizer(cur) && !hasFinalizer(o) {
			return "removeNodeFinalizer", true
		}
		return "patchNode", false
	case *v1.NodeClaim:
		cur := w.claim(o.Name)
		switch {
		case cur != nil && hasFinalizer(cur) && !hasFinalizer(o):
			return "removeClaimFinalizer", true
		case cur != nil && !hasFinalizer(cur) && hasFinalizer(o):
			return "addClaimFinalizer", false
		case cur != nil && cur.Annotations[v1.NodeClaimTerminationTimestampAnnotationKey] != o.Annotations[v1.NodeClaimTerminationTimestampAnnotationKey]:
			return "annotateClaim", false
		}
		return "patchClaim", false
	}
	return "patchOther", false
}

// normalizeDeletion rewrites the deletionTimestamp the fake client took from the wall clock to the fake clock
// (whole seconds), so that runs are deterministic.
func (w *world) deletionTimestampOf(obj client.Object) *metav1.Time {
	switch o := obj.(type) {
	case *v1.NodeClaim:
		if cur := w.claim(o.Name); cur != nil {
			return cur.DeletionTimestamp
		}
	case *corev1.Node:
		if cur := w.node(o.Name); cur != nil {
			return cur.DeletionTimestamp
		}
	}
	return nil
}

// (an object that was already being deleted keeps its deletionTimestamp, as on a real API server)
func (w *world) normalizeDeletion(obj client.Object, prev *metav1.Time) {
	ts := mt(floorSec(rel(w.clk.Now())))
	if prev != nil {
		ts = *prev
	}
	switch o := obj.(type) {
	case *v1.NodeClaim:
		if cur := w.claim(o.Name); cur != nil && cur.DeletionTimestamp != nil {
			cur.DeletionTimestamp = &ts
			must(w.ot.Update(gvrClaim, cur, ""))
		}
	case *corev1.Node:
		if cur := w.node(o.Name); cur != nil && cur.DeletionTimestamp != nil {
			cur.DeletionTimestamp = &ts
			must(w.ot.Update(gvrNode, cur, ""))
		}
	}
}

func must(err error) {
	if err != nil {
		panic(fmt.Sprintf("harness: %v", err))
	}
}

// ---- raw store access (not through the interceptor)

func (w *world) node(name string) *corev1.Node {
	o, err := w.ot.Get(gvrNode, "", name)
	if err != nil {
		return nil
	}
	return o.(*corev1.Node).DeepCopy()
}

func (w *world) claim(name string) *v1.NodeClaim {
	o, err := w.ot.Get(gvrClaim, "", name)
	if err != nil {
		return nil
	}
	return o.(*v1.NodeClaim).DeepCopy()
}

func (w *world) claims() []*v1.NodeClaim {
	o, err := w.ot.List(gvrClaim, schema.GroupVersionKind{Group: "karpenter.sh", Version: "v1", Kind: "NodeClaim"}, "")
	must(err)
	var out []*v1.NodeClaim
	l := o.(*v1.NodeClaimList)
	for i := range l.Items {
		out = append(out, l.Items[i].DeepCopy())
	}
	sort.Slice(out, func(i, j int) bool { return out[i].Name < out[j].Name })
	return out
}

func (w *world) nodes() []*corev1.Node {
	o, err := w.ot.List(gvrNode, schema.GroupVersionKind{Version: "v1", Kind: "Node"}, "")
	must(err)
	var out []*corev1.Node
	l := o.(*corev1.NodeList)
	for i := range l.Items {
		out = append(out, l.Items[i].DeepCopy())
	}
	sort.Slice(out, func(i, j int) bool { return out[i].Name < out[j].Name })
	return out
}

func (w *world) pods() []*corev1.Pod {
	o, err := w.ot.List(gvrPod, schema.GroupVersionKind{Version: "v1", Kind: "Pod"}, ns)
	must(err)
	var out []*corev1.Pod
	l := o.(*corev1.PodList)
	for i := range l.Items {
		out = append(out, l.Items[i].DeepCopy())
	}
	sort.Slice(out, func(i, j int) bool { return out[i].Name < out[j].Name })
	return out
}

func (w *world) vas() []*storagev1.VolumeAttachment {
	o, err := w.ot.List(gvrVA, schema.GroupVersionKind{Group: "storage.k8s.io", Version: "v1", Kind: "VolumeAttachment"}, "")
	must(err)
	var out []*storagev1.VolumeAttachment
	l := o.(*storagev1.VolumeAttachmentList)
	for i := range l.Items {
		out = append(out, l.Items[i].DeepCopy())
	}
	sort.Slice(out, func(i, j int) bool { return out[i].Name < out[j].Name })
	return out
}

func readyOf(n *corev1.Node) string {
	for _, c := range n.Status.Conditions {
		if c.Type == corev1.NodeReady {
			return string(c.Status)
		}
	}
	return ""
}

func condOf(nc *v1.NodeClaim, t string) string {
	for _, c := range nc.Status.Conditions {
		if c.Type == t {
			return string(c.Status)
		}
	}
	return ""
}

func condTime(nc *v1.NodeClaim, t string) int64 {
	for _, c := range nc.Status.Conditions {
		if c.Type == t {
			return rel(c.LastTransitionTime.Time)
		}
	}
	return 0
}

func termTimeOf(nc *v1.NodeClaim) *int64 {
	s, ok := nc.Annotations[v1.NodeClaimTerminationTimestampAnnotationKey]
	if !ok {
		return nil
	}
	t, err := time.Parse(time.RFC3339, s)
	if err != nil {
		return nil
	}
	r := rel(t)
	return &r
}

// snapshot reads the ground truth straight from the store (never through karpenter's helpers).
func (w *world) snapshot(obj client.Object) *Snapshot {
	s := &Snapshot{Now: rel(w.clk.Now()), Pods: []PodFact{}, VAs: []string{}, VAsTerminating: []string{}}
	switch o := obj.(type) {
	case *corev1.Node:
		cur := w.node(o.Name)
		s.Kind = "node"
		s.Tainted = isTainted(cur)
		s.Ready = readyOf(cur)
		var mine []*v1.NodeClaim
		for _, nc := range w.claims() {
			if cur.Spec.ProviderID != "" && nc.Status.ProviderID == cur.Spec.ProviderID {
				mine = append(mine, nc)
			}
		}
		s.Claims = len(mine)
		if len(mine) == 1 {
			s.TermTime = termTimeOf(mine[0])
		}
		for _, p := range w.pods() {
			if p.Spec.NodeName != cur.Name {
				continue
			}
			pf := PodFact{Name: p.Name, Phase: string(p.Status.Phase)}
			if p.DeletionTimestamp != nil {
				d := rel(p.DeletionTimestamp.Time)
				pf.DeletedAt = &d
			}
			s.Pods = append(s.Pods, pf)
		}
		for _, va := range w.vas() {
			if va.Spec.NodeName == cur.Name {
				s.VAs = append(s.VAs, va.Name)
				if va.DeletionTimestamp != nil {
					s.VAsTerminating = append(s.VAsTerminating, va.Name)
				}
			}
		}
		s.Instance = w.cp.state(cur.Spec.ProviderID)
	case *v1.NodeClaim:
		cur := w.claim(o.Name)
		s.Kind = "claim"
		s.Registered = condOf(cur, v1.ConditionTypeRegistered)
		s.PIDSet = cur.Status.ProviderID != ""
		for _, n := range w.nodes() {
			if cur.Status.ProviderID != "" && n.Spec.ProviderID == cur.Status.ProviderID {
				s.Nodes++
			}
		}
		s.Instance = w.instanceOfClaim(cur)
		s.Launched = w.launched(cur)
		for _, id := range w.cp.created[cur.Name] {
			if id != cur.Status.ProviderID && cur.Status.ProviderID != "" && w.cp.state(id) != "gone" {
				s.Lost = true
			}
		}
	}
	return s
}

// instanceOfClaim: state of the instance(s) that belong to the claim: by persisted provider id, else by the
// provider's own launch record. "running" dominates "terminating" dominates "gone".
func (w *world) instanceOfClaim(nc *v1.NodeClaim) string {
	ids := append([]string{}, w.cp.created[nc.Name]...)
	if nc.Status.ProviderID != "" {
		ids = append(ids, nc.Status.ProviderID)
	}
	best := "gone"
	for _, id := range ids {
		switch w.cp.state(id) {
		case "running":
			best = "running"
		case "terminating":
			if best == "gone" {
				best = "terminating"
			}
		}
	}
	return best
}

func (w *world) launched(nc *v1.NodeClaim) bool {
	return len(w.cp.created[nc.Name]) > 0 || nc.Status.ProviderID != ""
}

// run executes one reconcile with the given fault plan; a "crash" fault aborts it where it is raised.
func (w *world) run(faults map[string]string, f func() (reconcile.Result, error)) (res string, isErr bool) {
	w.faults, w.counts, w.armed = faults, map[string]int{}, true
	if w.faults == nil {
		w.faults = map[string]string{}
	}
	defer func() {
		w.armed = false
		if r := recover(); r != nil {
			if _, ok := r.(crash); ok {
				res, isErr = "crash", false
				return
			}
			panic(r)
		}
	}()
	r, err := f()
	return resultClass(r), err != nil
}

func resultClass(r reconcile.Result) string {
	switch {
	//nolint:staticcheck
	case r.Requeue:
		return "requeue"
	case r.RequeueAfter == 0:
		return "none"
	default:
		return fmt.Sprintf("after:%d", int64(r.RequeueAfter))
	}
}

func (w *world) reconcileNode(name string, faults map[string]string) (string, bool) {
	n := w.node(name)
	if n == nil {
		return "none", false // reconcile.AsReconciler drops requests for objects that no longer exist
	}
	w.current = "node"
	return w.run(faults, func() (reconcile.Result, error) { return w.term.Reconcile(baseCtx(), n) })
}

func (w *world) reconcileClaim(name string, faults map[string]string) (string, bool) {
	nc := w.claim(name)
	if nc == nil {
		return "none", false
	}
	w.current = "claim"
	return w.run(faults, func() (reconcile.Result, error) { return w.life.Reconcile(baseCtx(), nc) })
}

// ---------------------------------------------------------------- object builders

func livingConditions(launched, registered string, at int64) []status.Condition {
	var out []status.Condition
	add := func(t, s string) {
		if s == "" {
			return
		}
		out = append(out, condition(t, s, t, "", at))
	}
	add(v1.ConditionTypeLaunched, launched)
	add(v1.ConditionTypeRegistered, registered)
	init := "Unknown"
	if registered == "True" {
		init = "True"
	}
	add(v1.ConditionTypeInitialized, init)
	ready := "Unknown"
	if launched == "True" && registered == "True" {
		ready = "True"
	}
	if launched == "False" || registered == "False" {
		ready = "False"
	}
	add(status.ConditionReady, ready)
	return out
}

func condition(t, s, reason, msg string, at int64) status.Condition {
	return status.Condition{Type: t, Status: metav1.ConditionStatus(s), Reason: reason, Message: msg, LastTransitionTime: mt(at)}
}

func nodeClassRef() *v1.NodeClassReference {
	return &v1.NodeClassReference{Group: "karpenter.test.sh", Kind: "TestNodeClass", Name: "default"}
}

const nodeClassLabel = "karpenter.test.sh/testnodeclass"

var _ = types.UID("")
