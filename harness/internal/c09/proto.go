package c09

import (
	"encoding/json"
	"fmt"
	"math/rand/v2"
	"time"

	corev1 "k8s.io/api/core/v1"
	storagev1 "k8s.io/api/storage/v1"
	"sigs.k8s.io/controller-runtime/pkg/client"

	v1 "sigs.k8s.io/karpenter/pkg/apis/v1"

	"verifharness/internal/core"
)

// Event of a protocol history.
type Event struct {
	// Op: rn (reconcile Node) | rc (reconcile NodeClaim) | delNode | delClaim | podGone | podTerm | podAdd | vaGone |
	// vaTerm (the attach-detach controller deletes the attachment; the attacher's finalizer holds the object) |
	// vaAdd (a new attachment of the node appears, e.g. for the volume of a pod that landed late) |
	// tick | instGone | ready | notReady | restart
	Op     string            `json:"op"`
	Name   string            `json:"name,omitempty"`
	D      int64             `json:"d,omitempty"`
	Pod    *PodIn            `json:"pod,omitempty"`
	VA     *VAIn             `json:"va,omitempty"`
	Faults map[string]string `json:"faults,omitempty"`
}

type ProtoIn struct {
	// Mode: "running" (launched, registered claim + its Node + running instance) | "fresh" (a claim that was never
	// reconciled; no Node, no instance) | "unregistered" (launched claim, instance running, Node joined or not, not registered)
	Mode string `json:"mode"`
	Now  int64  `json:"now"`
	// TGP: spec.terminationGracePeriod (ns), nil = unset
	TGP         *int64  `json:"tgp"`
	NodePresent bool    `json:"nodePresent"`
	NodeReady   string  `json:"nodeReady"`
	Taint       string  `json:"taint"`
	Pods        []PodIn `json:"pods"`
	VAs         []VAIn  `json:"vas"`
	Events      []Event `json:"events"`
}

type NodeDigest struct {
	Exists    bool   `json:"exists"`
	Deleting  bool   `json:"deleting"`
	Finalizer bool   `json:"finalizer"`
	Tainted   bool   `json:"tainted"`
	Ready     string `json:"ready"`
}

type ClaimDigest struct {
	Exists     bool   `json:"exists"`
	Deleting   bool   `json:"deleting"`
	Finalizer  bool   `json:"finalizer"`
	PID        bool   `json:"pid"`
	Fresh      bool   `json:"fresh"`
	Launched   string `json:"launched"`
	Registered string `json:"registered"`
	Drained    string `json:"drained"`
	DrainedAt  int64  `json:"drainedAt"`
	Vol        string `json:"vol"`
	Inst       string `json:"inst"`
	Term       *int64 `json:"term"`
}

type Digest struct {
	Now      int64       `json:"now"`
	Node     NodeDigest  `json:"node"`
	Claim    ClaimDigest `json:"claim"`
	Pods     []PodFact   `json:"pods"`
	VAs      []string    `json:"vas"`
	// VAsTerminating: the attachments of the node that carry a deletionTimestamp
	VAsTerminating []string `json:"vasTerminating"`
	Instance       string   `json:"instance"`
	Lost           bool     `json:"lost"`
	// for reconcile events
	Calls  []string `json:"calls"`
	Result string   `json:"result"`
	Err    bool     `json:"err"`
}

type StepSnap struct {
	Step int `json:"step"`
	Snapshot
}

type ProtoOut struct {
	Steps   []Digest   `json:"steps"`
	Removed []StepSnap `json:"removed"`
	Asked   []StepSnap `json:"asked"`
}

func (w *world) latestInstance() (id string, state string) {
	ids := w.cp.created[claimNm]
	if len(ids) == 0 {
		return "", "gone"
	}
	id = ids[len(ids)-1]
	return id, w.cp.state(id)
}

func (w *world) lost() bool {
	ids := w.cp.created[claimNm]
	for i := 0; i+1 < len(ids); i++ {
		if w.cp.state(ids[i]) != "gone" {
			return true
		}
	}
	return false
}

func (w *world) digest() Digest {
	d := Digest{Now: rel(w.clk.Now()), Pods: []PodFact{}, VAs: []string{}, VAsTerminating: []string{}, Calls: []string{}, Result: "", Err: false}
	if n := w.node(nodeNm); n != nil {
		d.Node = NodeDigest{Exists: true, Deleting: n.DeletionTimestamp != nil, Finalizer: hasFinalizer(n), Tainted: isTainted(n), Ready: "False"}
		if readyOf(n) == "True" {
			d.Node.Ready = "True"
		}
	}
	if nc := w.claim(claimNm); nc != nil {
		d.Claim = ClaimDigest{Exists: true, Deleting: nc.DeletionTimestamp != nil, Finalizer: hasFinalizer(nc), PID: nc.Status.ProviderID != "",
			Fresh: len(nc.Status.Conditions) == 0, Launched: condOf(nc, v1.ConditionTypeLaunched), Registered: condOf(nc, v1.ConditionTypeRegistered),
			Drained: condOf(nc, v1.ConditionTypeDrained), DrainedAt: condTime(nc, v1.ConditionTypeDrained), Vol: condOf(nc, v1.ConditionTypeVolumesDetached),
			Inst: condOf(nc, v1.ConditionTypeInstanceTerminating), Term: termTimeOf(nc)}
	}
	for _, p := range w.pods() {
		if p.Spec.NodeName != nodeNm {
			continue
		}
		pf := PodFact{Name: p.Name, Phase: string(p.Status.Phase)}
		if p.DeletionTimestamp != nil {
			t := rel(p.DeletionTimestamp.Time)
			pf.DeletedAt = &t
		}
		d.Pods = append(d.Pods, pf)
	}
	for _, va := range w.vas() {
		if va.Spec.NodeName == nodeNm {
			d.VAs = append(d.VAs, va.Name)
			if va.DeletionTimestamp != nil {
				d.VAsTerminating = append(d.VAsTerminating, va.Name)
			}
		}
	}
	_, d.Instance = w.latestInstance()
	d.Lost = w.lost()
	return d
}

func implProto(raw json.RawMessage) (any, error) {
	var in ProtoIn
	if err := json.Unmarshal(raw, &in); err != nil {
		return nil, err
	}
	var objs []client.Object
	claim := ClaimStateIn{Managed: true, TGP: in.TGP}
	switch in.Mode {
	case "running":
		claim.Finalizer, claim.PID, claim.Launched, claim.Registered = true, true, "True", "True"
	case "unregistered":
		claim.Finalizer, claim.PID, claim.Launched, claim.Registered = true, true, "True", "Unknown"
	case "fresh":
		claim.Fresh = true
	default:
		return nil, fmt.Errorf("bad mode %q", in.Mode)
	}
	objs = append(objs, buildClaim(claim, in.Now))
	if in.Mode == "running" || (in.Mode == "unregistered" && in.NodePresent) {
		n := buildNode(NodeObs{Finalizer: in.Mode == "running", Managed: true, Ready: in.NodeReady, Taint: in.Taint, HasPID: true}, 0)
		objs = append(objs, n)
	}
	for i, p := range in.Pods {
		objs = append(objs, buildPod(p, i)...)
	}
	for _, v := range in.VAs {
		objs = append(objs, buildVA(v, in.Now))
	}
	w := newWorld(in.Now, objs...)
	if in.Mode != "fresh" {
		w.seedInstance("running", thePID)
		w.cp.created[claimNm] = []string{thePID}
	}
	out := ProtoOut{Steps: []Digest{}, Removed: []StepSnap{}, Asked: []StepSnap{}}
	for i, e := range in.Events {
		var calls []string
		res, isErr := "", false
		w.calls, w.removed, w.asked = nil, nil, nil
		switch e.Op {
		case "rn":
			res, isErr = w.reconcileNode(nodeNm, e.Faults)
			calls = w.calls
		case "rc":
			nc := w.claim(claimNm)
			switch {
			case nc == nil:
				res = "none"
			case nc.DeletionTimestamp == nil && !(len(nc.Status.Conditions) == 0 || (condOf(nc, v1.ConditionTypeLaunched) == "True" && condOf(nc, v1.ConditionTypeRegistered) == "True")):
				res = "skipped" // outside the modelled domain of the launch path (registration is C14's)
			default:
				deleting := nc.DeletionTimestamp != nil
				res, isErr = w.reconcileClaim(claimNm, e.Faults)
				if !deleting && res != "crash" {
					res = "-"
				}
				calls = w.calls
			}
		case "delNode":
			if n := w.node(nodeNm); n != nil {
				must(client.IgnoreNotFound(w.c.Delete(baseCtx(), n)))
			}
		case "delClaim":
			if nc := w.claim(claimNm); nc != nil {
				must(client.IgnoreNotFound(w.c.Delete(baseCtx(), nc)))
			}
		case "podGone":
			w.ot.Delete(gvrPod, ns, e.Name)
		case "podTerm":
			if o, err := w.ot.Get(gvrPod, ns, e.Name); err == nil {
				p := o.(*corev1.Pod).DeepCopy()
				if p.DeletionTimestamp == nil {
					ts := mt(floorSec(rel(w.clk.Now())))
					p.DeletionTimestamp = &ts
					p.Finalizers = []string{"example.com/hold"}
					must(w.ot.Update(gvrPod, p, ns))
				}
			}
		case "podAdd":
			if e.Pod != nil {
				if _, err := w.ot.Get(gvrPod, ns, e.Pod.Name); err != nil {
					for _, o := range buildPod(*e.Pod, 0) {
						must(w.c.Create(baseCtx(), o))
					}
				}
			}
		case "vaGone":
			// the detach completed: the attacher drops its finalizer and the object disappears
			w.ot.Delete(gvrVA, "", e.Name)
		case "vaAdd":
			if e.VA != nil {
				if _, err := w.ot.Get(gvrVA, "", e.VA.Name); err != nil {
					must(w.c.Create(baseCtx(), buildVA(*e.VA, rel(w.clk.Now()))))
				}
			}
		case "vaTerm":
			// a real Delete through the client: the object keeps existing (finalizer) with a deletionTimestamp
			if o, err := w.ot.Get(gvrVA, "", e.Name); err == nil {
				va := o.(*storagev1.VolumeAttachment).DeepCopy()
				if va.DeletionTimestamp == nil {
					must(w.c.Delete(baseCtx(), va))
					if o2, err := w.ot.Get(gvrVA, "", e.Name); err == nil {
						cur := o2.(*storagev1.VolumeAttachment).DeepCopy()
						if cur.DeletionTimestamp != nil {
							ts := mt(floorSec(rel(w.clk.Now())))
							cur.DeletionTimestamp = &ts // deterministic (the fake client takes the wall clock)
							must(w.ot.Update(gvrVA, cur, ""))
						}
					}
				}
			}
		case "tick":
			w.clk.Step(time.Duration(e.D))
		case "instGone":
			if id, st := w.latestInstance(); st != "gone" {
				delete(w.cp.CloudProvider.CreatedNodeClaims, id)
			}
		case "ready", "notReady":
			if n := w.node(nodeNm); n != nil {
				st := corev1.ConditionTrue
				if e.Op == "notReady" {
					st = corev1.ConditionFalse
				}
				found := false
				for k := range n.Status.Conditions {
					if n.Status.Conditions[k].Type == corev1.NodeReady {
						n.Status.Conditions[k].Status, found = st, true
					}
				}
				if !found {
					n.Status.Conditions = append(n.Status.Conditions, corev1.NodeCondition{Type: corev1.NodeReady, Status: st})
				}
				must(w.ot.Update(gvrNode, n, ""))
			}
		case "restart":
			w.restart()
		default:
			return nil, fmt.Errorf("bad event %q", e.Op)
		}
		if res == "crash" {
			w.restart() // the process died: everything held in memory is lost
		}
		d := w.digest()
		d.Result, d.Err = res, isErr
		if calls != nil {
			d.Calls = append([]string{}, calls...)
		}
		out.Steps = append(out.Steps, d)
		for _, s := range w.removed {
			out.Removed = append(out.Removed, StepSnap{Step: i, Snapshot: s})
		}
		for _, s := range w.asked {
			out.Asked = append(out.Asked, StepSnap{Step: i, Snapshot: s})
		}
	}
	return out, nil
}

// ---------------------------------------------------------------- generator

var protoNodeFaults = []string{"listClaims", "deleteClaim", "providerGet", "patchNode", "listPods#0", "listPods#1", "listVAs", "providerDelete", "patchClaimStatus", "removeNodeFinalizer"}
var protoClaimFaults = []string{"annotateClaim", "listNodes", "deleteNode", "providerDelete", "patchClaimStatus", "removeClaimFinalizer"}

func genProto(r *rand.Rand, t core.Tier) any {
	now := (1000 + r.Int64N(1000)) * second
	if r.Float64() < 0.5 {
		now += r.Int64N(second)
	}
	in := ProtoIn{Mode: "running", Now: now, NodePresent: true, NodeReady: "True", Taint: pick(r, []string{"none", "none", "ok", "wrongEffect"}), Pods: []PodIn{}, VAs: []VAIn{}, Events: []Event{}}
	switch x := r.Float64(); {
	case x < 0.12:
		in.Mode = "fresh"
	case x < 0.24:
		in.Mode = "unregistered"
		in.NodePresent = r.Float64() < 0.6
	}
	if r.Float64() < 0.35 {
		g := (5 + r.Int64N(120)) * second
		in.TGP = &g
	}
	if in.Mode == "fresh" {
		return genProtoFresh(r, in, t)
	}
	if r.Float64() < 0.1 {
		in.NodeReady = pick(r, []string{"False", "Unknown"})
	}
	in.Pods = genPods(r, now, 3, 0.3)
	if in.Pods == nil {
		in.Pods = []PodIn{}
	}
	if r.Float64() < 0.45 {
		in.VAs = genVAs(r, 2)
		if in.VAs == nil {
			in.VAs = []VAIn{}
		}
	}
	// who starts the deletion
	if in.Mode == "unregistered" || r.Float64() < 0.5 {
		in.Events = append(in.Events, Event{Op: "delClaim"})
	} else {
		in.Events = append(in.Events, Event{Op: "delNode"})
	}
	maxEv := 30
	if t == core.Thorough {
		maxEv = 60
	}
	n := 6 + r.IntN(maxEv)
	pFault := 0.05 + 0.25*r.Float64()
	podsLeft := map[string]bool{}
	for _, p := range in.Pods {
		if !p.OtherNode {
			podsLeft[p.Name] = true
		}
	}
	vasLeft := map[string]bool{}
	for _, v := range in.VAs {
		if !v.OtherNode {
			vasLeft[v.Name] = true
		}
	}
	added := 0
	for i := 0; i < n; i++ {
		switch x := r.Float64(); {
		case x < 0.30:
			in.Events = append(in.Events, Event{Op: "rn", Faults: genFaults(r, protoNodeFaults, pFault)})
		case x < 0.55:
			in.Events = append(in.Events, Event{Op: "rc", Faults: genFaults(r, protoClaimFaults, pFault)})
		case x < 0.67:
			// time: around the protocol's edges (1 s requeue, 5 s min drain / instance requeue, 60 s stuck, grace period)
			d := pick(r, []int64{second, second, 2 * second, 5 * second, 5*second - 1, 5*second + 1, 30 * second, 60 * second, 61 * second, 120 * second, 500000000})
			in.Events = append(in.Events, Event{Op: "tick", D: d})
		case x < 0.77:
			if name, ok := anyKey(r, podsLeft); ok {
				if r.Float64() < 0.35 {
					in.Events = append(in.Events, Event{Op: "podTerm", Name: name})
				} else {
					in.Events = append(in.Events, Event{Op: "podGone", Name: name})
					delete(podsLeft, name)
				}
			}
		case x < 0.84:
			if name, ok := anyKey(r, vasLeft); ok {
				if r.Float64() < 0.45 {
					// deleted by the attach-detach controller, the detach itself is still going on
					in.Events = append(in.Events, Event{Op: "vaTerm", Name: name})
				} else {
					in.Events = append(in.Events, Event{Op: "vaGone", Name: name})
					delete(vasLeft, name)
				}
			}
		case x < 0.90:
			in.Events = append(in.Events, Event{Op: "instGone"})
		case x < 0.92:
			in.Events = append(in.Events, Event{Op: pick(r, []string{"notReady", "ready"})})
		case x < 0.94:
			in.Events = append(in.Events, Event{Op: "restart"})
		case x < 0.96:
			in.Events = append(in.Events, Event{Op: pick(r, []string{"delNode", "delClaim"})})
		case x < 0.98:
			if r.Float64() < 0.4 {
				// an attachment appears late (possibly after VolumesDetached was recorded True)
				v := VAIn{Name: fmt.Sprintf("va-late-%d", added), PV: r.IntN(4)}
				added++
				in.Events = append(in.Events, Event{Op: "vaAdd", VA: &v})
				vasLeft[v.Name] = true
				break
			}
			// a pod lands on the node after the taint (the scheduler had not seen it yet)
			p := PodIn{Name: fmt.Sprintf("pod-late-%d", added), Tol: pick(r, []string{"none", "none", "exact"}), Phase: "Running", PV: -1}
			added++
			in.Events = append(in.Events, Event{Op: "podAdd", Pod: &p})
			podsLeft[p.Name] = true
		default:
			in.Events = append(in.Events, Event{Op: "rn"}, Event{Op: "rc"})
		}
	}
	// settle: drain the environment and reconcile without faults so that most histories run to completion
	if r.Float64() < 0.7 {
		for _, name := range sortedNames(podsLeft) {
			in.Events = append(in.Events, Event{Op: "podGone", Name: name})
		}
		for _, name := range sortedNames(vasLeft) {
			in.Events = append(in.Events, Event{Op: "vaGone", Name: name})
		}
		in.Events = append(in.Events, Event{Op: "tick", D: 6 * second}, Event{Op: "rn"}, Event{Op: "tick", D: 6 * second}, Event{Op: "rn"}, Event{Op: "instGone"}, Event{Op: "rn"}, Event{Op: "rc"}, Event{Op: "rc"})
	}
	return in
}

// genProtoFresh: launch, then deletion. Clock advances stay far below the liveness timeouts.
func genProtoFresh(r *rand.Rand, in ProtoIn, t core.Tier) ProtoIn {
	in.NodePresent = false
	// the first reconcile launches; persisting faults are kept rare because both of their consequences (deletion before
	// the provider id is persisted; relaunch after a restart) are recorded findings
	pHot := 0.04
	if t == core.Thorough {
		pHot = 0.004
	}
	hot := r.Float64() < pHot
	launchFaults := map[string]string{}
	if hot {
		k := pick(r, []string{"patchClaim", "patchClaimStatus"})
		launchFaults[k] = pick(r, []string{"err", "conflict", "notfound", "crash"})
	} else if r.Float64() < 0.3 {
		k := pick(r, []string{"addClaimFinalizer", "providerCreate"})
		launchFaults[k] = pick(r, claimFaultClasses(k))
	}
	if r.Float64() < 0.15 {
		in.Events = append(in.Events, Event{Op: "delClaim"}) // deleted before it was ever reconciled
	}
	in.Events = append(in.Events, Event{Op: "rc", Faults: launchFaults})
	n := 3 + r.IntN(10)
	for i := 0; i < n; i++ {
		switch x := r.Float64(); {
		case x < 0.45:
			in.Events = append(in.Events, Event{Op: "rc", Faults: genFaults(r, protoClaimFaults, 0.15)})
		case x < 0.60:
			in.Events = append(in.Events, Event{Op: "delClaim"})
		case x < 0.75:
			in.Events = append(in.Events, Event{Op: "tick", D: pick(r, []int64{second, 5 * second, 500000000})})
		case x < 0.85:
			in.Events = append(in.Events, Event{Op: "instGone"})
		case x < 0.88 && hot:
			in.Events = append(in.Events, Event{Op: "restart"})
		default:
			in.Events = append(in.Events, Event{Op: "rn"})
		}
	}
	in.Events = append(in.Events, Event{Op: "delClaim"}, Event{Op: "rc"}, Event{Op: "instGone"}, Event{Op: "rc"}, Event{Op: "rc"})
	return in
}

func anyKey(r *rand.Rand, m map[string]bool) (string, bool) {
	ks := sortedNames(m)
	if len(ks) == 0 {
		return "", false
	}
	return ks[r.IntN(len(ks))], true
}

func sortedNames(m map[string]bool) []string {
	mm := map[string]string{}
	for k := range m {
		mm[k] = ""
	}
	return sortedKeys(mm)
}

// ---------------------------------------------------------------- enumeration

// enumProto: scripted histories with every single fault position. Eleven scripts (happy paths started from either
// object, not-ready node with the instance gone, volume attachments with and without a grace period, a late pod, a
// slow instance, launch followed by deletion, attachments that linger in deletion with and without a grace period, an attachment that appears late); for each reconcile event of each script, each fault kind x class is
// injected at that event alone.
func enumProto(t core.Tier) []any {
	var out []any
	now := 2000 * second
	g := 20 * second
	pod := PodIn{Name: "pod-0", Tol: "none", Phase: "Running", PV: 1}
	dsPod := PodIn{Name: "pod-1", Tol: "all", Phase: "Running", PV: 2, Daemon: true}
	base := func(mode string, tgp *int64, pods []PodIn, vas []VAIn, ev []Event) ProtoIn {
		return ProtoIn{Mode: mode, Now: now, TGP: tgp, NodePresent: true, NodeReady: "True", Taint: "none", Pods: pods, VAs: vas, Events: ev}
	}
	rn, rc := Event{Op: "rn"}, Event{Op: "rc"}
	tick := func(d int64) Event { return Event{Op: "tick", D: d} }
	scripts := []ProtoIn{
		// 1: claim deleted first; pods drain; volumes detach; instance terminates; both finalizers go
		base("running", nil, []PodIn{pod, dsPod}, []VAIn{{Name: "va-0", PV: 1}, {Name: "va-1", PV: 2}},
			[]Event{{Op: "delClaim"}, rc, rn, {Op: "podGone", Name: "pod-0"}, rn, tick(5 * second), rn, {Op: "vaGone", Name: "va-0"}, rn, tick(5 * second), rn, {Op: "instGone"}, rn, rc, rc}),
		// 2: node deleted first
		base("running", nil, []PodIn{pod}, []VAIn{},
			[]Event{{Op: "delNode"}, rn, rc, {Op: "podTerm", Name: "pod-0"}, rn, tick(61 * second), rn, rn, {Op: "instGone"}, rn, rc, rc}),
		// 3: grace period: volumes never detach, the deadline passes
		base("running", &g, []PodIn{}, []VAIn{{Name: "va-0", PV: 1}},
			[]Event{{Op: "delClaim"}, rc, rn, tick(6 * second), rn, tick(15 * second), rn, rn, {Op: "instGone"}, rn, rc, rc}),
		// 4: node not ready and the instance already gone
		base("running", nil, []PodIn{pod}, []VAIn{{Name: "va-0", PV: 1}},
			[]Event{{Op: "delNode"}, {Op: "notReady"}, rn, {Op: "instGone"}, rn, rc, rc}),
		// 5: a pod lands on the node after the drain finished
		base("running", nil, []PodIn{}, []VAIn{},
			[]Event{{Op: "delClaim"}, rc, rn, tick(5 * second), {Op: "podAdd", Pod: &PodIn{Name: "pod-late", Tol: "none", Phase: "Running", PV: -1}}, rn, {Op: "podGone", Name: "pod-late"}, rn, {Op: "instGone"}, rn, rc, rc}),
		// 6: unregistered claim with a joined node: no drain, the instance is terminated directly
		base("unregistered", nil, []PodIn{pod}, []VAIn{},
			[]Event{{Op: "delClaim"}, rc, rn, rc, {Op: "instGone"}, rc, rc}),
		// 7: launch, then deletion
		{Mode: "fresh", Now: now, Pods: []PodIn{}, VAs: []VAIn{}, Events: []Event{rc, rc, {Op: "delClaim"}, rc, tick(5 * second), rc, {Op: "instGone"}, rc}},
		// 8: restart in the middle, both deleted
		base("running", &g, []PodIn{pod}, []VAIn{{Name: "va-0", PV: 1}},
			[]Event{{Op: "delNode"}, {Op: "delClaim"}, rn, {Op: "restart"}, rc, {Op: "podGone", Name: "pod-0"}, tick(6 * second), rn, {Op: "vaGone", Name: "va-0"}, rn, rn, {Op: "instGone"}, rc, rn, rc}),
		// 9: the attach-detach controller deletes the attachment once the pod is gone, but the detach takes its time: the
		// object lingers with a deletionTimestamp (attacher's finalizer) over several reconciles, then disappears
		base("running", nil, []PodIn{pod}, []VAIn{{Name: "va-0", PV: 1}, {Name: "va-1", PV: -1, Deleting: true}},
			[]Event{{Op: "delNode"}, rn, {Op: "podGone", Name: "pod-0"}, rn, tick(6 * second), rn, {Op: "vaTerm", Name: "va-0"}, rn, tick(2 * second), rn, tick(40 * second), rn, {Op: "vaGone", Name: "va-0"}, rn, rn, {Op: "instGone"}, rn, rc, rc}),
		// 10: an attachment that is already being deleted when the node starts terminating and whose detach never
		// completes (detach error recorded): only the grace period releases the node
		base("running", &g, []PodIn{}, []VAIn{{Name: "va-0", PV: 1, Deleting: true, Unattached: true}},
			[]Event{{Op: "delClaim"}, rc, rn, tick(6 * second), rn, rn, tick(15 * second), rn, rn, {Op: "instGone"}, rn, rc, rc}),
		// 11: an attachment appears after VolumesDetached was recorded True and the instance was asked to terminate:
		// the stage goes back to waiting
		base("running", nil, []PodIn{}, []VAIn{},
			[]Event{{Op: "delNode"}, rn, rn, tick(6 * second), rn, rn, rn, {Op: "vaAdd", VA: &VAIn{Name: "va-late", PV: 3}}, rn, {Op: "instGone"}, rn, {Op: "vaGone", Name: "va-late"}, rn, rn, rc, rc}),
	}
	for _, s := range scripts {
		out = append(out, s)
		for i, e := range s.Events {
			var kinds []string
			switch e.Op {
			case "rn":
				kinds = protoNodeFaults
			case "rc":
				kinds = protoClaimFaults
				if s.Mode == "fresh" && i < 2 {
					// launch-path persisting faults reproduce the recorded findings; only the harmless ones are enumerated
					kinds = []string{"addClaimFinalizer", "providerCreate"}
				}
			default:
				continue
			}
			for _, k := range kinds {
				classes := claimFaultClasses(k)
				if k == "providerGet" || k == "providerDelete" {
					// a representative subset of the provider failure kinds (the single-pass ops enumerate all of them)
					classes = []string{"err", "crash", "apiNotFound", "apiNotFoundBare", "ncnr", "wrapnf"}
				}
				for _, cls := range classes {
					c := s
					c.Events = append([]Event{}, s.Events...)
					c.Events[i] = Event{Op: e.Op, Faults: map[string]string{k: cls}}
					// retry the faulted reconcile afterwards so that the history still completes
					c.Events = append(c.Events, Event{Op: "rn"}, Event{Op: "rc"}, Event{Op: "rn"}, Event{Op: "rc"})
					out = append(out, c)
				}
			}
		}
		if t != core.Thorough {
			continue
		}
		// thorough: a restart before every event, and every pair of failing calls (class err) over a representative
		// set of call kinds, at every pair of reconcile events
		tail := []Event{{Op: "rn"}, {Op: "rc"}, {Op: "rn"}, {Op: "rc"}}
		for i := range s.Events {
			c := s
			c.Events = append(append(append([]Event{}, s.Events[:i]...), Event{Op: "restart"}), s.Events[i:]...)
			out = append(out, c)
		}
		pairKinds := map[string][]string{
			"rn": {"deleteClaim", "providerDelete", "patchClaimStatus", "removeNodeFinalizer"},
			"rc": {"deleteNode", "providerDelete", "patchClaimStatus", "removeClaimFinalizer"},
		}
		if s.Mode == "fresh" {
			continue
		}
		for i, ei := range s.Events {
			for j := i + 1; j < len(s.Events); j++ {
				ej := s.Events[j]
				for _, ki := range pairKinds[ei.Op] {
					for _, kj := range pairKinds[ej.Op] {
						c := s
						c.Events = append([]Event{}, s.Events...)
						c.Events[i] = Event{Op: ei.Op, Faults: map[string]string{ki: "err"}}
						c.Events[j] = Event{Op: ej.Op, Faults: map[string]string{kj: "err"}}
						c.Events = append(c.Events, tail...)
						out = append(out, c)
					}
				}
			}
		}
	}
	return out
}

// ---------------------------------------------------------------- plumbing

func protoLabels(raw json.RawMessage, impl any) []string {
	var in ProtoIn
	json.Unmarshal(raw, &in)
	l := []string{"mode=" + in.Mode, fmt.Sprintf("events<=%d", ((len(in.Events)/10)+1)*10)}
	if in.TGP != nil {
		l = append(l, "tgp")
	}
	seen := map[string]bool{}
	for _, e := range in.Events {
		if !seen[e.Op] {
			seen[e.Op] = true
			l = append(l, "ev:"+e.Op)
		}
		for k, v := range e.Faults {
			if !seen[k+v] {
				seen[k+v] = true
				l = append(l, "fault:"+k+"="+v)
			}
		}
	}
	l = append(l, vaLabels(in.VAs)...)
	if o, ok := impl.(map[string]any); ok {
		if rm, ok := o["removed"].([]any); ok {
			for _, s := range rm {
				if m, ok := s.(map[string]any); ok {
					l = append(l, "removed:"+fmt.Sprint(m["kind"]))
				}
			}
		}
		if st, ok := o["steps"].([]any); ok && len(st) > 0 {
			if last, ok := st[len(st)-1].(map[string]any); ok {
				c, _ := last["claim"].(map[string]any)
				n, _ := last["node"].(map[string]any)
				l = append(l, fmt.Sprintf("end:claim=%v,node=%v,instance=%v", c["exists"], n["exists"], last["instance"]))
			}
		}
	}
	return l
}

func protoNontrivial(_ json.RawMessage, impl any) bool {
	o, ok := impl.(map[string]any)
	if !ok {
		return false
	}
	// reaches the instance stage: the provider was asked to terminate the instance, or a finalizer was removed
	if rm, ok := o["removed"].([]any); ok && len(rm) > 0 {
		return true
	}
	if st, ok := o["steps"].([]any); ok {
		for _, s := range st {
			if m, ok := s.(map[string]any); ok {
				if cs, ok := m["calls"].([]any); ok {
					for _, c := range cs {
						if fmt.Sprint(c) == "providerDelete" {
							return true
						}
					}
				}
			}
		}
	}
	return false
}

func shrinkProto(raw json.RawMessage) []any {
	var in ProtoIn
	json.Unmarshal(raw, &in)
	var out []any
	for _, es := range core.ShrinkList(in.Events) {
		c := in
		c.Events = es
		if c.Events == nil {
			c.Events = []Event{}
		}
		out = append(out, c)
	}
	for _, ps := range core.ShrinkList(in.Pods) {
		c := in
		c.Pods = ps
		if c.Pods == nil {
			c.Pods = []PodIn{}
		}
		out = append(out, c)
	}
	for _, vs := range core.ShrinkList(in.VAs) {
		c := in
		c.VAs = vs
		if c.VAs == nil {
			c.VAs = []VAIn{}
		}
		out = append(out, c)
	}
	for i, e := range in.Events {
		if len(e.Faults) > 0 {
			c := in
			c.Events = append([]Event{}, in.Events...)
			c.Events[i] = Event{Op: e.Op}
			out = append(out, c)
		}
	}
	return out
}
