package c09

import (
	"encoding/json"
	"fmt"
	"math/rand/v2"
	"sort"
	"time"

	corev1 "k8s.io/api/core/v1"
	storagev1 "k8s.io/api/storage/v1"
	metav1 "k8s.io/apimachinery/pkg/apis/meta/v1"
	"k8s.io/apimachinery/pkg/types"
	"sigs.k8s.io/controller-runtime/pkg/client"

	v1 "sigs.k8s.io/karpenter/pkg/apis/v1"

	"verifharness/internal/core"
)

// ---------------------------------------------------------------- shared input vocabulary

// PodIn: one pod. Static facts (toleration variant, owner, volume) are looked up by name by the Lean spec.
type PodIn struct {
	Name string `json:"name"`
	// Tol: "none" | "exact" (karpenter.sh/disrupted Exists NoSchedule) | "equal" (key, Equal "", NoSchedule) |
	// "all" (operator Exists, no key) | "anyEffect" (key Exists, no effect) | "wrongEffect" (key Exists NoExecute) |
	// "otherKey"
	Tol    string `json:"tol"`
	Mirror bool   `json:"mirror"` // owned by the Node (static pod)
	Daemon bool   `json:"daemon"` // owned by a DaemonSet (irrelevant to finalization; must not matter)
	Phase  string `json:"phase"`  // Running | Pending | Succeeded | Failed
	// DeletedAt: deletionTimestamp (whole seconds, ns), nil = not terminating
	DeletedAt *int64 `json:"deletedAt"`
	// PV >= 0: the pod mounts a PVC bound to persistent volume pv-<PV>; -1: no volume
	PV         int  `json:"pv"`
	PVCMissing bool `json:"pvcMissing"` // the PVC object does not exist
	Ephemeral  bool `json:"ephemeral"`  // the volume is a generic ephemeral volume (PVC named <pod>-<vol>)
	OtherNode  bool `json:"otherNode"`  // bound to another node
}

// VAIn: one VolumeAttachment. PV = -1: no persistentVolumeName (inline CSI volume).
type VAIn struct {
	Name      string `json:"name"`
	PV        int    `json:"pv"`
	OtherNode bool   `json:"otherNode"`
	// Deleting: the attach-detach controller has deleted the object (deletionTimestamp set) but the CSI
	// external-attacher's finalizer still holds it: the detach is in progress (or failing). The object exists.
	Deleting bool `json:"deleting,omitempty"`
	// Unattached: status.attached is false (and a detach error is recorded when the object is also being deleted)
	Unattached bool `json:"unattached,omitempty"`
}

// attacherFinalizer is the finalizer the CSI external-attacher puts on every VolumeAttachment it handles.
const attacherFinalizer = "external-attacher/csi-example-com"

type ClaimIn struct {
	Deleting bool `json:"deleting"`
	// the three termination conditions: "" (absent) | "True" | "False" | "Unknown"
	Drained string `json:"drained"`
	// DrainedAt: lastTransitionTime of Drained (whole seconds, ns)
	DrainedAt int64  `json:"drainedAt"`
	Vol       string `json:"vol"`
	Inst      string `json:"inst"`
	// Term: the karpenter.sh/nodeclaim-termination-timestamp annotation: nil absent, else whole seconds (ns)
	Term    *int64 `json:"term"`
	TermBad bool   `json:"termBad"` // the annotation is present but malformed
	// OtherPID: the claim carries another provider id (it is not this node's claim)
	OtherPID bool `json:"otherPid"`
}

type NodeObs struct {
	Finalizer bool   `json:"finalizer"`
	Deleting  bool   `json:"deleting"`
	Managed   bool   `json:"managed"`
	Ready     string `json:"ready"` // "True" | "False" | "Unknown" | "" (no Ready condition)
	// Taint: "none" | "ok" (karpenter.sh/disrupted:NoSchedule) | "wrongEffect" (same key, NoExecute) | "other" (an unrelated taint)
	Taint  string `json:"taint"`
	LB     bool   `json:"lb"`     // already carries the exclude-from-external-load-balancers label
	HasPID bool   `json:"hasPid"` // spec.providerID set
}

type NodeIn struct {
	Now      int64             `json:"now"`
	Node     NodeObs           `json:"node"`
	Claims   []ClaimIn         `json:"claims"`
	Pods     []PodIn           `json:"pods"`
	VAs      []VAIn            `json:"vas"`
	Instance string            `json:"instance"` // running | terminating | gone
	Faults   map[string]string `json:"faults"`
}

type ClaimAfter struct {
	Exists   bool   `json:"exists"`
	Deleting bool   `json:"deleting"`
	Drained  string `json:"drained"`
	Vol      string `json:"vol"`
	Inst     string `json:"inst"`
}

type NodeOut struct {
	Calls     []string     `json:"calls"`
	Result    string       `json:"result"`
	Err       bool         `json:"err"`
	NodeGone  bool         `json:"nodeGone"`
	Finalizer bool         `json:"finalizer"`
	Tainted   bool         `json:"tainted"`
	Claims    []ClaimAfter `json:"claims"`
	Instance  string       `json:"instance"`
	Removed   []Snapshot   `json:"removed"`
	Asked     []Snapshot   `json:"asked"`
}

// ---------------------------------------------------------------- object construction

func tolerations(variant string) []corev1.Toleration {
	switch variant {
	case "exact":
		return []corev1.Toleration{{Key: v1.DisruptedTaintKey, Operator: corev1.TolerationOpExists, Effect: corev1.TaintEffectNoSchedule}}
	case "equal":
		return []corev1.Toleration{{Key: v1.DisruptedTaintKey, Operator: corev1.TolerationOpEqual, Value: "", Effect: corev1.TaintEffectNoSchedule}}
	case "all":
		return []corev1.Toleration{{Operator: corev1.TolerationOpExists}}
	case "anyEffect":
		return []corev1.Toleration{{Key: v1.DisruptedTaintKey, Operator: corev1.TolerationOpExists}}
	case "wrongEffect":
		return []corev1.Toleration{{Key: v1.DisruptedTaintKey, Operator: corev1.TolerationOpExists, Effect: corev1.TaintEffectNoExecute}}
	case "otherKey":
		return []corev1.Toleration{{Key: "example.com/other", Operator: corev1.TolerationOpExists, Effect: corev1.TaintEffectNoSchedule}}
	}
	return nil
}

func buildPod(p PodIn, i int) []client.Object {
	pod := &corev1.Pod{
		ObjectMeta: metav1.ObjectMeta{Name: p.Name, Namespace: ns, UID: types.UID("uid-" + p.Name), CreationTimestamp: mt(-3600 * second)},
		Spec: corev1.PodSpec{
			NodeName:    nodeNm,
			Tolerations: tolerations(p.Tol),
			Containers:  []corev1.Container{{Name: "c", Image: "i"}},
		},
		Status: corev1.PodStatus{Phase: corev1.PodPhase(p.Phase)},
	}
	if p.OtherNode {
		pod.Spec.NodeName = otherNd
	}
	if p.Mirror {
		pod.OwnerReferences = append(pod.OwnerReferences, metav1.OwnerReference{APIVersion: "v1", Kind: "Node", Name: nodeNm, UID: "uid-" + nodeNm})
	}
	if p.Daemon {
		pod.OwnerReferences = append(pod.OwnerReferences, metav1.OwnerReference{APIVersion: "apps/v1", Kind: "DaemonSet", Name: "ds", UID: "uid-ds"})
	}
	if p.DeletedAt != nil {
		ts := mt(*p.DeletedAt)
		pod.DeletionTimestamp = &ts
		pod.Finalizers = []string{"example.com/hold"} // the store refuses a deletionTimestamp without a finalizer
	}
	out := []client.Object{pod}
	if p.PV >= 0 {
		volName := "data"
		pvcName := "pvc-" + p.Name
		if p.Ephemeral {
			pvcName = p.Name + "-" + volName
			pod.Spec.Volumes = []corev1.Volume{{Name: volName, VolumeSource: corev1.VolumeSource{Ephemeral: &corev1.EphemeralVolumeSource{}}}}
		} else {
			pod.Spec.Volumes = []corev1.Volume{{Name: volName, VolumeSource: corev1.VolumeSource{PersistentVolumeClaim: &corev1.PersistentVolumeClaimVolumeSource{ClaimName: pvcName}}}}
		}
		// an unrelated non-PVC volume first: must be skipped
		pod.Spec.Volumes = append([]corev1.Volume{{Name: "tmp", VolumeSource: corev1.VolumeSource{EmptyDir: &corev1.EmptyDirVolumeSource{}}}}, pod.Spec.Volumes...)
		if !p.PVCMissing {
			out = append(out, &corev1.PersistentVolumeClaim{
				ObjectMeta: metav1.ObjectMeta{Name: pvcName, Namespace: ns, UID: types.UID("uid-" + pvcName)},
				Spec:       corev1.PersistentVolumeClaimSpec{VolumeName: fmt.Sprintf("pv-%d", p.PV)},
			})
		}
	}
	return out
}

func buildVA(v VAIn, now int64) client.Object {
	va := &storagev1.VolumeAttachment{
		ObjectMeta: metav1.ObjectMeta{Name: v.Name, UID: types.UID("uid-" + v.Name), CreationTimestamp: mt(-3600 * second), Finalizers: []string{attacherFinalizer}},
		Spec:       storagev1.VolumeAttachmentSpec{Attacher: "csi.example.com", NodeName: nodeNm},
		Status:     storagev1.VolumeAttachmentStatus{Attached: !v.Unattached},
	}
	if v.Deleting {
		ts := mt(floorSec(now) - 30*second)
		va.DeletionTimestamp = &ts
		if v.Unattached {
			va.Status.DetachError = &storagev1.VolumeError{Time: ts, Message: "injected detach failure"}
		}
	}
	if v.OtherNode {
		va.Spec.NodeName = otherNd
	}
	if v.PV >= 0 {
		n := fmt.Sprintf("pv-%d", v.PV)
		va.Spec.Source.PersistentVolumeName = &n
	}
	return va
}

func buildNode(o NodeObs, deletedAt int64) *corev1.Node {
	n := &corev1.Node{
		ObjectMeta: metav1.ObjectMeta{Name: nodeNm, UID: "uid-" + nodeNm, CreationTimestamp: mt(-7200 * second), Labels: map[string]string{"kubernetes.io/hostname": nodeNm}},
		Status:     corev1.NodeStatus{Conditions: []corev1.NodeCondition{{Type: corev1.NodeMemoryPressure, Status: corev1.ConditionFalse}}},
	}
	if o.HasPID {
		n.Spec.ProviderID = thePID
	}
	if o.Managed {
		n.Labels[nodeClassLabel] = "default"
	}
	if o.LB {
		n.Labels[lbLabel] = "karpenter"
	}
	if o.Finalizer {
		n.Finalizers = append(n.Finalizers, v1.TerminationFinalizer)
	}
	if o.Deleting {
		ts := mt(deletedAt)
		n.DeletionTimestamp = &ts
		if !o.Finalizer {
			n.Finalizers = append(n.Finalizers, "example.com/other-finalizer")
		}
	}
	if o.Ready != "" {
		n.Status.Conditions = append(n.Status.Conditions, corev1.NodeCondition{Type: corev1.NodeReady, Status: corev1.ConditionStatus(o.Ready)})
	}
	switch o.Taint {
	case "ok":
		n.Spec.Taints = []corev1.Taint{{Key: "example.com/first", Effect: corev1.TaintEffectNoSchedule}, v1.DisruptedNoScheduleTaint}
	case "wrongEffect":
		n.Spec.Taints = []corev1.Taint{{Key: v1.DisruptedTaintKey, Effect: corev1.TaintEffectNoExecute}}
	case "other":
		n.Spec.Taints = []corev1.Taint{{Key: "example.com/first", Effect: corev1.TaintEffectNoSchedule}}
	}
	return n
}

func setCond(nc *v1.NodeClaim, t, s string, at int64) {
	if s == "" {
		return
	}
	reason := t
	switch {
	case t == v1.ConditionTypeDrained && s == "Unknown":
		reason = "Draining"
	case t == v1.ConditionTypeVolumesDetached && s == "Unknown":
		reason = "AwaitingVolumeDetachment"
	case t == v1.ConditionTypeVolumesDetached && s == "False":
		reason = "TerminationGracePeriodElapsed"
	}
	msg := ""
	if reason != t {
		msg = reason
	}
	nc.Status.Conditions = append(nc.Status.Conditions, condition(t, s, reason, msg, at))
}

func buildNodeClaimForNode(c ClaimIn, i int, deletedAt int64) *v1.NodeClaim {
	nc := &v1.NodeClaim{
		ObjectMeta: metav1.ObjectMeta{Name: fmt.Sprintf("claim-%d", i), UID: types.UID(fmt.Sprintf("uid-claim-%d", i)), CreationTimestamp: mt(-7200 * second),
			Finalizers: []string{v1.TerminationFinalizer}, Annotations: map[string]string{}},
		Spec:   v1.NodeClaimSpec{NodeClassRef: nodeClassRef()},
		Status: v1.NodeClaimStatus{ProviderID: thePID, NodeName: nodeNm},
	}
	if c.OtherPID {
		nc.Status.ProviderID = "fake://some-other-instance"
	}
	nc.Status.Conditions = livingConditions("True", "True", -7000*second)
	setCond(nc, v1.ConditionTypeDrained, c.Drained, c.DrainedAt)
	setCond(nc, v1.ConditionTypeVolumesDetached, c.Vol, c.DrainedAt)
	setCond(nc, v1.ConditionTypeInstanceTerminating, c.Inst, c.DrainedAt)
	if c.Deleting {
		ts := mt(deletedAt)
		nc.DeletionTimestamp = &ts
	}
	if c.TermBad {
		nc.Annotations[v1.NodeClaimTerminationTimestampAnnotationKey] = "not-a-timestamp"
	} else if c.Term != nil {
		nc.Annotations[v1.NodeClaimTerminationTimestampAnnotationKey] = at(*c.Term).Format(time.RFC3339)
	}
	return nc
}

func (w *world) seedInstance(state string, pid string) {
	if state == "gone" {
		return
	}
	w.cp.CloudProvider.CreatedNodeClaims[pid] = &v1.NodeClaim{ObjectMeta: metav1.ObjectMeta{Name: "instance"}, Status: v1.NodeClaimStatus{ProviderID: pid}}
	if state == "terminating" {
		w.cp.terminating[pid] = true
	}
}

// ---------------------------------------------------------------- impl

func implNode(raw json.RawMessage) (any, error) {
	var in NodeIn
	if err := json.Unmarshal(raw, &in); err != nil {
		return nil, err
	}
	deletedAt := floorSec(in.Now) - 600*second
	var objs []client.Object
	objs = append(objs, buildNode(in.Node, deletedAt))
	for i, c := range in.Claims {
		objs = append(objs, buildNodeClaimForNode(c, i, deletedAt))
	}
	for i, p := range in.Pods {
		objs = append(objs, buildPod(p, i)...)
	}
	for _, v := range in.VAs {
		objs = append(objs, buildVA(v, in.Now))
	}
	w := newWorld(in.Now, objs...)
	w.seedInstance(in.Instance, thePID)
	res, isErr := w.reconcileNode(nodeNm, in.Faults)
	out := NodeOut{Calls: append([]string{}, w.calls...), Result: res, Err: isErr, Claims: []ClaimAfter{}, Removed: append([]Snapshot{}, w.removed...), Asked: append([]Snapshot{}, w.asked...)}
	if n := w.node(nodeNm); n != nil {
		out.Finalizer = hasFinalizer(n)
		out.Tainted = isTainted(n)
	} else {
		out.NodeGone = true
	}
	for i := range in.Claims {
		ca := ClaimAfter{}
		if nc := w.claim(fmt.Sprintf("claim-%d", i)); nc != nil {
			ca = ClaimAfter{Exists: true, Deleting: nc.DeletionTimestamp != nil, Drained: condOf(nc, v1.ConditionTypeDrained), Vol: condOf(nc, v1.ConditionTypeVolumesDetached), Inst: condOf(nc, v1.ConditionTypeInstanceTerminating)}
		}
		out.Claims = append(out.Claims, ca)
	}
	out.Instance = w.cp.state(thePID)
	return out, nil
}

// ---------------------------------------------------------------- generators

var tolVariants = []string{"none", "none", "none", "exact", "equal", "all", "anyEffect", "wrongEffect", "otherKey"}
var phases = []string{"Running", "Running", "Running", "Pending", "Succeeded", "Failed"}
var condStates = []string{"", "True", "False", "Unknown"}

func pick[T any](r *rand.Rand, xs []T) T { return xs[r.IntN(len(xs))] }

// edge picks an instant at / just before / just after `edge`, or far from it
func around(r *rand.Rand, edge int64) int64 {
	switch r.IntN(6) {
	case 0:
		return edge
	case 1:
		return edge - 1
	case 2:
		return edge + 1
	case 3:
		return edge - second
	case 4:
		return edge + second
	}
	return edge + (r.Int64N(600)-300)*second
}

func genPods(r *rand.Rand, now int64, maxPods int, calm float64) []PodIn {
	var pods []PodIn
	n := r.IntN(maxPods + 1)
	for i := 0; i < n; i++ {
		p := PodIn{Name: fmt.Sprintf("pod-%d", i), Tol: "none", Phase: "Running", PV: -1}
		if r.Float64() < calm {
			// a pod that cannot hold the drain: tolerating, static, terminal or stuck terminating
			switch r.IntN(4) {
			case 0:
				p.Tol = pick(r, []string{"exact", "equal", "all", "anyEffect"})
			case 1:
				p.Mirror = true
			case 2:
				p.Phase = pick(r, []string{"Succeeded", "Failed"})
			case 3:
				d := floorSec(now) - (61+r.Int64N(600))*second
				p.DeletedAt = &d
			}
		} else {
			p.Tol = pick(r, tolVariants)
			p.Mirror = r.Float64() < 0.1
			p.Phase = pick(r, phases)
			if r.Float64() < 0.3 {
				// deletion timestamps around the one-minute "stuck terminating" edge (whole seconds)
				d := floorSec(now) - 60*second + (r.Int64N(5)-2)*second
				if r.Float64() < 0.3 {
					d = floorSec(now) + r.Int64N(120)*second // still within its grace period
				}
				p.DeletedAt = &d
			}
		}
		p.Daemon = r.Float64() < 0.15
		p.OtherNode = r.Float64() < 0.08
		if r.Float64() < 0.4 {
			p.PV = r.IntN(4)
			p.PVCMissing = r.Float64() < 0.1
			p.Ephemeral = r.Float64() < 0.2
		}
		pods = append(pods, p)
	}
	return pods
}

func genVAs(r *rand.Rand, maxVAs int) []VAIn {
	var vas []VAIn
	n := r.IntN(maxVAs + 1)
	for i := 0; i < n; i++ {
		v := VAIn{Name: fmt.Sprintf("va-%d", i), PV: r.IntN(4)}
		if r.Float64() < 0.1 {
			v.PV = -1
		}
		v.OtherNode = r.Float64() < 0.1
		// the transitional states of an attachment: deleted but held by the attacher's finalizer; not (yet / any more) attached
		v.Deleting = r.Float64() < 0.35
		v.Unattached = r.Float64() < 0.2
		vas = append(vas, v)
	}
	return vas
}

var nodeFaultKinds = []string{"listClaims", "deleteClaim", "providerGet", "patchNode", "listPods#0", "listPods#1", "listVAs", "getPVC", "providerDelete", "patchClaimStatus", "removeNodeFinalizer"}

// providerFaultClasses: how a provider Get / Delete can fail (or, "wrapnf", answer honestly in a wrapped error): a plain
// error, a crash, and the near misses of "instance not found" (see providerErr). Every failing class leaves the
// instance alone and must be read as "not confirmed gone".
var providerFaultClasses = []string{"err", "crash", "apiNotFound", "apiNotFoundBare", "apiConflict", "apiGone", "ncnr", "ice", "ctx", "notFoundText", "wrapnf"}

func faultClassesFor(kind string) []string {
	switch kind {
	case "providerCreate":
		return []string{"err", "crash"}
	case "providerGet", "providerDelete":
		return providerFaultClasses
	case "listClaims", "listPods#0", "listPods#1", "listVAs", "listNodes", "listPods":
		return []string{"err", "crash"}
	}
	return []string{"err", "conflict", "notfound", "crash"}
}

func genFaults(r *rand.Rand, kinds []string, p float64) map[string]string {
	f := map[string]string{}
	if r.Float64() >= p {
		return f
	}
	n := 1
	if r.Float64() < 0.25 {
		n = 2
	}
	for i := 0; i < n; i++ {
		k := pick(r, kinds)
		f[k] = pick(r, faultClassesFor(k))
	}
	return f
}

func genNode(r *rand.Rand, t core.Tier) any {
	now := (1000 + r.Int64N(1000)) * second
	if r.Float64() < 0.5 {
		now += r.Int64N(second)
	}
	in := NodeIn{Now: now, Claims: []ClaimIn{}, Pods: []PodIn{}, VAs: []VAIn{}, Instance: "running", Faults: map[string]string{}}
	in.Node = NodeObs{Finalizer: true, Deleting: true, Managed: true, Ready: "True", Taint: pick(r, []string{"none", "ok", "ok", "wrongEffect", "other"}), LB: r.Float64() < 0.5, HasPID: true}
	if r.Float64() < 0.06 {
		in.Node.Finalizer = false
	}
	if r.Float64() < 0.06 {
		in.Node.Deleting = false
	}
	if r.Float64() < 0.05 {
		in.Node.Managed = false
	}
	if r.Float64() < 0.04 {
		in.Node.HasPID = false
	}
	if r.Float64() < 0.3 {
		in.Node.Ready = pick(r, []string{"False", "Unknown", ""})
	}
	in.Instance = pick(r, []string{"running", "running", "terminating", "gone", "gone"})
	// claims: mostly exactly one
	nClaims := 1
	switch x := r.Float64(); {
	case x < 0.08:
		nClaims = 0
	case x < 0.16:
		nClaims = 2
	}
	// how far the protocol has progressed: bias towards "drain finished" so that later stages are reached
	progressed := r.Float64() < 0.7
	for i := 0; i < nClaims; i++ {
		c := ClaimIn{Deleting: r.Float64() < 0.7}
		if progressed {
			c.Drained = pick(r, []string{"True", "True", "Unknown"})
			c.Vol = pick(r, condStates)
			c.Inst = pick(r, []string{"", "", "True"})
		} else {
			c.Drained = pick(r, condStates)
			c.Vol = pick(r, condStates)
			c.Inst = pick(r, condStates)
		}
		// Drained transition time around the MinDrainTime edge (whole seconds)
		c.DrainedAt = floorSec(now) - 5*second + (r.Int64N(5)-2)*second
		if r.Float64() < 0.3 {
			c.DrainedAt = floorSec(now) - (10+r.Int64N(100))*second
		}
		if r.Float64() < 0.45 {
			tt := floorSec(around(r, now))
			c.Term = &tt
		}
		if r.Float64() < 0.03 {
			c.TermBad = true
		}
		if i > 0 && r.Float64() < 0.3 {
			c.OtherPID = true
		}
		in.Claims = append(in.Claims, c)
	}
	calm := 0.0
	if progressed {
		calm = 0.85
	}
	in.Pods = append(in.Pods, genPods(r, now, 4, calm)...)
	if r.Float64() < 0.5 {
		in.VAs = append(in.VAs, genVAs(r, 3)...)
	}
	in.Faults = genFaults(r, nodeFaultKinds, 0.3)
	// two claims for one provider id: keep the inputs that reproduce the recorded finding rare (a waiting pod holds the node)
	// (the engine keeps 20 failures per op: recorded findings must not crowd out new ones, in either tier)
	hold := 0.97
	if t == core.Thorough {
		hold = 0.997
	}
	if mine := countMine(in.Claims); mine > 1 && r.Float64() < hold {
		in.Pods = append(in.Pods, PodIn{Name: "pod-hold", Tol: "none", Phase: "Running", PV: -1})
	}
	return in
}

func countMine(cs []ClaimIn) int {
	n := 0
	for _, c := range cs {
		if !c.OtherPID {
			n++
		}
	}
	return n
}

// enumNode: exhaustive core. One claim; every combination of
// ready x instance x taint x drained-condition state/age x (no pod | a waiting pod | a harmless pod) x
// (no attachment | blocking attachment | attachment of an undrainable pod) x termination deadline (none|past|future),
// and for a representative subset every single fault position x class.
func enumNode(t core.Tier) []any {
	var out []any
	now := 2000 * second
	past, future := now-10*second, now+10*second
	type podCase struct {
		name string
		pods []PodIn
	}
	stuck := now - 61*second
	fresh := now - 60*second
	podCases := []podCase{
		{"none", nil},
		{"waiting", []PodIn{{Name: "pod-0", Tol: "none", Phase: "Running", PV: -1}}},
		{"tolerating", []PodIn{{Name: "pod-0", Tol: "exact", Phase: "Running", PV: -1}}},
		{"stuck", []PodIn{{Name: "pod-0", Tol: "none", Phase: "Running", PV: -1, DeletedAt: &stuck}}},
		{"terminating", []PodIn{{Name: "pod-0", Tol: "none", Phase: "Running", PV: -1, DeletedAt: &fresh}}},
		{"terminal", []PodIn{{Name: "pod-0", Tol: "none", Phase: "Succeeded", PV: -1}}},
		{"mirror", []PodIn{{Name: "pod-0", Tol: "none", Mirror: true, Phase: "Running", PV: -1}}},
	}
	type vaCase struct {
		name string
		vas  []VAIn
		pods []PodIn
	}
	vaCases := []vaCase{
		{"none", nil, nil},
		{"blocking", []VAIn{{Name: "va-0", PV: 1}}, nil},
		{"detaching", []VAIn{{Name: "va-0", PV: 1, Deleting: true}}, nil},
		{"unattached", []VAIn{{Name: "va-0", PV: 1, Unattached: true}}, nil},
		{"detach-failing", []VAIn{{Name: "va-0", PV: 1, Deleting: true, Unattached: true}, {Name: "va-1", PV: -1, Deleting: true}}, nil},
		{"undrainable", []VAIn{{Name: "va-0", PV: 1}}, []PodIn{{Name: "pod-9", Tol: "all", Phase: "Running", PV: 1}}},
		{"inline", []VAIn{{Name: "va-0", PV: -1}}, nil},
	}
	terms := []*int64{nil, &past, &future}
	for _, ready := range []string{"True", "False"} {
		for _, inst := range []string{"running", "terminating", "gone"} {
			for _, taint := range []string{"none", "ok"} {
				for _, drained := range []string{"", "Unknown:new", "Unknown:old", "True"} {
					for _, pc := range podCases {
						for _, vc := range vaCases {
							for _, term := range terms {
								c := ClaimIn{Deleting: true, Term: term}
								switch drained {
								case "Unknown:new":
									c.Drained, c.DrainedAt = "Unknown", now-4*second
								case "Unknown:old":
									c.Drained, c.DrainedAt = "Unknown", now-5*second
								case "True":
									c.Drained, c.DrainedAt = "True", now-100*second
								}
								in := NodeIn{Now: now, Node: NodeObs{Finalizer: true, Deleting: true, Managed: true, Ready: ready, Taint: taint, LB: taint == "ok", HasPID: true},
									Claims: []ClaimIn{c}, Pods: append(append([]PodIn{}, pc.pods...), vc.pods...), VAs: append([]VAIn{}, vc.vas...), Instance: inst, Faults: map[string]string{}}
								if in.Pods == nil {
									in.Pods = []PodIn{}
								}
								if in.VAs == nil {
									in.VAs = []VAIn{}
								}
								out = append(out, in)
							}
						}
					}
				}
			}
		}
	}
	// every single fault position x class on states that reach every call
	for _, ready := range []string{"True", "False"} {
		for _, inst := range []string{"running", "gone"} {
			for _, nClaims := range []int{0, 1, 2} {
				for _, blocked := range []string{"clear", "pod", "va", "va-expired", "va-detaching", "va-detaching-expired"} {
					if nClaims == 2 && (blocked == "clear" || blocked == "va-expired" || blocked == "va-detaching-expired") {
						// two claims for one provider id: the finalizer would be removed with the instance running (the
						// recorded finding C09-node-duplicate-claims; its witness is in the corpus) - keep such inputs rare
						continue
					}
					for _, k := range nodeFaultKinds {
						for _, cls := range faultClassesFor(k) {
							in := NodeIn{Now: now, Node: NodeObs{Finalizer: true, Deleting: true, Managed: true, Ready: ready, Taint: "none", HasPID: true},
								Claims: []ClaimIn{}, Pods: []PodIn{{Name: "pod-8", Tol: "all", Phase: "Running", PV: 2}}, VAs: []VAIn{{Name: "va-8", PV: 2}}, Instance: inst, Faults: map[string]string{k: cls}}
							for i := 0; i < nClaims; i++ {
								c := ClaimIn{Deleting: i == 1, Drained: "Unknown", DrainedAt: now - 30*second}
								if blocked == "va-expired" || blocked == "va-detaching-expired" {
									c.Term = &past
								}
								in.Claims = append(in.Claims, c)
							}
							switch blocked {
							case "pod":
								in.Pods = append(in.Pods, PodIn{Name: "pod-0", Tol: "none", Phase: "Running", PV: -1})
							case "va", "va-expired":
								in.VAs = append(in.VAs, VAIn{Name: "va-0", PV: 1})
							case "va-detaching", "va-detaching-expired":
								in.VAs = append(in.VAs, VAIn{Name: "va-0", PV: 1, Deleting: true})
							}
							out = append(out, in)
						}
					}
				}
			}
		}
	}
	return out
}

// ---------------------------------------------------------------- op plumbing

func nodeReached(o map[string]any) []string {
	var calls []string
	if cs, ok := o["calls"].([]any); ok {
		for _, c := range cs {
			calls = append(calls, fmt.Sprint(c))
		}
	}
	return calls
}

func has(xs []string, x string) bool {
	for _, y := range xs {
		if y == x {
			return true
		}
	}
	return false
}

func sortedKeys(m map[string]string) []string {
	var ks []string
	for k := range m {
		ks = append(ks, k)
	}
	sort.Strings(ks)
	return ks
}

func nodeLabels(raw json.RawMessage, impl any) []string {
	var in NodeIn
	json.Unmarshal(raw, &in)
	l := []string{fmt.Sprintf("claims=%d", len(in.Claims)), "ready=" + in.Node.Ready, "instance=" + in.Instance, "taint=" + in.Node.Taint}
	if o, ok := impl.(map[string]any); ok {
		calls := nodeReached(o)
		for _, c := range []string{"deleteClaim", "providerGet", "patchNode", "providerDelete", "patchClaimStatus", "removeNodeFinalizer"} {
			if has(calls, c) {
				l = append(l, "call:"+c)
			}
		}
		l = append(l, "result="+fmt.Sprint(o["result"]), "err="+fmt.Sprint(o["err"]))
		if rm, ok := o["removed"].([]any); ok && len(rm) > 0 {
			l = append(l, "finalizer-removed")
		}
	}
	for _, k := range sortedKeys(in.Faults) {
		l = append(l, "fault:"+k+"="+in.Faults[k])
	}
	if len(in.Faults) == 0 {
		l = append(l, "fault:none")
	}
	l = append(l, vaLabels(in.VAs)...)
	return l
}

// vaLabels: which kinds of volume attachment of the node the input holds
func vaLabels(vas []VAIn) []string {
	seen := map[string]bool{}
	for _, v := range vas {
		if v.OtherNode {
			continue
		}
		k := "va:plain"
		switch {
		case v.PV < 0:
			k = "va:inline"
		case v.Deleting && v.Unattached:
			k = "va:detach-failing"
		case v.Deleting:
			k = "va:deleting"
		case v.Unattached:
			k = "va:unattached"
		}
		seen[k] = true
	}
	if len(seen) == 0 {
		return []string{"va:none"}
	}
	var l []string
	for k := range seen {
		l = append(l, k)
	}
	sort.Strings(l)
	return l
}

func nodeSignature(raw json.RawMessage, impl any) string {
	var in NodeIn
	json.Unmarshal(raw, &in)
	mine := 0
	for _, c := range in.Claims {
		if !c.OtherPID {
			mine++
		}
	}
	if mine > 1 && in.Node.HasPID {
		return "node:duplicate-claims"
	}
	return "node"
}

func shrinkNode(raw json.RawMessage) []any {
	var in NodeIn
	json.Unmarshal(raw, &in)
	var out []any
	for _, ps := range core.ShrinkList(in.Pods) {
		c := in
		c.Pods = ps
		if c.Pods == nil {
			c.Pods = []PodIn{}
		}
		out = append(out, c)
	}
	for _, vs := range core.ShrinkList(in.VAs) {
		c := in
		c.VAs = vs
		if c.VAs == nil {
			c.VAs = []VAIn{}
		}
		out = append(out, c)
	}
	for _, k := range sortedKeys(in.Faults) {
		c := in
		c.Faults = map[string]string{}
		for k2, v := range in.Faults {
			if k2 != k {
				c.Faults[k2] = v
			}
		}
		out = append(out, c)
	}
	return out
}
