package c09

import (
	"encoding/json"
	"fmt"
	"math/rand/v2"
	"sort"
	"time"

	corev1 "k8s.io/api/core/v1"
	metav1 "k8s.io/apimachinery/pkg/apis/meta/v1"
	"k8s.io/apimachinery/pkg/types"
	"sigs.k8s.io/controller-runtime/pkg/client"

	v1 "sigs.k8s.io/karpenter/pkg/apis/v1"

	"verifharness/internal/core"
)

// ClaimStateIn: the NodeClaim the lifecycle controller reconciles.
type ClaimStateIn struct {
	Managed   bool `json:"managed"`
	Deleting  bool `json:"deleting"`
	Finalizer bool `json:"finalizer"`
	// Fresh: no status conditions yet (never reconciled); otherwise Launched / Registered as given
	Fresh      bool   `json:"fresh"`
	PID        bool   `json:"pid"` // status.providerID persisted
	Launched   string `json:"launched"`
	Registered string `json:"registered"`
	Inst       string `json:"inst"` // InstanceTerminating
	// Term: termination-timestamp annotation (whole seconds, ns), nil = absent
	Term *int64 `json:"term"`
	// TGP: spec.terminationGracePeriod in ns, nil = unset
	TGP *int64 `json:"tgp"`
	// DeletedAt: deletionTimestamp (whole seconds, ns) when Deleting
	DeletedAt int64 `json:"deletedAt"`
}

type NodeRefIn struct {
	Name     string `json:"name"`
	Deleting bool   `json:"deleting"`
	// Held: carries the karpenter termination finalizer (a deleted Node without any finalizer disappears at once)
	Held     bool `json:"held"`
	OtherPID bool `json:"otherPid"`
}

type ClaimOpIn struct {
	Now      int64             `json:"now"`
	Claim    ClaimStateIn      `json:"claim"`
	Nodes    []NodeRefIn       `json:"nodes"`
	Instance string            `json:"instance"` // running | terminating | gone
	Faults   map[string]string `json:"faults"`
}

type NodeAfter struct {
	Name     string `json:"name"`
	Exists   bool   `json:"exists"`
	Deleting bool   `json:"deleting"`
}

type ClaimOpOut struct {
	Calls      []string    `json:"calls"`
	Result     string      `json:"result"`
	Err        bool        `json:"err"`
	Exists     bool        `json:"exists"`
	Deleting   bool        `json:"deleting"`
	Finalizer  bool        `json:"finalizer"`
	Annotated  *int64      `json:"annotated"` // the stored termination deadline afterwards
	Inst       string      `json:"inst"`
	PID        bool        `json:"pid"`
	Launched   string      `json:"launched"`
	NodesAfter []NodeAfter `json:"nodesAfter"`
	Instance   string      `json:"instance"`
	Removed    []Snapshot  `json:"removed"`
}

func buildClaim(c ClaimStateIn, now int64) *v1.NodeClaim {
	nc := &v1.NodeClaim{
		ObjectMeta: metav1.ObjectMeta{Name: claimNm, UID: types.UID("uid-" + claimNm), CreationTimestamp: mt(floorSec(now) - 30*second), Annotations: map[string]string{}},
		Spec:       v1.NodeClaimSpec{NodeClassRef: nodeClassRef()},
	}
	if !c.Managed {
		nc.Spec.NodeClassRef = &v1.NodeClassReference{Group: "other.example.com", Kind: "OtherNodeClass", Name: "default"}
	}
	if c.Finalizer {
		nc.Finalizers = []string{v1.TerminationFinalizer}
	}
	if c.Deleting {
		ts := mt(c.DeletedAt)
		nc.DeletionTimestamp = &ts
		if !c.Finalizer {
			nc.Finalizers = []string{"example.com/other-finalizer"}
		}
	}
	if c.PID {
		nc.Status.ProviderID = thePID
		nc.Status.NodeName = nodeNm
	}
	if !c.Fresh {
		condAt := floorSec(now) - 20*second
		nc.Status.Conditions = livingConditions(c.Launched, c.Registered, condAt)
		for i := range nc.Status.Conditions {
			if nc.Status.Conditions[i].Type == v1.ConditionTypeRegistered && c.Registered == "Unknown" {
				nc.Status.Conditions[i].Reason, nc.Status.Conditions[i].Message = "NodeNotFound", "Node not registered with cluster"
			}
		}
		setCond(nc, v1.ConditionTypeInstanceTerminating, c.Inst, condAt)
	}
	if c.Term != nil {
		nc.Annotations[v1.NodeClaimTerminationTimestampAnnotationKey] = at(*c.Term).Format(time.RFC3339)
	}
	if c.TGP != nil {
		nc.Spec.TerminationGracePeriod = &metav1.Duration{Duration: time.Duration(*c.TGP)}
	}
	return nc
}

func buildNodeRef(n NodeRefIn, now int64) *corev1.Node {
	node := &corev1.Node{
		ObjectMeta: metav1.ObjectMeta{Name: n.Name, UID: types.UID("uid-" + n.Name), CreationTimestamp: mt(floorSec(now) - 25*second), Labels: map[string]string{nodeClassLabel: "default"}},
		Spec:       corev1.NodeSpec{ProviderID: thePID},
		Status:     corev1.NodeStatus{Conditions: []corev1.NodeCondition{{Type: corev1.NodeReady, Status: corev1.ConditionTrue}}},
	}
	if n.OtherPID {
		node.Spec.ProviderID = "fake://some-other-instance"
	}
	if n.Held {
		node.Finalizers = []string{v1.TerminationFinalizer}
	}
	if n.Deleting {
		ts := mt(floorSec(now) - 5*second)
		node.DeletionTimestamp = &ts
		if !n.Held {
			node.Finalizers = []string{"example.com/other-finalizer"}
		}
	}
	return node
}

func implClaim(raw json.RawMessage) (any, error) {
	var in ClaimOpIn
	if err := json.Unmarshal(raw, &in); err != nil {
		return nil, err
	}
	objs := []client.Object{buildClaim(in.Claim, in.Now)}
	for _, n := range in.Nodes {
		objs = append(objs, buildNodeRef(n, in.Now))
	}
	w := newWorld(in.Now, objs...)
	w.seedInstance(in.Instance, thePID)
	if in.Instance != "gone" || in.Claim.PID {
		w.cp.created[claimNm] = []string{thePID} // ground truth: the provider launched an instance for this claim
	}
	res, isErr := w.reconcileClaim(claimNm, in.Faults)
	if !in.Claim.Deleting && res != "crash" {
		res = "-" // the launch path's requeue interval depends on the liveness timers, which C09 does not model
	}
	out := ClaimOpOut{Calls: append([]string{}, w.calls...), Result: res, Err: isErr, NodesAfter: []NodeAfter{}, Removed: append([]Snapshot{}, w.removed...)}
	if nc := w.claim(claimNm); nc != nil {
		out.Exists, out.Deleting, out.Finalizer = true, nc.DeletionTimestamp != nil, hasFinalizer(nc)
		out.Annotated = termTimeOf(nc)
		out.Inst = condOf(nc, v1.ConditionTypeInstanceTerminating)
		out.PID = nc.Status.ProviderID != ""
		out.Launched = condOf(nc, v1.ConditionTypeLaunched)
		out.Instance = w.instanceOfClaim(nc)
	} else {
		out.Instance = w.instanceOfClaim(buildClaim(in.Claim, in.Now))
	}
	for _, n := range in.Nodes {
		na := NodeAfter{Name: n.Name}
		if cur := w.node(n.Name); cur != nil {
			na.Exists, na.Deleting = true, cur.DeletionTimestamp != nil
		}
		out.NodesAfter = append(out.NodesAfter, na)
	}
	sort.Slice(out.NodesAfter, func(i, j int) bool { return out.NodesAfter[i].Name < out.NodesAfter[j].Name })
	return out, nil
}

var claimFaultKinds = []string{"annotateClaim", "listNodes", "deleteNode", "providerDelete", "patchClaimStatus", "removeClaimFinalizer"}
var launchFaultKinds = []string{"addClaimFinalizer", "providerCreate", "listNodes", "patchClaim", "patchClaimStatus"}

func claimFaultClasses(kind string) []string {
	if kind == "providerCreate" {
		return []string{"err", "ice", "ncnr", "crash"}
	}
	return faultClassesFor(kind)
}

func genClaimFaults(r *rand.Rand, kinds []string, p float64) map[string]string {
	f := map[string]string{}
	if r.Float64() >= p {
		return f
	}
	n := 1
	if r.Float64() < 0.25 {
		n = 2
	}
	for i := 0; i < n; i++ {
		k := pick(r, kinds)
		f[k] = pick(r, claimFaultClasses(k))
	}
	return f
}

func genClaim(r *rand.Rand, t core.Tier) any {
	now := (1000 + r.Int64N(1000)) * second
	if r.Float64() < 0.5 {
		now += r.Int64N(second)
	}
	in := ClaimOpIn{Now: now, Nodes: []NodeRefIn{}, Instance: "running", Faults: map[string]string{}}
	if r.Float64() < 0.15 {
		// launch path: a claim that was never reconciled
		in.Claim = ClaimStateIn{Managed: r.Float64() < 0.95, Fresh: true, Finalizer: r.Float64() < 0.3}
		in.Instance = "gone"
		in.Faults = genClaimFaults(r, launchFaultKinds, 0.6)
		return in
	}
	c := ClaimStateIn{Managed: true, Deleting: true, Finalizer: true, PID: true, Launched: "True", Registered: "True", DeletedAt: floorSec(now) - r.Int64N(100)*second}
	if r.Float64() < 0.04 {
		c.Managed = false
	}
	if r.Float64() < 0.05 {
		c.Finalizer = false
	}
	if r.Float64() < 0.08 {
		c.Deleting = false // a healthy claim: nothing to do
	}
	if r.Float64() < 0.3 {
		c.Registered = pick(r, []string{"Unknown", "False"})
	}
	c.Inst = pick(r, []string{"", "", "True", "Unknown", "False"})
	if r.Float64() < 0.4 {
		g := (1 + r.Int64N(120)) * second
		if r.Float64() < 0.1 {
			g = 0
		}
		c.TGP = &g
	}
	if r.Float64() < 0.3 {
		tt := floorSec(around(r, now))
		c.Term = &tt
	}
	in.Instance = pick(r, []string{"running", "terminating", "gone", "gone"})
	pLeak := 0.002
	if t == core.Thorough {
		pLeak = 0.0002
	}
	if r.Float64() < pLeak && c.Deleting {
		// the state left behind when the provider created the instance but the provider id could not be persisted
		// (recorded finding C09-unpersisted-provider-id; kept rare)
		c.PID, c.Launched, c.Registered = false, "Unknown", "Unknown"
		in.Instance = "running"
	} else if r.Float64() < 0.08 {
		// launch failed: nothing was created
		c.PID, c.Launched, c.Registered = false, pick(r, []string{"Unknown", "False"}), "Unknown"
		in.Instance = "gone"
	}
	if !c.Deleting {
		// outside the finalize path only the healthy claim is in the model's domain (registration is C14's)
		c.PID, c.Launched, c.Registered, c.DeletedAt = true, "True", "True", 0
	}
	in.Claim = c
	// nodes: bias to none so that the instance step is reached
	if c.PID {
		switch x := r.Float64(); {
		case x < 0.55:
		case x < 0.9:
			// mostly the Node the claim names (status.nodeName = node-0); sometimes only a Node under another name
			// carries the provider id (re-registered kubelet)
			in.Nodes = append(in.Nodes, NodeRefIn{Name: pick(r, []string{"node-0", "node-0", "node-1"}), Deleting: r.Float64() < 0.5, Held: r.Float64() < 0.8})
		default:
			in.Nodes = append(in.Nodes, NodeRefIn{Name: "node-0", Deleting: r.Float64() < 0.5, Held: r.Float64() < 0.8},
				NodeRefIn{Name: "node-1", Deleting: r.Float64() < 0.5, Held: r.Float64() < 0.8})
		}
		if r.Float64() < 0.15 {
			in.Nodes = append(in.Nodes, NodeRefIn{Name: "node-x", OtherPID: true, Held: true})
		}
	}
	in.Faults = genClaimFaults(r, claimFaultKinds, 0.3)
	return in
}

// enumClaim: registered x provider-id x instance x nodes (none | one live | one terminating | live + terminating)
// x InstanceTerminating x grace period/annotation, and every single fault position x class on the states that
// reach every call; plus the launch path (Create outcome x persisting faults).
func enumClaim(_ core.Tier) []any {
	var out []any
	now := 2000 * second
	g := 30 * second
	tt := now - 10*second
	nodeCases := [][]NodeRefIn{
		{},
		{{Name: "node-0", Held: true}},
		{{Name: "node-0", Held: true, Deleting: true}},
		{{Name: "node-0", Held: false}},
		{{Name: "node-0", Held: true}, {Name: "node-1", Held: true, Deleting: true}},
		{{Name: "node-x", Held: true, OtherPID: true}},
		// the Node that status.nodeName names is gone, but the instance is still represented by a Node object under
		// another name (the kubelet re-registered under a new node name): it is a Node of the claim all the same
		{{Name: "node-1", Held: true}},
		{{Name: "node-1", Held: true, Deleting: true}},
		{{Name: "node-1", Held: false}, {Name: "node-2", Held: true}},
	}
	for _, reg := range []string{"True", "Unknown", "False"} {
		for _, inst := range []string{"running", "terminating", "gone"} {
			for _, nodes := range nodeCases {
				for _, ic := range []string{"", "True"} {
					for _, ann := range []string{"none", "tgp", "tgp+term"} {
						c := ClaimStateIn{Managed: true, Deleting: true, Finalizer: true, PID: true, Launched: "True", Registered: reg, Inst: ic, DeletedAt: now - 20*second}
						switch ann {
						case "tgp":
							c.TGP = &g
						case "tgp+term":
							c.TGP, c.Term = &g, &tt
						}
						out = append(out, ClaimOpIn{Now: now, Claim: c, Nodes: append([]NodeRefIn{}, nodes...), Instance: inst, Faults: map[string]string{}})
					}
				}
			}
		}
	}
	// claims without a persisted provider id whose launch failed (nothing to terminate)
	for _, reg := range []string{"Unknown", "False"} {
		c := ClaimStateIn{Managed: true, Deleting: true, Finalizer: true, PID: false, Launched: "Unknown", Registered: reg, DeletedAt: now - 20*second}
		out = append(out, ClaimOpIn{Now: now, Claim: c, Nodes: []NodeRefIn{}, Instance: "gone", Faults: map[string]string{}})
	}
	// single faults
	for _, inst := range []string{"running", "gone"} {
		for _, nodes := range nodeCases[:3] {
			for _, k := range claimFaultKinds {
				for _, cls := range claimFaultClasses(k) {
					c := ClaimStateIn{Managed: true, Deleting: true, Finalizer: true, PID: true, Launched: "True", Registered: "True", TGP: &g, DeletedAt: now - 20*second}
					out = append(out, ClaimOpIn{Now: now, Claim: c, Nodes: append([]NodeRefIn{}, nodes...), Instance: inst, Faults: map[string]string{k: cls}})
				}
			}
		}
	}
	// launch path
	for _, fin := range []bool{false, true} {
		out = append(out, ClaimOpIn{Now: now, Claim: ClaimStateIn{Managed: true, Fresh: true, Finalizer: fin}, Nodes: []NodeRefIn{}, Instance: "gone", Faults: map[string]string{}})
		for _, k := range launchFaultKinds {
			for _, cls := range claimFaultClasses(k) {
				out = append(out, ClaimOpIn{Now: now, Claim: ClaimStateIn{Managed: true, Fresh: true, Finalizer: fin}, Nodes: []NodeRefIn{}, Instance: "gone", Faults: map[string]string{k: cls}})
			}
		}
	}
	return out
}

func claimLabels(raw json.RawMessage, impl any) []string {
	var in ClaimOpIn
	json.Unmarshal(raw, &in)
	l := []string{fmt.Sprintf("nodes=%d", len(in.Nodes)), "instance=" + in.Instance, "registered=" + in.Claim.Registered, fmt.Sprintf("pid=%v", in.Claim.PID), fmt.Sprintf("deleting=%v", in.Claim.Deleting)}
	if in.Claim.Fresh {
		l = append(l, "fresh")
	}
	named, renamed := false, false
	for _, n := range in.Nodes {
		if !n.OtherPID && n.Name == nodeNm {
			named = true
		} else if !n.OtherPID {
			renamed = true
		}
	}
	if renamed && !named {
		l = append(l, "nodes:only-under-another-name")
	}
	if o, ok := impl.(map[string]any); ok {
		calls := nodeReached(o)
		for _, c := range []string{"annotateClaim", "deleteNode", "providerDelete", "patchClaimStatus", "removeClaimFinalizer", "addClaimFinalizer", "providerCreate", "patchClaim"} {
			if has(calls, c) {
				l = append(l, "call:"+c)
			}
		}
		l = append(l, "result="+fmt.Sprint(o["result"]), "err="+fmt.Sprint(o["err"]))
		if rm, ok := o["removed"].([]any); ok && len(rm) > 0 {
			l = append(l, "finalizer-removed")
		}
	}
	for _, k := range sortedKeys(in.Faults) {
		l = append(l, "fault:"+k+"="+in.Faults[k])
	}
	if len(in.Faults) == 0 {
		l = append(l, "fault:none")
	}
	return l
}

func shrinkClaim(raw json.RawMessage) []any {
	var in ClaimOpIn
	json.Unmarshal(raw, &in)
	var out []any
	for _, ns := range core.ShrinkList(in.Nodes) {
		c := in
		c.Nodes = ns
		if c.Nodes == nil {
			c.Nodes = []NodeRefIn{}
		}
		out = append(out, c)
	}
	for _, k := range sortedKeys(in.Faults) {
		c := in
		c.Faults = map[string]string{}
		for k2, v := range in.Faults {
			if k2 != k {
				c.Faults[k2] = v
			}
		}
		out = append(out, c)
	}
	return out
}
