package world

import (
	"context"
	"fmt"
	"reflect"
	"sort"
	"strings"
	"sync"
	"time"

	"github.com/go-logr/logr"
	appsv1 "k8s.io/api/apps/v1"
	corev1 "k8s.io/api/core/v1"
	storagev1 "k8s.io/api/storage/v1"
	apierrors "k8s.io/apimachinery/pkg/api/errors"
	"k8s.io/apimachinery/pkg/api/resource"
	metav1 "k8s.io/apimachinery/pkg/apis/meta/v1"
	"k8s.io/apimachinery/pkg/runtime/serializer"
	"k8s.io/apimachinery/pkg/types"
	"k8s.io/client-go/kubernetes/scheme"
	clienttesting "k8s.io/client-go/testing"
	clock "k8s.io/utils/clock/testing"
	"sigs.k8s.io/controller-runtime/pkg/client"
	"sigs.k8s.io/controller-runtime/pkg/client/fake"
	"sigs.k8s.io/controller-runtime/pkg/client/interceptor"
	crlog "sigs.k8s.io/controller-runtime/pkg/log"

	_ "sigs.k8s.io/karpenter/pkg/apis"
	v1 "sigs.k8s.io/karpenter/pkg/apis/v1"
	"sigs.k8s.io/karpenter/pkg/cloudprovider"
	fakecp "sigs.k8s.io/karpenter/pkg/cloudprovider/fake"
	"sigs.k8s.io/karpenter/pkg/controllers/provisioning"
	provsched "sigs.k8s.io/karpenter/pkg/controllers/provisioning/scheduling"
	"sigs.k8s.io/karpenter/pkg/controllers/state"
	"sigs.k8s.io/karpenter/pkg/operator/options"
	"sigs.k8s.io/karpenter/pkg/scheduling"
	"sigs.k8s.io/karpenter/pkg/state/virtualpods"
	"sigs.k8s.io/karpenter/pkg/test"

	rg "verifharness/internal/reqgen"
)

// T0 is the fixed wall clock of every world.
var T0 = time.Date(2026, 1, 1, 12, 0, 0, 0, time.UTC)

type World struct {
	Ctx     context.Context
	Client  client.Client
	Cluster *state.Cluster
	CP      *fakecp.CloudProvider
	Clock   *clock.FakeClock
	Prov    *provisioning.Provisioner
	Scn     *Scenario
	ITs     map[string]*cloudprovider.InstanceType
	uidN    int
	faults  *listFaults
}

// listFaults injects the scenario's ListFaults: while armed (only during World.Schedule) it counts the Lists per kind and
// fails the Nth one once.
type listFaults struct {
	mu     sync.Mutex
	armed  bool
	faults []ListFault
	counts map[string]int
	// Fired records the faults that were actually injected ("Kind#N")
	Fired []string
	// errLogs: messages logged at error level
	errLogs []string
}

// ListKind names the kind a List call is about: the list type's name without its "List" suffix.
func ListKind(list client.ObjectList) string {
	t := reflect.TypeOf(list)
	for t.Kind() == reflect.Pointer {
		t = t.Elem()
	}
	return strings.TrimSuffix(t.Name(), "List")
}

func (f *listFaults) onList(list client.ObjectList) error {
	if f == nil {
		return nil
	}
	f.mu.Lock()
	defer f.mu.Unlock()
	if !f.armed {
		return nil
	}
	kind := ListKind(list)
	f.counts[kind]++
	for _, lf := range f.faults {
		if lf.Kind == kind && lf.Nth == f.counts[kind] {
			f.Fired = append(f.Fired, fmt.Sprintf("%s#%d", kind, lf.Nth))
			return apierrors.NewServiceUnavailable(fmt.Sprintf("verif: injected failure of List %s #%d", kind, lf.Nth))
		}
	}
	return nil
}

// onGet: a fault of kind "Get:<Type>" (e.g. "Get:PersistentVolumeClaim") fails the Nth Get of an object of that type
func (f *listFaults) onGet(obj client.Object) error {
	if f == nil {
		return nil
	}
	f.mu.Lock()
	defer f.mu.Unlock()
	if !f.armed {
		return nil
	}
	t := reflect.TypeOf(obj)
	for t.Kind() == reflect.Pointer {
		t = t.Elem()
	}
	kind := "Get:" + t.Name()
	f.counts[kind]++
	for _, lf := range f.faults {
		if lf.Kind == kind && lf.Nth == f.counts[kind] {
			f.Fired = append(f.Fired, fmt.Sprintf("%s#%d", kind, lf.Nth))
			return apierrors.NewServiceUnavailable(fmt.Sprintf("verif: injected failure of %s #%d", kind, lf.Nth))
		}
	}
	return nil
}

func (f *listFaults) arm(on bool) {
	if f == nil {
		return
	}
	f.mu.Lock()
	f.armed = on
	f.mu.Unlock()
}

// errorLog is a logr sink that only remembers the MESSAGES of error-level log lines (what the code under test says it
// swallowed); installed in the context of worlds with injected API faults.
type errorLog struct {
	mu   *sync.Mutex
	msgs *[]string
}

func (l errorLog) Init(logr.RuntimeInfo)          {}
func (l errorLog) Enabled(int) bool               { return false }
func (l errorLog) Info(int, string, ...any)       {}
func (l errorLog) WithValues(...any) logr.LogSink { return l }
func (l errorLog) WithName(string) logr.LogSink   { return l }
func (l errorLog) Error(_ error, msg string, _ ...any) {
	l.mu.Lock()
	defer l.mu.Unlock()
	for _, m := range *l.msgs {
		if m == msg {
			return
		}
	}
	*l.msgs = append(*l.msgs, msg)
}

// ErrorLogs lists the distinct messages the code logged at error level during the passes so far (sorted; only recorded for
// scenarios with injected API faults).
func (w *World) ErrorLogs() []string {
	if w.faults == nil {
		return nil
	}
	w.faults.mu.Lock()
	defer w.faults.mu.Unlock()
	out := append([]string(nil), w.faults.errLogs...)
	sort.Strings(out)
	return out
}

// FiredFaults lists the injected faults that fired during the passes so far ("Kind#N").
func (w *World) FiredFaults() []string {
	if w.faults == nil {
		return nil
	}
	w.faults.mu.Lock()
	defer w.faults.mu.Unlock()
	return append([]string(nil), w.faults.Fired...)
}

func q(milli int64) resource.Quantity { return *resource.NewMilliQuantity(milli, resource.DecimalSI) }
func qMi(mi int64) resource.Quantity  { return *resource.NewQuantity(mi*1024*1024, resource.BinarySI) }

func NewClient(objs ...client.Object) client.Client { return newClient(nil, objs...) }

func newClient(lf *listFaults, objs ...client.Object) client.Client {
	// a plain tracker: the default field-managed tracker rebuilds a REST mapper on every Create (~16x slower)
	tracker := clienttesting.NewObjectTracker(scheme.Scheme, serializer.NewCodecFactory(scheme.Scheme).UniversalDecoder())
	return fake.NewClientBuilder().WithScheme(scheme.Scheme).WithObjectTracker(tracker).
		// PersistentVolumes are cluster scoped: an API server (and the real client) ignores the namespace karpenter puts into
		// the key of VolumeTopology's PersistentVolume lookup, the fake object tracker does not
		WithInterceptorFuncs(interceptor.Funcs{Get: func(ctx context.Context, c client.WithWatch, key client.ObjectKey, obj client.Object, opts ...client.GetOption) error {
			if _, ok := obj.(*corev1.PersistentVolume); ok {
				key.Namespace = ""
			}
			if err := lf.onGet(obj); err != nil {
				return err
			}
			return c.Get(ctx, key, obj, opts...)
		}, List: func(ctx context.Context, c client.WithWatch, list client.ObjectList, opts ...client.ListOption) error {
			if err := lf.onList(list); err != nil {
				return err
			}
			return c.List(ctx, list, opts...)
		}}).
		WithStatusSubresource(&v1.NodeClaim{}, &v1.NodePool{}).
		WithIndex(&corev1.Pod{}, "spec.nodeName", func(o client.Object) []string { return []string{o.(*corev1.Pod).Spec.NodeName} }).
		WithIndex(&corev1.Node{}, "spec.providerID", func(o client.Object) []string { return []string{o.(*corev1.Node).Spec.ProviderID} }).
		WithIndex(&v1.NodeClaim{}, "status.providerID", func(o client.Object) []string { return []string{o.(*v1.NodeClaim).Status.ProviderID} }).
		WithIndex(&v1.NodeClaim{}, "spec.nodeClassRef.group", func(o client.Object) []string {
			return []string{o.(*v1.NodeClaim).Spec.NodeClassRef.Group}
		}).
		WithIndex(&v1.NodeClaim{}, "spec.nodeClassRef.kind", func(o client.Object) []string {
			return []string{o.(*v1.NodeClaim).Spec.NodeClassRef.Kind}
		}).
		WithIndex(&v1.NodeClaim{}, "spec.nodeClassRef.name", func(o client.Object) []string {
			return []string{o.(*v1.NodeClaim).Spec.NodeClassRef.Name}
		}).
		WithIndex(&v1.NodePool{}, "spec.template.spec.nodeClassRef.group", func(o client.Object) []string {
			return []string{o.(*v1.NodePool).Spec.Template.Spec.NodeClassRef.Group}
		}).
		WithIndex(&v1.NodePool{}, "spec.template.spec.nodeClassRef.kind", func(o client.Object) []string {
			return []string{o.(*v1.NodePool).Spec.Template.Spec.NodeClassRef.Kind}
		}).
		WithIndex(&v1.NodePool{}, "spec.template.spec.nodeClassRef.name", func(o client.Object) []string {
			return []string{o.(*v1.NodePool).Spec.Template.Spec.NodeClassRef.Name}
		}).
		WithObjects(objs...).Build()
}

// BuildIT converts an IT description to a cloudprovider.InstanceType (every well-known label defined).
func BuildIT(it IT) *cloudprovider.InstanceType {
	var ofs cloudprovider.Offerings
	zones, cts := []string{}, []string{}
	for _, o := range it.Offerings {
		reqs := scheduling.NewRequirements(
			scheduling.NewRequirement(corev1.LabelTopologyZone, corev1.NodeSelectorOpIn, o.Zone),
			scheduling.NewRequirement(v1.CapacityTypeLabelKey, corev1.NodeSelectorOpIn, o.CapacityType),
		)
		if o.CapacityType == v1.CapacityTypeReserved {
			reqs.Add(scheduling.NewRequirement(cloudprovider.ReservationIDLabel, corev1.NodeSelectorOpIn, o.ReservationID))
		} else {
			reqs.Add(scheduling.NewRequirement(cloudprovider.ReservationIDLabel, corev1.NodeSelectorOpDoesNotExist))
		}
		of := &cloudprovider.Offering{Requirements: reqs, Price: float64(o.Price) / 1024.0, Available: o.Available, ReservationCapacity: o.ReservationN}
		if o.CPUOverride != nil {
			of.CapacityOverride = corev1.ResourceList{corev1.ResourceCPU: q(*o.CPUOverride)}
		}
		ofs = append(ofs, of)
		if o.Available {
			zones = append(zones, o.Zone)
			cts = append(cts, o.CapacityType)
		}
	}
	os := it.OS
	if len(os) == 0 {
		os = []string{"linux"}
	}
	arch := it.Arch
	if arch == "" {
		arch = "amd64"
	}
	reqs := scheduling.NewRequirements(
		scheduling.NewRequirement(corev1.LabelInstanceTypeStable, corev1.NodeSelectorOpIn, it.Name),
		scheduling.NewRequirement(corev1.LabelArchStable, corev1.NodeSelectorOpIn, arch),
		scheduling.NewRequirement(corev1.LabelOSStable, corev1.NodeSelectorOpIn, os...),
		scheduling.NewRequirement(corev1.LabelTopologyZone, corev1.NodeSelectorOpIn, zones...),
		scheduling.NewRequirement(v1.CapacityTypeLabelKey, corev1.NodeSelectorOpIn, cts...),
	)
	return &cloudprovider.InstanceType{
		Name:         it.Name,
		Requirements: reqs,
		Offerings:    ofs,
		Capacity:     corev1.ResourceList{corev1.ResourceCPU: q(it.CPU), corev1.ResourceMemory: qMi(it.Mem), corev1.ResourcePods: *resource.NewQuantity(it.Pods, resource.DecimalSI)},
		Overhead:     &cloudprovider.InstanceTypeOverhead{KubeReserved: corev1.ResourceList{corev1.ResourceCPU: q(it.Overhead)}},
	}
}

func toTaints(ts []Taint) []corev1.Taint {
	var out []corev1.Taint
	for _, t := range ts {
		out = append(out, corev1.Taint{Key: t.Key, Value: t.Value, Effect: corev1.TaintEffect(t.Effect)})
	}
	return out
}

func toTolerations(ts []Toleration) []corev1.Toleration {
	var out []corev1.Toleration
	for _, t := range ts {
		out = append(out, corev1.Toleration{Key: t.Key, Operator: corev1.TolerationOperator(t.Operator), Value: t.Value, Effect: corev1.TaintEffect(t.Effect)})
	}
	return out
}

func toNSR(es []KExpr) []corev1.NodeSelectorRequirement {
	var out []corev1.NodeSelectorRequirement
	for _, e := range es {
		out = append(out, corev1.NodeSelectorRequirement{Key: e.Key, Operator: corev1.NodeSelectorOperator(e.Op), Values: append([]string{}, e.Values...)})
	}
	return out
}

func toLSR(es []KExpr) []metav1.LabelSelectorRequirement {
	var out []metav1.LabelSelectorRequirement
	for _, e := range es {
		out = append(out, metav1.LabelSelectorRequirement{Key: e.Key, Operator: metav1.LabelSelectorOperator(e.Op), Values: append([]string(nil), e.Values...)})
	}
	return out
}

func (w *World) nextUID(prefix string) types.UID {
	w.uidN++
	return types.UID(fmt.Sprintf("%s-%06d", prefix, w.uidN))
}

// BuildPod converts a Pod description into a corev1.Pod (pending unless nodeName is given).
func (w *World) BuildPod(p Pod, nodeName string, seq int) *corev1.Pod {
	pod := &corev1.Pod{
		ObjectMeta: metav1.ObjectMeta{
			Name: p.Name, Namespace: p.NS(), Labels: p.Labels, UID: w.nextUID("pod"),
			CreationTimestamp: metav1.NewTime(T0.Add(-time.Hour).Add(time.Duration(seq) * time.Second)),
		},
		Spec: corev1.PodSpec{
			NodeSelector: p.NodeSelector,
			Tolerations:  toTolerations(p.Tolerations),
			NodeName:     nodeName,
			Containers: []corev1.Container{{
				Name: "c", Image: "img",
				Resources: corev1.ResourceRequirements{Requests: corev1.ResourceList{corev1.ResourceCPU: q(p.CPU), corev1.ResourceMemory: qMi(p.Mem)}},
			}},
		},
	}
	for _, hp := range p.HostPorts {
		proto := corev1.Protocol(hp.Protocol)
		if proto == "" {
			proto = corev1.ProtocolTCP
		}
		pod.Spec.Containers[0].Ports = append(pod.Spec.Containers[0].Ports, corev1.ContainerPort{ContainerPort: hp.Port, HostPort: hp.Port, Protocol: proto, HostIP: hp.IP})
	}
	for _, v := range p.Volumes {
		pod.Spec.Volumes = append(pod.Spec.Volumes, corev1.Volume{Name: v.Name,
			VolumeSource: corev1.VolumeSource{PersistentVolumeClaim: &corev1.PersistentVolumeClaimVolumeSource{ClaimName: v.Claim}}})
	}
	if len(p.Required) > 0 || len(p.Preferred) > 0 {
		na := &corev1.NodeAffinity{}
		if len(p.Required) > 0 {
			ns := &corev1.NodeSelector{}
			for _, term := range p.Required {
				ns.NodeSelectorTerms = append(ns.NodeSelectorTerms, corev1.NodeSelectorTerm{MatchExpressions: toNSR(term)})
			}
			na.RequiredDuringSchedulingIgnoredDuringExecution = ns
		}
		for _, pr := range p.Preferred {
			na.PreferredDuringSchedulingIgnoredDuringExecution = append(na.PreferredDuringSchedulingIgnoredDuringExecution,
				corev1.PreferredSchedulingTerm{Weight: pr.Weight, Preference: corev1.NodeSelectorTerm{MatchExpressions: toNSR(pr.Exprs)}})
		}
		pod.Spec.Affinity = &corev1.Affinity{NodeAffinity: na}
	}
	for _, a := range p.Affinity {
		if pod.Spec.Affinity == nil {
			pod.Spec.Affinity = &corev1.Affinity{}
		}
		term := corev1.PodAffinityTerm{TopologyKey: a.TopologyKey, LabelSelector: &metav1.LabelSelector{MatchLabels: a.MatchLabels, MatchExpressions: toLSR(a.MatchExprs)},
			Namespaces: append([]string(nil), a.Namespaces...), MatchLabelKeys: append([]string(nil), a.MatchLabelKeys...)}
		if a.NamespaceSelector != nil {
			term.NamespaceSelector = &metav1.LabelSelector{MatchLabels: a.NamespaceSelector.MatchLabels, MatchExpressions: toLSR(a.NamespaceSelector.MatchExprs)}
		}
		// what the API server does when the pod is created (pod strategy, matchLabelKeys of affinity terms): merge
		// "key In [the pod's value]" into the term's selector unless it is there already
		for _, k := range a.MatchLabelKeys {
			v, ok := p.Labels[k]
			if !ok {
				continue
			}
			merged := false
			for _, e := range term.LabelSelector.MatchExpressions {
				if e.Key == k && e.Operator == metav1.LabelSelectorOpIn && len(e.Values) == 1 && e.Values[0] == v {
					merged = true
				}
			}
			if !merged {
				term.LabelSelector.MatchExpressions = append(term.LabelSelector.MatchExpressions, metav1.LabelSelectorRequirement{Key: k, Operator: metav1.LabelSelectorOpIn, Values: []string{v}})
			}
		}
		if a.Anti {
			if pod.Spec.Affinity.PodAntiAffinity == nil {
				pod.Spec.Affinity.PodAntiAffinity = &corev1.PodAntiAffinity{}
			}
			if a.Required {
				pod.Spec.Affinity.PodAntiAffinity.RequiredDuringSchedulingIgnoredDuringExecution = append(pod.Spec.Affinity.PodAntiAffinity.RequiredDuringSchedulingIgnoredDuringExecution, term)
			} else {
				pod.Spec.Affinity.PodAntiAffinity.PreferredDuringSchedulingIgnoredDuringExecution = append(pod.Spec.Affinity.PodAntiAffinity.PreferredDuringSchedulingIgnoredDuringExecution, corev1.WeightedPodAffinityTerm{Weight: a.Weight, PodAffinityTerm: term})
			}
		} else {
			if pod.Spec.Affinity.PodAffinity == nil {
				pod.Spec.Affinity.PodAffinity = &corev1.PodAffinity{}
			}
			if a.Required {
				pod.Spec.Affinity.PodAffinity.RequiredDuringSchedulingIgnoredDuringExecution = append(pod.Spec.Affinity.PodAffinity.RequiredDuringSchedulingIgnoredDuringExecution, term)
			} else {
				pod.Spec.Affinity.PodAffinity.PreferredDuringSchedulingIgnoredDuringExecution = append(pod.Spec.Affinity.PodAffinity.PreferredDuringSchedulingIgnoredDuringExecution, corev1.WeightedPodAffinityTerm{Weight: a.Weight, PodAffinityTerm: term})
			}
		}
	}
	for _, s := range p.Spreads {
		pod.Spec.TopologySpreadConstraints = append(pod.Spec.TopologySpreadConstraints, BuildSpread(s, true))
	}
	if nodeName == "" {
		pod.Status.Phase = corev1.PodPending
		pod.Status.Conditions = []corev1.PodCondition{{Type: corev1.PodScheduled, Status: corev1.ConditionFalse, Reason: corev1.PodReasonUnschedulable}}
	} else {
		pod.Status.Phase = corev1.PodRunning
		pod.Status.Conditions = []corev1.PodCondition{{Type: corev1.PodScheduled, Status: corev1.ConditionTrue}}
	}
	if p.Owner != "" && !p.Daemon {
		pod.OwnerReferences = []metav1.OwnerReference{{APIVersion: "apps/v1", Kind: "ReplicaSet", Name: p.Owner, UID: replicaSetUID(p.NS(), p.Owner), Controller: ptr(true), BlockOwnerDeletion: ptr(true)}}
	}
	if p.Daemon {
		pod.OwnerReferences = []metav1.OwnerReference{{APIVersion: "apps/v1", Kind: "DaemonSet", Name: "ds-" + p.Name, UID: types.UID("ds-" + p.Name), Controller: ptr(true), BlockOwnerDeletion: ptr(true)}}
	}
	return pod
}

func ptr[T any](v T) *T { return &v }

func replicaSetUID(ns, name string) types.UID { return types.UID("rs-" + ns + "-" + name) }

// BuildSpread converts a spread constraint description; withSelector=false leaves the label selector unset (cluster defaults).
func BuildSpread(s Spread, withSelector bool) corev1.TopologySpreadConstraint {
	c := corev1.TopologySpreadConstraint{TopologyKey: s.TopologyKey, MaxSkew: s.MaxSkew, MinDomains: s.MinDomains, WhenUnsatisfiable: corev1.ScheduleAnyway}
	if withSelector {
		c.LabelSelector = &metav1.LabelSelector{MatchLabels: s.MatchLabels, MatchExpressions: toLSR(s.MatchExprs)}
		c.MatchLabelKeys = append([]string(nil), s.MatchLabelKeys...)
	}
	if s.DoNotSchedule {
		c.WhenUnsatisfiable = corev1.DoNotSchedule
	}
	if s.NodeAffinityHonor != nil {
		pol := corev1.NodeInclusionPolicyIgnore
		if *s.NodeAffinityHonor {
			pol = corev1.NodeInclusionPolicyHonor
		}
		c.NodeAffinityPolicy = &pol
	}
	if s.NodeTaintsHonor != nil {
		pol := corev1.NodeInclusionPolicyIgnore
		if *s.NodeTaintsHonor {
			pol = corev1.NodeInclusionPolicyHonor
		}
		c.NodeTaintsPolicy = &pol
	}
	return c
}

// BuildNodePool converts a NodePool description.
func BuildNodePool(np NodePool) *v1.NodePool {
	p := test.NodePool(v1.NodePool{ObjectMeta: metav1.ObjectMeta{Name: np.Name}})
	p.UID = types.UID("np-" + np.Name)
	p.CreationTimestamp = metav1.NewTime(T0.Add(-24 * time.Hour))
	w := np.Weight
	if w != 0 {
		p.Spec.Weight = &w
	}
	p.Spec.Template.Labels = np.Labels
	p.Spec.Template.Spec.Taints = toTaints(np.Taints)
	p.Spec.Template.Spec.StartupTaints = toTaints(np.StartupTaints)
	p.Spec.Template.Spec.Requirements = nil
	for _, e := range np.Reqs {
		p.Spec.Template.Spec.Requirements = append(p.Spec.Template.Spec.Requirements, v1.NodeSelectorRequirementWithMinValues{Key: e.Key, Operator: corev1.NodeSelectorOperator(e.Op), Values: append([]string{}, e.Values...), MinValues: e.MinValues})
	}
	if p.Spec.Template.Spec.Requirements == nil {
		p.Spec.Template.Spec.Requirements = []v1.NodeSelectorRequirementWithMinValues{}
	}
	lim := corev1.ResourceList{}
	if np.LimitCPU != nil {
		lim[corev1.ResourceCPU] = q(*np.LimitCPU)
	}
	if np.LimitMem != nil {
		lim[corev1.ResourceMemory] = qMi(*np.LimitMem)
	}
	if len(lim) > 0 {
		p.Spec.Limits = v1.Limits(lim)
	} else {
		p.Spec.Limits = nil
	}
	p.StatusConditions().SetTrue(v1.ConditionTypeValidationSucceeded)
	p.StatusConditions().SetTrue(v1.ConditionTypeNodeClassReady)
	p.StatusConditions().SetTrue("Ready")
	return p
}

// Build constructs the world for a scenario.
func Build(s *Scenario) (*World, error) {
	w := &World{Scn: s, ITs: map[string]*cloudprovider.InstanceType{}}
	o := test.Options()
	if s.IgnorePrefs {
		o.PreferencePolicy = options.PreferencePolicyIgnore
	}
	if s.BestEffortMinVal {
		o.MinValuesPolicy = options.MinValuesPolicyBestEffort
	}
	par := s.Parallelism
	if par <= 0 {
		par = 1
	}
	o.CPURequests = int64(par * 1000)
	o.FeatureGates.ReservedCapacity = s.ReservedCapacity
	if len(s.DefaultSpreads) > 0 {
		// --scheduler-config: cluster-level default topology spread constraints (no selector: deduced per pod)
		cfg := &options.SchedulerConfiguration{PodTopologySpread: &options.PodTopologySpreadConfig{}}
		for _, d := range s.DefaultSpreads {
			cfg.PodTopologySpread.DefaultConstraints = append(cfg.PodTopologySpread.DefaultConstraints, BuildSpread(d, false))
		}
		if err := cfg.Validate(); err != nil {
			return nil, err
		}
		o.SchedulerConfig = cfg
	}
	w.Ctx = options.ToContext(context.Background(), o)
	w.Clock = clock.NewFakeClock(T0)
	w.CP = fakecp.NewCloudProvider()
	for _, it := range s.ITs {
		b := BuildIT(it)
		w.ITs[it.Name] = b
		w.CP.InstanceTypes = append(w.CP.InstanceTypes, b)
	}
	if len(s.ListFaults) > 0 {
		w.faults = &listFaults{faults: s.ListFaults, counts: map[string]int{}}
	}
	if w.faults != nil {
		w.Ctx = crlog.IntoContext(w.Ctx, logr.New(errorLog{mu: &w.faults.mu, msgs: &w.faults.errLogs}))
	}
	w.Client = newClient(w.faults)
	w.Cluster = state.NewCluster(w.Clock, w.Client, w.CP)
	w.Prov = provisioning.NewProvisioner(w.Client, test.NewEventRecorder(), w.CP, w.Cluster, w.Clock, nil, virtualpods.NewVirtualPodCache(w.Client))

	if err := w.addNamespacesAndStorage(); err != nil {
		return nil, err
	}
	for _, np := range s.Pools {
		if err := w.Client.Create(w.Ctx, BuildNodePool(np)); err != nil {
			return nil, err
		}
	}
	for i, ds := range s.DaemonSets {
		d := test.DaemonSet(test.DaemonSetOptions{
			ObjectMeta: metav1.ObjectMeta{Name: ds.Name, Namespace: "default", UID: w.nextUID("ds")},
			PodOptions: test.PodOptions{
				NodeSelector: ds.NodeSelector, Tolerations: toTolerations(ds.Tolerations),
				ResourceRequirements: corev1.ResourceRequirements{Requests: corev1.ResourceList{corev1.ResourceCPU: q(ds.CPU), corev1.ResourceMemory: qMi(ds.Mem)}},
			},
		})
		if ds.LimitsOnly {
			c := &d.Spec.Template.Spec.Containers[0]
			c.Resources = corev1.ResourceRequirements{Limits: corev1.ResourceList{corev1.ResourceCPU: q(ds.CPU), corev1.ResourceMemory: qMi(ds.Mem)}}
		}
		for _, hp := range ds.HostPorts {
			proto := corev1.Protocol(hp.Protocol)
			if proto == "" {
				proto = corev1.ProtocolTCP
			}
			d.Spec.Template.Spec.Containers[0].Ports = append(d.Spec.Template.Spec.Containers[0].Ports, corev1.ContainerPort{ContainerPort: hp.Port, HostPort: hp.Port, Protocol: proto, HostIP: hp.IP})
		}
		d.CreationTimestamp = metav1.NewTime(T0.Add(-2 * time.Hour).Add(time.Duration(i) * time.Second))
		if err := w.Client.Create(w.Ctx, d); err != nil {
			return nil, err
		}
		if err := w.Cluster.UpdateDaemonSet(w.Ctx, d); err != nil {
			return nil, err
		}
	}
	seq := 0
	for _, n := range s.Nodes {
		if err := w.addNode(n, &seq); err != nil {
			return nil, err
		}
	}
	for _, p := range s.Pods {
		seq++
		pod := w.BuildPod(p, "", seq)
		if err := w.Client.Create(w.Ctx, pod); err != nil {
			return nil, err
		}
		// the pod informer delivers pending pods to the cluster state too (it uses no node, but a pod with a required
		// anti-affinity term is remembered among the anti-affinity pods although it is not bound)
		if err := w.Cluster.UpdatePod(w.Ctx, pod); err != nil {
			return nil, err
		}
	}
	return w, nil
}

// AllNamespaces lists every namespace of the scenario: the declared ones (with their labels) and those that pods or claims
// use without declaring them ("default" always exists).  Each carries kubernetes.io/metadata.name, as the API server sets it.
func (s *Scenario) AllNamespaces() []Namespace {
	var out []Namespace
	seen := map[string]bool{}
	add := func(n Namespace) {
		if seen[n.Name] {
			return
		}
		seen[n.Name] = true
		l := map[string]string{}
		for k, v := range n.Labels {
			l[k] = v
		}
		l[corev1.LabelMetadataName] = n.Name
		out = append(out, Namespace{Name: n.Name, Labels: l})
	}
	for _, n := range s.Namespaces {
		add(n)
	}
	add(Namespace{Name: "default"})
	for i := range s.Pods {
		add(Namespace{Name: s.Pods[i].NS()})
	}
	for _, n := range s.Nodes {
		for i := range n.Pods {
			add(Namespace{Name: n.Pods[i].NS()})
		}
	}
	for i := range s.PVCs {
		add(Namespace{Name: s.PVCs[i].NS()})
	}
	return out
}

func (s *Scenario) usesNamespaces() bool {
	if len(s.Namespaces) > 0 {
		return true
	}
	uses := func(p *Pod) bool {
		if p.Namespace != "" {
			return true
		}
		for _, a := range p.Affinity {
			if a.NamespaceSelector != nil || len(a.Namespaces) > 0 {
				return true
			}
		}
		return false
	}
	for i := range s.Pods {
		if uses(&s.Pods[i]) {
			return true
		}
	}
	for _, n := range s.Nodes {
		for i := range n.Pods {
			if uses(&n.Pods[i]) {
				return true
			}
		}
	}
	return false
}

func toNodeSelectorTerms(terms [][]KExpr) []corev1.NodeSelectorTerm {
	var out []corev1.NodeSelectorTerm
	for _, t := range terms {
		out = append(out, corev1.NodeSelectorTerm{MatchExpressions: toNSR(t)})
	}
	return out
}

// addNamespacesAndStorage creates the Namespace, StorageClass, PersistentVolume and PersistentVolumeClaim objects.
func (w *World) addNamespacesAndStorage() error {
	s := w.Scn
	// only scenarios that use the namespace vocabulary get Namespace objects (nothing lists them otherwise)
	if s.usesNamespaces() {
		for i, n := range s.AllNamespaces() {
			ns := &corev1.Namespace{ObjectMeta: metav1.ObjectMeta{Name: n.Name, Labels: n.Labels, UID: w.nextUID("ns"),
				CreationTimestamp: metav1.NewTime(T0.Add(-48 * time.Hour).Add(time.Duration(i) * time.Second))}}
			if err := w.Client.Create(w.Ctx, ns); err != nil {
				return err
			}
		}
	}
	for i, sc := range s.StorageClasses {
		mode := storagev1.VolumeBindingWaitForFirstConsumer
		if sc.Immediate {
			mode = storagev1.VolumeBindingImmediate
		}
		o := &storagev1.StorageClass{ObjectMeta: metav1.ObjectMeta{Name: sc.Name, UID: w.nextUID("sc"), CreationTimestamp: metav1.NewTime(T0.Add(-47 * time.Hour).Add(time.Duration(i) * time.Second))},
			Provisioner: "verif.csi.example.com", VolumeBindingMode: &mode}
		for _, t := range sc.Topologies {
			var term corev1.TopologySelectorTerm
			for _, e := range t {
				term.MatchLabelExpressions = append(term.MatchLabelExpressions, corev1.TopologySelectorLabelRequirement{Key: e.Key, Values: append([]string(nil), e.Values...)})
			}
			o.AllowedTopologies = append(o.AllowedTopologies, term)
		}
		if err := w.Client.Create(w.Ctx, o); err != nil {
			return err
		}
	}
	for i, pv := range s.PVs {
		o := &corev1.PersistentVolume{ObjectMeta: metav1.ObjectMeta{Name: pv.Name, UID: w.nextUID("pv"), CreationTimestamp: metav1.NewTime(T0.Add(-46 * time.Hour).Add(time.Duration(i) * time.Second))},
			Spec: corev1.PersistentVolumeSpec{
				PersistentVolumeSource: corev1.PersistentVolumeSource{CSI: &corev1.CSIPersistentVolumeSource{Driver: "verif.csi.example.com", VolumeHandle: pv.Name}},
				AccessModes:            []corev1.PersistentVolumeAccessMode{corev1.ReadWriteOnce},
				Capacity:               corev1.ResourceList{corev1.ResourceStorage: resource.MustParse("10Gi")},
			}}
		if len(pv.Terms) > 0 {
			o.Spec.NodeAffinity = &corev1.VolumeNodeAffinity{Required: &corev1.NodeSelector{NodeSelectorTerms: toNodeSelectorTerms(pv.Terms)}}
		}
		if err := w.Client.Create(w.Ctx, o); err != nil {
			return err
		}
	}
	for i, c := range s.PVCs {
		o := &corev1.PersistentVolumeClaim{ObjectMeta: metav1.ObjectMeta{Name: c.Name, Namespace: c.NS(), UID: w.nextUID("pvc"), CreationTimestamp: metav1.NewTime(T0.Add(-45 * time.Hour).Add(time.Duration(i) * time.Second))},
			Spec: corev1.PersistentVolumeClaimSpec{
				VolumeName:  c.VolumeName,
				AccessModes: []corev1.PersistentVolumeAccessMode{corev1.ReadWriteOnce},
				Resources:   corev1.VolumeResourceRequirements{Requests: corev1.ResourceList{corev1.ResourceStorage: resource.MustParse("1Gi")}},
			}}
		if c.StorageClass != "" {
			sc := c.StorageClass
			o.Spec.StorageClassName = &sc
		}
		if c.VolumeName != "" {
			// a bound claim as the PV controller leaves it
			o.Annotations = map[string]string{"pv.kubernetes.io/bind-completed": "yes"}
			o.Status.Phase = corev1.ClaimBound
		} else {
			o.Status.Phase = corev1.ClaimPending
		}
		if err := w.Client.Create(w.Ctx, o); err != nil {
			return err
		}
	}
	for i, sv := range s.Services {
		ns := sv.Namespace
		if ns == "" {
			ns = "default"
		}
		o := &corev1.Service{ObjectMeta: metav1.ObjectMeta{Name: sv.Name, Namespace: ns, UID: w.nextUID("svc"), CreationTimestamp: metav1.NewTime(T0.Add(-44 * time.Hour).Add(time.Duration(i) * time.Second))},
			Spec: corev1.ServiceSpec{Selector: sv.Selector}}
		if err := w.Client.Create(w.Ctx, o); err != nil {
			return err
		}
	}
	for i, rs := range s.ReplicaSets {
		ns := rs.Namespace
		if ns == "" {
			ns = "default"
		}
		o := &appsv1.ReplicaSet{ObjectMeta: metav1.ObjectMeta{Name: rs.Name, Namespace: ns, UID: replicaSetUID(ns, rs.Name), CreationTimestamp: metav1.NewTime(T0.Add(-43 * time.Hour).Add(time.Duration(i) * time.Second))},
			Spec: appsv1.ReplicaSetSpec{Selector: &metav1.LabelSelector{MatchLabels: rs.Selector.MatchLabels, MatchExpressions: toLSR(rs.Selector.MatchExprs)}}}
		if err := w.Client.Create(w.Ctx, o); err != nil {
			return err
		}
	}
	return nil
}

// NodeLabels returns the labels a node launched as (it, zone, capacityType) in pool carries.
func NodeLabels(n Node, pool *NodePool) map[string]string {
	l := map[string]string{
		corev1.LabelInstanceTypeStable: n.IT, corev1.LabelTopologyZone: n.Zone, v1.CapacityTypeLabelKey: n.CapacityType,
		corev1.LabelArchStable: "amd64", corev1.LabelOSStable: "linux", corev1.LabelHostname: n.Name,
	}
	if pool != nil {
		l[v1.NodePoolLabelKey] = pool.Name
		for k, v := range pool.Labels {
			l[k] = v
		}
	}
	for k, v := range n.Labels {
		l[k] = v
	}
	if n.Zone == "" {
		delete(l, corev1.LabelTopologyZone)
	}
	return l
}

func (w *World) pool(name string) *NodePool {
	for i := range w.Scn.Pools {
		if w.Scn.Pools[i].Name == name {
			return &w.Scn.Pools[i]
		}
	}
	return nil
}

func (w *World) addNode(n Node, seq *int) error {
	it := w.ITs[n.IT]
	if it == nil {
		return fmt.Errorf("node %s: unknown instance type %s", n.Name, n.IT)
	}
	pool := w.pool(n.Pool)
	labels := NodeLabels(n, pool)
	alloc := it.Allocatable()
	capac := it.Capacity
	providerID := "fake://" + n.Name
	var nc *v1.NodeClaim
	if n.Pool != "" {
		ncLabels := map[string]string{}
		for k, v := range labels {
			if k != corev1.LabelHostname {
				ncLabels[k] = v
			}
		}
		nc = test.NodeClaim(v1.NodeClaim{
			ObjectMeta: metav1.ObjectMeta{Name: "nc-" + n.Name, Labels: ncLabels, UID: w.nextUID("nc"), CreationTimestamp: metav1.NewTime(T0.Add(-30 * time.Minute)),
				Finalizers: []string{v1.TerminationFinalizer}},
			Spec:   v1.NodeClaimSpec{Taints: toTaints(pool.Taints), StartupTaints: toTaints(pool.StartupTaints)},
			Status: v1.NodeClaimStatus{ProviderID: providerID, Capacity: capac, Allocatable: alloc},
		})
		nc.StatusConditions().SetTrue(v1.ConditionTypeLaunched)
		switch n.Stage {
		case "registered":
			nc.StatusConditions().SetTrue(v1.ConditionTypeRegistered)
			nc.Status.NodeName = n.Name
		case "initialized":
			nc.StatusConditions().SetTrue(v1.ConditionTypeRegistered)
			nc.StatusConditions().SetTrue(v1.ConditionTypeInitialized)
			nc.Status.NodeName = n.Name
		}
		if n.Deleting {
			now := metav1.NewTime(T0.Add(-time.Minute))
			nc.DeletionTimestamp = &now
		}
		if err := w.Client.Create(w.Ctx, nc); err != nil {
			return err
		}
		w.Cluster.UpdateNodeClaim(nc)
	}
	if n.Stage != "claim" || n.Pool == "" {
		nodeLabels := map[string]string{}
		for k, v := range labels {
			nodeLabels[k] = v
		}
		taints := toTaints(n.Taints)
		if pool != nil {
			taints = append(taints, toTaints(pool.Taints)...)
		}
		if n.Pool != "" {
			switch n.Stage {
			case "node":
				taints = append(taints, v1.UnregisteredNoExecuteTaint)
				if pool != nil {
					taints = append(taints, toTaints(pool.StartupTaints)...)
				}
			case "registered":
				nodeLabels[v1.NodeRegisteredLabelKey] = "true"
				if pool != nil {
					taints = append(taints, toTaints(pool.StartupTaints)...)
				}
			case "initialized":
				nodeLabels[v1.NodeRegisteredLabelKey] = "true"
				nodeLabels[v1.NodeInitializedLabelKey] = "true"
			}
		}
		node := test.Node(test.NodeOptions{
			ObjectMeta:  metav1.ObjectMeta{Name: n.Name, Labels: nodeLabels, UID: w.nextUID("node"), CreationTimestamp: metav1.NewTime(T0.Add(-25 * time.Minute)), Finalizers: []string{v1.TerminationFinalizer}},
			ProviderID:  providerID,
			Taints:      taints,
			Allocatable: alloc, Capacity: capac,
		})
		node.Namespace = ""
		if n.Deleting {
			now := metav1.NewTime(T0.Add(-time.Minute))
			node.DeletionTimestamp = &now
		}
		if err := w.Client.Create(w.Ctx, node); err != nil {
			return err
		}
		if w.Scn.PodEventsFirst {
			// informer race: the pods' events are processed while the node is not tracked yet (NotFound), then the node's
			for _, p := range n.Pods {
				*seq++
				pod := w.BuildPod(p, n.Name, *seq)
				if err := w.Client.Create(w.Ctx, pod); err != nil {
					return err
				}
				_ = w.Cluster.UpdatePod(w.Ctx, pod)
			}
			if err := w.Cluster.UpdateNode(w.Ctx, node); err != nil {
				return err
			}
		} else {
			if err := w.Cluster.UpdateNode(w.Ctx, node); err != nil {
				return err
			}
			for _, p := range n.Pods {
				*seq++
				pod := w.BuildPod(p, n.Name, *seq)
				if err := w.Client.Create(w.Ctx, pod); err != nil {
					return err
				}
				if err := w.Cluster.UpdatePod(w.Ctx, pod); err != nil {
					return err
				}
			}
		}
	}
	if n.Deleting && n.Pool != "" {
		w.Cluster.MarkForDeletion(providerID)
	}
	return nil
}

// ---------- results ----------

type ExistingOut struct {
	Node string   `json:"node"`
	Pods []string `json:"pods"`
}

type ClaimOut struct {
	Pool          string             `json:"pool"`
	Pods          []string           `json:"pods"`
	Reqs          map[string]rg.Snap `json:"reqs"`
	InstanceTypes []string           `json:"instanceTypes"`
	ReqCPU        int64              `json:"reqCPU"`
	ReqMem        int64              `json:"reqMem"` // Mi (rounded up)
	ReqPods       int64              `json:"reqPods"`
	Taints        []Taint            `json:"taints"`
}

type Outcome struct {
	Existing []ExistingOut     `json:"existing"`
	Claims   []ClaimOut        `json:"claims"`
	Errors   map[string]string `json:"errors"`
	Err      string            `json:"err,omitempty"`
	// Faults: the injected API faults that fired during the pass ("Kind#N")
	Faults []string `json:"faults,omitempty"`
	// ErrorLogs: the distinct messages logged at error level during the pass (scenarios with injected faults only)
	ErrorLogs []string `json:"errorLogs,omitempty"`
}

func errClass(err error) string {
	s := err.Error()
	switch {
	case provsched.IsReservedOfferingError(err):
		return "reserved-offering"
	case strings.Contains(s, "limits"):
		return "limits"
	default:
		return "unschedulable"
	}
}

func fromTaints(ts []corev1.Taint) []Taint {
	out := []Taint{}
	for _, t := range ts {
		out = append(out, Taint{Key: t.Key, Value: t.Value, Effect: string(t.Effect)})
	}
	return out
}

func ceilMi(qty resource.Quantity) int64 {
	v := qty.Value()
	return (v + 1024*1024 - 1) / (1024 * 1024)
}

// ExtractClaim canonicalises one in-memory NodeClaim of the scheduler.
func ExtractClaim(nc *provsched.NodeClaim) ClaimOut {
	c := ClaimOut{Pool: nc.NodePoolName, Reqs: map[string]rg.Snap{}, Taints: fromTaints(nc.Spec.Taints)}
	for _, p := range nc.Pods {
		c.Pods = append(c.Pods, p.Name)
	}
	sort.Strings(c.Pods)
	for k, r := range nc.Requirements {
		c.Reqs[k] = rg.SnapOf(r)
	}
	for _, it := range nc.InstanceTypeOptions {
		c.InstanceTypes = append(c.InstanceTypes, it.Name)
	}
	sort.Strings(c.InstanceTypes)
	req := nc.Spec.Resources.Requests
	c.ReqCPU = req.Cpu().MilliValue()
	c.ReqMem = ceilMi(*req.Memory())
	c.ReqPods = req.Pods().Value()
	return c
}

// FromTaints converts taints to the scenario form.
func FromTaints(ts []corev1.Taint) []Taint { return fromTaints(ts) }

// CeilMi rounds a memory quantity up to Mi.
func CeilMi(qty resource.Quantity) int64 { return ceilMi(qty) }

// Extract canonicalises scheduling results.
func Extract(res provsched.Results) Outcome {
	out := Outcome{Existing: []ExistingOut{}, Claims: []ClaimOut{}, Errors: map[string]string{}}
	for _, en := range res.ExistingNodes {
		if len(en.Pods) == 0 {
			continue
		}
		e := ExistingOut{Node: strings.TrimPrefix(en.Name(), "nc-")}
		for _, p := range en.Pods {
			e.Pods = append(e.Pods, p.Name)
		}
		sort.Strings(e.Pods)
		out.Existing = append(out.Existing, e)
	}
	sort.Slice(out.Existing, func(i, j int) bool { return out.Existing[i].Node < out.Existing[j].Node })
	for _, nc := range res.NewNodeClaims {
		out.Claims = append(out.Claims, ExtractClaim(nc))
	}
	sort.Slice(out.Claims, func(i, j int) bool {
		return strings.Join(out.Claims[i].Pods, ",") < strings.Join(out.Claims[j].Pods, ",")
	})
	for p, err := range res.PodErrors {
		out.Errors[p.Name] = errClass(err)
	}
	return out
}

// Schedule runs one real scheduling pass (Provisioner.Schedule).
func (w *World) Schedule() (provsched.Results, error) {
	w.Cluster.SetSynced(true)
	// the scenario's API faults only strike during the pass
	w.faults.arm(true)
	defer w.faults.arm(false)
	return w.Prov.Schedule(w.Ctx)
}

var _ = appsv1.DaemonSet{}
