package world

import (
	"fmt"
	"math/rand/v2"
)

// GenOpts steers the scenario generator towards what a property needs.
type GenOpts struct {
	InterPod     float64 // probability that a pod carries pod (anti-)affinity / spread constraints
	NodeAffinity float64 // probability of node selectors / affinity terms
	// probability that a pod with a topology spread also prefers (soft node affinity) one domain of the spread key
	PreferOnSpreadKey float64
	// probability that an instance type has offerings with a cpu CapacityOverride (several allocatable groups)
	CapOverride float64
	// probability that bound pods' events are delivered before their node's (see Scenario.PodEventsFirst)
	PodEventsFirst float64
	// probability that a NodePool carries a second taint (before or after the first) and that a pod carries a second
	// toleration: pods that tolerate only SOME of a node's taints
	MultiTaint float64
	// --- optional vocabulary: 0 = not generated, and no randomness is consumed (other properties' streams do not shift) ---
	// probability that the pods live in several namespaces and (anti-)affinity terms carry namespaces / a namespaceSelector
	// (unset, EMPTY = all namespaces, matchLabels, matchExpressions)
	Namespaces float64
	// probability that the batch is a rollout: the pods of one app carry a revision label (two revisions, pending and running),
	// their spread constraints and affinity terms name it in matchLabelKeys, and (every other time) the selector already holds
	// the merged "rev In [value]" expression, as a Kubernetes >= 1.34 API server stores it
	MatchLabelKeys float64
	// probability that pods mount PersistentVolumeClaims: bound PVs with zonal node affinity (one or several OR-ed terms),
	// unbound claims of StorageClasses with allowedTopologies, several volumes per pod (compatible and mutually exclusive)
	Volumes float64
	// probability that a few small pods of the batch constrain ONE custom node label key with required node affinity
	// (In / NotIn / Exists / DoesNotExist, or a node selector) while nodes and NodePools may or may not define that label
	LabelInterplay float64
	// probability that the cluster has default topology spread constraints (--scheduler-config) and that the pods of one app
	// are the replicas of a ReplicaSet behind one or two Services, WITHOUT constraints of their own (a few replicas carry an
	// extra label that a second Service selects; Services / the ReplicaSet may be missing in some namespaces)
	DefaultSpread float64
	// probability that one List call of the pass fails once (Scenario.ListFaults): mostly the Namespace list that resolves the
	// namespaceSelector of a (running or pending) pod's required anti-affinity term, sometimes a Pod or NodePool list
	ListFaults float64
	// probability (in worlds whose pending pods mount volumes) that one Get of a PersistentVolumeClaim / PersistentVolume /
	// StorageClass issued during the pass fails once: the lookups of Provisioner.Validate and of the volume topology
	GetFaults float64
	// probability that an unmanaged node carries no zone label (a zonal volume is then not reachable from it)
	ZonelessUnmanaged float64
	// probability that a daemonset declares its resources as limits only (no requests stanza)
	DaemonLimitsOnly float64
	// probability that the LEADING instance types of the catalog are not offered in one zone that later instance types are
	// offered in (per-instance-type zone sets differ inside every NodePool), most NodePools carry no zone requirement of their
	// own, a set of at least three small replicas spreads over zones (DoNotSchedule) and another pod of the batch is pinned
	// to that zone (a NodeClaim of the same pass there counts for the replicas' skew)
	ZoneHoles float64
	// probability that two NodePools carry taints that agree on key and effect but differ in VALUE (dedicated=x / dedicated=y,
	// one of them possibly with a second taint), one confined to some zones and the other offered everywhere; a set of replicas
	// tolerates only one of the two and spreads over zones with nodeTaintsPolicy=Honor, and another pod with the same
	// tolerations is pinned to a zone both NodePools offer
	TaintValues float64
	Existing    float64 // probability scale for existing nodes
	Reserved    bool    // generate reserved offerings and enable the feature gate
	Limits      float64 // probability that a pool has limits
	MaxPods     int
	Weights     bool // distinct pool weights
}

var Zones = []string{"z1", "z2", "z3"}
var capTypes = []string{"spot", "on-demand"}
var apps = []string{"a", "b", "c"}

func pick[T any](r *rand.Rand, xs []T) T { return xs[r.IntN(len(xs))] }

func GenITs(r *rand.Rand, o GenOpts) []IT {
	n := 2 + r.IntN(5)
	sizes := []int64{1000, 2000, 4000, 8000, 16000}
	its := make([]IT, 0, n)
	for i := 0; i < n; i++ {
		cpu := pick(r, sizes)
		it := IT{Name: fmt.Sprintf("it-%d", i), CPU: cpu, Mem: cpu * int64(1+r.IntN(4)), Pods: int64(pick(r, []int{3, 5, 10, 30})), Arch: "amd64", OS: []string{"linux"}, Overhead: int64(pick(r, []int{0, 100, 200}))}
		base := cpu / 1000 * 40 // price grid units
		for _, z := range Zones {
			for _, ct := range capTypes {
				if r.Float64() < 0.25 {
					continue
				}
				p := base + int64(r.IntN(20))
				if ct == "spot" {
					p = p * 6 / 10
				}
				it.Offerings = append(it.Offerings, Offering{Zone: z, CapacityType: ct, Price: p, Available: r.Float64() < 0.85})
			}
			if o.Reserved && r.Float64() < 0.3 {
				it.Offerings = append(it.Offerings, Offering{Zone: z, CapacityType: "reserved", Price: base / 10, Available: r.Float64() < 0.9,
					ReservationID: fmt.Sprintf("r-%d", r.IntN(3)), ReservationN: 1 + r.IntN(2)})
			}
		}
		if len(it.Offerings) == 0 {
			it.Offerings = append(it.Offerings, Offering{Zone: "z1", CapacityType: "on-demand", Price: base, Available: true})
		}
		if o.CapOverride > 0 && r.Float64() < o.CapOverride {
			// all offerings of one zone or of one capacity type get a smaller or a larger cpu capacity
			byZone, what := r.Float64() < 0.5, pick(r, Zones)
			if !byZone {
				what = pick(r, capTypes)
			}
			ov := cpu / 2
			if r.Float64() < 0.4 {
				ov = cpu * 2
			}
			for j := range it.Offerings {
				if (byZone && it.Offerings[j].Zone == what) || (!byZone && it.Offerings[j].CapacityType == what) {
					v := ov
					it.Offerings[j].CPUOverride = &v
				}
			}
		}
		its = append(its, it)
	}
	// reservations shared across instance types must agree on capacity
	capOf := map[string]int{}
	for i := range its {
		for j := range its[i].Offerings {
			of := &its[i].Offerings[j]
			if of.ReservationID != "" {
				if c, ok := capOf[of.ReservationID]; ok {
					of.ReservationN = c
				} else {
					capOf[of.ReservationID] = of.ReservationN
				}
			}
		}
	}
	return its
}

func GenPools(r *rand.Rand, its []IT, o GenOpts) []NodePool {
	n := 1 + r.IntN(3)
	pools := make([]NodePool, 0, n)
	for i := 0; i < n; i++ {
		np := NodePool{Name: fmt.Sprintf("pool-%d", i), Labels: map[string]string{}}
		if o.Weights || r.Float64() < 0.5 {
			np.Weight = int32(r.IntN(4) * 10)
		}
		if r.Float64() < 0.5 {
			np.Labels["team"] = pick(r, []string{"red", "blue"})
		}
		if r.Float64() < 0.25 {
			np.Taints = append(np.Taints, Taint{Key: "dedicated", Value: pick(r, []string{"x", "y"}), Effect: pick(r, []string{"NoSchedule", "NoExecute", "PreferNoSchedule"})})
		}
		if o.MultiTaint > 0 && r.Float64() < o.MultiTaint {
			second := Taint{Key: "other", Value: "", Effect: "NoSchedule"}
			if len(np.Taints) == 0 {
				np.Taints = append(np.Taints, Taint{Key: "dedicated", Value: pick(r, []string{"x", "y"}), Effect: pick(r, []string{"NoSchedule", "NoExecute"})})
			}
			if r.Float64() < 0.5 {
				np.Taints = append(np.Taints, second)
			} else {
				np.Taints = append([]Taint{second}, np.Taints...)
			}
		}
		if r.Float64() < 0.2 {
			np.StartupTaints = append(np.StartupTaints, Taint{Key: "startup", Value: "", Effect: "NoSchedule"})
		}
		if r.Float64() < 0.4 {
			k := 1 + r.IntN(2)
			perm := r.Perm(len(Zones))
			zs := []string{}
			for j := 0; j < k; j++ {
				zs = append(zs, Zones[perm[j]])
			}
			np.Reqs = append(np.Reqs, MinExpr{Key: "topology.kubernetes.io/zone", Op: "In", Values: zs})
		}
		if r.Float64() < 0.3 {
			cts := []string{pick(r, capTypes)}
			if o.Reserved {
				cts = append(cts, "reserved")
			}
			np.Reqs = append(np.Reqs, MinExpr{Key: "karpenter.sh/capacity-type", Op: "In", Values: cts})
		}
		if r.Float64() < 0.3 {
			op := pick(r, []string{"In", "NotIn"})
			vals := []string{}
			for _, it := range its {
				if r.Float64() < 0.5 {
					vals = append(vals, it.Name)
				}
			}
			if len(vals) == 0 {
				vals = []string{its[0].Name}
			}
			e := MinExpr{Key: "node.kubernetes.io/instance-type", Op: op, Values: vals}
			if op == "In" && r.Float64() < 0.4 {
				mv := 1 + r.IntN(len(vals))
				e.MinValues = &mv
			}
			np.Reqs = append(np.Reqs, e)
		}
		if r.Float64() < 0.2 {
			np.Reqs = append(np.Reqs, MinExpr{Key: "tier", Op: pick(r, []string{"In", "Exists", "NotIn"}), Values: pickVals(r, []string{"gold", "silver"})})
			if np.Reqs[len(np.Reqs)-1].Op == "Exists" {
				np.Reqs[len(np.Reqs)-1].Values = []string{}
			}
		}
		if r.Float64() < o.Limits {
			c := int64(2000 + r.IntN(30)*1000)
			np.LimitCPU = &c
		}
		pools = append(pools, np)
	}
	return pools
}

func pickVals(r *rand.Rand, xs []string) []string {
	out := []string{}
	for _, x := range xs {
		if r.Float64() < 0.6 {
			out = append(out, x)
		}
	}
	if len(out) == 0 {
		out = []string{xs[0]}
	}
	return out
}

func genTolerations(r *rand.Rand) []Toleration {
	var ts []Toleration
	if r.Float64() < 0.35 {
		switch r.IntN(4) {
		case 0:
			ts = append(ts, Toleration{Key: "dedicated", Operator: "Exists"})
		case 1:
			ts = append(ts, Toleration{Key: "dedicated", Operator: "Equal", Value: pick(r, []string{"x", "y"}), Effect: pick(r, []string{"", "NoSchedule", "NoExecute"})})
		case 2:
			ts = append(ts, Toleration{Operator: "Exists"})
		case 3:
			ts = append(ts, Toleration{Key: "other", Operator: "Exists", Effect: "NoSchedule"})
		}
	}
	return ts
}

func genHostPorts(r *rand.Rand) []HostPort {
	var hp []HostPort
	if r.Float64() < 0.15 {
		hp = append(hp, HostPort{Port: int32(8080 + r.IntN(2)), Protocol: pick(r, []string{"TCP", "UDP"}), IP: pick(r, []string{"", "", "10.0.0.1", "0.0.0.0"})})
	}
	return hp
}

// GenPod draws one pod spec (pending or bound).
func GenPod(r *rand.Rand, name string, its []IT, pools []NodePool, o GenOpts) Pod {
	p := Pod{Name: name, Labels: map[string]string{"app": pick(r, apps)}, CPU: int64(100 * (1 + r.IntN(25))), Mem: int64(64 * (1 + r.IntN(40)))}
	if r.Float64() < 0.1 {
		p.CPU = int64(3000 + r.IntN(6)*1000)
	}
	p.Tolerations = genTolerations(r)
	if o.MultiTaint > 0 && r.Float64() < o.MultiTaint {
		p.Tolerations = append(p.Tolerations, genTolerations(r)...)
		if len(p.Tolerations) == 0 {
			p.Tolerations = append(p.Tolerations, Toleration{Key: pick(r, []string{"dedicated", "other"}), Operator: "Exists"})
		}
	}
	p.HostPorts = genHostPorts(r)
	if r.Float64() < o.NodeAffinity {
		switch r.IntN(5) {
		case 0:
			p.NodeSelector = map[string]string{"topology.kubernetes.io/zone": pick(r, Zones)}
		case 1:
			p.NodeSelector = map[string]string{"team": pick(r, []string{"red", "blue"})}
		case 2:
			p.NodeSelector = map[string]string{"node.kubernetes.io/instance-type": pick(r, its).Name}
		case 3:
			p.NodeSelector = map[string]string{"karpenter.sh/capacity-type": pick(r, capTypes)}
		case 4:
			p.NodeSelector = map[string]string{"karpenter.sh/nodepool": pick(r, pools).Name}
		}
	}
	if r.Float64() < o.NodeAffinity {
		nt := 1 + r.IntN(2)
		for t := 0; t < nt; t++ {
			var term []KExpr
			ne := 1 + r.IntN(2)
			for e := 0; e < ne; e++ {
				term = append(term, genNodeExpr(r, its))
			}
			p.Required = append(p.Required, term)
		}
	}
	if r.Float64() < o.NodeAffinity*0.6 {
		np := 1 + r.IntN(2)
		for t := 0; t < np; t++ {
			p.Preferred = append(p.Preferred, Preferred{Weight: int32(1 + r.IntN(100)), Exprs: []KExpr{genNodeExpr(r, its)}})
		}
	}
	if r.Float64() < o.InterPod {
		switch r.IntN(4) {
		case 0:
			p.Affinity = append(p.Affinity, PodAffinity{TopologyKey: pick(r, []string{"topology.kubernetes.io/zone", "kubernetes.io/hostname"}), MatchLabels: map[string]string{"app": pick(r, apps)}, Anti: true, Required: r.Float64() < 0.8, Weight: 10})
		case 1:
			p.Affinity = append(p.Affinity, PodAffinity{TopologyKey: pick(r, []string{"topology.kubernetes.io/zone", "kubernetes.io/hostname"}), MatchLabels: map[string]string{"app": pick(r, apps)}, Anti: false, Required: r.Float64() < 0.8, Weight: 10})
		case 2:
			s := Spread{TopologyKey: pick(r, []string{"topology.kubernetes.io/zone", "kubernetes.io/hostname", "karpenter.sh/capacity-type"}), MaxSkew: int32(1 + r.IntN(2)), DoNotSchedule: r.Float64() < 0.8, MatchLabels: map[string]string{"app": p.Labels["app"]}}
			if r.Float64() < 0.2 {
				md := int32(1 + r.IntN(3))
				s.MinDomains = &md
			}
			if r.Float64() < 0.2 {
				b := r.Float64() < 0.5
				s.NodeAffinityHonor = &b
			}
			if r.Float64() < 0.2 {
				b := r.Float64() < 0.5
				s.NodeTaintsHonor = &b
			}
			p.Spreads = append(p.Spreads, s)
		case 3:
			// self anti-affinity on hostname + zone spread
			p.Affinity = append(p.Affinity, PodAffinity{TopologyKey: "kubernetes.io/hostname", MatchLabels: map[string]string{"app": p.Labels["app"]}, Anti: true, Required: true})
			p.Spreads = append(p.Spreads, Spread{TopologyKey: "topology.kubernetes.io/zone", MaxSkew: 1, DoNotSchedule: true, MatchLabels: map[string]string{"app": p.Labels["app"]}})
		}
	}
	if o.PreferOnSpreadKey > 0 && len(p.Spreads) > 0 && r.Float64() < o.PreferOnSpreadKey {
		switch p.Spreads[len(p.Spreads)-1].TopologyKey {
		case "topology.kubernetes.io/zone":
			p.Preferred = append(p.Preferred, Preferred{Weight: 50, Exprs: []KExpr{{Key: "topology.kubernetes.io/zone", Op: "In", Values: []string{pick(r, Zones)}}}})
		case "karpenter.sh/capacity-type":
			p.Preferred = append(p.Preferred, Preferred{Weight: 50, Exprs: []KExpr{{Key: "karpenter.sh/capacity-type", Op: "In", Values: []string{pick(r, capTypes)}}}})
		}
	}
	return p
}

func genNodeExpr(r *rand.Rand, its []IT) KExpr {
	switch r.IntN(7) {
	case 0:
		return KExpr{Key: "topology.kubernetes.io/zone", Op: pick(r, []string{"In", "NotIn"}), Values: pickVals(r, Zones)}
	case 1:
		return KExpr{Key: "karpenter.sh/capacity-type", Op: pick(r, []string{"In", "NotIn"}), Values: []string{pick(r, capTypes)}}
	case 2:
		return KExpr{Key: "node.kubernetes.io/instance-type", Op: pick(r, []string{"In", "NotIn"}), Values: []string{pick(r, its).Name, pick(r, its).Name}}
	case 3:
		return KExpr{Key: "team", Op: pick(r, []string{"In", "NotIn", "Exists", "DoesNotExist"}), Values: []string{pick(r, []string{"red", "blue"})}}
	case 4:
		return KExpr{Key: "tier", Op: pick(r, []string{"In", "NotIn", "Exists", "DoesNotExist"}), Values: []string{pick(r, []string{"gold", "silver"})}}
	case 5:
		return KExpr{Key: "failure-domain.beta.kubernetes.io/zone", Op: "In", Values: pickVals(r, Zones)}
	default:
		return KExpr{Key: "kubernetes.io/arch", Op: pick(r, []string{"In", "NotIn"}), Values: []string{pick(r, []string{"amd64", "arm64"})}}
	}
}

// FixExprs normalises nil / operand-less expressions.
func FixExprs(p *Pod) { fixExprs(p) }

func fixExprs(p *Pod) {
	fix := func(es []KExpr) {
		for i := range es {
			if es[i].Op == "Exists" || es[i].Op == "DoesNotExist" {
				es[i].Values = []string{}
			}
			if es[i].Values == nil {
				es[i].Values = []string{}
			}
		}
	}
	for _, t := range p.Required {
		fix(t)
	}
	for i := range p.Preferred {
		fix(p.Preferred[i].Exprs)
	}
}

func GenNodes(r *rand.Rand, its []IT, pools []NodePool, o GenOpts) []Node {
	var nodes []Node
	n := 0
	if r.Float64() < o.Existing {
		n = 1 + r.IntN(4)
	}
	podSeq := 0
	for i := 0; i < n; i++ {
		it := pick(r, its)
		of := pick(r, it.Offerings)
		ct := of.CapacityType
		nd := Node{Name: fmt.Sprintf("node-%d", i), IT: it.Name, Zone: of.Zone, CapacityType: ct, Labels: map[string]string{}}
		if r.Float64() < 0.85 {
			nd.Pool = pick(r, pools).Name
			nd.Stage = pick(r, []string{"claim", "node", "registered", "initialized", "initialized", "initialized"})
		} else {
			nd.Stage = "initialized"
			if r.Float64() < 0.3 {
				nd.Labels["team"] = pick(r, []string{"red", "blue"})
			}
		}
		// extra taints only where Karpenter reads the Node's taints (registered / unmanaged nodes); for an
		// unregistered managed node it documents that the NodeClaim's taints are used instead
		if r.Float64() < 0.15 && (nd.Pool == "" || nd.Stage == "registered" || nd.Stage == "initialized") {
			nd.Taints = append(nd.Taints, Taint{Key: "other", Value: "", Effect: "NoSchedule"})
		}
		if r.Float64() < 0.1 && nd.Stage != "initialized" {
			nd.Taints = append(nd.Taints, Taint{Key: "node.kubernetes.io/not-ready", Value: "", Effect: "NoSchedule"})
		}
		nd.Deleting = r.Float64() < 0.12 && nd.Pool != "" && nd.Stage == "initialized"
		// pods run only on nodes that have registered (an unregistered node still carries the unregistered NoExecute taint)
		if nd.Stage == "registered" || nd.Stage == "initialized" {
			k := r.IntN(4)
			var used int64
			for j := 0; j < k; j++ {
				podSeq++
				p := GenPod(r, fmt.Sprintf("bound-%d", podSeq), its, pools, GenOpts{InterPod: o.InterPod, MaxPods: 1})
				p.NodeSelector, p.Required, p.Preferred = nil, nil, nil
				if used+p.CPU > it.CPU-it.Overhead {
					p.CPU = 100
				}
				used += p.CPU
				p.Daemon = r.Float64() < 0.1
				if p.Daemon {
					p.Affinity, p.Spreads = nil, nil
				}
				fixExprs(&p)
				nd.Pods = append(nd.Pods, p)
			}
		}
		nodes = append(nodes, nd)
	}
	return nodes
}

func GenDaemonSets(r *rand.Rand, its []IT) []DaemonSet {
	var out []DaemonSet
	n := r.IntN(3)
	for i := 0; i < n; i++ {
		ds := DaemonSet{Name: fmt.Sprintf("ds-%d", i), CPU: int64(100 * (1 + r.IntN(5))), Mem: int64(64 * (1 + r.IntN(4)))}
		switch x := r.Float64(); {
		case x < 0.25:
			ds.NodeSelector = map[string]string{"team": pick(r, []string{"red", "blue"})}
		case x < 0.5:
			// restricted to one instance type: several daemon-overhead groups per NodePool
			ds.NodeSelector = map[string]string{"node.kubernetes.io/instance-type": pick(r, its).Name}
		case x < 0.6:
			ds.NodeSelector = map[string]string{"topology.kubernetes.io/zone": pick(r, Zones)}
		}
		if r.Float64() < 0.5 {
			ds.Tolerations = []Toleration{{Operator: "Exists"}}
		}
		if r.Float64() < 0.15 {
			ds.HostPorts = []HostPort{{Port: 8080, Protocol: "TCP"}}
		}
		out = append(out, ds)
	}
	return out
}

// GenScenario draws a complete scenario.
func GenScenario(r *rand.Rand, o GenOpts) *Scenario {
	if o.MaxPods == 0 {
		o.MaxPods = 8
	}
	its := GenITs(r, o)
	pools := GenPools(r, its, o)
	s := &Scenario{ITs: its, Pools: pools, Nodes: GenNodes(r, its, pools, o), DaemonSets: GenDaemonSets(r, its),
		IgnorePrefs: r.Float64() < 0.2, BestEffortMinVal: r.Float64() < 0.3, Parallelism: pick(r, []int{1, 1, 2, 8}), ReservedCapacity: o.Reserved}
	if o.PodEventsFirst > 0 {
		s.PodEventsFirst = r.Float64() < o.PodEventsFirst
	}
	n := 1 + r.IntN(o.MaxPods)
	for i := 0; i < n; i++ {
		p := GenPod(r, fmt.Sprintf("pod-%d", i), its, pools, o)
		fixExprs(&p)
		s.Pods = append(s.Pods, p)
	}
	// replicas: copies of one pod spec (typical deployments) make inter-pod constraints bite
	if r.Float64() < 0.5 && len(s.Pods) > 0 {
		base := s.Pods[0]
		k := 1 + r.IntN(4)
		for i := 0; i < k; i++ {
			c := base
			c.Name = fmt.Sprintf("rep-%d", i)
			s.Pods = append(s.Pods, c)
		}
	}
	// nodeTaintsPolicy=Honor is only generated when every Node object is initialized: for a node that still carries
	// startup / unregistered / not-ready taints "does this node count for the skew" depends on WHEN the kube-scheduler looks
	// (Karpenter reads the Node object for pods already running and the taints the node will have once ready for pods it
	// places there), so an end-state verdict would be ambiguous.
	for _, n := range s.Nodes {
		if n.Stage == "node" || n.Stage == "registered" {
			for i := range s.Pods {
				for j := range s.Pods[i].Spreads {
					if h := s.Pods[i].Spreads[j].NodeTaintsHonor; h != nil && *h {
						s.Pods[i].Spreads[j].NodeTaintsHonor = nil
					}
				}
			}
			break
		}
	}
	if s.Nodes == nil {
		s.Nodes = []Node{}
	}
	if s.DaemonSets == nil {
		s.DaemonSets = []DaemonSet{}
	}
	if o.LabelInterplay > 0 && r.Float64() < o.LabelInterplay {
		DecorateLabelInterplay(r, s)
	}
	if o.MatchLabelKeys > 0 && r.Float64() < o.MatchLabelKeys {
		DecorateRollout(r, s)
	}
	if o.Namespaces > 0 && r.Float64() < o.Namespaces {
		DecorateNamespaces(r, s)
	}
	if o.Volumes > 0 && r.Float64() < o.Volumes {
		DecorateVolumes(r, s)
	}
	if o.DefaultSpread > 0 && r.Float64() < o.DefaultSpread {
		DecorateDefaultSpread(r, s)
	}
	if o.ZoneHoles > 0 && r.Float64() < o.ZoneHoles {
		DecorateZoneHoles(r, s)
	}
	if o.TaintValues > 0 && r.Float64() < o.TaintValues {
		DecorateTaintValues(r, s)
	}
	if o.ListFaults > 0 && r.Float64() < o.ListFaults {
		DecorateListFault(r, s)
	}
	if o.GetFaults > 0 && len(s.PVCs) > 0 && r.Float64() < o.GetFaults {
		DecorateGetFault(r, s)
	}
	if o.ZonelessUnmanaged > 0 {
		for i := range s.Nodes {
			if s.Nodes[i].Pool == "" && r.Float64() < o.ZonelessUnmanaged {
				s.Nodes[i].Zone = ""
			}
		}
	}
	if o.DaemonLimitsOnly > 0 {
		for i := range s.DaemonSets {
			if r.Float64() < o.DaemonLimitsOnly {
				s.DaemonSets[i].LimitsOnly = true
			}
		}
	}
	return s
}

const zoneKey = "topology.kubernetes.io/zone"

// ensureSpreadSet makes the first pending pod's app a set of at least three small pending replicas with a DoNotSchedule zone
// spread (maxSkew 1 or 2) selecting the app; mostly the replicas carry no node constraints of their own.  Returns the app.
func ensureSpreadSet(r *rand.Rand, s *Scenario, tolerations []Toleration, honorTaints bool) string {
	app := s.Pods[0].Labels["app"]
	p0 := &s.Pods[0]
	var sp *Spread
	for i := range p0.Spreads {
		if p0.Spreads[i].TopologyKey == zoneKey && p0.Spreads[i].DoNotSchedule && len(p0.Spreads[i].MatchLabels) == 1 && p0.Spreads[i].MatchLabels["app"] == app {
			sp = &p0.Spreads[i]
		}
	}
	if sp == nil {
		p0.Spreads = []Spread{{TopologyKey: zoneKey, MaxSkew: 1, DoNotSchedule: true, MatchLabels: map[string]string{"app": app}}}
		if r.Float64() < 0.2 {
			p0.Spreads[0].MaxSkew = 2
		}
		sp = &p0.Spreads[0]
	}
	if honorTaints {
		t := true
		sp.NodeTaintsHonor = &t
	}
	if r.Float64() < 0.75 {
		p0.NodeSelector, p0.Required, p0.Preferred, p0.Affinity = nil, nil, nil, nil
	}
	p0.HostPorts, p0.Volumes = nil, nil
	p0.CPU, p0.Mem = int64(100*(1+r.IntN(4))), int64(64*(1+r.IntN(4)))
	if tolerations != nil {
		p0.Tolerations = append([]Toleration(nil), tolerations...)
	}
	template := ClonePod(*p0)
	pending := 0
	for i := range s.Pods {
		if s.Pods[i].Labels["app"] == app {
			pending++
			if i > 0 && len(s.Pods[i].Name) > 4 && s.Pods[i].Name[:4] == "rep-" {
				c := ClonePod(template)
				c.Name = s.Pods[i].Name
				s.Pods[i] = c
			}
		}
	}
	for i := 0; pending < 3+r.IntN(3); i++ {
		c := ClonePod(template)
		c.Name = fmt.Sprintf("spr-%d", i)
		s.Pods = append(s.Pods, c)
		pending++
	}
	return app
}

// addPinned adds one or two small pending pods of ANOTHER app that are pinned to the zone by a node selector.
func addPinned(r *rand.Rand, s *Scenario, app, zone string, tolerations []Toleration) {
	var others []string
	for _, a := range apps {
		if a != app {
			others = append(others, a)
		}
	}
	n := 1 + r.IntN(2)
	for i := 0; i < n; i++ {
		s.Pods = append(s.Pods, Pod{Name: fmt.Sprintf("pin-%d", i), Labels: map[string]string{"app": pick(r, others)}, CPU: int64(100 * (1 + r.IntN(3))), Mem: 64,
			NodeSelector: map[string]string{zoneKey: zone}, Tolerations: append([]Toleration(nil), tolerations...)})
	}
	// the order in which the batch is listed varies
	if r.Float64() < 0.5 {
		last := len(s.Pods) - 1
		s.Pods[0], s.Pods[last] = s.Pods[last], s.Pods[0]
	}
}

// DecorateZoneHoles: see GenOpts.ZoneHoles.
func DecorateZoneHoles(r *rand.Rand, s *Scenario) {
	if len(s.Pods) == 0 || len(s.ITs) < 2 {
		return
	}
	unshare(s)
	hole := pick(r, Zones)
	k := 1 + r.IntN(len(s.ITs)-1) // the first k instance types lack the zone, at least the last one keeps it
	for i := 0; i < k; i++ {
		var keep []Offering
		for _, of := range s.ITs[i].Offerings {
			if of.Zone != hole {
				keep = append(keep, of)
			}
		}
		if len(keep) == 0 {
			z := Zones[0]
			if z == hole {
				z = Zones[1]
			}
			keep = []Offering{{Zone: z, CapacityType: "on-demand", Price: s.ITs[i].CPU / 1000 * 40, Available: true}}
		}
		s.ITs[i].Offerings = keep
	}
	// some later instance type is certainly available there
	j := k + r.IntN(len(s.ITs)-k)
	avail := false
	for _, of := range s.ITs[j].Offerings {
		avail = avail || (of.Zone == hole && of.Available)
	}
	if !avail {
		s.ITs[j].Offerings = append(s.ITs[j].Offerings, Offering{Zone: hole, CapacityType: pick(r, capTypes), Price: s.ITs[j].CPU / 1000 * 40, Available: true})
	}
	// existing nodes keep an offering of their instance type
	for i := range s.Nodes {
		n := &s.Nodes[i]
		for _, it := range s.ITs {
			if it.Name != n.IT {
				continue
			}
			ok := false
			for _, of := range it.Offerings {
				ok = ok || (of.Zone == n.Zone && of.CapacityType == n.CapacityType)
			}
			if !ok {
				n.Zone, n.CapacityType = it.Offerings[0].Zone, it.Offerings[0].CapacityType
			}
		}
	}
	if r.Float64() < 0.7 {
		for i := range s.Pools {
			var reqs []MinExpr
			for _, e := range s.Pools[i].Reqs {
				if e.Key != zoneKey {
					reqs = append(reqs, e)
				}
			}
			s.Pools[i].Reqs = reqs
		}
	}
	app := ensureSpreadSet(r, s, nil, false)
	addPinned(r, s, app, hole, []Toleration{{Operator: "Exists"}})
}

// DecorateTaintValues: see GenOpts.TaintValues.
func DecorateTaintValues(r *rand.Rand, s *Scenario) {
	if len(s.Pods) == 0 {
		return
	}
	unshare(s)
	if len(s.Pools) < 2 {
		s.Pools = append(s.Pools, NodePool{Name: "pool-tv", Labels: map[string]string{}})
	}
	a, b := 0, 1
	if r.Float64() < 0.5 {
		a, b = 1, 0
	}
	eff := pick(r, []string{"NoSchedule", "NoSchedule", "NoExecute"})
	va, vb := "x", "y"
	if r.Float64() < 0.5 {
		va, vb = "y", "x"
	}
	s.Pools[a].Taints = []Taint{{Key: "dedicated", Value: va, Effect: eff}}
	s.Pools[b].Taints = []Taint{{Key: "dedicated", Value: vb, Effect: eff}}
	tol := []Toleration{{Key: "dedicated", Operator: "Equal", Value: vb, Effect: eff}}
	if r.Float64() < 0.5 {
		s.Pools[b].Taints = append(s.Pools[b].Taints, Taint{Key: "other", Value: "", Effect: "NoSchedule"})
		tol = append(tol, Toleration{Key: "other", Operator: "Exists", Effect: "NoSchedule"})
	}
	// pool a is confined to one or two zones, pool b is offered everywhere
	strip := func(reqs []MinExpr) []MinExpr {
		var out []MinExpr
		for _, e := range reqs {
			if e.Key != zoneKey {
				out = append(out, e)
			}
		}
		return out
	}
	perm := r.Perm(len(Zones))
	shared := []string{Zones[perm[0]]}
	if r.Float64() < 0.5 {
		shared = append(shared, Zones[perm[1]])
	}
	s.Pools[a].Reqs = append(strip(s.Pools[a].Reqs), MinExpr{Key: zoneKey, Op: "In", Values: shared})
	s.Pools[b].Reqs = strip(s.Pools[b].Reqs)
	s.Pools[a].StartupTaints, s.Pools[b].StartupTaints = nil, nil
	// nodeTaintsPolicy=Honor verdicts are time-dependent while a Node still carries startup / unregistered taints
	for i := range s.Nodes {
		if s.Nodes[i].Stage == "node" || s.Nodes[i].Stage == "registered" {
			s.Nodes[i].Stage = "initialized"
		}
		var keep []Taint
		for _, t := range s.Nodes[i].Taints {
			if t.Key != "node.kubernetes.io/not-ready" {
				keep = append(keep, t)
			}
		}
		s.Nodes[i].Taints = keep
	}
	app := ensureSpreadSet(r, s, tol, true)
	addPinned(r, s, app, pick(r, shared), tol)
}

// DecorateGetFault makes one Get of a volume object fail once during the pass (503): the Nth PersistentVolumeClaim lookup
// (validation looks every claim of a pending pod up once, the volume topology once more), or a PersistentVolume / StorageClass
// lookup.  A pod whose volumes cannot be resolved must not be placed as if it had none.
func DecorateGetFault(r *rand.Rand, s *Scenario) {
	vols := 0
	for i := range s.Pods {
		vols += len(s.Pods[i].Volumes)
	}
	if vols == 0 {
		return
	}
	kind := pick(r, []string{"Get:PersistentVolumeClaim", "Get:PersistentVolumeClaim", "Get:PersistentVolumeClaim", "Get:PersistentVolume", "Get:StorageClass"})
	s.ListFaults = append(s.ListFaults, ListFault{Kind: kind, Nth: 1 + r.IntN(2*vols+2)})
}

// ---------- optional vocabulary ----------

// ClonePod returns a deep copy (replicas generated as struct copies share their slices and maps).
func ClonePod(p Pod) Pod {
	c := p
	c.Labels = cloneMap(p.Labels)
	c.NodeSelector = cloneMap(p.NodeSelector)
	c.Required = nil
	for _, t := range p.Required {
		c.Required = append(c.Required, cloneExprs(t))
	}
	c.Preferred = nil
	for _, pr := range p.Preferred {
		c.Preferred = append(c.Preferred, Preferred{Weight: pr.Weight, Exprs: cloneExprs(pr.Exprs)})
	}
	c.Tolerations = append([]Toleration(nil), p.Tolerations...)
	c.HostPorts = append([]HostPort(nil), p.HostPorts...)
	c.Affinity = nil
	for _, a := range p.Affinity {
		a.MatchLabels = cloneMap(a.MatchLabels)
		a.MatchExprs = cloneExprs(a.MatchExprs)
		a.Namespaces = append([]string(nil), a.Namespaces...)
		a.MatchLabelKeys = append([]string(nil), a.MatchLabelKeys...)
		if a.NamespaceSelector != nil {
			a.NamespaceSelector = &LabelSel{MatchLabels: cloneMap(a.NamespaceSelector.MatchLabels), MatchExprs: cloneExprs(a.NamespaceSelector.MatchExprs)}
		}
		c.Affinity = append(c.Affinity, a)
	}
	c.Spreads = nil
	for _, sp := range p.Spreads {
		sp.MatchLabels = cloneMap(sp.MatchLabels)
		sp.MatchExprs = cloneExprs(sp.MatchExprs)
		sp.MatchLabelKeys = append([]string(nil), sp.MatchLabelKeys...)
		c.Spreads = append(c.Spreads, sp)
	}
	c.Volumes = append([]Volume(nil), p.Volumes...)
	return c
}

func cloneMap(m map[string]string) map[string]string {
	if m == nil {
		return nil
	}
	c := make(map[string]string, len(m))
	for k, v := range m {
		c[k] = v
	}
	return c
}

func cloneExprs(es []KExpr) []KExpr {
	if es == nil {
		return nil
	}
	out := make([]KExpr, len(es))
	for i, e := range es {
		out[i] = KExpr{Key: e.Key, Op: e.Op, Values: append([]string{}, e.Values...)}
	}
	return out
}

// eachPod visits every pod of the scenario (pending pods, then the pods bound to nodes); node is nil for pending pods.
func eachPod(s *Scenario, f func(p *Pod, node *Node)) {
	for i := range s.Pods {
		f(&s.Pods[i], nil)
	}
	for i := range s.Nodes {
		for j := range s.Nodes[i].Pods {
			f(&s.Nodes[i].Pods[j], &s.Nodes[i])
		}
	}
}

// unshare gives every pod its own slices and maps.
func unshare(s *Scenario) {
	eachPod(s, func(p *Pod, _ *Node) { *p = ClonePod(*p) })
}

var nsNames = []string{"default", "team-a", "team-b"}

// DecorateNamespaces spreads the pods over three namespaces (labelled env=prod|dev) and gives the (anti-)affinity terms the
// namespace forms of the API: unset (own namespace), a namespaces list, an EMPTY namespaceSelector (= all namespaces), a
// selector with matchLabels or matchExpressions, and list + selector together.
func DecorateNamespaces(r *rand.Rand, s *Scenario) {
	unshare(s)
	s.Namespaces = nil
	for _, n := range nsNames {
		s.Namespaces = append(s.Namespaces, Namespace{Name: n, Labels: map[string]string{"env": pick(r, []string{"prod", "dev"})}})
	}
	// the replicas of one deployment mostly share a namespace
	repNS := pick(r, nsNames)
	eachPod(s, func(p *Pod, _ *Node) {
		if len(p.Name) > 4 && p.Name[:4] == "rep-" && r.Float64() < 0.7 {
			p.Namespace = repNS
		} else {
			p.Namespace = pick(r, nsNames)
		}
		if p.Daemon {
			p.Namespace = "default"
		}
		for i := range p.Affinity {
			a := &p.Affinity[i]
			switch r.IntN(8) {
			case 0, 1:
				// own namespace only
			case 2, 3:
				a.NamespaceSelector = &LabelSel{}
			case 4:
				a.NamespaceSelector = &LabelSel{MatchLabels: map[string]string{"env": pick(r, []string{"prod", "dev"})}}
			case 5:
				a.Namespaces = pickVals(r, nsNames)
			case 6:
				a.Namespaces = []string{pick(r, nsNames)}
				a.NamespaceSelector = &LabelSel{MatchExprs: []KExpr{{Key: "env", Op: pick(r, []string{"In", "NotIn"}), Values: []string{pick(r, []string{"prod", "dev"})}}}}
			case 7:
				a.NamespaceSelector = &LabelSel{MatchExprs: []KExpr{{Key: "kubernetes.io/metadata.name", Op: pick(r, []string{"In", "NotIn"}), Values: pickVals(r, nsNames)}}}
			}
		}
	})
}

const RevKey = "pod-template-hash"

// DecorateRollout turns the pods of the first pending pod's app into a Deployment in the middle of a rollout: every pod of the
// app (pending and running) carries a revision label, the running ones mostly the old revision; their spread constraints and
// affinity terms that select the app name the revision label in matchLabelKeys (pods without such a constraint get a zone
// spread, as a Deployment's pods all carry the same template), and in every other scenario the selector already holds the
// merged "rev In [value]" expression (Kubernetes >= 1.34 API server).  At least three pods of the app are pending.
func DecorateRollout(r *rand.Rand, s *Scenario) {
	if len(s.Pods) == 0 {
		return
	}
	unshare(s)
	app := s.Pods[0].Labels["app"]
	revs := []string{"r1", "r2"}
	apiMerged := r.Float64() < 0.5
	// the template's constraint: the first pod's own constraints if they select the app, else a zone (or hostname) spread
	selectsApp := func(m map[string]string) bool { return len(m) == 1 && m["app"] == app }
	has := false
	for _, sp := range s.Pods[0].Spreads {
		has = has || selectsApp(sp.MatchLabels)
	}
	for _, a := range s.Pods[0].Affinity {
		has = has || selectsApp(a.MatchLabels)
	}
	var extra *Spread
	if !has {
		extra = &Spread{TopologyKey: pick(r, []string{"topology.kubernetes.io/zone", "topology.kubernetes.io/zone", "kubernetes.io/hostname", "karpenter.sh/capacity-type"}),
			MaxSkew: int32(1 + r.IntN(2)), DoNotSchedule: true, MatchLabels: map[string]string{"app": app}}
	}
	pending := 0
	for i := range s.Pods {
		if s.Pods[i].Labels["app"] == app {
			pending++
		}
	}
	for i := 0; pending < 3+r.IntN(3); i++ {
		c := ClonePod(s.Pods[0])
		c.Name = fmt.Sprintf("roll-%d", i)
		s.Pods = append(s.Pods, c)
		pending++
	}
	template := ClonePod(s.Pods[0])
	eachPod(s, func(p *Pod, node *Node) {
		if p.Labels["app"] != app || p.Daemon {
			return
		}
		if node != nil {
			p.Labels[RevKey] = revs[0]
			if r.Float64() < 0.2 {
				p.Labels[RevKey] = revs[1]
			}
			// a running pod of the deployment carries the template's inter-pod constraints
			if r.Float64() < 0.7 {
				t := ClonePod(template)
				p.Affinity, p.Spreads = t.Affinity, t.Spreads
			}
		} else {
			p.Labels[RevKey] = revs[1]
			if r.Float64() < 0.35 {
				p.Labels[RevKey] = revs[0]
			}
		}
		if extra != nil && (node == nil || len(p.Spreads) == 0) {
			e := *extra
			e.MatchLabels = cloneMap(extra.MatchLabels)
			p.Spreads = append(p.Spreads, e)
		}
		merged := []KExpr{{Key: RevKey, Op: "In", Values: []string{p.Labels[RevKey]}}}
		for i := range p.Spreads {
			if selectsApp(p.Spreads[i].MatchLabels) {
				p.Spreads[i].MatchLabelKeys = []string{RevKey}
				if apiMerged {
					p.Spreads[i].MatchExprs = cloneExprs(merged)
				}
			}
		}
		for i := range p.Affinity {
			if selectsApp(p.Affinity[i].MatchLabels) {
				p.Affinity[i].MatchLabelKeys = []string{RevKey}
				p.Affinity[i].MatchExprs = cloneExprs(merged) // always merged by the API server for affinity terms
			}
		}
	})
}

// DecorateVolumes gives pods PersistentVolumeClaims: bound PersistentVolumes with zonal node affinity (one zone, several
// zones, several OR-ed terms, none), unbound claims of StorageClasses (no topology, one or several allowedTopologies terms),
// one to three volumes per pod - so that the volumes of one pod agree on a zone, leave several, or exclude each other - and a
// few claims that make the pod unschedulable (missing claim, missing volume, Immediate class).  The volumes of a running
// pod are reachable from its node.
func DecorateVolumes(r *rand.Rand, s *Scenario) {
	unshare(s)
	zoneKey := "topology.kubernetes.io/zone"
	zoneTerm := func(zs ...string) []KExpr {
		k := zoneKey
		if r.Float64() < 0.08 {
			k = "failure-domain.beta.kubernetes.io/zone"
		}
		return []KExpr{{Key: k, Op: "In", Values: zs}}
	}
	s.StorageClasses = []StorageClass{{Name: "sc-any"}}
	{
		sc := StorageClass{Name: "sc-zonal"}
		perm := r.Perm(len(Zones))
		nt := 1 + r.IntN(2)
		for t := 0; t < nt; t++ {
			sc.Topologies = append(sc.Topologies, []KExpr{{Key: zoneKey, Op: "In", Values: []string{Zones[perm[t]]}}})
		}
		if r.Float64() < 0.3 {
			sc.Topologies = [][]KExpr{{{Key: zoneKey, Op: "In", Values: pickVals(r, Zones)}}}
		}
		s.StorageClasses = append(s.StorageClasses, sc)
	}
	s.StorageClasses = append(s.StorageClasses, StorageClass{Name: "sc-immediate", Immediate: true})
	pPod := 0.3 + 0.5*r.Float64()
	n := 0
	eachPod(s, func(p *Pod, node *Node) {
		if p.Daemon {
			return
		}
		if node != nil && r.Float64() > 0.25 {
			return
		}
		if node == nil && r.Float64() > pPod {
			return
		}
		k := 1 + r.IntN(3)
		if r.Float64() < 0.4 {
			k = 2
		}
		for i := 0; i < k; i++ {
			n++
			claim := PVC{Name: fmt.Sprintf("claim-%d", n), Namespace: p.Namespace}
			vol := Volume{Name: fmt.Sprintf("vol-%d", i), Claim: claim.Name}
			x := r.Float64()
			switch {
			case node != nil:
				// in use by a running pod: bound, reachable from its node
				pv := PV{Name: fmt.Sprintf("pv-%d", n), Terms: [][]KExpr{zoneTerm(node.Zone)}}
				claim.VolumeName = pv.Name
				s.PVs = append(s.PVs, pv)
			case x < 0.55:
				pv := PV{Name: fmt.Sprintf("pv-%d", n)}
				switch y := r.Float64(); {
				case y < 0.6:
					pv.Terms = [][]KExpr{zoneTerm(pick(r, Zones))}
				case y < 0.75:
					pv.Terms = [][]KExpr{zoneTerm(pickVals(r, Zones)...)}
				case y < 0.92:
					perm := r.Perm(len(Zones))
					pv.Terms = [][]KExpr{zoneTerm(Zones[perm[0]]), zoneTerm(Zones[perm[1]])}
				}
				claim.VolumeName = pv.Name
				s.PVs = append(s.PVs, pv)
			case x < 0.80:
				claim.StorageClass = "sc-zonal"
			case x < 0.95:
				claim.StorageClass = "sc-any"
			case x < 0.97:
				claim.StorageClass = "sc-immediate"
			case x < 0.985:
				claim.VolumeName = "pv-missing"
			default:
				// the claim itself does not exist
				p.Volumes = append(p.Volumes, vol)
				continue
			}
			s.PVCs = append(s.PVCs, claim)
			p.Volumes = append(p.Volumes, vol)
		}
	})
}

// DecorateDefaultSpread configures cluster-level default topology spread constraints (one on zone, sometimes a second on
// hostname or capacity type; mostly DoNotSchedule) and turns the pods of the first pending pod's app - pending and running,
// at least three pending - into the replicas of ReplicaSet rs-<app> behind Service svc-<app> (selector app=<app>): they lose
// their own spread constraints, so the defaults apply with the selector deduced per pod.  One or two replicas carry the
// extra label track=canary, which a second Service (selector app=<app>,track=canary) selects: their deduced selector differs
// from their siblings' although the controller is the same.  In every namespace the app's pods live in, the Services and the
// ReplicaSet exist with high probability only; pods of other apps sometimes lose their constraints too (no Service selects
// them, so they stay unconstrained unless they have a controller).
func DecorateDefaultSpread(r *rand.Rand, s *Scenario) {
	if len(s.Pods) == 0 {
		return
	}
	unshare(s)
	zone, host, ct := "topology.kubernetes.io/zone", "kubernetes.io/hostname", "karpenter.sh/capacity-type"
	s.DefaultSpreads = []Spread{{TopologyKey: zone, MaxSkew: int32(1 + r.IntN(2)), DoNotSchedule: r.Float64() < 0.85}}
	if r.Float64() < 0.15 && s.DefaultSpreads[0].DoNotSchedule {
		md := int32(2 + r.IntN(2))
		s.DefaultSpreads[0].MinDomains = &md
	}
	if r.Float64() < 0.3 {
		s.DefaultSpreads = append(s.DefaultSpreads, Spread{TopologyKey: pick(r, []string{host, ct}), MaxSkew: int32(1 + r.IntN(3)), DoNotSchedule: r.Float64() < 0.5})
	}
	app := s.Pods[0].Labels["app"]
	pending := 0
	for i := range s.Pods {
		if s.Pods[i].Labels["app"] == app {
			pending++
		}
	}
	for i := 0; pending < 3+r.IntN(3); i++ {
		c := ClonePod(s.Pods[0])
		c.Name = fmt.Sprintf("web-%d", i)
		s.Pods = append(s.Pods, c)
		pending++
	}
	small := r.Float64() < 0.6
	nsUsed := []string{}
	seen := map[string]bool{}
	eachPod(s, func(p *Pod, node *Node) {
		if p.Daemon {
			return
		}
		if p.Labels["app"] != app {
			if r.Float64() < 0.3 {
				p.Spreads = nil
			}
			return
		}
		p.Spreads = nil
		p.Owner = "rs-" + app
		if node == nil && small {
			// small replicas: several fit one node, so only the constraint spreads them
			p.CPU = int64(100 * (1 + r.IntN(4)))
			p.Mem = int64(64 * (1 + r.IntN(4)))
			p.HostPorts = nil
		}
		if !seen[p.NS()] {
			seen[p.NS()] = true
			nsUsed = append(nsUsed, p.NS())
		}
	})
	// the canaries: one or two replicas, pending ones first
	canaries := 1 + r.IntN(2)
	perm := r.Perm(len(s.Pods))
	for _, i := range perm {
		if canaries > 0 && s.Pods[i].Labels["app"] == app {
			s.Pods[i].Labels["track"] = "canary"
			canaries--
		}
	}
	if r.Float64() < 0.3 {
		eachPod(s, func(p *Pod, node *Node) {
			if node != nil && p.Labels["app"] == app && !p.Daemon && r.Float64() < 0.3 {
				p.Labels["track"] = "canary"
			}
		})
	}
	for _, ns := range nsUsed {
		nsField := ns
		if ns == "default" {
			nsField = ""
		}
		if r.Float64() < 0.9 {
			s.Services = append(s.Services, Service{Name: "svc-" + app, Namespace: nsField, Selector: map[string]string{"app": app}})
		}
		if r.Float64() < 0.8 {
			s.Services = append(s.Services, Service{Name: "svc-" + app + "-canary", Namespace: nsField, Selector: map[string]string{"app": app, "track": "canary"}})
		}
		if r.Float64() < 0.1 {
			// a Service without selector (selects nothing) and one with an empty selector (selects every pod, contributes nothing)
			s.Services = append(s.Services, Service{Name: "svc-headless", Namespace: nsField}, Service{Name: "svc-all", Namespace: nsField, Selector: map[string]string{}})
		}
		if r.Float64() < 0.9 {
			rs := ReplicaSet{Name: "rs-" + app, Namespace: nsField, Selector: LabelSel{MatchLabels: map[string]string{"app": app}}}
			if r.Float64() < 0.2 {
				rs.Selector = LabelSel{MatchExprs: []KExpr{{Key: "app", Op: "In", Values: []string{app}}}}
			}
			s.ReplicaSets = append(s.ReplicaSets, rs)
		}
	}
}

// DecorateListFault makes one List call of the pass fail once.  Mostly the Namespace list behind a namespaceSelector: when no
// RUNNING pod carries a required anti-affinity term with a namespace selector, one of them (if any) usually gets such a term
// against the first pending pod's app (hostname or zone; empty selector = all namespaces, or the env label), and the fault
// strikes one of the lists that resolve the running pods' terms - or a later one (pending pods' terms).  Otherwise a Pod or
// NodePool list.
func DecorateListFault(r *rand.Rand, s *Scenario) {
	unshare(s)
	inverse := func() int {
		n := 0
		eachPod(s, func(p *Pod, node *Node) {
			if node == nil {
				return
			}
			for _, a := range p.Affinity {
				if a.Anti && a.Required && a.NamespaceSelector != nil {
					n++
				}
			}
		})
		return n
	}
	if r.Float64() < 0.75 {
		if inverse() == 0 && len(s.Pods) > 0 && r.Float64() < 0.85 {
			var running []*Pod
			eachPod(s, func(p *Pod, node *Node) {
				if node != nil && !p.Daemon && !node.Deleting {
					running = append(running, p)
				}
			})
			if len(running) > 0 {
				g := pick(r, running)
				sel := &LabelSel{}
				if len(s.Namespaces) > 0 && r.Float64() < 0.4 {
					sel = &LabelSel{MatchExprs: []KExpr{{Key: "env", Op: "In", Values: []string{"prod", "dev"}}}}
				}
				g.Affinity = append(g.Affinity, PodAffinity{TopologyKey: pick(r, []string{"kubernetes.io/hostname", "kubernetes.io/hostname", "topology.kubernetes.io/zone"}),
					MatchLabels: map[string]string{"app": s.Pods[0].Labels["app"]}, Anti: true, Required: true, NamespaceSelector: sel})
			}
		}
		n := inverse()
		nth := 1 + r.IntN(n+1)
		if r.Float64() < 0.15 {
			nth += r.IntN(4)
		}
		s.ListFaults = []ListFault{{Kind: "Namespace", Nth: nth}}
		return
	}
	s.ListFaults = []ListFault{{Kind: pick(r, []string{"Pod", "Pod", "NodePool"}), Nth: 1 + r.IntN(4)}}
}

var customKeys = []string{"team", "tier"}

func customVals(k string) []string {
	if k == "team" {
		return []string{"red", "blue"}
	}
	return []string{"gold", "silver"}
}

// GenCustomKey picks one of the custom node label keys; GenCustomValue one of its values.
func GenCustomKey(r *rand.Rand) string             { return pick(r, customKeys) }
func GenCustomValue(r *rand.Rand, k string) string { return pick(r, customVals(k)) }

// GenCustomExpr draws one expression over the custom node label key k with any of the four set operators.
func GenCustomExpr(r *rand.Rand, k string) KExpr {
	op := pick(r, []string{"In", "NotIn", "Exists", "DoesNotExist"})
	e := KExpr{Key: k, Op: op, Values: []string{}}
	if op == "In" || op == "NotIn" {
		e.Values = []string{pick(r, customVals(k))}
	}
	return e
}

// ApplyLabelInterplay makes p a small pod whose required node affinity (or node selector) is about the custom label key k.
func ApplyLabelInterplay(r *rand.Rand, p *Pod, k string) {
	p.CPU = int64(100 * (1 + r.IntN(6)))
	p.Mem = int64(64 * (1 + r.IntN(6)))
	p.HostPorts = nil
	p.NodeSelector, p.Required = nil, nil
	if r.Float64() < 0.3 {
		p.Preferred = nil
	}
	if r.Float64() < 0.15 {
		p.NodeSelector = map[string]string{k: pick(r, customVals(k))}
		return
	}
	term := []KExpr{GenCustomExpr(r, k)}
	p.Required = [][]KExpr{term}
	if r.Float64() < 0.15 {
		p.Required = append(p.Required, []KExpr{GenCustomExpr(r, k)})
	}
}

// DecorateLabelInterplay makes two to four pending pods (added when the batch is smaller) small pods that constrain one
// custom node label key in different ways.
func DecorateLabelInterplay(r *rand.Rand, s *Scenario) {
	unshare(s)
	k := pick(r, customKeys)
	n := 2 + r.IntN(3)
	for i := 0; len(s.Pods) < n; i++ {
		s.Pods = append(s.Pods, Pod{Name: fmt.Sprintf("lab-%d", i), Labels: map[string]string{"app": pick(r, apps)}, Tolerations: genTolerations(r)})
	}
	perm := r.Perm(len(s.Pods))
	for _, i := range perm[:n] {
		ApplyLabelInterplay(r, &s.Pods[i], k)
	}
}
