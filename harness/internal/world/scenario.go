// Package world builds a complete in-process karpenter "world" (fake API client, cluster state, fake cloud
// provider, real provisioner/scheduler) from a JSON-serialisable Scenario, runs real scheduling passes on it and
// extracts canonical results. Shared by the whole-pass ops of several properties.
package world

// All quantities are integers: cpu in milli-cores, memory in Mi, price in 1/1024 $ (dyadic grid, float-exact).

type KExpr struct {
	Key    string   `json:"key"`
	Op     string   `json:"op"`
	Values []string `json:"values"`
}

type Taint struct {
	Key    string `json:"key"`
	Value  string `json:"value"`
	Effect string `json:"effect"`
}

type Toleration struct {
	Key      string `json:"key"`
	Operator string `json:"operator"` // Exists | Equal
	Value    string `json:"value"`
	Effect   string `json:"effect"` // "" = all effects
}

type HostPort struct {
	Port     int32  `json:"port"`
	Protocol string `json:"protocol"` // TCP | UDP
	IP       string `json:"ip"`       // "" = 0.0.0.0
}

type Offering struct {
	Zone          string `json:"zone"`
	CapacityType  string `json:"capacityType"`
	Price         int64  `json:"price"`
	Available     bool   `json:"available"`
	ReservationID string `json:"reservationID"`
	ReservationN  int    `json:"reservationCapacity"`
	// CPUOverride, when set, is this offering's CapacityOverride for cpu (milli-cores): launches through this offering have
	// another allocatable than the instance type's base capacity
	CPUOverride *int64 `json:"cpuOverride"`
}

type IT struct {
	Name      string     `json:"name"`
	CPU       int64      `json:"cpu"`
	Mem       int64      `json:"mem"`
	Pods      int64      `json:"pods"`
	Arch      string     `json:"arch"`
	OS        []string   `json:"os"`
	Overhead  int64      `json:"overheadCPU"`
	Offerings []Offering `json:"offerings"`
}

type MinExpr struct {
	Key       string   `json:"key"`
	Op        string   `json:"op"`
	Values    []string `json:"values"`
	MinValues *int     `json:"minValues"`
}

type NodePool struct {
	Name          string            `json:"name"`
	Weight        int32             `json:"weight"`
	Labels        map[string]string `json:"labels"`
	Taints        []Taint           `json:"taints"`
	StartupTaints []Taint           `json:"startupTaints"`
	Reqs          []MinExpr         `json:"reqs"`
	LimitCPU      *int64            `json:"limitCPU"`
	LimitMem      *int64            `json:"limitMem"`
}

// LabelSel is a metav1.LabelSelector: MatchLabels AND MatchExprs (In | NotIn | Exists | DoesNotExist).  A non-nil selector
// without any requirement selects everything.
type LabelSel struct {
	MatchLabels map[string]string `json:"matchLabels,omitempty"`
	MatchExprs  []KExpr           `json:"matchExprs,omitempty"`
}

type PodAffinity struct {
	TopologyKey string            `json:"topologyKey"`
	MatchLabels map[string]string `json:"matchLabels"`
	Anti        bool              `json:"anti"`
	Required    bool              `json:"required"`
	Weight      int32             `json:"weight"`
	// MatchExprs are the matchExpressions of the term's label selector (ANDed with MatchLabels)
	MatchExprs []KExpr `json:"matchExprs,omitempty"`
	// Namespaces / NamespaceSelector: the namespaces the term applies to (Kubernetes: the union of the listed namespaces and
	// those the selector matches; both unset = the pod's own namespace; an EMPTY selector {} = every namespace)
	Namespaces        []string  `json:"namespaces,omitempty"`
	NamespaceSelector *LabelSel `json:"namespaceSelector,omitempty"`
	// MatchLabelKeys: the pod's own values of these label keys are ANDed into the selector.  For (anti-)affinity terms the API
	// server performs that merge when the pod is created; BuildPod does the same (the scheduler only ever sees merged terms).
	MatchLabelKeys []string `json:"matchLabelKeys,omitempty"`
}

type Spread struct {
	TopologyKey       string            `json:"topologyKey"`
	MaxSkew           int32             `json:"maxSkew"`
	MinDomains        *int32            `json:"minDomains"`
	DoNotSchedule     bool              `json:"doNotSchedule"`
	MatchLabels       map[string]string `json:"matchLabels"`
	NodeAffinityHonor *bool             `json:"nodeAffinityHonor"` // nil = default (Honor)
	NodeTaintsHonor   *bool             `json:"nodeTaintsHonor"`   // nil = default (Ignore)
	// MatchExprs are the matchExpressions of the constraint's label selector (ANDed with MatchLabels).  On Kubernetes >= 1.34
	// the API server has already merged "key In [value]" for every matchLabelKey into them; the scenario is literal about that.
	MatchExprs []KExpr `json:"matchExprs,omitempty"`
	// MatchLabelKeys: the pod's own values of these label keys are ANDed into the selector at scheduling time
	MatchLabelKeys []string `json:"matchLabelKeys,omitempty"`
}

// Volume is a pod volume backed by the PersistentVolumeClaim `Claim` of the pod's namespace.
type Volume struct {
	Name  string `json:"name"`
	Claim string `json:"claim"`
}

type Preferred struct {
	Weight int32   `json:"weight"`
	Exprs  []KExpr `json:"exprs"`
}

type Pod struct {
	Name         string            `json:"name"`
	Labels       map[string]string `json:"labels"`
	CPU          int64             `json:"cpu"`
	Mem          int64             `json:"mem"`
	NodeSelector map[string]string `json:"nodeSelector"`
	Required     [][]KExpr         `json:"required"` // OR of AND-ed terms
	Preferred    []Preferred       `json:"preferred"`
	Tolerations  []Toleration      `json:"tolerations"`
	HostPorts    []HostPort        `json:"hostPorts"`
	Affinity     []PodAffinity     `json:"affinity"`
	Spreads      []Spread          `json:"spreads"`
	Daemon       bool              `json:"daemon"` // owned by a DaemonSet (bound pods only)
	// Namespace of the pod ("" = "default").  Pod NAMES stay unique across namespaces (outcomes are keyed by name).
	Namespace string   `json:"namespace,omitempty"`
	Volumes   []Volume `json:"volumes,omitempty"`
	// Owner: the pod's controller is the ReplicaSet of this name in the pod's namespace (an ownerReference with controller=true;
	// the ReplicaSet object itself exists only if Scenario.ReplicaSets declares it)
	Owner string `json:"owner,omitempty"`
}

func (p *Pod) NS() string {
	if p.Namespace == "" {
		return "default"
	}
	return p.Namespace
}

type Node struct {
	Name         string            `json:"name"`
	Pool         string            `json:"pool"` // "" = unmanaged node
	IT           string            `json:"it"`
	Zone         string            `json:"zone"` // "" (unmanaged nodes only) = the node has no zone label
	CapacityType string            `json:"capacityType"`
	Labels       map[string]string `json:"labels"`
	Taints       []Taint           `json:"taints"`
	Stage        string            `json:"stage"` // claim | node | registered | initialized
	Deleting     bool              `json:"deleting"`
	Pods         []Pod             `json:"pods"`
}

type DaemonSet struct {
	Name         string            `json:"name"`
	CPU          int64             `json:"cpu"`
	Mem          int64             `json:"mem"`
	NodeSelector map[string]string `json:"nodeSelector"`
	Tolerations  []Toleration      `json:"tolerations"`
	HostPorts    []HostPort        `json:"hostPorts"`
	// LimitsOnly: the template's container declares CPU/Mem as LIMITS and has no requests stanza (the API server defaults a
	// pod's requests to its limits, so the daemon pod still requests CPU/Mem; templates are not defaulted)
	LimitsOnly bool `json:"limitsOnly,omitempty"`
}

// Namespace is a namespace object with its labels (every namespace also carries kubernetes.io/metadata.name=<name>).
// Namespaces that pods or claims use without being declared exist too, without extra labels.
type Namespace struct {
	Name   string            `json:"name"`
	Labels map[string]string `json:"labels,omitempty"`
}

// PV is a PersistentVolume; Terms is its required node affinity (OR of AND-ed expressions; none = reachable everywhere).
type PV struct {
	Name  string    `json:"name"`
	Terms [][]KExpr `json:"terms,omitempty"`
}

// StorageClass: Topologies are its allowedTopologies (OR of AND-ed "key In values" expressions; none = anywhere);
// Immediate = volumeBindingMode Immediate (otherwise WaitForFirstConsumer).
type StorageClass struct {
	Name       string    `json:"name"`
	Topologies [][]KExpr `json:"topologies,omitempty"`
	Immediate  bool      `json:"immediate,omitempty"`
}

// PVC is a PersistentVolumeClaim: bound to the PV VolumeName, or unbound and to be provisioned through StorageClass.
type PVC struct {
	Name         string `json:"name"`
	Namespace    string `json:"namespace,omitempty"` // "" = "default"
	VolumeName   string `json:"volumeName,omitempty"`
	StorageClass string `json:"storageClass,omitempty"`
}

func (c *PVC) NS() string {
	if c.Namespace == "" {
		return "default"
	}
	return c.Namespace
}

// ListFault makes the Nth (1-based) List of objects of kind Kind ("Namespace", "Pod", "NodePool", ...) that is issued DURING
// the scheduling pass (World.Schedule; never while the world is built) fail once with a 503 ServiceUnavailable.
type ListFault struct {
	Kind string `json:"kind"`
	Nth  int    `json:"nth"`
}

// Service is a v1 Service of namespace Namespace ("" = "default") with an equality selector (nil = selects nothing).
type Service struct {
	Name      string            `json:"name"`
	Namespace string            `json:"namespace,omitempty"`
	Selector  map[string]string `json:"selector"`
}

// ReplicaSet is an apps/v1 ReplicaSet (only its selector matters); pods name it as their controller with Pod.Owner.
type ReplicaSet struct {
	Name      string   `json:"name"`
	Namespace string   `json:"namespace,omitempty"`
	Selector  LabelSel `json:"selector"`
}

type Scenario struct {
	ITs              []IT        `json:"its"`
	Pools            []NodePool  `json:"pools"`
	Nodes            []Node      `json:"nodes"`
	DaemonSets       []DaemonSet `json:"daemonsets"`
	Pods             []Pod       `json:"pods"`
	IgnorePrefs      bool        `json:"ignorePreferences"`
	BestEffortMinVal bool        `json:"bestEffortMinValues"`
	Parallelism      int         `json:"parallelism"` // scheduler.NumConcurrentReconciles
	ReservedCapacity bool        `json:"reservedCapacity"`
	MaxInstanceTypes int         `json:"maxInstanceTypes"` // 0 = leave scheduling.MaxInstanceTypes alone
	// PodEventsFirst delivers the event of every bound pod to the cluster state BEFORE its node is tracked (the update fails
	// with NotFound, as it does when informers race) and does not redeliver it before the pass
	PodEventsFirst bool `json:"podEventsFirst"`
	// optional vocabulary (absent in older corpus files): namespaces with labels, storage
	Namespaces     []Namespace    `json:"namespaces,omitempty"`
	StorageClasses []StorageClass `json:"storageClasses,omitempty"`
	PVs            []PV           `json:"pvs,omitempty"`
	PVCs           []PVC          `json:"pvcs,omitempty"`
	// API faults during the pass (see ListFault)
	ListFaults []ListFault `json:"listFaults,omitempty"`
	// DefaultSpreads are the cluster-level default topology spread constraints of --scheduler-config
	// (podTopologySpread.defaultConstraints, defaultingType List): they apply to every pod WITHOUT constraints of its own, with
	// the label selector the kube-scheduler deduces for that pod from the Services that select it and from its controller
	// (ReplicaSet).  Their own MatchLabels / MatchExprs / MatchLabelKeys must stay empty.
	DefaultSpreads []Spread     `json:"defaultSpreads,omitempty"`
	Services       []Service    `json:"services,omitempty"`
	ReplicaSets    []ReplicaSet `json:"replicaSets,omitempty"`
}
