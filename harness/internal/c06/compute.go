package c06

import (
	"encoding/json"
	"math/rand/v2"
	"sort"

	corev1 "k8s.io/api/core/v1"

	v1 "sigs.k8s.io/karpenter/pkg/apis/v1"
	"sigs.k8s.io/karpenter/pkg/controllers/disruption"
	"sigs.k8s.io/karpenter/pkg/test"

	"verifharness/internal/core"
	"verifharness/internal/world"
)

// c06.compute: computeConsolidation (the decision BEFORE validation, through the verif hook
// disruption.VerifComputeConsolidation) for an ARBITRARY subset of the eligible candidates, followed — for a
// replace of two or more nodes — by filterOutSameInstanceType (VerifFilterOutSameInstanceType), exactly as one
// step of the multi-node binary search does.

type SameTypeOut struct {
	Err bool     `json:"err"`
	ITs []string `json:"its"`
}

type ComputeOut struct {
	RunOut
	SameType *SameTypeOut `json:"sameType"`
}

func implCompute(raw json.RawMessage) (any, error) {
	var in RunIn
	if err := json.Unmarshal(raw, &in); err != nil {
		return nil, err
	}
	return withCap(&in, func() (any, error) { return implCompute1(in) })
}

func implCompute1(in RunIn) (any, error) {
	w, ctx, err := setup(&in)
	if err != nil {
		return nil, err
	}
	rec := test.NewEventRecorder()
	queue := disruption.NewQueue(w.Client, rec, w.Cluster, w.Clock, w.Prov)
	c := disruption.MakeConsolidation(w.Clock, w.Cluster, w.Client, w.Prov, cpOf(w), rec, queue)
	m := disruption.NewSingleNodeConsolidation(c)
	cs, err := candidates(ctx, w, m, queue)
	if err != nil {
		return nil, err
	}
	out := &ComputeOut{RunOut: RunOut{Eligible: []string{}, Passed: []string{}}}
	pick := map[string]bool{}
	for _, p := range in.Pick {
		pick[p] = true
	}
	var sel []*disruption.Candidate
	for _, cn := range cs {
		out.Eligible = append(out.Eligible, nodeNameOf(cn))
		if pick[nodeNameOf(cn)] {
			sel = append(sel, cn)
			out.Passed = append(out.Passed, nodeNameOf(cn))
		}
	}
	if len(sel) == 0 {
		return out, nil
	}
	cmd, err := disruption.VerifComputeConsolidation(ctx, c, sel...)
	if err != nil {
		out.Err = "error"
		return out, nil
	}
	if cmd.Decision() != disruption.NoOpDecision {
		co := &CmdOut{Decision: string(cmd.Decision()), Cands: []CandOut{}, Repl: []ClaimO{}, Results: world.Extract(cmd.Results), NewClaims: len(cmd.Results.NewNodeClaims)}
		for _, cn := range cmd.Candidates {
			l := cn.Labels()
			co.Cands = append(co.Cands, CandOut{Node: nodeNameOf(cn), IT: l[corev1.LabelInstanceTypeStable], Zone: l[corev1.LabelTopologyZone], CT: l[v1.CapacityTypeLabelKey], Price: int64(cn.Price * 1024)})
		}
		sort.Slice(co.Cands, func(i, j int) bool { return co.Cands[i].Node < co.Cands[j].Node })
		for _, rp := range cmd.Replacements {
			co.Repl = append(co.Repl, claimO(rp.NodeClaim))
		}
		out.Cmd = co
		if cmd.Decision() == disruption.ReplaceDecision && len(sel) >= 2 && len(cmd.Replacements) == 1 {
			st := &SameTypeOut{ITs: []string{}}
			r, err := disruption.VerifFilterOutSameInstanceType(cmd.Replacements[0], sel)
			if err != nil {
				st.Err = true
			} else {
				for _, it := range r.InstanceTypeOptions {
					st.ITs = append(st.ITs, it.Name)
				}
			}
			out.SameType = st
		}
	}
	in.Method = "single" // the re-simulation uses the same candidate filter
	sim, err := resim(&in, out.Passed, false)
	if err != nil {
		return nil, err
	}
	out.Sim = sim
	return out, nil
}

func genCompute(r *rand.Rand, t core.Tier) any {
	in := genRun(pick(r, "single", "multi", "multi"))(r, t).(RunIn)
	in.Method = "compute"
	in.Budget = 100
	// an arbitrary subset of the nodes (the eligible ones among them are evaluated together)
	in.Pick = []string{}
	for _, n := range in.Scn.Nodes {
		if r.Float64() < 0.6 {
			in.Pick = append(in.Pick, n.Name)
		}
	}
	if len(in.Pick) == 0 && len(in.Scn.Nodes) > 0 {
		in.Pick = []string{in.Scn.Nodes[r.IntN(len(in.Scn.Nodes))].Name}
	}
	return in
}
