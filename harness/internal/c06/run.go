package c06

import (
	"context"
	"encoding/json"
	"fmt"
	"sort"
	"strconv"
	"strings"
	"sync"
	"time"

	corev1 "k8s.io/api/core/v1"
	policyv1 "k8s.io/api/policy/v1"
	"k8s.io/apimachinery/pkg/util/intstr"
	metav1 "k8s.io/apimachinery/pkg/apis/meta/v1"
	"k8s.io/apimachinery/pkg/types"
	"sigs.k8s.io/controller-runtime/pkg/client"

	v1 "sigs.k8s.io/karpenter/pkg/apis/v1"
	"sigs.k8s.io/karpenter/pkg/apis/v1alpha1"
	"sigs.k8s.io/karpenter/pkg/cloudprovider"
	"sigs.k8s.io/karpenter/pkg/cloudprovider/overlay"
	"sigs.k8s.io/karpenter/pkg/controllers/nodeoverlay"
	"sigs.k8s.io/karpenter/pkg/controllers/provisioning"
	"sigs.k8s.io/karpenter/pkg/state/virtualpods"
	"sigs.k8s.io/controller-runtime/pkg/client/interceptor"
	"sigs.k8s.io/controller-runtime/pkg/reconcile"
	"sigs.k8s.io/karpenter/pkg/controllers/disruption"
	kevents "sigs.k8s.io/karpenter/pkg/events"
	provsched "sigs.k8s.io/karpenter/pkg/controllers/provisioning/scheduling"
	"sigs.k8s.io/karpenter/pkg/operator/options"
	"sigs.k8s.io/karpenter/pkg/test"

	rg "verifharness/internal/reqgen"
	"verifharness/internal/world"
)

// setup builds the world of a run and applies the consolidation-specific extensions.
func setup(in *RunIn) (*world.World, context.Context, error) {
	scn := in.Scn // Build keeps a pointer: give every world its own copy
	w, err := world.Build(&scn)
	if err != nil {
		return nil, nil, err
	}
	o := *options.FromContext(w.Ctx)
	o.FeatureGates.SpotToSpotConsolidation = in.SpotToSpot
	ctx := options.ToContext(w.Ctx, &o)
	// per-NodePool price tables: the provider answers GetInstanceTypes(nodePool) with that NodePool's own objects
	if len(in.Overlays) > 0 {
		if err := installOverlays(in, w, &o); err != nil {
			return nil, nil, err
		}
		ctx = options.ToContext(w.Ctx, &o)
	}
	for _, t := range in.Tables {
		if len(in.Overlays) > 0 {
			break // the tables are what the overlays are expected to yield
		}
		var its []*cloudprovider.InstanceType
		for _, it := range t.ITs {
			its = append(its, world.BuildIT(it))
		}
		w.CP.InstanceTypesForNodePool[t.Pool] = its
	}
	// NodePool disruption settings
	for _, pe := range in.Pools {
		np := &v1.NodePool{}
		if err := w.Client.Get(ctx, types.NamespacedName{Name: pe.Name}, np); err != nil {
			return nil, nil, fmt.Errorf("pool ext %s: %w", pe.Name, err)
		}
		np.Spec.Disruption.ConsolidationPolicy = v1.ConsolidationPolicy(pe.Policy)
		if pe.ConsolidateAfter == nil {
			np.Spec.Disruption.ConsolidateAfter = v1.MustParseNillableDuration("Never")
		} else {
			np.Spec.Disruption.ConsolidateAfter = v1.MustParseNillableDuration(fmt.Sprintf("%ds", *pe.ConsolidateAfter))
		}
		np.Spec.Disruption.Budgets = nil
		if err := w.Client.Update(ctx, np); err != nil {
			return nil, nil, err
		}
	}
	// NodeClaims: Consolidatable condition, last pod event
	ext := map[string]NodeExt{}
	for _, ne := range in.Nodes {
		ext[ne.Node] = ne
	}
	for _, n := range in.Scn.Nodes {
		if n.Pool == "" {
			continue
		}
		nc := &v1.NodeClaim{}
		if err := w.Client.Get(ctx, types.NamespacedName{Name: "nc-" + n.Name}, nc); err != nil {
			return nil, nil, err
		}
		ne := ext[n.Name]
		if !ne.NotConsolidatable {
			nc.StatusConditions().SetTrue(v1.ConditionTypeConsolidatable)
		}
		// the condition helpers stamp the wall clock; pin every transition to one hour before the world's clock
		conds := nc.Status.Conditions
		for i := range conds {
			conds[i].LastTransitionTime = metav1.NewTime(world.T0.Add(-time.Hour))
		}
		nc.Status.Conditions = conds
		if ne.LastPodEventAgo > 0 {
			nc.Status.LastPodEventTime = metav1.NewTime(world.T0.Add(-time.Duration(ne.LastPodEventAgo) * time.Second))
		}
		if err := w.Client.Status().Update(ctx, nc); err != nil {
			return nil, nil, err
		}
		w.Cluster.UpdateNodeClaim(nc)
	}
	// pods: eviction-cost inputs (the extension of a churn pod is applied when that pod is created)
	churnPods := churnPodExts(in)
	for _, pe := range in.Pods {
		if _, ok := churnPods[pe.Pod]; ok {
			continue
		}
		p := &corev1.Pod{}
		if err := w.Client.Get(ctx, types.NamespacedName{Namespace: "default", Name: pe.Pod}, p); err != nil {
			return nil, nil, fmt.Errorf("pod ext %s: %w", pe.Pod, err)
		}
		if pe.DelCost != nil {
			if p.Annotations == nil {
				p.Annotations = map[string]string{}
			}
			p.Annotations[corev1.PodDeletionCost] = strconv.FormatInt(*pe.DelCost, 10)
		}
		if pe.Priority != nil {
			pr := *pe.Priority
			p.Spec.Priority = &pr
		}
		if err := w.Client.Update(ctx, p); err != nil {
			return nil, nil, err
		}
		if pe.Phase != "" || pe.NotReady {
			// the fake client treats pod status as a subresource
			if pe.Phase != "" {
				p.Status.Phase = corev1.PodPhase(pe.Phase)
			}
			if pe.NotReady {
				p.Status.Conditions = append(p.Status.Conditions, corev1.PodCondition{Type: corev1.PodReady, Status: corev1.ConditionFalse})
			}
			if err := w.Client.Status().Update(ctx, p); err != nil {
				return nil, nil, err
			}
		}
		if p.Spec.NodeName != "" {
			if err := w.Cluster.UpdatePod(ctx, p); err != nil {
				return nil, nil, err
			}
		}
	}
	for i, pe := range in.PDBs {
		mu := intstr.FromInt32(1)
		if pe.Blocking {
			mu = intstr.FromInt32(0)
		}
		spec := policyv1.PodDisruptionBudgetSpec{MaxUnavailable: &mu, Selector: &metav1.LabelSelector{MatchLabels: map[string]string{"app": pe.App}}}
		if pe.Blocking && pe.Form == "0%" {
			v := intstr.FromString("0%")
			spec.MaxUnavailable = &v
		}
		if pe.Blocking && pe.Form == "100%" {
			v := intstr.FromString("100%")
			spec.MaxUnavailable, spec.MinAvailable = nil, &v
		}
		if pe.Policy != "" {
			pol := policyv1.UnhealthyPodEvictionPolicyType(pe.Policy)
			spec.UnhealthyPodEvictionPolicy = &pol
		}
		pdb := &policyv1.PodDisruptionBudget{
			ObjectMeta: metav1.ObjectMeta{Name: fmt.Sprintf("pdb-%d", i), Namespace: "default", UID: types.UID(fmt.Sprintf("pdb-%d", i))},
			Spec:       spec,
			Status:     policyv1.PodDisruptionBudgetStatus{DisruptionsAllowed: pe.Allowed},
		}
		if err := w.Client.Create(ctx, pdb); err != nil {
			return nil, nil, err
		}
		pdb.Status.DisruptionsAllowed = pe.Allowed
		if err := w.Client.Status().Update(ctx, pdb); err != nil {
			return nil, nil, err
		}
	}
	w.Cluster.SetSynced(true)
	return w, ctx, nil
}

type cpKey struct{}

// cpOf: the cloud provider the disruption machinery talks to: the world's fake provider, or — when the run has
// NodeOverlays — that provider behind the NodeOverlay decorator.
func cpOf(w *world.World) cloudprovider.CloudProvider {
	if cp, ok := w.Ctx.Value(cpKey{}).(cloudprovider.CloudProvider); ok {
		return cp
	}
	return w.CP
}

// installOverlays creates the NodeOverlay objects, lets the REAL nodeoverlay controller evaluate them once against the raw
// provider (as its 6-hourly / event-driven Reconcile does), wraps the provider with overlay.Decorate and gives the world a
// provisioner on the decorated provider — the wiring of the operator.
func installOverlays(in *RunIn, w *world.World, o *options.Options) error {
	o.FeatureGates.NodeOverlay = true
	ctx := options.ToContext(w.Ctx, o)
	for i, ov := range in.Overlays {
		spec := v1alpha1.NodeOverlaySpec{Requirements: []v1alpha1.NodeSelectorRequirement{}}
		if ov.Pool != "" {
			spec.Requirements = append(spec.Requirements, v1alpha1.NodeSelectorRequirement{Key: v1.NodePoolLabelKey, Operator: corev1.NodeSelectorOpIn, Values: []string{ov.Pool}})
		}
		if ov.CT != "" {
			spec.Requirements = append(spec.Requirements, v1alpha1.NodeSelectorRequirement{Key: v1.CapacityTypeLabelKey, Operator: corev1.NodeSelectorOpIn, Values: []string{ov.CT}})
		}
		if len(ov.ITs) > 0 {
			spec.Requirements = append(spec.Requirements, v1alpha1.NodeSelectorRequirement{Key: corev1.LabelInstanceTypeStable, Operator: corev1.NodeSelectorOpIn, Values: append([]string{}, ov.ITs...)})
		}
		if ov.Adjust != "" {
			a := ov.Adjust
			spec.PriceAdjustment = &a
		}
		if ov.Price != "" {
			a := ov.Price
			spec.Price = &a
		}
		if ov.Weight != 0 {
			wt := ov.Weight
			spec.Weight = &wt
		}
		obj := &v1alpha1.NodeOverlay{ObjectMeta: metav1.ObjectMeta{Name: ov.Name, UID: types.UID("ov-" + ov.Name), CreationTimestamp: metav1.NewTime(world.T0.Add(-time.Hour).Add(time.Duration(i) * time.Second))}, Spec: spec}
		if err := w.Client.Create(ctx, obj); err != nil {
			return fmt.Errorf("nodeoverlay %s: %w", ov.Name, err)
		}
	}
	// the world's client does not register NodeOverlay's status subresource: the controller's status writes go to the object
	ww, ok := w.Client.(client.WithWatch)
	if !ok {
		return fmt.Errorf("world client is no WithWatch client")
	}
	kube := interceptor.NewClient(ww, interceptor.Funcs{
		SubResourceUpdate: func(ctx context.Context, c client.Client, sub string, obj client.Object, opts ...client.SubResourceUpdateOption) error {
			if _, ok := obj.(*v1alpha1.NodeOverlay); ok {
				return c.Update(ctx, obj)
			}
			return c.SubResource(sub).Update(ctx, obj, opts...)
		},
		SubResourcePatch: func(ctx context.Context, c client.Client, sub string, obj client.Object, patch client.Patch, opts ...client.SubResourcePatchOption) error {
			if _, ok := obj.(*v1alpha1.NodeOverlay); ok {
				return c.Update(ctx, obj)
			}
			return c.SubResource(sub).Patch(ctx, obj, patch, opts...)
		},
	})
	store := nodeoverlay.NewInstanceTypeStore()
	if _, err := nodeoverlay.NewController(w.Clock, kube, w.CP, store, w.Cluster).Reconcile(ctx, reconcile.Request{}); err != nil {
		return fmt.Errorf("nodeoverlay reconcile: %w", err)
	}
	cp := overlay.Decorate(w.CP, w.Client, store)
	w.Prov = provisioning.NewProvisioner(w.Client, test.NewEventRecorder(), cp, w.Cluster, w.Clock, nil, virtualpods.NewVirtualPodCache(w.Client))
	w.Ctx = context.WithValue(w.Ctx, cpKey{}, cp)
	return nil
}

func claimO(nc *provsched.NodeClaim) ClaimO {
	c := ClaimO{Pool: nc.NodePoolName, Reqs: map[string]rg.Snap{}, Pods: []string{}, ITs: []string{}}
	for _, p := range nc.Pods {
		c.Pods = append(c.Pods, p.Name)
	}
	sort.Strings(c.Pods)
	for k, r := range nc.Requirements {
		c.Reqs[k] = rg.SnapOf(r)
	}
	for _, it := range nc.InstanceTypeOptions {
		c.ITs = append(c.ITs, it.Name)
	}
	return c
}

type methodT interface {
	ShouldDisrupt(context.Context, *disruption.Candidate) bool
	ComputeCommands(context.Context, map[string]int, ...*disruption.Candidate) ([]disruption.Command, error)
}

func newMethod(w *world.World, name string) (methodT, *disruption.Queue, error) {
	m, q, _, err := newMethodRec(w, name)
	return m, q, err
}

// newMethodRec also hands out the event recorder the method publishes to (validation reports a rejected command there).
func newMethodRec(w *world.World, name string) (methodT, *disruption.Queue, *test.EventRecorder, error) {
	rec := test.NewEventRecorder()
	queue := disruption.NewQueue(w.Client, rec, w.Cluster, w.Clock, w.Prov)
	c := disruption.MakeConsolidation(w.Clock, w.Cluster, w.Client, w.Prov, cpOf(w), rec, queue)
	switch name {
	case "single":
		return disruption.NewSingleNodeConsolidation(c), queue, rec, nil
	case "multi":
		return disruption.NewMultiNodeConsolidation(c), queue, rec, nil
	case "empty":
		return disruption.NewEmptiness(c), queue, rec, nil
	}
	return nil, nil, nil, fmt.Errorf("unknown method %q", name)
}

// rejectedCommand reads the command validation rejected off the ConsolidationRejected events: its candidates (node
// names, in the command's order) and the rejection class (budget | scheduling | churn | unknown).
func rejectedCommand(rec *test.EventRecorder) ([]string, string) {
	var names []string
	class := ""
	for _, e := range rec.Events() {
		if e.Reason != kevents.ConsolidationRejected {
			continue
		}
		nc, ok := e.InvolvedObject.(*v1.NodeClaim)
		if !ok {
			continue
		}
		names = append(names, strings.TrimPrefix(nc.Name, "nc-"))
		if len(e.DedupeValues) >= 3 {
			class = e.DedupeValues[2]
		}
	}
	return names, class
}

func cmdOut(cmd disruption.Command) *CmdOut {
	co := &CmdOut{Decision: string(cmd.Decision()), Cands: []CandOut{}, Repl: []ClaimO{}, Results: world.Extract(cmd.Results), NewClaims: len(cmd.Results.NewNodeClaims)}
	for _, c := range cmd.Candidates {
		l := c.Labels()
		co.Cands = append(co.Cands, CandOut{Node: nodeNameOf(c), IT: l[corev1.LabelInstanceTypeStable], Zone: l[corev1.LabelTopologyZone], CT: l[v1.CapacityTypeLabelKey], Price: int64(c.Price * 1024)})
	}
	sort.Slice(co.Cands, func(i, j int) bool { return co.Cands[i].Node < co.Cands[j].Node })
	for _, rp := range cmd.Replacements {
		co.Repl = append(co.Repl, claimO(rp.NodeClaim))
	}
	return co
}

// precompute recomputes, on a fresh world built from the same input (before any churn), the command the method
// handed to its validator for the given candidates (in that order): computeConsolidation and, for the multi-node
// method, filterOutSameInstanceType — exactly the steps between candidate selection and Validate.  nil = no command.
func precompute(in *RunIn, names []string) (*CmdOut, error) {
	w, ctx, err := setup(in)
	if err != nil {
		return nil, err
	}
	rec := test.NewEventRecorder()
	queue := disruption.NewQueue(w.Client, rec, w.Cluster, w.Clock, w.Prov)
	c := disruption.MakeConsolidation(w.Clock, w.Cluster, w.Client, w.Prov, cpOf(w), rec, queue)
	var m methodT
	switch in.Method {
	case "single":
		m = disruption.NewSingleNodeConsolidation(c)
	case "multi":
		m = disruption.NewMultiNodeConsolidation(c)
	default:
		return nil, fmt.Errorf("precompute: method %q", in.Method)
	}
	cs, err := candidates(ctx, w, m, queue)
	if err != nil {
		return nil, err
	}
	by := map[string]*disruption.Candidate{}
	for _, cn := range cs {
		by[nodeNameOf(cn)] = cn
	}
	var sel []*disruption.Candidate
	for _, n := range names {
		if by[n] == nil {
			return nil, nil
		}
		sel = append(sel, by[n])
	}
	if len(sel) == 0 {
		return nil, nil
	}
	cmd, err := disruption.VerifComputeConsolidation(ctx, c, sel...)
	if err != nil || cmd.Decision() == disruption.NoOpDecision {
		return nil, nil
	}
	if in.Method == "multi" && cmd.Decision() == disruption.ReplaceDecision {
		r, err := disruption.VerifFilterOutSameInstanceType(cmd.Replacements[0], sel)
		if err != nil || len(r.InstanceTypeOptions) == 0 {
			return nil, nil
		}
		cmd.Replacements[0] = r
	}
	return cmdOut(cmd), nil
}

func candidates(ctx context.Context, w *world.World, m methodT, q *disruption.Queue) ([]*disruption.Candidate, error) {
	cs, err := disruption.GetCandidates(ctx, w.Cluster, w.Client, test.NewEventRecorder(), w.Clock, cpOf(w), m.ShouldDisrupt, disruption.GracefulDisruptionClass, q)
	if err != nil {
		return nil, err
	}
	sort.Slice(cs, func(i, j int) bool { return cs[i].Name() < cs[j].Name() })
	return cs, nil
}

func nodeNameOf(c *disruption.Candidate) string { return strings.TrimPrefix(c.Name(), "nc-") }

// churnPodExts: the PodExt entries of the input that belong to pods created by the churn.
func churnPodExts(in *RunIn) map[string]PodExt {
	names := map[string]bool{}
	for _, e := range in.Churn.events() {
		if e.Pod != nil {
			names[e.Pod.Name] = true
		}
	}
	out := map[string]PodExt{}
	for _, pe := range in.Pods {
		if names[pe.Pod] {
			out[pe.Pod] = pe
		}
	}
	return out
}

// applyChurn delivers the input's change (and the changes that come with it, in order).
func applyChurn(ctx context.Context, w *world.World, in *RunIn) error {
	exts := churnPodExts(in)
	for i, e := range in.Churn.events() {
		if err := applyChurn1(ctx, w, in, &e, exts, 9000+i); err != nil {
			return err
		}
	}
	return nil
}

func churnPod(w *world.World, ch *Churn, node string, exts map[string]PodExt, seq int) *corev1.Pod {
	p := w.BuildPod(*ch.Pod, node, seq)
	if pe, ok := exts[ch.Pod.Name]; ok {
		if pe.DelCost != nil {
			if p.Annotations == nil {
				p.Annotations = map[string]string{}
			}
			p.Annotations[corev1.PodDeletionCost] = strconv.FormatInt(*pe.DelCost, 10)
		}
		if pe.Priority != nil {
			pr := *pe.Priority
			p.Spec.Priority = &pr
		}
		if pe.Phase != "" {
			p.Status.Phase = corev1.PodPhase(pe.Phase)
		}
		if pe.NotReady {
			p.Status.Conditions = append(p.Status.Conditions, corev1.PodCondition{Type: corev1.PodReady, Status: corev1.ConditionFalse})
		}
	}
	return p
}

func applyChurn1(ctx context.Context, w *world.World, in *RunIn, ch *Churn, exts map[string]PodExt, seq int) error {
	switch ch.Kind {
	case "pod":
		return w.Client.Create(ctx, churnPod(w, ch, "", exts, seq))
	case "bound":
		p := churnPod(w, ch, ch.Node, exts, seq)
		if err := w.Client.Create(ctx, p); err != nil {
			return err
		}
		return w.Cluster.UpdatePod(ctx, p)
	case "unavail":
		// a provider hands out FRESH InstanceType objects when availability changes (the allocatable/offering groups
		// of an object are computed once): replace the object rather than mutating it
		for _, it := range w.Scn.ITs {
			if it.Name != ch.IT {
				continue
			}
			c := it
			c.Offerings = append([]world.Offering{}, it.Offerings...)
			for i := range c.Offerings {
				c.Offerings[i].Available = false
			}
			b := world.BuildIT(c)
			for i := range w.CP.InstanceTypes {
				if w.CP.InstanceTypes[i].Name == ch.IT {
					w.CP.InstanceTypes[i] = b
				}
			}
			w.ITs[ch.IT] = b
		}
		// ... in every NodePool's table
		for _, t := range in.Tables {
			for _, it := range t.ITs {
				if it.Name != ch.IT {
					continue
				}
				c := it
				c.Offerings = append([]world.Offering{}, it.Offerings...)
				for i := range c.Offerings {
					c.Offerings[i].Available = false
				}
				b := world.BuildIT(c)
				l := w.CP.InstanceTypesForNodePool[t.Pool]
				for i := range l {
					if l[i].Name == ch.IT {
						l[i] = b
					}
				}
			}
		}
		return nil
	case "delnode":
		w.Cluster.MarkForDeletion("fake://" + ch.Node)
		return nil
	case "nominate":
		w.Cluster.NominateNodeForPod(ctx, "fake://"+ch.Node)
		return nil
	}
	return fmt.Errorf("bad churn %q", ch.Kind)
}

// applyChurnScn applies the same change to the scenario (what the specification is evaluated on).
func budgetMap(in *RunIn) map[string]int {
	m := map[string]int{}
	for _, p := range in.Scn.Pools {
		m[p.Name] = in.Budget
	}
	return m
}

// runOnce builds the world of the input and makes ONE real ComputeCommands call of the method, stepping the fake
// clock through the validation delay whenever the method waits; with deliverChurn the input's churn is applied when
// the method first waits (i.e. when a command has reached validation).  waited = a command reached validation.
func runOnce(in *RunIn, deliverChurn bool) (out *RunOut, cmds []disruption.Command, rec *test.EventRecorder, waited bool, err error) {
	w, ctx, err := setup(in)
	if err != nil {
		return nil, nil, nil, false, err
	}
	m, q, rec, err := newMethodRec(w, in.Method)
	if err != nil {
		return nil, nil, nil, false, err
	}
	cs, err := candidates(ctx, w, m, q)
	if err != nil {
		return nil, nil, nil, false, err
	}
	// Balanced pools: hand the method the per-pool totals, as the controller does before ComputeCommands
	for _, pe := range in.Pools {
		if pe.Policy == string(v1.ConsolidationPolicyBalanced) {
			_, totals, err := disruption.GetCandidatesWithTotals(ctx, w.Cluster, w.Client, test.NewEventRecorder(), w.Clock, cpOf(w), m.ShouldDisrupt, disruption.GracefulDisruptionClass, q, nil)
			if err != nil {
				return nil, nil, nil, false, err
			}
			if setter, ok := m.(disruption.NodePoolTotalsSetter); ok {
				setter.SetNodePoolTotals(totals)
			}
			break
		}
	}
	out = &RunOut{Eligible: []string{}, Passed: []string{}}
	var passed []*disruption.Candidate
	pick := map[string]bool{}
	for _, p := range in.Pick {
		pick[p] = true
	}
	for _, c := range cs {
		out.Eligible = append(out.Eligible, nodeNameOf(c))
		if len(in.Pick) == 0 || pick[nodeNameOf(c)] {
			passed = append(passed, c)
			out.Passed = append(out.Passed, nodeNameOf(c))
		}
	}
	// ComputeCommands waits commandValidationDelay on the (fake) clock before it validates: step the clock
	// whenever it waits, delivering the churn first
	type res struct {
		cmds []disruption.Command
		err  error
	}
	done := make(chan res, 1)
	go func() {
		defer func() {
			if r := recover(); r != nil {
				done <- res{err: fmt.Errorf("panic: %v", r)}
			}
		}()
		cmds, err := m.ComputeCommands(ctx, budgetMap(in), passed...)
		done <- res{cmds, err}
	}()
	var r res
	deadline := time.After(120 * time.Second)
wait:
	for {
		select {
		case r = <-done:
			break wait
		case <-deadline:
			return nil, nil, nil, false, fmt.Errorf("ComputeCommands did not finish")
		default:
			if w.Clock.HasWaiters() {
				waited = true
				if deliverChurn && in.Churn != nil && !out.Churned {
					out.Churned = true
					if err := applyChurn(ctx, w, in); err != nil {
						return nil, nil, nil, false, err
					}
				}
				w.Clock.Step(16 * time.Second)
			}
			time.Sleep(50 * time.Microsecond)
		}
	}
	if r.err != nil {
		if strings.HasPrefix(r.err.Error(), "panic:") {
			panic(r.err.Error())
		}
		out.Err = "error"
		return out, nil, rec, waited, nil
	}
	if len(r.cmds) > 1 {
		return nil, nil, nil, false, fmt.Errorf("%d commands from one ComputeCommands call", len(r.cmds))
	}
	return out, r.cmds, rec, waited, nil
}

// capMu guards scheduling.MaxInstanceTypes, the package variable that holds the launch cap: a run that sets its own cap
// holds the write lock for its whole duration (every world, simulation and twin run of the case sees the same cap), all
// other runs hold the read lock.
var capMu sync.RWMutex

// withCap runs f under the input's launch cap.
func withCap(in *RunIn, f func() (any, error)) (any, error) {
	if in.MaxITs <= 0 {
		capMu.RLock()
		defer capMu.RUnlock()
		return f()
	}
	capMu.Lock()
	defer capMu.Unlock()
	old := provsched.MaxInstanceTypes
	provsched.MaxInstanceTypes = in.MaxITs
	defer func() { provsched.MaxInstanceTypes = old }()
	return f()
}

func implRun(raw json.RawMessage) (any, error) {
	var in RunIn
	if err := json.Unmarshal(raw, &in); err != nil {
		return nil, err
	}
	return withCap(&in, func() (any, error) { return implRun1(&in) })
}

func implRun1(inp *RunIn) (any, error) {
	in := *inp
	out, cmds, rec, _, err := runOnce(&in, true)
	if err != nil {
		return nil, err
	}
	if out.Err != "" {
		return out, nil
	}
	if len(cmds) == 1 {
		cmd := cmds[0]
		co := cmdOut(cmd)
		var names []string
		for _, c := range cmd.Candidates {
			names = append(names, nodeNameOf(c))
		}
		out.Cmd = co
		if in.Method != "empty" {
			sim, err := resim(&in, names, out.Churned)
			if err != nil {
				return nil, err
			}
			out.Sim = sim
		}
		if out.Churned {
			out.Verdict = "released"
		}
	} else if out.Churned && in.Method != "empty" {
		// a command reached validation (the method waited) and was not released: validation rejected it.  Recover
		// which command it was, and re-simulate its candidates on the changed cluster — the inputs of the model's
		// validateCommand.
		//   single: the ConsolidationRejected events name the command's candidates and the rejection class; the command is
		//           recomputed by computeConsolidation on an identical fresh world;
		//   multi : the method publishes no such events (it overwrites the command with Validate's empty result before
		//           emitting them), so the command is the one the same ComputeCommands call releases on an identical fresh
		//           world WITHOUT the change (candidate order and binary search are deterministic); the class is unknown.
		names, class := rejectedCommand(rec)
		if len(names) > 0 {
			out.Verdict = "rejected:" + class
			pre, err := precompute(&in, names)
			if err != nil {
				return nil, err
			}
			out.Pre = pre
		} else {
			out.Verdict = "rejected:unobserved"
			twin, tcmds, _, _, err := runOnce(&in, false)
			if err != nil {
				return nil, err
			}
			if twin.Err == "" && len(tcmds) == 1 {
				out.Pre = cmdOut(tcmds[0])
				for _, c := range tcmds[0].Candidates {
					names = append(names, nodeNameOf(c))
				}
			}
		}
		if len(names) > 0 {
			sim, err := resim(&in, names, true)
			if err != nil {
				return nil, err
			}
			out.Sim = sim
		}
	} else if in.Method == "single" && len(out.Passed) == 1 && !out.Churned {
		// exactly one candidate was evaluated and no command came out: the model must agree that none is due
		sim, err := resim(&in, out.Passed, false)
		if err != nil {
			return nil, err
		}
		out.Sim = sim
	}
	return out, nil
}

// resim runs the exported disruption.SimulateScheduling for the given candidate nodes on a fresh world built
// from the same input (after the churn, if any): the scheduling result computeConsolidation starts from.
func resim(in *RunIn, nodes []string, churned bool) (*SimOut, error) {
	w, ctx, err := setup(in)
	if err != nil {
		return nil, err
	}
	empty := func(e string) *SimOut {
		return &SimOut{Err: e, Claims: []ClaimO{}, Outcome: world.Outcome{Existing: []world.ExistingOut{}, Claims: []world.ClaimOut{}, Errors: map[string]string{}}}
	}
	if churned && in.Churn != nil {
		if err := applyChurn(ctx, w, in); err != nil {
			return nil, err
		}
		// the validation this re-simulation stands for runs after the wait
		w.Clock.Step(16 * time.Second)
	}
	m, q, err := newMethod(w, in.Method)
	if err != nil {
		return nil, err
	}
	cs, err := candidates(ctx, w, m, q)
	if err != nil {
		return nil, err
	}
	want := map[string]bool{}
	for _, n := range nodes {
		want[n] = true
	}
	var sel []*disruption.Candidate
	for _, c := range cs {
		if want[nodeNameOf(c)] {
			sel = append(sel, c)
		}
	}
	if len(sel) != len(nodes) {
		if churned {
			return empty("candidates-changed"), nil
		}
		return nil, fmt.Errorf("resim: %d of %d candidates found", len(sel), len(nodes))
	}
	res, err := disruption.SimulateScheduling(ctx, w.Client, w.Cluster, w.Prov, w.Clock, test.NewEventRecorder(), []provsched.Options{provsched.IsConsolidationSimulation}, sel...)
	if err != nil {
		return empty("error"), nil
	}
	so := &SimOut{AllScheduled: res.AllNonPendingPodsScheduled(), Claims: []ClaimO{}, Outcome: world.Extract(res)}
	for _, nc := range res.NewNodeClaims {
		so.Claims = append(so.Claims, claimO(nc))
	}
	return so, nil
}

var _ = client.ObjectKey{}
