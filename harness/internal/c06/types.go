// Package c06: consolidation keeps pods schedulable and strictly lowers cost — the real
// SingleNodeConsolidation / MultiNodeConsolidation / Emptiness ComputeCommands on world-built clusters with
// generated price tables, judged by the Lean end-state specification, plus leaf correspondences for
// Offerings.WorstLaunchPrice, NodeClaim.RemoveInstanceTypeOptionsByPriceAndMinValues and Candidate.IsEmpty.
package c06

import (
	rg "verifharness/internal/reqgen"
	"verifharness/internal/world"
)

// PoolExt carries the disruption settings of one NodePool (world.NodePool has none).
type PoolExt struct {
	Name string `json:"name"`
	// WhenEmpty | WhenEmptyOrUnderutilized
	Policy string `json:"policy"`
	// consolidateAfter in seconds; nil = Never (consolidation disabled)
	ConsolidateAfter *int64 `json:"consolidateAfter"`
}

// PodExt carries what decides a pod's eviction cost.
type PodExt struct {
	Pod string `json:"pod"`
	// controller.kubernetes.io/pod-deletion-cost annotation (an integer), nil = no annotation
	DelCost *int64 `json:"delCost"`
	// spec.priority, nil = unset
	Priority *int32 `json:"priority"`
	// Succeeded | Failed: a terminal pod (not reschedulable); Pending: a pod that is BOUND to its node but still starting
	// (image pull, init containers: status.phase Pending, PodScheduled=True) — active and reschedulable; "" = running
	Phase string `json:"phase"`
	// NotReady: the pod reports the condition Ready=False (running but unhealthy)
	NotReady bool `json:"notReady,omitempty"`
}

// NodeExt carries per-node knobs of the consolidation input.
type NodeExt struct {
	Node string `json:"node"`
	// the NodeClaim lacks the Consolidatable condition
	NotConsolidatable bool `json:"notConsolidatable"`
	// seconds before T0 of the last pod event (0 = unset: the Initialized transition time, taken as one hour ago)
	LastPodEventAgo int64 `json:"lastPodEventAgo"`
}

// Churn is a change delivered while the method sits in its 15 s command-validation delay.
//
//	pod       — a new pending pod appears (Pod)
//	bound     — a new running pod is bound to node Node (Pod)
//	unavail   — every offering of instance type IT becomes unavailable
//	delnode   — node Node is marked for deletion
//	nominate  — node Node is nominated for a pending pod (as the provisioner does at the end of a scheduling pass)
//
// Also: further changes delivered at the same moment, in order (one level deep).  A PodExt entry of the input whose
// pod is a churn pod (eviction-cost inputs, terminal phase) is applied to that pod when it is created.
type Churn struct {
	Kind string     `json:"kind"`
	Node string     `json:"node"`
	IT   string     `json:"it"`
	Pod  *world.Pod `json:"pod"`
	Also []Churn    `json:"also,omitempty"`
}

// events lists the change and the changes delivered with it, in order.
func (c *Churn) events() []Churn {
	if c == nil {
		return nil
	}
	first := *c
	first.Also = nil
	return append([]Churn{first}, c.Also...)
}

// PDBExt is a PodDisruptionBudget over the pods labelled app=<App> (namespace default).
type PDBExt struct {
	App string `json:"app"`
	// status.disruptionsAllowed
	Allowed int32 `json:"allowed"`
	// spec.maxUnavailable = 0 (a fully blocking budget)
	Blocking bool `json:"blocking"`
	// Form: how a blocking budget is written: "" = maxUnavailable 0, "0%" = maxUnavailable "0%", "100%" = minAvailable "100%"
	Form string `json:"form,omitempty"`
	// Policy: spec.unhealthyPodEvictionPolicy, "" (unset) | IfHealthyBudget | AlwaysAllow
	Policy string `json:"policy,omitempty"`
}

// PoolTable is the instance-type catalog as ONE NodePool sees it.  Price tables are per NodePool: NodeOverlays and cloud
// providers can select on karpenter.sh/nodepool (committed-use discounts, per-team surcharges), so
// CloudProvider.GetInstanceTypes(nodePool) may price the same instance type / offering differently for different
// NodePools, although they reference the same NodeClass.  ITs lists the SAME instance types as the scenario's catalog
// (names, resources, offerings in the same order) with this NodePool's prices; a NodePool without a table is served the
// scenario's catalog.
type PoolTable struct {
	Pool string     `json:"pool"`
	ITs  []world.IT `json:"its"`
}

// OverlayExt is one NodeOverlay (karpenter.sh/v1alpha1, feature gate NodeOverlay): it selects offerings by NodePool /
// capacity type / instance type and sets an absolute price or a relative priceAdjustment ("-25%", "+0.125").  The real
// nodeoverlay controller evaluates the overlays once (Reconcile) and the provider is wrapped by overlay.Decorate, as in the
// operator; RunIn.Tables then states what each NodePool is EXPECTED to be charged: the catalog with the overlay applied ONCE.
type OverlayExt struct {
	Name   string   `json:"name"`
	Weight int32    `json:"weight"`
	Pool   string   `json:"pool"` // karpenter.sh/nodepool In [Pool]; "" = every NodePool
	CT     string   `json:"ct"`   // karpenter.sh/capacity-type In [CT]; "" = any
	ITs    []string `json:"its"`  // node.kubernetes.io/instance-type In ITs; empty = any
	Adjust string   `json:"adjust"`
	Price  string   `json:"price"`
}

type RunIn struct {
	// Overlays: NodeOverlays evaluated by the real controller and served through overlay.Decorate (then Tables is the
	// expectation only, not installed into the provider)
	Overlays []OverlayExt   `json:"overlays,omitempty"`
	Scn      world.Scenario `json:"scn"`
	// Tables: per-NodePool price tables (served through the provider's per-NodePool GetInstanceTypes)
	Tables []PoolTable `json:"tables,omitempty"`
	// MaxITs: the launch cap scheduling.MaxInstanceTypes for this run (0 = the code's default, 600).  The code keeps the
	// cap in a package variable "to help in testing": a small cap makes "more compatible instance types than can be sent to
	// the launch API" reachable with catalogs of a dozen types (Results.TruncateInstanceTypes, minValues after truncation).
	MaxITs     int       `json:"maxITs,omitempty"`
	Method     string    `json:"method"` // single | multi | empty
	SpotToSpot bool      `json:"spotToSpot"`
	Pools      []PoolExt `json:"poolExt"`
	Pods       []PodExt  `json:"podExt"`
	Nodes      []NodeExt `json:"nodeExt"`
	PDBs       []PDBExt  `json:"pdbs"`
	// Pick selects the candidates handed to ComputeCommands among the eligible ones (sorted by node name);
	// empty = all of them
	Pick []string `json:"pick"`
	// Budget is the allowed-disruptions entry of every NodePool (the budget arithmetic itself is C05's)
	Budget int    `json:"budget"`
	Churn  *Churn `json:"churn"`
	// Expect (corpus witnesses): the verdict validation must reach, "released" | "rejected:scheduling" | …; "" = any
	Expect string `json:"expect,omitempty"`
	// ExpectDecision (corpus witnesses): the decision of the command that must come out, "none" | "delete" | "replace"; "" = any
	ExpectDecision string `json:"expectDecision,omitempty"`
	// ExpectReleased (corpus witnesses of c06.emptyvalidate): the nodes the released Emptiness command must remove
	// (empty list = no command); nil = any
	ExpectReleased *[]string `json:"expectReleased,omitempty"`
}

type CandOut struct {
	Node  string `json:"node"`
	IT    string `json:"it"`
	Zone  string `json:"zone"`
	CT    string `json:"ct"`
	Price int64  `json:"price"` // Candidate.Price × 1024
	// names of Candidate.reschedulablePods are not exported; the pods bound to the node are part of the scenario
}

// ClaimO is one in-memory NodeClaim with its instance-type options IN ORDER.
type ClaimO struct {
	Pool string             `json:"pool"`
	Pods []string           `json:"pods"`
	Reqs map[string]rg.Snap `json:"reqs"`
	ITs  []string           `json:"its"`
}

type CmdOut struct {
	Decision string        `json:"decision"`
	Cands    []CandOut     `json:"cands"`
	Repl     []ClaimO      `json:"repl"`
	Results  world.Outcome `json:"results"`
	// number of NewNodeClaims in the command's Results
	NewClaims int `json:"newClaims"`
}

// SimOut is a scheduling simulation made by the harness through the exported disruption.SimulateScheduling
// for the command's candidate set on a fresh, identical world: what computeConsolidation started from.
type SimOut struct {
	Err          string        `json:"err"`
	AllScheduled bool          `json:"allScheduled"`
	Claims       []ClaimO      `json:"claims"`
	Outcome      world.Outcome `json:"outcome"`
}

type RunOut struct {
	Eligible []string `json:"eligible"`
	Passed   []string `json:"passed"`
	Cmd      *CmdOut  `json:"cmd"`
	Err      string   `json:"err"`
	Sim      *SimOut  `json:"sim"`
	// Sims: for `single` with no command, the simulation of every passed candidate (so that the model can
	// say that none of them yields a command)
	Churned bool `json:"churned"`
	// Verdict (only when Churned, i.e. a command reached validation and the change was delivered during the wait):
	// "released" or "rejected:<class>" with the class validation reported (scheduling | churn | budget | unknown)
	Verdict string `json:"verdict,omitempty"`
	// Pre: the command validation REJECTED, recomputed by computeConsolidation (+ filterOutSameInstanceType for the
	// multi-node method) for the rejected command's candidates on an identical fresh world; nil when it was released
	// (then Cmd is that command) or could not be recomputed
	Pre *CmdOut `json:"pre,omitempty"`
	// EmptyVal (c06.emptyvalidate, only when Churned): what the Emptiness validator had to decide on
	EmptyVal *EmptyValOut `json:"emptyVal,omitempty"`
}

// EmptyValOut: the inputs of EmptinessValidator.Validate for a command that reached validation, observed on identical
// fresh worlds.
type EmptyValOut struct {
	// Pre: the candidates of the command handed to the validator = the candidates of the command the same
	// ComputeCommands call releases on an identical world WITHOUT the change (sorted); PreKnown = false when that twin
	// run released nothing
	Pre      []string `json:"pre"`
	PreKnown bool     `json:"preKnown"`
	// Current: the nodes GetCandidates (filter Emptiness.ShouldDisrupt) returns on an identical world AFTER the change
	// and the validation delay (sorted)
	Current []string `json:"current"`
	// Budgets: BuildDisruptionBudgetMapping(reason Empty) on that world
	Budgets map[string]int64 `json:"budgets"`
	// Nominated: the nodes of Pre that Cluster.IsNodeNominated reports on that world
	Nominated []string `json:"nominated"`
}
