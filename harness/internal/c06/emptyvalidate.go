package c06

// c06.emptyvalidate: the real Emptiness.ComputeCommands while the cluster changes during the 15 s validation delay.
//
// Emptiness builds its command from the candidates that are empty NOW, waits commandValidationDelay, and lets the
// EmptinessValidator narrow the command to the candidates that are STILL empty candidates; what it hands to the
// orchestration queue must be that narrowed command.  The circumstance this op generates: several empty candidates, and
// during the wait pods bind to SOME of them (ordinary pods, pods whose eviction cost is exactly 0 / just above 0,
// DaemonSet pods, pods that already ran to completion), nodes start deleting or get nominated, pending pods appear,
// instance types go out of stock.  The released command is judged by the independent specification against the cluster
// as it is at release (no reschedulable pod with a positive eviction cost on a node deleted as empty), and compared
// with the model's emptinessValidate on what the harness observes on identical fresh worlds.

import (
	"encoding/json"
	"fmt"
	"math/rand/v2"
	"sort"
	"time"

	v1 "sigs.k8s.io/karpenter/pkg/apis/v1"
	"sigs.k8s.io/karpenter/pkg/controllers/disruption"
	"sigs.k8s.io/karpenter/pkg/test"

	"verifharness/internal/core"
	"verifharness/internal/world"
)

func implEmptyValidate(raw json.RawMessage) (any, error) {
	var in RunIn
	if err := json.Unmarshal(raw, &in); err != nil {
		return nil, err
	}
	if in.Method != "empty" {
		return nil, fmt.Errorf("c06.emptyvalidate: method %q", in.Method)
	}
	out, cmds, _, _, err := runOnce(&in, true)
	if err != nil {
		return nil, err
	}
	if out.Err != "" {
		return out, nil
	}
	if len(cmds) == 1 {
		out.Cmd = cmdOut(cmds[0])
	}
	if !out.Churned {
		return out, nil
	}
	// a command reached validation and the change was delivered during the wait
	if out.Cmd != nil {
		out.Verdict = "released"
	} else {
		out.Verdict = "rejected"
	}
	ev, err := emptyValidation(&in)
	if err != nil {
		return nil, err
	}
	out.EmptyVal = ev
	return out, nil
}

// emptyValidation observes, on identical fresh worlds, what EmptinessValidator.Validate had to decide on.
func emptyValidation(in *RunIn) (*EmptyValOut, error) {
	ev := &EmptyValOut{Pre: []string{}, Current: []string{}, Budgets: map[string]int64{}, Nominated: []string{}}
	// the command handed to the validator: without the change the validator returns it as it is
	twin, tcmds, _, _, err := runOnce(in, false)
	if err != nil {
		return nil, err
	}
	if twin.Err == "" && len(tcmds) == 1 {
		ev.PreKnown = true
		for _, c := range tcmds[0].Candidates {
			ev.Pre = append(ev.Pre, nodeNameOf(c))
		}
		sort.Strings(ev.Pre)
	}
	// the cluster the validator looks at
	w, ctx, err := setup(in)
	if err != nil {
		return nil, err
	}
	if err := applyChurn(ctx, w, in); err != nil {
		return nil, err
	}
	w.Clock.Step(16 * time.Second)
	m, q, err := newMethod(w, "empty")
	if err != nil {
		return nil, err
	}
	cs, err := candidates(ctx, w, m, q)
	if err != nil {
		return nil, err
	}
	for _, c := range cs {
		ev.Current = append(ev.Current, nodeNameOf(c))
	}
	budgets, err := disruption.BuildDisruptionBudgetMapping(ctx, w.Cluster, w.Clock, w.Client, cpOf(w), test.NewEventRecorder(), v1.DisruptionReasonEmpty)
	if err != nil {
		return nil, err
	}
	for k, v := range budgets {
		ev.Budgets[k] = int64(v)
	}
	for _, n := range ev.Pre {
		if w.Cluster.IsNodeNominated("fake://" + n) {
			ev.Nominated = append(ev.Nominated, n)
		}
	}
	return ev, nil
}

// churn pod variants: what decides whether the pod keeps its node from being empty
var churnPodKinds = []string{"ordinary", "ordinary", "ordinary", "ordinary", "ordinary", "high-priority", "cost-zero", "cost-zero-by-priority", "cost-just-above-zero",
	"cost-clamped-negative", "daemon", "terminal"}

func churnPodVariant(r *rand.Rand, name string) (world.Pod, *PodExt, string) {
	p := world.Pod{Name: name, Labels: map[string]string{"app": "z"}, CPU: int64(100 * (1 + r.IntN(3))), Mem: 64}
	kind := pick(r, churnPodKinds...)
	switch kind {
	case "high-priority":
		return p, &PodExt{Pod: name, Priority: i32(1000)}, kind
	case "cost-zero":
		return p, &PodExt{Pod: name, DelCost: i64(-134217728)}, kind
	case "cost-zero-by-priority":
		return p, &PodExt{Pod: name, Priority: i32(-33554432)}, kind
	case "cost-just-above-zero":
		return p, &PodExt{Pod: name, DelCost: i64(-134217727)}, kind
	case "cost-clamped-negative":
		return p, &PodExt{Pod: name, DelCost: i64(-2147483647)}, kind
	case "daemon":
		p.Daemon = true
		return p, nil, kind
	case "terminal":
		return p, &PodExt{Pod: name, Phase: pick(r, "Succeeded", "Failed")}, kind
	}
	return p, nil, kind
}

// genEmptyValidate: clusters with several EMPTY nodes (no pods; or only pods that do not count: eviction cost <= 0,
// DaemonSet pods, completed pods), some busy nodes and decoys (uninitialized / deleting / unmanaged), pools with
// WhenEmpty / WhenEmptyOrUnderutilized / Balanced policies (and, rarely, consolidation disabled); and a change of
// 1..3 events delivered while Emptiness waits to validate:
//
//	bound     65%  a pod binds to a node — 70% of the time to one of the empty nodes —, its kind drawn from churnPodKinds
//	delnode   12%  a node starts deleting
//	nominate  10%  a node is nominated for a pending pod
//	pod        8%  a pending pod appears
//	unavail    5%  an instance type goes out of stock
//
// 8% of the inputs carry no change at all (control: the command is released as computed).
func genEmptyValidate(r *rand.Rand, t core.Tier) any {
	its := genCatalog(r, false, false)
	pools, pexts := genPoolsC(r, its, false)
	for i := range pexts {
		if r.Float64() < 0.8 {
			z := int64(0)
			pexts[i] = PoolExt{Name: pexts[i].Name, Policy: pick(r, "WhenEmpty", "WhenEmptyOrUnderutilized", "WhenEmptyOrUnderutilized"), ConsolidateAfter: &z}
		}
	}
	in := RunIn{Method: "empty", SpotToSpot: r.Float64() < 0.5, Budget: 100, Pick: []string{}, PDBs: []PDBExt{}, Nodes: []NodeExt{}, Pods: []PodExt{}}
	n := 2 + r.IntN(4)
	var nodes []world.Node
	var empties []string
	podSeq := 0
	for i := 0; i < n; i++ {
		it := pick(r, its...)
		of := offeringFor(r, it, r.Float64() < 0.3)
		pool := &pools[r.IntN(len(pools))]
		nd := world.Node{Name: fmt.Sprintf("node-%d", i), Pool: pool.Name, IT: it.Name, Zone: of.Zone, CapacityType: of.CapacityType, Labels: map[string]string{}, Stage: "initialized"}
		switch x := r.Float64(); {
		case x < 0.62:
			// empty: no pods, or only pods that do not count
			if r.Float64() < 0.35 {
				k := 1 + r.IntN(2)
				for j := 0; j < k; j++ {
					podSeq++
					p := genNodePod(r, fmt.Sprintf("bound-%d", podSeq), &nd, pool, its, 0.2)
					p.CPU, p.HostPorts = 100, nil
					switch r.IntN(4) {
					case 0:
						p.Daemon = true
					case 1:
						in.Pods = append(in.Pods, PodExt{Pod: p.Name, Phase: pick(r, "Succeeded", "Failed")})
					case 2:
						in.Pods = append(in.Pods, PodExt{Pod: p.Name, DelCost: i64(-134217728)})
					default:
						in.Pods = append(in.Pods, PodExt{Pod: p.Name, Priority: i32(-33554432)})
					}
					nd.Pods = append(nd.Pods, p)
				}
			}
			empties = append(empties, nd.Name)
		case x < 0.85:
			// busy
			k := 1 + r.IntN(2)
			for j := 0; j < k; j++ {
				podSeq++
				p := genNodePod(r, fmt.Sprintf("bound-%d", podSeq), &nd, pool, its, 0.3)
				p.CPU, p.HostPorts = 100, nil
				nd.Pods = append(nd.Pods, p)
				if pe := podCostExt(r, p.Name, 0.3); pe != nil {
					in.Pods = append(in.Pods, *pe)
				}
			}
		default:
			// decoy: empty, but no candidate
			switch r.IntN(3) {
			case 0:
				nd.Pool = ""
			case 1:
				nd.Deleting = true
			default:
				nd.Stage = pick(r, "node", "registered")
			}
		}
		nodes = append(nodes, nd)
		if r.Float64() < 0.05 {
			in.Nodes = append(in.Nodes, NodeExt{Node: nd.Name, NotConsolidatable: true})
		}
	}
	in.Pools = pexts
	in.Scn = world.Scenario{ITs: its, Pools: pools, Nodes: nodes, DaemonSets: []world.DaemonSet{}, Pods: []world.Pod{}, Parallelism: 1}
	if r.Float64() < 0.15 {
		in.Scn.DaemonSets = append(in.Scn.DaemonSets, world.DaemonSet{Name: "ds-0", CPU: 100, Mem: 64, Tolerations: []world.Toleration{{Operator: "Exists"}}})
	}
	if r.Float64() < 0.08 {
		pe := PDBExt{App: pick(r, "a", "z"), Allowed: int32(r.IntN(2)), Blocking: r.Float64() < 0.3}
		if pe.Blocking {
			pe.Allowed = 0
		}
		in.PDBs = append(in.PDBs, pe)
	}
	if r.Float64() < 0.03 {
		in.Budget = 0
	}
	if r.Float64() < 0.08 {
		return in // control: nothing changes
	}
	// the change
	target := func() string {
		if len(empties) > 0 && r.Float64() < 0.7 {
			return empties[r.IntN(len(empties))]
		}
		return nodes[r.IntN(len(nodes))].Name
	}
	k := 1 + r.IntN(3)
	var evs []Churn
	for i := 0; i < k; i++ {
		switch x := r.Float64(); {
		case x < 0.65:
			p, pe, _ := churnPodVariant(r, fmt.Sprintf("churn-pod-%d", i))
			if pe != nil {
				in.Pods = append(in.Pods, *pe)
			}
			evs = append(evs, Churn{Kind: "bound", Node: target(), Pod: &p})
		case x < 0.77:
			evs = append(evs, Churn{Kind: "delnode", Node: target()})
		case x < 0.87:
			evs = append(evs, Churn{Kind: "nominate", Node: target()})
		case x < 0.95:
			evs = append(evs, Churn{Kind: "pod", Pod: &world.Pod{Name: fmt.Sprintf("churn-pod-%d", i), Labels: map[string]string{"app": "z"}, CPU: int64(100 * (1 + r.IntN(20))), Mem: 128}})
		default:
			evs = append(evs, Churn{Kind: "unavail", IT: pick(r, its...).Name})
		}
	}
	ch := evs[0]
	ch.Also = evs[1:]
	in.Churn = &ch
	return in
}

func strs(v any) []string {
	a, _ := v.([]any)
	out := []string{}
	for _, x := range a {
		out = append(out, fmt.Sprint(x))
	}
	return out
}

func emptyValidateLabels(raw json.RawMessage, impl any) []string {
	var in RunIn
	_ = json.Unmarshal(raw, &in)
	m, _ := impl.(map[string]any)
	l := []string{}
	if e, _ := m["err"].(string); e != "" {
		return append(l, "error")
	}
	evs := in.Churn.events()
	if len(evs) == 0 {
		l = append(l, "no-change(control)")
	}
	c, _ := m["churned"].(bool)
	if !c {
		if m["cmd"] != nil {
			return append(l, "released-without-change")
		}
		return append(l, "no-command-reached-validation")
	}
	l = append(l, fmt.Sprintf("change-events=%d", len(evs)))
	ev, _ := m["emptyVal"].(map[string]any)
	pre := strs(ev["pre"])
	cur := map[string]bool{}
	for _, n := range strs(ev["current"]) {
		cur[n] = true
	}
	inPre := map[string]bool{}
	for _, n := range pre {
		inPre[n] = true
	}
	l = append(l, fmt.Sprintf("command-candidates=%d", min(len(pre), 4)))
	still := 0
	for _, n := range pre {
		if cur[n] {
			still++
		}
	}
	switch {
	case len(pre) == 0:
		l = append(l, "command-unknown")
	case still == len(pre):
		l = append(l, "after-change:all-candidates-still-valid")
	case still == 0:
		l = append(l, "after-change:no-candidate-still-valid")
	default:
		l = append(l, "after-change:SOME-candidates-still-valid(validator-narrows)")
	}
	exts := churnPodExts(&in)
	for _, e := range evs {
		where := "other-node"
		if inPre[e.Node] {
			where = "command-candidate"
		}
		switch e.Kind {
		case "bound":
			kind := "ordinary"
			if e.Pod.Daemon {
				kind = "daemon"
			} else if pe, ok := exts[e.Pod.Name]; ok {
				switch {
				case pe.Phase != "":
					kind = "terminal"
				case pe.DelCost != nil && *pe.DelCost == -134217728, pe.Priority != nil && *pe.Priority == -33554432:
					kind = "cost=0"
				case pe.DelCost != nil && *pe.DelCost == -134217727:
					kind = "cost-just-above-0"
				case pe.DelCost != nil:
					kind = "cost-clamped-negative"
				default:
					kind = "high-priority"
				}
			}
			l = append(l, fmt.Sprintf("change:pod-binds-to-%s:%s", where, kind))
		case "delnode", "nominate":
			l = append(l, fmt.Sprintf("change:%s:%s", e.Kind, where))
		default:
			l = append(l, "change:"+e.Kind)
		}
	}
	if cmd, _ := m["cmd"].(map[string]any); cmd != nil {
		cs, _ := cmd["cands"].([]any)
		l = append(l, fmt.Sprintf("released:cands=%d", min(len(cs), 4)))
		if len(cs) < len(pre) {
			l = append(l, "released-command-narrower-than-computed")
		}
	} else {
		l = append(l, "rejected")
	}
	return l
}

// shrinkEmptyValidate: the run shrinks (which keep the extensions of pods on nodes only) with the churn pods'
// extensions put back and events on dropped nodes removed; plus dropping one change event.
func shrinkEmptyValidate(raw json.RawMessage) []any {
	var in RunIn
	if json.Unmarshal(raw, &in) != nil {
		return nil
	}
	exts := churnPodExts(&in)
	fix := func(c RunIn) RunIn {
		nodes := map[string]bool{}
		for _, n := range c.Scn.Nodes {
			nodes[n.Name] = true
		}
		var evs []Churn
		for _, e := range c.Churn.events() {
			if e.Node != "" && !nodes[e.Node] {
				continue
			}
			evs = append(evs, e)
		}
		c.Churn = nil
		if len(evs) > 0 {
			ch := evs[0]
			ch.Also = append([]Churn{}, evs[1:]...)
			c.Churn = &ch
		}
		have := map[string]bool{}
		for _, pe := range c.Pods {
			have[pe.Pod] = true
		}
		pods := append([]PodExt{}, c.Pods...)
		for _, e := range evs {
			if e.Pod == nil {
				continue
			}
			if pe, ok := exts[e.Pod.Name]; ok && !have[pe.Pod] {
				pods = append(pods, pe)
			}
		}
		c.Pods = pods
		return c
	}
	var out []any
	for _, x := range shrinkRun(raw) {
		if c, ok := x.(RunIn); ok {
			out = append(out, fix(c))
		}
	}
	evs := in.Churn.events()
	for i := range evs {
		c := in
		rest := append(append([]Churn{}, evs[:i]...), evs[i+1:]...)
		c.Churn = nil
		if len(rest) > 0 {
			ch := rest[0]
			ch.Also = append([]Churn{}, rest[1:]...)
			c.Churn = &ch
		}
		out = append(out, fix(c))
	}
	return out
}

func emptyValidateOp() *core.Op {
	return &core.Op{
		Name: "c06.emptyvalidate",
		Doc:  "the real Emptiness.ComputeCommands (real EmptinessValidator, GetCandidates, fake client, fake clock stepped through the validation delay) while the cluster changes during the 15 s validation delay: pods bind to some of several empty candidates (ordinary pods, pods whose eviction cost is exactly 0 / just above 0 / clamped, DaemonSet pods, completed pods), nodes start deleting or are nominated, pending pods appear, instance types go out of stock (1..3 events per run, with no-change controls). The command that is RELEASED is judged by the independent Lean specification against the cluster as it is at release (a node is deleted as empty only if no reschedulable pod on it has a positive eviction cost) and compared with the model's emptinessValidate (released candidates = the command's candidates that GetCandidates still returns after the change, in-budget and not nominated; no command when none is left) on the candidate set, budgets and nominations the harness observes on identical fresh worlds",
		N:    func(t core.Tier) int { return map[core.Tier]int{core.Quick: 700, core.Thorough: 9000}[t] },
		Gen:  genEmptyValidate,
		Impl: implEmptyValidate,
		Rule: "non-trivial = an Emptiness command reached validation and the change was delivered during the wait",
		Nontrivial: func(raw json.RawMessage, impl any) bool {
			m, _ := impl.(map[string]any)
			c, _ := m["churned"].(bool)
			return c
		},
		Labels:    emptyValidateLabels,
		Signature: func(raw json.RawMessage, impl any) string { return "emptyvalidate" },
		Shrink:    shrinkEmptyValidate,
	}
}
