package c06

import (
	"fmt"
	"math/rand/v2"
	"sort"

	"verifharness/internal/core"
	"verifharness/internal/world"
)

var zones = []string{"z1", "z2", "z3"}

func pick[T any](r *rand.Rand, xs ...T) T { return xs[r.IntN(len(xs))] }

const (
	zoneKey = "topology.kubernetes.io/zone"
	ctKey   = "karpenter.sh/capacity-type"
	itKey   = "node.kubernetes.io/instance-type"
)

// genCatalog draws an instance-type catalog whose prices roughly follow the size, with ties, unavailable
// offerings and (when reserved is set) capacity reservations.  big = at least 16 types (spot-to-spot needs 15
// cheaper options).
func genCatalog(r *rand.Rand, big bool, reserved bool) []world.IT {
	n := 3 + r.IntN(6)
	if big {
		n = 16 + r.IntN(8)
	}
	sizes := []int64{1000, 2000, 4000, 8000, 16000}
	var its []world.IT
	flat := r.Float64() < 0.2 // a flat price table: many ties
	for i := 0; i < n; i++ {
		cpu := sizes[r.IntN(len(sizes))]
		if big && i < n-3 {
			cpu = sizes[r.IntN(3)] // many small, cheap types
		}
		it := world.IT{Name: fmt.Sprintf("it-%02d", i), CPU: cpu, Mem: cpu * int64(2+r.IntN(3)), Pods: int64(pick(r, 4, 8, 16, 30)), Arch: "amd64", OS: []string{"linux"}, Overhead: int64(pick(r, 0, 100))}
		base := cpu / 1000 * 64
		if flat {
			base = 256
		}
		zs := zones
		if r.Float64() < 0.3 {
			zs = zones[:1+r.IntN(3)]
		}
		for _, z := range zs {
			od := base + int64(r.IntN(5))*16
			if r.Float64() < 0.85 {
				it.Offerings = append(it.Offerings, world.Offering{Zone: z, CapacityType: "on-demand", Price: od, Available: r.Float64() < 0.9})
			}
			if r.Float64() < 0.8 {
				sp := od * int64(3+r.IntN(6)) / 10
				if r.Float64() < 0.08 {
					sp = od + int64(r.IntN(3))*8 // a spot price at or above on-demand
				}
				it.Offerings = append(it.Offerings, world.Offering{Zone: z, CapacityType: "spot", Price: sp, Available: r.Float64() < 0.85})
			}
			if reserved && r.Float64() < 0.25 {
				it.Offerings = append(it.Offerings, world.Offering{Zone: z, CapacityType: "reserved", Price: int64(r.IntN(3)) * 8, Available: r.Float64() < 0.85,
					ReservationID: fmt.Sprintf("r-%d", r.IntN(4)), ReservationN: 1 + r.IntN(3)})
			}
		}
		if len(it.Offerings) == 0 {
			it.Offerings = append(it.Offerings, world.Offering{Zone: "z1", CapacityType: "on-demand", Price: base, Available: true})
		}
		its = append(its, it)
	}
	// one reservation id = one capacity
	capOf := map[string]int{}
	for i := range its {
		for j := range its[i].Offerings {
			of := &its[i].Offerings[j]
			if of.ReservationID != "" {
				if c, ok := capOf[of.ReservationID]; ok {
					of.ReservationN = c
				} else {
					capOf[of.ReservationID] = of.ReservationN
				}
			}
		}
	}
	return its
}

func genPoolsC(r *rand.Rand, its []world.IT, reserved bool) ([]world.NodePool, []PoolExt) {
	n := 1 + r.IntN(2)
	var pools []world.NodePool
	var exts []PoolExt
	for i := 0; i < n; i++ {
		np := world.NodePool{Name: fmt.Sprintf("pool-%d", i), Labels: map[string]string{}}
		if r.Float64() < 0.3 {
			np.Labels["team"] = pick(r, "red", "blue")
		}
		if r.Float64() < 0.12 {
			np.Taints = append(np.Taints, world.Taint{Key: "dedicated", Value: "x", Effect: "NoSchedule"})
		}
		switch x := r.Float64(); {
		case x < 0.15:
			np.Reqs = append(np.Reqs, world.MinExpr{Key: ctKey, Op: "In", Values: []string{"spot"}})
		case x < 0.3:
			np.Reqs = append(np.Reqs, world.MinExpr{Key: ctKey, Op: "In", Values: []string{"on-demand"}})
		case x < 0.4 && reserved:
			np.Reqs = append(np.Reqs, world.MinExpr{Key: ctKey, Op: "In", Values: []string{"reserved", pick(r, "on-demand", "spot")}})
		case x < 0.45:
			np.Reqs = append(np.Reqs, world.MinExpr{Key: ctKey, Op: "NotIn", Values: []string{pick(r, "on-demand", "spot")}})
		}
		if r.Float64() < 0.25 {
			k := 1 + r.IntN(2)
			perm := r.Perm(3)
			zs := []string{}
			for j := 0; j < k; j++ {
				zs = append(zs, zones[perm[j]])
			}
			sort.Strings(zs)
			np.Reqs = append(np.Reqs, world.MinExpr{Key: zoneKey, Op: "In", Values: zs})
		}
		if r.Float64() < 0.3 {
			// minValues on the instance-type key: the price filter must keep at least that many
			names := []string{}
			for _, it := range its {
				if r.Float64() < 0.8 {
					names = append(names, it.Name)
				}
			}
			if len(names) == 0 {
				names = []string{its[0].Name}
			}
			mv := 1 + r.IntN(min(len(names), 4))
			if r.Float64() < 0.2 {
				mv = min(len(names), 16+r.IntN(3)) // above the spot-to-spot cap of 15
			}
			np.Reqs = append(np.Reqs, world.MinExpr{Key: itKey, Op: "In", Values: names, MinValues: &mv})
		}
		pools = append(pools, np)
		pe := PoolExt{Name: np.Name, Policy: "WhenEmptyOrUnderutilized"}
		ca := int64(0)
		switch x := r.Float64(); {
		case x < 0.05:
			pe.Policy = "WhenEmpty"
		case x < 0.13:
			pe.Policy = "Balanced" // scoring may veto a command, never admit one
			exts = append(exts, PoolExt{Name: np.Name, Policy: pe.Policy, ConsolidateAfter: &ca})
			continue
		case x < 0.16:
			pe.ConsolidateAfter = nil
			exts = append(exts, pe)
			continue
		case x < 0.26:
			ca = 30
		}
		pe.ConsolidateAfter = &ca
		exts = append(exts, pe)
	}
	return pools, exts
}

func genNodePod(r *rand.Rand, name string, nd *world.Node, pool *world.NodePool, its []world.IT, constrain float64) world.Pod {
	p := world.Pod{Name: name, Labels: map[string]string{"app": pick(r, "a", "b", "c")}, CPU: int64(100 * (1 + r.IntN(6))), Mem: int64(64 * (1 + r.IntN(8)))}
	if pool != nil {
		for _, t := range pool.Taints {
			p.Tolerations = append(p.Tolerations, world.Toleration{Key: t.Key, Operator: "Exists"})
		}
	}
	// constraints the pod's current node satisfies (the pod is running there)
	if r.Float64() < constrain {
		switch r.IntN(7) {
		case 0:
			p.NodeSelector = map[string]string{zoneKey: nd.Zone}
		case 1:
			p.NodeSelector = map[string]string{ctKey: nd.CapacityType}
		case 2:
			v := pick(r, "spot", "on-demand", "reserved")
			if v != nd.CapacityType {
				p.Required = [][]world.KExpr{{{Key: ctKey, Op: "NotIn", Values: []string{v}}}}
			}
		case 3:
			p.Required = [][]world.KExpr{{{Key: zoneKey, Op: "In", Values: []string{nd.Zone, pick(r, zones...)}}}}
		case 4:
			v := pick(r, its...).Name
			if v != nd.IT {
				p.Required = [][]world.KExpr{{{Key: itKey, Op: "NotIn", Values: []string{v}}}}
			}
		case 5:
			if pool != nil && pool.Labels["team"] != "" {
				p.NodeSelector = map[string]string{"team": pool.Labels["team"]}
			}
		case 6:
			p.Preferred = []world.Preferred{{Weight: 10, Exprs: []world.KExpr{{Key: zoneKey, Op: "In", Values: []string{pick(r, zones...)}}}}}
		}
	}
	if r.Float64() < 0.05 {
		p.HostPorts = []world.HostPort{{Port: 8080, Protocol: "TCP"}}
	}
	world.FixExprs(&p)
	return p
}

func podCostExt(r *rand.Rand, name string, rate float64) *PodExt {
	if r.Float64() >= rate {
		return nil
	}
	if r.Float64() < 0.25 {
		// the fraction of deletionCost/2^27 decides the sign (see fracPairs)
		fp := pick(r, fracPairs...)
		return &PodExt{Pod: name, DelCost: i64(fp[0]), Priority: i32(int32(fp[1]))}
	}
	switch r.IntN(8) {
	case 0, 1:
		return &PodExt{Pod: name, DelCost: i64(-134217728)} // cost exactly 0
	case 2:
		return &PodExt{Pod: name, DelCost: i64(-134217727)} // just above 0
	case 3:
		return &PodExt{Pod: name, DelCost: i64(-2147483647)} // clamped at -10
	case 4:
		return &PodExt{Pod: name, Priority: i32(-33554432)} // cost exactly 0
	case 5:
		return &PodExt{Pod: name, Priority: i32(-33554432), DelCost: i64(1)} // just above 0
	case 6:
		return &PodExt{Pod: name, Phase: pick(r, "Succeeded", "Failed")}
	default:
		return &PodExt{Pod: name, Priority: i32(1000)}
	}
}

type clusterOpts struct {
	nodes     int     // number of nodes
	oversized float64 // share of nodes on a dear type with a few small pods
	full      float64 // share of nodes filled up by a large pod (no room for others)
	decoy     float64 // share of uninitialized / unmanaged / deleting nodes
	costRate  float64 // share of pods with special eviction-cost inputs
	constrain float64 // share of pods with node constraints
	spot      float64 // probability that a node is moved to a spot offering of its type
}

func offeringFor(r *rand.Rand, it world.IT, wantSpot bool) world.Offering {
	of := pick(r, it.Offerings...)
	want := pick(r, "spot", "on-demand")
	if wantSpot {
		want = "spot"
	}
	for _, o := range it.Offerings {
		if o.CapacityType == want {
			return o
		}
	}
	return of
}

// genCluster draws the nodes: oversized nodes (consolidation candidates), full nodes (no room), and decoys
// (uninitialized / unmanaged / deleting nodes with room).
func genCluster(r *rand.Rand, its []world.IT, pools []world.NodePool, o clusterOpts) ([]world.Node, []PodExt, []NodeExt) {
	var nodes []world.Node
	var pext []PodExt
	var next []NodeExt
	byPrice := append([]world.IT{}, its...)
	sort.SliceStable(byPrice, func(i, j int) bool { return maxPrice(byPrice[i]) > maxPrice(byPrice[j]) })
	podSeq := 0
	for i := 0; i < o.nodes; i++ {
		kind := "normal"
		switch x := r.Float64(); {
		case x < o.oversized:
			kind = "oversized"
		case x < o.oversized+o.full:
			kind = "full"
		case x < o.oversized+o.full+o.decoy:
			kind = "decoy"
		}
		it := pick(r, its...)
		if kind == "oversized" {
			it = byPrice[r.IntN(max(1, len(byPrice)/3))]
		}
		of := offeringFor(r, it, r.Float64() < o.spot)
		nd := world.Node{Name: fmt.Sprintf("node-%d", i), IT: it.Name, Zone: of.Zone, CapacityType: of.CapacityType, Labels: map[string]string{}, Stage: "initialized"}
		pool := &pools[r.IntN(len(pools))]
		nd.Pool = pool.Name
		if kind == "decoy" {
			switch r.IntN(4) {
			case 0:
				nd.Pool, pool = "", nil
			case 1:
				nd.Deleting = true
			default:
				nd.Stage = pick(r, "claim", "node", "registered", "registered")
			}
		}
		if r.Float64() < 0.02 {
			nd.Zone = "z9" // a node whose offering is not (or no longer) in the catalog
		}
		if nd.Stage == "registered" || nd.Stage == "initialized" {
			k := 1 + r.IntN(3)
			if kind == "decoy" && r.Float64() < 0.5 || r.Float64() < 0.08 {
				k = 0
			}
			alloc := it.CPU - it.Overhead - 500 // leave room for daemons
			var used int64
			for j := 0; j < k; j++ {
				podSeq++
				p := genNodePod(r, fmt.Sprintf("bound-%d", podSeq), &nd, pool, its, o.constrain)
				if used+p.CPU > alloc {
					p.CPU = 100
				}
				if used+p.CPU > alloc || int64(len(nd.Pods))+2 > it.Pods {
					break
				}
				used += p.CPU
				p.Daemon = r.Float64() < 0.05
				nd.Pods = append(nd.Pods, p)
				if pe := podCostExt(r, p.Name, o.costRate); pe != nil {
					pext = append(pext, *pe)
				}
			}
			if kind == "full" && alloc-used >= 200 && int64(len(nd.Pods))+1 < it.Pods {
				podSeq++
				p := genNodePod(r, fmt.Sprintf("bound-%d", podSeq), &nd, pool, its, 0)
				p.CPU = alloc - used + 400 - int64(r.IntN(2))*100
				p.Mem = 64
				p.HostPorts = nil
				nd.Pods = append(nd.Pods, p)
			}
		}
		nodes = append(nodes, nd)
		ne := NodeExt{Node: nd.Name}
		if r.Float64() < 0.04 {
			ne.NotConsolidatable = true
		}
		if r.Float64() < 0.12 {
			// (values for which "under consolidateAfter" is the same when the command is computed and, 16 s later, when it is
			// validated: the decision and its validation then see the same cluster)
			ne.LastPodEventAgo = int64(pick(r, 5, 13, 30, 31, 600))
		}
		if ne.NotConsolidatable || ne.LastPodEventAgo != 0 {
			next = append(next, ne)
		}
	}
	return nodes, pext, next
}

func maxPrice(it world.IT) int64 {
	var m int64
	for _, o := range it.Offerings {
		if o.Price > m {
			m = o.Price
		}
	}
	return m
}

func i64(v int64) *int64 { return &v }
func i32(v int32) *int32 { return &v }

func defaultPoolExt(pools []world.NodePool) []PoolExt {
	var out []PoolExt
	for _, p := range pools {
		z := int64(0)
		out = append(out, PoolExt{Name: p.Name, Policy: "WhenEmptyOrUnderutilized", ConsolidateAfter: &z})
	}
	return out
}

// s2sCatalog: `cheap` small types with an available spot offering (distinct prices or ties) and one dear type the
// candidates run on.
func s2sCatalog(r *rand.Rand, cheap int) []world.IT {
	var its []world.IT
	ties := r.Float64() < 0.3
	for i := 0; i < cheap; i++ {
		p := int64(40 + 8*i)
		if ties {
			p = int64(40 + 8*(i/3))
		}
		it := world.IT{Name: fmt.Sprintf("it-%02d", i), CPU: 2000, Mem: 8000, Pods: 16, Arch: "amd64", OS: []string{"linux"}}
		for _, z := range zones[:1+r.IntN(3)] {
			it.Offerings = append(it.Offerings, world.Offering{Zone: z, CapacityType: "spot", Price: p + int64(r.IntN(2))*4, Available: true})
			if r.Float64() < 0.5 {
				it.Offerings = append(it.Offerings, world.Offering{Zone: z, CapacityType: "on-demand", Price: 3 * p, Available: r.Float64() < 0.9})
			}
		}
		if r.Float64() < 0.08 {
			for j := range it.Offerings {
				if it.Offerings[j].CapacityType == "spot" {
					it.Offerings[j].Available = false // not launchable as spot
				}
			}
		}
		its = append(its, it)
	}
	dear := world.IT{Name: "it-dear", CPU: 8000, Mem: 32000, Pods: 30, Arch: "amd64", OS: []string{"linux"}}
	for _, z := range zones {
		dear.Offerings = append(dear.Offerings, world.Offering{Zone: z, CapacityType: "spot", Price: 400, Available: true},
			world.Offering{Zone: z, CapacityType: "on-demand", Price: 1200, Available: true})
	}
	if r.Float64() < 0.3 {
		// a price in the middle of the cheap ones: only some of them are cheaper
		mid := int64(40 + 8*(cheap/2) + r.IntN(3)*4)
		for j := range dear.Offerings {
			if dear.Offerings[j].CapacityType == "spot" {
				dear.Offerings[j].Price = mid
			}
		}
	}
	return append(its, dear)
}

func genRun(method string) func(r *rand.Rand, t core.Tier) any {
	return func(r *rand.Rand, t core.Tier) any {
		// one run in seven: per-NodePool price tables; one in twenty: a launch cap below the catalog size
		if method != "empty" {
			switch x := r.Float64(); {
			case x < 0.07:
				in := genNodeOverlayRun(r, method)
				decorateLife(r, &in)
				return in
			case x < 0.14:
				in := genOverlayRun(r, method)
				decorateLife(r, &in)
				return in
			case x < 0.19:
				in := genCapRun(r, method)
				decorateLife(r, &in)
				return in
			}
		}
		profile := "mixed"
		switch x := r.Float64(); {
		case method == "empty":
			profile = "mixed"
		case x < 0.40:
			profile = "replace"
		case x < 0.62:
			profile = "s2s"
		case x < 0.80:
			profile = "edge"
		}
		reserved := r.Float64() < 0.3 && profile != "s2s"
		var its []world.IT
		var pools []world.NodePool
		var pexts []PoolExt
		var nodes []world.Node
		var podExt []PodExt
		var nodeExt []NodeExt
		in := RunIn{Method: method, SpotToSpot: r.Float64() < 0.7, Budget: 100, Pick: []string{}}
		switch profile {
		case "mixed":
			its = genCatalog(r, r.Float64() < 0.3, reserved)
			pools, pexts = genPoolsC(r, its, reserved)
			o := clusterOpts{nodes: 1 + r.IntN(5), oversized: 0.4, full: 0.15, decoy: 0.2, costRate: 0.1, constrain: 0.4, spot: 0.3}
			if method == "empty" {
				o.costRate = 0.45
			}
			nodes, podExt, nodeExt = genCluster(r, its, pools, o)
			if method == "empty" {
				for i := range nodes {
					if r.Float64() < 0.3 {
						nodes[i].Pods = nil
					}
				}
			}
		case "replace":
			its = genCatalog(r, r.Float64() < 0.2, reserved)
			pools, pexts = genPoolsC(r, its, reserved)
			if r.Float64() < 0.6 {
				pools, pexts = pools[:1], pexts[:1]
			}
			for i := range pexts {
				z := int64(0)
				pol := "WhenEmptyOrUnderutilized"
				if pexts[i].Policy == "Balanced" {
					pol = "Balanced"
				}
				pexts[i] = PoolExt{Name: pexts[i].Name, Policy: pol, ConsolidateAfter: &z}
			}
			n := 1 + r.IntN(3)
			if method == "multi" {
				n = 2 + r.IntN(4)
			}
			nodes, podExt, nodeExt = genCluster(r, its, pools, clusterOpts{nodes: n, oversized: 0.7, full: 0.25, decoy: 0.05, costRate: 0.03, constrain: 0.35, spot: 0.4})
		case "s2s":
			cheap := pick(r, 12, 13, 14, 14, 15, 15, 16, 17, 19, 22)
			its = s2sCatalog(r, cheap)
			pools = []world.NodePool{{Name: "pool-0", Labels: map[string]string{}}}
			if r.Float64() < 0.25 {
				names := []string{}
				for _, it := range its {
					names = append(names, it.Name)
				}
				mv := pick(r, 2, 5, 14, 15, 16, 17)
				pools[0].Reqs = append(pools[0].Reqs, world.MinExpr{Key: itKey, Op: "In", Values: names, MinValues: &mv})
			}
			if r.Float64() < 0.15 {
				pools[0].Reqs = append(pools[0].Reqs, world.MinExpr{Key: ctKey, Op: "In", Values: []string{"spot"}})
			}
			pexts = defaultPoolExt(pools)
			n := 1 + r.IntN(2)
			if method == "multi" {
				n = 2 + r.IntN(2)
			}
			for i := 0; i < n; i++ {
				nd := world.Node{Name: fmt.Sprintf("node-%d", i), Pool: "pool-0", IT: "it-dear", Zone: pick(r, zones...), CapacityType: "spot", Labels: map[string]string{}, Stage: "initialized"}
				if r.Float64() < 0.12 {
					nd.CapacityType = "on-demand"
				}
				k := 1 + r.IntN(2)
				for j := 0; j < k; j++ {
					p := genNodePod(r, fmt.Sprintf("bound-%d-%d", i, j), &nd, &pools[0], its, 0.25)
					p.CPU, p.HostPorts = int64(100*(1+r.IntN(4))), nil
					nd.Pods = append(nd.Pods, p)
				}
				nodes = append(nodes, nd)
			}
			if r.Float64() < 0.3 {
				// a full node: no room for the candidates' pods
				nd := world.Node{Name: "node-full", Pool: "pool-0", IT: "it-00", Zone: "z1", CapacityType: "spot", Labels: map[string]string{}, Stage: "initialized"}
				nd.Pods = []world.Pod{{Name: "filler", Labels: map[string]string{"app": "f"}, CPU: 1900, Mem: 64}}
				nodes = append(nodes, nd)
			}
		case "edge":
			its = genCatalog(r, false, reserved)
			pools, pexts = genPoolsC(r, its, reserved)
			pools, pexts = pools[:1], defaultPoolExt(pools[:1])
			n := 1 + r.IntN(2)
			if method == "multi" {
				n = 2 + r.IntN(2)
			}
			nodes, podExt, nodeExt = genCluster(r, its, pools, clusterOpts{nodes: n, oversized: 0.9, full: 0.1, costRate: 0, constrain: 0.2, spot: 0.3})
			switch r.IntN(4) {
			case 0:
				// a pod that can run nowhere else: it selects a label only its node carries
				for i := range nodes {
					if len(nodes[i].Pods) > 0 && r.Float64() < 0.7 {
						nodes[i].Labels["special"] = "x"
						nodes[i].Pods[0].NodeSelector = map[string]string{"special": "x"}
						nodes[i].Pods[0].Required = nil
						if r.Float64() < 0.5 {
							// ... and is still starting (bound, phase Pending): as much in need of a home as a running pod
							podExt = append(podExt, PodExt{Pod: nodes[i].Pods[0].Name, Phase: "Pending"})
						}
					}
				}
			case 1:
				// the pool no longer allows large types: the pods of a large node need two replacements
				small := []string{}
				var cap int64
				for _, it := range its {
					if it.CPU <= 2000 {
						small = append(small, it.Name)
						cap = max(cap, it.CPU)
					}
				}
				if len(small) > 0 {
					kept := []world.MinExpr{}
					for _, e := range pools[0].Reqs {
						if e.Key != itKey {
							kept = append(kept, e)
						}
					}
					pools[0].Reqs = append(kept, world.MinExpr{Key: itKey, Op: "In", Values: small})
					for i := range nodes {
						for j := range nodes[i].Pods {
							if j < 2 {
								nodes[i].Pods[j].CPU = cap/2 + 100
								nodes[i].Pods[j].HostPorts = nil
							}
						}
					}
				}
			case 2:
				// an uninitialized node of the same pool with plenty of room
				it := its[0]
				for _, c := range its {
					if c.CPU > it.CPU {
						it = c
					}
				}
				of := offeringFor(r, it, false)
				nodes = append(nodes, world.Node{Name: "node-young", Pool: pools[0].Name, IT: it.Name, Zone: of.Zone, CapacityType: of.CapacityType, Labels: map[string]string{}, Stage: pick(r, "claim", "node", "registered")})
			case 3:
				// candidates of very different price
				if len(nodes) >= 2 {
					cheapest := its[0]
					for _, c := range its {
						if maxPrice(c) < maxPrice(cheapest) {
							cheapest = c
						}
					}
					of := offeringFor(r, cheapest, true)
					nodes[1].IT, nodes[1].Zone, nodes[1].CapacityType = cheapest.Name, of.Zone, of.CapacityType
					nodes[1].Pods = nodes[1].Pods[:min(len(nodes[1].Pods), 1)]
					for j := range nodes[1].Pods {
						nodes[1].Pods[j].CPU, nodes[1].Pods[j].NodeSelector, nodes[1].Pods[j].Required = 100, nil, nil
					}
				}
			}
		}
		in.Pools, in.Pods, in.Nodes = pexts, podExt, nodeExt
		s := world.Scenario{ITs: its, Pools: pools, Nodes: nodes, DaemonSets: []world.DaemonSet{}, Pods: []world.Pod{}, Parallelism: 1, ReservedCapacity: reserved,
			BestEffortMinVal: r.Float64() < 0.2, IgnorePrefs: r.Float64() < 0.2}
		if r.Float64() < 0.2 {
			s.DaemonSets = append(s.DaemonSets, world.DaemonSet{Name: "ds-0", CPU: int64(100 * (1 + r.IntN(3))), Mem: 64, Tolerations: []world.Toleration{{Operator: "Exists"}}})
		}
		if r.Float64() < 0.15 {
			k := 1 + r.IntN(2)
			for i := 0; i < k; i++ {
				p := world.Pod{Name: fmt.Sprintf("pend-%d", i), Labels: map[string]string{"app": "p"}, CPU: int64(100 * (1 + r.IntN(20))), Mem: 128}
				if r.Float64() < 0.3 {
					p.CPU = 64000 // fits nothing: stays pending, must not block consolidation
				}
				s.Pods = append(s.Pods, p)
			}
		}
		if r.Float64() < 0.1 {
			// (a budget with maxUnavailable 0 always reports 0 allowed disruptions: the two fields are kept consistent)
			pe := PDBExt{App: pick(r, "a", "b", "c"), Allowed: int32(r.IntN(3)), Blocking: r.Float64() < 0.3}
			if pe.Blocking {
				pe.Allowed = 0
				pe.Form = pick(r, "", "", "0%", "100%")
			}
			pe.Policy = pick(r, "", "", "IfHealthyBudget", "AlwaysAllow")
			in.PDBs = append(in.PDBs, pe)
		}
		if in.PDBs == nil {
			in.PDBs = []PDBExt{}
		}
		in.Scn = s
		// keep only the extensions of pods that exist
		have := map[string]bool{}
		for _, n := range nodes {
			for _, p := range n.Pods {
				have[p.Name] = true
			}
		}
		kept := []PodExt{}
		for _, pe := range in.Pods {
			if have[pe.Pod] {
				kept = append(kept, pe)
			}
		}
		in.Pods = kept
		if in.Nodes == nil {
			in.Nodes = []NodeExt{}
		}
		if method == "single" && r.Float64() < 0.35 && len(nodes) > 0 {
			in.Pick = []string{nodes[r.IntN(len(nodes))].Name}
		}
		if r.Float64() < 0.03 {
			in.Budget = 0
		}
		decorateLife(r, &in)
		return in
	}
}

// decorateLife: bound pods in every phase / readiness, and budgets over unhealthy pods.
//   - 7 % of the bound pods are still starting (status.phase Pending, PodScheduled=True), 6 % report Ready=False, 2 % both;
//   - one run in ten: one pod gets its own label, (mostly) reports Ready=False and is selected by a PodDisruptionBudget that
//     is (mostly) fully blocking by spec — maxUnavailable 0 / "0%" / minAvailable "100%" — with every
//     unhealthyPodEvictionPolicy (AlwaysAllow: the eviction API evicts the unhealthy pod, so the node stays a candidate
//     and the pod needs a home like any other; unset / IfHealthyBudget: the node is no candidate).
//
// The Labels state how often a command removes a node that hosts such a pod.
func decorateLife(r *rand.Rand, in *RunIn) {
	idx := map[string]int{}
	for i, pe := range in.Pods {
		idx[pe.Pod] = i
	}
	set := func(name string, f func(pe *PodExt)) {
		i, ok := idx[name]
		if !ok {
			in.Pods = append(in.Pods, PodExt{Pod: name})
			i = len(in.Pods) - 1
			idx[name] = i
		}
		f(&in.Pods[i])
	}
	type ref struct{ n, p int }
	var all []ref
	for i := range in.Scn.Nodes {
		for j := range in.Scn.Nodes[i].Pods {
			p := &in.Scn.Nodes[i].Pods[j]
			if p.Daemon {
				continue
			}
			if pe, ok := idx[p.Name]; ok && (in.Pods[pe].Phase == "Succeeded" || in.Pods[pe].Phase == "Failed") {
				continue
			}
			all = append(all, ref{i, j})
			switch x := r.Float64(); {
			case x < 0.07:
				set(p.Name, func(pe *PodExt) { pe.Phase = "Pending" })
			case x < 0.13:
				set(p.Name, func(pe *PodExt) { pe.NotReady = true })
			case x < 0.15:
				set(p.Name, func(pe *PodExt) { pe.Phase, pe.NotReady = "Pending", true })
			}
		}
	}
	if len(all) > 0 && r.Float64() < 0.10 {
		t := all[r.IntN(len(all))]
		p := &in.Scn.Nodes[t.n].Pods[t.p]
		labels := map[string]string{}
		for k, v := range p.Labels {
			labels[k] = v
		}
		labels["app"] = "u"
		p.Labels = labels
		if r.Float64() < 0.8 {
			set(p.Name, func(pe *PodExt) { pe.NotReady = true })
		}
		pe := PDBExt{App: "u", Blocking: r.Float64() < 0.8, Policy: pick(r, "AlwaysAllow", "AlwaysAllow", "AlwaysAllow", "IfHealthyBudget", "")}
		if pe.Blocking {
			pe.Form = pick(r, "", "0%", "100%")
		} else {
			pe.Allowed = int32(r.IntN(2))
		}
		in.PDBs = append(in.PDBs, pe)
	}
}

// genValidate: a run whose cluster changes while the method waits to validate its command.
func genValidate(r *rand.Rand, t core.Tier) any {
	method := pick(r, "single", "single", "multi")
	in := genRun(method)(r, t).(RunIn)
	in.Pick = []string{}
	in.Budget = 100
	s := &in.Scn
	if len(s.Nodes) == 0 {
		return in
	}
	itOf := map[string]world.IT{}
	for _, it := range s.ITs {
		itOf[it.Name] = it
	}
	room := func(n world.Node) int64 {
		it := itOf[n.IT]
		var used int64
		for _, p := range n.Pods {
			used += p.CPU
		}
		for _, d := range s.DaemonSets {
			used += d.CPU
		}
		return it.CPU - it.Overhead - used
	}
	switch x := r.Float64(); {
	case x < 0.45:
		// a pod lands on a node (often filling it up): pods that were to move there must go elsewhere
		n := s.Nodes[r.IntN(len(s.Nodes))]
		free := room(n)
		cpu := free
		if r.Float64() < 0.4 {
			cpu = free - int64(r.IntN(4))*100
		}
		if cpu < 100 {
			cpu = 100
		}
		in.Churn = &Churn{Kind: "bound", Node: n.Name, Pod: &world.Pod{Name: "churn-pod", Labels: map[string]string{"app": "z"}, CPU: cpu, Mem: 64}}
		if n.Stage == "claim" {
			in.Churn = nil
		}
	case x < 0.65:
		p := &world.Pod{Name: "churn-pod", Labels: map[string]string{"app": "z"}, CPU: int64(100 * (1 + r.IntN(40))), Mem: 128}
		if r.Float64() < 0.3 {
			p.NodeSelector = map[string]string{zoneKey: pick(r, zones...)}
		}
		in.Churn = &Churn{Kind: "pod", Pod: p}
	case x < 0.85:
		// the cheapest instance types go out of stock
		byPrice := append([]world.IT{}, s.ITs...)
		sort.SliceStable(byPrice, func(i, j int) bool { return maxPrice(byPrice[i]) < maxPrice(byPrice[j]) })
		in.Churn = &Churn{Kind: "unavail", IT: byPrice[r.IntN(min(len(byPrice), 4))].Name}
	default:
		n := s.Nodes[r.IntN(len(s.Nodes))]
		if n.Pool != "" {
			in.Churn = &Churn{Kind: "delnode", Node: n.Name}
		}
	}
	return in
}

// genValidateTighten: the shapes in which the re-simulation after a cluster change moves a CONSTRAINED pod from an
// existing node onto the replacement, so that the re-simulated NodeClaim carries a requirement the command's
// replacement may lack.  Candidate(s) A (zone zA, on-demand) host free pods and one pod `pinned`; node B (zone zA, same
// capacity type) has room for `pinned` only; while the command waits, B fills up (or, as a control, only partly).
//
//	pin         what `pinned` asks for                      the re-simulated claim gains
//	zone        nodeSelector zone = zA                      zone In [zA]
//	zone2       required zone In [zA, zX]                   zone In [zA, zX]
//	zone-notin  required zone NotIn [cheap zone]            zone NotIn / In [the others]
//	ct          nodeSelector capacity-type = on-demand      capacity-type In [on-demand]   (the command is pinned to spot
//	                                                        when the pool allows both)
//	ct-notin    required capacity-type NotIn [spot]         capacity-type In [on-demand]
//	it          required instance-type In [small, mid, big] an instance-type requirement (a key other than zone / capacity type)
//	none        nothing                                     nothing (control: the command must be released)
//
// `freePinned`: the free pods ask for zone zA themselves, so the command's replacement already carries the zone (control for
// the zone pins: nothing is gained, the command must be released).
func genValidateTighten(r *rand.Rand, t core.Tier) any {
	zA := pick(r, "z2", "z3")
	cheapZone := "z1"
	pin := pick(r, "zone", "zone", "zone2", "zone-notin", "ct", "ct", "ct-notin", "it", "none")
	// the pool allows spot and on-demand: computeConsolidation pins the replacement to spot (more often for the
	// capacity-type pins: with an on-demand-only pool the command carries `on-demand` already and nothing is gained)
	bothCT := r.Float64() < 0.5
	if pin == "ct" || pin == "ct-notin" {
		bothCT = r.Float64() < 0.8
	}
	mkIT := func(name string, cpu, mem, pods, od int64) world.IT {
		it := world.IT{Name: name, CPU: cpu, Mem: mem, Pods: pods, Arch: "amd64", OS: []string{"linux"}}
		for _, z := range zones {
			p := od
			if z == cheapZone {
				p = od*6/10 + int64(r.IntN(3))*8
			}
			it.Offerings = append(it.Offerings, world.Offering{Zone: z, CapacityType: "on-demand", Price: p, Available: true})
			if bothCT {
				it.Offerings = append(it.Offerings, world.Offering{Zone: z, CapacityType: "spot", Price: p * 4 / 10, Available: true})
			}
		}
		return it
	}
	small := mkIT("it-small", 2000, 8000, 16, 100)
	mid := mkIT("it-mid", 4000, 16000, 30, 220)
	big := mkIT("it-big", 8000, 32000, 30, 640)
	pools := []world.NodePool{{Name: "pool-0", Labels: map[string]string{}}}
	if !bothCT {
		pools[0].Reqs = []world.MinExpr{{Key: ctKey, Op: "In", Values: []string{"on-demand"}}}
	}
	multi := r.Float64() < 0.3
	freePinned := r.Float64() < 0.2
	cpuPinned := int64(100 * (2 + r.IntN(4)))
	pinned := world.Pod{Name: "pinned", Labels: map[string]string{"app": "b"}, CPU: cpuPinned, Mem: 64}
	switch pin {
	case "zone":
		pinned.NodeSelector = map[string]string{zoneKey: zA}
	case "zone2":
		zX := pick(r, zones...)
		pinned.Required = [][]world.KExpr{{{Key: zoneKey, Op: "In", Values: []string{zA, zX}}}}
	case "zone-notin":
		pinned.Required = [][]world.KExpr{{{Key: zoneKey, Op: "NotIn", Values: []string{cheapZone}}}}
	case "ct":
		pinned.NodeSelector = map[string]string{ctKey: "on-demand"}
	case "ct-notin":
		pinned.Required = [][]world.KExpr{{{Key: ctKey, Op: "NotIn", Values: []string{"spot"}}}}
	case "it":
		pinned.Required = [][]world.KExpr{{{Key: itKey, Op: "In", Values: []string{"it-small", "it-mid", "it-big"}}}}
	}
	world.FixExprs(&pinned)
	free := func(name string, cpu int64) world.Pod {
		p := world.Pod{Name: name, Labels: map[string]string{"app": "a"}, CPU: cpu, Mem: 64}
		if freePinned {
			p.NodeSelector = map[string]string{zoneKey: zA}
		}
		return p
	}
	var nodes []world.Node
	var picked []string
	if multi {
		// two candidates whose free pods together need it-mid; it-big (their own type) is removed by the same-type filter
		for i := 0; i < 2; i++ {
			n := world.Node{Name: fmt.Sprintf("node-a%d", i), Pool: "pool-0", IT: "it-big", Zone: zA, CapacityType: "on-demand", Labels: map[string]string{}, Stage: "initialized",
				Pods: []world.Pod{free(fmt.Sprintf("free-%d", i), 1100+int64(r.IntN(3))*100)}}
			if i == 0 {
				n.Pods = append(n.Pods, pinned)
			}
			nodes = append(nodes, n)
			picked = append(picked, n.Name)
		}
	} else {
		a := world.Node{Name: "node-a", Pool: "pool-0", IT: "it-big", Zone: zA, CapacityType: "on-demand", Labels: map[string]string{}, Stage: "initialized",
			Pods: []world.Pod{free("free", 900+int64(r.IntN(3))*100), pinned}}
		nodes = append(nodes, a)
		picked = []string{"node-a"}
	}
	// B: small on-demand node in zA with room for `pinned` only
	b := world.Node{Name: "node-b", Pool: "pool-0", IT: "it-small", Zone: zA, CapacityType: "on-demand", Labels: map[string]string{}, Stage: "initialized",
		Pods: []world.Pod{{Name: "resident", Labels: map[string]string{"app": "c"}, CPU: 2000 - cpuPinned - 100 - int64(r.IntN(2))*100, Mem: 64}}}
	nodes = append(nodes, b)
	method := "single"
	if multi {
		method = "multi"
	}
	in := RunIn{Method: method, SpotToSpot: r.Float64() < 0.5, Pools: defaultPoolExt(pools), Pods: []PodExt{}, Nodes: []NodeExt{}, PDBs: []PDBExt{}, Budget: 100, Pick: picked}
	in.Scn = world.Scenario{ITs: []world.IT{small, mid, big}, Pools: pools, Nodes: nodes, DaemonSets: []world.DaemonSet{}, Pods: []world.Pod{}, Parallelism: 1}
	churnCPU := cpuPinned // fills B: `pinned` must go to the replacement
	if r.Float64() < 0.15 {
		churnCPU = 100 // control: B keeps room for `pinned`, nothing changes for the command
	}
	in.Churn = &Churn{Kind: "bound", Node: "node-b", Pod: &world.Pod{Name: "churn-pod", Labels: map[string]string{"app": "z"}, CPU: churnCPU, Mem: 64}}
	return in
}

// genValidateZone: the shape of the repaired finding C06-validation-stale-replacement-requirements (kept as it was
// found; genValidateTighten generalises it): a re-simulation moves a zone-bound pod from an existing node onto the replacement:
// candidate A (zone zA) hosts a free pod and a pod pinned to zA; node B in zA has room for the pinned pod only;
// while the command waits, B fills up.
func genValidateZone(r *rand.Rand, t core.Tier) any {
	zA := pick(r, "z2", "z3")
	cheapZone := "z1"
	small := world.IT{Name: "it-small", CPU: 2000, Mem: 8000, Pods: 16, Arch: "amd64", OS: []string{"linux"}}
	for _, z := range zones {
		p := int64(100)
		if z == cheapZone {
			p = 60 + int64(r.IntN(3))*8
		}
		small.Offerings = append(small.Offerings, world.Offering{Zone: z, CapacityType: "on-demand", Price: p, Available: true})
	}
	big := world.IT{Name: "it-big", CPU: 8000, Mem: 32000, Pods: 30, Arch: "amd64", OS: []string{"linux"}}
	for _, z := range zones {
		big.Offerings = append(big.Offerings, world.Offering{Zone: z, CapacityType: "on-demand", Price: 640, Available: true})
	}
	pools := []world.NodePool{{Name: "pool-0", Labels: map[string]string{}, Reqs: []world.MinExpr{{Key: ctKey, Op: "In", Values: []string{"on-demand"}}}}}
	cpuPinned := int64(100 * (2 + r.IntN(4)))
	a := world.Node{Name: "node-a", Pool: "pool-0", IT: "it-big", Zone: zA, CapacityType: "on-demand", Labels: map[string]string{}, Stage: "initialized",
		Pods: []world.Pod{
			{Name: "free", Labels: map[string]string{"app": "a"}, CPU: 900 + int64(r.IntN(3))*100, Mem: 64},
			{Name: "pinned", Labels: map[string]string{"app": "b"}, CPU: cpuPinned, Mem: 64, NodeSelector: map[string]string{zoneKey: zA}},
		}}
	// B: small node in zA with room for `pinned` only
	b := world.Node{Name: "node-b", Pool: "pool-0", IT: "it-small", Zone: zA, CapacityType: "on-demand", Labels: map[string]string{}, Stage: "initialized",
		Pods: []world.Pod{{Name: "resident", Labels: map[string]string{"app": "c"}, CPU: 2000 - cpuPinned - 100 - int64(r.IntN(2))*100, Mem: 64}}}
	in := RunIn{Method: "single", SpotToSpot: false, Pools: defaultPoolExt(pools), Pods: []PodExt{}, Nodes: []NodeExt{}, Budget: 100, Pick: []string{"node-a"}}
	in.Scn = world.Scenario{ITs: []world.IT{small, big}, Pools: pools, Nodes: []world.Node{a, b}, DaemonSets: []world.DaemonSet{}, Pods: []world.Pod{}, Parallelism: 1}
	in.Churn = &Churn{Kind: "bound", Node: "node-b", Pod: &world.Pod{Name: "churn-pod", Labels: map[string]string{"app": "z"}, CPU: cpuPinned, Mem: 64}}
	if r.Float64() < 0.2 {
		in.Churn = nil
	}
	return in
}

// genTables draws per-NodePool price tables: each NodePool (with probability rate) sees the catalog through a price
// adjustment in percent — on every type, on the offerings of one capacity type, or on a random half of the types (the
// shapes of a NodeOverlay selecting karpenter.sh/nodepool together with capacity type / instance type, or of a provider
// pricing a committed-use NodePool).  Only prices differ: names, resources, offerings and their order are the catalog's.
func genTables(r *rand.Rand, its []world.IT, pools []world.NodePool, rate float64) []PoolTable {
	var out []PoolTable
	for _, p := range pools {
		if r.Float64() >= rate {
			continue
		}
		pct := int64(pick(r, 20, 25, 40, 50, 60, 75, 90, 100, 110, 125, 150, 200))
		shape := pick(r, "all", "all", "ct", "half")
		ct := pick(r, "spot", "on-demand")
		t := PoolTable{Pool: p.Name}
		for _, it := range its {
			c := it
			c.Offerings = append([]world.Offering{}, it.Offerings...)
			hit := shape != "half" || r.Float64() < 0.5
			for i := range c.Offerings {
				if !hit || (shape == "ct" && c.Offerings[i].CapacityType != ct) || c.Offerings[i].CapacityType == "reserved" {
					continue
				}
				c.Offerings[i].Price = c.Offerings[i].Price * pct / 100
			}
			t.ITs = append(t.ITs, c)
		}
		out = append(out, t)
	}
	return out
}

// genOverlayRun: two or three NodePools (same NodeClass) with their own price tables, oversized nodes spread over them.
// The distribution is stated by the labels tables=<n>, cand-priced-by-own-table (a candidate of the command whose price in
// its own NodePool's table differs from the catalog's) and repl-pool-differs (the replacement is requested from another
// NodePool than some candidate's).
func genOverlayRun(r *rand.Rand, method string) RunIn {
	its := genCatalog(r, r.Float64() < 0.15, false)
	np := 2 + r.IntN(2)
	var pools []world.NodePool
	for i := 0; i < np; i++ {
		p := world.NodePool{Name: fmt.Sprintf("pool-%d", i), Labels: map[string]string{}}
		if r.Float64() < 0.4 {
			p.Weight = int32(1 + r.IntN(50))
		}
		switch x := r.Float64(); {
		case x < 0.15:
			p.Reqs = append(p.Reqs, world.MinExpr{Key: ctKey, Op: "In", Values: []string{"on-demand"}})
		case x < 0.25:
			p.Reqs = append(p.Reqs, world.MinExpr{Key: ctKey, Op: "In", Values: []string{"spot"}})
		}
		if r.Float64() < 0.2 {
			p.Labels["team"] = pick(r, "red", "blue")
		}
		pools = append(pools, p)
	}
	n := 1 + r.IntN(3)
	if method == "multi" {
		n = 2 + r.IntN(3)
	}
	nodes, podExt, nodeExt := genCluster(r, its, pools, clusterOpts{nodes: n, oversized: 0.75, full: 0.2, decoy: 0.05, costRate: 0.02, constrain: 0.3, spot: 0.35})
	in := RunIn{Method: method, SpotToSpot: r.Float64() < 0.6, Budget: 100, Pick: []string{}, Pools: defaultPoolExt(pools), Pods: podExt, Nodes: nodeExt, PDBs: []PDBExt{}}
	in.Tables = genTables(r, its, pools, 0.75)
	in.Scn = world.Scenario{ITs: its, Pools: pools, Nodes: nodes, DaemonSets: []world.DaemonSet{}, Pods: []world.Pod{}, Parallelism: 1}
	if in.Pods == nil {
		in.Pods = []PodExt{}
	}
	if in.Nodes == nil {
		in.Nodes = []NodeExt{}
	}
	if method == "single" && r.Float64() < 0.35 {
		in.Pick = []string{nodes[r.IntN(len(nodes))].Name}
	}
	return in
}

// genCapRun: a catalog with MORE compatible instance types than the launch cap (scheduling.MaxInstanceTypes, set per run:
// RunIn.MaxITs) and a NodePool with minValues, so that truncating a new NodeClaim to the cheapest `cap` types may leave
// fewer distinct values than minValues asks for (Results.TruncateInstanceTypes then drops the NodeClaim and must report
// its pods as unschedulable).  Shapes: the cheap types all of one architecture and a few dearer ones of the other (arch
// minValues 2), instance-type minValues around the cap, zone minValues; controls without minValues, with the BestEffort
// policy, and with a cap above the catalog size.  The candidates' pods fit nowhere but on a new node (or, as a control,
// on a roomy neighbour).
func genCapRun(r *rand.Rand, method string) RunIn {
	n := 5 + r.IntN(8)
	cap := 2 + r.IntN(5)
	if r.Float64() < 0.12 {
		cap = n + 1 + r.IntN(3) // control: nothing is cut
	}
	shape := pick(r, "arch", "arch", "arch", "it", "it", "zone", "none")
	nArm := 1 + r.IntN(3)
	var its []world.IT
	names := []string{}
	for i := 0; i < n; i++ {
		cpu := int64(pick(r, 2000, 2000, 4000))
		it := world.IT{Name: fmt.Sprintf("it-%02d", i), CPU: cpu, Mem: cpu * 4, Pods: 16, Arch: "amd64", OS: []string{"linux"}}
		price := int64(40 + 6*i + r.IntN(3)*2)
		switch {
		case shape == "arch" && i >= n-nArm:
			it.Arch = "arm64" // the dear end of the catalog
		case shape != "arch" && r.Float64() < 0.3:
			it.Arch = "arm64"
		}
		zs := zones
		if shape == "zone" && i < n-2 {
			zs = zones[:1] // the cheap types are sold in one zone only
		}
		for _, z := range zs {
			it.Offerings = append(it.Offerings, world.Offering{Zone: z, CapacityType: "on-demand", Price: price, Available: true})
			if r.Float64() < 0.4 {
				it.Offerings = append(it.Offerings, world.Offering{Zone: z, CapacityType: "spot", Price: price * 6 / 10, Available: r.Float64() < 0.9})
			}
		}
		its = append(its, it)
		names = append(names, it.Name)
	}
	dear := world.IT{Name: "it-dear", CPU: 16000, Mem: 64000, Pods: 30, Arch: "amd64", OS: []string{"linux"}}
	for _, z := range zones {
		dear.Offerings = append(dear.Offerings, world.Offering{Zone: z, CapacityType: "on-demand", Price: 2000, Available: true})
	}
	its = append(its, dear)
	names = append(names, dear.Name)
	pool := world.NodePool{Name: "pool-0", Labels: map[string]string{}}
	switch shape {
	case "arch":
		mv := 2
		pool.Reqs = append(pool.Reqs, world.MinExpr{Key: "kubernetes.io/arch", Op: "In", Values: []string{"amd64", "arm64"}, MinValues: &mv})
	case "it":
		mv := max(1, cap-1+r.IntN(3))
		pool.Reqs = append(pool.Reqs, world.MinExpr{Key: itKey, Op: "In", Values: names, MinValues: &mv})
	case "zone":
		mv := 2 + r.IntN(2)
		pool.Reqs = append(pool.Reqs, world.MinExpr{Key: zoneKey, Op: "In", Values: zones, MinValues: &mv})
	}
	if r.Float64() < 0.2 {
		pool.Reqs = append(pool.Reqs, world.MinExpr{Key: ctKey, Op: "In", Values: []string{"on-demand"}})
	}
	pools := []world.NodePool{pool}
	k := 1 + r.IntN(2)
	if method == "multi" {
		k = 2 + r.IntN(2)
	}
	var nodes []world.Node
	for i := 0; i < k; i++ {
		nd := world.Node{Name: fmt.Sprintf("node-%d", i), Pool: "pool-0", IT: "it-dear", Zone: pick(r, zones...), CapacityType: "on-demand", Labels: map[string]string{}, Stage: "initialized"}
		for j := 0; j <= r.IntN(2); j++ {
			nd.Pods = append(nd.Pods, world.Pod{Name: fmt.Sprintf("bound-%d-%d", i, j), Labels: map[string]string{"app": pick(r, "a", "b")}, CPU: int64(100 * (2 + r.IntN(5))), Mem: 64})
		}
		nodes = append(nodes, nd)
	}
	if r.Float64() < 0.2 {
		// control: a neighbour with room (a delete is then in order)
		nodes = append(nodes, world.Node{Name: "node-roomy", Pool: "pool-0", IT: "it-dear", Zone: "z1", CapacityType: "on-demand", Labels: map[string]string{}, Stage: "initialized",
			Pods: []world.Pod{{Name: "resident", Labels: map[string]string{"app": "c"}, CPU: 12000, Mem: 64}}})
	}
	in := RunIn{Method: method, SpotToSpot: r.Float64() < 0.5, Budget: 100, Pick: []string{}, Pools: defaultPoolExt(pools), Pods: []PodExt{}, Nodes: []NodeExt{}, PDBs: []PDBExt{}, MaxITs: cap}
	in.Scn = world.Scenario{ITs: its, Pools: pools, Nodes: nodes, DaemonSets: []world.DaemonSet{}, Pods: []world.Pod{}, Parallelism: 1, BestEffortMinVal: r.Float64() < 0.15}
	if r.Float64() < 0.15 {
		in.Scn.Pods = append(in.Scn.Pods, world.Pod{Name: "pend-0", Labels: map[string]string{"app": "p"}, CPU: int64(100 * (1 + r.IntN(10))), Mem: 64})
	}
	return in
}

// overlayAdjusts: relative and absolute price adjustments whose result stays on the 1/1024 price grid for catalog prices
// that are multiples of 16/1024 (so that float64 and integer arithmetic agree exactly): percent, price × num / den; amounts, ± delta/1024.
var overlayAdjusts = []struct {
	s             string
	num, den, add int64
}{{"-25%", 3, 4, 0}, {"-50%", 1, 2, 0}, {"-75%", 1, 4, 0}, {"+50%", 3, 2, 0}, {"+100%", 2, 1, 0}, {"+25%", 5, 4, 0},
	{"+0.125", 1, 1, 128}, {"-0.0625", 1, 1, -64}, {"-0.25", 1, 1, -256}}

// genNodeOverlayRun: like genOverlayRun, but the per-NodePool prices come from real NodeOverlay objects (one per NodePool,
// selecting karpenter.sh/nodepool and optionally a capacity type or a set of instance types; mostly RELATIVE
// priceAdjustments, sometimes an absolute price) evaluated by the real nodeoverlay controller and served by overlay.Decorate
// on every GetInstanceTypes call — the disruption pass makes several (GetCandidates/BuildNodePoolMap, each scheduling
// simulation, validation).  Tables = the catalog with each overlay applied exactly once.
func genNodeOverlayRun(r *rand.Rand, method string) RunIn {
	in := genOverlayRun(r, method)
	its := in.Scn.ITs
	for i := range its {
		for j := range its[i].Offerings {
			its[i].Offerings[j].Price = (its[i].Offerings[j].Price + 15) / 16 * 16
		}
	}
	in.Tables = nil
	for _, p := range in.Scn.Pools {
		if r.Float64() < 0.2 {
			continue
		}
		ov := OverlayExt{Name: "ov-" + p.Name, Pool: p.Name, Weight: int32(r.IntN(3))}
		switch x := r.Float64(); {
		case x < 0.25:
			ov.CT = pick(r, "spot", "on-demand")
		case x < 0.45:
			for _, it := range its {
				if r.Float64() < 0.5 {
					ov.ITs = append(ov.ITs, it.Name)
				}
			}
		}
		num, den, add, abs := int64(1), int64(1), int64(0), int64(-1)
		if r.Float64() < 0.15 {
			ov.Price, abs = pick(r, "0.25", "0.5"), 0
			abs = map[string]int64{"0.25": 256, "0.5": 512}[ov.Price]
		} else {
			a := overlayAdjusts[r.IntN(len(overlayAdjusts))]
			ov.Adjust, num, den, add = a.s, a.num, a.den, a.add
		}
		in.Overlays = append(in.Overlays, ov)
		t := PoolTable{Pool: p.Name}
		for _, it := range its {
			c := it
			c.Offerings = append([]world.Offering{}, it.Offerings...)
			hitIT := len(ov.ITs) == 0
			for _, n := range ov.ITs {
				if n == it.Name {
					hitIT = true
				}
			}
			if ov.CT != "" {
				// an overlay selects an instance type by the type's OWN requirements, and a provider lists there the capacity
				// types it can currently sell (world.BuildIT: those of the available offerings): a type with no available
				// offering of the capacity type is not selected at all
				sells := false
				for _, o := range c.Offerings {
					if o.CapacityType == ov.CT && o.Available {
						sells = true
					}
				}
				hitIT = hitIT && sells
			}
			for k := range c.Offerings {
				if !hitIT || (ov.CT != "" && c.Offerings[k].CapacityType != ov.CT) {
					continue
				}
				if abs >= 0 {
					c.Offerings[k].Price = abs
				} else {
					c.Offerings[k].Price = max(0, c.Offerings[k].Price*num/den+add)
				}
			}
			t.ITs = append(t.ITs, c)
		}
		in.Tables = append(in.Tables, t)
	}
	return in
}
