package c06

import (
	"context"
	"encoding/json"
	"fmt"
	"math"
	"math/rand/v2"
	"strconv"

	corev1 "k8s.io/api/core/v1"
	"k8s.io/apimachinery/pkg/types"

	v1 "sigs.k8s.io/karpenter/pkg/apis/v1"
	"sigs.k8s.io/karpenter/pkg/cloudprovider"
	"sigs.k8s.io/karpenter/pkg/controllers/disruption"
	provsched "sigs.k8s.io/karpenter/pkg/controllers/provisioning/scheduling"
	"sigs.k8s.io/karpenter/pkg/scheduling"
	"sigs.k8s.io/karpenter/pkg/test"
	disruptionutils "sigs.k8s.io/karpenter/pkg/utils/disruption"

	"verifharness/internal/core"
	rg "verifharness/internal/reqgen"
	"verifharness/internal/world"
)

// ---- requirements as JSON: [{key, exprs:[{op, values, minValues}]}], each key = the intersection of its expressions ----

type KeyReq struct {
	Key   string    `json:"key"`
	Exprs []rg.Expr `json:"exprs"`
}

func buildReqs(krs []KeyReq) scheduling.Requirements {
	out := scheduling.NewRequirements()
	for _, kr := range krs {
		// one entry per key, exactly the intersection of the expressions (no Add: keys are distinct)
		r := rg.Build(kr.Key, kr.Exprs)
		out[r.Key] = r
	}
	return out
}

var ridKey = cloudprovider.ReservationIDLabel

func price1024(p float64) int64 {
	if p == math.MaxFloat64 {
		return -1
	}
	return int64(p * 1024)
}

// genKeyReqs draws requirements over the three offering keys (and sometimes a custom one).
func genKeyReqs(r *rand.Rand, withMin bool, itNames []string) []KeyReq {
	var out []KeyReq
	if r.Float64() < 0.6 {
		var es []rg.Expr
		n := 1 + r.IntN(2)
		for i := 0; i < n; i++ {
			switch r.IntN(6) {
			case 0, 1:
				vals := []string{}
				for _, c := range []string{"spot", "on-demand", "reserved"} {
					if r.Float64() < 0.5 {
						vals = append(vals, c)
					}
				}
				es = append(es, rg.Expr{Op: "In", Values: vals})
			case 2:
				es = append(es, rg.Expr{Op: "NotIn", Values: []string{pick(r, "spot", "on-demand", "reserved")}})
			case 3:
				es = append(es, rg.Expr{Op: "Exists", Values: []string{}})
			case 4:
				es = append(es, rg.Expr{Op: "In", Values: []string{pick(r, "spot", "on-demand", "reserved")}})
			default:
				es = append(es, rg.Expr{Op: pick(r, "DoesNotExist", "Gt"), Values: []string{"1"}})
				if es[len(es)-1].Op == "DoesNotExist" {
					es[len(es)-1].Values = []string{}
				}
			}
		}
		out = append(out, KeyReq{Key: ctKey, Exprs: es})
	}
	if r.Float64() < 0.5 {
		var vals []string
		for _, z := range zones {
			if r.Float64() < 0.6 {
				vals = append(vals, z)
			}
		}
		if vals == nil {
			vals = []string{}
		}
		e := rg.Expr{Op: pick(r, "In", "In", "NotIn"), Values: vals}
		if withMin && r.Float64() < 0.2 {
			mv := 1 + r.IntN(3)
			e.MinValues = &mv
		}
		out = append(out, KeyReq{Key: zoneKey, Exprs: []rg.Expr{e}})
	}
	if r.Float64() < 0.35 {
		switch r.IntN(5) {
		case 0:
			out = append(out, KeyReq{Key: ridKey, Exprs: []rg.Expr{{Op: "In", Values: []string{"r-0", pick(r, "r-1", "r-2")}}}})
		case 1:
			out = append(out, KeyReq{Key: ridKey, Exprs: []rg.Expr{{Op: "DoesNotExist", Values: []string{}}}})
		case 2:
			out = append(out, KeyReq{Key: ridKey, Exprs: []rg.Expr{{Op: "NotIn", Values: []string{pick(r, "r-0", "r-1")}}}})
		case 3:
			out = append(out, KeyReq{Key: ridKey, Exprs: []rg.Expr{{Op: "Exists", Values: []string{}}}})
		case 4:
			out = append(out, KeyReq{Key: ridKey, Exprs: []rg.Expr{{Op: "In", Values: []string{}}}})
		}
	}
	if withMin && len(itNames) > 0 && r.Float64() < 0.5 {
		mv := 1 + r.IntN(min(len(itNames), 5))
		if r.Float64() < 0.15 {
			mv = len(itNames) + 1
		}
		vals := []string{}
		for _, n := range itNames {
			if r.Float64() < 0.85 {
				vals = append(vals, n)
			}
		}
		out = append(out, KeyReq{Key: itKey, Exprs: []rg.Expr{{Op: pick(r, "In", "In", "Exists"), Values: vals, MinValues: &mv}}})
		if out[len(out)-1].Exprs[0].Op == "Exists" {
			out[len(out)-1].Exprs[0].Values = []string{}
		}
	}
	if withMin && r.Float64() < 0.15 {
		mv := 1 + r.IntN(2)
		out = append(out, KeyReq{Key: "kubernetes.io/arch", Exprs: []rg.Expr{{Op: "Exists", Values: []string{}, MinValues: &mv}}})
	}
	if r.Float64() < 0.1 {
		out = append(out, KeyReq{Key: "team", Exprs: []rg.Expr{{Op: "In", Values: []string{"red"}}}})
	}
	if out == nil {
		out = []KeyReq{}
	}
	return out
}

func genOfferings(r *rand.Rand) []world.Offering {
	n := r.IntN(8)
	ofs := []world.Offering{}
	for i := 0; i < n; i++ {
		o := world.Offering{Zone: pick(r, zones...), CapacityType: pick(r, "spot", "on-demand", "reserved", "spot", "on-demand"), Price: int64(r.IntN(12)) * 32, Available: r.Float64() < 0.8}
		if o.CapacityType == "reserved" {
			o.ReservationID = fmt.Sprintf("r-%d", r.IntN(3))
			o.ReservationN = 1 + r.IntN(2)
		}
		ofs = append(ofs, o)
	}
	return ofs
}

// ---- c06.worst ----

type WorstIn struct {
	Offerings []world.Offering `json:"offerings"`
	Reqs      []KeyReq         `json:"reqs"`
}

func offeringsOf(ofs []world.Offering) cloudprovider.Offerings {
	it := world.BuildIT(world.IT{Name: "x", CPU: 1000, Mem: 1000, Pods: 10, Offerings: ofs})
	return it.Offerings
}

func implWorst(raw json.RawMessage) (any, error) {
	var in WorstIn
	if err := json.Unmarshal(raw, &in); err != nil {
		return nil, err
	}
	ofs := offeringsOf(in.Offerings)
	reqs := buildReqs(in.Reqs)
	compat := []bool{}
	for _, o := range ofs {
		compat = append(compat, len(cloudprovider.Offerings{o}.Compatible(reqs)) == 1)
	}
	out := map[string]any{
		"compat":         compat,
		"worst":          price1024(ofs.WorstLaunchPrice(reqs)),
		"worstAvailable": price1024(ofs.Available().WorstLaunchPrice(reqs)),
		"cheapest":       int64(-1),
		"dearest":        int64(-1),
	}
	if c := ofs.Compatible(reqs); len(c) > 0 {
		out["cheapest"] = price1024(c.Cheapest().Price)
		out["dearest"] = price1024(c.MostExpensive().Price)
	}
	return out, nil
}

func genWorst(r *rand.Rand, t core.Tier) any {
	return WorstIn{Offerings: genOfferings(r), Reqs: genKeyReqs(r, false, nil)}
}

// enumWorst: every subset of a six-offering universe (reserved / spot / on-demand, two zones, available or not,
// price ties) against every requirement shape on the capacity-type key (and two zone shapes).
func enumWorst(t core.Tier) []any {
	universe := []world.Offering{
		{Zone: "z1", CapacityType: "reserved", Price: 32, Available: true, ReservationID: "r-0", ReservationN: 1},
		{Zone: "z2", CapacityType: "reserved", Price: 16, Available: false, ReservationID: "r-1", ReservationN: 1},
		{Zone: "z1", CapacityType: "spot", Price: 64, Available: true},
		{Zone: "z2", CapacityType: "spot", Price: 128, Available: false},
		{Zone: "z1", CapacityType: "on-demand", Price: 128, Available: true},
		{Zone: "z2", CapacityType: "on-demand", Price: 64, Available: true},
	}
	ctShapes := [][]rg.Expr{
		nil,
		{{Op: "In", Values: []string{"spot"}}},
		{{Op: "In", Values: []string{"on-demand"}}},
		{{Op: "In", Values: []string{"reserved"}}},
		{{Op: "In", Values: []string{"spot", "on-demand"}}},
		{{Op: "In", Values: []string{"reserved", "on-demand"}}},
		{{Op: "In", Values: []string{"reserved", "spot", "on-demand"}}},
		{{Op: "NotIn", Values: []string{"spot"}}},
		{{Op: "NotIn", Values: []string{"reserved"}}},
		{{Op: "Exists", Values: []string{}}},
		{{Op: "DoesNotExist", Values: []string{}}},
		{{Op: "In", Values: []string{}}},
		{{Op: "In", Values: []string{"spot"}}, {Op: "NotIn", Values: []string{"spot"}}},
	}
	zoneShapes := [][]rg.Expr{nil, {{Op: "In", Values: []string{"z1"}}}, {{Op: "NotIn", Values: []string{"z1"}}}}
	ridShapes := [][]rg.Expr{nil, {{Op: "In", Values: []string{"r-0"}}}, {{Op: "DoesNotExist", Values: []string{}}}}
	var out []any
	for mask := 0; mask < 1<<len(universe); mask++ {
		ofs := []world.Offering{}
		for i, o := range universe {
			if mask&(1<<i) != 0 {
				ofs = append(ofs, o)
			}
		}
		for _, ct := range ctShapes {
			for zi, z := range zoneShapes {
				for ri, rid := range ridShapes {
					if zi != 0 && ri != 0 {
						continue // zone and reservation-id shapes one at a time
					}
					reqs := []KeyReq{}
					if ct != nil {
						reqs = append(reqs, KeyReq{Key: ctKey, Exprs: ct})
					}
					if z != nil {
						reqs = append(reqs, KeyReq{Key: zoneKey, Exprs: z})
					}
					if rid != nil {
						reqs = append(reqs, KeyReq{Key: ridKey, Exprs: rid})
					}
					out = append(out, WorstIn{Offerings: ofs, Reqs: reqs})
				}
			}
		}
	}
	return out
}

// ---- c06.remove ----

type RemoveIn struct {
	ITs      []world.IT `json:"its"`
	Reqs     []KeyReq   `json:"reqs"`
	MaxPrice int64      `json:"maxPrice"` // × 1024; -1 = math.MaxFloat64
}

func implRemove(raw json.RawMessage) (any, error) {
	var in RemoveIn
	if err := json.Unmarshal(raw, &in); err != nil {
		return nil, err
	}
	var its []*cloudprovider.InstanceType
	for _, it := range in.ITs {
		its = append(its, world.BuildIT(it))
	}
	reqs := buildReqs(in.Reqs)
	nc := &provsched.NodeClaim{NodeClaimTemplate: provsched.NodeClaimTemplate{InstanceTypeOptions: its, Requirements: reqs}}
	mp := math.MaxFloat64
	if in.MaxPrice >= 0 {
		mp = float64(in.MaxPrice) / 1024.0
	}
	// InstanceTypes.SatisfiesMinValues on the whole option list: how many (price-ordered) options are needed to meet every floor
	needed, _, nerr := cloudprovider.InstanceTypes(its).SatisfiesMinValues(reqs)
	res, err := nc.RemoveInstanceTypeOptionsByPriceAndMinValues(reqs, mp)
	if err != nil {
		return map[string]any{"err": true, "kept": []string{}, "needed": needed, "neededErr": nerr != nil}, nil
	}
	kept := []string{}
	for _, it := range res.InstanceTypeOptions {
		kept = append(kept, it.Name)
	}
	return map[string]any{"err": false, "kept": kept, "needed": needed, "neededErr": nerr != nil}, nil
}

func genRemove(r *rand.Rand, t core.Tier) any {
	n := r.IntN(7)
	in := RemoveIn{ITs: []world.IT{}}
	names := []string{}
	for i := 0; i < n; i++ {
		it := world.IT{Name: fmt.Sprintf("it-%d", i), CPU: 1000, Mem: 1000, Pods: 10, Arch: pick(r, "amd64", "amd64", "arm64"), OS: []string{"linux"}, Offerings: genOfferings(r)}
		in.ITs = append(in.ITs, it)
		names = append(names, it.Name)
	}
	in.Reqs = genKeyReqs(r, true, names)
	in.MaxPrice = int64(r.IntN(13)) * 32
	if r.Float64() < 0.1 {
		in.MaxPrice = -1
	}
	// boundary: exactly an offering's price, one grid step above / below
	if r.Float64() < 0.4 && n > 0 {
		it := in.ITs[r.IntN(n)]
		if len(it.Offerings) > 0 {
			in.MaxPrice = max(0, it.Offerings[r.IntN(len(it.Offerings))].Price+int64(r.IntN(3))-1)
		}
	}
	return in
}

// ---- c06.isempty ----

type EmptyPod struct {
	// annotation text of controller.kubernetes.io/pod-deletion-cost, nil = absent
	DelCostRaw *string `json:"delCostRaw"`
	// the integer the annotation parses to (nil when absent or malformed: the code then ignores it)
	DelCost  *int64 `json:"delCost"`
	Priority *int32 `json:"priority"`
	Daemon   bool   `json:"daemon"`
	Phase    string `json:"phase"` // "" = Running
}

type EmptyIn struct {
	Pods []EmptyPod `json:"pods"`
}

func implIsEmpty(raw json.RawMessage) (any, error) {
	var in EmptyIn
	if err := json.Unmarshal(raw, &in); err != nil {
		return nil, err
	}
	scn := world.Scenario{
		ITs:   []world.IT{{Name: "it-0", CPU: 64000, Mem: 64000, Pods: 110, Offerings: []world.Offering{{Zone: "z1", CapacityType: "on-demand", Price: 1024, Available: true}}}},
		Pools: []world.NodePool{{Name: "pool-0"}},
		Nodes: []world.Node{{Name: "node-0", Pool: "pool-0", IT: "it-0", Zone: "z1", CapacityType: "on-demand", Stage: "initialized"}},
	}
	for i, p := range in.Pods {
		scn.Nodes[0].Pods = append(scn.Nodes[0].Pods, world.Pod{Name: fmt.Sprintf("p-%d", i), CPU: 10, Mem: 1, Daemon: p.Daemon, Labels: map[string]string{"app": "a"}})
	}
	zero := int64(0)
	rin := &RunIn{Scn: scn, Method: "empty", Pools: []PoolExt{{Name: "pool-0", Policy: "WhenEmptyOrUnderutilized", ConsolidateAfter: &zero}}}
	w, ctx, err := setup(rin)
	if err != nil {
		return nil, err
	}
	costs := []int64{}
	for i, p := range in.Pods {
		po := &corev1.Pod{}
		if err := w.Client.Get(ctx, types.NamespacedName{Namespace: "default", Name: fmt.Sprintf("p-%d", i)}, po); err != nil {
			return nil, err
		}
		if p.DelCostRaw != nil {
			po.Annotations = map[string]string{corev1.PodDeletionCost: *p.DelCostRaw}
		}
		if p.Priority != nil {
			pr := *p.Priority
			po.Spec.Priority = &pr
		}
		if err := w.Client.Update(ctx, po); err != nil {
			return nil, err
		}
		if p.Phase != "" {
			po.Status.Phase = corev1.PodPhase(p.Phase)
			if err := w.Client.Status().Update(ctx, po); err != nil {
				return nil, err
			}
		}
		if err := w.Cluster.UpdatePod(ctx, po); err != nil {
			return nil, err
		}
		costs = append(costs, int64(disruptionutils.EvictionCost(ctx, po)*float64(1<<27)))
	}
	m, q, _ := newMethod(w, "empty")
	// every candidate, whatever the method would say
	cs, err := disruption.GetCandidates(ctx, w.Cluster, w.Client, test.NewEventRecorder(), w.Clock, w.CP, func(_ context.Context, _ *disruption.Candidate) bool { return true }, disruption.GracefulDisruptionClass, q)
	if err != nil {
		return nil, err
	}
	_ = m
	out := map[string]any{"costs": costs, "candidate": len(cs) == 1}
	if len(cs) == 1 {
		out["empty"] = cs[0].IsEmpty()
	}
	return out, nil
}

// fracPairs: (pod-deletion-cost, priority) pairs whose eviction cost 1 + dc/2^27 + prio/2^25 is decided by the fractional
// part of dc/2^27: +0.255, +2^-27, +3*2^-27, exactly 0, +2^-27, -0.0098, +0.255 (negative cost), -0.49
var fracPairs = [][2]int64{{100000000, -50000000}, {1, -33554432}, {134217727, -67108863}, {67108864, -50331648}, {67108865, -50331648},
	{200000000, -83886080}, {-100000000, 0}, {-200000000, 0}, {33554433, -41943040}, {100663297, -58720256}}

func genIsEmpty(r *rand.Rand, t core.Tier) any {
	n := r.IntN(5)
	in := EmptyIn{Pods: []EmptyPod{}}
	for i := 0; i < n; i++ {
		p := EmptyPod{Daemon: r.Float64() < 0.15}
		if r.Float64() < 0.15 {
			p.Phase = pick(r, "Succeeded", "Failed")
		}
		if r.Float64() < 0.7 {
			v := pick(r, int64(-134217728), -134217727, -134217729, 0, 1, -1, -2147483647, 2147483647, -268435456, -1342177280, -1476395008, -1476395009, 1207959552, 1207959553, int64(r.IntN(1000))-500)
			s := strconv.FormatInt(v, 10)
			p.DelCostRaw, p.DelCost = &s, &v
			if r.Float64() < 0.08 {
				bad := pick(r, "abc", "", "1x", "--3")
				p.DelCostRaw, p.DelCost = &bad, nil
			}
		}
		if r.Float64() < 0.6 {
			v := pick(r, int32(-33554432), -33554431, -33554433, 0, 1, -1, -2147483648, 1000000000, -67108864, -369098752, 301989888, 301989889, int32(r.IntN(2000))-1000)
			p.Priority = &v
		}
		if r.Float64() < 0.25 {
			// a deletion cost that is NOT a multiple of 2^27 together with a very negative priority: the FRACTION of
			// deletionCost/2^27 decides the sign of the eviction cost
			fp := pick(r, fracPairs...)
			s := strconv.FormatInt(fp[0], 10)
			pr := int32(fp[1])
			p.DelCostRaw, p.DelCost, p.Priority = &s, &fp[0], &pr
		}
		in.Pods = append(in.Pods, p)
	}
	return in
}

var _ = v1.CapacityTypeSpot
