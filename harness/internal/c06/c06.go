// Package c06: correspondence ops for C06 (stub, not yet built).
package c06

import (
	"verifharness/internal/core"
	"verifharness/internal/registry"
)

func init() { registry.Register("C06", Ops) }

func Ops() []*core.Op { return nil }
