package c06

import (
	"encoding/json"
	"fmt"
	"math/rand/v2"
	"sort"
	"strings"

	"verifharness/internal/core"
	"verifharness/internal/registry"
	"verifharness/internal/world"
)

func init() { registry.Register("C06", Ops) }

func runLabels(raw json.RawMessage, impl any) []string {
	var in RunIn
	_ = json.Unmarshal(raw, &in)
	m, _ := impl.(map[string]any)
	l := []string{}
	el, _ := m["eligible"].([]any)
	l = append(l, fmt.Sprintf("eligible=%d", min(len(el), 4)))
	if e, _ := m["err"].(string); e != "" {
		l = append(l, "error")
	}
	cmd, _ := m["cmd"].(map[string]any)
	if cmd == nil {
		l = append(l, "no-command")
	} else {
		cs, _ := cmd["cands"].([]any)
		d, _ := cmd["decision"].(string)
		l = append(l, fmt.Sprintf("%s:cands=%d", d, min(len(cs), 4)))
		allSpot := len(cs) > 0
		for _, c := range cs {
			cm, _ := c.(map[string]any)
			if ct, _ := cm["ct"].(string); ct != "spot" {
				allSpot = false
			}
			if ct, _ := cm["ct"].(string); ct != "" {
				l = append(l, "cand-ct="+ct)
			}
		}
		rp, _ := cmd["repl"].([]any)
		for _, c := range rp {
			cm, _ := c.(map[string]any)
			its, _ := cm["its"].([]any)
			switch {
			case len(its) >= 15:
				l = append(l, "repl-options>=15")
			case len(its) > 1:
				l = append(l, "repl-options=2..14")
			default:
				l = append(l, fmt.Sprintf("repl-options=%d", len(its)))
			}
			if allSpot {
				l = append(l, "spot-to-spot")
			}
			reqs, _ := cm["reqs"].(map[string]any)
			if ct, ok := reqs[ctKey].(map[string]any); ok {
				vs, _ := ct["values"].([]any)
				if c, _ := ct["complement"].(bool); !c && len(vs) == 1 {
					l = append(l, fmt.Sprintf("repl-ct=%v", vs[0]))
				}
			}
		}
		res, _ := cmd["results"].(map[string]any)
		if ex, _ := res["existing"].([]any); len(ex) > 0 {
			l = append(l, "pods-moved-to-existing-nodes")
		}
	}
	if in.SpotToSpot {
		l = append(l, "gate:spot-to-spot")
	}
	l = append(l, lifeLabels(&in, cmd)...)
	for _, ov := range in.Overlays {
		switch {
		case ov.Price != "":
			l = append(l, "nodeoverlay:absolute-price")
		case strings.HasSuffix(ov.Adjust, "%"):
			l = append(l, "nodeoverlay:relative-adjustment(percent)")
		default:
			l = append(l, "nodeoverlay:relative-adjustment(amount)")
		}
	}
	if len(in.Tables) > 0 {
		l = append(l, fmt.Sprintf("pool-price-tables=%d", len(in.Tables)))
		l = append(l, tableLabels(&in, cmd)...)
	}
	if in.MaxITs > 0 {
		l = append(l, capLabels(&in, m)...)
	}
	if in.Scn.ReservedCapacity {
		l = append(l, "reserved-catalog")
	}
	if len(in.Pick) > 0 {
		l = append(l, "picked-candidate")
	}
	if len(in.PDBs) > 0 {
		l = append(l, "with-pdb")
	}
	for _, pe := range in.Pools {
		if pe.Policy == "Balanced" {
			l = append(l, "balanced-pool")
			break
		}
	}
	if c, _ := m["churned"].(bool); c && in.Churn != nil {
		l = append(l, "churn:"+in.Churn.Kind)
	}
	return l
}

// lifeLabels: pods of the removed nodes that are still starting / unhealthy, and budgets over them.
func lifeLabels(in *RunIn, cmd map[string]any) []string {
	var l []string
	for _, pe := range in.PDBs {
		if pe.Blocking {
			l = append(l, "pdb:fully-blocking:"+map[string]string{"": "maxUnavailable=0", "0%": "maxUnavailable=0%", "100%": "minAvailable=100%"}[pe.Form])
		}
		if pe.Policy != "" {
			l = append(l, "pdb:unhealthyPodEvictionPolicy="+pe.Policy)
		}
	}
	if cmd == nil {
		return l
	}
	ext := map[string]PodExt{}
	for _, pe := range in.Pods {
		ext[pe.Pod] = pe
	}
	removed := map[string]bool{}
	cs, _ := cmd["cands"].([]any)
	for _, c := range cs {
		name, _ := c.(map[string]any)["node"].(string)
		removed[name] = true
	}
	seen := map[string]bool{}
	for _, n := range in.Scn.Nodes {
		if !removed[n.Name] {
			continue
		}
		for _, p := range n.Pods {
			pe := ext[p.Name]
			if pe.Phase == "Pending" {
				seen["removed-node-hosts:starting-pod(phase=Pending)"] = true
			}
			if pe.NotReady {
				seen["removed-node-hosts:not-ready-pod"] = true
				for _, b := range in.PDBs {
					if b.App == p.Labels["app"] && b.Blocking && b.Policy == "AlwaysAllow" {
						seen["removed-node-hosts:not-ready-pod-under-fully-blocking-pdb(AlwaysAllow)"] = true
					}
				}
			}
		}
	}
	for k := range seen {
		l = append(l, k)
	}
	sort.Strings(l)
	return l
}

// tableLabels: how the per-NodePool price tables bear on the command.
func tableLabels(in *RunIn, cmd map[string]any) []string {
	if cmd == nil {
		return nil
	}
	var l []string
	poolOf := map[string]string{}
	for _, n := range in.Scn.Nodes {
		poolOf[n.Name] = n.Pool
	}
	price := func(its []world.IT, n world.Node) int64 {
		for _, it := range its {
			if it.Name != n.IT {
				continue
			}
			for _, o := range it.Offerings {
				if o.Zone == n.Zone && o.CapacityType == n.CapacityType {
					return o.Price
				}
			}
		}
		return 0
	}
	tbl := map[string][]world.IT{}
	for _, t := range in.Tables {
		tbl[t.Pool] = t.ITs
	}
	cs, _ := cmd["cands"].([]any)
	rp, _ := cmd["repl"].([]any)
	replPool := ""
	if len(rp) == 1 {
		replPool, _ = rp[0].(map[string]any)["pool"].(string)
	}
	own, differs := false, false
	for _, c := range cs {
		name, _ := c.(map[string]any)["node"].(string)
		for _, n := range in.Scn.Nodes {
			if n.Name != name {
				continue
			}
			if t, ok := tbl[n.Pool]; ok && price(t, n) != price(in.Scn.ITs, n) {
				own = true
			}
			if replPool != "" && replPool != n.Pool {
				differs = true
			}
		}
	}
	if own {
		l = append(l, "cand-priced-by-own-table")
	}
	if differs {
		l = append(l, "repl-pool-differs-from-cand-pool")
	}
	return l
}

// capLabels: what the launch cap did to the run's simulation (read off the harness's own re-simulation).
func capLabels(in *RunIn, m map[string]any) []string {
	l := []string{"launch-cap"}
	if in.MaxITs <= len(in.Scn.ITs) {
		l = append(l, "launch-cap<=catalog")
	}
	hasMin := false
	for _, p := range in.Scn.Pools {
		for _, e := range p.Reqs {
			if e.MinValues != nil {
				hasMin = true
			}
		}
	}
	if hasMin {
		l = append(l, "launch-cap:minValues-pool")
	}
	if sim, _ := m["sim"].(map[string]any); sim != nil {
		res, _ := sim["outcome"].(map[string]any)
		errs, _ := res["errors"].(map[string]any)
		for _, e := range errs {
			if s, _ := e.(string); s != "" {
				l = append(l, "launch-cap:sim-pod-error")
				break
			}
		}
		cl, _ := sim["claims"].([]any)
		for _, c := range cl {
			its, _ := c.(map[string]any)["its"].([]any)
			if len(its) == in.MaxITs {
				l = append(l, "launch-cap:claim-truncated-to-cap")
			}
		}
	}
	return l
}

// snapSubsetOn: by the set meaning, does every value the command's requirement on `key` admits (undefined = anything)
// satisfy the re-simulated requirement `r`?  (labels only: the verdicts are the real code's and the Lean model's)
func snapSubsetOn(cmdReqs map[string]any, key string, r map[string]any) bool {
	vals := func(m map[string]any) map[string]bool {
		out := map[string]bool{}
		vs, _ := m["values"].([]any)
		for _, v := range vs {
			out[fmt.Sprint(v)] = true
		}
		return out
	}
	rc, _ := r["complement"].(bool)
	rv := vals(r)
	l, ok := cmdReqs[key].(map[string]any)
	lc, lv := true, map[string]bool{}
	if ok {
		lc, _ = l["complement"].(bool)
		lv = vals(l)
	}
	switch {
	case lc && rc:
		for v := range rv {
			if !lv[v] {
				return false
			}
		}
		return true
	case lc && !rc:
		return false
	case !lc && rc:
		for v := range lv {
			if rv[v] {
				return false
			}
		}
		return true
	default:
		for v := range lv {
			if !rv[v] {
				return false
			}
		}
		return true
	}
}

// validateLabels: besides the run labels, for every case in which a command reached validation: the verdict, and how
// the re-simulated NodeClaim's requirements relate to the requirements of the command's replacement — the frequency
// with which the re-simulated claim GAINS a zone / capacity-type / other requirement is the frequency with which the
// requirements conjunct of validateCommand decides.
func validateLabels(raw json.RawMessage, impl any) []string {
	l := runLabels(raw, impl)
	m, _ := impl.(map[string]any)
	c, _ := m["churned"].(bool)
	if !c {
		return append(l, "no-command-reached-validation")
	}
	v, _ := m["verdict"].(string)
	l = append(l, "verdict:"+v)
	if m["cmd"] != nil {
		l = append(l, "released-after-churn")
	} else {
		l = append(l, "rejected-after-churn")
	}
	pre, _ := m["cmd"].(map[string]any)
	if pre == nil {
		pre, _ = m["pre"].(map[string]any)
		if pre == nil {
			return append(l, "rejected-command-not-recomputed")
		}
	}
	sim, _ := m["sim"].(map[string]any)
	if e, _ := sim["err"].(string); e != "" {
		return append(l, "resim:"+e)
	}
	claims, _ := sim["claims"].([]any)
	rp, _ := pre["repl"].([]any)
	if a, _ := sim["allScheduled"].(bool); !a {
		l = append(l, "resim:unscheduled-pods")
	}
	l = append(l, fmt.Sprintf("resim:claims=%d/cmd-replacements=%d", min(len(claims), 2), len(rp)))
	if len(claims) != 1 || len(rp) != 1 {
		return l
	}
	cmdC, _ := rp[0].(map[string]any)
	simC, _ := claims[0].(map[string]any)
	cmdReqs, _ := cmdC["reqs"].(map[string]any)
	simReqs, _ := simC["reqs"].(map[string]any)
	gained := false
	for k, rv := range simReqs {
		r, _ := rv.(map[string]any)
		if snapSubsetOn(cmdReqs, k, r) {
			continue
		}
		gained = true
		switch k {
		case zoneKey:
			l = append(l, "resim-claim-gains:zone")
		case ctKey:
			l = append(l, "resim-claim-gains:capacity-type")
		default:
			l = append(l, "resim-claim-gains:other-key")
		}
	}
	// the other way round: the command constrains a key more than the re-simulated claim does (typically the spot pin
	// of computeConsolidation against a claim that does not mention the capacity type)
	strict := false
	for k, cv := range cmdReqs {
		cl, _ := cv.(map[string]any)
		if c, _ := cl["complement"].(bool); c {
			if vs, _ := cl["values"].([]any); len(vs) == 0 {
				continue // `Exists`: no constraint on the values
			}
		}
		r, ok := simReqs[k].(map[string]any)
		if !ok || (!jsonSame(cl, r) && snapSubsetOn(cmdReqs, k, r)) {
			strict = true
			if k == ctKey {
				l = append(l, "command-capacity-type-strictly-tighter-than-resim")
			}
		}
	}
	if !gained {
		if strict {
			l = append(l, "resim-claim-gains:nothing(command-strictly-tighter)")
		} else {
			l = append(l, "resim-claim-gains:nothing(same-requirements)")
		}
	}
	// instance-type names
	names := map[string]bool{}
	sits, _ := simC["its"].([]any)
	for _, n := range sits {
		names[fmt.Sprint(n)] = true
	}
	sub := true
	cits, _ := cmdC["its"].([]any)
	for _, n := range cits {
		if !names[fmt.Sprint(n)] {
			sub = false
		}
	}
	l = append(l, fmt.Sprintf("resim:instance-types-subset=%v", sub))
	return l
}

func jsonSame(a, b any) bool {
	x, _ := json.Marshal(a)
	y, _ := json.Marshal(b)
	return string(x) == string(y)
}

func hasCmd(raw json.RawMessage, impl any) bool {
	m, _ := impl.(map[string]any)
	return m["cmd"] != nil
}

func isReplace(raw json.RawMessage, impl any) bool {
	m, _ := impl.(map[string]any)
	cmd, _ := m["cmd"].(map[string]any)
	d, _ := cmd["decision"].(string)
	return d == "replace"
}

func shrinkRun(raw json.RawMessage) []any {
	var in RunIn
	if json.Unmarshal(raw, &in) != nil {
		return nil
	}
	var out []any
	// drop a node
	for i := range in.Scn.Nodes {
		c := in
		c.Scn.Nodes = append(append([]world.Node{}, in.Scn.Nodes[:i]...), in.Scn.Nodes[i+1:]...)
		c.Pods, c.Nodes, c.Pick = filterExt(&c)
		out = append(out, c)
	}
	// drop a pod of a node
	for i := range in.Scn.Nodes {
		for j := range in.Scn.Nodes[i].Pods {
			c := in
			c.Scn.Nodes = append([]world.Node{}, in.Scn.Nodes...)
			n := c.Scn.Nodes[i]
			n.Pods = append(append([]world.Pod{}, n.Pods[:j]...), n.Pods[j+1:]...)
			c.Scn.Nodes[i] = n
			c.Pods, c.Nodes, c.Pick = filterExt(&c)
			out = append(out, c)
		}
	}
	// drop an instance type no node runs on
	for i := range in.Scn.ITs {
		used := false
		for _, n := range in.Scn.Nodes {
			if n.IT == in.Scn.ITs[i].Name {
				used = true
			}
		}
		if used {
			continue
		}
		c := in
		c.Scn.ITs = append(append([]world.IT{}, in.Scn.ITs[:i]...), in.Scn.ITs[i+1:]...)
		out = append(out, c)
	}
	if len(in.Scn.Pods) > 0 {
		c := in
		c.Scn.Pods = []world.Pod{}
		out = append(out, c)
	}
	if len(in.Scn.DaemonSets) > 0 {
		c := in
		c.Scn.DaemonSets = nil
		out = append(out, c)
	}
	return out
}

func filterExt(in *RunIn) ([]PodExt, []NodeExt, []string) {
	pods, nodes := map[string]bool{}, map[string]bool{}
	for _, n := range in.Scn.Nodes {
		nodes[n.Name] = true
		for _, p := range n.Pods {
			pods[p.Name] = true
		}
	}
	pe := []PodExt{}
	for _, p := range in.Pods {
		if pods[p.Pod] {
			pe = append(pe, p)
		}
	}
	ne := []NodeExt{}
	for _, n := range in.Nodes {
		if nodes[n.Node] {
			ne = append(ne, n)
		}
	}
	pk := []string{}
	for _, p := range in.Pick {
		if nodes[p] {
			pk = append(pk, p)
		}
	}
	return pe, ne, pk
}

func runOp(name, method, doc string, quick, thorough int, nontrivial func(json.RawMessage, any) bool, rule string) *core.Op {
	return &core.Op{
		Name: name,
		Doc:  doc,
		N:    func(t core.Tier) int { return map[core.Tier]int{core.Quick: quick, core.Thorough: thorough}[t] },
		Gen:  genRun(method),
		Impl: implRun,
		Rule: rule, Nontrivial: nontrivial,
		Labels:    runLabels,
		Signature: func(raw json.RawMessage, impl any) string { return method },
		Shrink:    shrinkRun,
	}
}

func Ops() []*core.Op {
	return []*core.Op{
		runOp("c06.single", "single",
			"the real SingleNodeConsolidation.ComputeCommands (MakeConsolidation, candidates from GetCandidates, real provisioner / scheduler / validator, fake clock stepped through the validation delay) on generated clusters and price tables; the command judged by the Lean end-state specification (feasible home via the C01 admissibility oracle, <= 1 replacement, every permitted launch strictly cheaper, spot-to-spot gate and 15-option floor, no dearer on-demand fallback) and compared with the model's computeConsolidation on the harness's own SimulateScheduling of the same candidates",
			1000, 12000, isReplace, "non-trivial = a replace decision is produced"),
		runOp("c06.multi", "multi",
			"the real MultiNodeConsolidation.ComputeCommands (binary search over candidate prefixes, filterOutSameInstanceType, validator) on generated clusters; same specification; model = multiStep on the simulation of the command's candidate set",
			1000, 12000, hasCmd, "non-trivial = a command is produced (delete or replace of >= 2 nodes)"),
		runOp("c06.empty", "empty",
			"the real Emptiness.ComputeCommands on generated clusters with pods whose eviction cost is exactly 0, just above 0, clamped, or terminal; specification: deleted as empty only if no reschedulable pod has a positive eviction cost",
			300, 5000, hasCmd, "non-trivial = an Emptiness command is produced"),
		{
			Name: "c06.compute",
			Doc:  "computeConsolidation itself (verif hook VerifComputeConsolidation: the decision BEFORE validation) for an arbitrary subset of the eligible candidates, then filterOutSameInstanceType (VerifFilterOutSameInstanceType) as in one step of the multi-node search; the decision compared exactly with the model's compute / multiStep on the harness's SimulateScheduling of the same subset, and every non-no-op decision judged by the end-state specification",
			N:    func(t core.Tier) int { return map[core.Tier]int{core.Quick: 1200, core.Thorough: 15000}[t] },
			Gen:  genCompute, Impl: implCompute,
			Rule: "non-trivial = a replace decision is produced", Nontrivial: isReplace,
			Labels: func(raw json.RawMessage, impl any) []string {
				l := runLabels(raw, impl)
				m, _ := impl.(map[string]any)
				if st, _ := m["sameType"].(map[string]any); st != nil {
					its, _ := st["its"].([]any)
					cmd, _ := m["cmd"].(map[string]any)
					rp, _ := cmd["repl"].([]any)
					before := 0
					if len(rp) == 1 {
						b, _ := rp[0].(map[string]any)["its"].([]any)
						before = len(b)
					}
					e, _ := st["err"].(bool)
					switch {
					case e:
						l = append(l, "same-type:error")
					case len(its) == 0:
						l = append(l, "same-type:all-removed")
					case len(its) < before:
						l = append(l, "same-type:some-removed")
					default:
						l = append(l, "same-type:none-removed")
					}
				}
				if sim, _ := m["sim"].(map[string]any); sim != nil {
					if a, _ := sim["allScheduled"].(bool); !a {
						l = append(l, "sim:unscheduled-pods")
					}
					cl, _ := sim["claims"].([]any)
					l = append(l, fmt.Sprintf("sim:new-claims=%d", min(len(cl), 3)))
				}
				return l
			},
			Signature: func(raw json.RawMessage, impl any) string { return "compute" },
			Shrink:    shrinkRun,
		},
		{
			Name: "c06.validate",
			Doc:  "the real ComputeCommands of single- and multi-node consolidation while the cluster changes during the 15 s validation delay (a pod lands on a node, a pending pod appears, instance types go out of stock, a node starts deleting; in a third of the cases the shapes in which a zone- / capacity-type- / instance-type-constrained pod moves from a filled-up node onto the replacement, with controls). Whenever a command reached validation the real verdict is compared with the model's validateCommand in BOTH directions on the harness's re-simulation of the changed cluster: released => the model accepts; rejected by validateCommand (class scheduling) => the model rejects - the rejected command is identified by its ConsolidationRejected events and recomputed by computeConsolidation (+ filterOutSameInstanceType) on an identical fresh world -; rejected for churn <=> the candidates are no longer candidates (budget rejections are C05's). A released command is also judged against the cluster as it is at release (a feasible home must still EXIST for every reschedulable pod of the removed nodes under EVERY launch the released replacement permits: the command's own placements, else an exhaustive search)",
			N:    func(t core.Tier) int { return map[core.Tier]int{core.Quick: 800, core.Thorough: 10000}[t] },
			Gen: func(r *rand.Rand, t core.Tier) any {
				// a third of the cases: the shapes in which the re-simulated NodeClaim gains (or, as controls, does not gain) a
				// zone / capacity-type / other requirement over the command's replacement
				switch x := r.Float64(); {
				case x < 0.30:
					return genValidateTighten(r, t)
				case x < 0.33:
					return genValidateZone(r, t)
				}
				return genValidate(r, t)
			},
			Impl: implRun,
			Rule: "non-trivial = a command reached validation and the change was delivered during the wait",
			Nontrivial: func(raw json.RawMessage, impl any) bool {
				m, _ := impl.(map[string]any)
				c, _ := m["churned"].(bool)
				return c
			},
			Labels: validateLabels,
			Signature: func(raw json.RawMessage, impl any) string { return "validate" },
			Shrink:    shrinkRun,
		},
		emptyValidateOp(),
		{
			Name: "c06.tables",
			Doc:  "the real SingleNodeConsolidation / MultiNodeConsolidation ComputeCommands (real validator, fake clock) on clusters with two or three NodePools that share a NodeClass but are charged different prices for the same offerings (per-NodePool price tables served by the provider's GetInstanceTypes(nodePool): the shape of a NodeOverlay or a provider discount that selects karpenter.sh/nodepool; adjustments of 20..200 % on all types, one capacity type, or half of the types). The specification prices every removed node at ITS NodePool's price and every permitted launch of the replacement at the REPLACEMENT NodePool's price; the model's candidates carry their own NodePool's offerings (Candidate.Price, filterOutSameInstanceType) and the compared Candidate.Price is the real one",
			N:    func(t core.Tier) int { return map[core.Tier]int{core.Quick: 500, core.Thorough: 6000}[t] },
			Gen: func(r *rand.Rand, t core.Tier) any {
				// half of the runs: the tables are produced by real NodeOverlays (real nodeoverlay controller + overlay.Decorate)
				if r.Float64() < 0.5 {
					return genNodeOverlayRun(r, pick(r, "single", "single", "multi"))
				}
				return genOverlayRun(r, pick(r, "single", "single", "multi"))
			},
			Impl: implRun,
			Rule: "non-trivial = a command is produced on a cluster with per-NodePool price tables", Nontrivial: hasCmd,
			Labels:    runLabels,
			Signature: func(raw json.RawMessage, impl any) string { return "tables" },
			Shrink:    shrinkRun,
		},
		{
			Name: "c06.cap",
			Doc:  "the real SingleNodeConsolidation / MultiNodeConsolidation ComputeCommands on catalogs with MORE compatible instance types than the launch cap (scheduling.MaxInstanceTypes, which the code keeps in a package variable for testing; set per run to 2..6, with a control above the catalog size and a corpus witness at the real 600) and NodePools with minValues on arch / instance type / zone: SimulateScheduling's Results.TruncateInstanceTypes cuts every new NodeClaim to the cheapest `cap` types and must report the pods of a NodeClaim that no longer meets minValues as unschedulable. Same specification (every reschedulable pod of a removed node has a placement in the command's simulation and an admissible home) and same model comparison as c06.single / c06.multi",
			N:    func(t core.Tier) int { return map[core.Tier]int{core.Quick: 300, core.Thorough: 4000}[t] },
			Gen:  func(r *rand.Rand, t core.Tier) any { return genCapRun(r, pick(r, "single", "single", "multi")) },
			Impl: implRun,
			Rule: "non-trivial = the harness's simulation of the evaluated candidates lost a NodeClaim to the cap (a pod error) or a command is produced",
			Nontrivial: func(raw json.RawMessage, impl any) bool {
				m, _ := impl.(map[string]any)
				if m["cmd"] != nil {
					return true
				}
				if sim, _ := m["sim"].(map[string]any); sim != nil {
					res, _ := sim["outcome"].(map[string]any)
					errs, _ := res["errors"].(map[string]any)
					return len(errs) > 0
				}
				return false
			},
			Labels:    runLabels,
			Signature: func(raw json.RawMessage, impl any) string { return "cap" },
			Shrink:    shrinkRun,
		},
		{
			Name: "c06.worst",
			Doc:  "cloudprovider.Offerings.Compatible / Available().WorstLaunchPrice / WorstLaunchPrice / Cheapest / MostExpensive on generated offerings (spot / on-demand / reserved, price ties, unavailable) and requirements over capacity-type, zone and reservation-id (In, NotIn, Exists, DoesNotExist, Gt, empty sets)",
			N:    func(t core.Tier) int { return map[core.Tier]int{core.Quick: 3000, core.Thorough: 60000}[t] },
			Gen:  genWorst, Impl: implWorst, Enum: enumWorst,
			ExhaustiveNote: "every subset of a 6-offering universe (reserved/spot/on-demand x 2 zones, available or not, price ties) x 13 capacity-type requirement shapes x (3 zone | 3 reservation-id shapes): 64 x 13 x 5 = 4160 cases",
			Rule: "non-trivial = some offering is compatible",
			Nontrivial: func(raw json.RawMessage, impl any) bool {
				m, _ := impl.(map[string]any)
				cs, _ := m["compat"].([]any)
				for _, c := range cs {
					if b, _ := c.(bool); b {
						return true
					}
				}
				return false
			},
			Labels: func(raw json.RawMessage, impl any) []string {
				m, _ := impl.(map[string]any)
				l := []string{}
				if fmt.Sprint(m["worst"]) == "-1" {
					l = append(l, "worst=max")
				} else {
					l = append(l, "worst=price")
				}
				if fmt.Sprint(m["worst"]) != fmt.Sprint(m["worstAvailable"]) {
					l = append(l, "unavailable-offering-changes-worst")
				}
				return l
			},
			Signature: func(raw json.RawMessage, impl any) string { return "worst" },
		},
		{
			Name: "c06.remove",
			Doc:  "scheduling.NodeClaim.RemoveInstanceTypeOptionsByPriceAndMinValues on generated instance types, requirements (with minValues on instance-type / zone / arch) and price bounds at, just below and just above offering prices; kept options and the minValues error vs the model, and the price clause of the property on what the real filter kept",
			N:    func(t core.Tier) int { return map[core.Tier]int{core.Quick: 3000, core.Thorough: 60000}[t] },
			Gen:  genRemove, Impl: implRemove,
			Rule: "non-trivial = at least one option is kept or the minValues error is returned",
			Nontrivial: func(raw json.RawMessage, impl any) bool {
				m, _ := impl.(map[string]any)
				k, _ := m["kept"].([]any)
				e, _ := m["err"].(bool)
				return len(k) > 0 || e
			},
			Labels: func(raw json.RawMessage, impl any) []string {
				m, _ := impl.(map[string]any)
				k, _ := m["kept"].([]any)
				e, _ := m["err"].(bool)
				return []string{fmt.Sprintf("kept=%d", min(len(k), 4)), fmt.Sprintf("minValues-error=%v", e)}
			},
			Signature: func(raw json.RawMessage, impl any) string { return "remove" },
		},
		{
			Name: "c06.isempty",
			Doc:  "disruption.EvictionCost per pod and Candidate.IsEmpty (candidate built by GetCandidates on a one-node world) for pods with deletion-cost / priority values at the zero crossing and the clamp bounds, DaemonSet pods, terminal pods, malformed annotations",
			N:    func(t core.Tier) int { return map[core.Tier]int{core.Quick: 600, core.Thorough: 10000}[t] },
			Gen:  genIsEmpty, Impl: implIsEmpty,
			Rule: "non-trivial = the node hosts at least one reschedulable pod",
			Nontrivial: func(raw json.RawMessage, impl any) bool {
				var in EmptyIn
				_ = json.Unmarshal(raw, &in)
				for _, p := range in.Pods {
					if !p.Daemon && p.Phase == "" {
						return true
					}
				}
				return false
			},
			Labels: func(raw json.RawMessage, impl any) []string {
				m, _ := impl.(map[string]any)
				return []string{fmt.Sprintf("empty=%v", m["empty"])}
			},
			Signature: func(raw json.RawMessage, impl any) string { return "isempty" },
		},
	}
}
