// Package c02: inter-pod constraints hold in the simulated end state — whole real scheduling passes judged by the
// Lean inter-pod specification, plus TopologyGroup op-sequence correspondence.
package c02

import (
	"encoding/json"
	"fmt"
	"math/rand/v2"

	"verifharness/internal/core"
	"verifharness/internal/registry"
	"verifharness/internal/world"
)

func init() { registry.Register("C02", Ops) }

func implPass(raw json.RawMessage) (any, error) {
	var s world.Scenario
	if err := json.Unmarshal(raw, &s); err != nil {
		return nil, err
	}
	w, err := world.Build(&s)
	if err != nil {
		return nil, err
	}
	res, err := w.Schedule()
	if err != nil {
		return world.Outcome{Err: errClass(err), Faults: w.FiredFaults(), ErrorLogs: w.ErrorLogs()}, nil
	}
	out := world.Extract(res)
	out.Faults, out.ErrorLogs = w.FiredFaults(), w.ErrorLogs()
	return out, nil
}

var passOpts = world.GenOpts{PreferOnSpreadKey: 0.35, PodEventsFirst: 0.3, InterPod: 0.75, NodeAffinity: 0.15, Existing: 0.6, Limits: 0.0, MaxPods: 6,
	Namespaces: 0.3, MatchLabelKeys: 0.25, DefaultSpread: 0.12, ListFaults: 0.08, ZoneHoles: 0.08, TaintValues: 0.07}

// errClass canonicalises a pass error (messages carry object names and injected-fault texts: keep them, they are deterministic)
func errClass(err error) string { return err.Error() }

func constraintLabels(s *world.Scenario) []string {
	var l []string
	seen := map[string]bool{}
	add := func(x string) {
		if !seen[x] {
			seen[x] = true
			l = append(l, x)
		}
	}
	for _, p := range s.Pods {
		for _, a := range p.Affinity {
			kind := "affinity"
			if a.Anti {
				kind = "anti-affinity"
			}
			req := "preferred"
			if a.Required {
				req = "required"
			}
			add(fmt.Sprintf("%s-%s-%s", req, kind, shortKey(a.TopologyKey)))
			switch {
			case a.NamespaceSelector != nil && len(a.NamespaceSelector.MatchLabels) == 0 && len(a.NamespaceSelector.MatchExprs) == 0:
				add("term-namespaceSelector-empty")
			case a.NamespaceSelector != nil:
				add("term-namespaceSelector")
			}
			if len(a.Namespaces) > 0 {
				add("term-namespaces-list")
			}
			if len(a.MatchLabelKeys) > 0 {
				add("term-matchLabelKeys")
			}
		}
		for _, sp := range p.Spreads {
			mode := "ScheduleAnyway"
			if sp.DoNotSchedule {
				mode = "DoNotSchedule"
			}
			add(fmt.Sprintf("spread-%s-%s", mode, shortKey(sp.TopologyKey)))
			if sp.MinDomains != nil {
				add("spread-minDomains")
			}
			if len(sp.MatchLabelKeys) > 0 {
				add("spread-matchLabelKeys")
				if len(sp.MatchExprs) > 0 {
					add("spread-matchLabelKeys-api-merged")
				}
			}
		}
	}
	if len(s.Namespaces) > 0 {
		add("several-namespaces")
	}
	if len(s.DefaultSpreads) > 0 {
		add("cluster-default-spread")
		for _, d := range s.DefaultSpreads {
			if d.DoNotSchedule {
				add("cluster-default-spread-DoNotSchedule-" + shortKey(d.TopologyKey))
			}
		}
		canary := false
		for _, p := range s.Pods {
			if p.Labels["track"] == "canary" && p.Owner != "" {
				canary = true
			}
		}
		if canary {
			add("replicaset-pods-selected-by-different-services")
		}
	}
	for _, f := range s.ListFaults {
		add("list-fault-" + f.Kind)
	}
	for _, p := range s.Pods {
		if len(p.Name) > 4 && p.Name[:4] == "pin-" {
			add("pod-pinned-to-a-zone-beside-a-spread-set")
		}
		if len(p.Affinity) > 0 {
			for _, a := range p.Affinity {
				if a.Anti && a.Required {
					add("pending-pod-required-anti-affinity")
				}
			}
		}
	}
	vals := map[string]string{}
	for _, np := range s.Pools {
		for _, t := range np.Taints {
			if v, ok := vals[t.Key+":"+t.Effect]; ok && v != t.Value {
				add("nodepool-taints-differ-in-value-only")
			}
			vals[t.Key+":"+t.Effect] = t.Value
		}
	}
	if len(s.ITs) > 1 {
		zonesOf := func(it world.IT) string {
			z := map[string]bool{}
			for _, of := range it.Offerings {
				if of.Available {
					z[of.Zone] = true
				}
			}
			return fmt.Sprint(z["z1"], z["z2"], z["z3"])
		}
		for _, it := range s.ITs[1:] {
			if zonesOf(it) != zonesOf(s.ITs[0]) {
				add("instance-types-offered-in-different-zone-sets")
				break
			}
		}
	}
	for _, n := range s.Nodes {
		for _, p := range n.Pods {
			for _, a := range p.Affinity {
				if a.Anti && a.Required && a.NamespaceSelector != nil {
					add("running-pod-anti-affinity-namespaceSelector")
				}
			}
		}
	}
	return l
}

func shortKey(k string) string {
	switch k {
	case "topology.kubernetes.io/zone":
		return "zone"
	case "kubernetes.io/hostname":
		return "hostname"
	case "karpenter.sh/capacity-type":
		return "capacity-type"
	}
	return k
}

func Ops() []*core.Op {
	return []*core.Op{
		{
			Name: "c02.pass",
			Doc:  "whole real Provisioner.Schedule passes on batches mixing required/preferred pod affinity, anti-affinity and topology spread (minDomains, inclusion policies) over existing pod distributions and 1-3 zones, pods in several namespaces with namespaces / namespaceSelector on the terms, rollouts with matchLabelKeys (two revisions, selector merged by the API server or not), cluster-default spread constraints (--scheduler-config) on ReplicaSet pods behind Services (selector deduced per pod), one List call of the pass failing once (mostly the Namespace list behind a running pod's anti-affinity namespaceSelector); end state judged by the inter-pod specification",
			N:    func(t core.Tier) int { return map[core.Tier]int{core.Quick: 1500, core.Thorough: 12000}[t] },
			Gen:  func(r *rand.Rand, t core.Tier) any { return world.GenScenario(r, passOpts) },
			Impl: implPass,
			Rule: "non-trivial = at least two pods were placed and at least one placed pod carries a required inter-pod constraint or DoNotSchedule spread (its own or a cluster default)",
			Nontrivial: func(raw json.RawMessage, impl any) bool {
				var s world.Scenario
				json.Unmarshal(raw, &s)
				m, _ := impl.(map[string]any)
				placed := map[string]bool{}
				if e, ok := m["existing"].([]any); ok {
					for _, x := range e {
						if ps, ok := x.(map[string]any)["pods"].([]any); ok {
							for _, p := range ps {
								placed[p.(string)] = true
							}
						}
					}
				}
				if c, ok := m["claims"].([]any); ok {
					for _, x := range c {
						if ps, ok := x.(map[string]any)["pods"].([]any); ok {
							for _, p := range ps {
								placed[p.(string)] = true
							}
						}
					}
				}
				if len(placed) < 2 {
					return false
				}
				for _, p := range s.Pods {
					if !placed[p.Name] {
						continue
					}
					for _, a := range p.Affinity {
						if a.Required {
							return true
						}
					}
					for _, sp := range p.Spreads {
						if sp.DoNotSchedule {
							return true
						}
					}
					// governed by a cluster-default DoNotSchedule constraint (no constraints of its own, a controller or Service)
					if len(p.Spreads) == 0 && (p.Owner != "" || len(s.Services) > 0) {
						for _, d := range s.DefaultSpreads {
							if d.DoNotSchedule {
								return true
							}
						}
					}
				}
				return false
			},
			Labels: func(raw json.RawMessage, impl any) []string {
				var s world.Scenario
				json.Unmarshal(raw, &s)
				return constraintLabels(&s)
			},
			Signature: func(raw json.RawMessage, impl any) string { return "pass" },
		},
		groupOp(),
	}
}
