// Package c02: correspondence ops for C02 (stub, not yet built).
package c02

import (
	"verifharness/internal/core"
	"verifharness/internal/registry"
)

func init() { registry.Register("C02", Ops) }

func Ops() []*core.Op { return nil }
