package c02

// c02.group: operation sequences on the real scheduling.TopologyGroup (NewTopologyGroup, Register, Unregister,
// Record, Get) replayed on the Lean model Karp/Model/Topo.lean through the verif snapshot hook.

import (
	"encoding/json"
	"fmt"
	"math/rand/v2"
	"sort"
	"strconv"

	corev1 "k8s.io/api/core/v1"
	metav1 "k8s.io/apimachinery/pkg/apis/meta/v1"
	"k8s.io/apimachinery/pkg/util/sets"

	"sigs.k8s.io/karpenter/pkg/controllers/provisioning/scheduling"

	"verifharness/internal/core"
	"verifharness/internal/reqgen"
)

type GroupOp struct {
	Op     string        `json:"op"` // record | register | unregister | get
	Ds     []string      `json:"ds,omitempty"`
	Self   bool          `json:"self"`
	Pod    []reqgen.Expr `json:"pod,omitempty"`
	Node   []reqgen.Expr `json:"node,omitempty"`
	Record bool          `json:"record,omitempty"` // record the placement the way Topology.Record would
}

type GroupIn struct {
	Kind           string    `json:"kind"` // spread | affinity | anti
	Key            string    `json:"key"`
	MaxSkew        int32     `json:"maxSkew"`
	MinDomains     *int32    `json:"minDomains"`
	AffinityIgnore bool      `json:"affinityIgnore"`
	Domains        []string  `json:"domains"`
	Ops            []GroupOp `json:"ops"`
}

type DC struct {
	D string `json:"d"`
	C int32  `json:"c"`
}

type GroupSnap struct {
	Domains  []DC     `json:"domains"`
	Empty    []string `json:"empty"`
	Out      []string `json:"out,omitempty"`
	Valid    []string `json:"valid,omitempty"`
	Recorded []string `json:"recorded,omitempty"`
	IsGet    bool     `json:"-"`
}

// MarshalJSON keeps out/recorded present (possibly empty) for get steps.
func (s GroupSnap) MarshalJSON() ([]byte, error) {
	m := map[string]any{"domains": s.Domains, "empty": s.Empty}
	if s.IsGet {
		m["out"] = nonNil(s.Out)
		m["valid"] = nonNil(s.Valid)
		m["recorded"] = nonNil(s.Recorded)
	}
	return json.Marshal(m)
}

func nonNil(l []string) []string {
	if l == nil {
		return []string{}
	}
	return l
}

type GroupOut struct {
	Init  GroupSnap   `json:"init"`
	Steps []GroupSnap `json:"steps"`
}

func snapOf(tg *scheduling.TopologyGroup) GroupSnap {
	s := tg.VerifSnapshot()
	out := GroupSnap{Domains: []DC{}, Empty: nonNil(s.EmptyDomains)}
	for d, c := range s.Domains {
		out.Domains = append(out.Domains, DC{d, c})
	}
	sort.Slice(out.Domains, func(i, j int) bool { return out.Domains[i].D < out.Domains[j].D })
	return out
}

var selfLabels = map[string]string{"app": "set"}

func implGroup(raw json.RawMessage) (any, error) {
	var in GroupIn
	if err := json.Unmarshal(raw, &in); err != nil {
		return nil, err
	}
	var typ scheduling.TopologyType
	switch in.Kind {
	case "spread":
		typ = scheduling.TopologyTypeSpread
	case "affinity":
		typ = scheduling.TopologyTypePodAffinity
	case "anti":
		typ = scheduling.TopologyTypePodAntiAffinity
	default:
		return nil, fmt.Errorf("bad kind %q", in.Kind)
	}
	owner := &corev1.Pod{ObjectMeta: metav1.ObjectMeta{Namespace: "default", Name: "owner", Labels: selfLabels}}
	other := &corev1.Pod{ObjectMeta: metav1.ObjectMeta{Namespace: "default", Name: "other", Labels: map[string]string{"app": "else"}}}
	dg := scheduling.NewTopologyDomainGroup()
	for _, d := range in.Domains {
		dg.Insert(d)
	}
	var affinityPolicy *corev1.NodeInclusionPolicy
	if in.AffinityIgnore {
		p := corev1.NodeInclusionPolicyIgnore
		affinityPolicy = &p
	}
	tg := scheduling.NewTopologyGroup(typ, in.Key, owner, sets.New("default"), &metav1.LabelSelector{MatchLabels: selfLabels},
		in.MaxSkew, in.MinDomains, nil, affinityPolicy, dg)
	out := GroupOut{Init: snapOf(tg), Steps: []GroupSnap{}}
	for _, op := range in.Ops {
		var get *GroupSnap
		switch op.Op {
		case "record":
			tg.Record(op.Ds...)
		case "register":
			tg.Register(op.Ds...)
		case "unregister":
			tg.Unregister(op.Ds...)
		case "get":
			pod := other
			if op.Self {
				pod = owner
			}
			req, valid := tg.Get(pod, reqgen.Build(in.Key, op.Pod), reqgen.Build(in.Key, op.Node))
			g := GroupSnap{IsGet: true}
			if req.Operator() == corev1.NodeSelectorOpIn {
				g.Out = append([]string{}, req.Values()...)
			} else if req.Operator() != corev1.NodeSelectorOpDoesNotExist {
				return nil, fmt.Errorf("Get returned operator %s", req.Operator())
			}
			sort.Strings(g.Out)
			g.Valid = sets.List(valid)
			if op.Record && op.Self {
				// Topology.Record: anti-affinity blocks every domain the pod may land in, the others record
				// only a determined domain
				if in.Kind == "anti" {
					g.Recorded = g.Out
				} else if len(g.Out) == 1 {
					g.Recorded = g.Out
				}
				tg.Record(g.Recorded...)
			}
			get = &g
		default:
			return nil, fmt.Errorf("bad op %q", op.Op)
		}
		s := snapOf(tg)
		if get != nil {
			s.IsGet, s.Out, s.Valid, s.Recorded = true, get.Out, get.Valid, get.Recorded
		}
		out.Steps = append(out.Steps, s)
	}
	return out, nil
}

var groupKeys = []string{"topology.kubernetes.io/zone", "kubernetes.io/hostname", "karpenter.sh/capacity-type", "example.com/rack"}

func pickSubset(r *rand.Rand, u []string, min, max int) []string {
	n := min
	if max > min {
		n += r.IntN(max - min + 1)
	}
	if n > len(u) {
		n = len(u)
	}
	p := r.Perm(len(u))
	out := make([]string, 0, n)
	for _, i := range p[:n] {
		out = append(out, u[i])
	}
	return out
}

// domainExprs draws a small conjunction over the topology key.
func domainExprs(r *rand.Rand, u []string, single float64) []reqgen.Expr {
	if r.Float64() < single {
		return []reqgen.Expr{{Op: "In", Values: pickSubset(r, u, 1, 1)}}
	}
	one := func() reqgen.Expr {
		switch x := r.Float64(); {
		case x < 0.30:
			return reqgen.Expr{Op: "Exists", Values: []string{}}
		case x < 0.65:
			return reqgen.Expr{Op: "In", Values: pickSubset(r, u, 1, 4)}
		case x < 0.85:
			return reqgen.Expr{Op: "NotIn", Values: pickSubset(r, u, 1, 3)}
		case x < 0.90:
			return reqgen.Expr{Op: "Gt", Values: []string{strconv.Itoa(r.IntN(4))}}
		case x < 0.95:
			return reqgen.Expr{Op: "Lt", Values: []string{strconv.Itoa(1 + r.IntN(4))}}
		default:
			return reqgen.Expr{Op: "DoesNotExist", Values: []string{}}
		}
	}
	es := []reqgen.Expr{one()}
	if r.Float64() < 0.25 {
		es = append(es, one())
	}
	return es
}

func genGroup(r *rand.Rand, t core.Tier) any {
	kinds := []string{"spread", "affinity", "anti"}
	in := GroupIn{Kind: kinds[r.IntN(3)], Key: groupKeys[r.IntN(len(groupKeys))], MaxSkew: 1 + int32(r.IntN(3))}
	if r.Float64() < 0.5 {
		in.Key = groupKeys[r.IntN(2)]
	}
	u := []string{"a", "b", "c", "d", "e", "1", "2", "3"}
	if r.Float64() < 0.5 {
		u = u[:3+r.IntN(5)]
	}
	in.Domains = pickSubset(r, u, 0, len(u))
	if in.Kind == "spread" {
		if r.Float64() < 0.35 {
			md := int32(1 + r.IntN(5))
			in.MinDomains = &md
		}
		in.AffinityIgnore = r.Float64() < 0.25
	}
	n := 1 + r.IntN(14)
	if t == core.Thorough {
		n = 1 + r.IntN(40)
	}
	pSingle := 0.15
	if in.Key == "kubernetes.io/hostname" {
		pSingle = 0.6
	}
	// a set of pods usually shares its node requirements
	shared := domainExprs(r, u, 0.05)
	for i := 0; i < n; i++ {
		switch x := r.Float64(); {
		case x < 0.14:
			in.Ops = append(in.Ops, GroupOp{Op: "record", Ds: pickSubset(r, u, 1, 3)})
		case x < 0.22:
			in.Ops = append(in.Ops, GroupOp{Op: "register", Ds: pickSubset(r, u, 1, 3)})
		case x < 0.27:
			in.Ops = append(in.Ops, GroupOp{Op: "unregister", Ds: pickSubset(r, u, 1, 2)})
		default:
			pod := shared
			if r.Float64() < 0.3 {
				pod = domainExprs(r, u, 0.05)
			}
			node := domainExprs(r, u, pSingle)
			if r.Float64() < 0.5 {
				// the scheduler adds the pod's requirements to the node's before asking
				node = append(append([]reqgen.Expr{}, node...), pod...)
			}
			in.Ops = append(in.Ops, GroupOp{Op: "get", Self: r.Float64() < 0.75, Pod: pod, Node: node, Record: r.Float64() < 0.8})
		}
	}
	return in
}

func groupLabels(raw json.RawMessage, impl any) []string {
	var in GroupIn
	json.Unmarshal(raw, &in)
	key := shortKey(in.Key)
	l := []string{"kind-" + in.Kind, "key-" + key}
	if in.MinDomains != nil {
		l = append(l, "minDomains")
	}
	if in.AffinityIgnore {
		l = append(l, "nodeAffinityPolicy-Ignore")
	}
	m, _ := impl.(map[string]any)
	steps, _ := m["steps"].([]any)
	seen := map[string]bool{}
	for i, s := range steps {
		sm, _ := s.(map[string]any)
		out, isGet := sm["out"].([]any)
		if !isGet || i >= len(in.Ops) {
			continue
		}
		switch {
		case len(out) == 0:
			seen["get-none"] = true
		case len(out) == 1:
			seen["get-one"] = true
		default:
			seen["get-many"] = true
		}
		if rec, _ := sm["recorded"].([]any); len(rec) > 0 {
			seen["recorded"] = true
		}
	}
	for k := range seen {
		l = append(l, k)
	}
	sort.Strings(l[2:])
	return l
}

func groupOp() *core.Op {
	return &core.Op{
		Name: "c02.group",
		Doc:  "operation sequences (NewTopologyGroup, Register, Unregister, Record, Get then record) on the real TopologyGroup for spread / affinity / anti-affinity over zone, hostname and custom keys; counters, emptyDomains index and every Get answer compared with the Lean model, every answer judged by the property's rule on the implementation's own counters",
		N:    func(t core.Tier) int { return map[core.Tier]int{core.Quick: 3000, core.Thorough: 40000}[t] },
		Gen:  genGroup,
		Impl: implGroup,
		Rule: "non-trivial = at least one Get returned a domain and recorded it while some domain already held a matching pod; distinct = distinct inputs",
		Nontrivial: func(raw json.RawMessage, impl any) bool {
			m, _ := impl.(map[string]any)
			steps, _ := m["steps"].([]any)
			positive := false
			for _, s := range steps {
				sm, _ := s.(map[string]any)
				if rec, _ := sm["recorded"].([]any); len(rec) > 0 && positive {
					return true
				}
				ds, _ := sm["domains"].([]any)
				for _, d := range ds {
					if c := fmt.Sprint(d.(map[string]any)["c"]); c != "0" {
						positive = true
					}
				}
			}
			return false
		},
		Labels:    groupLabels,
		Signature: func(raw json.RawMessage, impl any) string { return "group" },
	}
}
