package c03

// NodePool limits over multi-round histories: the REAL provisioner (Provisioner.Schedule + CreateNodeClaims with
// the ExceededBy check in Create), the real state.Cluster (Synced gate, nodePoolResources bookkeeping), the fake
// client, and a cloud provider whose launch choice is dictated by the input (adversarial: the largest permitted
// instance type).

import (
	"context"
	"encoding/json"
	"fmt"
	"math/rand/v2"
	"sort"
	"strings"
	"sync/atomic"
	"time"

	"github.com/go-logr/logr"
	corev1 "k8s.io/api/core/v1"
	"k8s.io/apimachinery/pkg/api/resource"
	metav1 "k8s.io/apimachinery/pkg/apis/meta/v1"
	"k8s.io/apimachinery/pkg/types"
	"k8s.io/client-go/kubernetes/scheme"
	clocktesting "k8s.io/utils/clock/testing"
	"sigs.k8s.io/controller-runtime/pkg/client"
	"sigs.k8s.io/controller-runtime/pkg/client/fake"
	"sigs.k8s.io/controller-runtime/pkg/client/interceptor"
	crlog "sigs.k8s.io/controller-runtime/pkg/log"

	_ "sigs.k8s.io/karpenter/pkg/apis"
	v1 "sigs.k8s.io/karpenter/pkg/apis/v1"
	"sigs.k8s.io/karpenter/pkg/cloudprovider"
	fakecp "sigs.k8s.io/karpenter/pkg/cloudprovider/fake"
	"sigs.k8s.io/karpenter/pkg/controllers/provisioning"
	"sigs.k8s.io/karpenter/pkg/controllers/state"
	"sigs.k8s.io/karpenter/pkg/operator/options"
	"sigs.k8s.io/karpenter/pkg/state/virtualpods"
	"sigs.k8s.io/karpenter/pkg/test"

	"verifharness/internal/core"
)

func init() { crlog.SetLogger(logr.Discard()) }

var t0 = time.Date(2026, 1, 1, 0, 0, 0, 0, time.UTC)

func baseCtx() context.Context { return options.ToContext(context.Background(), test.Options()) }

func newClient(funcs interceptor.Funcs, objs ...client.Object) client.Client {
	return fake.NewClientBuilder().
		WithScheme(scheme.Scheme).
		WithObjects(objs...).
		WithStatusSubresource(&v1.NodeClaim{}, &v1.NodePool{}).
		WithIndex(&corev1.Pod{}, "spec.nodeName", func(o client.Object) []string { return []string{o.(*corev1.Pod).Spec.NodeName} }).
		WithIndex(&corev1.Node{}, "spec.providerID", func(o client.Object) []string { return []string{o.(*corev1.Node).Spec.ProviderID} }).
		WithIndex(&v1.NodeClaim{}, "status.providerID", func(o client.Object) []string { return []string{o.(*v1.NodeClaim).Status.ProviderID} }).
		WithInterceptorFuncs(funcs).
		Build()
}

var uidCounter atomic.Int64

func nextUID(prefix string) types.UID {
	return types.UID(fmt.Sprintf("%s-%d", prefix, uidCounter.Add(1)))
}

// ---------- input ----------

// LIT is an instance type of the catalog; capacities in milli-units.
type LIT struct {
	Cap map[string]int64 `json:"cap"`
}

type LPool struct {
	Limits map[string]int64 `json:"limits"` // milli-units; null = no limits at all
	Weight int32            `json:"weight,omitempty"`
	ITs    []int            `json:"its"` // catalog indices offered to this pool
}

type LPod struct {
	CPU  int64 `json:"cpu"` // milli
	Mem  int64 `json:"mem"` // MiB
	Anti bool  `json:"anti,omitempty"`
	Pool int   `json:"pool"` // -1: any pool, otherwise node selector on that pool
}

type LNode struct {
	Pool int `json:"pool"`
	IT   int `json:"it"`
}

type LEvent struct {
	K string `json:"k"` // markdel | unmark | delete
	I int    `json:"i"` // index into the launched nodes (in launch order, pre-existing first), modulo their number
}

type LRound struct {
	Events []LEvent `json:"events,omitempty"`
	Pods   []LPod   `json:"pods,omitempty"`
	// Launch[i] is the provider's choice for the i-th NodeClaim created in this round:
	// -1 the largest permitted instance type, k>=0 the k-th permitted one (mod their number), -2 not launched yet
	// (it is launched, with the largest type, at the end of the next round). Missing entries mean -1.
	Launch []int `json:"launch,omitempty"`
}

type LIn struct {
	// Exact: every pod of the history is tiny (1m cpu, 1Mi) and hostname-anti-affine, so CanAdd cannot narrow a new
	// NodeClaim's options by resources: they must EQUAL filterByRemainingResources(pool types, remaining) and the
	// remaining resources must evolve by subtractMax exactly (checked by the model relation).
	Exact    bool     `json:"exact,omitempty"`
	Catalog  []LIT    `json:"catalog"`
	Pools    []LPool  `json:"pools"`
	Existing []LNode  `json:"existing,omitempty"`
	Rounds   []LRound `json:"rounds"`
}

// ---------- output ----------

type LPoolSnap struct {
	Existing   []int   `json:"existing"`   // catalog index of every launched node of the pool that is not being deleted
	Unlaunched [][]int `json:"unlaunched"` // permitted catalog indices of every NodeClaim created earlier and not launched
	New        [][]int `json:"new"`        // the same for the NodeClaims created by this round's pass, in the order opened
	After      []int   `json:"after"`      // like Existing, after this round's launches
}

type LRoundOut struct {
	Synced  bool               `json:"synced"`  // Cluster.Synced() before the pass
	Ran     bool               `json:"ran"`     // the pass ran (it only runs when synced, as in Provisioner.Reconcile)
	Err     string             `json:"err"`     // error class of Schedule / CreateNodeClaims
	Refused int                `json:"refused"` // creates refused by Limits.ExceededBy
	Pools   []LPoolSnap        `json:"pools"`
	Usage   []map[string]int64 `json:"usage"` // Cluster.NodePoolResourcesFor(pool) after the round's launches, zero entries dropped
}

type LOut struct {
	Rounds []LRoundOut `json:"rounds"`
}

// ---------- world ----------

type lnode struct {
	pool, it int
	name, id string
	marked   bool
	gone     bool
}

type lclaim struct {
	pool  int
	name  string
	opts  []int
	round int
}

type lworld struct {
	ctx     context.Context
	in      *LIn
	kube    client.Client
	cp      *fakecp.CloudProvider
	cluster *state.Cluster
	prov    *provisioning.Provisioner
	its     []*cloudprovider.InstanceType
	nodes   []*lnode
	pending []*lclaim
	seq     int
}

func itName(i int) string    { return fmt.Sprintf("it-%d", i) }
func lpoolName(i int) string { return fmt.Sprintf("pool-%d", i) }

func quantity(name string, milli int64) resource.Quantity {
	if name == "memory" {
		return *resource.NewQuantity(milli*1024*1024/1000, resource.BinarySI) // memory is given in milli-MiB
	}
	return *resource.NewMilliQuantity(milli, resource.DecimalSI)
}

func milliOf(name string, q resource.Quantity) int64 {
	if name == "memory" {
		return q.Value() * 1000 / (1024 * 1024)
	}
	return q.MilliValue()
}

func resourceList(m map[string]int64) corev1.ResourceList {
	rl := corev1.ResourceList{}
	for k, v := range m {
		rl[corev1.ResourceName(k)] = quantity(k, v)
	}
	return rl
}

func newLWorld(in *LIn) (*lworld, error) {
	w := &lworld{ctx: baseCtx(), in: in}
	for i, it := range in.Catalog {
		capRL := resourceList(it.Cap)
		w.its = append(w.its, fakecp.NewInstanceType(itName(i), fakecp.WithResources(capRL)))
	}
	w.cp = fakecp.NewCloudProvider()
	var objs []client.Object
	for i, p := range in.Pools {
		np := test.NodePool(v1.NodePool{ObjectMeta: metav1.ObjectMeta{Name: lpoolName(i), UID: nextUID("np")}})
		np.CreationTimestamp = metav1.NewTime(t0)
		if p.Limits == nil {
			np.Spec.Limits = nil
		} else {
			np.Spec.Limits = v1.Limits(resourceList(p.Limits))
		}
		if p.Weight > 0 {
			np.Spec.Weight = &p.Weight
		}
		objs = append(objs, np)
		var its []*cloudprovider.InstanceType
		for _, j := range p.ITs {
			if j < 0 || j >= len(w.its) {
				return nil, fmt.Errorf("bad instance type index %d", j)
			}
			its = append(its, w.its[j])
		}
		w.cp.InstanceTypesForNodePool[lpoolName(i)] = its
	}
	w.kube = newClient(interceptor.Funcs{}, objs...)
	clk := clocktesting.NewFakeClock(t0)
	w.cluster = state.NewCluster(clk, w.kube, w.cp)
	w.prov = provisioning.NewProvisioner(w.kube, test.NewEventRecorder(), w.cp, w.cluster, clk, nil, virtualpods.NewVirtualPodCache(w.kube))
	for _, n := range in.Existing {
		if n.Pool < 0 || n.Pool >= len(in.Pools) || n.IT < 0 || n.IT >= len(w.its) {
			return nil, fmt.Errorf("bad existing node")
		}
		nc := &v1.NodeClaim{ObjectMeta: metav1.ObjectMeta{
			Name: fmt.Sprintf("pre-%d", len(w.nodes)), UID: nextUID("nc"), CreationTimestamp: metav1.NewTime(t0),
			Labels: map[string]string{v1.NodePoolLabelKey: lpoolName(n.Pool)},
		}}
		nc.Spec.NodeClassRef = &v1.NodeClassReference{Group: "karpenter.test.sh", Kind: "TestNodeClass", Name: "default"}
		if err := w.kube.Create(w.ctx, nc); err != nil {
			return nil, err
		}
		if err := w.launch(nc, n.Pool, n.IT); err != nil {
			return nil, err
		}
	}
	return w, nil
}

// launch plays the cloud provider + the lifecycle/state controllers for one NodeClaim: the instance `it` is
// launched, the status is filled in, and the cluster state sees the update.
func (w *lworld) launch(nc *v1.NodeClaim, pool, it int) error {
	w.seq++
	t := w.its[it]
	id := fmt.Sprintf("fake://node-%d", w.seq)
	if nc.Labels == nil {
		nc.Labels = map[string]string{}
	}
	nc.Labels[corev1.LabelInstanceTypeStable] = t.Name
	nc.Labels[corev1.LabelTopologyZone] = "test-zone-1"
	nc.Labels[v1.CapacityTypeLabelKey] = "on-demand"
	nc.Labels[corev1.LabelArchStable] = "amd64"
	nc.Labels[corev1.LabelOSStable] = "linux"
	for _, r := range nc.Spec.Requirements {
		if len(r.Values) == 0 {
			continue
		}
		switch r.Key {
		case corev1.LabelTopologyZone, v1.CapacityTypeLabelKey:
			vals := append([]string{}, r.Values...)
			sort.Strings(vals)
			if r.Operator == corev1.NodeSelectorOpIn {
				nc.Labels[r.Key] = vals[0]
			}
		}
	}
	// metadata first (the fake client resets the in-memory status on a plain Update), then the status
	if err := w.kube.Update(w.ctx, nc); err != nil {
		return fmt.Errorf("update labels: %w", err)
	}
	nc.Status.ProviderID = id
	nc.Status.Capacity = corev1.ResourceList{}
	for k, q := range t.Capacity {
		if !q.IsZero() {
			nc.Status.Capacity[k] = q
		}
	}
	nc.Status.Allocatable = corev1.ResourceList{}
	for k, q := range t.Allocatable() {
		if !q.IsZero() {
			nc.Status.Allocatable[k] = q
		}
	}
	nc.StatusConditions().SetTrue(v1.ConditionTypeLaunched)
	if err := w.kube.Status().Update(w.ctx, nc); err != nil {
		return fmt.Errorf("update status: %w", err)
	}
	if nc.Status.ProviderID != id {
		return fmt.Errorf("harness: status update lost the provider id")
	}
	w.cluster.UpdateNodeClaim(nc)
	w.nodes = append(w.nodes, &lnode{pool: pool, it: it, name: nc.Name, id: id})
	return nil
}

func (w *lworld) live() []*lnode {
	var out []*lnode
	for _, n := range w.nodes {
		if !n.gone {
			out = append(out, n)
		}
	}
	return out
}

func (w *lworld) event(e LEvent) error {
	ns := w.live()
	if len(ns) == 0 {
		return nil
	}
	n := ns[((e.I%len(ns))+len(ns))%len(ns)]
	switch e.K {
	case "markdel":
		w.cluster.MarkForDeletion(n.id)
		n.marked = true
	case "unmark":
		w.cluster.UnmarkForDeletion(n.id)
		n.marked = false
	case "delete":
		nc := &v1.NodeClaim{}
		if err := w.kube.Get(w.ctx, types.NamespacedName{Name: n.name}, nc); err == nil {
			if err := w.kube.Delete(w.ctx, nc); err != nil {
				return err
			}
		}
		w.cluster.DeleteNodeClaim(n.name)
		n.gone = true
	default:
		return fmt.Errorf("bad event %q", e.K)
	}
	return nil
}

func (w *lworld) addPod(r, i int, p LPod) error {
	opts := test.PodOptions{
		ObjectMeta: metav1.ObjectMeta{Name: fmt.Sprintf("pod-%d-%d", r, i), Labels: map[string]string{}},
		ResourceRequirements: corev1.ResourceRequirements{Requests: corev1.ResourceList{
			corev1.ResourceCPU:    *resource.NewMilliQuantity(p.CPU, resource.DecimalSI),
			corev1.ResourceMemory: *resource.NewQuantity(p.Mem*1024*1024, resource.BinarySI),
		}},
	}
	if p.Anti {
		opts.ObjectMeta.Labels["c03/anti"] = "x"
		opts.PodAntiRequirements = []corev1.PodAffinityTerm{{
			LabelSelector: &metav1.LabelSelector{MatchLabels: map[string]string{"c03/anti": "x"}},
			TopologyKey:   corev1.LabelHostname,
		}}
	}
	if p.Pool >= 0 {
		opts.NodeSelector = map[string]string{v1.NodePoolLabelKey: lpoolName(p.Pool % len(w.in.Pools))}
	}
	pod := test.UnschedulablePod(opts)
	pod.UID = nextUID("pod")
	pod.CreationTimestamp = metav1.NewTime(t0.Add(time.Duration(r*100+i) * time.Second))
	return w.kube.Create(w.ctx, pod)
}

func (w *lworld) optsOf(nc *v1.NodeClaim, pool int) []int {
	var names []string
	found := false
	for _, r := range nc.Spec.Requirements {
		if r.Key == corev1.LabelInstanceTypeStable && r.Operator == corev1.NodeSelectorOpIn {
			names = append(names, r.Values...)
			found = true
		}
	}
	var out []int
	if !found { // no instance-type requirement: every type of the pool is permitted
		out = append(out, w.in.Pools[pool].ITs...)
	}
	for _, n := range names {
		var i int
		if _, err := fmt.Sscanf(n, "it-%d", &i); err == nil {
			out = append(out, i)
		}
	}
	sort.Ints(out)
	return out
}

func (w *lworld) snapshot() []LPoolSnap {
	snaps := make([]LPoolSnap, len(w.in.Pools))
	for i := range snaps {
		snaps[i] = LPoolSnap{Existing: []int{}, Unlaunched: [][]int{}, New: [][]int{}, After: []int{}}
	}
	for _, n := range w.nodes {
		if !n.gone && !n.marked {
			snaps[n.pool].Existing = append(snaps[n.pool].Existing, n.it)
		}
	}
	for _, c := range w.pending {
		snaps[c.pool].Unlaunched = append(snaps[c.pool].Unlaunched, c.opts)
	}
	return snaps
}

// choose: the provider's pick among the permitted types. -1: the one with the largest capacity, resource by
// resource in the order of the pool's limited resources (sorted), then the largest index.
func (w *lworld) choose(c *lclaim, choice int) int {
	if len(c.opts) == 0 {
		return -1
	}
	if choice >= 0 {
		return c.opts[choice%len(c.opts)]
	}
	var keys []string
	for k := range w.in.Pools[c.pool].Limits {
		keys = append(keys, k)
	}
	sort.Strings(keys)
	keys = append(keys, "cpu", "memory")
	best := c.opts[0]
	for _, o := range c.opts[1:] {
		for _, k := range keys {
			a, b := w.in.Catalog[o].Cap[k], w.in.Catalog[best].Cap[k]
			if a != b {
				if a > b {
					best = o
				}
				break
			}
		}
	}
	return best
}

func (w *lworld) launchClaim(c *lclaim, choice int) error {
	nc := &v1.NodeClaim{}
	if err := w.kube.Get(w.ctx, types.NamespacedName{Name: c.name}, nc); err != nil {
		return err
	}
	it := w.choose(c, choice)
	if it < 0 {
		return fmt.Errorf("NodeClaim %s permits no instance type", c.name)
	}
	return w.launch(nc, c.pool, it)
}

func errClass(err error) string {
	if err == nil {
		return ""
	}
	if strings.Contains(err.Error(), "exceeds limit") {
		return "limit"
	}
	return "error"
}

func implLimits(raw json.RawMessage) (any, error) {
	var in LIn
	if err := json.Unmarshal(raw, &in); err != nil {
		return nil, err
	}
	if len(in.Pools) == 0 || len(in.Catalog) == 0 {
		return nil, fmt.Errorf("need pools and a catalog")
	}
	w, err := newLWorld(&in)
	if err != nil {
		return nil, err
	}
	out := LOut{Rounds: []LRoundOut{}}
	for r, round := range in.Rounds {
		for _, e := range round.Events {
			if err := w.event(e); err != nil {
				return nil, err
			}
		}
		for i, p := range round.Pods {
			if err := w.addPod(r, i, p); err != nil {
				return nil, err
			}
		}
		ro := LRoundOut{}
		older := w.pending
		w.pending = nil
		// Provisioner.Reconcile: `if !p.cluster.Synced(ctx) { requeue }` then Schedule, then CreateNodeClaims
		ro.Synced = w.cluster.Synced(w.ctx)
		w.pending = older
		ro.Pools = w.snapshot()
		var created []*lclaim
		if ro.Synced {
			ro.Ran = true
			results, err := w.prov.Schedule(w.ctx)
			if err != nil {
				ro.Err = errClass(err)
			} else if len(results.NewNodeClaims) > 0 {
				names, cerr := w.prov.CreateNodeClaims(w.ctx, results.NewNodeClaims, provisioning.WithReason("provisioned"))
				if cerr != nil {
					ro.Err = errClass(cerr)
					ro.Refused = strings.Count(cerr.Error(), "exceeds limit")
				}
				for i, name := range names {
					if name == "" {
						continue
					}
					nc := &v1.NodeClaim{}
					if err := w.kube.Get(w.ctx, types.NamespacedName{Name: name}, nc); err != nil {
						return nil, err
					}
					pool := -1
					fmt.Sscanf(results.NewNodeClaims[i].NodePoolName, "pool-%d", &pool)
					if pool < 0 || pool >= len(in.Pools) {
						return nil, fmt.Errorf("NodeClaim for unknown pool %q", results.NewNodeClaims[i].NodePoolName)
					}
					c := &lclaim{pool: pool, name: name, opts: w.optsOf(nc, pool), round: r}
					created = append(created, c)
					ro.Pools[pool].New = append(ro.Pools[pool].New, c.opts)
				}
			}
		}
		// the provider launches: first everything left over from earlier rounds, then this round's NodeClaims
		for _, c := range older {
			if err := w.launchClaim(c, -1); err != nil {
				return nil, err
			}
		}
		w.pending = nil
		for i, c := range created {
			choice := -1
			if i < len(round.Launch) {
				choice = round.Launch[i]
			}
			if choice == -2 {
				w.pending = append(w.pending, c)
				continue
			}
			if err := w.launchClaim(c, choice); err != nil {
				return nil, err
			}
		}
		for _, n := range w.nodes {
			if !n.gone && !n.marked {
				ro.Pools[n.pool].After = append(ro.Pools[n.pool].After, n.it)
			}
		}
		for i := range in.Pools {
			u := map[string]int64{}
			for k, q := range w.cluster.NodePoolResourcesFor(lpoolName(i)) {
				if !q.IsZero() {
					u[string(k)] = milliOf(string(k), q)
				}
			}
			ro.Usage = append(ro.Usage, u)
		}
		out.Rounds = append(out.Rounds, ro)
	}
	return out, nil
}

// ---------- generator ----------

var limitResources = []string{"cpu", "memory", "pods", "nodes", "example.com/gpu"}

func genLimits(r *rand.Rand, t core.Tier, withNodes bool) any {
	in := LIn{}
	// catalog: a ladder of sizes (cpu 1..32 cores, memory 2..4 GiB per core), some with a gpu, varied pod capacity
	nIT := 2 + r.IntN(5)
	cores := []int64{1, 2, 4, 8, 16, 32}
	for i := 0; i < nIT; i++ {
		c := cores[r.IntN(len(cores))]
		capm := map[string]int64{"cpu": c * 1000, "memory": c * int64(2+r.IntN(3)) * 1024 * 1000, "pods": int64(4+r.IntN(30)) * 1000}
		if r.Float64() < 0.25 {
			capm["example.com/gpu"] = int64(1+r.IntN(4)) * 1000
		}
		in.Catalog = append(in.Catalog, LIT{Cap: capm})
	}
	nPools := 1 + r.IntN(2)
	for p := 0; p < nPools; p++ {
		pool := LPool{}
		for i := 0; i < nIT; i++ {
			if r.Float64() < 0.8 {
				pool.ITs = append(pool.ITs, i)
			}
		}
		if len(pool.ITs) == 0 {
			pool.ITs = []int{r.IntN(nIT)}
		}
		if nPools > 1 && r.Float64() < 0.5 {
			pool.Weight = int32(1 + r.IntN(50))
		}
		if r.Float64() < 0.9 || withNodes {
			pool.Limits = map[string]int64{}
			// limits sit on instance-size boundaries so that "exactly fits" / "one milli short" both occur
			nl := 1 + r.IntN(2)
			for j := 0; j < nl; j++ {
				res := limitResources[r.IntN(len(limitResources))]
				if res == "nodes" && !withNodes {
					res = "cpu"
				}
				if withNodes && j == 0 {
					res = "nodes"
				}
				switch res {
				case "cpu":
					v := int64(1+r.IntN(40)) * 1000
					if r.Float64() < 0.15 {
						v += int64(r.IntN(3)) - 1
					}
					pool.Limits["cpu"] = v
				case "memory":
					pool.Limits["memory"] = int64(2+r.IntN(80)) * 1024 * 1000
				case "pods":
					pool.Limits["pods"] = int64(4+r.IntN(60)) * 1000
				case "nodes":
					pool.Limits["nodes"] = int64(r.IntN(6)) * 1000
				default:
					pool.Limits["example.com/gpu"] = int64(r.IntN(6)) * 1000
				}
			}
		}
		in.Pools = append(in.Pools, pool)
	}
	for i, n := 0, r.IntN(3); i < n; i++ {
		p := r.IntN(nPools)
		in.Existing = append(in.Existing, LNode{Pool: p, IT: in.Pools[p].ITs[r.IntN(len(in.Pools[p].ITs))]})
	}
	in.Exact = r.Float64() < 0.3
	nRounds := 1 + r.IntN(4)
	if t == core.Thorough {
		nRounds = 1 + r.IntN(6)
	}
	for k := 0; k < nRounds; k++ {
		round := LRound{}
		if k > 0 {
			for i, n := 0, r.IntN(3); i < n; i++ {
				round.Events = append(round.Events, LEvent{K: []string{"markdel", "markdel", "unmark", "delete"}[r.IntN(4)], I: r.IntN(8)})
			}
		}
		nPods := r.IntN(7)
		anti := r.Float64() < 0.4
		for i := 0; i < nPods; i++ {
			pod := LPod{CPU: []int64{100, 500, 900, 1500, 3500, 7000}[r.IntN(6)], Mem: []int64{64, 512, 1024, 4096}[r.IntN(4)], Pool: -1}
			if anti && r.Float64() < 0.8 {
				pod.Anti = true
			}
			if r.Float64() < 0.2 {
				pod.Pool = r.IntN(nPools)
			}
			if in.Exact {
				pod.CPU, pod.Mem, pod.Anti = 1, 1, true
			}
			round.Pods = append(round.Pods, pod)
		}
		for i := 0; i < nPods; i++ {
			switch x := r.Float64(); {
			case x < 0.6:
				round.Launch = append(round.Launch, -1)
			case x < 0.9:
				round.Launch = append(round.Launch, r.IntN(6))
			default:
				round.Launch = append(round.Launch, -2)
			}
		}
		in.Rounds = append(in.Rounds, round)
	}
	return in
}

// ---------- classification ----------

type limViolation struct {
	round, pool int
	res         string
	exhausted   bool // the limit was already reached at the start of the pass
}

// limitViolations recomputes, from the catalog and the recorded pools, where existing + worst(unlaunched + new) > limit
// in a round that created NodeClaims for the pool.
func limitViolations(in *LIn, out *LOut) []limViolation {
	var vs []limViolation
	usage := func(it int, res string) int64 {
		if res == "nodes" {
			return 1000
		}
		if it < 0 || it >= len(in.Catalog) {
			return 0
		}
		return in.Catalog[it].Cap[res]
	}
	worst := func(opts []int, res string) int64 {
		var m int64
		for _, o := range opts {
			if u := usage(o, res); u > m {
				m = u
			}
		}
		return m
	}
	for r, ro := range out.Rounds {
		for p, snap := range ro.Pools {
			if p >= len(in.Pools) || len(snap.New) == 0 {
				continue
			}
			for res, lim := range in.Pools[p].Limits {
				var before int64
				for _, it := range snap.Existing {
					before += usage(it, res)
				}
				for _, o := range snap.Unlaunched {
					before += worst(o, res)
				}
				total := before
				for _, o := range snap.New {
					total += worst(o, res)
				}
				if total > lim {
					vs = append(vs, limViolation{round: r, pool: p, res: res, exhausted: before >= lim})
				}
			}
		}
	}
	return vs
}

func decodeLimits(raw json.RawMessage, impl any) (*LIn, *LOut) {
	var in LIn
	json.Unmarshal(raw, &in)
	b, _ := json.Marshal(impl)
	var out LOut
	json.Unmarshal(b, &out)
	return &in, &out
}

func limitsSignature(raw json.RawMessage, impl any) string {
	in, out := decodeLimits(raw, impl)
	vs := limitViolations(in, out)
	if len(vs) == 0 {
		return "other"
	}
	for _, v := range vs {
		if v.res != "nodes" {
			return "limit-exceeded:" + v.res
		}
		if v.exhausted {
			return "nodes-limit-exhausted-at-pass-start"
		}
	}
	return "nodes-limit-not-decremented-within-pass"
}

func limitsLabels(raw json.RawMessage, impl any) []string {
	in, out := decodeLimits(raw, impl)
	ls := []string{fmt.Sprintf("rounds=%d", len(in.Rounds)), fmt.Sprintf("pools=%d", len(in.Pools))}
	if in.Exact {
		ls = append(ls, "exact-mode")
	}
	seen := map[string]bool{}
	add := func(s string) {
		if !seen[s] {
			seen[s] = true
			ls = append(ls, s)
		}
	}
	for _, p := range in.Pools {
		if p.Limits == nil {
			add("limits:none")
		}
		for k := range p.Limits {
			add("limit:" + k)
		}
	}
	for _, ro := range out.Rounds {
		if !ro.Synced {
			add("pass:skipped-unsynced")
		}
		if ro.Err != "" {
			add("err:" + ro.Err)
		}
		for _, s := range ro.Pools {
			if len(s.New) > 0 {
				add("pass:opened")
			}
			if len(s.New) > 1 {
				add("pass:opened>1")
			}
			for _, o := range s.New {
				if len(o) > 1 {
					add("claim:several-options")
				}
			}
		}
	}
	if limitBinds(in, out) {
		add("limit-binds")
	}
	return ls
}

// limitBinds: some pass left pods without capacity although the pool offers instance types, i.e. some NodeClaim was
// opened with fewer options than the pool offers or a round with pending demand opened nothing while a limit is set.
func limitBinds(in *LIn, out *LOut) bool {
	for _, ro := range out.Rounds {
		for p, s := range ro.Pools {
			if p >= len(in.Pools) || in.Pools[p].Limits == nil {
				continue
			}
			for _, o := range s.New {
				if len(o) < len(in.Pools[p].ITs) {
					return true
				}
			}
		}
	}
	// or: the final usage is within one smallest instance of a limit
	if n := len(out.Rounds); n > 0 {
		for p, u := range out.Rounds[n-1].Usage {
			if p >= len(in.Pools) {
				continue
			}
			for res, lim := range in.Pools[p].Limits {
				minCap := int64(1 << 62)
				for _, it := range in.Pools[p].ITs {
					c := in.Catalog[it].Cap[res]
					if res == "nodes" {
						c = 1000
					}
					if c < minCap {
						minCap = c
					}
				}
				if u[res]+minCap > lim {
					return true
				}
			}
		}
	}
	return false
}

func shrinkLimits(raw json.RawMessage) []any {
	var in LIn
	json.Unmarshal(raw, &in)
	var out []any
	cp := func() LIn {
		var c LIn
		b, _ := json.Marshal(in)
		json.Unmarshal(b, &c)
		return c
	}
	for i := len(in.Rounds) - 1; i >= 0 && len(in.Rounds) > 1; i-- {
		c := cp()
		c.Rounds = append(c.Rounds[:i], c.Rounds[i+1:]...)
		out = append(out, c)
	}
	for i := range in.Rounds {
		for j := range in.Rounds[i].Pods {
			c := cp()
			c.Rounds[i].Pods = append(c.Rounds[i].Pods[:j], c.Rounds[i].Pods[j+1:]...)
			out = append(out, c)
		}
		if len(in.Rounds[i].Events) > 0 {
			c := cp()
			c.Rounds[i].Events = nil
			out = append(out, c)
		}
		if len(in.Rounds[i].Launch) > 0 {
			c := cp()
			c.Rounds[i].Launch = nil
			out = append(out, c)
		}
	}
	for i := range in.Existing {
		c := cp()
		c.Existing = append(c.Existing[:i], c.Existing[i+1:]...)
		out = append(out, c)
	}
	if len(in.Pools) > 1 {
		c := cp()
		c.Pools = c.Pools[:1]
		var ex []LNode
		for _, n := range c.Existing {
			if n.Pool == 0 {
				ex = append(ex, n)
			}
		}
		c.Existing = ex
		out = append(out, c)
	}
	for p := range in.Pools {
		for k := range in.Pools[p].Limits {
			if len(in.Pools[p].Limits) > 1 {
				c := cp()
				delete(c.Pools[p].Limits, k)
				out = append(out, c)
			}
		}
	}
	return out
}

func limitsOps() []*core.Op {
	return []*core.Op{
		{
			Name: "c03.limitspass",
			Doc:  "multi-round histories on the real provisioner: per round Cluster.Synced gate, Provisioner.Schedule, CreateNodeClaims (Create with Limits.ExceededBy), then a provider whose launch choice is dictated by the input (largest permitted type / any / delayed), nodes marked for deletion, unmarked, deleted between rounds; NodePoolResourcesFor observed each round; limits on cpu / memory / pods / an extended resource",
			N: func(t core.Tier) int {
				if t == core.Thorough {
					return 1600
				}
				return 250
			},
			Gen:  func(r *rand.Rand, t core.Tier) any { return genLimits(r, t, false) },
			Impl: implLimits,
			Rule: "random catalogs (2-6 types, 1-32 cores, optional gpu), 1-2 pools with 1-2 limits among cpu/memory/pods/gpu placed on instance-size boundaries (10% no limits), 0-2 pre-existing nodes, 1-4 rounds (thorough 1-6) of 0-6 pods (40% of rounds hostname-anti-affine), launch choice largest/any/delayed; non-trivial = a limit binds (a NodeClaim was opened with fewer options than the pool offers, or the final usage is within one smallest instance of a limit)",
			Nontrivial: func(raw json.RawMessage, impl any) bool {
				in, out := decodeLimits(raw, impl)
				return limitBinds(in, out)
			},
			Labels:    limitsLabels,
			Signature: limitsSignature,
			Shrink:    shrinkLimits,
		},
		{
			Name: "c03.limitsnodes",
			Doc:  "the same histories with a `limits.nodes` on every (dynamic) pool: the node limit across rounds (existing nodes are subtracted, an exhausted limit stops the pass) and within a pass (reproduces the recorded finding: subtractMax does not decrement `nodes`)",
			N: func(t core.Tier) int {
				if t == core.Thorough {
					return 60
				}
				return 36
			},
			Gen:  func(r *rand.Rand, t core.Tier) any { return genLimits(r, t, true) },
			Impl: implLimits,
			Rule: "as c03.limitspass, every pool has limits.nodes in 0..5 (plus possibly a second limit); non-trivial = a limit binds",
			Nontrivial: func(raw json.RawMessage, impl any) bool {
				in, out := decodeLimits(raw, impl)
				return limitBinds(in, out)
			},
			Labels:    limitsLabels,
			Signature: limitsSignature,
			Shrink: func(raw json.RawMessage) []any {
				// inputs of the recorded class are not minimised again on every run (each candidate is a whole
				// multi-round history on the real provisioner); anything else is
				if out, err := implLimits(raw); err == nil && limitsSignature(raw, out) == "nodes-limit-not-decremented-within-pass" {
					return nil
				}
				return shrinkLimits(raw)
			},
		},
	}
}
