package c03

// A static (replica-based) NodePool next to the pod-driven provisioner, and the routing of its events.
//
// c03.staticpods: histories in which whole reconciles of the REAL static provisioning / deprovisioning controllers
// interleave with whole passes of the REAL pod-driven provisioner (Provisioner.Schedule -> NewScheduler -> Solve, then
// CreateNodeClaims, gated by Cluster.Synced as in Provisioner.Reconcile) for pending pods, some of which select the
// static pool; the static pool has ANY replica count including the boundary 0 (scaled to zero / created empty), an
// optional limits.nodes and weight; a dynamic NodePool may or may not exist.  The size of a replica-based pool is
// given by spec.replicas alone: no pod-driven pass may add a NodeClaim to it.
//
// c03.staticroute: which NodePool / NodeClaim events reach the static controllers (nodepoolutils.IsStatic,
// IsStaticPredicateFuncs, NodeClaimEventHandler(WithStaticOnly)) for every replica value (unset, 0, 1, ...).

import (
	"context"
	"encoding/json"
	"fmt"
	"math/rand/v2"
	"time"

	corev1 "k8s.io/api/core/v1"
	"k8s.io/apimachinery/pkg/api/resource"
	metav1 "k8s.io/apimachinery/pkg/apis/meta/v1"
	"k8s.io/client-go/util/workqueue"
	"sigs.k8s.io/controller-runtime/pkg/client"
	"sigs.k8s.io/controller-runtime/pkg/client/interceptor"
	"sigs.k8s.io/controller-runtime/pkg/event"
	"sigs.k8s.io/controller-runtime/pkg/reconcile"

	v1 "sigs.k8s.io/karpenter/pkg/apis/v1"
	"sigs.k8s.io/karpenter/pkg/controllers/provisioning"
	"sigs.k8s.io/karpenter/pkg/test"
	nodepoolutils "sigs.k8s.io/karpenter/pkg/utils/nodepool"

	"verifharness/internal/core"
)

const dynPool = "dyn-pool"

type MStep struct {
	S string `json:"s"` // prov | deprov | launch | reap | scale | pods
	N int64  `json:"n,omitempty"`
	// for `pods`: one entry per pending pod, 0 = no node selector, 1 = selects the static pool's nodes
	Pods []int `json:"pods,omitempty"`
}

type MIn struct {
	Replicas  int64   `json:"replicas"`
	Limit     *int64  `json:"limit"`
	Weight    int32   `json:"weight"`    // weight of the static pool
	Dyn       bool    `json:"dyn"`       // a dynamic NodePool exists as well
	DynWeight int32   `json:"dynWeight"` // its weight
	Steps     []MStep `json:"steps"`
}

type MObs struct {
	SObs
	Ran         bool `json:"ran"`         // a `pods` step: the cluster state was synced, the pass ran
	DynTotal    int  `json:"dynTotal"`    // NodeClaims of the dynamic pool in the API
	DynPending  int  `json:"dynPending"`  // ... of which not launched yet
	OtherClaims int  `json:"otherClaims"` // NodeClaims of neither pool (never expected)
}

type MOut struct {
	Obs      []MObs `json:"obs"`
	Reserved int64  `json:"reserved"`
}

func (w *sworld) dynClaims() (all, unlaunched []*v1.NodeClaim, other int, err error) {
	list := &v1.NodeClaimList{}
	if err := w.kube.List(w.ctx, list); err != nil {
		return nil, nil, 0, err
	}
	for i := range list.Items {
		nc := &list.Items[i]
		switch nc.Labels[v1.NodePoolLabelKey] {
		case staticPool:
		case dynPool:
			all = append(all, nc)
			if nc.Status.ProviderID == "" {
				unlaunched = append(unlaunched, nc)
			}
		default:
			other++
		}
	}
	return all, unlaunched, other, nil
}

// podPass: pending pods appear, one pass of the pod-driven provisioner runs (as Provisioner.Reconcile does it: only
// when the cluster state is synced), the pods go away again (they are rescheduled or deleted by their owner).
func (w *sworld) podPass(step int, sel []int) (ran bool, cls string, err error) {
	var pods []*corev1.Pod
	for i, s := range sel {
		opts := test.PodOptions{
			ObjectMeta: metav1.ObjectMeta{Name: fmt.Sprintf("pod-%d-%d", step, i)},
			ResourceRequirements: corev1.ResourceRequirements{Requests: corev1.ResourceList{
				corev1.ResourceCPU: resource.MustParse("1"),
			}},
		}
		if s == 1 {
			opts.NodeSelector = map[string]string{v1.NodePoolLabelKey: staticPool}
		}
		pod := test.UnschedulablePod(opts)
		pod.UID = nextUID("pod")
		pod.CreationTimestamp = metav1.NewTime(t0.Add(time.Duration(step*100+i) * time.Second))
		if err := w.kube.Create(w.ctx, pod); err != nil {
			return false, "", err
		}
		pods = append(pods, pod)
	}
	if w.cluster.Synced(w.ctx) {
		ran = true
		cls = guard(func() error {
			results, err := w.pr.Schedule(w.ctx)
			if err != nil {
				return err
			}
			if len(results.NewNodeClaims) == 0 {
				return nil
			}
			_, err = w.pr.CreateNodeClaims(w.ctx, results.NewNodeClaims, provisioning.WithReason("provisioned"))
			return err
		})
	}
	for _, p := range pods {
		if err := w.kube.Delete(w.ctx, p); err != nil {
			return ran, cls, err
		}
	}
	return ran, cls, nil
}

func implStaticPods(raw json.RawMessage) (any, error) {
	var in MIn
	if err := json.Unmarshal(raw, &in); err != nil {
		return nil, err
	}
	if in.Replicas < 0 {
		return nil, fmt.Errorf("replicas < 0")
	}
	var extra []client.Object
	if in.Dyn {
		np := test.NodePool(v1.NodePool{ObjectMeta: metav1.ObjectMeta{Name: dynPool, UID: nextUID("np")}})
		np.CreationTimestamp = metav1.NewTime(t0)
		np.Spec.Limits = nil
		if in.DynWeight > 0 {
			np.Spec.Weight = &in.DynWeight
		}
		extra = append(extra, np)
	}
	w, err := newSWorldWith(&SIn{Replicas: in.Replicas, Limit: in.Limit}, in.Weight, extra...)
	if err != nil {
		return nil, err
	}
	out := MOut{Obs: []MObs{}}
	for i, s := range in.Steps {
		var o MObs
		switch s.S {
		case "pods":
			ran, cls, err := w.podPass(i, s.Pods)
			if err != nil {
				return nil, err
			}
			// the observation of the static pool after the pass (a no-op step of the static world)
			so, err := w.step(SStep{S: "observe"})
			if err != nil {
				return nil, err
			}
			o.SObs = so
			o.Ran, o.Err = ran, cls
		case "prov", "deprov", "launch", "reap", "scale":
			so, err := w.step(SStep{S: s.S, N: s.N})
			if err != nil {
				return nil, err
			}
			o.SObs = so
			if s.S == "launch" {
				_, unl, _, err := w.dynClaims()
				if err != nil {
					return nil, err
				}
				for _, nc := range unl {
					w.seq++
					nc.Status.ProviderID = fmt.Sprintf("fake://dyn-%d", w.seq)
					nc.Status.Capacity = corev1.ResourceList{corev1.ResourceCPU: resource.MustParse("4"), corev1.ResourcePods: resource.MustParse("10")}
					nc.Status.Allocatable = nc.Status.Capacity
					nc.StatusConditions().SetTrue(v1.ConditionTypeLaunched)
					if err := w.kube.Status().Update(w.ctx, nc); err != nil {
						return nil, err
					}
					w.cluster.UpdateNodeClaim(nc)
				}
			}
		default:
			return nil, fmt.Errorf("bad step %q", s.S)
		}
		all, unl, other, err := w.dynClaims()
		if err != nil {
			return nil, err
		}
		o.DynTotal, o.DynPending, o.OtherClaims = len(all), len(unl), other
		out.Obs = append(out.Obs, o)
	}
	const big = 1_000_000
	cls := guard(func() error {
		a, d, p := w.cluster.NodePoolState.GetNodeCount(staticPool)
		g := w.cluster.NodePoolState.ReserveNodeCount(staticPool, int64(a+d+p)+big, big)
		out.Reserved = big - g
		w.cluster.NodePoolState.ReleaseNodeCount(staticPool, g)
		return nil
	})
	if cls != "" {
		out.Reserved = -1
	}
	return out, nil
}

func genPods(r *rand.Rand) []int {
	n := 1 + r.IntN(3)
	out := make([]int, n)
	for i := range out {
		if r.Float64() < 0.4 {
			out[i] = 1
		}
	}
	return out
}

func genStaticPods(r *rand.Rand, t core.Tier) any {
	in := MIn{Dyn: r.Float64() < 0.7}
	if r.Float64() >= 0.4 { // 40%: the boundary replicas = 0
		in.Replicas = int64(1 + r.IntN(3))
	}
	if r.Float64() < 0.6 {
		l := in.Replicas + int64(r.IntN(3))
		if r.Float64() < 0.3 {
			l = 5
		}
		in.Limit = &l
	}
	in.Weight = []int32{0, 0, 50, 10}[r.IntN(4)]
	in.DynWeight = []int32{0, 0, 50, 10}[r.IntN(4)]
	n := 2 + r.IntN(8)
	if t == core.Thorough {
		n = 2 + r.IntN(14)
	}
	if r.Float64() < 0.7 {
		in.Steps = append(in.Steps, MStep{S: "prov"})
		if r.Float64() < 0.7 {
			in.Steps = append(in.Steps, MStep{S: "launch"})
		}
	}
	for len(in.Steps) < n {
		switch x := r.Float64(); {
		case x < 0.20:
			in.Steps = append(in.Steps, MStep{S: "prov"})
		case x < 0.34:
			in.Steps = append(in.Steps, MStep{S: "deprov"})
		case x < 0.52:
			in.Steps = append(in.Steps, MStep{S: "launch"})
		case x < 0.60:
			in.Steps = append(in.Steps, MStep{S: "reap"})
		case x < 0.70:
			k := int64(r.IntN(4))
			if r.Float64() < 0.4 {
				k = 0
			}
			in.Steps = append(in.Steps, MStep{S: "scale", N: k})
			if r.Float64() < 0.5 {
				in.Steps = append(in.Steps, MStep{S: "deprov"}, MStep{S: "reap"})
			}
		default:
			in.Steps = append(in.Steps, MStep{S: "pods", Pods: genPods(r)})
		}
	}
	return in
}

// every combination of replicas 0..2 x dynamic pool or not x weight order x pod selection x three history shapes
func enumStaticPods(core.Tier) []any {
	var out []any
	five := int64(5)
	for _, rep := range []int64{0, 1, 2} {
		for _, dyn := range []bool{false, true} {
			for _, wt := range []int32{0, 50} {
				for _, pods := range [][]int{{0}, {1}, {0, 1, 0}} {
					for _, lim := range []*int64{map[bool]*int64{false: nil, true: &five}[wt == 50]} {
						base := MIn{Replicas: rep, Limit: lim, Weight: wt, Dyn: dyn, DynWeight: 10}
						a := base
						a.Steps = []MStep{{S: "prov"}, {S: "launch"}, {S: "pods", Pods: pods}, {S: "launch"}, {S: "deprov"}, {S: "reap"}, {S: "prov"}, {S: "pods", Pods: pods}}
						b := base
						b.Steps = []MStep{{S: "pods", Pods: pods}, {S: "prov"}, {S: "deprov"}}
						c := base
						c.Steps = []MStep{{S: "prov"}, {S: "launch"}, {S: "scale", N: 0}, {S: "deprov"}, {S: "reap"}, {S: "pods", Pods: pods}, {S: "launch"}, {S: "deprov"}, {S: "prov"}}
						out = append(out, a, b, c)
					}
				}
			}
		}
	}
	return out
}

func decodeStaticPods(raw json.RawMessage, impl any) (*MIn, *MOut) {
	var in MIn
	json.Unmarshal(raw, &in)
	b, _ := json.Marshal(impl)
	var out MOut
	json.Unmarshal(b, &out)
	return &in, &out
}

// ---------- routing of events ----------

type RIn struct {
	Replicas    *int64 `json:"replicas"`    // spec.replicas of the NodePool (of the new object of an Update event)
	OldReplicas *int64 `json:"oldReplicas"` // spec.replicas of the old object of the Update event
	Claim       string `json:"claim"`       // the NodeClaim of the NodeClaim event: "pool" (labelled with the pool), "unknown" (labelled with a pool that does not exist), "nolabel"
}

type ROut struct {
	IsStatic bool `json:"isStatic"`
	Create   bool `json:"create"`
	Update   bool `json:"update"`
	Delete   bool `json:"delete"`
	Generic  bool `json:"generic"`
	// reconcile requests of the NodeClaim event handler: static-only (the static controllers) / plain
	ClaimStatic int `json:"claimStatic"`
	ClaimPlain  int `json:"claimPlain"`
}

func implStaticRoute(raw json.RawMessage) (any, error) {
	var in RIn
	if err := json.Unmarshal(raw, &in); err != nil {
		return nil, err
	}
	mk := func(rep *int64) *v1.NodePool {
		np := test.NodePool(v1.NodePool{ObjectMeta: metav1.ObjectMeta{Name: "route-pool", UID: nextUID("np")}})
		np.CreationTimestamp = metav1.NewTime(t0)
		if rep != nil {
			v := *rep
			np.Spec.Replicas = &v
		}
		return np
	}
	np, old := mk(in.Replicas), mk(in.OldReplicas)
	out := ROut{IsStatic: nodepoolutils.IsStatic(np)}
	pf := nodepoolutils.IsStaticPredicateFuncs()
	out.Create = pf.Create(event.CreateEvent{Object: np})
	out.Update = pf.Update(event.UpdateEvent{ObjectOld: old, ObjectNew: np})
	out.Delete = pf.Delete(event.DeleteEvent{Object: np})
	out.Generic = pf.Generic(event.GenericEvent{Object: np})

	kube := newClient(interceptor.Funcs{}, np)
	nc := &v1.NodeClaim{ObjectMeta: metav1.ObjectMeta{Name: "route-claim", UID: nextUID("nc"), Labels: map[string]string{}}}
	switch in.Claim {
	case "pool":
		nc.Labels[v1.NodePoolLabelKey] = np.Name
	case "unknown":
		nc.Labels[v1.NodePoolLabelKey] = "no-such-pool"
	case "nolabel":
	default:
		return nil, fmt.Errorf("bad claim %q", in.Claim)
	}
	count := func(staticOnly bool) int {
		q := workqueue.NewTypedRateLimitingQueue(workqueue.DefaultTypedControllerRateLimiter[reconcile.Request]())
		defer q.ShutDown()
		h := nodepoolutils.NodeClaimEventHandler(nodepoolutils.WithClient(kube))
		if staticOnly {
			h = nodepoolutils.NodeClaimEventHandler(nodepoolutils.WithClient(kube), nodepoolutils.WithStaticOnly)
		}
		h.Create(context.Background(), event.CreateEvent{Object: nc}, q)
		return q.Len()
	}
	out.ClaimStatic, out.ClaimPlain = count(true), count(false)
	return out, nil
}

func optRep(r *rand.Rand) *int64 {
	switch x := r.Float64(); {
	case x < 0.3:
		return nil
	case x < 0.6:
		z := int64(0)
		return &z
	default:
		v := int64(1 + r.IntN(1000))
		return &v
	}
}

func staticPodsOps() []*core.Op {
	return []*core.Op{
		{
			Name: "c03.staticpods",
			Doc:  "histories of whole reconciles of the real static provisioning / deprovisioning controllers interleaved with whole passes of the real pod-driven provisioner (Provisioner.Schedule -> NewScheduler -> Solve, CreateNodeClaims, gated by Cluster.Synced) for pending pods (some selecting the static pool), launches, deletions completing and replica edits; the static pool has any replica count including 0, a dynamic pool may exist; model = implementation for the static pool step by step (a pod-driven pass leaves it alone), and the observer specification (static spec + 'the size of a replica-based pool is decided by spec.replicas only') is evaluated on the real outcome",
			N: func(t core.Tier) int {
				if t == core.Thorough {
					return 1200
				}
				return 160
			},
			Gen:            genStaticPods,
			Enum:           enumStaticPods,
			ExhaustiveNote: "replicas {0,1,2} x dynamic pool present or not x static pool weight 0 without limits.nodes / 50 with limits.nodes 5 (dynamic pool 10) x pods {[any],[static],[any,static,any]} x 3 history shapes (grow-then-pods, pods-first, scale-to-zero-then-pods)",
			Impl:           implStaticPods,
			Rule:           "random histories of 2..9 steps (thorough 2..15): replicas 0 (40%) / 1..3, limits.nodes none / replicas+{0,1,2} / 5, weights {0,10,50} for both pools, dynamic pool present 70%, pod batches of 1..3 pods (40% selecting the static pool); non-trivial = a pod-driven pass ran while the static pool existed with replicas 0, or created NodeClaims for the dynamic pool next to a static pool, or ran with pods selecting the static pool",
			Nontrivial: func(raw json.RawMessage, impl any) bool {
				in, out := decodeStaticPods(raw, impl)
				rep, prevDyn := in.Replicas, 0
				for i, o := range out.Obs {
					if i >= len(in.Steps) {
						break
					}
					s := in.Steps[i]
					if s.S == "scale" {
						rep = s.N
					}
					if s.S == "pods" && o.Ran {
						sel := false
						for _, p := range s.Pods {
							sel = sel || p == 1
						}
						if rep == 0 || o.DynTotal > prevDyn || sel {
							return true
						}
					}
					prevDyn = o.DynTotal
				}
				return false
			},
			Labels: func(raw json.RawMessage, impl any) []string {
				in, out := decodeStaticPods(raw, impl)
				seen := map[string]bool{}
				var ls []string
				add := func(s string) {
					if !seen[s] {
						seen[s] = true
						ls = append(ls, s)
					}
				}
				add(fmt.Sprintf("dyn:%v", in.Dyn))
				if in.Weight > in.DynWeight {
					add("weight:static-first")
				} else if in.Weight < in.DynWeight {
					add("weight:dynamic-first")
				} else {
					add("weight:equal")
				}
				rep, prevDyn := in.Replicas, 0
				for i, o := range out.Obs {
					if i >= len(in.Steps) {
						break
					}
					s := in.Steps[i]
					add("step:" + s.S)
					if s.S == "scale" {
						rep = s.N
					}
					if s.S == "pods" {
						if !o.Ran {
							add("pods:gate-closed")
						} else {
							if rep == 0 {
								add("pods:replicas=0")
							} else {
								add("pods:replicas>0")
							}
							if o.DynTotal > prevDyn {
								add("pods:dynamic-created")
							}
							if o.Total-o.Deleting > 0 {
								add("pods:static-nodes-exist")
							}
							for _, p := range s.Pods {
								if p == 1 {
									add("pods:select-static")
								}
							}
						}
						if o.Err != "" {
							add("pods:" + o.Err)
						}
					}
					prevDyn = o.DynTotal
				}
				return ls
			},
			Signature: func(json.RawMessage, any) string { return "staticpods" },
			Shrink: func(raw json.RawMessage) []any {
				var in MIn
				json.Unmarshal(raw, &in)
				var out []any
				for _, c := range core.ShrinkList(in.Steps) {
					m := in
					m.Steps = c
					out = append(out, m)
				}
				if in.Limit != nil {
					m := in
					m.Limit = nil
					out = append(out, m)
				}
				return out
			},
		},
		{
			Name: "c03.staticroute",
			Doc:  "which NodePool and NodeClaim events are routed to the static controllers: the real nodepoolutils.IsStatic, IsStaticPredicateFuncs (Create/Update/Delete/Generic) and NodeClaimEventHandler (static-only and plain, on the fake client) for every replica value - unset, 0, 1, large - of the new and the old object; model = implementation, specification: a NodePool is replica-based exactly when spec.replicas is set, whatever its value",
			N: func(t core.Tier) int {
				if t == core.Thorough {
					return 300
				}
				return 60
			},
			Gen: func(r *rand.Rand, _ core.Tier) any {
				return RIn{Replicas: optRep(r), OldReplicas: optRep(r), Claim: []string{"pool", "pool", "unknown", "nolabel"}[r.IntN(4)]}
			},
			Enum: func(core.Tier) []any {
				var out []any
				vals := []*int64{nil}
				for _, v := range []int64{0, 1, 2, 5} {
					v := v
					vals = append(vals, &v)
				}
				for _, a := range vals {
					for _, b := range vals {
						for _, c := range []string{"pool", "unknown", "nolabel"} {
							out = append(out, RIn{Replicas: a, OldReplicas: b, Claim: c})
						}
					}
				}
				return out
			},
			ExhaustiveNote: "spec.replicas of the new and of the old object in {unset,0,1,2,5} x NodeClaim {of the pool, of an unknown pool, unlabelled}",
			Impl:           implStaticRoute,
			Rule:           "replicas unset 30% / 0 30% / 1..1000; non-trivial = the NodePool has spec.replicas set",
			Nontrivial: func(raw json.RawMessage, _ any) bool {
				var in RIn
				json.Unmarshal(raw, &in)
				return in.Replicas != nil
			},
			Labels: func(raw json.RawMessage, _ any) []string {
				var in RIn
				json.Unmarshal(raw, &in)
				l := "replicas:>0"
				if in.Replicas == nil {
					l = "replicas:unset"
				} else if *in.Replicas == 0 {
					l = "replicas:0"
				}
				return []string{l, "claim:" + in.Claim}
			},
			Signature: func(json.RawMessage, any) string { return "staticroute" },
		},
	}
}
