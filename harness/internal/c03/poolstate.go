package c03

// Static-pool bookkeeping: the real state.NodePoolState driven by op sequences.
//
//   c03.poolstate  arbitrary (also ill-formed) sequences; model ≡ implementation, output by output
//   c03.poolspec   interleavings of the controllers' call protocols that never garbage-collect a pool entry
//                  carrying PendingDisruption claims / an outstanding reservation; the ledger specification is
//                  evaluated on what the real code answered
//   c03.poolgc     the same interleavings without that restriction (reproduces the recorded findings)

import (
	"encoding/json"
	"fmt"
	"math"
	"math/rand/v2"
	"sort"

	metav1 "k8s.io/apimachinery/pkg/apis/meta/v1"

	v1 "sigs.k8s.io/karpenter/pkg/apis/v1"
	"sigs.k8s.io/karpenter/pkg/controllers/state"

	"verifharness/internal/core"
)

// POp is one call on NodePoolState. np/nc are indices: 0 is the empty string, i>0 is "np-i" / "nc-i".
//
//	upd   UpdateNodeClaim(claim nc with nodepool label np, markedForDeletion = a!=0)
//	act   MarkNodeClaimActive(np, nc)          del  MarkNodeClaimDeleting(np, nc)
//	pen   MarkNodeClaimPendingDisruption(np, nc)
//	clean Cleanup(nc)                          count GetNodeCount(np)
//	res   ReserveNodeCount(np, limit=a, wanted=b)      rel  ReleaseNodeCount(np, a)
//	map   SetNodeClaimMapping(np, nc)          reset Reset()
type POp struct {
	O  string `json:"o"`
	NP int    `json:"np,omitempty"`
	NC int    `json:"nc,omitempty"`
	A  int64  `json:"a,omitempty"`
	B  int64  `json:"b,omitempty"`
}

type PoolIn struct {
	Ops []POp `json:"ops"`
}

type POut struct {
	K string `json:"k"` // u | c | g | panic
	A *int   `json:"a,omitempty"`
	D *int   `json:"d,omitempty"`
	P *int   `json:"p,omitempty"`
	G *int64 `json:"g,omitempty"`
}

type PoolOut struct {
	Out []POut `json:"out"`
}

func poolName(i int) string {
	if i == 0 {
		return ""
	}
	return fmt.Sprintf("np-%d", i)
}

func claimName(i int) string {
	if i == 0 {
		return ""
	}
	return fmt.Sprintf("nc-%d", i)
}

func runPoolOp(s *state.NodePoolState, op POp) (out POut) {
	defer func() {
		if r := recover(); r != nil {
			out = POut{K: "panic"}
		}
	}()
	np, nc := poolName(op.NP), claimName(op.NC)
	switch op.O {
	case "upd":
		claim := &v1.NodeClaim{ObjectMeta: metav1.ObjectMeta{Name: nc, Labels: map[string]string{}}}
		if np != "" {
			claim.Labels[v1.NodePoolLabelKey] = np
		}
		s.UpdateNodeClaim(claim, op.A != 0)
	case "act":
		s.MarkNodeClaimActive(np, nc)
	case "del":
		s.MarkNodeClaimDeleting(np, nc)
	case "pen":
		s.MarkNodeClaimPendingDisruption(np, nc)
	case "clean":
		s.Cleanup(nc)
	case "count":
		a, d, p := s.GetNodeCount(np)
		return POut{K: "c", A: &a, D: &d, P: &p}
	case "res":
		g := s.ReserveNodeCount(np, op.A, op.B)
		return POut{K: "g", G: &g}
	case "rel":
		s.ReleaseNodeCount(np, op.A)
	case "map":
		s.SetNodeClaimMapping(np, nc)
	case "reset":
		s.Reset()
	default:
		panic("bad op " + op.O)
	}
	return POut{K: "u"}
}

func implPool(raw json.RawMessage) (any, error) {
	var in PoolIn
	if err := json.Unmarshal(raw, &in); err != nil {
		return nil, err
	}
	for _, op := range in.Ops {
		switch op.O {
		case "upd", "act", "del", "pen", "clean", "count", "res", "rel", "map", "reset":
		default:
			return nil, fmt.Errorf("bad op %q", op.O)
		}
	}
	s := state.NewNodePoolState()
	out := PoolOut{Out: []POut{}}
	for _, op := range in.Ops {
		out.Out = append(out.Out, runPoolOp(s, op))
	}
	return out, nil
}

// ---------- the ledger, Go side (used by the generators to predict grants, and by Signature) ----------

const (
	phActive = iota
	phDeleting
	phPending
)

type ledger struct {
	owner map[int]int // claim -> pool
	phase map[int]int
	out   map[int]int64 // pool -> outstanding grant units
	// what a garbage collection of the pool entry threw away (as the code at the pinned commit does it)
	lostPending  map[int]map[int]bool
	lostReserved map[int]bool
}

func newLedger() *ledger {
	return &ledger{owner: map[int]int{}, phase: map[int]int{}, out: map[int]int64{}, lostPending: map[int]map[int]bool{}, lostReserved: map[int]bool{}}
}

func (l *ledger) claims(np, ph int) []int {
	var cs []int
	for c, p := range l.owner {
		if p == np && (ph < 0 || l.phase[c] == ph) {
			cs = append(cs, c)
		}
	}
	sort.Ints(cs)
	return cs
}

func (l *ledger) count(np int) int64 { return int64(len(l.claims(np, -1))) }

func (l *ledger) expectedGrant(np int, limit, wanted int64) int64 {
	room := limit - l.count(np) - l.out[np]
	if room < 0 {
		return 0
	}
	if wanted > room {
		return room
	}
	return wanted
}

// wouldLoseOnCleanup: removing claim c empties Active and Deleting of its pool while PendingDisruption claims
// or granted slots remain (the entry is then garbage-collected by the code as it is).
func (l *ledger) wouldLoseOnCleanup(c int) (pending, reserved bool) {
	np, ok := l.owner[c]
	if !ok {
		return false, false
	}
	for _, x := range l.claims(np, -1) {
		if x != c && l.phase[x] != phPending {
			return false, false
		}
	}
	for _, x := range l.claims(np, phPending) {
		if x != c {
			pending = true
		}
	}
	return pending, l.out[np] > 0
}

func (l *ledger) setPhase(np, c, ph int) {
	l.owner[c] = np
	l.phase[c] = ph
	if lp := l.lostPending[np]; lp != nil {
		delete(lp, c) // re-added to the implementation's sets
	}
}

// apply advances the ledger by one protocol event; grant is what the observed system answered to a reserve.
func (l *ledger) apply(op POp, grant int64) {
	switch op.O {
	case "upd":
		if op.A != 0 {
			l.setPhase(op.NP, op.NC, phDeleting)
		} else {
			l.setPhase(op.NP, op.NC, phActive)
		}
	case "act":
		l.setPhase(op.NP, op.NC, phActive)
	case "del":
		l.setPhase(op.NP, op.NC, phDeleting)
	case "pen":
		l.setPhase(op.NP, op.NC, phPending)
	case "clean":
		np, ok := l.owner[op.NC]
		if !ok {
			return
		}
		pend, res := l.wouldLoseOnCleanup(op.NC)
		if pend {
			if l.lostPending[np] == nil {
				l.lostPending[np] = map[int]bool{}
			}
			for _, x := range l.claims(np, phPending) {
				if x != op.NC {
					l.lostPending[np][x] = true
				}
			}
		}
		if res {
			l.lostReserved[np] = true
		}
		delete(l.owner, op.NC)
		delete(l.phase, op.NC)
		if lp := l.lostPending[np]; lp != nil {
			delete(lp, op.NC)
		}
	case "res":
		l.out[op.NP] += grant
	case "rel":
		l.out[op.NP] -= op.A
		if l.out[op.NP] <= 0 {
			l.out[op.NP] = 0
			delete(l.lostReserved, op.NP)
		}
	}
}

// ---------- protocol interleaving generator ----------

type unit struct {
	np     int
	drift  bool
	victim int
	stage  int // 0 granted, 1 victim marked pending (drift), 2 create attempted, 3 released
	made   bool
}

type sim struct {
	r        *rand.Rand
	l        *ledger
	ops      []POp
	units    []*unit
	replicas map[int]int64
	limit    map[int]int64
	next     int
	avoidGC  bool
	// statistics for labels
	clamped, crossed, lossy bool
}

func (s *sim) emit(op POp) int64 {
	var g int64
	if op.O == "res" {
		g = s.l.expectedGrant(op.NP, op.A, op.B)
		if g < op.B {
			s.clamped = true
		}
	}
	if op.O != "res" && op.O != "rel" && op.O != "count" && s.l.out[op.NP] > 0 {
		s.crossed = true
	}
	s.l.apply(op, g)
	s.ops = append(s.ops, op)
	return g
}

func (s *sim) fresh() int { s.next++; return s.next }

func pick[T any](r *rand.Rand, xs []T) T { return xs[r.IntN(len(xs))] }

func (s *sim) canClean(c int) bool {
	p, res := s.l.wouldLoseOnCleanup(c)
	if p || res {
		if s.avoidGC {
			return false
		}
		s.lossy = true
	}
	return true
}

func (s *sim) step() {
	r := s.r
	np := 1 + r.IntN(len(s.replicas))
	run := s.l.claims(np, phActive)
	del := s.l.claims(np, phDeleting)
	pen := s.l.claims(np, phPending)
	x := r.Float64()
	switch {
	case x < 0.16: // static provisioning reconcile
		s.emit(POp{O: "count", NP: np})
		if int64(len(run)+len(pen)) < s.replicas[np] {
			g := s.emit(POp{O: "res", NP: np, A: s.limit[np], B: s.replicas[np] - int64(len(run))})
			for i := int64(0); i < g; i++ {
				s.units = append(s.units, &unit{np: np})
			}
		}
	case x < 0.26: // static drift: ComputeCommands
		s.emit(POp{O: "count", NP: np})
		if int64(len(run)+len(pen)) <= s.replicas[np] && len(run) > 0 {
			want := int64(1 + r.IntN(min(2, len(run))))
			g := s.emit(POp{O: "res", NP: np, A: s.limit[np], B: want})
			for i := int64(0); i < g; i++ {
				s.units = append(s.units, &unit{np: np, drift: true, victim: run[i]})
			}
		}
	case x < 0.60: // a reconcile in flight advances by one call
		var live []*unit
		for _, u := range s.units {
			if u.stage < 3 {
				live = append(live, u)
			}
		}
		if len(live) == 0 {
			return
		}
		u := pick(r, live)
		switch {
		case u.drift && u.stage == 0:
			if _, ok := s.l.owner[u.victim]; ok { // markDisrupted
				s.emit(POp{O: "pen", NP: u.np, NC: u.victim})
			}
			u.stage = 1
		case u.stage < 2:
			if r.Float64() < 0.8 { // Create succeeded: cluster.UpdateNodeClaim
				s.emit(POp{O: "upd", NP: u.np, NC: s.fresh()})
				u.made = true
			}
			u.stage = 2
		default:
			s.emit(POp{O: "rel", NP: u.np, A: 1})
			u.stage = 3
			if u.drift && u.made {
				if _, ok := s.l.owner[u.victim]; ok { // MarkForDeletion of the candidate
					s.emit(POp{O: "del", NP: u.np, NC: u.victim})
				}
			}
		}
	case x < 0.68: // static deprovisioning reconcile
		s.emit(POp{O: "count", NP: np})
		n := int64(len(run)) - s.replicas[np]
		for i := int64(0); i < n; i++ {
			s.emit(POp{O: "del", NP: np, NC: run[i]})
		}
	case x < 0.80: // a deleting NodeClaim disappears (informer delete)
		if len(del) > 0 {
			c := pick(r, del)
			if s.canClean(c) {
				s.emit(POp{O: "clean", NC: c})
			}
		}
	case x < 0.85: // somebody deletes a NodeClaim: deletionTimestamp appears
		if cs := append(run, pen...); len(cs) > 0 {
			s.emit(POp{O: "upd", NP: np, NC: pick(r, cs), A: 1})
		}
	case x < 0.90: // informer resync of an existing NodeClaim
		if cs := s.l.claims(np, -1); len(cs) > 0 {
			c := pick(r, cs)
			m := int64(0)
			if s.l.phase[c] == phDeleting {
				m = 1
			}
			s.emit(POp{O: "upd", NP: np, NC: c, A: m})
		}
	case x < 0.93: // UnmarkForDeletion after a failed disruption command
		if len(del) > 0 {
			s.emit(POp{O: "act", NP: np, NC: pick(r, del)})
		}
	case x < 0.96: // the user edits replicas / limits.nodes
		s.replicas[np] = int64(r.IntN(5))
		if r.Float64() < 0.5 {
			s.limit[np] = s.drawLimit(np)
		}
	case x < 0.98: // hydration after a restart / externally created claim
		s.emit(POp{O: "upd", NP: np, NC: s.fresh()})
	default: // a NodeClaim vanishes without having been marked (no finalizer)
		if cs := s.l.claims(np, -1); len(cs) > 0 {
			c := pick(r, cs)
			if s.canClean(c) {
				s.emit(POp{O: "clean", NC: c})
			}
		}
	}
}

func (s *sim) drawLimit(np int) int64 {
	switch s.r.IntN(6) {
	case 0:
		return math.MaxInt64 // no limits.nodes
	case 1:
		return s.replicas[np]
	case 2:
		return s.replicas[np] + 1
	case 3:
		return s.replicas[np] + 2
	case 4:
		return int64(s.r.IntN(3))
	default:
		return int64(1 + s.r.IntN(6))
	}
}

func genProtocol(r *rand.Rand, t core.Tier, avoidGC bool) *sim {
	s := &sim{r: r, l: newLedger(), ops: []POp{}, replicas: map[int]int64{}, limit: map[int]int64{}, avoidGC: avoidGC}
	pools := 1 + r.IntN(2)
	for np := 1; np <= pools; np++ {
		s.replicas[np] = int64(r.IntN(5))
		s.limit[np] = s.drawLimit(np)
	}
	n := 10 + r.IntN(70)
	if t == core.Thorough {
		n = 10 + r.IntN(300)
	}
	for len(s.ops) < n {
		before := len(s.ops)
		s.step()
		if len(s.ops) == before && r.Float64() < 0.02 {
			break
		}
	}
	return s
}

// ---------- raw generator (also ill-formed calls) ----------

func genRaw(r *rand.Rand, t core.Tier) any {
	if r.Float64() < 0.35 { // a protocol interleaving with random calls spliced in
		s := genProtocol(r, t, false)
		ops := s.ops
		for i := range ops { // spliced calls may drive the counter negative: keep int64 arithmetic away from overflow
			if ops[i].O == "res" && ops[i].A == math.MaxInt64 {
				ops[i].A = 1 << 40
			}
		}
		k := 1 + r.IntN(4)
		for i := 0; i < k; i++ {
			at := r.IntN(len(ops) + 1)
			ops = append(ops[:at], append([]POp{rawOp(r, 3, s.next+1)}, ops[at:]...)...)
		}
		return PoolIn{Ops: ops}
	}
	n := 1 + r.IntN(40)
	if t == core.Thorough {
		n = 1 + r.IntN(150)
	}
	pools, claims := 1+r.IntN(3), 1+r.IntN(5)
	ops := make([]POp, n)
	for i := range ops {
		ops[i] = rawOp(r, pools, claims)
	}
	return PoolIn{Ops: ops}
}

func rawOp(r *rand.Rand, pools, claims int) POp {
	np, nc := r.IntN(pools+1), r.IntN(claims+1) // 0 = empty name
	if r.Float64() < 0.85 {
		np = 1 + r.IntN(pools)
	}
	if r.Float64() < 0.9 {
		nc = 1 + r.IntN(claims)
	}
	small := func() int64 { return int64(r.IntN(8)) - 2 }
	switch x := r.Float64(); {
	case x < 0.22:
		return POp{O: "upd", NP: np, NC: nc, A: int64(r.IntN(2))}
	case x < 0.30:
		return POp{O: "act", NP: np, NC: nc}
	case x < 0.38:
		return POp{O: "del", NP: np, NC: nc}
	case x < 0.46:
		return POp{O: "pen", NP: np, NC: nc}
	case x < 0.60:
		return POp{O: "clean", NC: nc}
	case x < 0.74:
		return POp{O: "count", NP: np}
	case x < 0.86:
		return POp{O: "res", NP: np, A: small(), B: small()}
	case x < 0.95:
		return POp{O: "rel", NP: np, A: small()}
	case x < 0.985:
		return POp{O: "map", NP: np, NC: nc}
	default:
		return POp{O: "reset"}
	}
}

// enumPool: every sequence of length ≤ L over a small alphabet (one pool, two claims), each followed by
// a probe suffix that makes the final state observable.
func enumPool(t core.Tier) []any {
	alpha := []POp{
		{O: "upd", NP: 1, NC: 1}, {O: "upd", NP: 1, NC: 2}, {O: "upd", NP: 1, NC: 1, A: 1},
		{O: "act", NP: 1, NC: 1}, {O: "del", NP: 1, NC: 2}, {O: "pen", NP: 1, NC: 1}, {O: "pen", NP: 1, NC: 2},
		{O: "clean", NC: 1}, {O: "clean", NC: 2},
		{O: "res", NP: 1, A: 2, B: 1}, {O: "res", NP: 1, A: 3, B: 5}, {O: "rel", NP: 1, A: 1},
	}
	probe := []POp{{O: "count", NP: 1}, {O: "res", NP: 1, A: 4, B: 9}, {O: "rel", NP: 1, A: 1}}
	L := 3
	if t == core.Thorough {
		L = 4
	}
	var out []any
	var rec func(prefix []POp)
	rec = func(prefix []POp) {
		if len(prefix) > 0 {
			ops := append(append([]POp{}, prefix...), probe...)
			out = append(out, PoolIn{Ops: ops})
		}
		if len(prefix) == L {
			return
		}
		for _, a := range alpha {
			rec(append(prefix, a))
		}
	}
	rec(nil)
	return out
}

// ---------- classification of a failing protocol history ----------

// poolSignature replays the ledger along the implementation's answers and names the first unacceptable answer
// together with what an earlier garbage collection of that pool's entry had thrown away.
func poolSignature(raw json.RawMessage, impl any) string {
	var in PoolIn
	json.Unmarshal(raw, &in)
	b, _ := json.Marshal(impl)
	var out PoolOut
	json.Unmarshal(b, &out)
	l := newLedger()
	for i, op := range in.Ops {
		if i >= len(out.Out) {
			return "shape"
		}
		o := out.Out[i]
		kind := ""
		var g int64
		switch {
		case o.K == "panic":
			kind = "panic"
		case op.O == "count":
			if o.K != "c" || o.A == nil || o.D == nil || o.P == nil {
				return "shape"
			}
			if int64(*o.A+*o.D+*o.P) != l.count(op.NP) {
				kind = "count"
			}
		case op.O == "res":
			if o.K != "g" || o.G == nil {
				return "shape"
			}
			g = *o.G
			if e := l.expectedGrant(op.NP, op.A, op.B); g > e || g < 0 {
				kind = "overgrant"
			} else if g < e {
				kind = "undergrant"
			}
		}
		if kind != "" {
			lostP, lostR := len(l.lostPending[op.NP]) > 0, l.lostReserved[op.NP]
			switch {
			case kind == "panic" && lostR:
				return "panic-after-gc-dropped-reservation"
			case kind == "count" && lostP:
				return "count-after-gc-dropped-pending"
			case kind == "overgrant" && (lostP || lostR):
				return "overgrant-after-lossy-gc"
			}
			return kind + "-without-lossy-gc"
		}
		l.apply(op, g)
	}
	return "none"
}

func poolLabels(raw json.RawMessage, impl any) []string {
	var in PoolIn
	json.Unmarshal(raw, &in)
	seen := map[string]bool{}
	ls := []string{fmt.Sprintf("len<=%d", ((len(in.Ops)/25)+1)*25)}
	for _, op := range in.Ops {
		k := "op:" + op.O
		if op.O == "res" && op.A == math.MaxInt64 {
			k = "op:res(no-limit)"
		}
		if !seen[k] {
			seen[k] = true
			ls = append(ls, k)
		}
	}
	b, _ := json.Marshal(impl)
	var out PoolOut
	json.Unmarshal(b, &out)
	for i, o := range out.Out {
		k := ""
		switch {
		case o.K == "panic":
			k = "out:panic"
		case o.K == "g" && o.G != nil && i < len(in.Ops) && *o.G < in.Ops[i].B && *o.G > 0:
			k = "out:grant-clamped"
		case o.K == "g" && o.G != nil && *o.G == 0:
			k = "out:grant-zero"
		case o.K == "g":
			k = "out:grant-full"
		}
		if k != "" && !seen[k] {
			seen[k] = true
			ls = append(ls, k)
		}
	}
	return ls
}

func shrinkPool(raw json.RawMessage) []any {
	var in PoolIn
	json.Unmarshal(raw, &in)
	var out []any
	for _, c := range core.ShrinkList(in.Ops) {
		out = append(out, PoolIn{Ops: c})
	}
	return out
}

// protocolShrink only proposes candidates that are still protocol histories (prefixes and single deletions are
// re-validated by the driver: a candidate with a non-protocol event yields a driver error, which the engine
// does not accept as "the same failure").
func poolOps() []*core.Op {
	nQuick := func(q, th int) func(core.Tier) int {
		return func(t core.Tier) int {
			if t == core.Thorough {
				return th
			}
			return q
		}
	}
	protoNontrivial := func(raw json.RawMessage, impl any) bool {
		// a grant is outstanding while another call runs, and some grant was clamped by the limit
		var in PoolIn
		json.Unmarshal(raw, &in)
		l := newLedger()
		crossed, clamped := false, false
		for _, op := range in.Ops {
			var g int64
			if op.O == "res" {
				g = l.expectedGrant(op.NP, op.A, op.B)
				if g < op.B {
					clamped = true
				}
			} else if op.O != "rel" && op.O != "count" && l.out[op.NP] > 0 {
				crossed = true
			}
			l.apply(op, g)
		}
		return crossed && clamped
	}
	return []*core.Op{
		{
			Name: "c03.poolstate",
			Doc:  "state.NodePoolState driven by arbitrary call sequences (UpdateNodeClaim, Mark*, Cleanup, GetNodeCount, ReserveNodeCount, ReleaseNodeCount, SetNodeClaimMapping, Reset; empty names, negative numbers, calls on unknown claims included); every answer compared with the Lean model of the code as it is",
			N:    nQuick(4000, 40000),
			Gen:  genRaw,
			Enum: enumPool,
			Impl: implPool,
			Rule: "random call sequences (1..40 calls quick, 1..150 thorough; 35% protocol interleavings with random calls spliced in) + every sequence of ≤3 (thorough ≤4) calls over a 12-call alphabet followed by a probe; non-trivial = the sequence contains a ReserveNodeCount answered with a non-zero grant and a Cleanup",
			Nontrivial: func(raw json.RawMessage, impl any) bool {
				var in PoolIn
				json.Unmarshal(raw, &in)
				b, _ := json.Marshal(impl)
				var out PoolOut
				json.Unmarshal(b, &out)
				res, cl := false, false
				for i, op := range in.Ops {
					if op.O == "clean" {
						cl = true
					}
					if op.O == "res" && i < len(out.Out) && out.Out[i].G != nil && *out.Out[i].G != 0 {
						res = true
					}
				}
				return res && cl
			},
			Labels:         poolLabels,
			Signature:      func(json.RawMessage, any) string { return "poolstate" },
			Shrink:         shrinkPool,
			ExhaustiveNote: "all call sequences of length ≤3 (quick) / ≤4 (thorough) over 12 calls on one pool and two claims, each followed by count/reserve/release probes",
		},
		{
			Name: "c03.poolspec",
			Doc:  "interleavings of the call protocols of static provisioning, static drift, deprovisioning and the informers against the real state.NodePoolState; the ledger specification (no panic, counts = existing NodeClaims, grants keep claims+outstanding ≤ limit and are maximal) is evaluated on the real answers",
			N:    nQuick(4000, 40000),
			Gen: func(r *rand.Rand, t core.Tier) any {
				return PoolIn{Ops: genProtocol(r, t, true).ops}
			},
			Impl:       implPool,
			Rule:       "random interleavings (10..80 calls quick, 10..310 thorough, 1-2 pools, replicas 0..4, limit none / replicas+{0,1,2} / small) that never garbage-collect a pool entry holding pending-disruption claims or granted slots; non-trivial = a grant is outstanding across another thread's call AND some grant is clamped by the node limit",
			Nontrivial: protoNontrivial,
			Labels:     poolLabels,
			Signature:  poolSignature,
			Shrink:     shrinkPool,
		},
		{
			Name: "c03.poolgc",
			Doc:  "the same protocol interleavings without the restriction: pool entries are garbage-collected while pending-disruption claims / granted slots exist (reproduces the recorded findings; any other unacceptable answer is a violation)",
			N:    nQuick(60, 100),
			Gen: func(r *rand.Rand, t core.Tier) any {
				return PoolIn{Ops: genProtocol(r, t, false).ops}
			},
			Impl:       implPool,
			Rule:       "random unrestricted protocol interleavings; non-trivial = a grant is outstanding across another thread's call AND some grant is clamped by the node limit",
			Nontrivial: protoNontrivial,
			Labels:     poolLabels,
			Signature:  poolSignature,
			Shrink:     shrinkPool,
		},
	}
}
