package c03

// One static-drift round on the REAL code: disruption.GetCandidates, StaticDrift.ComputeCommands (reserves node slots
// in NodePoolState), then Queue.StartCommand for every command (markDisrupted, replacement NodeClaims through
// Provisioner.CreateNodeClaims which gives the slots back, MarkForDeletion). The harness makes chosen commands lose
// their candidate's Node (NotFound while tainting) and chosen NodeClaim creates fail.

import (
	"context"
	"encoding/json"
	"fmt"
	"math/rand/v2"
	"sync"

	"github.com/google/uuid"
	corev1 "k8s.io/api/core/v1"
	apierrors "k8s.io/apimachinery/pkg/api/errors"
	"k8s.io/apimachinery/pkg/api/resource"
	metav1 "k8s.io/apimachinery/pkg/apis/meta/v1"
	clocktesting "k8s.io/utils/clock/testing"
	"sigs.k8s.io/controller-runtime/pkg/client"
	"sigs.k8s.io/controller-runtime/pkg/client/interceptor"

	v1 "sigs.k8s.io/karpenter/pkg/apis/v1"
	fakecp "sigs.k8s.io/karpenter/pkg/cloudprovider/fake"
	"sigs.k8s.io/karpenter/pkg/controllers/disruption"
	"sigs.k8s.io/karpenter/pkg/controllers/provisioning"
	"sigs.k8s.io/karpenter/pkg/controllers/state"
	"sigs.k8s.io/karpenter/pkg/state/virtualpods"
	"sigs.k8s.io/karpenter/pkg/test"
	"sigs.k8s.io/karpenter/pkg/utils/resources"

	"verifharness/internal/core"
)

type DIn struct {
	Replicas   int64  `json:"replicas"`   // spec.replicas
	Extra      int    `json:"extra"`      // launched, initialized nodes of the pool = replicas + extra (a scale-down in progress)
	Limit      *int64 `json:"limit"`      // limits.nodes, null = none
	Budget     int    `json:"budget"`     // allowed disruptions for the pool in this round
	Drifted    int    `json:"drifted"`    // how many of the nodes carry Drifted=True
	Held       int64  `json:"held"`       // slots another reconcile holds while the round runs
	Lost       []int  `json:"lost"`       // commands (by position) for which reading the candidate's Node fails while StartCommand taints it
	CreateFail []int  `json:"createFail"` // positions of replacement NodeClaim creates that fail
}

type DOut struct {
	Commands int   `json:"commands"`
	Started  int   `json:"started"`
	Failed   int   `json:"failed"`
	A        int   `json:"a"`
	D        int   `json:"d"`
	P        int   `json:"p"`
	Total    int   `json:"total"`    // NodeClaims of the pool in the API afterwards
	Reserved int64 `json:"reserved"` // reserved counter afterwards, minus the slots held by the other reconcile
	Panic    bool  `json:"panic"`
}

func implDrift(raw json.RawMessage) (any, error) {
	var in DIn
	if err := json.Unmarshal(raw, &in); err != nil {
		return nil, err
	}
	ctx := baseCtx()
	np := test.StaticNodePool(v1.NodePool{ObjectMeta: metav1.ObjectMeta{Name: staticPool, UID: nextUID("np")}})
	np.CreationTimestamp = metav1.NewTime(t0)
	np.Spec.Replicas = &in.Replicas
	np.Spec.Limits = nil
	if in.Limit != nil {
		np.Spec.Limits = v1.Limits(corev1.ResourceList{resources.Node: *resource.NewQuantity(*in.Limit, resource.DecimalSI)})
	}
	var mu sync.Mutex
	lostNode := ""
	armed := false
	creates := 0
	failCreate := map[int]bool{}
	for _, f := range in.CreateFail {
		failCreate[f] = true
	}
	funcs := interceptor.Funcs{
		Get: func(ctx context.Context, c client.WithWatch, key client.ObjectKey, obj client.Object, opts ...client.GetOption) error {
			if _, ok := obj.(*corev1.Node); ok {
				mu.Lock()
				gone := lostNode != "" && key.Name == lostNode
				mu.Unlock()
				if gone {
					// not NotFound (which RequireNoScheduleTaint tolerates): the API server keeps failing this read
					return apierrors.NewInternalError(fmt.Errorf("injected: reading node %s", key.Name))
				}
			}
			return c.Get(ctx, key, obj, opts...)
		},
		Create: func(ctx context.Context, c client.WithWatch, obj client.Object, opts ...client.CreateOption) error {
			if _, ok := obj.(*v1.NodeClaim); ok && armed {
				mu.Lock()
				pos := creates
				creates++
				mu.Unlock()
				if failCreate[pos] {
					return fmt.Errorf("injected create failure")
				}
			}
			return c.Create(ctx, obj, opts...)
		},
	}
	kube := newClient(funcs, np)
	cp := fakecp.NewCloudProvider()
	clk := clocktesting.NewFakeClock(t0)
	rec := test.NewEventRecorder()
	cluster := state.NewCluster(clk, kube, cp)
	prov := provisioning.NewProvisioner(kube, rec, cp, cluster, clk, nil, virtualpods.NewVirtualPodCache(kube))
	for i := 0; i < int(in.Replicas)+in.Extra; i++ {
		nc, node := test.NodeClaimAndNode(v1.NodeClaim{
			ObjectMeta: metav1.ObjectMeta{
				Name: fmt.Sprintf("c-%d", i), UID: nextUID("nc"),
				Labels: map[string]string{
					v1.NodePoolLabelKey:            staticPool,
					corev1.LabelInstanceTypeStable: "default-instance-type",
					v1.CapacityTypeLabelKey:        "on-demand",
					corev1.LabelTopologyZone:       "test-zone-1",
					v1.NodeRegisteredLabelKey:      "true",
					v1.NodeInitializedLabelKey:     "true",
				},
			},
			Status: v1.NodeClaimStatus{
				ProviderID:  fmt.Sprintf("fake://drift-%d", i),
				Capacity:    corev1.ResourceList{corev1.ResourceCPU: resource.MustParse("4"), corev1.ResourcePods: resource.MustParse("10")},
				Allocatable: corev1.ResourceList{corev1.ResourceCPU: resource.MustParse("4"), corev1.ResourcePods: resource.MustParse("10")},
			},
		})
		nc.CreationTimestamp = metav1.NewTime(t0)
		node.Name = fmt.Sprintf("n-%d", i)
		node.UID = nextUID("node")
		node.CreationTimestamp = metav1.NewTime(t0)
		node.Spec.Taints = nil
		nc.Status.NodeName = node.Name
		nc.StatusConditions().SetTrue(v1.ConditionTypeLaunched)
		nc.StatusConditions().SetTrue(v1.ConditionTypeRegistered)
		nc.StatusConditions().SetTrue(v1.ConditionTypeInitialized)
		if i < in.Drifted {
			nc.StatusConditions().SetTrue(v1.ConditionTypeDrifted)
		}
		if err := kube.Create(ctx, nc); err != nil {
			return nil, err
		}
		if err := kube.Create(ctx, node); err != nil {
			return nil, err
		}
		cluster.UpdateNodeClaim(nc)
		if err := cluster.UpdateNode(ctx, node); err != nil {
			return nil, err
		}
	}
	limit := int64(1<<62 - 1)
	if in.Limit != nil {
		limit = *in.Limit
	}
	held := int64(0)
	if in.Held > 0 {
		held = cluster.NodePoolState.ReserveNodeCount(staticPool, limit, in.Held)
	}
	out := DOut{}
	queue := disruption.NewQueue(kube, rec, cluster, clk, prov)
	sd := disruption.NewStaticDrift(cluster, prov, cp)
	cands, err := disruption.GetCandidates(ctx, cluster, kube, rec, clk, cp, sd.ShouldDisrupt, sd.Class(), queue)
	if err != nil {
		return nil, err
	}
	if len(cands) != in.Drifted {
		return nil, fmt.Errorf("harness: %d candidates for %d drifted nodes", len(cands), in.Drifted)
	}
	armed = true
	cls := guard(func() error {
		cmds, err := sd.ComputeCommands(ctx, map[string]int{staticPool: in.Budget}, cands...)
		if err != nil {
			return err
		}
		out.Commands = len(cmds)
		lost := map[int]bool{}
		for _, l := range in.Lost {
			lost[l] = true
		}
		for i := range cmds {
			cmd := cmds[i]
			cmd.CreationTimestamp = clk.Now()
			cmd.ID = uuid.New()
			cmd.Method = sd
			mu.Lock()
			lostNode = ""
			if lost[i] {
				lostNode = cmd.Candidates[0].Node.Name
			}
			mu.Unlock()
			if err := queue.StartCommand(ctx, &cmd); err != nil {
				out.Failed++
			} else {
				out.Started++
			}
		}
		mu.Lock()
		lostNode = ""
		mu.Unlock()
		return nil
	})
	if cls == "panic" {
		out.Panic = true
	} else if cls != "" {
		return nil, fmt.Errorf("ComputeCommands failed")
	}
	list := &v1.NodeClaimList{}
	if err := kube.List(ctx, list, client.MatchingLabels{v1.NodePoolLabelKey: staticPool}); err != nil {
		return nil, err
	}
	out.Total = len(list.Items)
	out.A, out.D, out.P = cluster.NodePoolState.GetNodeCount(staticPool)
	const big = 1_000_000
	if guard(func() error {
		g := cluster.NodePoolState.ReserveNodeCount(staticPool, int64(out.A+out.D+out.P)+big, big)
		out.Reserved = big - g - held
		cluster.NodePoolState.ReleaseNodeCount(staticPool, g)
		return nil
	}) != "" {
		out.Panic = true
	}
	return out, nil
}

func genDrift(r *rand.Rand, t core.Tier) any {
	in := DIn{Replicas: int64(1 + r.IntN(4)), Budget: r.IntN(4), Lost: []int{}, CreateFail: []int{}}
	if r.Float64() < 0.15 {
		in.Extra = 1
	}
	in.Drifted = r.IntN(int(in.Replicas) + in.Extra + 1)
	if r.Float64() < 0.75 {
		l := in.Replicas + int64(in.Extra) + int64(r.IntN(3))
		in.Limit = &l
	}
	if r.Float64() < 0.25 {
		in.Held = int64(1 + r.IntN(2))
	}
	if r.Float64() < 0.12 {
		in.Lost = append(in.Lost, r.IntN(2))
	}
	if r.Float64() < 0.2 {
		in.CreateFail = append(in.CreateFail, r.IntN(3))
	}
	return in
}

func driftSignature(raw json.RawMessage, impl any) string {
	var in DIn
	json.Unmarshal(raw, &in)
	b, _ := json.Marshal(impl)
	var out DOut
	json.Unmarshal(b, &out)
	lostHit := 0
	for _, l := range in.Lost {
		if l >= 0 && l < out.Commands {
			lostHit++
		}
	}
	if !out.Panic && lostHit > 0 && out.Reserved == int64(lostHit) {
		return "drift-slot-leak-startcommand-early-return"
	}
	return "other"
}

func driftOps() []*core.Op {
	return []*core.Op{
		{
			Name: "c03.drift",
			Doc:  "one static-drift round on the real disruption code: GetCandidates, StaticDrift.ComputeCommands (ReserveNodeCount), Queue.StartCommand per command (markDisrupted → MarkNodeClaimPendingDisruption, CreateNodeClaims → ReleaseNodeCount, MarkForDeletion), with candidate Nodes vanishing before the taint and replacement creates failing; counts, NodeClaims and the reserved counter afterwards",
			N: func(t core.Tier) int {
				if t == core.Thorough {
					return 160
				}
				return 120
			},
			Gen:  genDrift,
			Impl: implDrift,
			Rule: "replicas 1..4 launched+initialized nodes, 0..replicas drifted, budget 0..3, limits.nodes none / replicas+{0,1,2}, 25% with 1-2 slots held by another reconcile, 12% with a command whose candidate Node vanishes, 20% with a failing create; non-trivial = at least one command was computed",
			Nontrivial: func(raw json.RawMessage, impl any) bool {
				b, _ := json.Marshal(impl)
				var out DOut
				json.Unmarshal(b, &out)
				return out.Commands > 0
			},
			Labels: func(raw json.RawMessage, impl any) []string {
				var in DIn
				json.Unmarshal(raw, &in)
				b, _ := json.Marshal(impl)
				var out DOut
				json.Unmarshal(b, &out)
				ls := []string{fmt.Sprintf("commands=%d", out.Commands)}
				if in.Extra > 0 {
					ls = append(ls, "above-replicas")
				}
				if out.Failed > 0 {
					ls = append(ls, "startcommand-failed")
				}
				if in.Limit != nil && out.Commands < min(in.Budget, in.Drifted) {
					ls = append(ls, "clamped-by-limit")
				}
				if len(in.Lost) > 0 {
					ls = append(ls, "node-vanishes")
				}
				if len(in.CreateFail) > 0 {
					ls = append(ls, "create-fails")
				}
				return ls
			},
			Signature: driftSignature,
		},
	}
}
