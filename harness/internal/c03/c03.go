// Package c03: NodePool limits and static node caps — real code vs Lean model / specification.
package c03

import (
	"verifharness/internal/core"
	"verifharness/internal/registry"
)

func init() { registry.Register("C03", Ops) }

func Ops() []*core.Op {
	var ops []*core.Op
	ops = append(ops, poolOps()...)
	ops = append(ops, limitsOps()...)
	ops = append(ops, staticOps()...)
	ops = append(ops, createOps()...)
	ops = append(ops, driftOps()...)
	ops = append(ops, driftPoolsOps()...)
	ops = append(ops, staticPodsOps()...)
	for _, o := range ops {
		o.Prop = "C03"
	}
	return ops
}
