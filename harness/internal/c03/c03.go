// Package c03: correspondence ops for C03 (stub, not yet built).
package c03

import (
	"verifharness/internal/core"
	"verifharness/internal/registry"
)

func init() { registry.Register("C03", Ops) }

func Ops() []*core.Op { return nil }
