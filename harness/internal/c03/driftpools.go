package c03

// One static-drift pass over SEVERAL NodePools on the REAL code. Every pool has its own replicas / limits.nodes /
// disruption budget / drifted nodes / nodes already marked for deletion / slots held by another reconcile; dynamic
// (non-static) pools with drifted nodes take part as bystanders.
//
//   direct mode: disruption.GetCandidates, the real BuildDisruptionBudgetMapping, StaticDrift.ComputeCommands over the
//                candidates of ALL pools at once, then Queue.StartCommand for every command, one after the other;
//   ctl mode   : the whole real disruption.Controller.Reconcile with the static-drift method (WithMethods): sync gate,
//                untaint pass, GetCandidatesWithTotals, BuildDisruptionBudgetMapping, ComputeCommands and the
//                StartCommands running CONCURRENTLY (workqueue.ParallelizeUntil).
//
// The method handed to the controller is the real *StaticDrift behind a wrapper that only records what goes in and what
// comes out of ComputeCommands. Faults are injected per pool: the i-th command of the pool to reach its taint fails to
// read its candidate's Node, the j-th replacement create of the pool fails.

import (
	"context"
	"encoding/json"
	"fmt"
	"math/rand/v2"
	"strconv"
	"sync"

	"github.com/google/uuid"
	corev1 "k8s.io/api/core/v1"
	apierrors "k8s.io/apimachinery/pkg/api/errors"
	"k8s.io/apimachinery/pkg/api/resource"
	metav1 "k8s.io/apimachinery/pkg/apis/meta/v1"
	clocktesting "k8s.io/utils/clock/testing"
	"sigs.k8s.io/controller-runtime/pkg/client"
	"sigs.k8s.io/controller-runtime/pkg/client/interceptor"

	v1 "sigs.k8s.io/karpenter/pkg/apis/v1"
	fakecp "sigs.k8s.io/karpenter/pkg/cloudprovider/fake"
	"sigs.k8s.io/karpenter/pkg/controllers/disruption"
	"sigs.k8s.io/karpenter/pkg/controllers/provisioning"
	"sigs.k8s.io/karpenter/pkg/controllers/state"
	"sigs.k8s.io/karpenter/pkg/state/virtualpods"
	"sigs.k8s.io/karpenter/pkg/test"
	"sigs.k8s.io/karpenter/pkg/utils/resources"

	"verifharness/internal/core"
)

type DPPool struct {
	Static     bool   `json:"static"`     // replica-based pool; false = a dynamic pool (bystander)
	Replicas   int64  `json:"replicas"`   // spec.replicas (static pools)
	Extra      int    `json:"extra"`      // nodes = replicas + extra, all launched and initialized
	Limit      *int64 `json:"limit"`      // limits.nodes, null = none
	Budget     int    `json:"budget"`     // spec.disruption.budgets = [{nodes: "<budget>"}]
	Drifted    int    `json:"drifted"`    // the first `drifted` nodes carry Drifted=True
	Marked     int    `json:"marked"`     // the last `marked` nodes are already marked for deletion in the cluster state
	Held       int64  `json:"held"`       // slots another reconcile holds while the pass runs
	Lost       []int  `json:"lost"`       // commands of this pool (by arrival at the taint) whose candidate Node cannot be read
	CreateFail []int  `json:"createFail"` // replacement creates of this pool (by arrival) that fail
}

type DPIn struct {
	Pools []DPPool `json:"pools"`
	Ctl   bool     `json:"ctl"` // drive the whole disruption.Controller.Reconcile instead of the parts
}

type DPPoolOut struct {
	Held     int64 `json:"held"`     // slots the other reconcile was granted before the pass
	Budget   int   `json:"budget"`   // what BuildDisruptionBudgetMapping allowed the pool
	Cands    int   `json:"cands"`    // candidates of the pool handed to ComputeCommands
	Commands int   `json:"commands"` // commands computed for the pool
	Started  int   `json:"started"`
	Failed   int   `json:"failed"`
	A        int   `json:"a"`
	D        int   `json:"d"`
	P        int   `json:"p"`
	Total    int   `json:"total"`    // NodeClaims of the pool in the API afterwards
	Reserved int64 `json:"reserved"` // reserved counter afterwards, minus the slots held by the other reconcile
}

type DPOut struct {
	Pools []DPPoolOut `json:"pools"`
	Err   string      `json:"err"`   // "" | "error": a StartCommand / the reconcile reported an error
	Panic bool        `json:"panic"` // ComputeCommands / StartCommand / the reconcile / the bookkeeping panicked
}

func dpPoolName(i int) string { return fmt.Sprintf("pool-%d", i) }

func (p DPPool) nodes() int {
	n := int(p.Replicas) + p.Extra
	if n < 0 {
		n = 0
	}
	return n
}

// recordingDrift is the real *StaticDrift; it only records the arguments and the result of ComputeCommands.
type recordingDrift struct {
	*disruption.StaticDrift
	mu       sync.Mutex
	called   bool
	budgets  map[string]int
	cands    map[string]int
	commands map[string]int
	onStart  func()
}

func (r *recordingDrift) ComputeCommands(ctx context.Context, budgets map[string]int, cands ...*disruption.Candidate) ([]disruption.Command, error) {
	r.mu.Lock()
	r.called = true
	r.budgets = map[string]int{}
	for k, v := range budgets {
		r.budgets[k] = v
	}
	r.cands = map[string]int{}
	for _, c := range cands {
		r.cands[c.NodePool.Name]++
	}
	r.mu.Unlock()
	if r.onStart != nil {
		r.onStart()
	}
	cmds, err := r.StaticDrift.ComputeCommands(ctx, budgets, cands...)
	r.mu.Lock()
	r.commands = map[string]int{}
	for _, c := range cmds {
		for _, cand := range c.Candidates {
			r.commands[cand.NodePool.Name]++
		}
	}
	r.mu.Unlock()
	return cmds, err
}

func implDriftPools(raw json.RawMessage) (any, error) {
	var in DPIn
	if err := json.Unmarshal(raw, &in); err != nil {
		return nil, err
	}
	if len(in.Pools) == 0 || len(in.Pools) > 6 {
		return nil, fmt.Errorf("harness: 1..6 pools expected")
	}
	ctx := baseCtx()
	var objs []client.Object
	var pools []*v1.NodePool
	for i, p := range in.Pools {
		meta := metav1.ObjectMeta{Name: dpPoolName(i), UID: nextUID("np")}
		var np *v1.NodePool
		if p.Static {
			np = test.StaticNodePool(v1.NodePool{ObjectMeta: meta})
			r := p.Replicas
			np.Spec.Replicas = &r
		} else {
			np = test.NodePool(v1.NodePool{ObjectMeta: meta})
		}
		np.CreationTimestamp = metav1.NewTime(t0)
		np.Spec.Limits = nil
		if p.Limit != nil {
			np.Spec.Limits = v1.Limits(corev1.ResourceList{resources.Node: *resource.NewQuantity(*p.Limit, resource.DecimalSI)})
		}
		np.Spec.Disruption.Budgets = []v1.Budget{{Nodes: strconv.Itoa(p.Budget)}}
		pools = append(pools, np)
		objs = append(objs, np)
	}

	var mu sync.Mutex
	armed := false
	nodePool := map[string]int{}  // node name -> pool index
	taintSeen := map[string]int{} // node name -> arrival index among the pool's commands
	arrivals := make([]int, len(in.Pools))
	creates := make([]int, len(in.Pools))
	lost := make([]map[int]bool, len(in.Pools))
	failCreate := make([]map[int]bool, len(in.Pools))
	for i, p := range in.Pools {
		lost[i], failCreate[i] = map[int]bool{}, map[int]bool{}
		for _, l := range p.Lost {
			lost[i][l] = true
		}
		for _, f := range p.CreateFail {
			failCreate[i][f] = true
		}
	}
	poolIndex := map[string]int{}
	for i := range in.Pools {
		poolIndex[dpPoolName(i)] = i
	}
	funcs := interceptor.Funcs{
		Get: func(ctx context.Context, c client.WithWatch, key client.ObjectKey, obj client.Object, opts ...client.GetOption) error {
			if _, ok := obj.(*corev1.Node); ok {
				mu.Lock()
				gone := false
				if pi, known := nodePool[key.Name]; known && armed {
					idx, seen := taintSeen[key.Name]
					if !seen {
						idx = arrivals[pi]
						arrivals[pi]++
						taintSeen[key.Name] = idx
					}
					gone = lost[pi][idx]
				}
				mu.Unlock()
				if gone {
					// not NotFound (which RequireNoScheduleTaint tolerates): the API server keeps failing this read
					return apierrors.NewInternalError(fmt.Errorf("injected: reading node %s", key.Name))
				}
			}
			return c.Get(ctx, key, obj, opts...)
		},
		Create: func(ctx context.Context, c client.WithWatch, obj client.Object, opts ...client.CreateOption) error {
			if nc, ok := obj.(*v1.NodeClaim); ok {
				mu.Lock()
				bad := false
				if pi, known := poolIndex[nc.Labels[v1.NodePoolLabelKey]]; known && armed {
					pos := creates[pi]
					creates[pi]++
					bad = failCreate[pi][pos]
				}
				mu.Unlock()
				if bad {
					return fmt.Errorf("injected create failure")
				}
			}
			return c.Create(ctx, obj, opts...)
		},
	}
	kube := newClient(funcs, objs...)
	cp := fakecp.NewCloudProvider()
	clk := clocktesting.NewFakeClock(t0)
	rec := test.NewEventRecorder()
	cluster := state.NewCluster(clk, kube, cp)
	prov := provisioning.NewProvisioner(kube, rec, cp, cluster, clk, nil, virtualpods.NewVirtualPodCache(kube))

	for pi, p := range in.Pools {
		var markIDs []string
		for i := 0; i < p.nodes(); i++ {
			nc, node := test.NodeClaimAndNode(v1.NodeClaim{
				ObjectMeta: metav1.ObjectMeta{
					Name: fmt.Sprintf("c-%d-%d", pi, i), UID: nextUID("nc"),
					Labels: map[string]string{
						v1.NodePoolLabelKey:            dpPoolName(pi),
						corev1.LabelInstanceTypeStable: "default-instance-type",
						v1.CapacityTypeLabelKey:        "on-demand",
						corev1.LabelTopologyZone:       "test-zone-1",
						v1.NodeRegisteredLabelKey:      "true",
						v1.NodeInitializedLabelKey:     "true",
					},
				},
				Status: v1.NodeClaimStatus{
					ProviderID:  fmt.Sprintf("fake://dp-%d-%d", pi, i),
					Capacity:    corev1.ResourceList{corev1.ResourceCPU: resource.MustParse("4"), corev1.ResourcePods: resource.MustParse("10")},
					Allocatable: corev1.ResourceList{corev1.ResourceCPU: resource.MustParse("4"), corev1.ResourcePods: resource.MustParse("10")},
				},
			})
			nc.CreationTimestamp = metav1.NewTime(t0)
			node.Name = fmt.Sprintf("n-%d-%d", pi, i)
			node.UID = nextUID("node")
			node.CreationTimestamp = metav1.NewTime(t0)
			node.Spec.Taints = nil
			nc.Status.NodeName = node.Name
			nc.StatusConditions().SetTrue(v1.ConditionTypeLaunched)
			nc.StatusConditions().SetTrue(v1.ConditionTypeRegistered)
			nc.StatusConditions().SetTrue(v1.ConditionTypeInitialized)
			if i < p.Drifted {
				nc.StatusConditions().SetTrue(v1.ConditionTypeDrifted)
			}
			if err := kube.Create(ctx, nc); err != nil {
				return nil, err
			}
			if err := kube.Create(ctx, node); err != nil {
				return nil, err
			}
			cluster.UpdateNodeClaim(nc)
			if err := cluster.UpdateNode(ctx, node); err != nil {
				return nil, err
			}
			nodePool[node.Name] = pi
			if i >= p.nodes()-p.Marked {
				markIDs = append(markIDs, nc.Status.ProviderID)
			}
		}
		cluster.MarkForDeletion(markIDs...)
	}
	held := make([]int64, len(in.Pools))
	for pi, p := range in.Pools {
		if p.Held > 0 {
			limit := int64(1<<62 - 1)
			if p.Limit != nil {
				limit = *p.Limit
			}
			held[pi] = cluster.NodePoolState.ReserveNodeCount(dpPoolName(pi), limit, p.Held)
		}
	}

	out := DPOut{Pools: make([]DPPoolOut, len(in.Pools))}
	queue := disruption.NewQueue(kube, rec, cluster, clk, prov)
	sd := &recordingDrift{StaticDrift: disruption.NewStaticDrift(cluster, prov, cp)}
	sd.onStart = func() {
		mu.Lock()
		armed = true
		mu.Unlock()
	}
	started := make([]int, len(in.Pools))
	failed := make([]int, len(in.Pools))
	var cls string
	if in.Ctl {
		ctrl := disruption.NewController(clk, kube, prov, cp, rec, cluster, queue, nil, disruption.WithMethods(sd))
		cls = guard(func() error {
			_, err := ctrl.Reconcile(ctx)
			return err
		})
	} else {
		cls = guard(func() error {
			cands, err := disruption.GetCandidates(ctx, cluster, kube, rec, clk, cp, sd.ShouldDisrupt, sd.Class(), queue)
			if err != nil {
				return err
			}
			budgets, err := disruption.BuildDisruptionBudgetMapping(ctx, cluster, clk, kube, cp, rec, sd.Reason())
			if err != nil {
				return err
			}
			if len(cands) == 0 { // Controller.disrupt moves on to the next method
				return nil
			}
			cmds, err := sd.ComputeCommands(ctx, budgets, cands...)
			if err != nil {
				return err
			}
			anyFailed := false
			for i := range cmds {
				cmd := cmds[i]
				cmd.CreationTimestamp = clk.Now()
				cmd.ID = uuid.New()
				cmd.Method = sd
				pi := poolIndex[cmd.Candidates[0].NodePool.Name]
				if err := queue.StartCommand(ctx, &cmd); err != nil {
					failed[pi]++
					anyFailed = true
				} else {
					started[pi]++
				}
			}
			if anyFailed {
				return fmt.Errorf("a command failed to start")
			}
			return nil
		})
	}
	switch cls {
	case "panic":
		out.Panic = true
	case "error":
		out.Err = "error"
	}
	sd.mu.Lock()
	called, budgets, candCount, cmdCount := sd.called, sd.budgets, sd.cands, sd.commands
	sd.mu.Unlock()
	if !called {
		// no candidates at all: the method is never asked; report the budgets the real mapping gives
		m, err := disruption.BuildDisruptionBudgetMapping(ctx, cluster, clk, kube, cp, rec, sd.Reason())
		if err != nil {
			return nil, err
		}
		budgets = m
	}
	for pi := range in.Pools {
		name := dpPoolName(pi)
		po := &out.Pools[pi]
		po.Held = held[pi]
		po.Budget = budgets[name]
		po.Cands = candCount[name]
		po.Commands = cmdCount[name]
		list := &v1.NodeClaimList{}
		if err := kube.List(ctx, list, client.MatchingLabels{v1.NodePoolLabelKey: name}); err != nil {
			return nil, err
		}
		po.Total = len(list.Items)
		po.A, po.D, po.P = cluster.NodePoolState.GetNodeCount(name)
		if in.Ctl {
			// the commands run concurrently inside the reconcile: a started command is a candidate newly marked for
			// deletion, every other computed command failed
			po.Started = po.D - min(in.Pools[pi].Marked, in.Pools[pi].nodes())
			po.Failed = po.Commands - po.Started
		} else {
			po.Started, po.Failed = started[pi], failed[pi]
		}
		const big = 1_000_000
		if guard(func() error {
			g := cluster.NodePoolState.ReserveNodeCount(name, int64(po.A+po.D+po.P)+big, big)
			po.Reserved = big - g - held[pi]
			cluster.NodePoolState.ReleaseNodeCount(name, g)
			return nil
		}) != "" {
			out.Panic = true
		}
	}
	return out, nil
}

func genDriftPool(r *rand.Rand, static bool) DPPool {
	p := DPPool{Static: static, Replicas: int64(1 + r.IntN(4)), Lost: []int{}, CreateFail: []int{}}
	if r.Float64() < 0.12 {
		p.Extra = 1
	}
	n := p.nodes()
	// budgets: none, small, and (half of the time) at least the size of the pool, i.e. above what it can have drifted
	switch x := r.Float64(); {
	case x < 0.1:
		p.Budget = 0
	case x < 0.5:
		p.Budget = 1 + r.IntN(3)
	default:
		p.Budget = n + r.IntN(4)
	}
	switch x := r.Float64(); {
	case x < 0.1:
		p.Drifted = 0
	case x < 0.25:
		p.Drifted = n
	default:
		p.Drifted = 1 + r.IntN(n)
	}
	if r.Float64() < 0.12 {
		p.Marked = 1 + r.IntN(2)
		if p.Marked > n {
			p.Marked = n
		}
	}
	switch x := r.Float64(); {
	case x < 0.3: // no node limit
	case x < 0.55: // room for everything the budget could ask for
		l := int64(n) + int64(p.Budget) + int64(r.IntN(3))
		p.Limit = &l
	default:
		l := p.Replicas + int64(p.Extra) + int64(r.IntN(3))
		p.Limit = &l
	}
	if r.Float64() < 0.2 {
		p.Held = int64(1 + r.IntN(2))
	}
	if r.Float64() < 0.1 {
		p.Lost = append(p.Lost, r.IntN(2))
	}
	if r.Float64() < 0.15 {
		p.CreateFail = append(p.CreateFail, r.IntN(3))
	}
	return p
}

func genDriftPools(r *rand.Rand, t core.Tier) any {
	in := DPIn{Ctl: r.Float64() < 0.4}
	n := 1
	switch x := r.Float64(); {
	case x < 0.1:
		n = 1
	case x < 0.6:
		n = 2
	case x < 0.9:
		n = 3
	default:
		n = 4
	}
	for i := 0; i < n; i++ {
		in.Pools = append(in.Pools, genDriftPool(r, r.Float64() < 0.85))
	}
	return in
}

// enumDriftPools: two static pools, every combination of (nodes, drifted, budget, limit head-room) on a small grid,
// both modes. This is the finite core of "how many slots may one pool take when other pools have candidates too".
func enumDriftPools(t core.Tier) []any {
	var out []any
	type cfg struct {
		replicas int64
		drifted  int
		budget   int
		room     int64 // limits.nodes = replicas + room; -1 = no limit
	}
	var cfgs []cfg
	for _, rep := range []int64{1, 2} {
		for d := 0; d <= int(rep); d++ {
			for _, b := range []int{0, 1, 3} {
				for _, room := range []int64{-1, 1, 3} {
					cfgs = append(cfgs, cfg{rep, d, b, room})
				}
			}
		}
	}
	mk := func(c cfg) DPPool {
		p := DPPool{Static: true, Replicas: c.replicas, Budget: c.budget, Drifted: c.drifted, Lost: []int{}, CreateFail: []int{}}
		if c.room >= 0 {
			l := c.replicas + c.room
			p.Limit = &l
		}
		return p
	}
	for i, a := range cfgs {
		for j, b := range cfgs {
			if j < i {
				continue
			}
			// the quick tier takes the pairs in which both pools have drifted nodes and a budget; thorough all of them
			if t != core.Thorough && (a.drifted == 0 || b.drifted == 0 || a.budget == 0 || b.budget == 0) {
				continue
			}
			out = append(out, DPIn{Pools: []DPPool{mk(a), mk(b)}, Ctl: (i+j)%2 == 1})
		}
	}
	return out
}

func dedupStrings(ls []string) []string {
	seen := map[string]bool{}
	var out []string
	for _, l := range ls {
		if !seen[l] {
			seen[l] = true
			out = append(out, l)
		}
	}
	return out
}

func dpDecode(raw json.RawMessage, impl any) (DPIn, DPOut) {
	var in DPIn
	json.Unmarshal(raw, &in)
	b, _ := json.Marshal(impl)
	var out DPOut
	json.Unmarshal(b, &out)
	return in, out
}

func driftPoolsOps() []*core.Op {
	return []*core.Op{
		{
			Name: "c03.driftpools",
			Doc:  "one static-drift pass over several NodePools on the real disruption code: GetCandidates + BuildDisruptionBudgetMapping + StaticDrift.ComputeCommands over the candidates of all pools + Queue.StartCommand per command, or (ctl) the whole disruption.Controller.Reconcile with concurrent StartCommands; per-pool budgets / limits.nodes / drifted / already-deleting nodes / held slots / vanishing candidate Nodes / failing replacement creates; dynamic pools as bystanders; per pool: budget, candidates, commands, counts, NodeClaims and the reserved counter afterwards",
			N: func(t core.Tier) int {
				if t == core.Thorough {
					return 500
				}
				return 260
			},
			Gen:            genDriftPools,
			Enum:           enumDriftPools,
			ExhaustiveNote: "two static pools × (replicas 1..2, drifted 0..replicas, budget {0,1,3}, limits.nodes none / replicas+1 / replicas+3), unordered pairs, modes alternating (quick tier: the pairs in which both pools have drifted nodes and a budget)",
			Impl:           implDriftPools,
			Rule:           "1-4 pools (10/50/30/10 %), 85% static; per pool: replicas 1..4 (+1 node above replicas 12%), budget 0 (10%) / 1..3 (40%) / nodes+0..3 (50%), drifted 0 (10%) / all (15%) / 1..nodes, 12% with 1-2 nodes already marked for deletion, limits.nodes none (30%) / nodes+budget+0..2 (25%) / nodes+0..2 (45%), 20% held slots, 10% a vanishing candidate Node, 15% a failing create; 40% through Controller.Reconcile; non-trivial = commands were computed for at least one pool",
			Nontrivial: func(raw json.RawMessage, impl any) bool {
				_, out := dpDecode(raw, impl)
				for _, p := range out.Pools {
					if p.Commands > 0 {
						return true
					}
				}
				return out.Panic
			},
			Labels: func(raw json.RawMessage, impl any) []string {
				in, out := dpDecode(raw, impl)
				ls := []string{fmt.Sprintf("pools=%d", len(in.Pools))}
				if in.Ctl {
					ls = append(ls, "via-controller")
				}
				withCmds, above, dyn := 0, false, false
				for i, p := range in.Pools {
					if !p.Static {
						dyn = true
					}
					if i < len(out.Pools) {
						o := out.Pools[i]
						if o.Commands > 0 {
							withCmds++
						}
						if p.Static && o.Cands > 0 && o.Budget > o.Cands {
							above = true
						}
						if o.Failed > 0 {
							ls = append(ls, "startcommand-failed")
						}
						if p.Limit != nil && o.Commands < min(o.Budget, o.Cands) {
							ls = append(ls, "clamped-by-limit")
						}
					}
					if p.Marked > 0 {
						ls = append(ls, "already-deleting")
					}
					if p.Extra > 0 {
						ls = append(ls, "above-replicas")
					}
					if p.Held > 0 {
						ls = append(ls, "held-slots")
					}
				}
				ls = append(ls, fmt.Sprintf("pools-with-commands=%d", withCmds))
				if above {
					ls = append(ls, "budget-above-own-candidates")
				}
				if above && len(in.Pools) > 1 {
					totalCands := 0
					for _, o := range out.Pools {
						totalCands += o.Cands
					}
					for i, o := range out.Pools {
						if in.Pools[i].Static && o.Cands > 0 && o.Budget > o.Cands && totalCands > o.Cands {
							ls = append(ls, "budget-above-own-candidates-and-other-pools-drifted")
							break
						}
					}
				}
				if dyn {
					ls = append(ls, "dynamic-bystander")
				}
				if out.Panic {
					ls = append(ls, "panic")
				}
				return dedupStrings(ls)
			},
			Signature: func(raw json.RawMessage, impl any) string {
				_, out := dpDecode(raw, impl)
				if out.Panic {
					return "drift-pass-panics"
				}
				for _, p := range out.Pools {
					if p.Reserved != 0 {
						return "drift-pass-leaves-slots-reserved"
					}
				}
				return "other"
			},
		},
	}
}
