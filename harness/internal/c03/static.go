package c03

// Whole reconciles of the REAL static-pool controllers (static/provisioning, static/deprovisioning) with the real
// Provisioner.CreateNodeClaims / Create and the real state.Cluster + NodePoolState on the fake client; the harness
// plays the provider (launch), the API server (finalizers, deletion) and the informers (resync), and injects
// failures into chosen NodeClaim Create calls.

import (
	"context"
	"encoding/json"
	"fmt"
	"math"
	"math/rand/v2"
	"sort"
	"sync"

	corev1 "k8s.io/api/core/v1"
	"k8s.io/apimachinery/pkg/api/resource"
	metav1 "k8s.io/apimachinery/pkg/apis/meta/v1"
	"k8s.io/apimachinery/pkg/types"
	clocktesting "k8s.io/utils/clock/testing"
	"sigs.k8s.io/controller-runtime/pkg/client"
	"sigs.k8s.io/controller-runtime/pkg/client/interceptor"

	v1 "sigs.k8s.io/karpenter/pkg/apis/v1"
	fakecp "sigs.k8s.io/karpenter/pkg/cloudprovider/fake"
	"sigs.k8s.io/karpenter/pkg/controllers/provisioning"
	"sigs.k8s.io/karpenter/pkg/controllers/state"
	staticdeprov "sigs.k8s.io/karpenter/pkg/controllers/static/deprovisioning"
	staticprov "sigs.k8s.io/karpenter/pkg/controllers/static/provisioning"
	"sigs.k8s.io/karpenter/pkg/state/virtualpods"
	"sigs.k8s.io/karpenter/pkg/test"
	"sigs.k8s.io/karpenter/pkg/utils/resources"

	"verifharness/internal/core"
)

type SStep struct {
	S string `json:"s"` // prov | deprov | launch | reap | sync | scale | limit | nolimit | reserve | release | pend
	N int64  `json:"n,omitempty"`
}

type SIn struct {
	Replicas int64   `json:"replicas"`
	Limit    *int64  `json:"limit"` // limits.nodes, null = none
	Fail     []int   `json:"fail"`  // positions (0-based, over the whole history) of NodeClaim Create calls that fail
	Steps    []SStep `json:"steps"`
}

type SObs struct {
	Total    int    `json:"total"`
	Deleting int    `json:"deleting"`
	A        int    `json:"a"`
	D        int    `json:"d"`
	P        int    `json:"p"`
	Err      string `json:"err"`
	Grant    int64  `json:"grant"`
	Faults   bool   `json:"faults"`
	GateOpen bool   `json:"gateOpen"`
	Deleted  []int  `json:"deleted"` // ids of the NodeClaims a deprov step deleted
}

type SOut struct {
	Obs      []SObs `json:"obs"`
	Reserved int64  `json:"reserved"` // the reserved counter at the end (probed)
}

const staticPool = "static-pool"

type sclaim struct {
	id       int
	name     string
	launched bool
	deleting bool
}

type sworld struct {
	ctx     context.Context
	kube    client.Client
	cluster *state.Cluster
	pr      *provisioning.Provisioner
	prov    *staticprov.Controller
	deprov  *staticdeprov.Controller
	mu      sync.Mutex
	creates int
	failed  int
	fail    map[int]bool
	claims  []*sclaim
	next    int
	seq     int
}

func newSWorld(in *SIn) (*sworld, error) { return newSWorldWith(in, 0) }

// newSWorldWith: the static pool gets the given weight, and `extra` objects (e.g. a dynamic NodePool) exist as well
func newSWorldWith(in *SIn, weight int32, extra ...client.Object) (*sworld, error) {
	w := &sworld{ctx: baseCtx(), fail: map[int]bool{}, next: 2}
	for _, f := range in.Fail {
		w.fail[f] = true
	}
	np := test.StaticNodePool(v1.NodePool{ObjectMeta: metav1.ObjectMeta{Name: staticPool, UID: nextUID("np")}})
	np.CreationTimestamp = metav1.NewTime(t0)
	np.Spec.Replicas = &in.Replicas
	np.Spec.Limits = nil
	if in.Limit != nil {
		np.Spec.Limits = v1.Limits(corev1.ResourceList{resources.Node: *resource.NewQuantity(*in.Limit, resource.DecimalSI)})
	}
	if weight > 0 {
		np.Spec.Weight = &weight
	}
	funcs := interceptor.Funcs{
		Create: func(ctx context.Context, c client.WithWatch, obj client.Object, opts ...client.CreateOption) error {
			if nc, ok := obj.(*v1.NodeClaim); ok {
				w.mu.Lock()
				pos := w.creates
				w.creates++
				bad := w.fail[pos]
				if bad {
					w.failed++
				}
				w.mu.Unlock()
				if bad {
					return fmt.Errorf("injected create failure")
				}
				// the lifecycle controller adds the termination finalizer on its first reconcile
				nc.Finalizers = append(nc.Finalizers, v1.TerminationFinalizer)
			}
			return c.Create(ctx, obj, opts...)
		},
	}
	w.kube = newClient(funcs, append([]client.Object{np}, extra...)...)
	cp := fakecp.NewCloudProvider()
	clk := clocktesting.NewFakeClock(t0)
	rec := test.NewEventRecorder()
	w.cluster = state.NewCluster(clk, w.kube, cp)
	vp := virtualpods.NewVirtualPodCache(w.kube)
	pr := provisioning.NewProvisioner(w.kube, rec, cp, w.cluster, clk, nil, vp)
	w.pr = pr
	w.prov = staticprov.NewController(w.kube, w.cluster, rec, cp, pr, clk, nil, vp)
	w.deprov = staticdeprov.NewController(w.kube, w.cluster, cp, clk, rec)
	return w, nil
}

func (w *sworld) nodePool() (*v1.NodePool, error) {
	np := &v1.NodePool{}
	err := w.kube.Get(w.ctx, types.NamespacedName{Name: staticPool}, np)
	return np, err
}

// refresh re-reads the pool's NodeClaims from the API: new ones get the next ids (in name order), new
// deletionTimestamps are reported.
func (w *sworld) refresh() (newlyDeleting []int, err error) {
	list := &v1.NodeClaimList{}
	if err := w.kube.List(w.ctx, list, client.MatchingLabels{v1.NodePoolLabelKey: staticPool}); err != nil {
		return nil, err
	}
	byName := map[string]*v1.NodeClaim{}
	var names []string
	for i := range list.Items {
		byName[list.Items[i].Name] = &list.Items[i]
		names = append(names, list.Items[i].Name)
	}
	sort.Strings(names)
	known := map[string]*sclaim{}
	for _, c := range w.claims {
		known[c.name] = c
	}
	for _, n := range names {
		if known[n] == nil {
			c := &sclaim{id: w.next, name: n}
			w.next++
			w.claims = append(w.claims, c)
			known[n] = c
		}
	}
	var keep []*sclaim
	for _, c := range w.claims {
		nc := byName[c.name]
		if nc == nil {
			continue
		}
		if !nc.DeletionTimestamp.IsZero() && !c.deleting {
			c.deleting = true
			newlyDeleting = append(newlyDeleting, c.id)
		}
		keep = append(keep, c)
	}
	w.claims = keep
	return newlyDeleting, nil
}

func (w *sworld) get(c *sclaim) (*v1.NodeClaim, error) {
	nc := &v1.NodeClaim{}
	err := w.kube.Get(w.ctx, types.NamespacedName{Name: c.name}, nc)
	return nc, err
}

func guard(f func() error) (cls string) {
	defer func() {
		if r := recover(); r != nil {
			cls = "panic"
		}
	}()
	if err := f(); err != nil {
		return "error"
	}
	return ""
}

func (w *sworld) limitOf(np *v1.NodePool) int64 {
	if l, ok := np.Spec.Limits[resources.Node]; ok {
		return l.Value()
	}
	return math.MaxInt64
}

func (w *sworld) step(s SStep) (SObs, error) {
	o := SObs{Deleted: []int{}}
	unlaunched := false
	for _, c := range w.claims {
		if !c.launched {
			unlaunched = true
		}
	}
	o.GateOpen = w.cluster.HasSynced() || !unlaunched
	failedBefore := w.failed
	np, err := w.nodePool()
	if err != nil {
		return o, err
	}
	switch s.S {
	case "prov":
		o.Err = guard(func() error { _, e := w.prov.Reconcile(w.ctx, np); return e })
	case "deprov":
		o.Err = guard(func() error { _, e := w.deprov.Reconcile(w.ctx, np); return e })
	case "launch":
		for _, c := range w.claims {
			if c.launched || c.deleting {
				continue
			}
			nc, err := w.get(c)
			if err != nil {
				return o, err
			}
			w.seq++
			nc.Status.ProviderID = fmt.Sprintf("fake://static-%d", w.seq)
			nc.Status.Capacity = corev1.ResourceList{corev1.ResourceCPU: resource.MustParse("4"), corev1.ResourcePods: resource.MustParse("10")}
			nc.Status.Allocatable = nc.Status.Capacity
			nc.StatusConditions().SetTrue(v1.ConditionTypeLaunched)
			if err := w.kube.Status().Update(w.ctx, nc); err != nil {
				return o, err
			}
			w.cluster.UpdateNodeClaim(nc)
			c.launched = true
		}
	case "reap":
		for _, c := range w.claims {
			if !c.deleting {
				continue
			}
			nc, err := w.get(c)
			if err != nil {
				return o, err
			}
			nc.Finalizers = nil
			if err := w.kube.Update(w.ctx, nc); err != nil {
				return o, err
			}
			name := c.name
			if cls := guard(func() error { w.cluster.DeleteNodeClaim(name); return nil }); cls != "" {
				o.Err = cls
			}
		}
	case "sync":
		for _, c := range w.claims {
			nc, err := w.get(c)
			if err != nil {
				return o, err
			}
			w.cluster.UpdateNodeClaim(nc)
		}
	case "scale":
		np.Spec.Replicas = &s.N
		if err := w.kube.Update(w.ctx, np); err != nil {
			return o, err
		}
	case "limit":
		np.Spec.Limits = v1.Limits(corev1.ResourceList{resources.Node: *resource.NewQuantity(s.N, resource.DecimalSI)})
		if err := w.kube.Update(w.ctx, np); err != nil {
			return o, err
		}
	case "nolimit":
		np.Spec.Limits = nil
		if err := w.kube.Update(w.ctx, np); err != nil {
			return o, err
		}
	case "reserve":
		o.Err = guard(func() error {
			o.Grant = w.cluster.NodePoolState.ReserveNodeCount(staticPool, w.limitOf(np), s.N)
			return nil
		})
	case "release":
		o.Err = guard(func() error { w.cluster.NodePoolState.ReleaseNodeCount(staticPool, s.N); return nil })
	case "restart":
		w.cluster.Reset()
	case "observe": // nothing happens to the static pool; only the observation is taken (c03.staticpods)
	case "pend":
		var cands []*sclaim
		for _, c := range w.claims {
			if c.launched && !c.deleting {
				cands = append(cands, c)
			}
		}
		if int(s.N) < len(cands) && s.N >= 0 {
			w.cluster.NodePoolState.MarkNodeClaimPendingDisruption(staticPool, cands[s.N].name)
		}
	default:
		return o, fmt.Errorf("bad step %q", s.S)
	}
	del, err := w.refresh()
	if err != nil {
		return o, err
	}
	if s.S == "deprov" {
		o.Deleted = append(o.Deleted, del...)
	}
	o.Faults = w.failed > failedBefore
	o.Total = len(w.claims)
	for _, c := range w.claims {
		if c.deleting {
			o.Deleting++
		}
	}
	o.A, o.D, o.P = w.cluster.NodePoolState.GetNodeCount(staticPool)
	return o, nil
}

func implStatic(raw json.RawMessage) (any, error) {
	var in SIn
	if err := json.Unmarshal(raw, &in); err != nil {
		return nil, err
	}
	if in.Replicas < 0 {
		return nil, fmt.Errorf("replicas < 0")
	}
	w, err := newSWorld(&in)
	if err != nil {
		return nil, err
	}
	out := SOut{Obs: []SObs{}}
	for _, s := range in.Steps {
		o, err := w.step(s)
		if err != nil {
			return nil, err
		}
		out.Obs = append(out.Obs, o)
	}
	// probe the reserved counter: with room for 10^6 more nodes, whatever is not granted is reserved
	const big = 1_000_000
	cls := guard(func() error {
		a, d, p := w.cluster.NodePoolState.GetNodeCount(staticPool)
		g := w.cluster.NodePoolState.ReserveNodeCount(staticPool, int64(a+d+p)+big, big)
		out.Reserved = big - g
		w.cluster.NodePoolState.ReleaseNodeCount(staticPool, g)
		return nil
	})
	if cls != "" {
		out.Reserved = -1
	}
	return out, nil
}

func genStatic(r *rand.Rand, t core.Tier) any {
	in := SIn{Replicas: int64(r.IntN(5)), Fail: []int{}}
	if r.Float64() < 0.7 {
		l := in.Replicas + int64(r.IntN(3))
		if r.Float64() < 0.2 {
			l = int64(r.IntN(4))
		}
		in.Limit = &l
	}
	for i, n := 0, r.IntN(3); i < n; i++ {
		if r.Float64() < 0.5 {
			in.Fail = append(in.Fail, r.IntN(8))
		}
	}
	n := 3 + r.IntN(10)
	if t == core.Thorough {
		n = 3 + r.IntN(20)
	}
	outstanding := int64(0)
	in.Steps = append(in.Steps, SStep{S: "prov"})
	for len(in.Steps) < n {
		switch x := r.Float64(); {
		case x < 0.28:
			in.Steps = append(in.Steps, SStep{S: "prov"})
		case x < 0.44:
			in.Steps = append(in.Steps, SStep{S: "launch"})
		case x < 0.56:
			in.Steps = append(in.Steps, SStep{S: "deprov"})
		case x < 0.65:
			in.Steps = append(in.Steps, SStep{S: "reap"})
		case x < 0.77:
			in.Steps = append(in.Steps, SStep{S: "scale", N: int64(r.IntN(6))})
			if r.Float64() < 0.6 {
				in.Steps = append(in.Steps, SStep{S: []string{"deprov", "deprov", "prov"}[r.IntN(3)]})
			}
		case x < 0.81:
			if r.Float64() < 0.3 {
				in.Steps = append(in.Steps, SStep{S: "nolimit"})
			} else {
				in.Steps = append(in.Steps, SStep{S: "limit", N: int64(r.IntN(7))})
			}
		case x < 0.87:
			k := int64(1 + r.IntN(2))
			outstanding += k // an upper bound of what is granted
			in.Steps = append(in.Steps, SStep{S: "reserve", N: k})
		case x < 0.93:
			if outstanding > 0 {
				in.Steps = append(in.Steps, SStep{S: "release", N: 1})
				outstanding--
			}
		case x < 0.96:
			in.Steps = append(in.Steps, SStep{S: "pend", N: int64(r.IntN(3))})
		case x < 0.98:
			in.Steps = append(in.Steps, SStep{S: "restart"})
			outstanding = 0
			if r.Float64() < 0.6 {
				in.Steps = append(in.Steps, SStep{S: []string{"prov", "launch", "deprov", "reap"}[r.IntN(4)]})
			}
			in.Steps = append(in.Steps, SStep{S: "sync"})
		default:
			in.Steps = append(in.Steps, SStep{S: "sync"})
		}
	}
	return in
}

func decodeStatic(raw json.RawMessage, impl any) (*SIn, *SOut) {
	var in SIn
	json.Unmarshal(raw, &in)
	b, _ := json.Marshal(impl)
	var out SOut
	json.Unmarshal(b, &out)
	return &in, &out
}

func staticOps() []*core.Op {
	return []*core.Op{
		{
			Name: "c03.static",
			Doc:  "histories of whole reconciles of the real static provisioning and deprovisioning controllers (with Provisioner.CreateNodeClaims/Create, state.Cluster and NodePoolState) interleaved with launches, deletions completing, informer resyncs, replica / limit edits, slots held by other reconciles, pending-disruption marks and failing Create calls; compared step by step with the model and judged by the observer specification",
			N: func(t core.Tier) int {
				if t == core.Thorough {
					return 3000
				}
				return 500
			},
			Gen:  genStatic,
			Impl: implStatic,
			Rule: "random histories of 3..12 steps (thorough 3..22): replicas 0..4, limits.nodes none / replicas+{0,1,2} / 0..3, up to 2 failing Create positions; non-trivial = some provisioning reconcile created NodeClaims while a limit or other reconciles' slots clamped its grant, or a deprovisioning reconcile deleted NodeClaims",
			Nontrivial: func(raw json.RawMessage, impl any) bool {
				in, out := decodeStatic(raw, impl)
				replicas, prev := in.Replicas, 0
				for i, o := range out.Obs {
					if i >= len(in.Steps) {
						break
					}
					switch in.Steps[i].S {
					case "scale":
						replicas = in.Steps[i].N
					case "deprov":
						if len(o.Deleted) > 0 {
							return true
						}
					case "prov":
						if o.Total > prev && !o.Faults && int64(o.Total-o.Deleting) < replicas {
							return true // created, but fewer than asked for: the limit / other reconciles' slots clamped the grant
						}
					}
					prev = o.Total
				}
				return false
			},
			Labels: func(raw json.RawMessage, impl any) []string {
				in, out := decodeStatic(raw, impl)
				seen := map[string]bool{}
				var ls []string
				add := func(s string) {
					if !seen[s] {
						seen[s] = true
						ls = append(ls, s)
					}
				}
				if in.Limit == nil {
					add("limit:none")
				} else {
					add("limit:set")
				}
				prev := 0
				for i, o := range out.Obs {
					if i >= len(in.Steps) {
						break
					}
					add("step:" + in.Steps[i].S)
					if in.Steps[i].S == "prov" && o.Total > prev {
						add("prov:created")
					}
					if in.Steps[i].S == "prov" && o.Err != "" {
						add("prov:" + o.Err)
					}
					if in.Steps[i].S == "deprov" && len(o.Deleted) > 0 {
						add("deprov:deleted")
					}
					if !o.GateOpen {
						add("gate:closed")
					}
					prev = o.Total
				}
				return ls
			},
			Signature: func(json.RawMessage, any) string { return "static" },
			Shrink: func(raw json.RawMessage) []any {
				var in SIn
				json.Unmarshal(raw, &in)
				var out []any
				for _, c := range core.ShrinkList(in.Steps) {
					out = append(out, SIn{Replicas: in.Replicas, Limit: in.Limit, Fail: in.Fail, Steps: c})
				}
				if len(in.Fail) > 0 {
					out = append(out, SIn{Replicas: in.Replicas, Limit: in.Limit, Fail: []int{}, Steps: in.Steps})
				}
				return out
			},
		},
	}
}
