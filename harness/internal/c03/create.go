package c03

// The limits check in front of every NodeClaim create: the real Provisioner.Create (NodePool Get, Limits.ExceededBy over
// Cluster.NodePoolResourcesFor, kubeClient.Create, Cluster.UpdateNodeClaim) on a pool whose existing nodes sit below,
// at and above its limits, some of them marked for deletion.

import (
	"encoding/json"
	"fmt"
	"math/rand/v2"

	"k8s.io/apimachinery/pkg/types"
	"sigs.k8s.io/controller-runtime/pkg/client"
	v1 "sigs.k8s.io/karpenter/pkg/apis/v1"
	"sigs.k8s.io/karpenter/pkg/controllers/provisioning"
	"sigs.k8s.io/karpenter/pkg/controllers/provisioning/scheduling"

	"verifharness/internal/core"
)

type CIn struct {
	Catalog  []LIT            `json:"catalog"`
	Limits   map[string]int64 `json:"limits"`   // null = none
	Existing []int            `json:"existing"` // catalog index of every launched node of the pool
	Marked   []int            `json:"marked"`   // positions in Existing that are marked for deletion
}

type COut struct {
	Created bool             `json:"created"`
	Err     string           `json:"err"`   // "" | limit | error
	InAPI   int              `json:"inApi"` // NodeClaims of the pool in the API afterwards, minus the pre-existing ones
	Usage   map[string]int64 `json:"usage"`
}

func implCreate(raw json.RawMessage) (any, error) {
	var in CIn
	if err := json.Unmarshal(raw, &in); err != nil {
		return nil, err
	}
	lin := &LIn{Catalog: in.Catalog, Pools: []LPool{{Limits: in.Limits}}}
	for i := range in.Catalog {
		lin.Pools[0].ITs = append(lin.Pools[0].ITs, i)
	}
	for _, it := range in.Existing {
		lin.Existing = append(lin.Existing, LNode{Pool: 0, IT: it})
	}
	w, err := newLWorld(lin)
	if err != nil {
		return nil, err
	}
	for _, m := range in.Marked {
		if m >= 0 && m < len(w.nodes) {
			w.cluster.MarkForDeletion(w.nodes[m].id)
		}
	}
	np := &v1.NodePool{}
	if err := w.kube.Get(w.ctx, types.NamespacedName{Name: lpoolName(0)}, np); err != nil {
		return nil, err
	}
	out := COut{Usage: map[string]int64{}}
	for k, q := range w.cluster.NodePoolResourcesFor(lpoolName(0)) {
		if !q.IsZero() {
			out.Usage[string(k)] = milliOf(string(k), q)
		}
	}
	name, cerr := w.prov.Create(w.ctx, &scheduling.NodeClaim{NodeClaimTemplate: *scheduling.NewNodeClaimTemplate(np)}, provisioning.WithReason("provisioned"))
	out.Created = cerr == nil && name != ""
	out.Err = errClass(cerr)
	list := &v1.NodeClaimList{}
	if err := w.kube.List(w.ctx, list, client.MatchingLabels{v1.NodePoolLabelKey: lpoolName(0)}); err != nil {
		return nil, err
	}
	out.InAPI = len(list.Items) - len(in.Existing)
	return out, nil
}

func genCreate(r *rand.Rand, t core.Tier) any {
	in := CIn{Existing: []int{}, Marked: []int{}}
	nIT := 1 + r.IntN(3)
	for i := 0; i < nIT; i++ {
		c := []int64{1, 2, 4, 8}[r.IntN(4)]
		capm := map[string]int64{"cpu": c * 1000, "memory": c * 2 * 1024 * 1000, "pods": int64(4+r.IntN(10)) * 1000}
		if r.Float64() < 0.3 {
			capm["example.com/gpu"] = int64(1+r.IntN(2)) * 1000
		}
		in.Catalog = append(in.Catalog, LIT{Cap: capm})
	}
	total := map[string]int64{}
	n := r.IntN(5)
	for i := 0; i < n; i++ {
		it := r.IntN(nIT)
		in.Existing = append(in.Existing, it)
		marked := r.Float64() < 0.25
		if marked {
			in.Marked = append(in.Marked, i)
			continue
		}
		for k, v := range in.Catalog[it].Cap {
			total[k] += v
		}
		total["nodes"] += 1000
	}
	if r.Float64() < 0.92 {
		in.Limits = map[string]int64{}
		for i, m := 0, 1+r.IntN(2); i < m; i++ {
			k := limitResources[r.IntN(len(limitResources))]
			// around the current usage: below, one milli below, exactly, one milli above, above
			d := []int64{-3000, -1000, -1, 0, 0, 1, 1000, 5000}[r.IntN(8)]
			if k == "memory" {
				d *= 1024
			}
			v := total[k] + d
			if v < 0 {
				v = 0
			}
			in.Limits[k] = v
		}
	}
	return in
}

func createOps() []*core.Op {
	return []*core.Op{
		{
			Name: "c03.create",
			Doc:  "the real Provisioner.Create on a pool whose usage (Cluster.nodePoolResources over launched nodes, some marked for deletion) is below / exactly at / one milli above / above its limits: created or refused by Limits.ExceededBy, usage as reported",
			N: func(t core.Tier) int {
				if t == core.Thorough {
					return 1200
				}
				return 300
			},
			Gen:  genCreate,
			Impl: implCreate,
			Rule: "random pools with 0-4 launched nodes (25% marked for deletion) and 1-2 limits placed at usage + {-3, -1, -0.001, 0, +0.001, +1, +5} units; non-trivial = some limited resource's usage is within one milli-unit of its limit or above it",
			Nontrivial: func(raw json.RawMessage, impl any) bool {
				var in CIn
				json.Unmarshal(raw, &in)
				b, _ := json.Marshal(impl)
				var out COut
				json.Unmarshal(b, &out)
				for k, l := range in.Limits {
					if out.Usage[k] >= l-1 {
						return true
					}
				}
				return false
			},
			Labels: func(raw json.RawMessage, impl any) []string {
				var in CIn
				json.Unmarshal(raw, &in)
				b, _ := json.Marshal(impl)
				var out COut
				json.Unmarshal(b, &out)
				ls := []string{fmt.Sprintf("created=%v", out.Created), "err=" + out.Err}
				for k, l := range in.Limits {
					switch u := out.Usage[k]; {
					case u == l:
						ls = append(ls, "usage=limit")
					case u == l+1:
						ls = append(ls, "usage=limit+1m")
					case u > l:
						ls = append(ls, "usage>limit")
					default:
						ls = append(ls, "usage<limit")
					}
				}
				if len(in.Marked) > 0 {
					ls = append(ls, "marked-for-deletion")
				}
				return ls
			},
			Signature: func(json.RawMessage, any) string { return "create" },
		},
	}
}
