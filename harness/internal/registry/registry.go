// Package registry lists the correspondence ops per property.
package registry

import (
	"sort"

	"verifharness/internal/core"
)

var table = map[string]func() []*core.Op{}

// Register is called from the per-property packages' init via registry_*.go files.
func Register(prop string, f func() []*core.Op) { table[prop] = f }

func Props() []string {
	var ps []string
	for p := range table {
		ps = append(ps, p)
	}
	sort.Strings(ps)
	return ps
}

func Ops(prop string) []*core.Op {
	f := table[prop]
	if f == nil {
		return nil
	}
	ops := f()
	for _, o := range ops {
		o.Prop = prop
	}
	return ops
}

func Find(name string) *core.Op {
	for _, p := range Props() {
		for _, o := range Ops(p) {
			if o.Name == name {
				return o
			}
		}
	}
	return nil
}
