// Package c12: correspondence ops for C12 (stub, not yet built).
package c12

import (
	"verifharness/internal/core"
	"verifharness/internal/registry"
)

func init() { registry.Register("C12", Ops) }

func Ops() []*core.Op { return nil }
