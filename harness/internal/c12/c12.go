// Package c12: label-requirement algebra — real pkg/scheduling Requirement(s) vs the Lean model and the
// Kubernetes node-selector specification.
package c12

import (
	"encoding/json"
	"fmt"
	"math/rand/v2"
	"sort"
	"strconv"
	"strings"

	"k8s.io/apimachinery/pkg/util/sets"

	v1 "sigs.k8s.io/karpenter/pkg/apis/v1"
	"sigs.k8s.io/karpenter/pkg/cloudprovider/fake"
	"sigs.k8s.io/karpenter/pkg/scheduling"

	"verifharness/internal/core"
	"verifharness/internal/registry"
	rg "verifharness/internal/reqgen"
)

func init() { registry.Register("C12", Ops) }

// ---------- c12.new ----------

type NewIn struct {
	Key       string   `json:"key"`
	Op        string   `json:"op"`
	Values    []string `json:"values"`
	MinValues *int     `json:"minValues"`
	Probes    []string `json:"probes"`
}

var keys = []string{"team", "example.com/tier", "topology.kubernetes.io/zone", "failure-domain.beta.kubernetes.io/zone", "beta.kubernetes.io/arch", "karpenter.sh/capacity-type"}

func mkNewIn(key string, e rg.Expr) NewIn {
	return NewIn{Key: key, Op: e.Op, Values: e.Values, MinValues: e.MinValues, Probes: rg.Probes([]rg.Expr{e})}
}

func implNew(raw json.RawMessage) (any, error) {
	var in NewIn
	if err := json.Unmarshal(raw, &in); err != nil {
		return nil, err
	}
	r := rg.New(in.Key, rg.Expr{Op: in.Op, Values: in.Values, MinValues: in.MinValues})
	has := make([]bool, len(in.Probes))
	for i, p := range in.Probes {
		has[i] = r.Has(p)
	}
	return map[string]any{"snap": rg.SnapOf(r), "operator": opName(string(r.Operator())), "len": r.Len(), "has": has}, nil
}

func opName(s string) string { return s }

// ---------- c12.pair ----------

type PairIn struct {
	Key    string    `json:"key"`
	A      []rg.Expr `json:"a"`
	B      []rg.Expr `json:"b"`
	Probes []string  `json:"probes"`
}

func implPair(raw json.RawMessage) (any, error) {
	var in PairIn
	if err := json.Unmarshal(raw, &in); err != nil {
		return nil, err
	}
	a := rg.Build(in.Key, in.A)
	b := rg.Build(in.Key, in.B)
	ab := a.Intersection(b)
	ba := b.Intersection(a)
	row := func(r *scheduling.Requirement) []bool {
		out := make([]bool, len(in.Probes))
		for i, p := range in.Probes {
			out[i] = r.Has(p)
		}
		return out
	}
	return map[string]any{
		"a": rg.SnapOf(a), "b": rg.SnapOf(b), "ab": rg.SnapOf(ab), "ba": rg.SnapOf(ba),
		"overlapAB": a.HasIntersection(b), "overlapBA": b.HasIntersection(a),
		"hasA": row(a), "hasB": row(b), "hasAB": row(ab), "hasBA": row(ba),
		"lenAB": ab.Len(), "opAB": string(ab.Operator()),
	}, nil
}

func genExprs(r *rand.Rand, malformed bool) []rg.Expr {
	n := 1 + r.IntN(3)
	es := make([]rg.Expr, n)
	for i := range es {
		es[i] = rg.RandExpr(r, malformed)
	}
	return es
}

func genPair(r *rand.Rand, t core.Tier) any {
	malformed := r.Float64() < 0.12
	a, b := genExprs(r, malformed), genExprs(r, malformed)
	return PairIn{Key: keys[r.IntN(len(keys))], A: a, B: b, Probes: rg.Probes(a, b)}
}

// ---------- c12.compat ----------

type KeyExprs struct {
	Key   string    `json:"key"`
	Exprs []rg.Expr `json:"exprs"`
}

type CompatIn struct {
	A              []KeyExprs `json:"a"`
	B              []KeyExprs `json:"b"`
	AllowWellKnown bool       `json:"allowWellKnown"`
	// WellKnown is v1.WellKnownLabels as it is in this process when the case is generated: the set is extended at run
	// time by cloud providers (here: the fake provider's init()), and AllowUndefinedWellKnownLabels must hand out the
	// live set
	WellKnown []string `json:"wellKnown"`
}

var compatKeys = []string{"team", "example.com/tier", "k3", "topology.kubernetes.io/zone", "node.kubernetes.io/instance-type", "karpenter.sh/capacity-type", "kubernetes.io/hostname", "failure-domain.beta.kubernetes.io/zone",
	// well-known labels registered at run time by the (fake) cloud provider
	fake.LabelInstanceSize, fake.ExoticInstanceLabelKey, fake.IntegerInstanceLabelKey}

func buildReqs(l []KeyExprs) scheduling.Requirements {
	R := scheduling.NewRequirements()
	for _, ke := range l {
		for _, e := range ke.Exprs {
			R.Add(rg.New(ke.Key, e))
		}
	}
	return R
}

func genReqs(r *rand.Rand) []KeyExprs {
	n := r.IntN(4)
	perm := r.Perm(len(compatKeys))
	out := make([]KeyExprs, 0, n)
	for i := 0; i < n; i++ {
		k := compatKeys[perm[i]]
		m := 1 + r.IntN(2)
		es := make([]rg.Expr, m)
		for j := range es {
			es[j] = rg.RandExpr(r, false)
		}
		out = append(out, KeyExprs{Key: k, Exprs: es})
	}
	return out
}

func genCompat(r *rand.Rand, t core.Tier) any {
	in := CompatIn{A: genReqs(r), B: genReqs(r), AllowWellKnown: r.Float64() < 0.6, WellKnown: sets.List(v1.WellKnownLabels)}
	// make shared keys likely
	if len(in.A) > 0 && len(in.B) > 0 && r.Float64() < 0.6 {
		in.B[0].Key = in.A[0].Key
		// avoid duplicate keys within B after the overwrite (normalised aliases collapse too; Add intersects them, which is fine)
	}
	return in
}

// snapAll is a canonical rendering of a whole requirement set (every key with the snapshot of its requirement)
func snapAll(R scheduling.Requirements) string {
	ks := make([]string, 0, len(R))
	for k := range R {
		ks = append(ks, k)
	}
	sort.Strings(ks)
	var sb strings.Builder
	for _, k := range ks {
		b, _ := json.Marshal(rg.SnapOf(R[k]))
		fmt.Fprintf(&sb, "%s=%s;", k, b)
	}
	return sb.String()
}

func implCompat(raw json.RawMessage) (any, error) {
	var in CompatIn
	if err := json.Unmarshal(raw, &in); err != nil {
		return nil, err
	}
	A, B := buildReqs(in.A), buildReqs(in.B)
	compat := func() (bool, bool) {
		if in.AllowWellKnown {
			return A.Compatible(B, scheduling.AllowUndefinedWellKnownLabels) == nil, A.IsCompatible(B, scheduling.AllowUndefinedWellKnownLabels)
		}
		return A.Compatible(B) == nil, A.IsCompatible(B)
	}
	c, isC := compat()
	x := A.Intersects(B) == nil
	// the observers must not change the sets they read (nor the answers that follow): every accessor is called on every key
	// of either side and on a key neither side defines
	sa, sb := snapAll(A), snapAll(B)
	ks := []string{"verif/undefined-key"}
	for _, l := range [][]KeyExprs{in.A, in.B} {
		for _, ke := range l {
			ks = append(ks, ke.Key)
		}
	}
	for _, R := range []scheduling.Requirements{A, B} {
		for _, k := range ks {
			q := R.Get(k)
			_, _, _, _, _ = q.Len(), q.Operator(), q.Values(), q.Any(), q.String()
			R.Has(k)
		}
		_, _, _, _ = R.Keys(), R.Values(), R.String(), R.NodeSelectorRequirements()
		_ = R.HasMinValues()
	}
	readsPure := snapAll(A) == sa && snapAll(B) == sb
	c2, isC2 := compat()
	x2 := A.Intersects(B) == nil
	// the combinators must not change their operands: A1 is a copy of A made the way the scheduler copies requirement sets
	// (the *Requirement objects are shared), then B is added to it
	sa, sb = snapAll(A), snapAll(B)
	A1 := scheduling.NewRequirements(A.Values()...)
	A1.Add(B.Values()...)
	B1 := scheduling.NewRequirements(B.Values()...)
	B1.Add(A.Values()...)
	operandsKept := snapAll(A) == sa && snapAll(B) == sb
	return map[string]any{"compatible": c, "intersects": x, "isCompatible": isC, "readsPure": readsPure, "compatibleAfterReads": c2,
		"isCompatibleAfterReads": isC2, "intersectsAfterReads": x2, "operandsKept": operandsKept, "sumCommutes": snapAll(A1) == snapAll(B1)}, nil
}

// ---------- c12.valuemap ----------

// A cloud provider may register value translations for a (normalized) label key in v1.NormalizedLabelValues at start-up
// (none is registered in core). The op installs a table for the duration of one constructor call (Serial: the table is
// process-wide), builds a requirement through a stable or an alias key and observes it.
type ValueMapIn struct {
	Table  map[string]map[string]string `json:"table"` // normalized key -> from -> to
	Key    string                       `json:"key"`
	Op     string                       `json:"op"`
	Values []string                     `json:"values"`
	Probes []string                     `json:"probes"`
}

var vmKeys = []string{"topology.kubernetes.io/zone", "failure-domain.beta.kubernetes.io/zone", "topology.kubernetes.io/region", "failure-domain.beta.kubernetes.io/region", "team"}
var vmVals = []string{"", "a", "b", "A", "0", "eu", "europe"}

func genValueMap(r *rand.Rand, t core.Tier) any {
	in := ValueMapIn{Table: map[string]map[string]string{}, Key: vmKeys[r.IntN(len(vmKeys))], Op: []string{"In", "NotIn", "In", "Exists"}[r.IntN(4)]}
	for _, k := range []string{"topology.kubernetes.io/zone", "topology.kubernetes.io/region", "team", "failure-domain.beta.kubernetes.io/zone"} {
		if r.Float64() < 0.6 {
			m := map[string]string{}
			for i := 0; i < 1+r.IntN(3); i++ {
				m[vmVals[r.IntN(len(vmVals))]] = vmVals[r.IntN(len(vmVals))]
			}
			in.Table[k] = m
		}
	}
	if in.Op != "Exists" {
		for i := 0; i < 1+r.IntN(3); i++ {
			in.Values = append(in.Values, vmVals[r.IntN(len(vmVals))])
		}
	} else {
		in.Values = []string{}
	}
	in.Probes = append([]string{}, vmVals...)
	return in
}

func implValueMap(raw json.RawMessage) (any, error) {
	var in ValueMapIn
	if err := json.Unmarshal(raw, &in); err != nil {
		return nil, err
	}
	saved := v1.NormalizedLabelValues
	v1.NormalizedLabelValues = in.Table
	defer func() { v1.NormalizedLabelValues = saved }()
	orig := append([]string{}, in.Values...)
	r := rg.New(in.Key, rg.Expr{Op: in.Op, Values: in.Values})
	has := make([]bool, len(in.Probes))
	for i, p := range in.Probes {
		has[i] = r.Has(p)
	}
	_ = orig
	return map[string]any{"snap": rg.SnapOf(r), "has": has}, nil
}


// ---------- c12.labels ----------

// NewLabelRequirements on a label map (node labels, a pod's nodeSelector): an alias key and its canonical key may both be
// present; they are one requirement (the intersection), whatever the map's iteration order.
type LabelKV struct {
	K string `json:"k"`
	V string `json:"v"`
}

type LabelsIn struct {
	Labels []LabelKV `json:"labels"` // distinct raw keys
	Probes []string  `json:"probes"`
}

var labelKeys = []string{"team", "topology.kubernetes.io/zone", "failure-domain.beta.kubernetes.io/zone", "topology.kubernetes.io/region", "failure-domain.beta.kubernetes.io/region",
	"kubernetes.io/arch", "beta.kubernetes.io/arch", "kubernetes.io/os", "beta.kubernetes.io/os", "node.kubernetes.io/instance-type", "beta.kubernetes.io/instance-type"}
var labelVals = []string{"a", "b", "amd64", "linux"}

func genLabels(r *rand.Rand, t core.Tier) any {
	n := 1 + r.IntN(5)
	perm := r.Perm(len(labelKeys))
	in := LabelsIn{Probes: append([]string{"zz"}, labelVals...)}
	for i := 0; i < n; i++ {
		in.Labels = append(in.Labels, LabelKV{K: labelKeys[perm[i]], V: labelVals[r.IntN(len(labelVals))]})
	}
	// make an alias / canonical pair likely
	if r.Float64() < 0.6 {
		pairs := [][2]string{{"topology.kubernetes.io/zone", "failure-domain.beta.kubernetes.io/zone"}, {"kubernetes.io/arch", "beta.kubernetes.io/arch"}, {"node.kubernetes.io/instance-type", "beta.kubernetes.io/instance-type"}}
		p := pairs[r.IntN(len(pairs))]
		seen := map[string]bool{}
		for _, kv := range in.Labels {
			seen[kv.K] = true
		}
		for _, k := range p {
			if !seen[k] {
				in.Labels = append(in.Labels, LabelKV{K: k, V: labelVals[r.IntN(2)]})
			}
		}
	}
	return in
}

func implLabels(raw json.RawMessage) (any, error) {
	var in LabelsIn
	if err := json.Unmarshal(raw, &in); err != nil {
		return nil, err
	}
	m := map[string]string{}
	for _, kv := range in.Labels {
		m[kv.K] = kv.V
	}
	R := scheduling.NewLabelRequirements(m)
	keys := []string{}
	for k := range R {
		keys = append(keys, k)
	}
	sort.Strings(keys)
	out := []map[string]any{}
	for _, k := range keys {
		has := make([]bool, len(in.Probes))
		for i, p := range in.Probes {
			has[i] = R.Get(k).Has(p)
		}
		out = append(out, map[string]any{"key": k, "snap": rg.SnapOf(R.Get(k)), "has": has})
	}
	return map[string]any{"keys": out}, nil
}

// ---------- c12.atoi ----------

type AtoiIn struct {
	Strings []string `json:"strings"`
}

func genAtoi(r *rand.Rand, t core.Tier) any {
	n := 20
	ss := make([]string, 0, n)
	alphabet := []string{"0", "1", "9", "-", "+", "_", " ", "a", "x", ".", "5", "7"}
	for i := 0; i < n; i++ {
		switch x := r.Float64(); {
		case x < 0.3:
			ss = append(ss, rg.WideUniverse[r.IntN(len(rg.WideUniverse))])
		case x < 0.6:
			l := r.IntN(6)
			var b strings.Builder
			for j := 0; j < l; j++ {
				b.WriteString(alphabet[r.IntN(len(alphabet))])
			}
			ss = append(ss, b.String())
		case x < 0.8:
			// around the int64 edges, with padding
			base := []string{"9223372036854775807", "9223372036854775808", "9223372036854775806", "-9223372036854775808", "-9223372036854775809", "18446744073709551616", "99999999999999999999"}[r.IntN(7)]
			if r.Float64() < 0.4 {
				if base[0] == '-' {
					base = "-000" + base[1:]
				} else {
					base = "000" + base
				}
			}
			ss = append(ss, base)
		default:
			ss = append(ss, strconv.Itoa(r.IntN(1<<30)-(1<<29)))
		}
	}
	return AtoiIn{Strings: ss}
}

func implAtoi(raw json.RawMessage) (any, error) {
	var in AtoiIn
	if err := json.Unmarshal(raw, &in); err != nil {
		return nil, err
	}
	out := make([]map[string]any, len(in.Strings))
	for i, s := range in.Strings {
		v, err := strconv.Atoi(s)
		out[i] = map[string]any{"v": v, "ok": err == nil}
	}
	return out, nil
}

// ---------- registration ----------

func sig(ess ...[]rg.Expr) string {
	set := map[string]bool{}
	for _, es := range ess {
		for _, f := range rg.Features(es) {
			if strings.HasPrefix(f, "op:") || f == "exclusions+bound" {
				set[f] = true
			}
		}
	}
	var l []string
	for k := range set {
		l = append(l, k)
	}
	sort.Strings(l)
	return strings.Join(l, ",")
}

func Ops() []*core.Op {
	singles := rg.SingleExprs()
	return []*core.Op{
		{
			Name: "c12.new",
			Doc:  "scheduling.NewRequirementWithFlexibility for every operator/operand: snapshot, Operator(), Len(), Has() over probes; spec = Kubernetes operator semantics",
			N:    func(t core.Tier) int { return map[core.Tier]int{core.Quick: 1500, core.Thorough: 30000}[t] },
			Gen: func(r *rand.Rand, t core.Tier) any {
				return mkNewIn(keys[r.IntN(len(keys))], rg.RandExpr(r, r.Float64() < 0.2))
			},
			Enum: func(t core.Tier) []any {
				var out []any
				for _, e := range singles {
					out = append(out, mkNewIn("team", e))
				}
				for _, k := range keys {
					out = append(out, mkNewIn(k, rg.Expr{Op: "In", Values: []string{"v"}}))
				}
				return out
			},
			ExhaustiveNote: "all 8 operators x operand choices over the 9-value universe (subsets of size<=2 for In/NotIn; 7 numeric literals incl. MaxInt/MinInt for Gt/Lt/Gte/Lte)",
			Impl:           implNew,
			Rule:           "non-trivial = the requirement admits at least one probe value and rejects at least one",
			Nontrivial: func(raw json.RawMessage, impl any) bool {
				m, _ := impl.(map[string]any)
				hs, _ := m["has"].([]any)
				t, f := false, false
				for _, h := range hs {
					if b, _ := h.(bool); b {
						t = true
					} else {
						f = true
					}
				}
				return t && f
			},
			Labels: func(raw json.RawMessage, impl any) []string {
				var in NewIn
				json.Unmarshal(raw, &in)
				return []string{"op:" + in.Op, fmt.Sprintf("nvalues=%d", len(in.Values))}
			},
			Signature: func(raw json.RawMessage, impl any) string {
				var in NewIn
				json.Unmarshal(raw, &in)
				return "new:" + in.Op
			},
		},
		{
			Name: "c12.pair",
			Doc:  "pairs of requirements (each an intersection of 1-3 constructor calls): Intersection both orders, HasIntersection both orders, Has over probes; spec = set semantics of Kubernetes operators",
			N:    func(t core.Tier) int { return map[core.Tier]int{core.Quick: 3000, core.Thorough: 60000}[t] },
			Gen:  genPair,
			Enum: func(t core.Tier) []any {
				// exhaustive small scope: all ordered pairs of single expressions (thorough), a fixed stride sample of them (quick)
				var out []any
				stride := 1
				if t == core.Quick {
					stride = 7
				}
				idx := 0
				for _, a := range singles {
					for _, b := range singles {
						if idx%stride == 0 {
							ea, eb := []rg.Expr{a}, []rg.Expr{b}
							out = append(out, PairIn{Key: "team", A: ea, B: eb, Probes: rg.Probes(ea, eb)})
						}
						idx++
					}
				}
				return out
			},
			ExhaustiveNote: "thorough: all ordered pairs of the small-scope single expressions (quick: every 7th pair)",
			Impl:           implPair,
			Rule:           "non-trivial = both operands admit at least one probe value",
			Nontrivial: func(raw json.RawMessage, impl any) bool {
				m, _ := impl.(map[string]any)
				any1 := func(k string) bool {
					hs, _ := m[k].([]any)
					for _, h := range hs {
						if b, _ := h.(bool); b {
							return true
						}
					}
					return false
				}
				return any1("hasA") && any1("hasB")
			},
			Labels: func(raw json.RawMessage, impl any) []string {
				var in PairIn
				json.Unmarshal(raw, &in)
				l := append(rg.Features(in.A), rg.Features(in.B)...)
				if m, ok := impl.(map[string]any); ok {
					l = append(l, fmt.Sprintf("overlap=%v", m["overlapAB"]))
				}
				return l
			},
			Signature: func(raw json.RawMessage, impl any) string {
				var in PairIn
				json.Unmarshal(raw, &in)
				return "pair:" + sig(in.A, in.B)
			},
			Shrink: func(raw json.RawMessage) []any {
				var in PairIn
				json.Unmarshal(raw, &in)
				var out []any
				for _, a := range core.ShrinkList(in.A) {
					if len(a) > 0 {
						out = append(out, PairIn{Key: in.Key, A: a, B: in.B, Probes: rg.Probes(a, in.B)})
					}
				}
				for _, b := range core.ShrinkList(in.B) {
					if len(b) > 0 {
						out = append(out, PairIn{Key: in.Key, A: in.A, B: b, Probes: rg.Probes(in.A, b)})
					}
				}
				return out
			},
		},
		{
			Name: "c12.compat",
			Doc:  "Requirements.Compatible / IsCompatible / Intersects on random requirement sets over custom, well-known, restricted and aliased keys, with and without AllowUndefinedWellKnownLabels; asked again after every accessor (Get/Has/Keys/Values/String/NodeSelectorRequirements, defined and undefined keys) has been called: reads must not change the sets or the answers; Add on a NewRequirements(Values()...) copy must not change its operands and A+B = B+A",
			N:    func(t core.Tier) int { return map[core.Tier]int{core.Quick: 4000, core.Thorough: 80000}[t] },
			Gen:  genCompat,
			Impl: implCompat,
			Rule: "non-trivial = the two sets share at least one key, or B has a key undefined in A",
			Nontrivial: func(raw json.RawMessage, impl any) bool {
				var in CompatIn
				json.Unmarshal(raw, &in)
				return len(in.B) > 0
			},
			Labels: func(raw json.RawMessage, impl any) []string {
				var in CompatIn
				json.Unmarshal(raw, &in)
				l := []string{fmt.Sprintf("|A|=%d", len(in.A)), fmt.Sprintf("|B|=%d", len(in.B)), fmt.Sprintf("allowWK=%v", in.AllowWellKnown)}
				if m, ok := impl.(map[string]any); ok {
					l = append(l, fmt.Sprintf("compatible=%v", m["compatible"]))
				}
				shared := false
				for _, a := range in.A {
					for _, b := range in.B {
						if normKey(a.Key) == normKey(b.Key) {
							shared = true
						}
					}
				}
				if shared {
					l = append(l, "shared-key")
				}
				return l
			},
			Signature: func(raw json.RawMessage, impl any) string { return "compat" },
			Shrink: func(raw json.RawMessage) []any {
				var in CompatIn
				json.Unmarshal(raw, &in)
				var out []any
				for _, a := range core.ShrinkList(in.A) {
					out = append(out, CompatIn{A: a, B: in.B, AllowWellKnown: in.AllowWellKnown, WellKnown: in.WellKnown})
				}
				for _, b := range core.ShrinkList(in.B) {
					out = append(out, CompatIn{A: in.A, B: b, AllowWellKnown: in.AllowWellKnown, WellKnown: in.WellKnown})
				}
				return out
			},
		},
		{
			Name:   "c12.valuemap",
			Doc:    "NewRequirement under a provider-registered v1.NormalizedLabelValues table (installed for the call): values are translated by the table entry of the NORMALIZED key, through stable and alias keys",
			N:      func(t core.Tier) int { return map[core.Tier]int{core.Quick: 1500, core.Thorough: 20000}[t] },
			Gen:    genValueMap,
			Impl:   implValueMap,
			Serial: true,
			Rule:   "non-trivial = the table has an entry for the normalized key that translates one of the operand values",
			Nontrivial: func(raw json.RawMessage, _ any) bool {
				var in ValueMapIn
				json.Unmarshal(raw, &in)
				m := in.Table[normKey(in.Key)]
				for _, v := range in.Values {
					if to, ok := m[v]; ok && to != v {
						return true
					}
				}
				return false
			},
			Labels: func(raw json.RawMessage, _ any) []string {
				var in ValueMapIn
				json.Unmarshal(raw, &in)
				l := []string{"op=" + in.Op}
				if normKey(in.Key) != in.Key {
					l = append(l, "alias-key")
				}
				if _, ok := in.Table[normKey(in.Key)]; ok {
					l = append(l, "table-for-normalized-key")
				}
				if _, ok := in.Table[in.Key]; ok && normKey(in.Key) != in.Key {
					l = append(l, "table-for-alias-key-only-must-be-ignored")
				}
				return l
			},
			Signature: func(raw json.RawMessage, impl any) string { return "valuemap" },
		},
		{
			Name: "c12.labels",
			Doc:  "scheduling.NewLabelRequirements on label maps that may hold an alias key and its canonical key: one requirement per normalized key = the intersection of all entries, independent of map order",
			N:    func(t core.Tier) int { return map[core.Tier]int{core.Quick: 1500, core.Thorough: 30000}[t] },
			Gen:  genLabels,
			Impl: implLabels,
			Rule: "non-trivial = two raw keys normalize to the same key",
			Nontrivial: func(raw json.RawMessage, _ any) bool {
				var in LabelsIn
				json.Unmarshal(raw, &in)
				seen := map[string]bool{}
				for _, kv := range in.Labels {
					if seen[normKey(kv.K)] {
						return true
					}
					seen[normKey(kv.K)] = true
				}
				return false
			},
			Signature: func(raw json.RawMessage, impl any) string { return "labels" },
		},
		{
			Name: "c12.atoi",
			Doc:  "the model's atoi against strconv.Atoi (value and error flag) on random and edge-case strings",
			N:    func(t core.Tier) int { return map[core.Tier]int{core.Quick: 500, core.Thorough: 10000}[t] },
			Gen:  genAtoi,
			Impl: implAtoi,
			Rule: "20 strings per case; non-trivial = always (each case mixes parsable, unparsable and out-of-range strings)",
		},
	}
}

func normKey(k string) string {
	if n, ok := v1.NormalizedLabels[k]; ok {
		return n
	}
	return k
}
