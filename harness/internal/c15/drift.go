package c15

import (
	"context"
	"encoding/json"
	"errors"
	"fmt"
	"math/rand/v2"
	"sort"
	"strings"
	"time"

	"github.com/awslabs/operatorpkg/object"
	"github.com/go-logr/logr"
	corev1 "k8s.io/api/core/v1"
	metav1 "k8s.io/apimachinery/pkg/apis/meta/v1"
	"k8s.io/apimachinery/pkg/api/equality"
	"k8s.io/apimachinery/pkg/types"
	clock "k8s.io/utils/clock/testing"
	"sigs.k8s.io/controller-runtime/pkg/client"
	crlog "sigs.k8s.io/controller-runtime/pkg/log"

	v1 "sigs.k8s.io/karpenter/pkg/apis/v1"
	"sigs.k8s.io/karpenter/pkg/cloudprovider"
	fakecp "sigs.k8s.io/karpenter/pkg/cloudprovider/fake"
	ncdisruption "sigs.k8s.io/karpenter/pkg/controllers/nodeclaim/disruption"
	"sigs.k8s.io/karpenter/pkg/controllers/nodeclaim/lifecycle"
	nphash "sigs.k8s.io/karpenter/pkg/controllers/nodepool/hash"
	provsched "sigs.k8s.io/karpenter/pkg/controllers/provisioning/scheduling"
	"sigs.k8s.io/karpenter/pkg/operator/options"
	"sigs.k8s.io/karpenter/pkg/scheduling"
	"sigs.k8s.io/karpenter/pkg/test"
	"sigs.k8s.io/karpenter/pkg/test/v1alpha1"

	"verifharness/internal/core"
	"verifharness/internal/world"
)

func init() { crlog.SetLogger(logr.Discard()) }

// c15.drift: histories over ONE NodePool and a few NodeClaims on the controller-runtime fake client, driving the REAL
// nodepool/hash controller (Reconcile -> updateNodeClaimHash) and the REAL nodeclaim/disruption controller (Reconcile ->
// Drift.Reconcile -> isDrifted -> areStaticFieldsDrifted / areRequirementsDrifted / instanceTypeNotFound) between edits
// of the NodePool, the NodeClaims' labels / annotations / Launched condition, the provider's answers and the clock.

type ClaimJ struct {
	Name     string      `json:"name"`
	Labels   [][2]string `json:"labels"`
	Hash     *string     `json:"hash"`    // "$pool" = copy the NodePool's annotation
	Version  *string     `json:"version"` // annotation
	Launched bool        `json:"launched"`
	Drifted  *string     `json:"drifted"` // pre-existing Drifted=True condition with this reason
	Deleting bool        `json:"deleting"`
	Managed  bool        `json:"managed"`
	AgeMin   int64       `json:"ageMin"` // created this many minutes before the history starts
}

type OffJ struct {
	Zone          string `json:"zone"`
	CapacityType  string `json:"capacityType"`
	ReservationID string `json:"reservationID"`
	// listed by the provider, but capacity cannot be launched into it right now (Offering.Available = false)
	Unavailable bool `json:"unavailable,omitempty"`
}

type ITJ struct {
	Name      string `json:"name"`
	Offerings []OffJ `json:"offerings"`
}

type ProvJ struct {
	ITs      []ITJ  `json:"its"`
	ITErr    bool   `json:"itErr"`
	Drift    string `json:"drift"`
	DriftErr bool   `json:"driftErr"`
}

type StepJ struct {
	K        string  `json:"k"` // editPool | deletePool | hashctl | label | ann | launched | prov | advance | reconcile | create
	Pool     *PoolJ  `json:"pool,omitempty"`
	Claim    string  `json:"claim,omitempty"` // label / launched / reconcile; ann: "" = the NodePool
	Key      string  `json:"key,omitempty"`   // label key; ann: "hash" | "version"
	Value    *string `json:"value,omitempty"` // nil = delete
	Launched bool    `json:"launched,omitempty"`
	Prov     *ProvJ  `json:"prov,omitempty"`
	Min      int64   `json:"min,omitempty"` // advance (minutes)
	// create: the provisioner builds NodeClaim `claim` from the NodePool as it is stored at that moment (the REAL
	// NewNodeClaimTemplate + ToNodeClaim), the provider answers Create with these labels (PopulateNodeClaimDetails),
	// `launched` says whether the launch completed
	Labels [][2]string `json:"labels,omitempty"`
	// create: the way the NodeClaim is built from the NodePool (see static.go): "" | "same" | "static" | "staticdrift"
	Via string `json:"via,omitempty"`
}

type DriftIn struct {
	PoolName    string   `json:"poolName"`
	Pool        PoolJ    `json:"pool"`
	PoolHash    *string  `json:"poolHash"` // "$hash" = the real current Hash()
	PoolVersion *string  `json:"poolVersion"`
	Claims      []ClaimJ `json:"claims"`
	Prov        ProvJ    `json:"prov"`
	Steps       []StepJ  `json:"steps"`
	// runtime tables of the process under test (the fake provider registers its reservation label at init)
	WellKnown        []string  `json:"wellKnown"`
	ReservedLabels   []string  `json:"reservedLabels"`
	ReservationLabel string    `json:"reservationLabel"`
	NodeClass        [2]string `json:"nodeClass"` // group, kind the provider supports
}

type ClaimSnap struct {
	Name    string      `json:"name"`
	Labels  [][2]string `json:"labels"`
	Hash    *string     `json:"hash"`
	Version *string     `json:"version"`
	Drifted *string     `json:"drifted"`
}

type Snap struct {
	PoolPresent bool        `json:"poolPresent"`
	PoolHash    *string     `json:"poolHash"`
	PoolVersion *string     `json:"poolVersion"`
	HashNow     string      `json:"hashNow"` // Hash() of the stored NodePool
	Claims      []ClaimSnap `json:"claims"`
	Err         bool        `json:"err"`
	// a create step: the NodePool object the NodeClaim was built from came out of it with a different spec / metadata
	// (building a NodeClaim from a NodePool must leave the NodePool alone; the model never says true)
	NPMutated bool `json:"npMutated,omitempty"`
}

// provider wraps the fake cloud provider to make IsDrifted fail on demand.
type provider struct {
	*fakecp.CloudProvider
	driftErr bool
}

func (p *provider) IsDrifted(ctx context.Context, nc *v1.NodeClaim) (cloudprovider.DriftReason, error) {
	if p.driftErr {
		return "", errors.New("injected provider failure")
	}
	return p.CloudProvider.IsDrifted(ctx, nc)
}

var t0 = time.Date(2026, 1, 1, 12, 0, 0, 0, time.UTC)

func supportedNodeClass() [2]string {
	gvk := object.GVK(&v1alpha1.TestNodeClass{})
	return [2]string{gvk.Group, gvk.Kind}
}

func buildOfferings(ofs []OffJ) cloudprovider.Offerings {
	var out cloudprovider.Offerings
	for _, o := range ofs {
		reqs := scheduling.NewRequirements(
			scheduling.NewRequirement(corev1.LabelTopologyZone, corev1.NodeSelectorOpIn, o.Zone),
			scheduling.NewRequirement(v1.CapacityTypeLabelKey, corev1.NodeSelectorOpIn, o.CapacityType),
		)
		if o.CapacityType == v1.CapacityTypeReserved {
			reqs.Add(scheduling.NewRequirement(cloudprovider.ReservationIDLabel, corev1.NodeSelectorOpIn, o.ReservationID))
		} else {
			reqs.Add(scheduling.NewRequirement(cloudprovider.ReservationIDLabel, corev1.NodeSelectorOpDoesNotExist))
		}
		out = append(out, &cloudprovider.Offering{Requirements: reqs, Price: 1, Available: !o.Unavailable, ReservationCapacity: 1})
	}
	return out
}

func applyProv(cp *provider, poolName string, p ProvJ) {
	its := []*cloudprovider.InstanceType{}
	for _, it := range p.ITs {
		its = append(its, &cloudprovider.InstanceType{
			Name:         it.Name,
			Requirements: scheduling.NewRequirements(scheduling.NewRequirement(corev1.LabelInstanceTypeStable, corev1.NodeSelectorOpIn, it.Name)),
			Offerings:    buildOfferings(it.Offerings),
		})
	}
	cp.InstanceTypes = its
	if p.ITErr {
		cp.ErrorsForNodePool[poolName] = errors.New("injected GetInstanceTypes failure")
	} else {
		delete(cp.ErrorsForNodePool, poolName)
	}
	cp.Drifted = cloudprovider.DriftReason(p.Drift)
	cp.driftErr = p.DriftErr
}

func setAnn(o client.Object, key string, v *string) {
	a := o.GetAnnotations()
	if v == nil {
		delete(a, key)
	} else {
		if a == nil {
			a = map[string]string{}
		}
		a[key] = *v
	}
	o.SetAnnotations(a)
}

func getAnn(o client.Object, key string) *string {
	if v, ok := o.GetAnnotations()[key]; ok {
		return &v
	}
	return nil
}

func implDrift(raw json.RawMessage) (any, error) {
	var in DriftIn
	if err := json.Unmarshal(raw, &in); err != nil {
		return nil, err
	}
	ctx := options.ToContext(context.Background(), test.Options())
	clk := clock.NewFakeClock(t0)
	cp := &provider{CloudProvider: fakecp.NewCloudProvider()}
	applyProv(cp, in.PoolName, in.Prov)
	c := world.NewClient()

	np := BuildPool(in.PoolName, in.Pool)
	np.UID = types.UID("np-" + in.PoolName)
	np.CreationTimestamp = metav1.NewTime(t0.Add(-48 * time.Hour))
	if in.PoolHash != nil {
		h := *in.PoolHash
		if h == "$hash" {
			h = np.Hash()
		}
		setAnn(np, v1.NodePoolHashAnnotationKey, &h)
	}
	setAnn(np, v1.NodePoolHashVersionAnnotationKey, in.PoolVersion)
	if err := c.Create(ctx, np); err != nil {
		return nil, err
	}
	sup := supportedNodeClass()
	for i, cj := range in.Claims {
		nc := &v1.NodeClaim{ObjectMeta: metav1.ObjectMeta{Name: cj.Name, UID: types.UID(fmt.Sprintf("nc-%d", i)), Labels: toMap(cj.Labels),
			CreationTimestamp: metav1.NewTime(t0.Add(-time.Duration(cj.AgeMin) * time.Minute))}}
		if nc.Labels == nil {
			nc.Labels = map[string]string{}
		}
		nc.Spec.NodeClassRef = &v1.NodeClassReference{Group: sup[0], Kind: sup[1], Name: "default"}
		if !cj.Managed {
			nc.Spec.NodeClassRef = &v1.NodeClassReference{Group: "other.example.com", Kind: "OtherNodeClass", Name: "default"}
		}
		nc.Spec.Requirements = []v1.NodeSelectorRequirementWithMinValues{}
		nc.Status.ProviderID = "fake://" + cj.Name
		if cj.Hash != nil {
			h := *cj.Hash
			if h == "$pool" {
				if ph := getAnn(np, v1.NodePoolHashAnnotationKey); ph != nil {
					setAnn(nc, v1.NodePoolHashAnnotationKey, ph)
				}
			} else {
				setAnn(nc, v1.NodePoolHashAnnotationKey, &h)
			}
		}
		setAnn(nc, v1.NodePoolHashVersionAnnotationKey, cj.Version)
		if cj.Launched {
			nc.StatusConditions().SetTrue(v1.ConditionTypeLaunched)
		}
		if cj.Drifted != nil {
			nc.StatusConditions().SetTrueWithReason(v1.ConditionTypeDrifted, *cj.Drifted, *cj.Drifted)
		}
		if cj.Deleting {
			nc.Finalizers = []string{v1.TerminationFinalizer}
		}
		if err := c.Create(ctx, nc); err != nil {
			return nil, err
		}
		if cj.Deleting {
			// the fake client strips a deletionTimestamp on Create; Delete with a finalizer sets it
			if err := c.Delete(ctx, nc); err != nil {
				return nil, err
			}
		}
	}
	hashCtl := nphash.NewController(c, cp)
	driftCtl := ncdisruption.NewController(clk, c, cp)

	names := []string{}
	for _, cj := range in.Claims {
		names = append(names, cj.Name)
	}
	snapshot := func(stepErr bool) (Snap, error) {
		s := Snap{Err: stepErr, Claims: []ClaimSnap{}}
		cur := &v1.NodePool{}
		if err := c.Get(ctx, types.NamespacedName{Name: in.PoolName}, cur); err == nil {
			s.PoolPresent = true
			s.PoolHash, s.PoolVersion = getAnn(cur, v1.NodePoolHashAnnotationKey), getAnn(cur, v1.NodePoolHashVersionAnnotationKey)
			s.HashNow = cur.Hash()
		}
		for _, name := range names {
			nc := &v1.NodeClaim{}
			if err := c.Get(ctx, types.NamespacedName{Name: name}, nc); err != nil {
				return s, err
			}
			cs := ClaimSnap{Name: name, Labels: [][2]string{}, Hash: getAnn(nc, v1.NodePoolHashAnnotationKey), Version: getAnn(nc, v1.NodePoolHashVersionAnnotationKey)}
			for k, v := range nc.Labels {
				cs.Labels = append(cs.Labels, [2]string{k, v})
			}
			sort.Slice(cs.Labels, func(a, b int) bool { return cs.Labels[a][0] < cs.Labels[b][0] })
			if cond := nc.StatusConditions().Get(v1.ConditionTypeDrifted); cond != nil {
				r := cond.Reason
				if !cond.IsTrue() {
					r = string(cond.Status) + ":" + r
				}
				cs.Drifted = &r
			}
			s.Claims = append(s.Claims, cs)
		}
		return s, nil
	}

	out := []Snap{}
	s0, err := snapshot(false)
	if err != nil {
		return nil, err
	}
	out = append(out, s0)
	// state of a run of consecutive create steps: the NodeClaims a static-capacity controller wrote that no step has taken
	// yet, and the in-memory NodePool object the previous create step built its NodeClaim from
	var batch []*v1.NodeClaim
	batchVia := ""
	var lastNP *v1.NodePool
	for si, st := range in.Steps {
		stepErr := false
		mutated, keepBatch, keepNP := false, false, false
		// a step on a NodeClaim that was never created (its create step found no NodePool) does nothing
		if st.Claim != "" && st.K != "create" {
			known := false
			for _, n := range names {
				known = known || n == st.Claim
			}
			if !known {
				st.K = "noop"
			}
		}
		switch st.K {
		case "noop":
		case "editPool":
			cur := &v1.NodePool{}
			if err := c.Get(ctx, types.NamespacedName{Name: in.PoolName}, cur); err == nil {
				nw := BuildPool(in.PoolName, *st.Pool)
				cur.Spec = nw.Spec
				if err := c.Update(ctx, cur); err != nil {
					return nil, err
				}
			}
		case "deletePool":
			cur := &v1.NodePool{}
			if err := c.Get(ctx, types.NamespacedName{Name: in.PoolName}, cur); err == nil {
				if err := c.Delete(ctx, cur); err != nil {
					return nil, err
				}
			}
		case "hashctl":
			cur := &v1.NodePool{}
			if err := c.Get(ctx, types.NamespacedName{Name: in.PoolName}, cur); err == nil {
				if _, err := hashCtl.Reconcile(ctx, cur); err != nil {
					stepErr = true
				}
			}
		case "label":
			nc := &v1.NodeClaim{}
			if err := c.Get(ctx, types.NamespacedName{Name: st.Claim}, nc); err != nil {
				return nil, err
			}
			if nc.Labels == nil {
				nc.Labels = map[string]string{}
			}
			if st.Value == nil {
				delete(nc.Labels, st.Key)
			} else {
				nc.Labels[st.Key] = *st.Value
			}
			if err := c.Update(ctx, nc); err != nil {
				return nil, err
			}
		case "ann":
			key := v1.NodePoolHashAnnotationKey
			if st.Key == "version" {
				key = v1.NodePoolHashVersionAnnotationKey
			}
			if st.Claim == "" {
				cur := &v1.NodePool{}
				if err := c.Get(ctx, types.NamespacedName{Name: in.PoolName}, cur); err == nil {
					setAnn(cur, key, st.Value)
					if err := c.Update(ctx, cur); err != nil {
						return nil, err
					}
				}
			} else {
				nc := &v1.NodeClaim{}
				if err := c.Get(ctx, types.NamespacedName{Name: st.Claim}, nc); err != nil {
					return nil, err
				}
				v := st.Value
				if v != nil && *v == "$pool" {
					v = nil
					cur := &v1.NodePool{}
					if err := c.Get(ctx, types.NamespacedName{Name: in.PoolName}, cur); err == nil {
						v = getAnn(cur, key)
					}
				}
				setAnn(nc, key, v)
				if err := c.Update(ctx, nc); err != nil {
					return nil, err
				}
			}
		case "launched":
			nc := &v1.NodeClaim{}
			if err := c.Get(ctx, types.NamespacedName{Name: st.Claim}, nc); err != nil {
				return nil, err
			}
			if st.Launched {
				nc.StatusConditions().SetTrue(v1.ConditionTypeLaunched)
			} else {
				nc.StatusConditions().SetUnknownWithReason(v1.ConditionTypeLaunched, "LaunchFailed", "injected")
			}
			if err := c.Status().Update(ctx, nc); err != nil {
				return nil, err
			}
		case "prov":
			applyProv(cp, in.PoolName, *st.Prov)
		case "advance":
			clk.Step(time.Duration(st.Min) * time.Minute)
		case "reconcile":
			nc := &v1.NodeClaim{}
			if err := c.Get(ctx, types.NamespacedName{Name: st.Claim}, nc); err != nil {
				return nil, err
			}
			if _, err := driftCtl.Reconcile(ctx, nc); err != nil {
				stepErr = true
			}
		case "create":
			cur := &v1.NodePool{}
			exists := false
			for _, n := range names {
				exists = exists || n == st.Claim
			}
			if err := c.Get(ctx, types.NamespacedName{Name: in.PoolName}, cur); err == nil && !exists {
				var nc *v1.NodeClaim
				if isBatchVia(st.Via) {
					// the real static-capacity controllers: one run for the whole batch of consecutive create steps
					if len(batch) == 0 || batchVia != st.Via {
						k := 0
						for j := si; j < len(in.Steps) && in.Steps[j].K == "create" && in.Steps[j].Via == st.Via; j++ {
							k++
						}
						var err error
						if batch, mutated, err = staticBatch(ctx, c, clk, cp, in.PoolName, st.Via, k); err != nil {
							return nil, err
						}
						batchVia = st.Via
					}
					if len(batch) > 0 {
						written := batch[0]
						batch = batch[1:]
						nc = &v1.NodeClaim{ObjectMeta: metav1.ObjectMeta{Labels: written.DeepCopy().Labels, Annotations: written.DeepCopy().Annotations,
							OwnerReferences: written.OwnerReferences}, Spec: *written.Spec.DeepCopy()}
						if err := c.Delete(ctx, written); err != nil {
							return nil, err
						}
					}
					keepBatch = true
				} else {
					// what the provisioner does for every NodePool of a scheduling pass, and for the NodeClaims it writes
					if st.Via == viaSame && lastNP != nil {
						cur = lastNP
					}
					handed := cur.DeepCopy()
					nct := provsched.NewNodeClaimTemplate(cur)
					nct.InstanceTypeOptions = cp.InstanceTypes
					nc = nct.ToNodeClaim()
					mutated = !equality.Semantic.DeepEqual(handed.Spec, cur.Spec) || !equality.Semantic.DeepEqual(handed.ObjectMeta, cur.ObjectMeta)
					lastNP, keepNP = cur, true
				}
				if nc != nil {
					nc.GenerateName, nc.Name = "", st.Claim
					nc.UID = types.UID("created-" + st.Claim)
					nc.CreationTimestamp = metav1.NewTime(clk.Now())
					if err := c.Create(ctx, nc); err != nil {
						return nil, err
					}
					// the launch: the provider's answer carries its labels and leaves the annotations alone
					retrieved := &v1.NodeClaim{ObjectMeta: metav1.ObjectMeta{Name: nc.Name, Labels: toMap(st.Labels), Annotations: nc.DeepCopy().Annotations},
						Status: v1.NodeClaimStatus{ProviderID: "fake://" + nc.Name}}
					if retrieved.Labels == nil {
						retrieved.Labels = map[string]string{}
					}
					nc = lifecycle.PopulateNodeClaimDetails(nc, retrieved)
					if err := c.Update(ctx, nc); err != nil {
						return nil, err
					}
					nc.Status.ProviderID = retrieved.Status.ProviderID
					if st.Launched {
						nc.StatusConditions().SetTrue(v1.ConditionTypeLaunched)
					} else {
						nc.StatusConditions().SetUnknownWithReason(v1.ConditionTypeLaunched, "LaunchFailed", "injected")
					}
					if err := c.Status().Update(ctx, nc); err != nil {
						return nil, err
					}
					names = append(names, st.Claim)
				}
			}
		default:
			return nil, fmt.Errorf("bad step %q", st.K)
		}
		if !keepBatch {
			// NodeClaims of a batch that no step took (only after a create step that found its name in use) are removed: they
			// would sit in the API unlaunched
			for _, left := range batch {
				if err := c.Delete(ctx, left); err != nil {
					return nil, err
				}
			}
			batch, batchVia = nil, ""
		}
		if !keepNP {
			lastNP = nil
		}
		s, err := snapshot(stepErr)
		if err != nil {
			return nil, err
		}
		s.NPMutated = mutated
		out = append(out, s)
	}
	return map[string]any{"snaps": out}, nil
}

// ---------- generator ----------

var (
	dZones = []string{"z1", "z2", "z3"}
	dCTs   = []string{"spot", "on-demand", "reserved"}
	dITs   = []string{"it-a", "it-b", "it-c"}
)

// universe of label values per key used by the drift generator
var dUniverse = map[string][]string{
	"team":                             {"a", "b", "c"},
	"tier":                             {"gold", "silver"},
	"example.com/n":                    {"1", "3", "4", "5", "07", "x"},
	"topology.kubernetes.io/zone":      dZones,
	"karpenter.sh/capacity-type":       dCTs,
	"node.kubernetes.io/instance-type": dITs,
	"kubernetes.io/arch":               {"amd64", "arm64"},
}

var dKeys = []string{"team", "tier", "example.com/n", "topology.kubernetes.io/zone", "karpenter.sh/capacity-type", "node.kubernetes.io/instance-type", "kubernetes.io/arch"}

// genPoolExprs: mostly one expression per key; a second expression on the same key (ranges, In+NotIn, Exists+NotIn,
// contradictions) in a minority of the cases.
func genPoolExprs(r *rand.Rand, t core.Tier, n int, malformed bool) []world.MinExpr {
	out := []world.MinExpr{}
	keys := shuffle(r, dKeys)
	for i := 0; i < n && i < len(keys); i++ {
		e := genPoolExprFor(r, keys[i], malformed)
		out = append(out, e)
		switch x := r.Float64(); {
		case x < rare(t, 0.012): // anything, contradictions included
			e2 := genPoolExprFor(r, keys[i], malformed)
			e2.Key = e.Key
			out = append(out, e2)
		case x < 0.15: // a second expression that leaves the key satisfiable
			u := dUniverse[keys[i]]
			e2 := world.MinExpr{Key: e.Key, Values: []string{}}
			switch e.Op {
			case "In":
				e2.Op, e2.Values = "In", append([]string{pick(r, u)}, e.Values[0])
			case "NotIn", "DoesNotExist":
				e2.Op, e2.Values = "NotIn", []string{pick(r, u)}
			case "Gt", "Gte":
				e2.Op, e2.Values = pick(r, []string{"Lt", "Lte"}), []string{"9"}
			case "Lt", "Lte":
				e2.Op, e2.Values = "NotIn", []string{"x"}
			default:
				continue
			}
			if len(e.Values) > 0 || e.Op == "DoesNotExist" {
				out = append(out, e2)
			}
		}
	}
	return shuffle(r, out)
}

func genPoolExpr(r *rand.Rand, malformed bool) world.MinExpr {
	return genPoolExprFor(r, pick(r, dKeys), malformed)
}

func genPoolExprFor(r *rand.Rand, key string, malformed bool) world.MinExpr {
	if malformed && r.Float64() < 0.3 {
		key = pick(r, []string{"beta.kubernetes.io/arch", "failure-domain.beta.kubernetes.io/zone"})
	}
	u := dUniverse[key]
	if u == nil {
		u = []string{"amd64", "z1"}
	}
	e := world.MinExpr{Key: key, Values: []string{}}
	numeric := key == "example.com/n"
	ops := []string{"In", "In", "NotIn", "Exists", "DoesNotExist"}
	if numeric {
		ops = []string{"In", "NotIn", "Exists", "Gt", "Lt", "Gte", "Lte", "Gt", "Lt"}
	}
	e.Op = pick(r, ops)
	switch e.Op {
	case "In", "NotIn":
		n := 1 + r.IntN(2)
		for i := 0; i < n; i++ {
			e.Values = append(e.Values, pick(r, u))
		}
	case "Gt", "Lt", "Gte", "Lte":
		e.Values = []string{fmt.Sprint(r.IntN(7))}
		if malformed {
			switch r.IntN(4) {
			case 0:
				e.Values = []string{}
			case 1:
				e.Values = []string{"x"}
			}
		}
	}
	if r.Float64() < 0.1 {
		e.MinValues = ptr(1)
	}
	return e
}

// satisfying picks a label value for key admitted by the real requirement (nil = none found / absence is fine)
func satisfying(r *rand.Rand, reqs scheduling.Requirements, key string) *string {
	req, ok := reqs[key]
	if !ok {
		return nil
	}
	cands := append([]string{}, dUniverse[key]...)
	r.Shuffle(len(cands), func(i, j int) { cands[i], cands[j] = cands[j], cands[i] })
	for _, v := range cands {
		if req.Has(v) {
			return &v
		}
	}
	return nil
}

func genClaimLabels(r *rand.Rand, poolName string, exprs []world.MinExpr, wellFormed bool) [][2]string {
	labels := map[string]string{}
	// provider labels
	labels["node.kubernetes.io/instance-type"] = pick(r, dITs)
	labels["topology.kubernetes.io/zone"] = pick(r, dZones)
	labels["karpenter.sh/capacity-type"] = pick(r, dCTs[:2])
	labels["kubernetes.io/arch"] = "amd64"
	if r.Float64() < 0.1 {
		labels["karpenter.sh/capacity-type"] = "reserved"
		labels[cloudprovider.ReservationIDLabel] = pick(r, []string{"r-1", "r-2"})
	}
	if wellFormed {
		func() {
			defer func() { _ = recover() }()
			reqs := scheduling.NewNodeSelectorRequirementsWithMinValues(toReqs(exprs)...)
			for key := range reqs {
				if v := satisfying(r, reqs, key); v != nil {
					labels[key] = *v
				} else if op := reqs[key].Operator(); op == corev1.NodeSelectorOpDoesNotExist || op == corev1.NodeSelectorOpNotIn {
					delete(labels, key)
				}
			}
		}()
	}
	switch x := r.Float64(); {
	case x < 0.85:
		labels[v1.NodePoolLabelKey] = poolName
	case x < 0.93:
		labels[v1.NodePoolLabelKey] = "other-pool"
	}
	if r.Float64() < 0.3 {
		labels[pick(r, []string{"team", "tier", "example.com/n"})] = pick(r, []string{"a", "gold", "3", "zzz"})
	}
	if r.Float64() < 0.05 {
		labels["beta.kubernetes.io/arch"] = pick(r, []string{"amd64", "arm64"})
	}
	out := [][2]string{}
	for k, v := range labels {
		out = append(out, [2]string{k, v})
	}
	sort.Slice(out, func(a, b int) bool { return out[a][0] < out[b][0] })
	return out
}

// genProviderLabels: what the provider answers Create with — instance type, zone, capacity type, architecture (admitted by
// the NodePool's requirements on those keys when wellFormed), now and then a reservation, a deprecated alias, or a
// custom key the NodeClaim resolves itself (the NodeClaim's own label must win).
func genProviderLabels(r *rand.Rand, exprs []world.MinExpr, wellFormed bool) [][2]string {
	out := [][2]string{}
	for _, kv := range genClaimLabels(r, "", exprs, wellFormed) {
		switch kv[0] {
		case v1.NodePoolLabelKey:
			continue
		case "team", "tier", "example.com/n":
			if r.Float64() < 0.8 {
				continue
			}
		}
		out = append(out, kv)
	}
	return out
}

func genProv(r *rand.Rand) ProvJ {
	p := ProvJ{ITs: []ITJ{}}
	for _, name := range dITs {
		if r.Float64() < 0.2 {
			continue
		}
		it := ITJ{Name: name, Offerings: []OffJ{}}
		for _, z := range dZones {
			for _, ct := range dCTs {
				if r.Float64() < 0.35 {
					continue
				}
				// a quarter of the listed offerings is sold out at the moment
				o := OffJ{Zone: z, CapacityType: ct, Unavailable: r.Float64() < 0.25}
				if ct == "reserved" {
					o.ReservationID = pick(r, []string{"r-1", "r-2"})
				}
				it.Offerings = append(it.Offerings, o)
			}
		}
		p.ITs = append(p.ITs, it)
	}
	if r.Float64() < 0.08 {
		p.ITErr = true
	}
	if r.Float64() < 0.12 {
		p.Drift = "CloudProviderDrifted"
	}
	if r.Float64() < 0.06 {
		p.DriftErr = true
	}
	return p
}

// genAvailability: the same catalogue (instance types, offerings, answers) with capacity coming and going — every offering
// is sold out with probability p.
func genAvailability(r *rand.Rand, cur ProvJ, p float64) ProvJ {
	nw := cur
	nw.ITs = []ITJ{}
	for _, it := range cur.ITs {
		c := ITJ{Name: it.Name, Offerings: []OffJ{}}
		for _, o := range it.Offerings {
			o.Unavailable = r.Float64() < p
			c.Offerings = append(c.Offerings, o)
		}
		nw.ITs = append(nw.ITs, c)
	}
	return nw
}

func genVersion(r *rand.Rand) *string {
	switch x := r.Float64(); {
	case x < 0.65:
		return ptr(v1.NodePoolHashVersion)
	case x < 0.9:
		return ptr("v2")
	}
	return nil
}

// apiNormalize rewrites a template to what a JSON round trip through the API (here: the fake client) yields: empty maps
// and `omitempty` lists come back nil, a zero TimeAdded comes back nil. (TimeAdded values are dropped as well: a decoded
// metav1.Time is in the process-local zone, which hashes differently from the UTC value the c15.hash op models.)
func apiNormalize(p *PoolJ) {
	t := &p.Template
	if len(t.Labels) == 0 {
		t.Labels = nil
	}
	if len(t.Annotations) == 0 {
		t.Annotations = nil
	}
	if len(t.Taints) == 0 {
		t.Taints = nil
	}
	if len(t.StartupTaints) == 0 {
		t.StartupTaints = nil
	}
	for _, l := range [][]TaintJ{t.Taints, t.StartupTaints} {
		for i := range l {
			l[i].TimeAdded, l[i].TimeZero = nil, false
		}
	}
	// the raw text is what is stored: it must spell the duration
	if t.ExpireAfter == nil {
		t.ExpireAfterRaw = nil
	} else {
		ok := false
		if t.ExpireAfterRaw != nil {
			if d, err := time.ParseDuration(strings.Trim(*t.ExpireAfterRaw, `"`)); err == nil && int64(d) == *t.ExpireAfter {
				ok = true
			}
		}
		if !ok {
			t.ExpireAfterRaw = ptr(fmt.Sprintf("\"%ds\"", *t.ExpireAfter/sec))
		}
	}
}

func genDriftPool(r *rand.Rand, t core.Tier, malformed bool) PoolJ {
	p := PoolJ{Template: genTemplate(r, true), Outside: genOutside(r)}
	sup := supportedNodeClass()
	p.Template.NodeClassRef = &RefJ{Group: sup[0], Kind: sup[1], Name: pick(r, []string{"default", "other"})}
	if r.Float64() < 0.07 {
		p.Template.NodeClassRef = &RefJ{Group: "other.example.com", Kind: "OtherNodeClass", Name: "default"}
	}
	p.Template.Requirements = genPoolExprs(r, t, r.IntN(4), malformed)
	apiNormalize(&p)
	return p
}

func genDrift(r *rand.Rand, t core.Tier) any {
	malformed := r.Float64() < 0.06
	in := DriftIn{PoolName: "pool-a", Pool: genDriftPool(r, t, malformed), Prov: genProv(r), NodeClass: supportedNodeClass(),
		WellKnown: sortedSet(v1.WellKnownLabels.UnsortedList()), ReservedLabels: sortedSet(cloudprovider.ReservedCapacityLabels.UnsortedList()), ReservationLabel: cloudprovider.ReservationIDLabel}
	switch x := r.Float64(); {
	case x < 0.6:
		in.PoolHash = ptr("$hash")
	case x < 0.85:
		in.PoolHash = ptr("12345")
	}
	in.PoolVersion = genVersion(r)
	nClaims := 1 + r.IntN(3)
	for i := 0; i < nClaims; i++ {
		c := ClaimJ{Name: fmt.Sprintf("nc-%d", i), Managed: r.Float64() < 0.93, Launched: r.Float64() < 0.88, Deleting: r.Float64() < 0.05,
			AgeMin: pick(r, []int64{1, 30, 59, 60, 61, 90, 600})}
		c.Labels = genClaimLabels(r, in.PoolName, in.Pool.Template.Requirements, r.Float64() < 0.75)
		switch x := r.Float64(); {
		case x < 0.6:
			c.Hash = ptr("$pool")
		case x < 0.85:
			c.Hash = ptr(pick(r, []string{"12345", "999"}))
		}
		c.Version = genVersion(r)
		if r.Float64() < 0.15 {
			c.Drifted = ptr(pick(r, []string{"NodePoolDrifted", "RequirementsDrifted", "Stale"}))
		}
		in.Claims = append(in.Claims, c)
	}
	nSteps := 1 + r.IntN(8)
	if t == core.Thorough {
		nSteps = 1 + r.IntN(14)
	}
	cur := in.Pool
	curProv := in.Prov
	// the launch offerings of the initial NodeClaims sold out from the start, now and then
	if r.Float64() < 0.15 {
		in.Prov = genAvailability(r, in.Prov, 1)
		curProv = in.Prov
	}
	names := []string{}
	for _, c := range in.Claims {
		names = append(names, c.Name)
	}
	claimName := func() string { return names[r.IntN(len(names))] }
	// is the NodePool's annotation (possibly) behind its template? A NodeClaim created while it is, and looked at by the
	// disruption controller before the hash controller caught up, is transiently NodePoolDrifted (the window the property
	// is not read for: no verdict of the specification, only model vs implementation): the hash controller mostly runs
	// first, so that the verdict "created from the edited template => not drifted" is exercised.
	stale := in.PoolHash == nil || *in.PoolHash != "$hash" || in.PoolVersion == nil || *in.PoolVersion != v1.NodePoolHashVersion
	create := func() StepJ {
		n := fmt.Sprintf("new-%d", len(names)-len(in.Claims))
		names = append(names, n)
		return StepJ{K: "create", Claim: n, Launched: r.Float64() < 0.93,
			Labels: genProviderLabels(r, cur.Template.Requirements, r.Float64() < 0.85)}
	}
	// 4 creations in 10 are a batch of 2-3 NodeClaims built from ONE in-memory NodePool object: NewNodeClaimTemplate called
	// again on the object of the previous creation ("same"), the real static.provisioning controller filling the replicas
	// of a static NodePool ("static"), or the real StaticDrift method building replacements ("staticdrift")
	createBatch := func() []StepJ {
		via, k := "", 1
		if r.Float64() < 0.4 {
			via, k = pick(r, []string{viaSame, viaStatic, viaStaticDrift}), 2+r.IntN(2)
		}
		sts := []StepJ{}
		for j := 0; j < k; j++ {
			st := create()
			if via != viaSame || j > 0 {
				st.Via = via
			}
			sts = append(sts, st)
		}
		return sts
	}
	afterCreate := func(sts []StepJ) {
		if stale && r.Float64() >= 0.15 {
			in.Steps = append(in.Steps, StepJ{K: "hashctl"})
			stale = false
		}
		for _, st := range sts {
			if r.Float64() < 0.7 {
				in.Steps = append(in.Steps, StepJ{K: "reconcile", Claim: st.Claim})
			}
		}
	}
	// the interleaving "the provisioner runs between a template edit and the hash controller": NodePool stamped ->
	// drift-relevant (or non-drifting) edit -> NodeClaim created from the edited NodePool -> hash controller -> reconcile
	if r.Float64() < 0.12 {
		if r.Float64() < 0.7 {
			in.Steps = append(in.Steps, StepJ{K: "hashctl"})
			stale = false
		}
		nw := clonePool(cur)
		if r.Float64() < 0.75 {
			applySome(r, hashedEdits(), &nw)
			nw.Template.NodeClassRef.Group, nw.Template.NodeClassRef.Kind = cur.Template.NodeClassRef.Group, cur.Template.NodeClassRef.Kind
			stale = true
		} else {
			applySome(r, ignoredEdits()[4:], &nw)
		}
		apiNormalize(&nw)
		cur = nw
		in.Steps = append(in.Steps, StepJ{K: "editPool", Pool: &nw})
		sts := createBatch()
		in.Steps = append(in.Steps, sts...)
		afterCreate(sts)
		if r.Float64() < 0.5 {
			in.Steps = append(in.Steps, StepJ{K: "hashctl"}, StepJ{K: "reconcile", Claim: sts[len(sts)-1].Claim})
			stale = false
		}
	}
	for i := 0; i < nSteps; i++ {
		var st StepJ
		switch x := r.Float64(); {
		case x < 0.27:
			st = StepJ{K: "reconcile", Claim: claimName()}
		case x < 0.34:
			sts := createBatch()
			in.Steps = append(in.Steps, sts...)
			afterCreate(sts)
			continue
		case x < 0.44:
			st = StepJ{K: "hashctl"}
			stale = false
		case x < 0.56:
			nw := clonePool(cur)
			switch y := r.Float64(); {
			case y < 0.4:
				stale = true
				applySome(r, hashedEdits(), &nw)
				// the node class reference stays a supported one (group/kind are immutable in the CRD)
				nw.Template.NodeClassRef.Group, nw.Template.NodeClassRef.Kind = cur.Template.NodeClassRef.Group, cur.Template.NodeClassRef.Kind
			case y < 0.6:
				applySome(r, ignoredEdits()[4:], &nw) // outside-template edits
			default:
				nw.Template.Requirements = genPoolExprs(r, t, r.IntN(4), malformed)
			}
			if r.Float64() < 0.3 {
				reorder(r, &nw)
			}
			apiNormalize(&nw)
			cur = nw
			st = StepJ{K: "editPool", Pool: &nw}
		case x < 0.68:
			key := pick(r, dKeys)
			st = StepJ{K: "label", Claim: claimName(), Key: key}
			if r.Float64() < 0.7 {
				st.Value = ptr(pick(r, dUniverse[key]))
			}
			if r.Float64() < 0.08 {
				st.Key, st.Value = v1.NodePoolLabelKey, ptr(pick(r, []string{in.PoolName, "other-pool"}))
			}
		case x < 0.80:
			st = StepJ{K: "ann", Key: pick(r, []string{"hash", "version"})}
			if r.Float64() < 0.6 {
				st.Claim = claimName()
			}
			if st.Claim == "" {
				stale = true
			}
			if st.Key == "hash" {
				switch y := r.Float64(); {
				case y < 0.4 && st.Claim != "":
					st.Value = ptr("$pool")
				case y < 0.8:
					st.Value = ptr(pick(r, []string{"12345", "999"}))
				}
			} else {
				st.Value = genVersion(r)
			}
		case x < 0.85:
			st = StepJ{K: "launched", Claim: claimName(), Launched: r.Float64() < 0.5}
		case x < 0.92:
			p := genProv(r)
			if r.Float64() < 0.5 {
				// only the availability of the listed offerings changes (capacity sells out / returns)
				p = genAvailability(r, curProv, pick(r, []float64{0.5, 1, 1, 0}))
			}
			curProv = p
			st = StepJ{K: "prov", Prov: &p}
		case x < 0.98:
			st = StepJ{K: "advance", Min: pick(r, []int64{1, 29, 31, 60, 120})}
		default:
			st = StepJ{K: "deletePool"}
		}
		in.Steps = append(in.Steps, st)
		if st.K != "reconcile" && st.K != "hashctl" && r.Float64() < 0.5 {
			in.Steps = append(in.Steps, StepJ{K: "reconcile", Claim: claimName()})
		}
	}
	if last := in.Steps[len(in.Steps)-1]; last.K != "reconcile" {
		in.Steps = append(in.Steps, StepJ{K: "reconcile", Claim: claimName()})
	}
	return in
}

func sortedSet(xs []string) []string {
	out := append([]string{}, xs...)
	sort.Strings(out)
	return out
}

func driftFeatures(in *DriftIn, impl any) []string {
	l := []string{}
	for _, st := range in.Steps {
		l = append(l, "step:"+st.K)
	}
	m, _ := impl.(map[string]any)
	snaps, _ := m["snaps"].([]any)
	// in which state of the NodePool's annotation are NodeClaims created, and are they looked at afterwards
	created := map[string]bool{}
	prov := in.Prov
	curPool := in.Pool
	for i, st := range in.Steps {
		if i >= len(snaps) {
			break
		}
		pre, _ := snaps[i].(map[string]any)
		if i > 0 && in.Steps[i-1].K == "editPool" && in.Steps[i-1].Pool != nil {
			curPool = *in.Steps[i-1].Pool
		}
		if st.K == "create" {
			l = append(l, "create:via-"+st.Via)
			if i > 0 && in.Steps[i-1].K == "create" && st.Via != "" && st.Via == in.Steps[i-1].Via || st.Via == viaSame {
				l = append(l, "create:further-claim-from-one-nodepool-object")
				if curPool.Template.Labels != nil {
					l = append(l, "create:further-claim-from-one-nodepool-object,template-has-labels")
				}
			}
		}
		if st.K == "prov" && st.Prov != nil {
			prov = *st.Prov
		}
		if st.K == "reconcile" {
			// is every listed offering of the NodeClaim's instance type in its zone and of its capacity type sold out?
			cs, _ := pre["claims"].([]any)
			for _, c := range cs {
				cm, _ := c.(map[string]any)
				if cm["name"] != st.Claim {
					continue
				}
				lb := map[string]string{}
				for _, kv := range asPairs(cm["labels"]) {
					lb[kv[0]] = kv[1]
				}
				listed, available := 0, 0
				for _, it := range prov.ITs {
					if it.Name != lb[corev1.LabelInstanceTypeStable] {
						continue
					}
					for _, o := range it.Offerings {
						if o.Zone == lb[corev1.LabelTopologyZone] && o.CapacityType == lb[v1.CapacityTypeLabelKey] {
							listed++
							if !o.Unavailable {
								available++
							}
						}
					}
				}
				if listed > 0 && available == 0 {
					l = append(l, "reconcile:launch-offering-listed-but-sold-out")
				}
			}
		}
		switch st.K {
		case "create":
			if p, _ := pre["poolPresent"].(bool); !p {
				l = append(l, "create:no-nodepool")
				continue
			}
			created[st.Claim] = true
			h, ok := pre["poolHash"].(string)
			switch {
			case !ok:
				l = append(l, "create:nodepool-not-annotated")
			case h != pre["hashNow"]:
				l = append(l, "create:nodepool-annotation-stale")
			default:
				l = append(l, "create:nodepool-annotation-current")
			}
		case "hashctl":
			for n := range created {
				if h, ok := pre["poolHash"].(string); ok && h != pre["hashNow"] {
					l = append(l, "hashctl-catches-up-after-create")
					_ = n
				}
			}
		case "reconcile":
			if created[st.Claim] {
				l = append(l, "reconcile-of-created-claim")
			}
		}
	}
	reasons := map[string]bool{}
	for i, s := range snaps {
		sm, _ := s.(map[string]any)
		if e, _ := sm["err"].(bool); e {
			l = append(l, "reconcile-error")
		}
		if i < len(in.Steps) && in.Steps[i].K == "reconcile" {
			cs, _ := sm["claims"].([]any)
			for _, c := range cs {
				cm, _ := c.(map[string]any)
				if cm["name"] == in.Steps[i].Claim {
					if d, ok := cm["drifted"].(string); ok {
						reasons[d] = true
					} else {
						reasons["none"] = true
					}
				}
			}
		}
	}
	for r := range reasons {
		l = append(l, "observed:"+r)
	}
	if _, ok := m["panic"]; ok {
		l = append(l, "panic")
	}
	return l
}

func driftOp() *core.Op {
	return &core.Op{
		Name: "c15.drift",
		Doc:  "histories on the fake client: the real nodepool/hash controller and the real nodeclaim/disruption controller (drift sub-reconciler) between edits of the NodePool template/requirements, NodeClaim labels, hash / hash-version annotations, the Launched condition, provider answers (instance types, offerings — a quarter of them listed but currently unavailable, and steps in which only the availability changes —, IsDrifted, errors), the clock, and NodeClaims CREATED in mid-history from the NodePool as stored at that moment (real NewNodeClaimTemplate + ToNodeClaim + PopulateNodeClaimDetails), also between a template edit and the hash controller's next run; four creations in ten are a batch of 2-3 NodeClaims built from ONE in-memory NodePool object (NewNodeClaimTemplate again on the same object / the real static.provisioning controller filling replicas / the real StaticDrift.ComputeCommands building replacements, both writing through Provisioner.CreateNodeClaims; the NodePool object must come out unchanged); every object's labels, annotations and Drifted condition after every step vs the Lean model, and the drift specification evaluated on what the real code did (a created NodeClaim carries the hash of the template it was created from, and is not reported Drifted for its hash unless the template changed afterwards)",
		N: func(t core.Tier) int {
			if t == core.Thorough {
				return 20000
			}
			return 2000
		},
		Gen:  genDrift,
		Impl: implDrift,
		Rule: "non-trivial = the history contains a disruption-controller reconcile of a launched, managed NodeClaim of the NodePool",
		Nontrivial: func(raw json.RawMessage, impl any) bool {
			var in DriftIn
			json.Unmarshal(raw, &in)
			for _, f := range driftFeatures(&in, impl) {
				if strings.HasPrefix(f, "observed:") {
					return true
				}
			}
			return false
		},
		Labels: func(raw json.RawMessage, impl any) []string {
			var in DriftIn
			json.Unmarshal(raw, &in)
			fs := driftFeatures(&in, impl)
			seen := map[string]bool{}
			out := []string{}
			for _, f := range fs {
				if !seen[f] {
					seen[f] = true
					out = append(out, f)
				}
			}
			return out
		},
		Signature: func(raw json.RawMessage, _ any) string { return "drift" },
		Shrink: func(raw json.RawMessage) []any {
			var in DriftIn
			json.Unmarshal(raw, &in)
			var out []any
			// a step may only name a NodeClaim that exists (initially or created by an earlier step)
			valid := func(c *DriftIn) bool {
				known := map[string]bool{}
				for _, cl := range c.Claims {
					known[cl.Name] = true
				}
				for _, st := range c.Steps {
					if st.K == "create" {
						known[st.Claim] = true
					} else if st.Claim != "" && !known[st.Claim] {
						return false
					}
				}
				return true
			}
			for _, s := range core.ShrinkList(in.Steps) {
				if len(s) == 0 {
					continue
				}
				c := in
				c.Steps = s
				if valid(&c) {
					out = append(out, c)
				}
			}
			// (a history that creates its own NodeClaims needs no initial one)
			created := false
			for _, st := range in.Steps {
				created = created || st.K == "create"
			}
			if len(in.Claims) > 1 || (created && len(in.Claims) > 0) {
				for i := range in.Claims {
					c := in
					c.Claims = append(append([]ClaimJ{}, in.Claims[:i]...), in.Claims[i+1:]...)
					if valid(&c) {
						out = append(out, c)
					}
				}
			}
			for i := range in.Pool.Template.Requirements {
				c := in
				c.Pool = clonePool(in.Pool)
				c.Pool.Template.Requirements = append(append([]world.MinExpr{}, in.Pool.Template.Requirements[:i]...), in.Pool.Template.Requirements[i+1:]...)
				out = append(out, c)
			}
			return out
		},
	}
}
