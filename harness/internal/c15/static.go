package c15

import (
	"context"
	"fmt"
	"sort"

	"k8s.io/apimachinery/pkg/api/equality"
	"k8s.io/apimachinery/pkg/types"
	"k8s.io/utils/clock"
	"sigs.k8s.io/controller-runtime/pkg/client"

	v1 "sigs.k8s.io/karpenter/pkg/apis/v1"
	"sigs.k8s.io/karpenter/pkg/controllers/disruption"
	"sigs.k8s.io/karpenter/pkg/controllers/provisioning"
	"sigs.k8s.io/karpenter/pkg/controllers/state"
	staticprov "sigs.k8s.io/karpenter/pkg/controllers/static/provisioning"
	"sigs.k8s.io/karpenter/pkg/test"
	nodepoolutils "sigs.k8s.io/karpenter/pkg/utils/nodepool"
	"sigs.k8s.io/karpenter/pkg/utils/resources"
)

// The ways a NodeClaim comes to be built from a NodePool (StepJ.Via of a `create` step):
//
//	""            the provisioner: NewNodeClaimTemplate on a NodePool object freshly read from the API (one template per
//	              NodePool object, as in a scheduling pass)
//	"same"        NewNodeClaimTemplate once more on the SAME in-memory NodePool object the previous create step used
//	"static"      the REAL static.provisioning controller (Reconcile) brings a static NodePool to its replica count: it
//	              builds one NodeClaimTemplate per missing replica from the one NodePool object it was handed and writes
//	              the NodeClaims through Provisioner.CreateNodeClaims
//	"staticdrift" the REAL disruption.StaticDrift.ComputeCommands builds one replacement per drifted candidate of a static
//	              NodePool (all candidates share the NodePool object), the replacements are written through
//	              Provisioner.CreateNodeClaims like the disruption queue does
//
// Consecutive create steps of the same static way form ONE batch: the controller runs once, at the first step of the run,
// for as many NodeClaims as there are steps in the run; every step of the run then takes one of the NodeClaims written
// (in the order of their generated names), gives it the step's name and launches it.
const (
	viaSame        = "same"
	viaStatic      = "static"
	viaStaticDrift = "staticdrift"
)

func isBatchVia(v string) bool { return v == viaStatic || v == viaStaticDrift }

// staticBatch runs the real static-capacity code path `via` for `k` new NodeClaims of the NodePool and returns the
// NodeClaims it wrote (as stored, generated names, sorted) and whether the NodePool object handed to the controller had
// its spec or metadata changed by it (building a NodeClaim from a NodePool must not write to the NodePool).
// To get exactly k NodeClaims out of the controller the stored NodePool is, for the duration of the call, made Ready, given
// spec.replicas = (NodeClaims the cluster state counts for it) + k and relieved of a node-count limit; all of these are
// non-drifting fields, and they are put back afterwards.
func staticBatch(ctx context.Context, c client.Client, clk clock.Clock, cp *provider, poolName, via string, k int) ([]*v1.NodeClaim, bool, error) {
	cur := &v1.NodePool{}
	if err := c.Get(ctx, types.NamespacedName{Name: poolName}, cur); err != nil {
		return nil, false, nil
	}
	// a cluster state that has seen every NodeClaim of the API
	cluster := state.NewCluster(clk, c, cp)
	before := &v1.NodeClaimList{}
	if err := c.List(ctx, before); err != nil {
		return nil, false, err
	}
	known := map[string]bool{}
	for i := range before.Items {
		known[before.Items[i].Name] = true
		cluster.UpdateNodeClaim(&before.Items[i])
	}
	active, _, _ := cluster.NodePoolState.GetNodeCount(poolName)
	savedReplicas, savedLimits := cur.Spec.Replicas, cur.Spec.Limits.DeepCopy()
	cur.Spec.Replicas = ptr(int64(active + k))
	if cur.Spec.Limits != nil {
		delete(cur.Spec.Limits, resources.Node)
	}
	if err := c.Update(ctx, cur); err != nil {
		return nil, false, err
	}
	cur.StatusConditions().SetTrue(v1.ConditionTypeValidationSucceeded)
	cur.StatusConditions().SetTrue(v1.ConditionTypeNodeClassReady)
	cur.StatusConditions().SetTrue(v1.ConditionTypeNodeRegistrationHealthy)
	if err := c.Status().Update(ctx, cur); err != nil {
		return nil, false, err
	}
	// the object the controller is handed: read from the API, like reconcile.AsReconciler / the disruption controller's
	// NodePool map do
	if err := c.Get(ctx, types.NamespacedName{Name: poolName}, cur); err != nil {
		return nil, false, err
	}
	if !cur.StatusConditions().Root().IsTrue() {
		return nil, false, fmt.Errorf("harness: NodePool not Ready: %v", cur.Status.Conditions)
	}
	handed := cur.DeepCopy()
	recorder := test.NewEventRecorder()
	switch via {
	case viaStatic:
		ctl := staticprov.NewController(c, cluster, recorder, cp, nil, clk, nil, nil)
		if _, err := ctl.Reconcile(ctx, cur); err != nil {
			return nil, false, fmt.Errorf("static.provisioning: %w", err)
		}
	case viaStaticDrift:
		// the disruption controller only builds candidates for the NodePools it manages
		if nodepoolutils.IsManaged(cur, cp) {
			prov := provisioning.NewProvisioner(c, recorder, cp, cluster, clk, nil, nil)
			cands := []*disruption.Candidate{}
			for i := 0; i < k; i++ {
				cands = append(cands, &disruption.Candidate{NodePool: cur})
			}
			cmds, err := disruption.NewStaticDrift(cluster, prov, cp).ComputeCommands(ctx, map[string]int{poolName: k}, cands...)
			if err != nil {
				return nil, false, fmt.Errorf("staticdrift: %w", err)
			}
			for _, cmd := range cmds {
				if _, err := prov.CreateNodeClaims(ctx, cmd.Results.NewNodeClaims, provisioning.WithReason("drifted")); err != nil {
					return nil, false, fmt.Errorf("staticdrift replacements: %w", err)
				}
			}
		}
	default:
		return nil, false, fmt.Errorf("bad via %q", via)
	}
	mutated := !equality.Semantic.DeepEqual(handed.Spec, cur.Spec) || !equality.Semantic.DeepEqual(handed.ObjectMeta, cur.ObjectMeta)
	// put the non-drifting fields back
	stored := &v1.NodePool{}
	if err := c.Get(ctx, types.NamespacedName{Name: poolName}, stored); err != nil {
		return nil, false, err
	}
	stored.Spec.Replicas, stored.Spec.Limits = savedReplicas, savedLimits
	if err := c.Update(ctx, stored); err != nil {
		return nil, false, err
	}
	after := &v1.NodeClaimList{}
	if err := c.List(ctx, after); err != nil {
		return nil, false, err
	}
	out := []*v1.NodeClaim{}
	for i := range after.Items {
		if !known[after.Items[i].Name] {
			out = append(out, &after.Items[i])
		}
	}
	sort.Slice(out, func(a, b int) bool { return out[a].Name < out[b].Name })
	return out, mutated, nil
}
