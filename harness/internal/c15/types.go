// Package c15: drift is reported for drift-relevant changes and never self-inflicted — the REAL NodePool.Hash,
// nodepool/hash controller, nodeclaim/disruption controller (drift sub-reconciler), NodeClaimTemplate.ToNodeClaim and
// nodeclaim/lifecycle launch, against the Lean model (Karp/Model/Hash.lean, Karp/Model/Drift.lean) and the independent
// specification (Karp/Spec/DriftSpec.lean).
package c15

import (
	"time"

	corev1 "k8s.io/api/core/v1"
	"k8s.io/apimachinery/pkg/api/resource"
	metav1 "k8s.io/apimachinery/pkg/apis/meta/v1"

	v1 "sigs.k8s.io/karpenter/pkg/apis/v1"

	"verifharness/internal/world"
)

// A JSON `null` is a Go nil (slice / map / pointer), `[]` an empty non-nil slice or map: hashstructure's
// IgnoreZeroValue distinguishes the two.

type TaintJ struct {
	Key       string `json:"key"`
	Value     string `json:"value"`
	Effect    string `json:"effect"`
	TimeAdded *int64 `json:"timeAdded"` // unix seconds, UTC
	TimeZero  bool   `json:"timeZero"`  // a non-nil pointer to the zero time
}

type RefJ struct {
	Kind  string `json:"kind"`
	Name  string `json:"name"`
	Group string `json:"group"`
}

type TemplateJ struct {
	Labels         [][2]string     `json:"labels"`
	Annotations    [][2]string     `json:"annotations"`
	Taints         []TaintJ        `json:"taints"`
	StartupTaints  []TaintJ        `json:"startupTaints"`
	Requirements   []world.MinExpr `json:"requirements"`
	NodeClassRef   *RefJ           `json:"nodeClassRef"`
	TGP            *int64          `json:"tgp"`            // ns
	ExpireAfter    *int64          `json:"expireAfter"`    // ns; nil = Never
	ExpireAfterRaw *string         `json:"expireAfterRaw"` // NillableDuration.Raw
}

type BudgetJ struct {
	Nodes    string   `json:"nodes"`
	Reasons  []string `json:"reasons"`
	Schedule *string  `json:"schedule"`
	Duration *int64   `json:"duration"`
}

// OutsideJ: the NodePool fields outside Spec.Template that the property names as non-drifting.
type OutsideJ struct {
	Weight              *int32      `json:"weight"`
	LimitCPU            *int64      `json:"limitCPU"`
	LimitNodes          *int64      `json:"limitNodes"`
	Budgets             []BudgetJ   `json:"budgets"`
	ConsolidateAfter    *int64      `json:"consolidateAfter"`
	ConsolidationPolicy string      `json:"consolidationPolicy"`
	Replicas            *int64      `json:"replicas"`
	MetaLabels          [][2]string `json:"metaLabels"`
}

type PoolJ struct {
	Template TemplateJ `json:"template"`
	Outside  OutsideJ  `json:"outside"`
}

func toMap(kv [][2]string) map[string]string {
	if kv == nil {
		return nil
	}
	m := map[string]string{}
	for _, e := range kv {
		m[e[0]] = e[1]
	}
	return m
}

func toTaintsJ(ts []TaintJ) []corev1.Taint {
	if ts == nil {
		return nil
	}
	out := []corev1.Taint{}
	for _, t := range ts {
		ct := corev1.Taint{Key: t.Key, Value: t.Value, Effect: corev1.TaintEffect(t.Effect)}
		if t.TimeAdded != nil {
			mt := metav1.NewTime(time.Unix(*t.TimeAdded, 0).UTC())
			ct.TimeAdded = &mt
		} else if t.TimeZero {
			ct.TimeAdded = &metav1.Time{}
		}
		out = append(out, ct)
	}
	return out
}

func toReqs(es []world.MinExpr) []v1.NodeSelectorRequirementWithMinValues {
	if es == nil {
		return nil
	}
	out := []v1.NodeSelectorRequirementWithMinValues{}
	for _, e := range es {
		out = append(out, v1.NodeSelectorRequirementWithMinValues{Key: e.Key, Operator: corev1.NodeSelectorOperator(e.Op), Values: append([]string{}, e.Values...), MinValues: e.MinValues})
	}
	return out
}

// BuildTemplate converts the description into the real v1.NodeClaimTemplate.
func BuildTemplate(t TemplateJ) v1.NodeClaimTemplate {
	out := v1.NodeClaimTemplate{
		ObjectMeta: v1.ObjectMeta{Labels: toMap(t.Labels), Annotations: toMap(t.Annotations)},
		Spec: v1.NodeClaimTemplateSpec{
			Taints:        toTaintsJ(t.Taints),
			StartupTaints: toTaintsJ(t.StartupTaints),
			Requirements:  toReqs(t.Requirements),
		},
	}
	if t.NodeClassRef != nil {
		out.Spec.NodeClassRef = &v1.NodeClassReference{Kind: t.NodeClassRef.Kind, Name: t.NodeClassRef.Name, Group: t.NodeClassRef.Group}
	}
	if t.TGP != nil {
		out.Spec.TerminationGracePeriod = &metav1.Duration{Duration: time.Duration(*t.TGP)}
	}
	if t.ExpireAfter != nil {
		d := time.Duration(*t.ExpireAfter)
		out.Spec.ExpireAfter.Duration = &d
	}
	if t.ExpireAfterRaw != nil {
		out.Spec.ExpireAfter.Raw = []byte(*t.ExpireAfterRaw)
	}
	return out
}

// BuildPool converts the description into a real v1.NodePool.
func BuildPool(name string, p PoolJ) *v1.NodePool {
	np := &v1.NodePool{ObjectMeta: metav1.ObjectMeta{Name: name, Labels: toMap(p.Outside.MetaLabels)}}
	np.Spec.Template = BuildTemplate(p.Template)
	o := p.Outside
	np.Spec.Weight = o.Weight
	np.Spec.Replicas = o.Replicas
	lim := corev1.ResourceList{}
	if o.LimitCPU != nil {
		lim[corev1.ResourceCPU] = *resource.NewMilliQuantity(*o.LimitCPU, resource.DecimalSI)
	}
	if o.LimitNodes != nil {
		lim[corev1.ResourceName("nodes")] = *resource.NewQuantity(*o.LimitNodes, resource.DecimalSI)
	}
	if len(lim) > 0 {
		np.Spec.Limits = v1.Limits(lim)
	}
	if o.ConsolidateAfter != nil {
		d := time.Duration(*o.ConsolidateAfter)
		np.Spec.Disruption.ConsolidateAfter.Duration = &d
	}
	np.Spec.Disruption.ConsolidationPolicy = v1.ConsolidationPolicy(o.ConsolidationPolicy)
	for _, b := range o.Budgets {
		bb := v1.Budget{Nodes: b.Nodes, Schedule: b.Schedule}
		if b.Reasons != nil {
			bb.Reasons = []v1.DisruptionReason{}
			for _, r := range b.Reasons {
				bb.Reasons = append(bb.Reasons, v1.DisruptionReason(r))
			}
		}
		if b.Duration != nil {
			bb.Duration = &metav1.Duration{Duration: time.Duration(*b.Duration)}
		}
		np.Spec.Disruption.Budgets = append(np.Spec.Disruption.Budgets, bb)
	}
	return np
}
