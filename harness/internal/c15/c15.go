// Package c15: correspondence ops for C15 (stub, not yet built).
package c15

import (
	"verifharness/internal/core"
	"verifharness/internal/registry"
)

func init() { registry.Register("C15", Ops) }

func Ops() []*core.Op { return nil }
