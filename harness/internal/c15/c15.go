package c15

import (
	"verifharness/internal/core"
	"verifharness/internal/registry"
)

func init() { registry.Register("C15", Ops) }

func Ops() []*core.Op {
	return []*core.Op{hashOp(), driftOp(), selfOp()}
}
