package c15

import (
	"encoding/json"
	"fmt"
	"math/rand/v2"
	"strings"

	"verifharness/internal/core"
	"verifharness/internal/world"
)

// c15.hash: the REAL NodePool.Hash() on a pair of NodePools (a, b = an edit of a).
// The Lean model reproduces the two hash values exactly (FNV-1 64 over the modelled hashstructure walk); the
// specification says, from the property text alone, whether the two must be equal or must differ.

type HashIn struct {
	A    PoolJ  `json:"a"`
	B    PoolJ  `json:"b"`
	Edit string `json:"edit"`
}

type HashOut struct {
	HA     string `json:"ha"`
	HB     string `json:"hb"`
	Equal  bool   `json:"equal"`
	Stable bool   `json:"stable"` // re-hashing deep copies (fresh map iteration orders) gives the same value
}

func implHash(raw json.RawMessage) (any, error) {
	var in HashIn
	if err := json.Unmarshal(raw, &in); err != nil {
		return nil, err
	}
	a, b := BuildPool("pool-a", in.A), BuildPool("pool-b", in.B)
	out := HashOut{HA: a.Hash(), HB: b.Hash(), Stable: true}
	out.Equal = out.HA == out.HB
	for i := 0; i < 3; i++ {
		if a.DeepCopy().Hash() != out.HA || BuildPool("x", in.B).Hash() != out.HB {
			out.Stable = false
		}
	}
	return out, nil
}

// ---------- generator ----------

var (
	hKeys    = []string{"team", "tier", "example.com/owner", "dedicated", "gpu", "app.kubernetes.io/name"}
	hVals    = []string{"a", "b", "", "true", "blue", "red"}
	hEffects = []string{"NoSchedule", "NoExecute", "PreferNoSchedule", ""}
	hKinds   = []string{"TestNodeClass", "OtherNodeClass", ""}
	hNames   = []string{"default", "other", ""}
	hGroups  = []string{"karpenter.test.sh", "example.com", ""}
	hPolicy  = []string{"WhenEmpty", "WhenEmptyOrUnderutilized", "Balanced", ""}
)

func pick[T any](r *rand.Rand, xs []T) T { return xs[r.IntN(len(xs))] }
func ptr[T any](v T) *T                  { return &v }

const (
	sec  = int64(1_000_000_000)
	hour = 3600 * sec
)

func genKV(r *rand.Rand, nilP, emptyP float64) [][2]string {
	x := r.Float64()
	if x < nilP {
		return nil
	}
	if x < nilP+emptyP {
		return [][2]string{}
	}
	n := 1 + r.IntN(3)
	out := [][2]string{}
	seen := map[string]bool{}
	for i := 0; i < n; i++ {
		k := pick(r, hKeys)
		if seen[k] {
			continue
		}
		seen[k] = true
		out = append(out, [2]string{k, pick(r, hVals)})
	}
	return out
}

func genTaint(r *rand.Rand) TaintJ {
	t := TaintJ{Key: pick(r, hKeys), Value: pick(r, hVals), Effect: pick(r, hEffects)}
	switch x := r.Float64(); {
	case x < 0.04:
		t.TimeAdded = ptr(int64(1_700_000_000 + r.IntN(3)))
	case x < 0.06:
		t.TimeZero = true
	}
	return t
}

// genTaintList: valid lists have no two taints with the same (key, effect); `used` spans taints and startupTaints.
func genTaintList(r *rand.Rand, used map[string]bool, allowDup bool) []TaintJ {
	x := r.Float64()
	if x < 0.25 {
		return nil
	}
	if x < 0.33 {
		return []TaintJ{}
	}
	n := 1 + r.IntN(3)
	out := []TaintJ{}
	for i := 0; i < n; i++ {
		t := genTaint(r)
		k := t.Key + "/" + t.Effect
		if used[k] && !allowDup {
			continue
		}
		used[k] = true
		out = append(out, t)
		if allowDup && r.Float64() < 0.5 {
			out = append(out, t) // an exact duplicate: XOR cancels it
		}
	}
	return out
}

func genReqs(r *rand.Rand) []world.MinExpr {
	x := r.Float64()
	if x < 0.15 {
		return nil
	}
	if x < 0.25 {
		return []world.MinExpr{}
	}
	n := 1 + r.IntN(3)
	out := []world.MinExpr{}
	for i := 0; i < n; i++ {
		e := world.MinExpr{Key: pick(r, []string{"team", "tier", "topology.kubernetes.io/zone", "karpenter.sh/capacity-type", "example.com/n"}), Op: pick(r, []string{"In", "NotIn", "Exists", "Gt", "Lt"}), Values: []string{}}
		switch e.Op {
		case "In", "NotIn":
			for j := 0; j <= r.IntN(2); j++ {
				e.Values = append(e.Values, pick(r, []string{"a", "b", "z1", "z2", "spot", "on-demand", "3"}))
			}
		case "Gt", "Lt":
			e.Values = []string{fmt.Sprint(r.IntN(9))}
		}
		if r.Float64() < 0.15 {
			e.MinValues = ptr(1 + r.IntN(2))
		}
		out = append(out, e)
	}
	return out
}

var rawFor = map[int64][]string{
	0:          {"0s", "0h", "0m0s"},
	hour:       {"1h", "60m", "1h0m0s", "3600s"},
	720 * hour: {"720h", "720h0m0s", "43200m"},
	30 * sec:   {"30s", "0m30s"},
}

func genExpire(r *rand.Rand, t *TemplateJ, valid bool) {
	switch x := r.Float64(); {
	case x < 0.2: // Never
	default:
		d := pick(r, []int64{0, hour, 720 * hour, 30 * sec})
		t.ExpireAfter = &d
		t.ExpireAfterRaw = ptr(fmt.Sprintf("%q", pick(r, rawFor[d])))
	}
	if !valid {
		// states UnmarshalJSON never produces: Raw without a duration, a duration without Raw
		switch r.IntN(3) {
		case 0:
			t.ExpireAfterRaw = nil
		case 1:
			t.ExpireAfter = nil
			t.ExpireAfterRaw = ptr(`"Never"`)
		}
	}
}

func genTemplate(r *rand.Rand, valid bool) TemplateJ {
	t := TemplateJ{}
	t.Labels = genKV(r, 0.2, 0.1)
	t.Annotations = genKV(r, 0.5, 0.1)
	used := map[string]bool{}
	t.Taints = genTaintList(r, used, !valid)
	t.StartupTaints = genTaintList(r, used, !valid)
	t.Requirements = genReqs(r)
	if valid || r.Float64() < 0.7 {
		ref := RefJ{Kind: pick(r, hKinds[:2]), Name: pick(r, hNames[:2]), Group: pick(r, hGroups[:2])}
		if !valid && r.Float64() < 0.5 {
			ref = RefJ{Kind: pick(r, hKinds), Name: pick(r, hNames), Group: pick(r, hGroups)}
		}
		t.NodeClassRef = &ref
	}
	switch x := r.Float64(); {
	case x < 0.5:
	case x < 0.6:
		t.TGP = ptr(int64(0))
	case x < 0.8:
		t.TGP = ptr(30 * sec)
	default:
		t.TGP = ptr(hour)
	}
	genExpire(r, &t, valid || r.Float64() < 0.5)
	return t
}

func genOutside(r *rand.Rand) OutsideJ {
	o := OutsideJ{ConsolidationPolicy: pick(r, hPolicy)}
	if r.Float64() < 0.5 {
		o.Weight = ptr(int32(1 + r.IntN(100)))
	}
	if r.Float64() < 0.4 {
		o.LimitCPU = ptr(int64(1000 * (1 + r.IntN(64))))
	}
	if r.Float64() < 0.2 {
		o.LimitNodes = ptr(int64(r.IntN(10)))
	}
	if r.Float64() < 0.5 {
		o.ConsolidateAfter = ptr(pick(r, []int64{0, 30 * sec, hour}))
	}
	if r.Float64() < 0.15 {
		o.Replicas = ptr(int64(r.IntN(5)))
	}
	for i := 0; i < r.IntN(3); i++ {
		b := BudgetJ{Nodes: pick(r, []string{"0", "1", "10%", "100%"})}
		if r.Float64() < 0.5 {
			b.Reasons = []string{pick(r, []string{"Drifted", "Empty", "Underutilized"})}
		}
		if r.Float64() < 0.4 {
			b.Schedule = ptr(pick(r, []string{"@daily", "0 9 * * 1-5"}))
			b.Duration = ptr(hour)
		}
		o.Budgets = append(o.Budgets, b)
	}
	if r.Float64() < 0.3 {
		o.MetaLabels = [][2]string{{"owner", pick(r, hVals)}}
	}
	return o
}

func cloneT(t TemplateJ) TemplateJ {
	b, _ := json.Marshal(t)
	var out TemplateJ
	_ = json.Unmarshal(b, &out)
	return out
}

func shuffle[T any](r *rand.Rand, xs []T) []T {
	if xs == nil {
		return nil
	}
	out := append([]T{}, xs...)
	r.Shuffle(len(out), func(i, j int) { out[i], out[j] = out[j], out[i] })
	return out
}

// ---- edits ----

type edit struct {
	name  string
	apply func(r *rand.Rand, p *PoolJ) bool // false = not applicable to this pool
}

func otherOf(r *rand.Rand, xs []string, cur string) string {
	for i := 0; i < 20; i++ {
		if v := pick(r, xs); v != cur {
			return v
		}
	}
	return cur + "x"
}

func editKV(field string, get func(t *TemplateJ) *[][2]string) []edit {
	return []edit{
		{field + ":value", func(r *rand.Rand, p *PoolJ) bool {
			kv := get(&p.Template)
			if len(*kv) == 0 {
				return false
			}
			i := r.IntN(len(*kv))
			(*kv)[i][1] = otherOf(r, hVals, (*kv)[i][1])
			return true
		}},
		{field + ":add", func(r *rand.Rand, p *PoolJ) bool {
			kv := get(&p.Template)
			for _, k := range shuffle(r, hKeys) {
				dup := false
				for _, e := range *kv {
					dup = dup || e[0] == k
				}
				if !dup {
					*kv = append(append([][2]string{}, *kv...), [2]string{k, pick(r, hVals)})
					return true
				}
			}
			return false
		}},
		{field + ":remove", func(r *rand.Rand, p *PoolJ) bool {
			kv := get(&p.Template)
			if len(*kv) < 2 {
				return false
			}
			i := r.IntN(len(*kv))
			*kv = append(append([][2]string{}, (*kv)[:i]...), (*kv)[i+1:]...)
			return true
		}},
		{field + ":rekey", func(r *rand.Rand, p *PoolJ) bool {
			kv := get(&p.Template)
			if len(*kv) == 0 {
				return false
			}
			i := r.IntN(len(*kv))
			for _, k := range shuffle(r, hKeys) {
				dup := false
				for _, e := range *kv {
					dup = dup || e[0] == k
				}
				if !dup {
					(*kv)[i][0] = k
					return true
				}
			}
			return false
		}},
	}
}

func taintKeyTaken(p *PoolJ, key, effect string) bool {
	for _, l := range [][]TaintJ{p.Template.Taints, p.Template.StartupTaints} {
		for _, t := range l {
			if t.Key == key && t.Effect == effect {
				return true
			}
		}
	}
	return false
}

func editTaints(field string, get func(t *TemplateJ) *[]TaintJ) []edit {
	return []edit{
		{field + ":value", func(r *rand.Rand, p *PoolJ) bool {
			ts := get(&p.Template)
			if len(*ts) == 0 {
				return false
			}
			i := r.IntN(len(*ts))
			(*ts)[i].Value = otherOf(r, hVals, (*ts)[i].Value)
			return true
		}},
		{field + ":effect", func(r *rand.Rand, p *PoolJ) bool {
			ts := get(&p.Template)
			if len(*ts) == 0 {
				return false
			}
			i := r.IntN(len(*ts))
			for _, e := range shuffle(r, hEffects) {
				if e != (*ts)[i].Effect && !taintKeyTaken(p, (*ts)[i].Key, e) {
					(*ts)[i].Effect = e
					return true
				}
			}
			return false
		}},
		{field + ":key", func(r *rand.Rand, p *PoolJ) bool {
			ts := get(&p.Template)
			if len(*ts) == 0 {
				return false
			}
			i := r.IntN(len(*ts))
			for _, k := range shuffle(r, hKeys) {
				if k != (*ts)[i].Key && !taintKeyTaken(p, k, (*ts)[i].Effect) {
					(*ts)[i].Key = k
					return true
				}
			}
			return false
		}},
		{field + ":add", func(r *rand.Rand, p *PoolJ) bool {
			ts := get(&p.Template)
			for i := 0; i < 20; i++ {
				t := TaintJ{Key: pick(r, hKeys), Value: pick(r, hVals), Effect: pick(r, hEffects)}
				if !taintKeyTaken(p, t.Key, t.Effect) {
					*ts = append(append([]TaintJ{}, *ts...), t)
					return true
				}
			}
			return false
		}},
		{field + ":remove", func(r *rand.Rand, p *PoolJ) bool {
			ts := get(&p.Template)
			if len(*ts) < 2 {
				return false
			}
			i := r.IntN(len(*ts))
			*ts = append(append([]TaintJ{}, (*ts)[:i]...), (*ts)[i+1:]...)
			return true
		}},
		{field + ":timeAdded", func(r *rand.Rand, p *PoolJ) bool {
			ts := get(&p.Template)
			if len(*ts) == 0 {
				return false
			}
			i := r.IntN(len(*ts))
			if (*ts)[i].TimeAdded != nil {
				(*ts)[i].TimeAdded = ptr(*(*ts)[i].TimeAdded + 1)
			} else {
				(*ts)[i].TimeZero = false
				(*ts)[i].TimeAdded = ptr(int64(1_700_000_000))
			}
			return true
		}},
	}
}

// hashedEdits change exactly one hashed template field: the hash must change.
func hashedEdits() []edit {
	var es []edit
	es = append(es, editKV("labels", func(t *TemplateJ) *[][2]string { return &t.Labels })...)
	es = append(es, editKV("annotations", func(t *TemplateJ) *[][2]string { return &t.Annotations })...)
	es = append(es, editTaints("taints", func(t *TemplateJ) *[]TaintJ { return &t.Taints })...)
	es = append(es, editTaints("startupTaints", func(t *TemplateJ) *[]TaintJ { return &t.StartupTaints })...)
	es = append(es,
		edit{"taints:move-to-startup", func(r *rand.Rand, p *PoolJ) bool {
			if len(p.Template.Taints) < 2 {
				return false
			}
			n := len(p.Template.Taints)
			t := p.Template.Taints[n-1]
			p.Template.Taints = append([]TaintJ{}, p.Template.Taints[:n-1]...)
			p.Template.StartupTaints = append(append([]TaintJ{}, p.Template.StartupTaints...), t)
			return true
		}},
		edit{"labels:swap-with-annotations", func(r *rand.Rand, p *PoolJ) bool {
			if len(p.Template.Labels) == 0 || fmt.Sprint(p.Template.Labels) == fmt.Sprint(p.Template.Annotations) {
				return false
			}
			p.Template.Labels, p.Template.Annotations = p.Template.Annotations, p.Template.Labels
			return true
		}},
		edit{"nodeClassRef:kind", func(r *rand.Rand, p *PoolJ) bool {
			if p.Template.NodeClassRef == nil {
				return false
			}
			p.Template.NodeClassRef.Kind = otherOf(r, hKinds[:2], p.Template.NodeClassRef.Kind)
			return true
		}},
		edit{"nodeClassRef:name", func(r *rand.Rand, p *PoolJ) bool {
			if p.Template.NodeClassRef == nil {
				return false
			}
			p.Template.NodeClassRef.Name = otherOf(r, hNames[:2], p.Template.NodeClassRef.Name)
			return true
		}},
		edit{"nodeClassRef:group", func(r *rand.Rand, p *PoolJ) bool {
			if p.Template.NodeClassRef == nil {
				return false
			}
			p.Template.NodeClassRef.Group = otherOf(r, hGroups[:2], p.Template.NodeClassRef.Group)
			return true
		}},
		edit{"nodeClassRef:swap-name-kind", func(r *rand.Rand, p *PoolJ) bool {
			ref := p.Template.NodeClassRef
			if ref == nil || ref.Name == ref.Kind {
				return false
			}
			ref.Name, ref.Kind = ref.Kind, ref.Name
			return true
		}},
		edit{"tgp:value", func(r *rand.Rand, p *PoolJ) bool {
			if p.Template.TGP == nil {
				p.Template.TGP = ptr(pick(r, []int64{0, 30 * sec, hour}))
			} else if r.Float64() < 0.3 {
				p.Template.TGP = nil
			} else {
				p.Template.TGP = ptr(*p.Template.TGP + sec*int64(1+r.IntN(3)))
			}
			return true
		}},
		edit{"expireAfter:value", func(r *rand.Rand, p *PoolJ) bool {
			t := &p.Template
			if t.ExpireAfter == nil {
				if t.ExpireAfterRaw != nil {
					return false
				}
				t.ExpireAfter, t.ExpireAfterRaw = ptr(hour), ptr(`"1h"`)
			} else if t.ExpireAfterRaw != nil && r.Float64() < 0.3 {
				t.ExpireAfter, t.ExpireAfterRaw = nil, nil // -> Never
			} else {
				d := *t.ExpireAfter + hour
				t.ExpireAfter = &d
				if t.ExpireAfterRaw != nil {
					t.ExpireAfterRaw = ptr(fmt.Sprintf("\"%ds\"", d/sec))
				}
			}
			return true
		}},
		edit{"tgp:swap-with-expireAfter", func(r *rand.Rand, p *PoolJ) bool {
			t := &p.Template
			if t.TGP == nil || t.ExpireAfter == nil || *t.TGP == *t.ExpireAfter {
				return false
			}
			a, b := *t.TGP, *t.ExpireAfter
			t.TGP, t.ExpireAfter = &b, &a
			return true
		}},
	)
	return es
}

// ignoredEdits touch only what the property names as non-drifting: the hash must NOT change.
func ignoredEdits() []edit {
	return []edit{
		{"requirements:replace", func(r *rand.Rand, p *PoolJ) bool {
			old := fmt.Sprint(p.Template.Requirements)
			for i := 0; i < 10; i++ {
				p.Template.Requirements = genReqs(r)
				if p.Template.Requirements != nil && fmt.Sprint(p.Template.Requirements) != old {
					return true
				}
			}
			return false
		}},
		{"requirements:append", func(r *rand.Rand, p *PoolJ) bool {
			p.Template.Requirements = append(append([]world.MinExpr{}, p.Template.Requirements...), world.MinExpr{Key: "tier", Op: "In", Values: []string{"gold"}})
			return true
		}},
		{"requirements:clear", func(r *rand.Rand, p *PoolJ) bool {
			if len(p.Template.Requirements) == 0 {
				return false
			}
			p.Template.Requirements = []world.MinExpr{}
			return true
		}},
		{"requirements:minValues", func(r *rand.Rand, p *PoolJ) bool {
			if len(p.Template.Requirements) == 0 {
				return false
			}
			p.Template.Requirements = append([]world.MinExpr{}, p.Template.Requirements...)
			p.Template.Requirements[0].MinValues = ptr(7)
			return true
		}},
		{"expireAfter:raw-spelling", func(r *rand.Rand, p *PoolJ) bool {
			t := &p.Template
			if t.ExpireAfter == nil || t.ExpireAfterRaw == nil {
				return false
			}
			for _, s := range rawFor[*t.ExpireAfter] {
				if q := fmt.Sprintf("%q", s); q != *t.ExpireAfterRaw {
					t.ExpireAfterRaw = &q
					return true
				}
			}
			return false
		}},
		{"outside:weight", func(r *rand.Rand, p *PoolJ) bool {
			if p.Outside.Weight == nil {
				p.Outside.Weight = ptr(int32(10))
			} else {
				p.Outside.Weight = ptr(*p.Outside.Weight%100 + 1)
			}
			return true
		}},
		{"outside:limits", func(r *rand.Rand, p *PoolJ) bool {
			if p.Outside.LimitCPU == nil {
				p.Outside.LimitCPU = ptr(int64(8000))
			} else if r.Float64() < 0.3 {
				p.Outside.LimitCPU = nil
			} else {
				p.Outside.LimitCPU = ptr(*p.Outside.LimitCPU + 1000)
			}
			return true
		}},
		{"outside:budgets", func(r *rand.Rand, p *PoolJ) bool {
			if len(p.Outside.Budgets) > 0 && r.Float64() < 0.5 {
				bs := append([]BudgetJ{}, p.Outside.Budgets...)
				bs[0].Nodes = otherOf(r, []string{"0", "1", "10%", "100%"}, bs[0].Nodes)
				if r.Float64() < 0.5 {
					bs[0].Reasons = []string{otherOf(r, []string{"Drifted", "Empty", "Underutilized"}, strings.Join(bs[0].Reasons, ","))}
				}
				p.Outside.Budgets = bs
			} else {
				p.Outside.Budgets = append(append([]BudgetJ{}, p.Outside.Budgets...), BudgetJ{Nodes: "5", Schedule: ptr("@hourly"), Duration: ptr(hour)})
			}
			return true
		}},
		{"outside:consolidateAfter", func(r *rand.Rand, p *PoolJ) bool {
			if p.Outside.ConsolidateAfter == nil {
				p.Outside.ConsolidateAfter = ptr(30 * sec)
			} else if r.Float64() < 0.3 {
				p.Outside.ConsolidateAfter = nil
			} else {
				p.Outside.ConsolidateAfter = ptr(*p.Outside.ConsolidateAfter + sec)
			}
			return true
		}},
		{"outside:consolidationPolicy", func(r *rand.Rand, p *PoolJ) bool {
			p.Outside.ConsolidationPolicy = otherOf(r, hPolicy, p.Outside.ConsolidationPolicy)
			return true
		}},
		{"outside:replicas", func(r *rand.Rand, p *PoolJ) bool {
			if p.Outside.Replicas == nil {
				return false // dynamic <-> static is forbidden by the CRD; only the count may change
			}
			p.Outside.Replicas = ptr(*p.Outside.Replicas + 1)
			return true
		}},
		{"outside:metaLabels", func(r *rand.Rand, p *PoolJ) bool {
			p.Outside.MetaLabels = append(append([][2]string{}, p.Outside.MetaLabels...), [2]string{"rev", pick(r, hVals)})
			return true
		}},
	}
}

func reorder(r *rand.Rand, p *PoolJ) {
	t := &p.Template
	t.Labels = shuffle(r, t.Labels)
	t.Annotations = shuffle(r, t.Annotations)
	t.Taints = shuffle(r, t.Taints)
	t.StartupTaints = shuffle(r, t.StartupTaints)
}

// representation edits: nil <-> empty, duplicates — neither "reordering" nor a documented field change; only the
// exact-hash correspondence with the model is checked for them.
func reprEdits() []edit {
	flip := func(name string, get func(t *TemplateJ) (isNil bool, n int), set func(t *TemplateJ, toNil bool)) edit {
		return edit{"repr:nil-empty:" + name, func(r *rand.Rand, p *PoolJ) bool {
			isNil, n := get(&p.Template)
			if n > 0 {
				return false
			}
			set(&p.Template, !isNil)
			return true
		}}
	}
	return []edit{
		flip("labels", func(t *TemplateJ) (bool, int) { return t.Labels == nil, len(t.Labels) }, func(t *TemplateJ, toNil bool) {
			if toNil {
				t.Labels = nil
			} else {
				t.Labels = [][2]string{}
			}
		}),
		flip("annotations", func(t *TemplateJ) (bool, int) { return t.Annotations == nil, len(t.Annotations) }, func(t *TemplateJ, toNil bool) {
			if toNil {
				t.Annotations = nil
			} else {
				t.Annotations = [][2]string{}
			}
		}),
		flip("taints", func(t *TemplateJ) (bool, int) { return t.Taints == nil, len(t.Taints) }, func(t *TemplateJ, toNil bool) {
			if toNil {
				t.Taints = nil
			} else {
				t.Taints = []TaintJ{}
			}
		}),
		flip("startupTaints", func(t *TemplateJ) (bool, int) { return t.StartupTaints == nil, len(t.StartupTaints) }, func(t *TemplateJ, toNil bool) {
			if toNil {
				t.StartupTaints = nil
			} else {
				t.StartupTaints = []TaintJ{}
			}
		}),
		{"repr:duplicate-taint", func(r *rand.Rand, p *PoolJ) bool {
			if len(p.Template.Taints) == 0 {
				return false
			}
			t := p.Template.Taints[r.IntN(len(p.Template.Taints))]
			n := 1 + r.IntN(2)
			for i := 0; i < n; i++ {
				p.Template.Taints = append(append([]TaintJ{}, p.Template.Taints...), t)
			}
			return true
		}},
		{"repr:requirements-nil", func(r *rand.Rand, p *PoolJ) bool {
			if p.Template.Requirements == nil {
				p.Template.Requirements = []world.MinExpr{}
			} else {
				p.Template.Requirements = nil
			}
			return true
		}},
		{"repr:nodeClassRef-nil", func(r *rand.Rand, p *PoolJ) bool {
			if p.Template.NodeClassRef == nil {
				return false
			}
			p.Template.NodeClassRef = nil
			return true
		}},
	}
}

func clonePool(p PoolJ) PoolJ {
	b, _ := json.Marshal(p)
	var out PoolJ
	_ = json.Unmarshal(b, &out)
	return out
}

func applySome(r *rand.Rand, es []edit, p *PoolJ) string {
	for _, i := range r.Perm(len(es)) {
		q := clonePool(*p)
		if es[i].apply(r, &q) {
			*p = q
			return es[i].name
		}
	}
	return ""
}

func genHash(r *rand.Rand, t core.Tier) any {
	valid := r.Float64() < 0.85
	a := PoolJ{Template: genTemplate(r, valid), Outside: genOutside(r)}
	b := clonePool(a)
	var name string
	switch x := r.Float64(); {
	case x < 0.15:
		reorder(r, &b)
		name = "reorder"
	case x < 0.35:
		name = "ignored:" + applySome(r, ignoredEdits(), &b)
		if r.Float64() < 0.5 {
			reorder(r, &b)
			name += "+reorder"
		}
	case x < 0.47:
		// several ignored edits at once
		n1 := applySome(r, ignoredEdits(), &b)
		n2 := applySome(r, ignoredEdits(), &b)
		reorder(r, &b)
		name = "ignored:" + n1 + "+" + n2 + "+reorder"
	case x < 0.80:
		name = "hashed:" + applySome(r, hashedEdits(), &b)
		if r.Float64() < 0.5 {
			reorder(r, &b)
			name += "+reorder"
		}
		if r.Float64() < 0.3 {
			name += "+ignored:" + applySome(r, ignoredEdits(), &b)
		}
	case x < 0.90:
		name = applySome(r, reprEdits(), &b)
	default:
		b = PoolJ{Template: genTemplate(r, valid), Outside: genOutside(r)}
		name = "unrelated"
	}
	return HashIn{A: a, B: b, Edit: name}
}

// richBase is a valid template with every hashed field set and at least two elements in every collection.
func richBase() PoolJ {
	return PoolJ{
		Template: TemplateJ{
			Labels:         [][2]string{{"team", "a"}, {"tier", "b"}},
			Annotations:    [][2]string{{"example.com/owner", "blue"}, {"gpu", "true"}},
			Taints:         []TaintJ{{Key: "dedicated", Value: "a", Effect: "NoSchedule"}, {Key: "gpu", Value: "true", Effect: "NoExecute"}},
			StartupTaints:  []TaintJ{{Key: "team", Value: "", Effect: "NoSchedule"}, {Key: "tier", Value: "b", Effect: "PreferNoSchedule", TimeAdded: ptr(int64(1_700_000_000))}},
			Requirements:   []world.MinExpr{{Key: "team", Op: "In", Values: []string{"a", "b"}}, {Key: "example.com/n", Op: "Gt", Values: []string{"2"}}},
			NodeClassRef:   &RefJ{Kind: "TestNodeClass", Name: "default", Group: "karpenter.test.sh"},
			TGP:            ptr(30 * sec),
			ExpireAfter:    ptr(720 * hour),
			ExpireAfterRaw: ptr(`"720h"`),
		},
		Outside: OutsideJ{Weight: ptr(int32(10)), LimitCPU: ptr(int64(8000)), ConsolidateAfter: ptr(30 * sec), ConsolidationPolicy: "WhenEmpty",
			Budgets: []BudgetJ{{Nodes: "10%"}, {Nodes: "0", Reasons: []string{"Drifted"}, Schedule: ptr("@daily"), Duration: ptr(hour)}}},
	}
}

// enumHash: on two fixed bases, every single edit of every class (several random draws each).
func enumHash(t core.Tier) []any {
	var out []any
	sparse := PoolJ{Template: TemplateJ{NodeClassRef: &RefJ{Kind: "TestNodeClass", Name: "default", Group: "karpenter.test.sh"}, Requirements: []world.MinExpr{}}, Outside: OutsideJ{Replicas: ptr(int64(2))}}
	bases := []PoolJ{richBase(), sparse}
	for bi, base := range bases {
		for _, class := range []struct {
			prefix string
			es     []edit
		}{{"hashed:", hashedEdits()}, {"ignored:", ignoredEdits()}, {"", reprEdits()}} {
			for ei, e := range class.es {
				for k := 0; k < 4; k++ {
					r := rand.New(rand.NewPCG(uint64(bi*1000+ei), uint64(k)))
					b := clonePool(base)
					if !e.apply(r, &b) {
						continue
					}
					name := class.prefix + e.name
					if k%2 == 1 {
						reorder(r, &b)
						name += "+reorder"
					}
					out = append(out, HashIn{A: base, B: b, Edit: name})
				}
			}
		}
		for k := 0; k < 6; k++ {
			r := rand.New(rand.NewPCG(uint64(bi), uint64(100+k)))
			b := clonePool(base)
			reorder(r, &b)
			out = append(out, HashIn{A: base, B: b, Edit: "reorder"})
		}
	}
	return out
}

func editClass(name string) string {
	switch {
	case strings.HasPrefix(name, "hashed:"):
		return "hashed"
	case strings.HasPrefix(name, "ignored:"):
		return "ignored"
	case strings.HasPrefix(name, "repr:"):
		return "repr"
	case name == "reorder":
		return "reorder"
	}
	return "unrelated"
}

func hashOp() *core.Op {
	return &core.Op{
		Name: "c15.hash",
		Doc:  "the real NodePool.Hash() on a NodePool and an edit of it (reorder / non-drifting field / one hashed template field / nil-empty-duplicate representation): exact hash value vs the Lean model (FNV-1 64 over the modelled hashstructure walk), and 'equal iff only reordering and non-drifting edits' judged by the specification",
		N: func(t core.Tier) int {
			if t == core.Thorough {
				return 30000
			}
			return 2500
		},
		Gen:            genHash,
		Enum:           enumHash,
		ExhaustiveNote: "every single-field edit (each hashed field: change/add/remove/rekey/move; each non-drifting field; each nil/empty/duplicate flip) on a fully populated and on a sparse template",
		Impl:           implHash,
		Rule:           "non-trivial = the edit was applicable and b differs from a as a Go value (textually); distinct = distinct (a, b) pairs",
		Nontrivial: func(raw json.RawMessage, _ any) bool {
			var in HashIn
			json.Unmarshal(raw, &in)
			ja, _ := json.Marshal(in.A)
			jb, _ := json.Marshal(in.B)
			return string(ja) != string(jb)
		},
		Labels: func(raw json.RawMessage, impl any) []string {
			var in HashIn
			json.Unmarshal(raw, &in)
			l := []string{"class:" + editClass(in.Edit)}
			name := in.Edit
			if i := strings.Index(name, "+"); i >= 0 {
				name = name[:i]
			}
			l = append(l, "edit:"+name)
			if m, ok := impl.(map[string]any); ok {
				l = append(l, fmt.Sprintf("equal=%v", m["equal"]))
			}
			return l
		},
		Signature: func(raw json.RawMessage, _ any) string {
			var in HashIn
			json.Unmarshal(raw, &in)
			return "hash:" + editClass(in.Edit)
		},
	}
}
