package c15

import (
	"context"
	"encoding/json"
	"errors"
	"fmt"
	"maps"
	"math/rand/v2"
	"sort"
	"strings"
	"time"

	corev1 "k8s.io/api/core/v1"
	"k8s.io/apimachinery/pkg/api/resource"
	metav1 "k8s.io/apimachinery/pkg/apis/meta/v1"
	"k8s.io/apimachinery/pkg/types"
	"sigs.k8s.io/controller-runtime/pkg/client"
	"sigs.k8s.io/controller-runtime/pkg/client/interceptor"

	v1 "sigs.k8s.io/karpenter/pkg/apis/v1"
	"sigs.k8s.io/karpenter/pkg/cloudprovider"
	fakecp "sigs.k8s.io/karpenter/pkg/cloudprovider/fake"
	ncdisruption "sigs.k8s.io/karpenter/pkg/controllers/nodeclaim/disruption"
	"sigs.k8s.io/karpenter/pkg/controllers/nodeclaim/lifecycle"
	nphash "sigs.k8s.io/karpenter/pkg/controllers/nodepool/hash"
	npvalidation "sigs.k8s.io/karpenter/pkg/controllers/nodepool/validation"
	"sigs.k8s.io/karpenter/pkg/controllers/provisioning"
	provsched "sigs.k8s.io/karpenter/pkg/controllers/provisioning/scheduling"
	"sigs.k8s.io/karpenter/pkg/scheduling"
	"sigs.k8s.io/karpenter/pkg/state/nodepoolhealth"
	"sigs.k8s.io/karpenter/pkg/test"
	"sigs.k8s.io/karpenter/pkg/utils/resources"

	"verifharness/internal/core"
	"verifharness/internal/world"
)

// c15.selfdrift: end to end. A scenario (NodePools with labels / taints / requirements on well-known and custom keys,
// pending pods) is built on the fake client; the REAL hash controller stamps the NodePools; the REAL provisioner schedules
// and writes the NodeClaims (NodeClaimTemplate.ToNodeClaim); every NodeClaim is then launched through the REAL lifecycle
// controller (Launch.Reconcile -> PopulateNodeClaimDetails) with a provider that answers with one PERMITTED (instance
// type, offering) — every permitted option is tried, each on its own copy of the NodeClaim — and handed to the REAL
// disruption controller. Fresh claims must not be Drifted (also once the instance-type check is due, > 1 h later).
// Then one NodePool is edited (hashed field / non-drifting field / requirements), the hash controller runs again, and
// the drift verdicts are judged by the specification.
// Second wave (`wave2`): the provisioner runs ONCE MORE after the edit — either after the hash controller has re-stamped
// the NodePool or BEFORE it gets to the edited NodePool (the NodePool's annotation is then behind its template while
// NewNodeClaimTemplate builds the NodeClaims) — the new NodeClaims are launched the same way, the hash controller catches
// up, and the disruption controller looks at them: NodeClaims freshly created from the edited NodePool must not be Drifted.
// Faults during the launch (`launchFaults`): the lifecycle controller talks to the API server through an interceptor that
// fails chosen writes (the finalizer patch, the metadata patch, the status patch) once; the controller is reconciled again
// like the work queue would, so the launch is REPLAYED from the controller's in-memory cache of created instances. A
// NodeClaim that ends up Launched must carry the labels of its launch choice whichever way it got there.
// Capacity that sells out (`soldOut`): between the launch and the instance-type check two hours later the offerings the
// NodeClaims were launched into (or all offerings) become unavailable — still listed by the provider, just not launchable
// right now. That is no drift.

type PoolEdit struct {
	Pool  string          `json:"pool"`
	Kind  string          `json:"kind"` // label | annotation | taint | startupTaint | tgp | expireAfter | weight | limits | budgets | consolidateAfter | reqs
	Key   string          `json:"key,omitempty"`
	Value string          `json:"value,omitempty"`
	Reqs  []world.MinExpr `json:"reqs,omitempty"` // kind reqs: the new requirement list
}

type SelfIn struct {
	Scn  world.Scenario `json:"scn"`
	Edit *PoolEdit      `json:"edit"`
	// at most this many launch options per NodeClaim (0 = all)
	MaxOptions int `json:"maxOptions"`
	// runtime tables of the process under test
	WellKnown        []string `json:"wellKnown"`
	ReservedLabels   []string `json:"reservedLabels"`
	ReservationLabel string   `json:"reservationLabel"`
	// the provider answers, for a label the NodeClaim itself already carries, with the instance type's FIRST value instead
	// of the NodeClaim's (the fake provider of the repo does this; the NodeClaim's own labels must win)
	Sloppy bool `json:"sloppy"`
	// a second scheduling pass after the edit: "" = none, "after-hash" = once the hash controller has re-stamped the
	// edited NodePool, "before-hash" = between the edit and the hash controller's run
	Wave2 string `json:"wave2,omitempty"`
	// one entry per reconcile of the lifecycle controller on every NodeClaim: the n-th API write of that reconcile fails
	// (1 = the first write issued, 0 = none); one undisturbed reconcile always follows
	LaunchFaults []int `json:"launchFaults,omitempty"`
	// between the launch and the instance-type check 2 h later: "" = the offerings stay as they are, "launched" = every
	// offering a NodeClaim was launched into becomes unavailable (still listed), "all" = every offering does
	SoldOut string `json:"soldOut,omitempty"`
}

type LaunchObs struct {
	Claim     int         `json:"claim"`
	Pool      string      `json:"pool"`
	Option    string      `json:"option"` // instance type / zone / capacity type / reservation
	Labels    [][2]string `json:"labels"` // after launch
	Hash      *string     `json:"hash"`
	Version   *string     `json:"version"`
	Launched  bool        `json:"launched"`
	Fresh     *string     `json:"fresh"`     // Drifted right after launch
	Later     *string     `json:"later"`     // Drifted 2 h later (instance-type check due)
	AfterEdit *string     `json:"afterEdit"` // Drifted after the NodePool edit + hash controller
	Err       string      `json:"err,omitempty"`
	// spec.requirements of the NodeClaim as written by ToNodeClaim, custom keys only
	Reqs []world.MinExpr `json:"reqs"`
	// the launch itself: the labels before it, the labels the provider answered Create with, the number of Create calls,
	// and whether each reconcile of the lifecycle controller returned an error
	Pre      [][2]string `json:"pre"`
	Provided [][2]string `json:"provided"`
	Creates  int         `json:"creates"`
	Errs     []bool      `json:"errs"`
}

type PoolObs struct {
	Name        string  `json:"name"`
	Hash        *string `json:"hash"`
	Version     *string `json:"version"`
	HashAfter   *string `json:"hashAfter"`
	VersionAfer *string `json:"versionAfter"`
}

type SelfOut struct {
	Pools    []PoolObs   `json:"pools"`
	Launches []LaunchObs `json:"launches"`
	// the second wave: `fresh` is the verdict of the disruption controller once the hash controller has caught up
	Launches2 []LaunchObs `json:"launches2"`
	Err       string      `json:"err,omitempty"`
}

type option struct {
	it *cloudprovider.InstanceType
	of *cloudprovider.Offering
}

func (o option) String() string {
	rid := ""
	if o.of.CapacityType() == v1.CapacityTypeReserved {
		rid = o.of.ReservationID()
	}
	return fmt.Sprintf("%s/%s/%s/%s", o.it.Name, o.of.Zone(), o.of.CapacityType(), rid)
}

// permitted lists the (instance type, offering) pairs a provider may launch the NodeClaim as: the instance type is
// compatible with the claim's requirements and fits its requests, the offering is available and compatible.
func permitted(its []*cloudprovider.InstanceType, nc *v1.NodeClaim) []option {
	reqs := scheduling.NewNodeSelectorRequirementsWithMinValues(nc.Spec.Requirements...)
	var out []option
	for _, it := range its {
		if !reqs.IsCompatible(it.Requirements, scheduling.AllowUndefinedWellKnownLabels) {
			continue
		}
		if !resources.Fits(nc.Spec.Resources.Requests, it.Allocatable()) {
			continue
		}
		for _, of := range it.Offerings.Available().Compatible(reqs) {
			out = append(out, option{it, of})
		}
	}
	sort.Slice(out, func(i, j int) bool { return out[i].String() < out[j].String() })
	return out
}

// providerLabels: what the provider contract says `Create` returns for the chosen option — a value for every label the
// instance type defines (one the NodeClaim's requirements admit) and the offering's zone / capacity type / reservation.
func providerLabels(o option, nc *v1.NodeClaim, sloppy bool) map[string]string {
	reqs := scheduling.NewNodeSelectorRequirementsWithMinValues(nc.Spec.Requirements...)
	labels := map[string]string{}
	for key, req := range o.it.Requirements {
		if req.Operator() != corev1.NodeSelectorOpIn {
			continue
		}
		vals := req.Values()
		sort.Strings(vals)
		labels[key] = vals[0]
		if _, own := nc.Labels[key]; own && sloppy {
			continue
		}
		for _, v := range vals {
			if reqs.Get(key).Has(v) {
				labels[key] = v
				break
			}
		}
	}
	for _, req := range o.of.Requirements {
		if req.Operator() == corev1.NodeSelectorOpIn {
			labels[req.Key] = req.Values()[0]
		}
	}
	return labels
}

// scripted answers Create with the option chosen for that NodeClaim.
type scripted struct {
	*fakecp.CloudProvider
	choice map[string]option
	sloppy bool
	// per NodeClaim: the labels Create answered with, and how often it was called
	provided map[string]map[string]string
	creates  map[string]int
}

// writeFaults fails the failAt-th write (Patch / Status().Patch of a NodeClaim) issued since the last reset.
type writeFaults struct {
	n, failAt int
}

func (f *writeFaults) reset(failAt int) { f.n, f.failAt = 0, failAt }

func (f *writeFaults) hit(obj client.Object) error {
	if _, ok := obj.(*v1.NodeClaim); !ok {
		return nil
	}
	f.n++
	if f.n == f.failAt {
		return errors.New("injected API failure")
	}
	return nil
}

func (f *writeFaults) wrap(c client.Client) client.Client {
	return interceptor.NewClient(c.(client.WithWatch), interceptor.Funcs{
		Patch: func(ctx context.Context, cl client.WithWatch, obj client.Object, patch client.Patch, opts ...client.PatchOption) error {
			if err := f.hit(obj); err != nil {
				return err
			}
			return cl.Patch(ctx, obj, patch, opts...)
		},
		Update: func(ctx context.Context, cl client.WithWatch, obj client.Object, opts ...client.UpdateOption) error {
			if err := f.hit(obj); err != nil {
				return err
			}
			return cl.Update(ctx, obj, opts...)
		},
		SubResourcePatch: func(ctx context.Context, cl client.Client, sub string, obj client.Object, patch client.Patch, opts ...client.SubResourcePatchOption) error {
			if err := f.hit(obj); err != nil {
				return err
			}
			return cl.SubResource(sub).Patch(ctx, obj, patch, opts...)
		},
		SubResourceUpdate: func(ctx context.Context, cl client.Client, sub string, obj client.Object, opts ...client.SubResourceUpdateOption) error {
			if err := f.hit(obj); err != nil {
				return err
			}
			return cl.SubResource(sub).Update(ctx, obj, opts...)
		},
	})
}

func sortedPairs(m map[string]string) [][2]string {
	out := [][2]string{}
	for k, v := range m {
		out = append(out, [2]string{k, v})
	}
	sort.Slice(out, func(a, b int) bool { return out[a][0] < out[b][0] })
	return out
}

func (s *scripted) Create(_ context.Context, nc *v1.NodeClaim) (*v1.NodeClaim, error) {
	o, ok := s.choice[nc.Name]
	if !ok {
		return nil, fmt.Errorf("no launch option scripted for %s", nc.Name)
	}
	labels := providerLabels(o, nc, s.sloppy)
	s.creates[nc.Name]++
	s.provided[nc.Name] = labels
	created := &v1.NodeClaim{
		ObjectMeta: metav1.ObjectMeta{Name: nc.Name, Labels: maps.Clone(labels), Annotations: nc.Annotations},
		Spec:       *nc.Spec.DeepCopy(),
		Status: v1.NodeClaimStatus{ProviderID: "fake://" + nc.Name, Capacity: o.it.Capacity,
			Allocatable: o.it.Allocatable()},
	}
	s.CloudProvider.CreatedNodeClaims[created.Status.ProviderID] = created
	return created, nil
}

func driftedOf(nc *v1.NodeClaim) *string {
	if cond := nc.StatusConditions().Get(v1.ConditionTypeDrifted); cond != nil {
		r := cond.Reason
		if !cond.IsTrue() {
			r = string(cond.Status) + ":" + r
		}
		return &r
	}
	return nil
}

func applyEdit(np *v1.NodePool, e *PoolEdit) {
	t := &np.Spec.Template
	switch e.Kind {
	case "label":
		if t.Labels == nil {
			t.Labels = map[string]string{}
		}
		t.Labels[e.Key] = e.Value
	case "annotation":
		if t.Annotations == nil {
			t.Annotations = map[string]string{}
		}
		t.Annotations[e.Key] = e.Value
	case "taint":
		t.Spec.Taints = append(t.Spec.Taints, corev1.Taint{Key: e.Key, Value: e.Value, Effect: corev1.TaintEffectNoSchedule})
	case "startupTaint":
		t.Spec.StartupTaints = append(t.Spec.StartupTaints, corev1.Taint{Key: e.Key, Value: e.Value, Effect: corev1.TaintEffectNoExecute})
	case "tgp":
		t.Spec.TerminationGracePeriod = &metav1.Duration{Duration: 77 * time.Second}
	case "expireAfter":
		t.Spec.ExpireAfter = v1.MustParseNillableDuration("77h")
	case "weight":
		np.Spec.Weight = ptr(int32(77))
	case "limits":
		np.Spec.Limits = v1.Limits{corev1.ResourceCPU: resource.MustParse("7777")}
	case "budgets":
		np.Spec.Disruption.Budgets = append(np.Spec.Disruption.Budgets, v1.Budget{Nodes: "7", Reasons: []v1.DisruptionReason{v1.DisruptionReasonDrifted}})
	case "consolidateAfter":
		np.Spec.Disruption.ConsolidateAfter = v1.MustParseNillableDuration("77s")
		np.Spec.Disruption.ConsolidationPolicy = v1.ConsolidationPolicyWhenEmpty
	case "reqs":
		t.Spec.Requirements = toReqs(e.Reqs)
		if t.Spec.Requirements == nil {
			t.Spec.Requirements = []v1.NodeSelectorRequirementWithMinValues{}
		}
	}
}

func implSelf(raw json.RawMessage) (any, error) {
	var in SelfIn
	if err := json.Unmarshal(raw, &in); err != nil {
		return nil, err
	}
	w, err := world.Build(&in.Scn)
	if err != nil {
		return nil, err
	}
	ctx, c := w.Ctx, w.Client
	cp := &scripted{CloudProvider: w.CP, choice: map[string]option{}, sloppy: in.Sloppy, provided: map[string]map[string]string{}, creates: map[string]int{}}
	hashCtl := nphash.NewController(c, cp)
	validCtl := npvalidation.NewController(w.Clock, c, cp)
	out := SelfOut{Pools: []PoolObs{}, Launches: []LaunchObs{}, Launches2: []LaunchObs{}}
	for _, p := range in.Scn.Pools {
		np := &v1.NodePool{}
		if err := c.Get(ctx, types.NamespacedName{Name: p.Name}, np); err != nil {
			return nil, err
		}
		// the real validation controller decides whether the NodePool is Ready (a NodePool that is not Ready launches nothing)
		if _, err := validCtl.Reconcile(ctx, np); err != nil {
			return nil, err
		}
		if err := c.Get(ctx, types.NamespacedName{Name: p.Name}, np); err != nil {
			return nil, err
		}
		if _, err := hashCtl.Reconcile(ctx, np); err != nil {
			return nil, err
		}
	}
	res, err := w.Schedule()
	if err != nil {
		out.Err = "schedule-error"
		return out, nil
	}
	names, _ := w.Prov.CreateNodeClaims(ctx, res.NewNodeClaims, provisioning.WithReason("verif"))
	for _, p := range in.Scn.Pools {
		np := &v1.NodePool{}
		if err := c.Get(ctx, types.NamespacedName{Name: p.Name}, np); err != nil {
			return nil, err
		}
		out.Pools = append(out.Pools, PoolObs{Name: p.Name, Hash: getAnn(np, v1.NodePoolHashAnnotationKey), Version: getAnn(np, v1.NodePoolHashVersionAnnotationKey)})
	}
	// the claims to launch: one copy of every written NodeClaim per permitted option
	type launch struct {
		idx  int
		name string
		opt  option
	}
	uid := 0
	prepare := func(res provsched.Results, names []string, prefix string, sink *[]LaunchObs) ([]launch, error) {
		var launches []launch
		// deterministic order of the written claims: by the pods they were opened for
		order := make([]int, len(names))
		for i := range order {
			order[i] = i
		}
		key := func(i int) string {
			ps := []string{}
			for _, p := range res.NewNodeClaims[i].Pods {
				ps = append(ps, p.Name)
			}
			sort.Strings(ps)
			return strings.Join(ps, ",")
		}
		sort.Slice(order, func(a, b int) bool { return key(order[a]) < key(order[b]) })
		for rank, i := range order {
			if names[i] == "" {
				continue
			}
			orig := &v1.NodeClaim{}
			if err := c.Get(ctx, types.NamespacedName{Name: names[i]}, orig); err != nil {
				return nil, err
			}
			opts := permitted(w.CP.InstanceTypes, orig)
			if in.MaxOptions > 0 && len(opts) > in.MaxOptions {
				// an evenly spread sample
				sel := []option{}
				for k := 0; k < in.MaxOptions; k++ {
					sel = append(sel, opts[k*len(opts)/in.MaxOptions])
				}
				opts = sel
			}
			if len(opts) == 0 {
				*sink = append(*sink, LaunchObs{Claim: rank, Pool: orig.Labels[v1.NodePoolLabelKey], Err: "no-permitted-option"})
			}
			for j, o := range opts {
				cpy := &v1.NodeClaim{ObjectMeta: metav1.ObjectMeta{Name: fmt.Sprintf("%sclaim-%d-opt-%d", prefix, rank, j), Labels: orig.DeepCopy().Labels,
					Annotations: orig.DeepCopy().Annotations, OwnerReferences: orig.OwnerReferences}, Spec: *orig.Spec.DeepCopy()}
				uid++
				cpy.UID = types.UID(fmt.Sprintf("claim-uid-%d", uid))
				cpy.CreationTimestamp = metav1.NewTime(w.Clock.Now())
				if err := c.Create(ctx, cpy); err != nil {
					return nil, err
				}
				cp.choice[cpy.Name] = o
				launches = append(launches, launch{rank, cpy.Name, o})
			}
			// the original is not launched: remove it so that it does not count against anything
			if err := c.Delete(ctx, orig); err != nil {
				return nil, err
			}
		}
		return launches, nil
	}
	launches, err := prepare(res, names, "", &out.Launches)
	if err != nil {
		return nil, err
	}
	// the lifecycle controller's API writes go through the fault injector
	faults := &writeFaults{}
	life := lifecycle.NewController(w.Clock, faults.wrap(c), cp, test.NewEventRecorder(), nodepoolhealth.NewState(), nil)
	driftCtl := ncdisruption.NewController(w.Clock, c, cp)
	get := func(name string) (*v1.NodeClaim, error) {
		nc := &v1.NodeClaim{}
		return nc, c.Get(ctx, types.NamespacedName{Name: name}, nc)
	}
	obs := map[string]*LaunchObs{}
	// launchOne: the written requirements, the real lifecycle controller (launch), the labels / annotations it leaves
	launchOne := func(l launch) error {
		o := &LaunchObs{Claim: l.idx, Option: l.opt.String(), Labels: [][2]string{}, Reqs: []world.MinExpr{}}
		obs[l.name] = o
		nc, err := get(l.name)
		if err != nil {
			return err
		}
		for _, rq := range nc.Spec.Requirements {
			if v1.WellKnownLabels.Has(rq.Key) {
				continue
			}
			vals := append([]string{}, rq.Values...)
			sort.Strings(vals)
			o.Reqs = append(o.Reqs, world.MinExpr{Key: rq.Key, Op: string(rq.Operator), Values: vals, MinValues: rq.MinValues})
		}
		sort.SliceStable(o.Reqs, func(a, b int) bool {
			if o.Reqs[a].Key != o.Reqs[b].Key {
				return o.Reqs[a].Key < o.Reqs[b].Key
			}
			return o.Reqs[a].Op < o.Reqs[b].Op
		})
		o.Pre = sortedPairs(nc.Labels)
		// one reconcile per scripted fault, then an undisturbed one — each on the NodeClaim as stored, like the work queue
		o.Errs = []bool{}
		for _, failAt := range append(append([]int{}, in.LaunchFaults...), 0) {
			if nc, err = get(l.name); err != nil {
				return err
			}
			faults.reset(failAt)
			_, rerr := life.Reconcile(ctx, nc)
			faults.reset(0)
			o.Errs = append(o.Errs, rerr != nil)
		}
		o.Provided, o.Creates = sortedPairs(cp.provided[l.name]), cp.creates[l.name]
		if o.Errs[len(o.Errs)-1] {
			o.Err = "lifecycle-error"
			return nil
		}
		if nc, err = get(l.name); err != nil {
			return err
		}
		o.Pool = nc.Labels[v1.NodePoolLabelKey]
		o.Launched = nc.StatusConditions().Get(v1.ConditionTypeLaunched).IsTrue()
		for k, v := range nc.Labels {
			o.Labels = append(o.Labels, [2]string{k, v})
		}
		sort.Slice(o.Labels, func(a, b int) bool { return o.Labels[a][0] < o.Labels[b][0] })
		o.Hash, o.Version = getAnn(nc, v1.NodePoolHashAnnotationKey), getAnn(nc, v1.NodePoolHashVersionAnnotationKey)
		return nil
	}
	// driftOne: the real disruption controller on the launched claim; the verdict goes to *dst
	driftOne := func(l launch, dst func(o *LaunchObs) **string) error {
		o := obs[l.name]
		if o.Err != "" {
			return nil
		}
		nc, err := get(l.name)
		if err != nil {
			return err
		}
		if _, err := driftCtl.Reconcile(ctx, nc); err != nil {
			o.Err = "drift-error"
			return nil
		}
		if nc, err = get(l.name); err != nil {
			return err
		}
		*dst(o) = driftedOf(nc)
		return nil
	}
	for _, l := range launches {
		if err := launchOne(l); err != nil {
			return nil, err
		}
		if err := driftOne(l, func(o *LaunchObs) **string { return &o.Fresh }); err != nil {
			return nil, err
		}
	}
	// capacity sells out: the offerings stay in the provider's catalogue, they just cannot be launched into right now
	restore := map[*cloudprovider.Offering]bool{}
	switch in.SoldOut {
	case "launched":
		for _, l := range launches {
			restore[l.opt.of] = l.opt.of.Available
		}
	case "all":
		for _, it := range w.CP.InstanceTypes {
			for _, of := range it.Offerings {
				restore[of] = of.Available
			}
		}
	}
	for of := range restore {
		of.Available = false
	}
	// two hours later the instance-type check is due
	w.Clock.Step(2 * time.Hour)
	for _, l := range launches {
		if err := driftOne(l, func(o *LaunchObs) **string { return &o.Later }); err != nil {
			return nil, err
		}
	}
	// ... and comes back
	for of, was := range restore {
		of.Available = was
	}
	// the edit; the hash controller re-stamps the NodePool right away unless the second wave is to run in between
	runHash := func() error {
		if in.Edit == nil {
			return nil
		}
		np := &v1.NodePool{}
		if err := c.Get(ctx, types.NamespacedName{Name: in.Edit.Pool}, np); err != nil {
			return nil
		}
		_, err := hashCtl.Reconcile(ctx, np)
		return err
	}
	if in.Edit != nil {
		np := &v1.NodePool{}
		if err := c.Get(ctx, types.NamespacedName{Name: in.Edit.Pool}, np); err == nil {
			applyEdit(np, in.Edit)
			if err := c.Update(ctx, np); err != nil {
				return nil, err
			}
		}
		if in.Wave2 != "before-hash" {
			if err := runHash(); err != nil {
				return nil, err
			}
		}
	}
	// the second wave: the provisioner schedules the (still pending) pods again, from the NodePools as they are stored now
	var launches2 []launch
	if in.Wave2 != "" {
		res2, err := w.Schedule()
		if err != nil {
			out.Err = "schedule-error"
			return out, nil
		}
		names2, _ := w.Prov.CreateNodeClaims(ctx, res2.NewNodeClaims, provisioning.WithReason("verif"))
		if launches2, err = prepare(res2, names2, "w2-", &out.Launches2); err != nil {
			return nil, err
		}
		for _, l := range launches2 {
			if err := launchOne(l); err != nil {
				return nil, err
			}
		}
		if in.Wave2 == "before-hash" {
			// the hash controller catches up with the edit
			if err := runHash(); err != nil {
				return nil, err
			}
		}
		for _, l := range launches2 {
			if err := driftOne(l, func(o *LaunchObs) **string { return &o.Fresh }); err != nil {
				return nil, err
			}
		}
	}
	if in.Edit != nil {
		for _, l := range launches {
			if err := driftOne(l, func(o *LaunchObs) **string { return &o.AfterEdit }); err != nil {
				return nil, err
			}
		}
	}
	for i := range out.Pools {
		np := &v1.NodePool{}
		if err := c.Get(ctx, types.NamespacedName{Name: out.Pools[i].Name}, np); err == nil {
			out.Pools[i].HashAfter, out.Pools[i].VersionAfer = getAnn(np, v1.NodePoolHashAnnotationKey), getAnn(np, v1.NodePoolHashVersionAnnotationKey)
		}
	}
	for _, l := range launches {
		out.Launches = append(out.Launches, *obs[l.name])
	}
	for _, l := range launches2 {
		out.Launches2 = append(out.Launches2, *obs[l.name])
	}
	return out, nil
}

// ---------- generator ----------

var selfOpts = world.GenOpts{InterPod: 0.05, NodeAffinity: 0.45, Existing: 0, Limits: 0, Weights: false, MaxPods: 5}

// custom (non well-known) label keys the pools constrain; "example.com/n" is numeric
func genCustomReqs(r *rand.Rand) []world.MinExpr {
	var out []world.MinExpr
	if r.Float64() < 0.45 {
		lo := r.IntN(5)
		switch r.IntN(5) {
		case 0:
			out = append(out, world.MinExpr{Key: "example.com/n", Op: "Gt", Values: []string{fmt.Sprint(lo)}})
		case 1:
			out = append(out, world.MinExpr{Key: "example.com/n", Op: "Lt", Values: []string{fmt.Sprint(lo + 1)}})
		case 2:
			out = append(out, world.MinExpr{Key: "example.com/n", Op: "Gte", Values: []string{fmt.Sprint(lo)}}, world.MinExpr{Key: "example.com/n", Op: "Lte", Values: []string{fmt.Sprint(lo + r.IntN(3))}})
		case 3:
			out = append(out, world.MinExpr{Key: "example.com/n", Op: "Gt", Values: []string{fmt.Sprint(lo)}}, world.MinExpr{Key: "example.com/n", Op: "Lt", Values: []string{fmt.Sprint(lo + 2 + r.IntN(3))}})
			if r.Float64() < 0.5 {
				out = append(out, world.MinExpr{Key: "example.com/n", Op: "NotIn", Values: []string{fmt.Sprint(lo + 1)}})
			}
		case 4:
			out = append(out, world.MinExpr{Key: "example.com/n", Op: "In", Values: []string{fmt.Sprint(lo), fmt.Sprint(lo + 1)}})
		}
	}
	if r.Float64() < 0.35 {
		switch r.IntN(4) {
		case 0:
			out = append(out, world.MinExpr{Key: "example.com/owner", Op: "In", Values: []string{pick(r, []string{"a", "b"}), "c"}})
		case 1:
			out = append(out, world.MinExpr{Key: "example.com/owner", Op: "Exists", Values: []string{}})
		case 2:
			out = append(out, world.MinExpr{Key: "example.com/owner", Op: "NotIn", Values: []string{"a"}})
		case 3:
			out = append(out, world.MinExpr{Key: "example.com/owner", Op: "DoesNotExist", Values: []string{}})
		}
	}
	return out
}

// rare scales the probability of generating an instance of a recorded finding down in the long sweep.
func rare(t core.Tier, p float64) float64 {
	if t == core.Thorough {
		return p / 8
	}
	return p
}

func genSelf(r *rand.Rand, t core.Tier) any {
	o := selfOpts
	o.Reserved = r.Float64() < 0.3
	s := world.GenScenario(r, o)
	s.Nodes = []world.Node{}
	for i := range s.Pools {
		s.Pools[i].Reqs = append(s.Pools[i].Reqs, genCustomReqs(r)...)
		if r.Float64() < 0.2 {
			// a template label on a key the NodePool also constrains: consistent with the requirement (a contradiction —
			// the recorded finding — only rarely)
			v := pick(r, []string{"a", "b", "c"})
			ok := true
			for _, e := range s.Pools[i].Reqs {
				if e.Key != "example.com/owner" {
					continue
				}
				switch e.Op {
				case "In":
					v = e.Values[r.IntN(len(e.Values))]
				case "NotIn":
					v = "b"
				case "DoesNotExist":
					ok = false
				}
			}
			if ok || r.Float64() < rare(t, 0.08) {
				s.Pools[i].Labels["example.com/owner"] = v
			}
			if r.Float64() < rare(t, 0.04) {
				s.Pools[i].Labels["example.com/owner"] = pick(r, []string{"a", "b", "c"})
			}
		}
		if r.Float64() < 0.1 {
			z := pick(r, world.Zones)
			for _, e := range s.Pools[i].Reqs {
				if e.Key == "topology.kubernetes.io/zone" && e.Op == "In" && r.Float64() >= rare(t, 0.1) {
					z = e.Values[r.IntN(len(e.Values))]
				}
			}
			s.Pools[i].Labels["topology.kubernetes.io/zone"] = z
		}
		if r.Float64() < 0.1 {
			s.Pools[i].Reqs = append(s.Pools[i].Reqs, world.MinExpr{Key: "kubernetes.io/arch", Op: pick(r, []string{"In", "NotIn", "Exists"}), Values: []string{"amd64"}})
			if e := &s.Pools[i].Reqs[len(s.Pools[i].Reqs)-1]; e.Op == "Exists" {
				e.Values = []string{}
			}
		}
	}
	// instance types that run two operating systems, and a NodePool that pins one of them by label (and requirement):
	// the NodeClaim's own label must win over whatever the provider answers for that key
	sloppy := false
	if r.Float64() < 0.15 {
		sloppy = true
		for i := range s.ITs {
			s.ITs[i].OS = []string{"linux", "windows"}
		}
		p := &s.Pools[r.IntN(len(s.Pools))]
		p.Labels["kubernetes.io/os"] = "windows"
		if r.Float64() < 0.7 {
			p.Reqs = append(p.Reqs, world.MinExpr{Key: "kubernetes.io/os", Op: pick(r, []string{"In", "NotIn"}), Values: []string{"windows"}})
			if e := &p.Reqs[len(p.Reqs)-1]; e.Op == "NotIn" {
				e.Values = []string{"linux"}
			}
		}
	}
	// pods that pull custom keys into the NodeClaim's requirements
	for i := range s.Pods {
		if r.Float64() < 0.35 {
			var e world.KExpr
			switch r.IntN(5) {
			case 0:
				// mostly exclusions that leave the NodePool's range a value; rarely (rarer still in the long sweep, so that the
				// recorded finding does not crowd the failure list) ones that can exhaust it
				e = world.KExpr{Key: "example.com/n", Op: "NotIn", Values: []string{fmt.Sprint(6 + r.IntN(3))}}
				if r.Float64() < rare(t, 0.12) {
					e.Values = []string{fmt.Sprint(r.IntN(6)), fmt.Sprint(r.IntN(6)), fmt.Sprint(r.IntN(6))}
				}
			case 1:
				e = world.KExpr{Key: "example.com/n", Op: "In", Values: []string{fmt.Sprint(r.IntN(6))}}
			case 2:
				e = world.KExpr{Key: "example.com/owner", Op: pick(r, []string{"In", "NotIn"}), Values: []string{pick(r, []string{"a", "b", "c"})}}
			case 3:
				e = world.KExpr{Key: "example.com/owner", Op: "Exists", Values: []string{}}
				if r.Float64() < rare(t, 0.25) {
					e.Op = "DoesNotExist"
				}
			case 4:
				e = world.KExpr{Key: "example.com/n", Op: pick(r, []string{"Gt", "Lt"}), Values: []string{fmt.Sprint(1 + r.IntN(5))}}
				if r.Float64() < rare(t, 0.05) {
					e = world.KExpr{Key: "example.com/n", Op: "Lt", Values: []string{"0"}} // only negative values: Any() cannot resolve it
				}
			}
			s.Pods[i].Required = [][]world.KExpr{{e}}
		}
	}
	in := SelfIn{Scn: *s, MaxOptions: 4, Sloppy: sloppy, WellKnown: sortedSet(v1.WellKnownLabels.UnsortedList()),
		ReservedLabels: sortedSet(cloudprovider.ReservedCapacityLabels.UnsortedList()), ReservationLabel: cloudprovider.ReservationIDLabel}
	if t == core.Thorough {
		in.MaxOptions = 0
	}
	if r.Float64() < 0.8 {
		e := &PoolEdit{Pool: pick(r, s.Pools).Name}
		switch x := r.Float64(); {
		case x < 0.35:
			e.Kind = pick(r, []string{"label", "annotation", "taint", "startupTaint", "tgp", "expireAfter"})
			e.Key, e.Value = "verif.example.com/edited", "yes"
		case x < 0.6:
			e.Kind = pick(r, []string{"weight", "limits", "budgets", "consolidateAfter"})
		default:
			e.Kind = "reqs"
			var pool *world.NodePool
			for i := range s.Pools {
				if s.Pools[i].Name == e.Pool {
					pool = &s.Pools[i]
				}
			}
			e.Reqs = append([]world.MinExpr{}, pool.Reqs...)
			switch r.IntN(6) {
			case 0: // drop one
				if len(e.Reqs) > 0 {
					i := r.IntN(len(e.Reqs))
					e.Reqs = append(append([]world.MinExpr{}, e.Reqs[:i]...), e.Reqs[i+1:]...)
				}
			case 1: // pin / exclude a zone
				e.Reqs = append(e.Reqs, world.MinExpr{Key: "topology.kubernetes.io/zone", Op: pick(r, []string{"In", "NotIn"}), Values: []string{pick(r, world.Zones)}})
			case 2:
				e.Reqs = append(e.Reqs, world.MinExpr{Key: "karpenter.sh/capacity-type", Op: pick(r, []string{"In", "NotIn"}), Values: []string{pick(r, []string{"spot", "on-demand"})}})
			case 3:
				e.Reqs = append(e.Reqs, world.MinExpr{Key: "node.kubernetes.io/instance-type", Op: pick(r, []string{"In", "NotIn"}), Values: []string{pick(r, s.ITs).Name}})
			case 4:
				e.Reqs = append(e.Reqs, world.MinExpr{Key: "example.com/n", Op: pick(r, []string{"Gt", "Lt", "In", "NotIn", "Exists"}), Values: []string{fmt.Sprint(r.IntN(6))}})
				if l := &e.Reqs[len(e.Reqs)-1]; l.Op == "Exists" {
					l.Values = []string{}
				}
			case 5:
				e.Reqs = append(e.Reqs, world.MinExpr{Key: "example.com/owner", Op: pick(r, []string{"In", "NotIn", "Exists", "DoesNotExist"}), Values: []string{pick(r, []string{"a", "b", "c"})}})
				if l := &e.Reqs[len(e.Reqs)-1]; l.Op == "Exists" || l.Op == "DoesNotExist" {
					l.Values = []string{}
				}
			}
		}
		in.Edit = e
	}
	// API writes failing while the NodeClaims are launched: each single write of the first reconcile (finalizer patch,
	// metadata patch, status patch), and two failures in a row — the launch is replayed from the lifecycle controller's cache
	if r.Float64() < 0.3 {
		in.LaunchFaults = pick(r, [][]int{{1}, {2}, {2}, {3}, {3}, {2, 1}, {2, 2}, {3, 1}, {3, 2}, {1, 2}, {1, 3}, {2, 1, 1}})
	}
	// capacity selling out between the launch and the instance-type check
	switch x := r.Float64(); {
	case x < 0.25:
		in.SoldOut = "launched"
	case x < 0.35:
		in.SoldOut = "all"
	}
	// the second wave: mostly in the window between the edit and the hash controller's run
	switch x := r.Float64(); {
	case in.Edit != nil && x < 0.4:
		in.Wave2 = "before-hash"
	case x < 0.55:
		in.Wave2 = "after-hash"
	}
	return in
}

func selfLabels(in *SelfIn, impl any) []string {
	l := []string{}
	m, _ := impl.(map[string]any)
	ls, _ := m["launches"].([]any)
	l = append(l, fmt.Sprintf("launches=%d", min(len(ls)/4*4, 16)))
	if in.Sloppy {
		l = append(l, "provider-answers-own-label")
	}
	if in.Edit != nil {
		l = append(l, "edit:"+in.Edit.Kind)
	} else {
		l = append(l, "edit:none")
	}
	if len(in.LaunchFaults) == 0 {
		l = append(l, "launch-faults:none")
	} else {
		l = append(l, "launch-faults:"+strings.Trim(strings.ReplaceAll(fmt.Sprint(in.LaunchFaults), " ", ","), "[]"))
	}
	if in.SoldOut == "" {
		l = append(l, "sold-out:none")
	} else {
		l = append(l, "sold-out:"+in.SoldOut)
	}
	seen := map[string]bool{}
	if in.Wave2 != "" {
		l = append(l, "wave2:"+in.Wave2)
		ls2, _ := m["launches2"].([]any)
		l = append(l, fmt.Sprintf("wave2-launches=%d", min(len(ls2)/4*4, 16)))
		hashed := in.Edit != nil && (in.Edit.Kind == "label" || in.Edit.Kind == "annotation" || in.Edit.Kind == "taint" || in.Edit.Kind == "startupTaint" || in.Edit.Kind == "tgp" || in.Edit.Kind == "expireAfter")
		for _, x := range ls2 {
			lm, _ := x.(map[string]any)
			if s, ok := lm["fresh"].(string); ok {
				seen["wave2-fresh:"+s] = true
			} else if b, _ := lm["launched"].(bool); b {
				seen["wave2-fresh:not-drifted"] = true
				if hashed && in.Wave2 == "before-hash" && lm["pool"] == in.Edit.Pool {
					seen["claim-created-between-hashed-edit-and-hash-controller"] = true
				}
			}
			if e, _ := lm["err"].(string); e != "" {
				seen["wave2-err:"+e] = true
			}
		}
	}
	for _, x := range ls {
		lm, _ := x.(map[string]any)
		for _, k := range []string{"fresh", "later", "afterEdit"} {
			if s, ok := lm[k].(string); ok {
				seen[k+":"+s] = true
			}
		}
		if e, _ := lm["err"].(string); e != "" {
			seen["err:"+e] = true
		}
		if es, _ := lm["errs"].([]any); len(es) > 1 {
			if b, _ := lm["launched"].(bool); b {
				if fmt.Sprint(lm["creates"]) == "1" {
					for _, e := range es {
						if failed, _ := e.(bool); failed {
							seen["launched-after-failed-write"] = true
						}
					}
				}
			}
		}
		if _, drifted := lm["later"].(string); !drifted && in.SoldOut != "" {
			if b, _ := lm["launched"].(bool); b {
				seen["instance-type-check-while-launch-offering-sold-out"] = true
			}
		}
		for _, kv := range asPairs(lm["labels"]) {
			if kv[0] == "example.com/n" || kv[0] == "example.com/owner" {
				seen["custom-label-resolved"] = true
			}
			if kv[0] == "karpenter.sh/capacity-type" && kv[1] == "reserved" {
				seen["reserved-launch"] = true
			}
		}
	}
	for k := range seen {
		l = append(l, k)
	}
	return l
}

func asPairs(v any) [][2]string {
	var out [][2]string
	xs, _ := v.([]any)
	for _, x := range xs {
		p, _ := x.([]any)
		if len(p) == 2 {
			a, _ := p[0].(string)
			b, _ := p[1].(string)
			out = append(out, [2]string{a, b})
		}
	}
	return out
}

func selfOp() *core.Op {
	return &core.Op{
		Name: "c15.selfdrift",
		Doc:  "end to end on the fake client: real hash controller -> real Provisioner.Schedule + CreateNodeClaims (NodeClaimTemplate.ToNodeClaim) -> every NodeClaim launched through the real lifecycle controller as each permitted (instance type, offering) (optionally through an API whose writes fail: the finalizer / metadata / status patch of the launch fails once or twice and the launch is replayed from the controller's cache of created instances) -> real disruption controller (fresh, and 2 h later when the instance-type check is due, optionally after the offerings the NodeClaims were launched into — or all offerings — have become unavailable while still listed) -> one NodePool edit (hashed field / non-drifting field / requirements) + hash controller -> disruption controller; optionally a SECOND scheduling pass after the edit, after or BEFORE the hash controller re-stamps the edited NodePool (NodeClaims built while the NodePool's annotation is behind its template), launched the same way and judged once the hash controller has caught up; drift verdicts judged by the specification and compared with the Lean drift model",
		N: func(t core.Tier) int {
			if t == core.Thorough {
				return 4000
			}
			return 400
		},
		Gen:  genSelf,
		Impl: implSelf,
		Rule: "non-trivial = at least one NodeClaim was launched",
		Nontrivial: func(raw json.RawMessage, impl any) bool {
			m, _ := impl.(map[string]any)
			ls, _ := m["launches"].([]any)
			for _, x := range ls {
				lm, _ := x.(map[string]any)
				if b, _ := lm["launched"].(bool); b {
					return true
				}
			}
			return false
		},
		Labels: func(raw json.RawMessage, impl any) []string {
			var in SelfIn
			json.Unmarshal(raw, &in)
			return selfLabels(&in, impl)
		},
		Signature: func(raw json.RawMessage, _ any) string { return "selfdrift" },
		Shrink: func(raw json.RawMessage) []any {
			var in SelfIn
			json.Unmarshal(raw, &in)
			var out []any
			for _, ps := range core.ShrinkList(in.Scn.Pods) {
				c := in
				c.Scn.Pods = ps
				out = append(out, c)
			}
			if len(in.Scn.Pools) > 1 {
				for i := range in.Scn.Pools {
					if in.Edit != nil && in.Edit.Pool == in.Scn.Pools[i].Name {
						continue
					}
					c := in
					c.Scn.Pools = append(append([]world.NodePool{}, in.Scn.Pools[:i]...), in.Scn.Pools[i+1:]...)
					out = append(out, c)
				}
			}
			for _, ds := range core.ShrinkList(in.Scn.DaemonSets) {
				c := in
				c.Scn.DaemonSets = ds
				out = append(out, c)
			}
			if len(in.Scn.ITs) > 1 {
				for _, its := range core.ShrinkList(in.Scn.ITs) {
					if len(its) == 0 {
						continue
					}
					c := in
					c.Scn.ITs = its
					out = append(out, c)
				}
			}
			if in.Edit != nil {
				c := in
				c.Edit = nil
				if c.Wave2 == "before-hash" {
					c.Wave2 = "after-hash"
				}
				out = append(out, c)
			}
			if in.Wave2 != "" {
				c := in
				c.Wave2 = ""
				out = append(out, c)
			}
			if len(in.LaunchFaults) > 0 {
				c := in
				c.LaunchFaults = in.LaunchFaults[:len(in.LaunchFaults)-1]
				out = append(out, c)
			}
			if in.SoldOut != "" {
				c := in
				c.SoldOut = ""
				out = append(out, c)
				if in.SoldOut == "all" {
					c.SoldOut = "launched"
					out = append(out, c)
				}
			}
			return out
		},
	}
}
