// Package reqgen: shared generators / encoders for scheduling.Requirement(s) used by several properties.
package reqgen

import (
	"fmt"
	"math/rand/v2"
	"sort"
	"strconv"

	corev1 "k8s.io/api/core/v1"

	"sigs.k8s.io/karpenter/pkg/scheduling"
)

// Expr is one node-selector expression `key op values` (the key is carried by the container).
type Expr struct {
	Op        string   `json:"op"`
	Values    []string `json:"values"`
	MinValues *int     `json:"minValues"`
}

// Snap is the canonical snapshot of a Requirement (via the verif hook VerifSnapshot).
type Snap struct {
	Key        string   `json:"key"`
	Complement bool     `json:"complement"`
	Values     []string `json:"values"`
	Gte        *int     `json:"gte"`
	Lte        *int     `json:"lte"`
	MinValues  *int     `json:"minValues"`
}

func SnapOf(r *scheduling.Requirement) Snap {
	s := r.VerifSnapshot()
	vals := s.Values
	if vals == nil {
		vals = []string{}
	}
	sort.Strings(vals)
	return Snap{Key: s.Key, Complement: s.Complement, Values: vals, Gte: s.Gte, Lte: s.Lte, MinValues: s.MinValues}
}

const (
	MaxIntS = "9223372036854775807"
	MinIntS = "-9223372036854775808"
)

// Universe is the small value universe used for exhaustive enumeration.
var Universe = []string{"", "a", "-3", "0", "2", "05", "7", MaxIntS, MinIntS}

// Numeric operands for Gt/Lt/Gte/Lte in the exhaustive enumeration.
var NumericOperands = []string{"-3", "0", "2", "05", "7", MaxIntS, MinIntS}

// Wide universe for random generation (includes malformed integers).
var WideUniverse = []string{"", "a", "b", "x", "-3", "0", "1", "2", "3", "4", "5", "05", "6", "7", "007", "+4", "1_0", " 1", "9223372036854775806", MaxIntS, MinIntS,
	"-9223372036854775807", "9223372036854775808", "-9223372036854775809", "3.5", "0x10", "spot", "on-demand", "zone-1", "zone-2"}

var Ops = []string{"In", "NotIn", "Exists", "DoesNotExist", "Gt", "Lt", "Gte", "Lte"}

func IsCmp(op string) bool { return op == "Gt" || op == "Lt" || op == "Gte" || op == "Lte" }

// New builds the real requirement for one expression.
func New(key string, e Expr) *scheduling.Requirement {
	vals := append([]string{}, e.Values...)
	return scheduling.NewRequirementWithFlexibility(key, corev1.NodeSelectorOperator(e.Op), e.MinValues, vals...)
}

// Build intersects the expressions left to right: New(e0).Intersection(New(e1))...
func Build(key string, es []Expr) *scheduling.Requirement {
	r := New(key, es[0])
	for _, e := range es[1:] {
		r = r.Intersection(New(key, e))
	}
	return r
}

// SingleExprs enumerates the small-scope single expressions: 8 operators x operand choices.
func SingleExprs() []Expr {
	var out []Expr
	// In / NotIn with subsets of size <= 2
	var subsets [][]string
	subsets = append(subsets, []string{})
	for i := range Universe {
		subsets = append(subsets, []string{Universe[i]})
		for j := i + 1; j < len(Universe); j++ {
			subsets = append(subsets, []string{Universe[i], Universe[j]})
		}
	}
	for _, op := range []string{"In", "NotIn"} {
		for _, s := range subsets {
			out = append(out, Expr{Op: op, Values: s})
		}
	}
	out = append(out, Expr{Op: "Exists", Values: []string{}}, Expr{Op: "DoesNotExist", Values: []string{}})
	for _, op := range []string{"Gt", "Lt", "Gte", "Lte"} {
		for _, n := range NumericOperands {
			out = append(out, Expr{Op: op, Values: []string{n}})
		}
	}
	return out
}

// RandExpr draws one expression; valid operands unless malformed is set.
func RandExpr(r *rand.Rand, malformed bool) Expr {
	op := Ops[r.IntN(len(Ops))]
	if malformed && r.Float64() < 0.1 {
		op = "Foo"
	}
	e := Expr{Op: op, Values: []string{}}
	if r.Float64() < 0.25 {
		mv := r.IntN(4)
		e.MinValues = &mv
	}
	switch {
	case op == "In" || op == "NotIn":
		n := r.IntN(4)
		for i := 0; i < n; i++ {
			e.Values = append(e.Values, WideUniverse[r.IntN(len(WideUniverse))])
		}
	case IsCmp(op):
		if malformed && r.Float64() < 0.3 {
			if r.Float64() < 0.5 {
				e.Values = []string{WideUniverse[r.IntN(len(WideUniverse))]} // possibly non-integer
			} // else: no operand at all (Go index panic)
		} else {
			e.Values = []string{randInt(r)}
		}
	case op == "Foo":
		if r.Float64() < 0.5 {
			e.Values = []string{"a"}
		}
	}
	return e
}

func randInt(r *rand.Rand) string {
	switch x := r.Float64(); {
	case x < 0.55:
		return strconv.Itoa(r.IntN(9) - 2)
	case x < 0.65:
		return "05"
	case x < 0.75:
		return MaxIntS
	case x < 0.85:
		return MinIntS
	case x < 0.9:
		return "9223372036854775806"
	case x < 0.95:
		return "-9223372036854775807"
	default:
		return strconv.Itoa(r.IntN(2000) - 1000)
	}
}

// Probes returns the probe values for a set of expressions: everything mentioned, boundary integers
// (as canonical and zero-padded strings) and a few fixed oddballs.
func Probes(ess ...[]Expr) []string {
	seen := map[string]bool{}
	var out []string
	add := func(s string) {
		if !seen[s] {
			seen[s] = true
			out = append(out, s)
		}
	}
	for _, s := range []string{"", "a", "zz", "0", "00", "-1", "3", MaxIntS, MinIntS, "9223372036854775808"} {
		add(s)
	}
	for _, es := range ess {
		for _, e := range es {
			for _, v := range e.Values {
				add(v)
				if n, err := strconv.Atoi(v); err == nil {
					for _, d := range []int{-1, 0, 1} {
						m := n + d
						if (d > 0 && m < n) || (d < 0 && m > n) {
							continue // wrapped
						}
						add(strconv.Itoa(m))
						if m >= 0 {
							add("0" + strconv.Itoa(m))
						} else {
							add("-0" + strconv.Itoa(m)[1:])
						}
					}
				}
			}
		}
	}
	return out
}

// Features summarises an expression list for histograms / signatures.
func Features(es []Expr) []string {
	var f []string
	hasNotIn, hasBound := false, false
	for _, e := range es {
		f = append(f, "op:"+e.Op)
		if e.Op == "NotIn" && len(e.Values) > 0 {
			hasNotIn = true
		}
		if IsCmp(e.Op) {
			hasBound = true
		}
		if e.MinValues != nil {
			f = append(f, "minValues")
		}
	}
	if hasNotIn && hasBound {
		f = append(f, "exclusions+bound")
	}
	f = append(f, fmt.Sprintf("exprs=%d", len(es)))
	return f
}
