package c04

import (
	"encoding/json"
	"os"
	"strconv"
	"sync/atomic"

	"verifharness/internal/world"
)

// Shrinking re-runs whole histories; a sweep spends at most shrinkRounds rounds per op on it (C04_SHRINK_ROUNDS
// overrides; the engine's own budget per failure still applies) so that the quick tier stays quick.
var shrinkRounds = func() int64 {
	if v, err := strconv.Atoi(os.Getenv("C04_SHRINK_ROUNDS")); err == nil {
		return int64(v)
	}
	return 30
}()

var passRounds, histRounds atomic.Int64

func cloneScn(s *world.Scenario) *world.Scenario {
	b, _ := json.Marshal(s)
	var c world.Scenario
	json.Unmarshal(b, &c)
	return &c
}

// shrinkScenario proposes structurally smaller scenarios (one removal each).
func shrinkScenario(s *world.Scenario) []*world.Scenario {
	var out []*world.Scenario
	edit := func(f func(c *world.Scenario) bool) {
		c := cloneScn(s)
		if f(c) {
			out = append(out, c)
		}
	}
	for i := range s.Pods {
		i := i
		edit(func(c *world.Scenario) bool { c.Pods = append(c.Pods[:i], c.Pods[i+1:]...); return len(c.Pods) > 0 })
	}
	for i := range s.Nodes {
		i := i
		edit(func(c *world.Scenario) bool { c.Nodes = append(c.Nodes[:i], c.Nodes[i+1:]...); return true })
		for j := range s.Nodes[i].Pods {
			j := j
			edit(func(c *world.Scenario) bool {
				c.Nodes[i].Pods = append(c.Nodes[i].Pods[:j], c.Nodes[i].Pods[j+1:]...)
				return true
			})
		}
		if len(s.Nodes[i].Taints) > 0 {
			edit(func(c *world.Scenario) bool { c.Nodes[i].Taints = nil; return true })
		}
	}
	for i := range s.DaemonSets {
		i := i
		edit(func(c *world.Scenario) bool {
			c.DaemonSets = append(c.DaemonSets[:i], c.DaemonSets[i+1:]...)
			return true
		})
	}
	if len(s.Pools) > 1 {
		for i := range s.Pools {
			i := i
			edit(func(c *world.Scenario) bool {
				name := c.Pools[i].Name
				for _, n := range c.Nodes {
					if n.Pool == name {
						return false
					}
				}
				c.Pools = append(c.Pools[:i], c.Pools[i+1:]...)
				return true
			})
		}
	}
	if len(s.ITs) > 1 {
		for i := range s.ITs {
			i := i
			edit(func(c *world.Scenario) bool {
				name := c.ITs[i].Name
				for _, n := range c.Nodes {
					if n.IT == name {
						return false
					}
				}
				c.ITs = append(c.ITs[:i], c.ITs[i+1:]...)
				return true
			})
		}
	}
	for i := range s.ITs {
		i := i
		if len(s.ITs[i].Offerings) > 1 {
			for j := range s.ITs[i].Offerings {
				j := j
				edit(func(c *world.Scenario) bool {
					o := c.ITs[i].Offerings[j]
					for _, n := range c.Nodes {
						if n.IT == c.ITs[i].Name && n.Zone == o.Zone && n.CapacityType == o.CapacityType {
							return false
						}
					}
					c.ITs[i].Offerings = append(c.ITs[i].Offerings[:j], c.ITs[i].Offerings[j+1:]...)
					return true
				})
			}
		}
	}
	for i := range s.Pools {
		i := i
		p := s.Pools[i]
		if len(p.Taints) > 0 {
			edit(func(c *world.Scenario) bool { c.Pools[i].Taints = nil; return true })
		}
		if len(p.StartupTaints) > 0 {
			edit(func(c *world.Scenario) bool { c.Pools[i].StartupTaints = nil; return true })
		}
		for j := range p.Reqs {
			j := j
			edit(func(c *world.Scenario) bool {
				c.Pools[i].Reqs = append(c.Pools[i].Reqs[:j], c.Pools[i].Reqs[j+1:]...)
				return true
			})
		}
		if len(p.Labels) > 0 {
			edit(func(c *world.Scenario) bool { c.Pools[i].Labels = map[string]string{}; return true })
		}
		if p.LimitCPU != nil {
			edit(func(c *world.Scenario) bool { c.Pools[i].LimitCPU = nil; return true })
		}
		if p.Weight != 0 {
			edit(func(c *world.Scenario) bool { c.Pools[i].Weight = 0; return true })
		}
	}
	for i := range s.Pods {
		i := i
		p := s.Pods[i]
		if len(p.NodeSelector) > 0 {
			edit(func(c *world.Scenario) bool { c.Pods[i].NodeSelector = nil; return true })
		}
		for j := range p.Required {
			j := j
			edit(func(c *world.Scenario) bool {
				c.Pods[i].Required = append(c.Pods[i].Required[:j], c.Pods[i].Required[j+1:]...)
				return true
			})
			if len(p.Required[j]) > 1 {
				for k := range p.Required[j] {
					k := k
					edit(func(c *world.Scenario) bool {
						c.Pods[i].Required[j] = append(c.Pods[i].Required[j][:k], c.Pods[i].Required[j][k+1:]...)
						return true
					})
				}
			}
		}
		if len(p.Preferred) > 0 {
			edit(func(c *world.Scenario) bool { c.Pods[i].Preferred = nil; return true })
		}
		if len(p.Tolerations) > 0 {
			edit(func(c *world.Scenario) bool { c.Pods[i].Tolerations = nil; return true })
		}
		if len(p.HostPorts) > 0 {
			edit(func(c *world.Scenario) bool { c.Pods[i].HostPorts = nil; return true })
		}
		if len(p.Affinity) > 0 {
			edit(func(c *world.Scenario) bool { c.Pods[i].Affinity = nil; return true })
		}
		if len(p.Spreads) > 0 {
			edit(func(c *world.Scenario) bool { c.Pods[i].Spreads = nil; return true })
		}
	}
	if s.IgnorePrefs {
		edit(func(c *world.Scenario) bool { c.IgnorePrefs = false; return true })
	}
	if s.BestEffortMinVal {
		edit(func(c *world.Scenario) bool { c.BestEffortMinVal = false; return true })
	}
	if s.Parallelism > 1 {
		edit(func(c *world.Scenario) bool { c.Parallelism = 1; return true })
	}
	return out
}

func shrinkPass(raw json.RawMessage) []any {
	if passRounds.Add(1) > shrinkRounds {
		return nil
	}
	var s world.Scenario
	if json.Unmarshal(raw, &s) != nil {
		return nil
	}
	var out []any
	for _, c := range shrinkScenario(&s) {
		out = append(out, c)
	}
	return out
}

func shrinkHistory(raw json.RawMessage) []any {
	if histRounds.Add(1) > shrinkRounds {
		return nil
	}
	var in HistIn
	if json.Unmarshal(raw, &in) != nil {
		return nil
	}
	var out []any
	for _, c := range shrinkScenario(&in.Scn) {
		n := in
		n.Scn = *c
		out = append(out, n)
	}
	k := in.Kubelet
	if k.NoStatus || k.NotReadyTaint || k.FullTaints || k.BareLabels || len(k.ZeroAlloc) > 0 {
		n := in
		n.Kubelet = Kubelet{ZeroAlloc: []string{}}
		out = append(out, n)
	}
	if in.Gate {
		n := in
		n.Gate = false
		out = append(out, n)
	}
	if in.MarkStage != "" {
		n := in
		n.MarkStage = ""
		out = append(out, n)
	}
	if len(in.Launch) > 4 {
		n := in
		n.Launch = in.Launch[:4]
		n.Names = in.Names[:min(4, len(in.Names))]
		out = append(out, n)
	}
	return out
}
