package c04

import (
	"context"
	"encoding/json"
	"fmt"
	"math/rand/v2"
	"sort"
	"time"

	corev1 "k8s.io/api/core/v1"
	metav1 "k8s.io/apimachinery/pkg/apis/meta/v1"
	"k8s.io/apimachinery/pkg/types"
	clock "k8s.io/utils/clock/testing"

	v1 "sigs.k8s.io/karpenter/pkg/apis/v1"
	fakecp "sigs.k8s.io/karpenter/pkg/cloudprovider/fake"
	"sigs.k8s.io/karpenter/pkg/controllers/state"
	"sigs.k8s.io/karpenter/pkg/operator/options"
	"sigs.k8s.io/karpenter/pkg/test"

	"verifharness/internal/core"
	"verifharness/internal/world"
)

// c04.synced: histories of NodeClaim / Node events against the real state.Cluster and the fake API; after every event
// the verdict of Cluster.Synced is compared with the model, and with the independent observation
// Cluster.UnlaunchedNodeClaimExists ("Synced may be true only if no tracked NodeClaim is unlaunched").
//
// ops: "api-claim:N"   a NodeClaim N appears in the API only (created by someone, not yet seen by cluster state)
//      "create:N"      what Provisioner.Create does: API create, then Cluster.UpdateNodeClaim with an empty provider id
//      "see-claim:N"   the state informer delivers NodeClaim N (Cluster.UpdateNodeClaim with whatever the API holds)
//      "launch:N"      the lifecycle controller records the provider id in the API (status update)
//      "del-claim:N"   NodeClaim N is deleted from the API and the informer calls Cluster.DeleteNodeClaim
//      "api-node:N"    a Node appears in the API only;  "see-node:N" the informer delivers it;  "del-node:N"
//      "unsync"        Cluster.SetSynced(false) (a restart: the next check compares with the API again)

type SyncedIn struct {
	Ops []string `json:"ops"`
}

type SyncedOut struct {
	Synced     []bool     `json:"synced"`     // Cluster.Synced after every op
	Unlaunched [][]string `json:"unlaunched"` // names for which Cluster.UnlaunchedNodeClaimExists, after every op
}

func splitOp(s string) (string, string) {
	for i := 0; i < len(s); i++ {
		if s[i] == ':' {
			return s[:i], s[i+1:]
		}
	}
	return s, ""
}

var syncNames = []string{"a", "b", "c"}

func implSynced(raw json.RawMessage) (any, error) {
	var in SyncedIn
	if err := json.Unmarshal(raw, &in); err != nil {
		return nil, err
	}
	ctx := options.ToContext(context.Background(), test.Options())
	clk := clock.NewFakeClock(world.T0)
	c := world.NewClient()
	cp := fakecp.NewCloudProvider()
	cluster := state.NewCluster(clk, c, cp)
	out := SyncedOut{Synced: []bool{}, Unlaunched: [][]string{}}
	uid := 0
	getClaim := func(n string) *v1.NodeClaim {
		nc := &v1.NodeClaim{}
		if err := c.Get(ctx, types.NamespacedName{Name: "claim-" + n}, nc); err != nil {
			return nil
		}
		return nc
	}
	mkClaim := func(n string) *v1.NodeClaim {
		uid++
		nc := test.NodeClaim(v1.NodeClaim{ObjectMeta: metav1.ObjectMeta{Name: "claim-" + n, UID: types.UID(fmt.Sprintf("nc-%d", uid)),
			CreationTimestamp: metav1.NewTime(world.T0.Add(time.Duration(uid) * time.Second)), Labels: map[string]string{v1.NodePoolLabelKey: "pool-0"}}})
		nc.Status.ProviderID = "" // test.NodeClaim fills in a random provider id; a fresh NodeClaim has none
		return nc
	}
	for _, op := range in.Ops {
		kind, n := splitOp(op)
		switch kind {
		case "api-claim":
			if getClaim(n) == nil {
				if err := c.Create(ctx, mkClaim(n)); err != nil {
					return nil, err
				}
			}
		case "create":
			if getClaim(n) == nil {
				nc := mkClaim(n)
				if err := c.Create(ctx, nc); err != nil {
					return nil, err
				}
				cluster.UpdateNodeClaim(nc)
			}
		case "see-claim":
			if nc := getClaim(n); nc != nil {
				cluster.UpdateNodeClaim(nc)
			}
		case "launch":
			if nc := getClaim(n); nc != nil && nc.Status.ProviderID == "" {
				nc.Status.ProviderID = "fake:///" + n
				_ = c.Status().Update(ctx, nc)
			}
		case "del-claim":
			if nc := getClaim(n); nc != nil {
				nc.Finalizers = nil
				_ = c.Update(ctx, nc)
				_ = c.Delete(ctx, nc)
			}
			cluster.DeleteNodeClaim("claim-" + n)
		case "api-node", "see-node":
			node := &corev1.Node{}
			err := c.Get(ctx, types.NamespacedName{Name: "node-" + n}, node)
			if err != nil {
				if kind == "see-node" {
					break
				}
				uid++
				node = &corev1.Node{ObjectMeta: metav1.ObjectMeta{Name: "node-" + n, UID: types.UID(fmt.Sprintf("node-%d", uid)), Labels: map[string]string{corev1.LabelInstanceTypeStable: "it-0"}},
					Spec: corev1.NodeSpec{ProviderID: "fake:///" + n}}
				_ = c.Create(ctx, node)
			}
			if kind == "see-node" {
				_ = cluster.UpdateNode(ctx, node)
			}
		case "del-node":
			node := &corev1.Node{}
			if err := c.Get(ctx, types.NamespacedName{Name: "node-" + n}, node); err == nil {
				_ = c.Delete(ctx, node)
			}
			cluster.DeleteNode("node-" + n)
		case "unsync":
			cluster.SetSynced(false)
		default:
			return nil, fmt.Errorf("bad op %q", op)
		}
		out.Synced = append(out.Synced, cluster.Synced(ctx))
		un := []string{}
		for _, x := range syncNames {
			if cluster.UnlaunchedNodeClaimExists("claim-" + x) {
				un = append(un, x)
			}
		}
		sort.Strings(un)
		out.Unlaunched = append(out.Unlaunched, un)
	}
	return out, nil
}

func genSynced(r *rand.Rand, t core.Tier) any {
	n := 2 + r.IntN(14)
	if t == core.Thorough {
		n = 2 + r.IntN(40)
	}
	kinds := []string{"create", "create", "launch", "launch", "see-claim", "see-claim", "api-claim", "del-claim", "api-node", "see-node", "del-node"}
	ops := make([]string, 0, n)
	for i := 0; i < n; i++ {
		if r.Float64() < 0.05 {
			ops = append(ops, "unsync")
			continue
		}
		ops = append(ops, kinds[r.IntN(len(kinds))]+":"+syncNames[r.IntN(len(syncNames))])
	}
	return SyncedIn{Ops: ops}
}

// enumSynced: every history of length <= 4 over one NodeClaim name and the ops that matter for the gate.
func enumSynced(t core.Tier) []any {
	alphabet := []string{"create:a", "api-claim:a", "see-claim:a", "launch:a", "del-claim:a", "unsync"}
	var out []any
	var rec func(prefix []string, depth int)
	rec = func(prefix []string, depth int) {
		if len(prefix) > 0 {
			out = append(out, SyncedIn{Ops: append([]string{}, prefix...)})
		}
		if depth == 0 {
			return
		}
		for _, a := range alphabet {
			rec(append(prefix, a), depth-1)
		}
	}
	rec(nil, 4)
	return out
}

func syncedOp() *core.Op {
	return &core.Op{
		Name: "c04.synced",
		Doc:  "histories of NodeClaim/Node events (API only, Provisioner.Create-style create, informer delivery, launch, delete, restart) against the real state.Cluster: Cluster.Synced after every event vs the model Karp.Provision.Sync; spec = Synced is never true while Cluster.UnlaunchedNodeClaimExists for some NodeClaim",
		N:    func(t core.Tier) int { return map[core.Tier]int{core.Quick: 1500, core.Thorough: 20000}[t] },
		Gen:  genSynced,
		Enum: enumSynced,
		Impl: implSynced,
		Rule: "non-trivial = at some point of the history a tracked NodeClaim was unlaunched; all histories of length <= 4 over {create, api-claim, see-claim, launch, del-claim, unsync} on one NodeClaim are enumerated",
		Nontrivial: func(raw json.RawMessage, impl any) bool {
			m, _ := impl.(map[string]any)
			u, _ := m["unlaunched"].([]any)
			for _, x := range u {
				if l, _ := x.([]any); len(l) > 0 {
					return true
				}
			}
			return false
		},
		Labels: func(raw json.RawMessage, impl any) []string {
			var in SyncedIn
			json.Unmarshal(raw, &in)
			l := []string{fmt.Sprintf("len<=%d", ((len(in.Ops)/5)+1)*5)}
			seen := map[string]bool{}
			for _, o := range in.Ops {
				k, _ := splitOp(o)
				if !seen[k] {
					seen[k] = true
					l = append(l, "op:"+k)
				}
			}
			return l
		},
		Signature: func(raw json.RawMessage, impl any) string { return "synced" },
		Shrink: func(raw json.RawMessage) []any {
			var in SyncedIn
			json.Unmarshal(raw, &in)
			var out []any
			for _, c := range core.ShrinkList(in.Ops) {
				out = append(out, SyncedIn{Ops: c})
			}
			return out
		},
		ExhaustiveNote: "all event histories of length <= 4 on one NodeClaim over {create, api-claim, see-claim, launch, del-claim, unsync}",
	}
}
