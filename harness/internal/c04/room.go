package c04

import (
	"encoding/json"
	"fmt"
	"math/rand/v2"
	"sort"
	"sync/atomic"

	corev1 "k8s.io/api/core/v1"
	storagev1 "k8s.io/api/storage/v1"
	metav1 "k8s.io/apimachinery/pkg/apis/meta/v1"
	"k8s.io/apimachinery/pkg/types"

	"verifharness/internal/core"
	"verifharness/internal/world"
)

// c04.room: "could the existing node have admitted the pod?" where the answer hangs on something OTHER than plain labels /
// taints / requests of the pod itself:
//   - the node does not carry every well-known label (nodes Karpenter does not manage have no karpenter.sh/capacity-type,
//     often no zone / instance-type / arch / os label) while DaemonSets select on exactly those labels: a DaemonSet whose
//     selector needs a label the node lacks never runs there, so nothing may be reserved for it;
//   - the pod mounts PersistentVolumeClaims whose topology is an OR of several terms (StorageClass allowedTopologies, PV
//     node affinity): the node has to satisfy SOME term of every volume, not the first one.

// RoomIn is one single-pass scenario plus the well-known labels that some Node objects do not carry.
type RoomIn struct {
	Scn world.Scenario `json:"scenario"`
	// Absent lists [node name, label key] pairs: the Node object of that (unmanaged) node lacks the label
	Absent [][2]string `json:"absent"`
	// Limits: the CSINode object of that node reports this attach limit (allocatable count) for the CSI driver of the world
	Limits []NodeLimit `json:"limits"`
}

// NodeLimit is the attach limit a node's CSINode reports for the driver all volumes of the world belong to.
type NodeLimit struct {
	Node  string `json:"node"`
	Count int32  `json:"count"`
}

const csiDriver = "verif.csi.example.com"

// strippable: the well-known labels a node that Karpenter does not manage may lack
var strippable = []string{"karpenter.sh/capacity-type", corev1.LabelTopologyZone, corev1.LabelInstanceTypeStable, corev1.LabelArchStable, corev1.LabelOSStable}

func implRoom(raw json.RawMessage) (any, error) {
	var in RoomIn
	if err := json.Unmarshal(raw, &in); err != nil {
		return nil, err
	}
	h, err := newHist(&HistIn{Scn: in.Scn})
	if err != nil {
		return nil, err
	}
	// the Node objects lose the labels, and the REAL state informer (informer.NodeController.Reconcile ->
	// Cluster.UpdateNode) delivers the change
	touched := map[string]bool{}
	for _, a := range in.Absent {
		node := &corev1.Node{}
		if err := h.c.Get(h.w.Ctx, types.NamespacedName{Name: a[0]}, node); err != nil {
			return nil, fmt.Errorf("absent label on unknown node %s: %w", a[0], err)
		}
		delete(node.Labels, a[1])
		if err := h.c.Update(h.w.Ctx, node); err != nil {
			return nil, err
		}
		touched[a[0]] = true
	}
	// CSINode objects with the driver's attach limit; the real informer rebuilds the state node (populateVolumeLimits)
	for _, l := range in.Limits {
		cnt := l.Count
		csi := &storagev1.CSINode{ObjectMeta: metav1.ObjectMeta{Name: l.Node, UID: types.UID("csinode-" + l.Node)},
			Spec: storagev1.CSINodeSpec{Drivers: []storagev1.CSINodeDriver{{Name: csiDriver, NodeID: l.Node, Allocatable: &storagev1.VolumeNodeResources{Count: &cnt}}}}}
		if err := h.c.Create(h.w.Ctx, csi); err != nil {
			return nil, err
		}
		touched[l.Node] = true
	}
	names := []string{}
	for n := range touched {
		names = append(names, n)
	}
	sort.Strings(names)
	for _, n := range names {
		if err := h.syncNode(n); err != nil {
			return nil, err
		}
	}
	h.w.Cluster.SetSynced(true)
	p, _ := h.pass("single")
	return p, nil
}

var roomOpts = world.GenOpts{InterPod: 0.06, NodeAffinity: 0.3, Existing: 1.0, Limits: 0.1, MaxPods: 6}

func podCPU(ps []world.Pod) int64 {
	var t int64
	for _, p := range ps {
		t += p.CPU
	}
	return t
}

func itOf(s *world.Scenario, name string) *world.IT {
	for i := range s.ITs {
		if s.ITs[i].Name == name {
			return &s.ITs[i]
		}
	}
	return nil
}

func makePlain(p *world.Pod) {
	p.Affinity, p.Spreads, p.Preferred = nil, nil, nil
	p.NodeSelector, p.Required = nil, nil
	p.HostPorts = nil
	p.Tolerations = []world.Toleration{{Operator: "Exists"}}
}

// bareNodes: some nodes are not managed by Karpenter and lack well-known labels; DaemonSets select on well-known labels
// (the value the node would have had, or another one) with requests that decide whether a pending pod still fits.
func bareNodes(r *rand.Rand, in *RoomIn) {
	s := &in.Scn
	if len(s.Nodes) == 0 {
		return
	}
	absent := map[[2]string]bool{}
	for i := range s.Nodes {
		n := &s.Nodes[i]
		if n.Pool != "" && r.Float64() < 0.5 {
			// the node becomes one that Karpenter does not manage (e.g. a managed node group)
			n.Pool, n.Stage, n.Deleting = "", "initialized", false
		}
		if n.Pool != "" {
			continue
		}
		switch x := r.Float64(); {
		case x < 0.15:
			// carries everything
		case x < 0.5:
			absent[[2]string{n.Name, "karpenter.sh/capacity-type"}] = true
		default:
			for _, k := range strippable {
				if r.Float64() < 0.45 {
					absent[[2]string{n.Name, k}] = true
				}
			}
		}
	}
	for a := range absent {
		in.Absent = append(in.Absent, a)
	}
	sort.Slice(in.Absent, func(i, j int) bool {
		if in.Absent[i][0] != in.Absent[j][0] {
			return in.Absent[i][0] < in.Absent[j][0]
		}
		return in.Absent[i][1] < in.Absent[j][1]
	})
	// DaemonSets that select on well-known labels
	nd := 1 + r.IntN(2)
	if r.Float64() < 0.5 {
		s.DaemonSets = nil
	}
	for i := 0; i < nd; i++ {
		n := s.Nodes[r.IntN(len(s.Nodes))]
		ds := world.DaemonSet{Name: fmt.Sprintf("ds-w%d", i), CPU: int64(250 * (1 + r.IntN(8))), Mem: int64(64 * (1 + r.IntN(4))), Tolerations: []world.Toleration{{Operator: "Exists"}}}
		if r.Float64() < 0.2 {
			ds.Tolerations = nil
		}
		val := map[string]string{"karpenter.sh/capacity-type": n.CapacityType, corev1.LabelTopologyZone: n.Zone, corev1.LabelInstanceTypeStable: n.IT,
			corev1.LabelArchStable: "amd64", corev1.LabelOSStable: "linux"}
		k := strippable[r.IntN(len(strippable))]
		if r.Float64() < 0.45 {
			k = "karpenter.sh/capacity-type"
		}
		v := val[k]
		if r.Float64() < 0.2 {
			switch k {
			case "karpenter.sh/capacity-type":
				v = pickS(r, []string{"spot", "on-demand"})
			case corev1.LabelTopologyZone:
				v = pickS(r, world.Zones)
			case corev1.LabelInstanceTypeStable:
				v = s.ITs[r.IntN(len(s.ITs))].Name
			}
		}
		ds.NodeSelector = map[string]string{k: v}
		if r.Float64() < 0.15 {
			ds.NodeSelector["team"] = pickS(r, []string{"red", "blue"})
		}
		s.DaemonSets = append(s.DaemonSets, ds)
	}
	// pending pods of the property's class sized around what the nodes have left with / without those reservations
	for i := range s.Pods {
		if r.Float64() < 0.6 {
			n := s.Nodes[r.IntN(len(s.Nodes))]
			it := itOf(s, n.IT)
			if it == nil {
				continue
			}
			free := it.CPU - it.Overhead - podCPU(n.Pods)
			var dsum int64
			for _, d := range s.DaemonSets {
				dsum += d.CPU
			}
			if free <= 100 {
				continue
			}
			makePlain(&s.Pods[i])
			cpu := free - r.Int64N(dsum+1)
			if r.Float64() < 0.3 {
				cpu = free
			}
			if cpu < 100 {
				cpu = 100
			}
			s.Pods[i].CPU = cpu
			s.Pods[i].Mem = 64
		}
	}
}

// laterTermVolumes: plain pods mount a claim whose topology has several OR-ed terms (a PersistentVolume with several node
// affinity terms, or an unbound claim of a StorageClass with several allowedTopologies) and an existing node satisfies one
// of the terms - the first, a later one, or none.
func laterTermVolumes(r *rand.Rand, in *RoomIn) {
	s := &in.Scn
	if len(s.Nodes) == 0 || len(s.Pods) == 0 {
		return
	}
	zoneKey := corev1.LabelTopologyZone
	term := func(z string) []world.KExpr { return []world.KExpr{{Key: zoneKey, Op: "In", Values: []string{z}}} }
	have := map[string]bool{}
	for _, sc := range s.StorageClasses {
		have[sc.Name] = true
	}
	seq := len(s.PVCs) + 100
	for i := range s.Pods {
		if r.Float64() > 0.5 {
			continue
		}
		p := &s.Pods[i]
		n := s.Nodes[r.IntN(len(s.Nodes))]
		// zones of the terms: a permutation in which the node's zone comes first, later, or not at all
		perm := r.Perm(len(world.Zones))
		var zs []string
		for _, j := range perm {
			zs = append(zs, world.Zones[j])
		}
		k := 2 + r.IntN(2)
		zs = zs[:k]
		if r.Float64() < 0.6 {
			// the node's zone is a LATER term
			out := []string{}
			for _, z := range zs {
				if z != n.Zone {
					out = append(out, z)
				}
			}
			pos := 1
			if len(out) > 1 {
				pos = 1 + r.IntN(len(out))
			}
			if len(out) == 0 {
				continue
			}
			zs = append(append(append([]string{}, out[:pos]...), n.Zone), out[pos:]...)
		}
		var terms [][]world.KExpr
		for _, z := range zs {
			terms = append(terms, term(z))
		}
		if r.Float64() < 0.7 {
			makePlain(p)
			if it := itOf(s, n.IT); it != nil {
				free := it.CPU - it.Overhead - podCPU(n.Pods)
				if free >= 200 {
					p.CPU = 100 * (1 + r.Int64N(free/200))
					p.Mem = 64
				}
			}
		}
		seq++
		claim := world.PVC{Name: fmt.Sprintf("claim-x%d", seq), Namespace: p.Namespace}
		if r.Float64() < 0.5 {
			pv := world.PV{Name: fmt.Sprintf("pv-x%d", seq), Terms: terms}
			claim.VolumeName = pv.Name
			s.PVs = append(s.PVs, pv)
		} else {
			sc := world.StorageClass{Name: fmt.Sprintf("sc-x%d", seq), Topologies: terms}
			claim.StorageClass = sc.Name
			s.StorageClasses = append(s.StorageClasses, sc)
		}
		s.PVCs = append(s.PVCs, claim)
		p.Volumes = append(p.Volumes, world.Volume{Name: fmt.Sprintf("vx-%d", len(p.Volumes)), Claim: claim.Name})
	}
}

// attachLimits: nodes report a CSI attach limit at or just above the number of distinct volumes their running pods use, and
// pending pods of the property's class mount a claim that is ALREADY in use on the node (a shared claim: the set of attached
// volumes does not grow), a new claim, or both; a second pending pod may mount the same claim again.
func attachLimits(r *rand.Rand, in *RoomIn) {
	s := &in.Scn
	if len(s.Pods) == 0 {
		return
	}
	seq := len(s.PVCs) + 500
	newClaim := func() string {
		seq++
		claim := world.PVC{Name: fmt.Sprintf("claim-l%d", seq)}
		if r.Float64() < 0.6 {
			pv := world.PV{Name: fmt.Sprintf("pv-l%d", seq)}
			claim.VolumeName = pv.Name
			s.PVs = append(s.PVs, pv)
		} else {
			have := false
			for _, sc := range s.StorageClasses {
				if sc.Name == "sc-free" {
					have = true
				}
			}
			if !have {
				s.StorageClasses = append(s.StorageClasses, world.StorageClass{Name: "sc-free"})
			}
			claim.StorageClass = "sc-free"
		}
		s.PVCs = append(s.PVCs, claim)
		return claim.Name
	}
	distinct := func(ps []world.Pod) []string {
		seen := map[string]bool{}
		var out []string
		for _, p := range ps {
			for _, v := range p.Volumes {
				if !seen[v.Claim] {
					seen[v.Claim] = true
					out = append(out, v.Claim)
				}
			}
		}
		return out
	}
	pi := 0
	for i := range s.Nodes {
		n := &s.Nodes[i]
		if n.Stage == "claim" || n.Stage == "node" || n.Deleting || r.Float64() < 0.3 {
			continue
		}
		it := itOf(s, n.IT)
		if it == nil {
			continue
		}
		// the running pods live in the default namespace and use one to three claims
		for j := range n.Pods {
			n.Pods[j].Namespace = ""
		}
		if len(n.Pods) == 0 {
			if it.CPU-it.Overhead < 300 || it.Pods < 3 {
				continue
			}
			n.Pods = append(n.Pods, world.Pod{Name: fmt.Sprintf("vbound-%d", i), Labels: map[string]string{"app": "v"}, CPU: 100, Mem: 64,
				Tolerations: []world.Toleration{{Operator: "Exists"}}})
		}
		k := 1 + r.IntN(3)
		for j := 0; j < k; j++ {
			b := &n.Pods[r.IntN(len(n.Pods))]
			if b.Daemon {
				continue
			}
			b.Volumes = append(b.Volumes, world.Volume{Name: fmt.Sprintf("vl-%d", len(b.Volumes)), Claim: newClaim()})
		}
		used := distinct(n.Pods)
		if len(used) == 0 {
			continue
		}
		in.Limits = append(in.Limits, NodeLimit{Node: n.Name, Count: int32(len(used) + []int{0, 0, 1, 2}[r.IntN(4)])})
		// pending pods that fit the node's requests
		free := it.CPU - it.Overhead - podCPU(n.Pods)
		for m := 0; m < 1+r.IntN(2) && pi < len(s.Pods); m++ {
			p := &s.Pods[pi]
			pi++
			makePlain(p)
			p.Namespace = ""
			p.Volumes = nil
			if free >= 200 {
				p.CPU = 100
				p.Mem = 64
			}
			switch x := r.Float64(); {
			case x < 0.5:
				p.Volumes = append(p.Volumes, world.Volume{Name: "vs-0", Claim: used[r.IntN(len(used))]})
			case x < 0.75:
				p.Volumes = append(p.Volumes, world.Volume{Name: "vs-0", Claim: used[r.IntN(len(used))]}, world.Volume{Name: "vs-1", Claim: newClaim()})
			default:
				p.Volumes = append(p.Volumes, world.Volume{Name: "vs-0", Claim: newClaim()})
			}
		}
	}
	if in.Limits == nil {
		in.Limits = []NodeLimit{}
	}
}

func genRoom(r *rand.Rand, t core.Tier) any {
	s := world.GenScenario(r, roomOpts)
	singleTerm(r, s)
	in := RoomIn{Absent: [][2]string{}, Limits: []NodeLimit{}}
	// replicas share slices: give every pod its own copy before editing single pods
	for i := range s.Pods {
		s.Pods[i] = world.ClonePod(s.Pods[i])
	}
	in.Scn = *s
	x := r.Float64()
	if x < 0.25 {
		world.DecorateVolumes(r, &in.Scn)
	}
	if x < 0.6 {
		laterTermVolumes(r, &in)
	}
	if x >= 0.45 {
		bareNodes(r, &in)
	}
	if r.Float64() < 0.3 {
		attachLimits(r, &in)
	}
	return in
}

var roomRounds atomic.Int64

func shrinkRoom(raw json.RawMessage) []any {
	if roomRounds.Add(1) > shrinkRounds {
		return nil
	}
	var in RoomIn
	if json.Unmarshal(raw, &in) != nil {
		return nil
	}
	var out []any
	for _, c := range shrinkScenario(&in.Scn) {
		n := RoomIn{Scn: *c, Absent: [][2]string{}, Limits: []NodeLimit{}}
		names := map[string]bool{}
		for _, nd := range c.Nodes {
			names[nd.Name] = true
		}
		for _, l := range in.Limits {
			if names[l.Node] {
				n.Limits = append(n.Limits, l)
			}
		}
		for _, a := range in.Absent {
			if names[a[0]] {
				n.Absent = append(n.Absent, a)
			}
		}
		out = append(out, n)
	}
	for i := range in.Absent {
		n := RoomIn{Scn: in.Scn, Absent: [][2]string{}, Limits: in.Limits}
		n.Absent = append(n.Absent, in.Absent[:i]...)
		n.Absent = append(n.Absent, in.Absent[i+1:]...)
		out = append(out, n)
	}
	for i := range in.Scn.Pods {
		if len(in.Scn.Pods[i].Volumes) > 0 {
			c := cloneScn(&in.Scn)
			c.Pods[i].Volumes = nil
			out = append(out, RoomIn{Scn: *c, Absent: in.Absent, Limits: in.Limits})
		}
	}
	for i := range in.Limits {
		n := RoomIn{Scn: in.Scn, Absent: in.Absent, Limits: []NodeLimit{}}
		n.Limits = append(n.Limits, in.Limits[:i]...)
		n.Limits = append(n.Limits, in.Limits[i+1:]...)
		out = append(out, n)
	}
	return out
}

func roomLabels(raw json.RawMessage, impl any) []string {
	var in RoomIn
	json.Unmarshal(raw, &in)
	m, _ := impl.(map[string]any)
	o, _ := m["outcome"].(map[string]any)
	c, _ := o["claims"].([]any)
	e, _ := o["existing"].([]any)
	l := []string{fmt.Sprintf("nodes=%d", min(len(in.Scn.Nodes), 4)), fmt.Sprintf("new-claims=%d", min(len(c), 4)), fmt.Sprintf("existing-placements=%d", min(len(e), 3))}
	if len(in.Absent) > 0 {
		l = append(l, "node-lacks-well-known-label")
		seen := map[string]bool{}
		for _, a := range in.Absent {
			if !seen[a[1]] {
				seen[a[1]] = true
				l = append(l, "absent:"+a[1])
			}
		}
	}
	unmanaged := false
	for _, n := range in.Scn.Nodes {
		if n.Pool == "" {
			unmanaged = true
		}
	}
	if unmanaged {
		l = append(l, "unmanaged-node")
	}
	abs := map[[2]string]bool{}
	for _, a := range in.Absent {
		abs[a] = true
	}
	dsAbs := false
	for _, d := range in.Scn.DaemonSets {
		for k := range d.NodeSelector {
			for _, n := range in.Scn.Nodes {
				if abs[[2]string{n.Name, k}] {
					dsAbs = true
				}
			}
		}
	}
	if dsAbs {
		l = append(l, "daemonset-selects-absent-label")
	}
	vols, multi := false, false
	terms := map[string]int{}
	for _, pv := range in.Scn.PVs {
		terms["pv/"+pv.Name] = len(pv.Terms)
	}
	for _, sc := range in.Scn.StorageClasses {
		terms["sc/"+sc.Name] = len(sc.Topologies)
	}
	claims := map[string]world.PVC{}
	for _, c := range in.Scn.PVCs {
		claims[c.NS()+"/"+c.Name] = c
	}
	for _, p := range in.Scn.Pods {
		for _, v := range p.Volumes {
			vols = true
			pp := p
			if c, ok := claims[pp.NS()+"/"+v.Claim]; ok {
				if terms["pv/"+c.VolumeName] > 1 || (c.VolumeName == "" && terms["sc/"+c.StorageClass] > 1) {
					multi = true
				}
			}
		}
	}
	if vols {
		l = append(l, "pending-pod-with-volume")
	}
	if len(in.Limits) > 0 {
		l = append(l, "node-with-attach-limit")
		for _, lim := range in.Limits {
			for _, n := range in.Scn.Nodes {
				if n.Name != lim.Node {
					continue
				}
				used := map[string]bool{}
				for _, bp := range n.Pods {
					for _, v := range bp.Volumes {
						used[v.Claim] = true
					}
				}
				if len(used) >= int(lim.Count) {
					l = append(l, "node-at-attach-limit")
				}
				for _, p := range in.Scn.Pods {
					for _, v := range p.Volumes {
						if used[v.Claim] {
							l = append(l, "pending-pod-remounts-attached-claim")
						}
					}
				}
			}
		}
		l = dedupS(l)
	}
	if multi {
		l = append(l, "volume-with-several-topology-terms")
	}
	return l
}

func dedupS(xs []string) []string {
	seen := map[string]bool{}
	var out []string
	for _, x := range xs {
		if !seen[x] {
			seen[x] = true
			out = append(out, x)
		}
	}
	return out
}

func roomOp() *core.Op {
	return &core.Op{
		Name: "c04.room",
		Doc:  "single real Provisioner.Schedule passes with the commit trace where a node's room hangs on more than the pod's own labels / taints / requests: Node objects that lack well-known labels (nodes Karpenter does not manage; the label removal is delivered through the real informer.NodeController -> Cluster.UpdateNode) next to DaemonSets that select on exactly those labels, and pods whose PersistentVolumeClaims have several OR-ed topology terms (PV node affinity / StorageClass allowedTopologies) of which an existing node satisfies the first, a later one, or none, and nodes whose CSINode reports an attach limit at or just above the distinct claims their running pods use while pending pods re-mount one of those claims and / or bring new ones (CSINode objects created in the API, delivered through the real NodeController -> populateVolumeLimits; VolumeUsage.ExceedsLimits / Add inside ExistingNode.CanAdd / Add); judged by Karp.Spec.NeedCapacity (a DaemonSet whose selector needs a label the node lacks reserves nothing there; a node reaches a volume if SOME term holds on its labels)",
		N:    func(t core.Tier) int { return map[core.Tier]int{core.Quick: 500, core.Thorough: 6000}[t] },
		Gen:  genRoom,
		Impl: implRoom,
		Rule: "non-trivial = the cluster has an active node and (a node lacks a well-known label that a DaemonSet selects, or a pending pod mounts a volume with several topology terms, or a pending pod re-mounts a claim in use on a node with a CSI attach limit)",
		Nontrivial: func(raw json.RawMessage, impl any) bool {
			ls := roomLabels(raw, impl)
			return has(ls, "daemonset-selects-absent-label") || has(ls, "volume-with-several-topology-terms") || has(ls, "pending-pod-remounts-attached-claim")
		},
		Labels:    roomLabels,
		Signature: func(raw json.RawMessage, impl any) string { return "room" },
		Shrink:    shrinkRoom,
	}
}
