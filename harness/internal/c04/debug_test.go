package c04

import (
	"encoding/json"
	"fmt"
	"os"
	"path/filepath"
	"strconv"
	"testing"

	"verifharness/internal/core"
)

func summarize(o *HistOut) {
	pp := func(p PassOut) {
		fmt.Printf("  [%s] synced=%v err=%q\n", p.Stage, p.Synced, p.Outcome.Err)
		for _, e := range p.Outcome.Existing {
			fmt.Printf("     existing %s <- %v\n", e.Node, e.Pods)
		}
		for _, c := range p.Outcome.Claims {
			fmt.Printf("     NEW %s %v its=%v cpu=%d\n", c.Pool, c.Pods, c.InstanceTypes, c.ReqCPU)
		}
		if len(p.Outcome.Errors) > 0 {
			fmt.Printf("     errors %v\n", p.Outcome.Errors)
		}
		s := "     trace:"
		for _, ev := range p.Trace {
			s += fmt.Sprintf(" %s:%s->%s", ev.Kind[:1], ev.Pod, ev.Target)
		}
		fmt.Println(s)
		for _, v := range p.Views {
			fmt.Printf("     view %s reg=%v init=%v cpu=%d mem=%d pods=%d taints=%v\n", v.Name, v.Registered, v.Initialized, v.AllocCPU, v.AllocMem, v.AllocPods, v.Taints)
		}
	}
	pp(o.Pass1)
	fmt.Printf("  created=%d createErr=%q syncedBefore=%v syncedAfterCreate=%v gate(ran=%v pass=%v %d->%d) syncedDuring=%v launchErr=%q\n", o.Created, o.CreateErr, o.SyncedBefore, o.SyncedAfterCreate, o.GateRan, o.GatePassRan, o.GateClaimsBefore, o.GateClaimsAfter, o.SyncedDuring, o.LaunchErr)
	for _, l := range o.Launched {
		fmt.Printf("  launched %s pool=%s as %s/%s/%s (choice %d of %d) pods=%v\n", l.Name, l.Pool, l.IT, l.Zone, l.CT, l.Choice, l.Options, l.Pods)
	}
	for _, p := range o.Passes {
		pp(p)
	}
}

// C04_DEBUG=1 go test -tags verif -run TestDebugHistory ./internal/c04 -v   (prints a few histories; debugging aid only)
func TestDebugHistory(t *testing.T) {
	if os.Getenv("C04_DEBUG") == "" {
		t.Skip("set C04_DEBUG=1")
	}
	n, _ := strconv.Atoi(os.Getenv("C04_DEBUG"))
	for i := 0; i < n; i++ {
		in := genHistory(core.RNG(1, "c04.history", i), core.Quick)
		b, _ := json.Marshal(in)
		out, err := implHistory(b)
		if err != nil {
			t.Fatal(err)
		}
		fmt.Println("=== case", i)
		summarize(out.(*HistOut))
	}
}

func TestDebugInit(t *testing.T) {
	if os.Getenv("C04_DEBUG") == "" {
		t.Skip("set C04_DEBUG=1")
	}
	in := genHistory(core.RNG(1, "c04.history", 4), core.Quick).(HistIn)
	in.Kubelet = Kubelet{ZeroAlloc: []string{}}
	h, err := newHist(&in)
	if err != nil {
		t.Fatal(err)
	}
	h.w.Cluster.SetSynced(true)
	_, res := h.pass("pass1")
	names, _ := h.prov.CreateNodeClaims(h.w.Ctx, res.NewNodeClaims)
	name := names[0]
	nc, err := h.lifecycleStep(name)
	fmt.Println("launch", err, nc.Status.ProviderID, nc.Status.Conditions)
	h.nodeAppears(nc, 0)
	nc, err = h.lifecycleStep(name)
	fmt.Println("register", err)
	for _, c := range nc.Status.Conditions {
		fmt.Println("  ", c.Type, c.Status, c.Reason, c.Message)
	}
	h.nodeReady(nc)
	nc, err = h.lifecycleStep(name)
	fmt.Println("init", err)
	for _, c := range nc.Status.Conditions {
		fmt.Println("  ", c.Type, c.Status, c.Reason, c.Message)
	}
}

// C04_FILE=<replay or corpus json with "in"> go test -tags verif -run TestDebugFile ./internal/c04 -v
func TestDebugFile(t *testing.T) {
	f := os.Getenv("C04_FILE")
	if f == "" {
		t.Skip("set C04_FILE")
	}
	b, err := os.ReadFile(f)
	if err != nil {
		t.Fatal(err)
	}
	var r struct {
		In json.RawMessage `json:"in"`
	}
	json.Unmarshal(b, &r)
	out, err := implHistory(r.In)
	if err != nil {
		t.Fatal(err)
	}
	summarize(out.(*HistOut))
}

func TestDebugSynced(t *testing.T) {
	if os.Getenv("C04_DEBUG") == "" {
		t.Skip("")
	}
	out, err := implSynced(json.RawMessage(`{"ops":["create:a","launch:a","see-claim:a"]}`))
	fmt.Println(out, err)
}

// C04_DEBUG=1 go test -tags verif -run TestDebugChurnCorpus ./internal/c04 -v   (prints what the corpus witnesses of c04.churn do)
func TestDebugChurnCorpus(t *testing.T) {
	if os.Getenv("C04_DEBUG") == "" {
		t.Skip("set C04_DEBUG=1")
	}
	files, _ := filepath.Glob("../../../corpus/c04.churn/*.json")
	for _, f := range files {
		b, _ := os.ReadFile(f)
		var c struct {
			In json.RawMessage `json:"in"`
		}
		if err := json.Unmarshal(b, &c); err != nil {
			t.Fatal(err)
		}
		out, err := implChurn(c.In)
		if err != nil {
			t.Fatal(err)
		}
		o := out.(*ChurnOut)
		fmt.Printf("== %s\n   applied=%v drained=%v\n", filepath.Base(f), o.Applied, o.Drained)
		for _, e := range o.Outcome.Existing {
			fmt.Printf("   existing %s <- %v\n", e.Node, e.Pods)
		}
		for _, cl := range o.Outcome.Claims {
			fmt.Printf("   NEW %s %v\n", cl.Pool, cl.Pods)
		}
	}
}
