package c04

import (
	"math/rand/v2"

	"verifharness/internal/core"
	"verifharness/internal/world"
)

// histOpts: mostly plain pods (the property's class), a few with inter-pod constraints / preferences so that mixed
// batches are exercised; existing and in-flight nodes in the cluster before pass 1.
var histOpts = world.GenOpts{InterPod: 0.08, NodeAffinity: 0.35, Existing: 0.45, Limits: 0.1, MaxPods: 7}

func genKubelet(r *rand.Rand) Kubelet {
	k := Kubelet{FullTaints: r.Float64() < 0.5, NotReadyTaint: r.Float64() < 0.4, BareLabels: r.Float64() < 0.25}
	switch x := r.Float64(); {
	case x < 0.2:
		k.NoStatus = true
	case x < 0.55:
		for _, res := range []string{"cpu", "memory", "pods"} {
			if r.Float64() < 0.5 {
				k.ZeroAlloc = append(k.ZeroAlloc, res)
			}
		}
	}
	if k.ZeroAlloc == nil {
		k.ZeroAlloc = []string{}
	}
	return k
}

// singleTerm keeps only the first required node-affinity term of every pod (most scenarios: a pod with several OR-ed
// terms is placed by term ORDER, which is the recorded finding C04-or-term-order; it must not crowd out other classes).
func singleTerm(r *rand.Rand, s *world.Scenario) {
	if r.Float64() < 0.04 {
		return
	}
	for i := range s.Pods {
		if len(s.Pods[i].Required) > 1 {
			s.Pods[i].Required = s.Pods[i].Required[:1]
		}
	}
}

// profileTainted: every NodePool carries a NoSchedule taint that the pods tolerate and (some of) the daemonsets do not:
// the daemon overhead a NodeClaim reserves and the overhead its in-flight node reserves must agree on who tolerates what.
func profileTainted(r *rand.Rand, s *world.Scenario) {
	for i := range s.Pools {
		s.Pools[i].Taints = []world.Taint{{Key: "dedicated", Value: "x", Effect: pickS(r, []string{"NoSchedule", "NoSchedule", "NoExecute"})}}
	}
	for i := range s.Pods {
		s.Pods[i].Tolerations = []world.Toleration{{Key: "dedicated", Operator: "Exists"}}
	}
	if len(s.DaemonSets) == 0 {
		s.DaemonSets = append(s.DaemonSets, world.DaemonSet{Name: "ds-t", CPU: int64(200 * (1 + r.IntN(4))), Mem: 128})
	}
	for i := range s.DaemonSets {
		s.DaemonSets[i].Tolerations = nil
		if r.Float64() < 0.3 {
			s.DaemonSets[i].Tolerations = []world.Toleration{{Operator: "Exists"}}
		}
	}
}

// profileDaemonSelectors: daemonsets restricted to a zone / instance type / capacity type, so that the overhead depends on
// the launch choice, with a sizeable request so that it decides whether the pods fit.
func profileDaemonSelectors(r *rand.Rand, s *world.Scenario) {
	n := 1 + r.IntN(2)
	s.DaemonSets = nil
	for i := 0; i < n; i++ {
		ds := world.DaemonSet{Name: "ds-s" + string(rune('0'+i)), CPU: int64(300 * (1 + r.IntN(4))), Mem: int64(128 * (1 + r.IntN(4))), Tolerations: []world.Toleration{{Operator: "Exists"}}}
		switch r.IntN(4) {
		case 0:
			ds.NodeSelector = map[string]string{"topology.kubernetes.io/zone": pickS(r, world.Zones)}
		case 1:
			ds.NodeSelector = map[string]string{"node.kubernetes.io/instance-type": s.ITs[r.IntN(len(s.ITs))].Name}
		case 2:
			ds.NodeSelector = map[string]string{"karpenter.sh/capacity-type": pickS(r, []string{"spot", "on-demand"})}
		case 3:
			ds.NodeSelector = map[string]string{"team": pickS(r, []string{"red", "blue"})}
		}
		s.DaemonSets = append(s.DaemonSets, ds)
	}
}

// profileCustomKey: NodePools whose template leaves a user-defined label key open (tier In [gold, silver] / Exists / NotIn)
// and pods of the property's class that constrain the key without pinning one value (Exists, In with both values, NotIn) or
// pin it: the NodeClaim opened for such a pod has to come up WITH a concrete label for the key, otherwise its in-flight node
// cannot take the pod back on the next pass.
func profileCustomKey(r *rand.Rand, s *world.Scenario) {
	vals := []string{"gold", "silver"}
	for i := range s.Pools {
		if r.Float64() < 0.8 {
			var reqs []world.MinExpr
			for _, e := range s.Pools[i].Reqs {
				if e.Key != "tier" {
					reqs = append(reqs, e)
				}
			}
			e := world.MinExpr{Key: "tier", Op: pickS(r, []string{"In", "In", "Exists", "NotIn"}), Values: []string{}}
			switch e.Op {
			case "In":
				e.Values = append([]string{}, vals...)
			case "NotIn":
				e.Values = []string{pickS(r, vals)}
			}
			s.Pools[i].Reqs = append(reqs, e)
		}
	}
	for i := range s.Pods {
		if r.Float64() < 0.6 {
			p := &s.Pods[i]
			p.Affinity, p.Spreads, p.Preferred = nil, nil, nil
			e := world.KExpr{Key: "tier", Op: pickS(r, []string{"Exists", "Exists", "In", "In", "NotIn"}), Values: []string{}}
			switch e.Op {
			case "In":
				e.Values = append([]string{}, vals...)
				if r.Float64() < 0.3 {
					e.Values = []string{pickS(r, vals)}
				}
			case "NotIn":
				e.Values = []string{pickS(r, vals)}
			}
			if len(p.Required) == 0 {
				p.Required = [][]world.KExpr{{e}}
			} else {
				var t []world.KExpr
				for _, x := range p.Required[0] {
					if x.Key != "tier" {
						t = append(t, x)
					}
				}
				p.Required[0] = append(t, e)
			}
			delete(p.NodeSelector, "tier")
		}
	}
}

func genHistory(r *rand.Rand, t core.Tier) any {
	s := world.GenScenario(r, histOpts)
	singleTerm(r, s)
	switch x := r.Float64(); {
	case x < 0.2:
		profileTainted(r, s)
	case x < 0.4:
		profileDaemonSelectors(r, s)
	case x < 0.55:
		profileCustomKey(r, s)
	}
	// startup taints and daemonsets are what the in-flight view has to get right: make them more frequent
	for i := range s.Pools {
		if len(s.Pools[i].StartupTaints) == 0 && r.Float64() < 0.35 {
			s.Pools[i].StartupTaints = append(s.Pools[i].StartupTaints, world.Taint{Key: "startup", Value: "", Effect: pickS(r, []string{"NoSchedule", "NoExecute"})})
		}
	}
	// a tight catalog makes the launch choice matter (several sizes that all hold the claim's pods)
	in := HistIn{Scn: *s, Kubelet: genKubelet(r), Gate: r.Float64() < 0.3}
	n := 8
	in.Launch = make([]int, n)
	for i := range in.Launch {
		in.Launch[i] = r.IntN(64)
	}
	in.Names = r.Perm(n)
	if r.Float64() < 0.15 {
		in.MarkStage = pickS(r, []string{"claim", "node", "registered", "initialized"})
		in.MarkIdx = r.IntN(8)
		in.MarkStale = r.Float64() < 0.5
	}
	return in
}

func pickS(r *rand.Rand, xs []string) string { return xs[r.IntN(len(xs))] }
