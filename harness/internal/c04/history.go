package c04

import (
	"context"
	"encoding/json"
	"fmt"
	"sort"
	"sync"
	"time"

	corev1 "k8s.io/api/core/v1"
	"k8s.io/apimachinery/pkg/api/resource"
	metav1 "k8s.io/apimachinery/pkg/apis/meta/v1"
	"k8s.io/apimachinery/pkg/types"
	"sigs.k8s.io/controller-runtime/pkg/client"
	"sigs.k8s.io/controller-runtime/pkg/client/interceptor"
	"sigs.k8s.io/controller-runtime/pkg/reconcile"

	v1 "sigs.k8s.io/karpenter/pkg/apis/v1"
	"sigs.k8s.io/karpenter/pkg/cloudprovider"
	fakecp "sigs.k8s.io/karpenter/pkg/cloudprovider/fake"
	"sigs.k8s.io/karpenter/pkg/controllers/nodeclaim/lifecycle"
	"sigs.k8s.io/karpenter/pkg/controllers/provisioning"
	provsched "sigs.k8s.io/karpenter/pkg/controllers/provisioning/scheduling"
	"sigs.k8s.io/karpenter/pkg/controllers/state/informer"
	"sigs.k8s.io/karpenter/pkg/scheduling"
	"sigs.k8s.io/karpenter/pkg/state/nodepoolhealth"
	"sigs.k8s.io/karpenter/pkg/state/virtualpods"
	"sigs.k8s.io/karpenter/pkg/test"
	"sigs.k8s.io/karpenter/pkg/utils/resources"

	"verifharness/internal/world"
)

// ---------- input ----------

// Kubelet describes how the node of a launched NodeClaim shows up (all variants are things a real kubelet / cloud
// controller does while a node is starting).
type Kubelet struct {
	ZeroAlloc     []string `json:"zeroAlloc"`     // resources the node reports as 0 until it is ready: cpu | memory | pods
	NoStatus      bool     `json:"noStatus"`      // the node appears without capacity/allocatable at all until it is ready
	NotReadyTaint bool     `json:"notReadyTaint"` // node.kubernetes.io/not-ready:NoSchedule until the node is ready
	FullTaints    bool     `json:"fullTaints"`    // the kubelet registers with the NodeClaim's taints and startup taints already set
	BareLabels    bool     `json:"bareLabels"`    // the node appears with only the labels needed to be tracked (nodepool, instance type, hostname)
}

// HistIn is one two-pass history.
type HistIn struct {
	Scn     world.Scenario `json:"scenario"`
	Launch  []int          `json:"launch"` // adversarial launch choice per created NodeClaim (index modulo the number of permitted (instance type, offering) pairs)
	Names   []int          `json:"names"`  // rank of the generated name of the i-th created NodeClaim (decides the order of the in-flight nodes in pass 2)
	Kubelet Kubelet        `json:"kubelet"`
	Gate    bool           `json:"gate"` // drive the real Provisioner.Reconcile while NodeClaims are created but not launched
	// MarkStage / MarkIdx: from the pass at this stage on (claim | node | registered | initialized, "" = never) the
	// MarkIdx-th launched node (modulo their number) is marked for deletion, as the disruption controller does
	MarkStage string `json:"markStage"`
	MarkIdx   int    `json:"markIdx"`
	// MarkStale: the node is marked by ONE MarkForDeletion call for a multi-candidate command whose other candidates have
	// already left the cluster state (their provider ids come first in the call)
	MarkStale bool `json:"markStale,omitempty"`
}

// ---------- output ----------

type TraceEv struct {
	Kind   string          `json:"kind"`   // existing | inflight | new
	Pod    string          `json:"pod"`    // pod name
	Target string          `json:"target"` // existing: node name; otherwise "c<k>", k = order in which the pass opened its NodeClaims
	Terms  int             `json:"terms"`  // required node-affinity terms left on the (possibly relaxed) pod when it was committed
	Prefs  int             `json:"prefs"`  // preferred node-affinity terms left
	PNS    bool            `json:"pns"`    // relaxation added the PreferNoSchedule toleration
	Claim  *world.ClaimOut `json:"claim"`  // inflight/new: the target NodeClaim right after the add
}

type PassOut struct {
	Stage   string        `json:"stage"`
	Synced  bool          `json:"synced"`
	Nodes   []world.Node  `json:"nodes"` // the in-flight nodes of the history at this stage (in addition to the scenario's nodes)
	Outcome world.Outcome `json:"outcome"`
	Trace   []TraceEv     `json:"trace"`
	Views   []View        `json:"views"` // what the real StateNode presents for each in-flight node at this stage
}

// View is the scheduler-relevant presentation of one StateNode.
type View struct {
	Name        string        `json:"name"`
	Registered  bool          `json:"registered"`
	Initialized bool          `json:"initialized"`
	Deleting    bool          `json:"deleting"`
	Taints      []world.Taint `json:"taints"`
	AllocCPU    int64         `json:"allocCPU"`
	AllocMem    int64         `json:"allocMem"`
	AllocPods   int64         `json:"allocPods"`
	CapCPU      int64         `json:"capCPU"`
	Labels      [][2]string   `json:"labels"`
}

type Launched struct {
	Claim   int      `json:"claim"` // index into pass1.outcome.claims
	Name    string   `json:"name"`
	Pool    string   `json:"pool"`
	IT      string   `json:"it"`
	Zone    string   `json:"zone"`
	CT      string   `json:"capacityType"`
	Options int      `json:"options"` // number of permitted (instance type, offering) pairs
	Choice  int      `json:"choice"`
	Pods    []string `json:"pods"`
}

type HistOut struct {
	Pass1             PassOut    `json:"pass1"`
	Created           int        `json:"created"`
	CreateErr         string     `json:"createErr,omitempty"`
	SyncedBefore      bool       `json:"syncedBefore"`      // Cluster.Synced before anything was created
	SyncedAfterCreate bool       `json:"syncedAfterCreate"` // after Provisioner.CreateNodeClaims, nothing launched yet
	GateRan           bool       `json:"gateRan"`
	GateClaimsBefore  int        `json:"gateClaimsBefore"` // NodeClaims in the API before / after the real Reconcile was driven
	GateClaimsAfter   int        `json:"gateClaimsAfter"`
	GatePassRan       bool       `json:"gatePassRan"`        // the scheduler committed something during that Reconcile
	SyncedDuring      []bool     `json:"syncedDuringLaunch"` // Cluster.Synced after the first k NodeClaims were launched, k = 1..n
	Launched          []Launched `json:"launched"`
	LaunchErr         string     `json:"launchErr,omitempty"`
	Passes            []PassOut  `json:"passes"`
}

// ---------- adversarial cloud provider ----------

type launchOption struct {
	it *cloudprovider.InstanceType
	of *cloudprovider.Offering
}

type advCP struct {
	*fakecp.CloudProvider
	mu      sync.Mutex
	choice  map[string]int // NodeClaim name -> choice
	chosen  map[string]launchOption
	options map[string]int
}

// permitted lists every (instance type, available offering) the NodeClaim allows: compatible with its requirements and
// large enough for its resource requests (the provider contract, the same filter pkg/cloudprovider/fake applies).
func (c *advCP) permitted(ctx context.Context, nc *v1.NodeClaim) []launchOption {
	reqs := scheduling.NewNodeSelectorRequirementsWithMinValues(nc.Spec.Requirements...)
	np := &v1.NodePool{ObjectMeta: metav1.ObjectMeta{Name: nc.Labels[v1.NodePoolLabelKey]}}
	its, _ := c.CloudProvider.GetInstanceTypes(ctx, np)
	var out []launchOption
	for _, it := range its {
		if !reqs.IsCompatible(it.Requirements, scheduling.AllowUndefinedWellKnownLabels) {
			continue
		}
		if !resources.Fits(nc.Spec.Resources.Requests, it.Allocatable()) {
			continue
		}
		for _, of := range it.Offerings {
			if !of.Available || !reqs.IsCompatible(of.Requirements, scheduling.AllowUndefinedWellKnownLabels) {
				continue
			}
			out = append(out, launchOption{it, of})
		}
	}
	sort.SliceStable(out, func(i, j int) bool {
		a, b := out[i], out[j]
		if a.it.Name != b.it.Name {
			return a.it.Name < b.it.Name
		}
		if a.of.Zone() != b.of.Zone() {
			return a.of.Zone() < b.of.Zone()
		}
		return a.of.CapacityType() < b.of.CapacityType()
	})
	return out
}

func (c *advCP) Create(ctx context.Context, nc *v1.NodeClaim) (*v1.NodeClaim, error) {
	c.mu.Lock()
	defer c.mu.Unlock()
	opts := c.permitted(ctx, nc)
	if len(opts) == 0 {
		return nil, cloudprovider.NewInsufficientCapacityError(fmt.Errorf("no permitted launch option"))
	}
	k := c.choice[nc.Name] % len(opts)
	if k < 0 {
		k += len(opts)
	}
	o := opts[k]
	c.chosen[nc.Name] = o
	c.options[nc.Name] = len(opts)
	labels := map[string]string{}
	for key, r := range o.it.Requirements {
		if r.Operator() == corev1.NodeSelectorOpIn {
			vals := r.Values()
			sort.Strings(vals)
			labels[key] = vals[0]
			if key == corev1.LabelOSStable && r.Has("linux") {
				labels[key] = "linux"
			}
		}
	}
	labels[corev1.LabelTopologyZone] = o.of.Zone()
	labels[v1.CapacityTypeLabelKey] = o.of.CapacityType()
	for k, v := range nc.Labels {
		labels[k] = v
	}
	nonZero := func(rl corev1.ResourceList) corev1.ResourceList {
		out := corev1.ResourceList{}
		for k, v := range rl {
			if !resources.IsZero(v) {
				out[k] = v
			}
		}
		return out
	}
	return &v1.NodeClaim{
		ObjectMeta: metav1.ObjectMeta{Name: nc.Name, Labels: labels, Annotations: nc.Annotations},
		Spec:       *nc.Spec.DeepCopy(),
		Status: v1.NodeClaimStatus{
			ProviderID:  "fake:///" + nc.Name,
			Capacity:    nonZero(o.it.Capacity),
			Allocatable: nonZero(o.it.Allocatable()),
		},
	}, nil
}

// ---------- history runner ----------

type hist struct {
	in      *HistIn
	w       *world.World
	c       client.Client // the world's client behind the naming interceptor
	cp      *advCP
	prov    *provisioning.Provisioner
	life    *lifecycle.Controller
	nodeInf *informer.NodeController
	created int
	marked  map[string]bool
}

type traceSink struct {
	evs    []TraceEv
	claims map[string]string
}

func (t *traceSink) fn() provsched.VerifTraceFunc {
	return func(kind provsched.VerifTraceKind, pod *corev1.Pod, existing *provsched.ExistingNode, claim *provsched.NodeClaim) {
		ev := TraceEv{Kind: string(kind), Pod: pod.Name}
		if pod.Spec.Affinity != nil && pod.Spec.Affinity.NodeAffinity != nil {
			na := pod.Spec.Affinity.NodeAffinity
			if na.RequiredDuringSchedulingIgnoredDuringExecution != nil {
				ev.Terms = len(na.RequiredDuringSchedulingIgnoredDuringExecution.NodeSelectorTerms)
			}
			ev.Prefs = len(na.PreferredDuringSchedulingIgnoredDuringExecution)
		}
		for _, tol := range pod.Spec.Tolerations {
			if tol.Key == "" && tol.Operator == corev1.TolerationOpExists && tol.Effect == corev1.TaintEffectPreferNoSchedule {
				ev.PNS = true
			}
		}
		if existing != nil {
			ev.Target = trimNC(existing.Name())
		}
		if claim != nil {
			h := claim.VerifHostname()
			id, ok := t.claims[h]
			if !ok {
				id = fmt.Sprintf("c%d", len(t.claims))
				t.claims[h] = id
			}
			ev.Target = id
			co := world.ExtractClaim(claim)
			ev.Claim = &co
		}
		t.evs = append(t.evs, ev)
	}
}

func trimNC(s string) string {
	if len(s) > 3 && s[:3] == "nc-" {
		return s[3:]
	}
	return s
}

// pass runs one real scheduling pass (Provisioner.Schedule) with the commit trace switched on.
func (h *hist) pass(stage string) (PassOut, provsched.Results) {
	out := PassOut{Stage: stage, Nodes: []world.Node{}, Trace: []TraceEv{}, Views: []View{}}
	out.Synced = h.w.Cluster.Synced(h.w.Ctx)
	sink := &traceSink{claims: map[string]string{}}
	ctx := provsched.WithVerifTrace(h.w.Ctx, sink.fn())
	res, err := h.prov.Schedule(ctx)
	if err != nil {
		out.Outcome = world.Outcome{Existing: []world.ExistingOut{}, Claims: []world.ClaimOut{}, Errors: map[string]string{}, Err: err.Error()}
		return out, res
	}
	out.Outcome = world.Extract(res)
	out.Trace = sink.evs
	return out, res
}

func newHist(in *HistIn) (*hist, error) {
	w, err := world.Build(&in.Scn)
	if err != nil {
		return nil, err
	}
	h := &hist{in: in, w: w, marked: map[string]bool{}}
	h.cp = &advCP{CloudProvider: w.CP, choice: map[string]int{}, chosen: map[string]launchOption{}, options: map[string]int{}}
	// the API server assigns names, UIDs and creation timestamps; the fake client only generates random names
	h.c = interceptor.NewClient(w.Client.(client.WithWatch), interceptor.Funcs{
		Create: func(ctx context.Context, c client.WithWatch, obj client.Object, opts ...client.CreateOption) error {
			if nc, ok := obj.(*v1.NodeClaim); ok && nc.Name == "" {
				i := h.created
				h.created++
				rank := i
				if i < len(in.Names) {
					rank = in.Names[i]
				}
				nc.Name = fmt.Sprintf("%sx%02d-%02d", nc.GenerateName, rank, i)
				nc.UID = types.UID(fmt.Sprintf("nc-new-%04d", i))
				nc.CreationTimestamp = metav1.NewTime(world.T0.Add(time.Duration(i) * time.Second))
				if i < len(in.Launch) {
					h.cp.choice[nc.Name] = in.Launch[i]
				}
			}
			return c.Create(ctx, obj, opts...)
		},
	})
	h.prov = provisioning.NewProvisioner(h.c, test.NewEventRecorder(), h.cp, w.Cluster, w.Clock, nil, virtualpods.NewVirtualPodCache(h.c))
	h.life = lifecycle.NewController(w.Clock, h.c, h.cp, test.NewEventRecorder(), nodepoolhealth.NewState(), nil)
	h.nodeInf = informer.NewNodeController(h.c, w.Cluster)
	return h, nil
}

// syncClaim is what the state informer does on a NodeClaim event.
func (h *hist) syncClaim(name string) (*v1.NodeClaim, error) {
	nc := &v1.NodeClaim{}
	if err := h.c.Get(h.w.Ctx, types.NamespacedName{Name: name}, nc); err != nil {
		return nil, err
	}
	h.w.Cluster.UpdateNodeClaim(nc)
	return nc, nil
}

func (h *hist) syncNode(name string) error {
	_, err := h.nodeInf.Reconcile(h.w.Ctx, reconcile.Request{NamespacedName: types.NamespacedName{Name: name}})
	return err
}

// lifecycleStep runs the real NodeClaim lifecycle controller once on the NodeClaim and refreshes cluster state.
func (h *hist) lifecycleStep(name string) (*v1.NodeClaim, error) {
	nc := &v1.NodeClaim{}
	if err := h.c.Get(h.w.Ctx, types.NamespacedName{Name: name}, nc); err != nil {
		return nil, err
	}
	if _, err := h.life.Reconcile(h.w.Ctx, nc); err != nil {
		return nil, fmt.Errorf("lifecycle: %w", err)
	}
	return h.syncClaim(name)
}

func (h *hist) pool(name string) *world.NodePool {
	for i := range h.in.Scn.Pools {
		if h.in.Scn.Pools[i].Name == name {
			return &h.in.Scn.Pools[i]
		}
	}
	return nil
}

func has(xs []string, x string) bool {
	for _, y := range xs {
		if x == y {
			return true
		}
	}
	return false
}

// nodeAppears creates the Node object the kubelet registers for the launched NodeClaim.
func (h *hist) nodeAppears(nc *v1.NodeClaim, i int) error {
	k := h.in.Kubelet
	o := h.cp.chosen[nc.Name]
	labels := map[string]string{}
	if k.BareLabels {
		for _, key := range []string{v1.NodePoolLabelKey, corev1.LabelInstanceTypeStable} {
			labels[key] = nc.Labels[key]
		}
	} else {
		for key, v := range nc.Labels {
			labels[key] = v
		}
	}
	labels[corev1.LabelHostname] = nc.Name
	taints := []corev1.Taint{v1.UnregisteredNoExecuteTaint}
	if k.FullTaints {
		taints = append(taints, nc.Spec.Taints...)
		taints = append(taints, nc.Spec.StartupTaints...)
	}
	if k.NotReadyTaint {
		taints = append(taints, corev1.Taint{Key: corev1.TaintNodeNotReady, Effect: corev1.TaintEffectNoSchedule})
	}
	alloc, capac := corev1.ResourceList{}, corev1.ResourceList{}
	if !k.NoStatus {
		for r, q := range o.it.Allocatable() {
			alloc[r] = q
		}
		for r, q := range o.it.Capacity {
			capac[r] = q
		}
		for _, z := range k.ZeroAlloc {
			alloc[corev1.ResourceName(z)] = resource.MustParse("0")
			capac[corev1.ResourceName(z)] = resource.MustParse("0")
		}
	}
	node := &corev1.Node{
		ObjectMeta: metav1.ObjectMeta{Name: nc.Name, Labels: labels, UID: types.UID(fmt.Sprintf("node-new-%04d", i)),
			CreationTimestamp: metav1.NewTime(world.T0.Add(time.Minute))},
		Spec:   corev1.NodeSpec{ProviderID: nc.Status.ProviderID, Taints: taints},
		Status: corev1.NodeStatus{Allocatable: alloc, Capacity: capac},
	}
	if err := h.c.Create(h.w.Ctx, node); err != nil {
		return err
	}
	return h.syncNode(nc.Name)
}

// nodeReady: the kubelet reports Ready and its real resources, the startup and not-ready taints are removed.
func (h *hist) nodeReady(nc *v1.NodeClaim) error {
	node := &corev1.Node{}
	if err := h.c.Get(h.w.Ctx, types.NamespacedName{Name: nc.Name}, node); err != nil {
		return err
	}
	o := h.cp.chosen[nc.Name]
	var keep []corev1.Taint
	for _, t := range node.Spec.Taints {
		startup := false
		for _, st := range nc.Spec.StartupTaints {
			if st.MatchTaint(&t) {
				startup = true
			}
		}
		if startup || t.Key == corev1.TaintNodeNotReady {
			continue
		}
		keep = append(keep, t)
	}
	node.Spec.Taints = keep
	if err := h.c.Update(h.w.Ctx, node); err != nil {
		return err
	}
	// the fake client treats Node.status as a subresource
	node.Status.Allocatable = o.it.Allocatable()
	node.Status.Capacity = o.it.Capacity
	node.Status.Conditions = []corev1.NodeCondition{{Type: corev1.NodeReady, Status: corev1.ConditionTrue}}
	if err := h.c.Status().Update(h.w.Ctx, node); err != nil {
		return err
	}
	return h.syncNode(nc.Name)
}

var wellKnownNodeLabelKeys = map[string]bool{
	corev1.LabelInstanceTypeStable: true, corev1.LabelTopologyZone: true, v1.CapacityTypeLabelKey: true,
	corev1.LabelArchStable: true, corev1.LabelOSStable: true, corev1.LabelHostname: true, v1.NodePoolLabelKey: true,
	v1.NodeRegisteredLabelKey: true, v1.NodeInitializedLabelKey: true,
}

// describe renders the in-flight nodes of the history in the scenario vocabulary, at the given stage.
func (h *hist) describe(names []string, stage string) []world.Node {
	out := []world.Node{}
	for _, name := range names {
		nc := &v1.NodeClaim{}
		if err := h.c.Get(h.w.Ctx, types.NamespacedName{Name: name}, nc); err != nil {
			continue
		}
		pool := h.pool(nc.Labels[v1.NodePoolLabelKey])
		n := world.Node{Name: name, Pool: nc.Labels[v1.NodePoolLabelKey], IT: nc.Labels[corev1.LabelInstanceTypeStable], Zone: nc.Labels[corev1.LabelTopologyZone],
			CapacityType: nc.Labels[v1.CapacityTypeLabelKey], Labels: map[string]string{}, Stage: stage, Pods: []world.Pod{}, Taints: []world.Taint{}, Deleting: h.marked[name]}
		// labels the scenario vocabulary does not derive by itself (resolved custom requirement labels, node class label)
		src := nc.Labels
		if stage == "registered" || stage == "initialized" {
			node := &corev1.Node{}
			if err := h.c.Get(h.w.Ctx, types.NamespacedName{Name: name}, node); err == nil {
				src = node.Labels
			}
		}
		for k, v := range src {
			if wellKnownNodeLabelKeys[k] {
				continue
			}
			if pool != nil {
				if pv, ok := pool.Labels[k]; ok && pv == v {
					continue
				}
			}
			n.Labels[k] = v
		}
		if h.in.Kubelet.NotReadyTaint && (stage == "node" || stage == "registered") {
			n.Taints = append(n.Taints, world.Taint{Key: corev1.TaintNodeNotReady, Effect: string(corev1.TaintEffectNoSchedule)})
		}
		out = append(out, n)
	}
	return out
}

func milli(rl corev1.ResourceList, r corev1.ResourceName) int64 {
	q := rl[r]
	return q.MilliValue()
}

func (h *hist) views(names []string) []View {
	want := map[string]bool{}
	for _, n := range names {
		want[n] = true
	}
	out := []View{}
	for _, sn := range h.w.Cluster.DeepCopyNodes() {
		if !want[sn.Name()] {
			continue
		}
		a, c := sn.Allocatable(), sn.Capacity()
		mem := a[corev1.ResourceMemory]
		pods := a[corev1.ResourcePods]
		v := View{Name: sn.Name(), Registered: sn.Registered(), Initialized: sn.Initialized(), Deleting: sn.MarkedForDeletion(),
			Taints: world.FromTaints(sn.Taints()), AllocCPU: milli(a, corev1.ResourceCPU), AllocMem: world.CeilMi(mem), AllocPods: pods.Value(),
			CapCPU: milli(c, corev1.ResourceCPU), Labels: [][2]string{}}
		for k, val := range sn.Labels() {
			v.Labels = append(v.Labels, [2]string{k, val})
		}
		sort.Slice(v.Labels, func(i, j int) bool { return v.Labels[i][0] < v.Labels[j][0] })
		sort.Slice(v.Taints, func(i, j int) bool {
			return v.Taints[i].Key+"|"+v.Taints[i].Effect < v.Taints[j].Key+"|"+v.Taints[j].Effect
		})
		out = append(out, v)
	}
	sort.Slice(out, func(i, j int) bool { return out[i].Name < out[j].Name })
	return out
}

func (h *hist) countClaims() int {
	l := &v1.NodeClaimList{}
	if err := h.c.List(h.w.Ctx, l); err != nil {
		return -1
	}
	return len(l.Items)
}

// driveReconcile runs the real Provisioner.Reconcile once with a triggered batch window; the fake clock is stepped
// only once the batcher has consumed the trigger (two timers pending), so the window always closes "idle".
func (h *hist) driveReconcile() (ran bool, committed bool) {
	sink := &traceSink{claims: map[string]string{}}
	ctx := provsched.WithVerifTrace(h.w.Ctx, sink.fn())
	h.prov.Trigger(types.UID("verif-trigger"))
	done := make(chan struct{})
	go func() {
		defer close(done)
		defer func() { _ = recover() }()
		_, _ = h.prov.Reconcile(ctx)
	}()
	deadline := time.Now().Add(5 * time.Second)
	for {
		select {
		case <-done:
			return true, len(sink.evs) > 0
		default:
		}
		if h.w.Clock.Waiters() >= 2 {
			h.w.Clock.Step(1500 * time.Millisecond)
		}
		if time.Now().After(deadline) {
			// never block the sweep: release every timer
			h.w.Clock.Step(time.Hour)
			<-done
			return false, len(sink.evs) > 0
		}
		time.Sleep(20 * time.Microsecond)
	}
}

func implHistory(raw json.RawMessage) (any, error) {
	var in HistIn
	if err := json.Unmarshal(raw, &in); err != nil {
		return nil, err
	}
	h, err := newHist(&in)
	if err != nil {
		return nil, err
	}
	out := &HistOut{Launched: []Launched{}, Passes: []PassOut{}, SyncedDuring: []bool{}}
	out.SyncedBefore = h.w.Cluster.Synced(h.w.Ctx)
	h.w.Cluster.SetSynced(true)

	// ---- pass 1 and the creation of its NodeClaims (real Provisioner.CreateNodeClaims -> Provisioner.Create) ----
	p1, res := h.pass("pass1")
	out.Pass1 = p1
	if p1.Outcome.Err != "" || len(res.NewNodeClaims) == 0 {
		return out, nil
	}
	// remember which result claim each in-memory NodeClaim is (Extract sorts claims by their pods)
	claimIndex := func(nc *provsched.NodeClaim) int {
		key := fmt.Sprint(world.ExtractClaim(nc).Pods)
		for i, c := range p1.Outcome.Claims {
			if fmt.Sprint(c.Pods) == key {
				return i
			}
		}
		return -1
	}
	idx := make([]int, len(res.NewNodeClaims))
	for i, nc := range res.NewNodeClaims {
		idx[i] = claimIndex(nc)
	}
	// Create one by one so that names / choices are attributed deterministically (CreateNodeClaims itself runs them in
	// parallel); each call is the real CreateNodeClaims on a one-element slice
	names := make([]string, len(res.NewNodeClaims))
	for i, nc := range res.NewNodeClaims {
		ns, err := h.prov.CreateNodeClaims(h.w.Ctx, []*provsched.NodeClaim{nc}, provisioning.WithReason("verif"))
		if err != nil {
			out.CreateErr = "create-error"
			continue
		}
		names[i] = ns[0]
		if ns[0] != "" {
			out.Created++
		}
	}
	out.SyncedAfterCreate = h.w.Cluster.Synced(h.w.Ctx)
	var live []string
	for _, n := range names {
		if n != "" {
			live = append(live, n)
		}
	}
	if len(live) == 0 {
		return out, nil
	}
	if in.Gate {
		out.GateClaimsBefore = h.countClaims()
		out.GateRan, out.GatePassRan = h.driveReconcile()
		out.GateClaimsAfter = h.countClaims()
	}

	// ---- launch: the real lifecycle controller against the adversarial provider ----
	for i, name := range names {
		if name == "" {
			continue
		}
		nc, err := h.lifecycleStep(name)
		if err != nil {
			out.LaunchErr = err.Error()
			return out, nil
		}
		if nc.Status.ProviderID == "" {
			out.LaunchErr = "not-launched"
			return out, nil
		}
		o := h.cp.chosen[name]
		l := Launched{Claim: idx[i], Name: name, Pool: nc.Labels[v1.NodePoolLabelKey], IT: o.it.Name, Zone: o.of.Zone(), CT: o.of.CapacityType(),
			Options: h.cp.options[name], Choice: h.cp.choice[name]}
		if idx[i] >= 0 {
			l.Pods = p1.Outcome.Claims[idx[i]].Pods
		}
		out.Launched = append(out.Launched, l)
		out.SyncedDuring = append(out.SyncedDuring, h.w.Cluster.Synced(h.w.Ctx))
	}

	runPass := func(stage string) {
		if in.MarkStage == stage && len(live) > 0 {
			k := in.MarkIdx % len(live)
			if k < 0 {
				k += len(live)
			}
			if in.MarkStale {
				h.w.Cluster.MarkForDeletion("fake:///gone-0", "fake:///gone-1", "fake:///"+live[k])
			} else {
				h.w.Cluster.MarkForDeletion("fake:///" + live[k])
			}
			h.marked[live[k]] = true
		}
		p, _ := h.pass(stage)
		p.Nodes = h.describe(live, stage)
		p.Views = h.views(live)
		out.Passes = append(out.Passes, p)
	}
	// ---- pass 2 at every point of the lifecycle ----
	runPass("claim")
	for i, name := range live {
		nc := &v1.NodeClaim{}
		if err := h.c.Get(h.w.Ctx, types.NamespacedName{Name: name}, nc); err != nil {
			return nil, err
		}
		if err := h.nodeAppears(nc, i); err != nil {
			return nil, err
		}
	}
	runPass("node")
	for _, name := range live {
		if _, err := h.lifecycleStep(name); err != nil {
			out.LaunchErr = err.Error()
			return out, nil
		}
		if err := h.syncNode(name); err != nil {
			return nil, err
		}
	}
	runPass("registered")
	for _, name := range live {
		nc := &v1.NodeClaim{}
		if err := h.c.Get(h.w.Ctx, types.NamespacedName{Name: name}, nc); err != nil {
			return nil, err
		}
		if err := h.nodeReady(nc); err != nil {
			return nil, err
		}
		if _, err := h.lifecycleStep(name); err != nil {
			out.LaunchErr = err.Error()
			return out, nil
		}
		if err := h.syncNode(name); err != nil {
			return nil, err
		}
	}
	runPass("initialized")
	return out, nil
}
