package c04

import (
	"context"
	"encoding/json"
	"fmt"
	"math/rand/v2"
	"net"
	"sort"
	"time"

	corev1 "k8s.io/api/core/v1"
	"k8s.io/apimachinery/pkg/api/resource"
	metav1 "k8s.io/apimachinery/pkg/apis/meta/v1"
	"k8s.io/apimachinery/pkg/types"
	clock "k8s.io/utils/clock/testing"
	"sigs.k8s.io/controller-runtime/pkg/reconcile"

	v1 "sigs.k8s.io/karpenter/pkg/apis/v1"
	fakecp "sigs.k8s.io/karpenter/pkg/cloudprovider/fake"
	"sigs.k8s.io/karpenter/pkg/controllers/state"
	"sigs.k8s.io/karpenter/pkg/controllers/state/informer"
	"sigs.k8s.io/karpenter/pkg/operator/options"
	"sigs.k8s.io/karpenter/pkg/scheduling"
	"sigs.k8s.io/karpenter/pkg/test"

	"verifharness/internal/core"
	"verifharness/internal/world"
)

// c04.account: "what is already assigned there".  Histories of pod / node API changes and informer deliveries against the
// real state.Cluster behind the REAL state informers (informer.PodController / informer.NodeController Reconcile ->
// Cluster.UpdatePod / DeletePod / UpdateNode / DeleteNode -> populateResourceRequests, updateNodeUsageFromPod,
// updateNodeUsageFromPodCompletion, cleanupOldBindings, StateNode.updateForPod / cleanupForPod).  After every event the
// pods each tracked node is charged for (requests, host ports, daemonset requests) are read back and compared with the
// model Karp.PodAcct; the independent specification says: once every API change of a pod has been delivered, a tracked
// node is charged for exactly the pods that exist, are bound to it and have not reached a terminal phase.
//
// ops: "new:P"        pod P appears in the API, pending (not bound)
//      "bind:P:N"     P is bound to node N (created bound if it does not exist; spec.nodeName is immutable once set)
//      "finish:P"     P reaches phase Succeeded (the object stays);  "fail:P"  phase Failed
//      "term:P"       P gets a deletionTimestamp (graceful deletion has started, the containers still run)
//      "gone:P"       the pod object is removed from the API
//      "node:N"       Node N appears in the API;  "nonode:N"  Node N is removed from the API   (n0 is an unmanaged node, n1 a
//                     managed one whose launched NodeClaim cluster state knows from the start)
//      "see-pod:P"    the pod informer delivers P (real PodController.Reconcile: UpdatePod, or DeletePod when P is gone)
//      "see-node:N"   the node informer delivers N (real NodeController.Reconcile: UpdateNode, or DeleteNode)

type AcctIn struct {
	Ops []string `json:"ops"`
}

type AcctNode struct {
	Name     string   `json:"name"`
	Tracked  bool     `json:"tracked"`
	Requests []string `json:"requests"` // pods whose resource requests the node is charged for
	Ports    []string `json:"ports"`    // pods whose host ports are reserved on the node
	Daemon   []string `json:"daemon"`   // pods counted in the node's daemonset requests
	Pods     int64    `json:"pods"`     // the node's `pods` request count
}

type AcctStep struct {
	Requeue bool       `json:"requeue"` // the informer asked for redelivery (the pod's node is not tracked yet)
	Nodes   []AcctNode `json:"nodes"`
}

type AcctOut struct {
	Steps []AcctStep `json:"steps"`
}

var (
	acctPods  = []string{"a", "b", "c", "d"}
	acctNodes = []string{"n0", "n1"}
)

// pod i requests 2^i milli-cpu and host port 9000+i: the sums read back from the StateNode identify the charged set;
// the last pod of the universe is owned by a DaemonSet
func acctIndex(p string) int {
	for i, x := range acctPods {
		if x == p {
			return i
		}
	}
	return -1
}

func acctIsDaemon(p string) bool { return p == acctPods[len(acctPods)-1] }

const acctFinalizer = "verif.example/hold"

func split3(s string) (string, string, string) {
	k, rest := splitOp(s)
	a, b := splitOp(rest)
	return k, a, b
}

func bitsToPods(v int64) []string {
	out := []string{}
	for i, p := range acctPods {
		if v&(1<<uint(i)) != 0 {
			out = append(out, p)
		}
	}
	return out
}

func implAccount(raw json.RawMessage) (any, error) {
	var in AcctIn
	if err := json.Unmarshal(raw, &in); err != nil {
		return nil, err
	}
	ctx := options.ToContext(context.Background(), test.Options())
	clk := clock.NewFakeClock(world.T0)
	c := world.NewClient()
	cluster := state.NewCluster(clk, c, fakecp.NewCloudProvider())
	podInf := informer.NewPodController(c, cluster)
	nodeInf := informer.NewNodeController(c, cluster)
	out := AcctOut{Steps: []AcctStep{}}
	uid := 0
	// the last node of the universe is MANAGED: its launched NodeClaim exists from the start, so cluster state holds a
	// StateNode for it also while its Node object is unknown (DeleteNode keeps the NodeClaim half)
	managed := acctNodes[len(acctNodes)-1]
	nc := test.NodeClaim(v1.NodeClaim{ObjectMeta: metav1.ObjectMeta{Name: "nc-" + managed, UID: "nc-uid", CreationTimestamp: metav1.NewTime(world.T0),
		Labels: map[string]string{v1.NodePoolLabelKey: "pool-0", corev1.LabelInstanceTypeStable: "it-0"}},
		Status: v1.NodeClaimStatus{ProviderID: "fake:///" + managed, NodeName: managed}})
	if err := c.Create(ctx, nc); err != nil {
		return nil, err
	}
	cluster.UpdateNodeClaim(nc)
	getPod := func(p string) *corev1.Pod {
		pod := &corev1.Pod{}
		if err := c.Get(ctx, types.NamespacedName{Namespace: "default", Name: p}, pod); err != nil {
			return nil
		}
		return pod
	}
	mkPod := func(p, node string) *corev1.Pod {
		uid++
		i := acctIndex(p)
		pod := &corev1.Pod{
			ObjectMeta: metav1.ObjectMeta{Name: p, Namespace: "default", UID: types.UID(fmt.Sprintf("pod-%d", uid)), Finalizers: []string{acctFinalizer},
				CreationTimestamp: metav1.NewTime(world.T0.Add(time.Duration(uid) * time.Second))},
			Spec: corev1.PodSpec{NodeName: node, Containers: []corev1.Container{{Name: "c", Image: "img",
				Resources: corev1.ResourceRequirements{Requests: corev1.ResourceList{corev1.ResourceCPU: *resource.NewMilliQuantity(1<<uint(i), resource.DecimalSI)}},
				Ports:     []corev1.ContainerPort{{ContainerPort: int32(9000 + i), HostPort: int32(9000 + i), Protocol: corev1.ProtocolTCP}}}}},
			Status: corev1.PodStatus{Phase: corev1.PodPending},
		}
		if node != "" {
			pod.Status.Phase = corev1.PodRunning
		}
		if acctIsDaemon(p) {
			t := true
			pod.OwnerReferences = []metav1.OwnerReference{{APIVersion: "apps/v1", Kind: "DaemonSet", Name: "ds", UID: "ds-uid", Controller: &t, BlockOwnerDeletion: &t}}
		}
		return pod
	}
	for _, op := range in.Ops {
		kind, x, y := split3(op)
		step := AcctStep{Nodes: []AcctNode{}}
		switch kind {
		case "new":
			if acctIndex(x) < 0 {
				return nil, fmt.Errorf("bad op %q", op)
			}
			if getPod(x) == nil {
				if err := c.Create(ctx, mkPod(x, "")); err != nil {
					return nil, err
				}
			}
		case "bind":
			if acctIndex(x) < 0 || y == "" {
				return nil, fmt.Errorf("bad op %q", op)
			}
			if pod := getPod(x); pod == nil {
				if err := c.Create(ctx, mkPod(x, y)); err != nil {
					return nil, err
				}
			} else if pod.Spec.NodeName == "" && pod.DeletionTimestamp == nil && pod.Status.Phase == corev1.PodPending {
				pod.Spec.NodeName = y
				if err := c.Update(ctx, pod); err != nil {
					return nil, err
				}
				pod.Status.Phase = corev1.PodRunning
				if err := c.Status().Update(ctx, pod); err != nil {
					return nil, err
				}
			}
		case "finish", "fail":
			if pod := getPod(x); pod != nil && pod.Status.Phase != corev1.PodSucceeded && pod.Status.Phase != corev1.PodFailed {
				pod.Status.Phase = corev1.PodSucceeded
				if kind == "fail" {
					pod.Status.Phase = corev1.PodFailed
				}
				// pod status is a subresource (also for the fake client)
				if err := c.Status().Update(ctx, pod); err != nil {
					return nil, err
				}
			}
		case "term":
			if pod := getPod(x); pod != nil && pod.DeletionTimestamp == nil {
				// the object has a finalizer: Delete only sets the deletionTimestamp
				if err := c.Delete(ctx, pod); err != nil {
					return nil, err
				}
			}
		case "gone":
			if pod := getPod(x); pod != nil {
				if pod.DeletionTimestamp == nil {
					if err := c.Delete(ctx, pod); err != nil {
						return nil, err
					}
					pod = getPod(x)
				}
				if pod != nil {
					pod.Finalizers = nil
					if err := c.Update(ctx, pod); err != nil {
						return nil, err
					}
				}
			}
		case "node":
			node := &corev1.Node{}
			if err := c.Get(ctx, types.NamespacedName{Name: x}, node); err != nil {
				uid++
				labels := map[string]string{corev1.LabelInstanceTypeStable: "it-0", corev1.LabelHostname: x}
				if x == managed {
					labels[v1.NodePoolLabelKey] = "pool-0"
					labels[v1.NodeRegisteredLabelKey] = "true"
					labels[v1.NodeInitializedLabelKey] = "true"
				}
				node = &corev1.Node{ObjectMeta: metav1.ObjectMeta{Name: x, UID: types.UID(fmt.Sprintf("node-%d", uid)), Labels: labels},
					Spec:   corev1.NodeSpec{ProviderID: "fake:///" + x},
					Status: corev1.NodeStatus{Allocatable: corev1.ResourceList{corev1.ResourceCPU: resource.MustParse("8"), corev1.ResourcePods: resource.MustParse("50")}}}
				if err := c.Create(ctx, node); err != nil {
					return nil, err
				}
			}
		case "nonode":
			node := &corev1.Node{}
			if err := c.Get(ctx, types.NamespacedName{Name: x}, node); err == nil {
				if err := c.Delete(ctx, node); err != nil {
					return nil, err
				}
			}
		case "see-pod":
			res, err := podInf.Reconcile(ctx, reconcile.Request{NamespacedName: types.NamespacedName{Namespace: "default", Name: x}})
			if err != nil {
				return nil, fmt.Errorf("pod informer: %w", err)
			}
			step.Requeue = res.Requeue //nolint:staticcheck
		case "see-node":
			if _, err := nodeInf.Reconcile(ctx, reconcile.Request{NamespacedName: types.NamespacedName{Name: x}}); err != nil {
				return nil, fmt.Errorf("node informer: %w", err)
			}
		default:
			return nil, fmt.Errorf("bad op %q", op)
		}
		for _, n := range acctNodes {
			an := AcctNode{Name: n, Requests: []string{}, Ports: []string{}, Daemon: []string{}}
			for sn := range cluster.Nodes() {
				// a StateNode that only has its NodeClaim half is reported too (not tracked, and it must be charged for nothing)
				if !(sn.Node != nil && sn.Node.Name == n) && !(sn.Node == nil && sn.NodeClaim != nil && sn.NodeClaim.Name == "nc-"+n) {
					continue
				}
				an.Tracked = sn.Node != nil
				req := sn.PodRequests()
				cpu := req[corev1.ResourceCPU]
				an.Requests = bitsToPods(cpu.MilliValue())
				pods := req[corev1.ResourcePods]
				an.Pods = pods.Value()
				dcpu := sn.DaemonSetRequests()[corev1.ResourceCPU]
				an.Daemon = bitsToPods(dcpu.MilliValue())
				probe := &corev1.Pod{ObjectMeta: metav1.ObjectMeta{Name: "probe", Namespace: "probe"}}
				for i, p := range acctPods {
					if sn.HostPortUsage().Conflicts(probe, []scheduling.HostPort{{IP: net.IPv4zero, Port: int32(9000 + i), Protocol: corev1.ProtocolTCP}}) != nil {
						an.Ports = append(an.Ports, p)
					}
				}
			}
			sort.Strings(an.Requests)
			sort.Strings(an.Ports)
			step.Nodes = append(step.Nodes, an)
		}
		out.Steps = append(out.Steps, step)
	}
	return out, nil
}

var acctKinds = []string{"bind", "bind", "bind", "new", "finish", "finish", "fail", "term", "gone", "see-pod", "see-pod", "see-pod", "see-pod", "see-node", "see-node", "see-node", "node", "node", "nonode"}

func genAcctOp(r *rand.Rand) string {
	k := acctKinds[r.IntN(len(acctKinds))]
	switch k {
	case "bind":
		return k + ":" + acctPods[r.IntN(len(acctPods))] + ":" + acctNodes[r.IntN(len(acctNodes))]
	case "node", "nonode", "see-node":
		return k + ":" + acctNodes[r.IntN(len(acctNodes))]
	}
	return k + ":" + acctPods[r.IntN(len(acctPods))]
}

func genAccount(r *rand.Rand, t core.Tier) any {
	n := 4 + r.IntN(20)
	if t == core.Thorough {
		n = 4 + r.IntN(50)
	}
	ops := []string{}
	// most histories start from tracked nodes (pod events for untracked nodes are exercised by the rest)
	if r.Float64() < 0.7 {
		ops = append(ops, "node:n0", "see-node:n0")
		if r.Float64() < 0.6 {
			ops = append(ops, "node:n1", "see-node:n1")
		}
	}
	for i := 0; i < n; i++ {
		ops = append(ops, genAcctOp(r))
	}
	// usually the informers catch up at the end (a quiescent point the specification judges), sometimes followed by more
	// Node events
	if r.Float64() < 0.8 {
		for _, i := range r.Perm(len(acctPods)) {
			ops = append(ops, "see-pod:"+acctPods[i])
		}
		for r.Float64() < 0.5 {
			ops = append(ops, "see-node:"+acctNodes[r.IntN(len(acctNodes))])
		}
	}
	return AcctIn{Ops: ops}
}

// enumAccount: every history of length <= 5 over one pod and one (already tracked) node, and every history of length <= 4
// over one pod and a node that is not tracked at the start.
func enumAccount(t core.Tier) []any {
	var out []any
	var rec func(alphabet, prefix, hist []string, depth int)
	rec = func(alphabet, prefix, hist []string, depth int) {
		if len(hist) > 0 {
			out = append(out, AcctIn{Ops: append(append([]string{}, prefix...), hist...)})
		}
		if depth == 0 {
			return
		}
		for _, a := range alphabet {
			rec(alphabet, prefix, append(hist, a), depth-1)
		}
	}
	rec([]string{"bind:a:n0", "finish:a", "term:a", "gone:a", "see-pod:a", "see-node:n0"}, []string{"node:n0", "see-node:n0"}, nil, 5)
	rec([]string{"bind:a:n0", "finish:a", "gone:a", "see-pod:a", "see-node:n0", "node:n0", "nonode:n0"}, nil, nil, 4)
	// the managed node: its StateNode survives the Node's deletion with the NodeClaim half only
	rec([]string{"bind:a:n1", "finish:a", "gone:a", "see-pod:a", "see-node:n1", "node:n1", "nonode:n1"}, nil, nil, 4)
	rec([]string{"finish:a", "gone:a", "see-pod:a", "see-node:n1", "node:n1", "nonode:n1"}, []string{"node:n1", "see-node:n1", "bind:a:n1", "see-pod:a"}, nil, 4)
	// a pod that is re-created under the same name on the other node
	rec([]string{"bind:a:n0", "bind:a:n1", "gone:a", "see-pod:a", "see-node:n0", "see-node:n1"}, []string{"node:n0", "see-node:n0", "node:n1", "see-node:n1"}, nil, 4)
	return out
}

func accountOp() *core.Op {
	return &core.Op{
		Name: "c04.account",
		Doc:  "histories of pod / node API changes (bind, Succeeded, Failed, deletionTimestamp, removal, node create/delete) and informer deliveries in every order against the real state.Cluster behind the real state informers (PodController / NodeController Reconcile -> UpdatePod, DeletePod, UpdateNode, DeleteNode, populateResourceRequests): the pods every tracked node is charged for (requests, host ports, daemonset requests) after each event vs the model Karp.PodAcct; spec = whenever every pod change has been delivered, a tracked node is charged for exactly the pods that exist, are bound to it and are not in a terminal phase",
		N:    func(t core.Tier) int { return map[core.Tier]int{core.Quick: 1500, core.Thorough: 20000}[t] },
		Gen:  genAccount,
		Enum: enumAccount,
		Impl: implAccount,
		Rule: "non-trivial = at some point of the history a tracked node was charged for a pod, and some pod finished, started terminating or disappeared",
		Nontrivial: func(raw json.RawMessage, impl any) bool {
			var in AcctIn
			json.Unmarshal(raw, &in)
			churn := false
			for _, o := range in.Ops {
				k, _ := splitOp(o)
				if k == "finish" || k == "fail" || k == "term" || k == "gone" {
					churn = true
				}
			}
			if !churn {
				return false
			}
			m, _ := impl.(map[string]any)
			steps, _ := m["steps"].([]any)
			for _, s := range steps {
				sm, _ := s.(map[string]any)
				ns, _ := sm["nodes"].([]any)
				for _, n := range ns {
					nm, _ := n.(map[string]any)
					if l, _ := nm["requests"].([]any); len(l) > 0 {
						return true
					}
				}
			}
			return false
		},
		Labels: func(raw json.RawMessage, impl any) []string {
			var in AcctIn
			json.Unmarshal(raw, &in)
			l := []string{fmt.Sprintf("len<=%d", ((len(in.Ops)/10)+1)*10)}
			seen := map[string]bool{}
			last := map[string]string{} // pod -> last API change
			for _, o := range in.Ops {
				k, x, _ := split3(o)
				if !seen[k] {
					seen[k] = true
					l = append(l, "op:"+k)
				}
				switch k {
				case "finish", "fail", "term", "gone", "bind", "new":
					last[x] = k
				case "see-node":
					for _, lk := range last {
						if (lk == "finish" || lk == "fail") && !seen["node-event-after-finished-pod"] {
							seen["node-event-after-finished-pod"] = true
							l = append(l, "node-event-after-finished-pod")
						}
						if lk == "term" && !seen["node-event-after-terminating-pod"] {
							seen["node-event-after-terminating-pod"] = true
							l = append(l, "node-event-after-terminating-pod")
						}
					}
				}
			}
			m, _ := impl.(map[string]any)
			steps, _ := m["steps"].([]any)
			for _, s := range steps {
				sm, _ := s.(map[string]any)
				if rq, _ := sm["requeue"].(bool); rq && !seen["requeue"] {
					seen["requeue"] = true
					l = append(l, "pod-event-before-node(requeue)")
				}
			}
			return l
		},
		Signature: func(raw json.RawMessage, impl any) string { return "account" },
		Shrink: func(raw json.RawMessage) []any {
			var in AcctIn
			json.Unmarshal(raw, &in)
			var out []any
			for _, c := range core.ShrinkList(in.Ops) {
				out = append(out, AcctIn{Ops: c})
			}
			return out
		},
		ExhaustiveNote: "all histories of length <= 5 over {bind, finish, term, gone, see-pod, see-node} on one pod and one tracked node; all of length <= 4 over one pod and an initially untracked node incl. node create/delete; the same on the managed node (its StateNode keeps the NodeClaim half when the Node goes) incl. histories that start with a charged pod; all of length <= 4 over a pod name re-used on two tracked nodes",
	}
}
