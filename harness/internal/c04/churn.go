package c04

import (
	"encoding/json"
	"fmt"
	"math/rand/v2"
	"sort"
	"sync/atomic"

	corev1 "k8s.io/api/core/v1"
	"k8s.io/apimachinery/pkg/types"
	"sigs.k8s.io/controller-runtime/pkg/reconcile"

	"sigs.k8s.io/karpenter/pkg/controllers/state/informer"

	"verifharness/internal/core"
	"verifharness/internal/world"
)

// c04.churn: a scheduling pass AFTER the pods bound to the cluster's nodes went through their lifecycle.  The scenario is
// built as for c04.pass; then bound pods finish (Succeeded / Failed, the object stays), start terminating (deletionTimestamp)
// or disappear, pending pods get bound by the kube-scheduler — each an API change — and the REAL state informers
// (informer.PodController / informer.NodeController Reconcile -> Cluster.UpdatePod / DeletePod / UpdateNode) deliver Pod
// and Node events in an arbitrary interleaving (a Node event rebuilds the node's accounting from the API).  Before the
// pass every pod change that was not delivered yet is delivered (the informers have caught up).  The pass (real
// Provisioner.Schedule with the commit trace) is judged by Karp.Spec.NeedCapacity against the API truth
// (Karp.Spec.Assigned.scenarioAfter): finished and removed pods have freed their room, terminating ones still hold it.

type ChurnEv struct {
	Kind string `json:"kind"` // finish | fail | terminate | delete | bind | see-pod | see-node
	Pod  string `json:"pod,omitempty"`
	Node string `json:"node,omitempty"`
}

type ChurnIn struct {
	Scn    world.Scenario `json:"scenario"`
	Events []ChurnEv      `json:"events"`
}

type ChurnOut struct {
	PassOut
	Applied []string `json:"applied"` // the events that changed something / were delivered, in order ("kind:pod" / "see-node:node")
	Drained []string `json:"drained"` // pods whose last change was delivered by the final catch-up
}

const churnFinalizer = "verif.example/hold"

func implChurn(raw json.RawMessage) (any, error) {
	var in ChurnIn
	if err := json.Unmarshal(raw, &in); err != nil {
		return nil, err
	}
	h, err := newHist(&HistIn{Scn: in.Scn})
	if err != nil {
		return nil, err
	}
	h.w.Cluster.SetSynced(true)
	podInf := informer.NewPodController(h.c, h.w.Cluster)
	ctx := h.w.Ctx
	ns := map[string]string{}
	for _, n := range in.Scn.Nodes {
		for _, p := range n.Pods {
			ns[p.Name] = p.NS()
		}
	}
	pending := map[string]bool{}
	for _, p := range in.Scn.Pods {
		ns[p.Name] = p.NS()
		pending[p.Name] = true
	}
	out := &ChurnOut{Applied: []string{}, Drained: []string{}}
	getPod := func(name string) *corev1.Pod {
		nsn, ok := ns[name]
		if !ok {
			return nil
		}
		pod := &corev1.Pod{}
		if err := h.c.Get(ctx, types.NamespacedName{Namespace: nsn, Name: name}, pod); err != nil {
			return nil
		}
		return pod
	}
	seePod := func(name string) error {
		_, err := podInf.Reconcile(ctx, reconcile.Request{NamespacedName: types.NamespacedName{Namespace: ns[name], Name: name}})
		return err
	}
	dirty := map[string]bool{}
	for _, e := range in.Events {
		switch e.Kind {
		case "finish", "fail":
			pod := getPod(e.Pod)
			if pod == nil || pod.Spec.NodeName == "" {
				continue
			}
			pod.Status.Phase = corev1.PodSucceeded
			if e.Kind == "fail" {
				pod.Status.Phase = corev1.PodFailed
			}
			// pod status is a subresource (also for the fake client)
			if err := h.c.Status().Update(ctx, pod); err != nil {
				return nil, err
			}
			dirty[e.Pod] = true
		case "terminate":
			pod := getPod(e.Pod)
			if pod == nil || pod.Spec.NodeName == "" || pod.DeletionTimestamp != nil {
				continue
			}
			pod.Finalizers = append(pod.Finalizers, churnFinalizer)
			if err := h.c.Update(ctx, pod); err != nil {
				return nil, err
			}
			if err := h.c.Delete(ctx, pod); err != nil {
				return nil, err
			}
			dirty[e.Pod] = true
		case "delete":
			pod := getPod(e.Pod)
			if pod == nil || pod.Spec.NodeName == "" {
				continue
			}
			if len(pod.Finalizers) > 0 {
				pod.Finalizers = nil
				if err := h.c.Update(ctx, pod); err != nil {
					return nil, err
				}
			}
			if pod = getPod(e.Pod); pod != nil {
				if err := h.c.Delete(ctx, pod); err != nil {
					return nil, err
				}
			}
			dirty[e.Pod] = true
		case "bind":
			pod := getPod(e.Pod)
			if pod == nil || !pending[e.Pod] || pod.Spec.NodeName != "" {
				continue
			}
			node := &corev1.Node{}
			if err := h.c.Get(ctx, types.NamespacedName{Name: e.Node}, node); err != nil {
				continue
			}
			pod.Spec.NodeName = e.Node
			if err := h.c.Update(ctx, pod); err != nil {
				return nil, err
			}
			pod.Status.Phase = corev1.PodRunning
			pod.Status.Conditions = []corev1.PodCondition{{Type: corev1.PodScheduled, Status: corev1.ConditionTrue}}
			if err := h.c.Status().Update(ctx, pod); err != nil {
				return nil, err
			}
			dirty[e.Pod] = true
		case "see-pod":
			if _, ok := ns[e.Pod]; !ok {
				continue
			}
			if err := seePod(e.Pod); err != nil {
				return nil, fmt.Errorf("pod informer: %w", err)
			}
			delete(dirty, e.Pod)
		case "see-node":
			known := false
			for _, n := range in.Scn.Nodes {
				if n.Name == e.Node {
					known = true
				}
			}
			if !known {
				continue
			}
			if err := h.syncNode(e.Node); err != nil {
				return nil, fmt.Errorf("node informer: %w", err)
			}
			out.Applied = append(out.Applied, "see-node:"+e.Node)
			continue
		default:
			return nil, fmt.Errorf("bad event kind %q", e.Kind)
		}
		out.Applied = append(out.Applied, e.Kind+":"+e.Pod)
	}
	// the informers catch up
	for name := range dirty {
		out.Drained = append(out.Drained, name)
	}
	sort.Strings(out.Drained)
	for _, name := range out.Drained {
		if err := seePod(name); err != nil {
			return nil, fmt.Errorf("pod informer: %w", err)
		}
	}
	p, _ := h.pass("churn")
	out.PassOut = p
	return out, nil
}

var churnOpts = world.GenOpts{InterPod: 0.06, NodeAffinity: 0.3, Existing: 1.0, Limits: 0.1, MaxPods: 5}

func plainBound(p world.Pod) bool { return len(p.Affinity) == 0 && len(p.Spreads) == 0 }

func nodeHasObject(n world.Node) bool { return n.Pool == "" || n.Stage != "claim" }

func genChurn(r *rand.Rand, t core.Tier) any {
	s := world.GenScenario(r, churnOpts)
	singleTerm(r, s)
	itCPU := map[string]int64{}
	for _, it := range s.ITs {
		itCPU[it.Name] = it.CPU - it.Overhead
	}
	// small pending pods: whether they fit depends on what the finished / terminating pods hold
	for i := range s.Pods {
		if r.Float64() < 0.6 {
			s.Pods[i].CPU = int64(100 * (1 + r.IntN(8)))
		}
	}
	// a batch job fills what is left of a node
	for i := range s.Nodes {
		n := &s.Nodes[i]
		if !(n.Pool == "" || n.Stage == "registered" || n.Stage == "initialized") || r.Float64() < 0.3 {
			continue
		}
		var used int64
		for _, p := range n.Pods {
			used += p.CPU
		}
		left := itCPU[n.IT] - used - int64(100*r.IntN(4))
		if left < 100 {
			left = 100
		}
		job := world.Pod{Name: fmt.Sprintf("job-%d", i), Labels: map[string]string{"app": "job"}, CPU: left, Mem: 64}
		// sometimes the job holds a host port that a pending pod wants too, and leaves cpu for it: then the PORT decides
		if r.Float64() < 0.3 && len(s.Pods) > 0 {
			hp := world.HostPort{Port: 8443, Protocol: "TCP"}
			job.HostPorts = []world.HostPort{hp}
			job.CPU = 100
			k := r.IntN(len(s.Pods))
			if len(s.Pods[k].Affinity) == 0 && len(s.Pods[k].Spreads) == 0 {
				s.Pods[k].HostPorts = []world.HostPort{hp}
			}
		}
		n.Pods = append(n.Pods, job)
	}
	type fate []string
	fates := []fate{{"finish"}, {"finish"}, {"fail"}, {"terminate"}, {"terminate"}, {"delete"}, {"terminate", "finish"}, {"finish", "delete"}, {"terminate", "delete"}}
	// per-pod chains of API changes
	var chains [][]ChurnEv
	var touchedNodes []string
	for _, n := range s.Nodes {
		if !nodeHasObject(n) {
			continue
		}
		hit := false
		for _, p := range n.Pods {
			if !plainBound(p) {
				continue
			}
			pr := 0.35
			if len(p.Name) > 3 && p.Name[:4] == "job-" {
				pr = 0.8
			}
			if r.Float64() >= pr {
				continue
			}
			var ch []ChurnEv
			for _, k := range fates[r.IntN(len(fates))] {
				ch = append(ch, ChurnEv{Kind: k, Pod: p.Name, Node: n.Name})
			}
			chains = append(chains, ch)
			hit = true
		}
		if hit {
			touchedNodes = append(touchedNodes, n.Name)
		}
	}
	// now and then the kube-scheduler binds one of the pending pods to a node that is up
	if len(s.Pods) > 1 && r.Float64() < 0.2 {
		var up []string
		for _, n := range s.Nodes {
			if !n.Deleting && (n.Pool == "" || n.Stage == "registered" || n.Stage == "initialized") {
				up = append(up, n.Name)
			}
		}
		if len(up) > 0 {
			p := s.Pods[r.IntN(len(s.Pods))]
			if plainBound(p) && len(p.HostPorts) == 0 {
				node := up[r.IntN(len(up))]
				chains = append(chains, []ChurnEv{{Kind: "bind", Pod: p.Name, Node: node}})
				touchedNodes = append(touchedNodes, node)
			}
		}
	}
	// interleave the chains; after each change the Pod event may be delivered at once, and Node events of the pod's node
	// (kubelet heartbeats, label / annotation updates) may arrive at any point
	var evs []ChurnEv
	idx := make([]int, len(chains))
	left := 0
	for _, c := range chains {
		left += len(c)
	}
	for left > 0 {
		k := r.IntN(len(chains))
		if idx[k] >= len(chains[k]) {
			continue
		}
		e := chains[k][idx[k]]
		idx[k]++
		left--
		node := e.Node
		if e.Kind != "bind" {
			e.Node = ""
		}
		evs = append(evs, e)
		if r.Float64() < 0.65 {
			evs = append(evs, ChurnEv{Kind: "see-pod", Pod: e.Pod})
		}
		if r.Float64() < 0.45 {
			evs = append(evs, ChurnEv{Kind: "see-node", Node: node})
		}
	}
	// mostly: the informers catch up, then further Node events arrive
	if r.Float64() < 0.75 {
		for _, k := range r.Perm(len(chains)) {
			evs = append(evs, ChurnEv{Kind: "see-pod", Pod: chains[k][0].Pod})
		}
		for _, n := range touchedNodes {
			if r.Float64() < 0.75 {
				evs = append(evs, ChurnEv{Kind: "see-node", Node: n})
			}
		}
	}
	if evs == nil {
		evs = []ChurnEv{}
	}
	return ChurnIn{Scn: *s, Events: evs}
}

var churnRounds atomic.Int64

func shrinkChurn(raw json.RawMessage) []any {
	if churnRounds.Add(1) > shrinkRounds {
		return nil
	}
	var in ChurnIn
	if json.Unmarshal(raw, &in) != nil {
		return nil
	}
	var out []any
	for _, c := range core.ShrinkList(in.Events) {
		if c == nil {
			c = []ChurnEv{}
		}
		out = append(out, ChurnIn{Scn: in.Scn, Events: c})
	}
	for _, c := range shrinkScenario(&in.Scn) {
		out = append(out, ChurnIn{Scn: *c, Events: in.Events})
	}
	return out
}

func churnOp() *core.Op {
	return &core.Op{
		Name: "c04.churn",
		Doc:  "real Provisioner.Schedule passes (commit trace) after the pods bound to the nodes went through their lifecycle: bound pods finish (Succeeded / Failed, object stays), start terminating, disappear, pending pods get bound; the real state informers (PodController / NodeController Reconcile -> Cluster.UpdatePod / DeletePod / UpdateNode -> populateResourceRequests) deliver Pod and Node events in arbitrary interleavings and catch up before the pass; spec = Karp.Spec.NeedCapacity against the API truth (finished / removed pods have freed their room, terminating pods hold it): every NodeClaim opened for a pod of the property's class is needed next to what is REALLY assigned to each node",
		N:    func(t core.Tier) int { return map[core.Tier]int{core.Quick: 1000, core.Thorough: 8000}[t] },
		Gen:  genChurn,
		Impl: implChurn,
		Rule: "non-trivial = at least one lifecycle change of a bound pod (or a binding) was applied and the pass placed a pod (on a node or a new NodeClaim)",
		Nontrivial: func(raw json.RawMessage, impl any) bool {
			m, _ := impl.(map[string]any)
			ap, _ := m["applied"].([]any)
			changed := false
			for _, a := range ap {
				s, _ := a.(string)
				k, _ := splitOp(s)
				if k != "see-pod" && k != "see-node" {
					changed = true
				}
			}
			tr, _ := m["trace"].([]any)
			return changed && len(tr) > 0
		},
		Labels: func(raw json.RawMessage, impl any) []string {
			var in ChurnIn
			json.Unmarshal(raw, &in)
			m, _ := impl.(map[string]any)
			o, _ := m["outcome"].(map[string]any)
			c, _ := o["claims"].([]any)
			e, _ := o["existing"].([]any)
			l := []string{fmt.Sprintf("new-claims=%d", min(len(c), 3)), fmt.Sprintf("existing-placements=%d", min(len(e), 3)), fmt.Sprintf("events<=%d", ((len(in.Events)/5)+1)*5)}
			seen := map[string]bool{}
			add := func(s string) {
				if !seen[s] {
					seen[s] = true
					l = append(l, s)
				}
			}
			last := map[string]string{}
			delivered := map[string]bool{}
			podNode := map[string]string{}
			for _, n := range in.Scn.Nodes {
				for _, p := range n.Pods {
					podNode[p.Name] = n.Name
				}
			}
			for _, ev := range in.Events {
				switch ev.Kind {
				case "see-pod":
					delivered[ev.Pod] = true
				case "see-node":
					for p, k := range last {
						if podNode[p] != ev.Node {
							continue
						}
						state := "undelivered"
						if delivered[p] {
							state = "delivered"
						}
						add("node-event-after-" + k + "(" + state + ")")
					}
				default:
					add("change:" + ev.Kind)
					last[ev.Pod] = ev.Kind
					delivered[ev.Pod] = false
					if ev.Kind == "bind" {
						podNode[ev.Pod] = ev.Node
					}
				}
			}
			if d, _ := m["drained"].([]any); len(d) > 0 {
				add("final-catch-up")
			}
			return l
		},
		Signature: func(raw json.RawMessage, impl any) string { return "churn" },
		Shrink:    shrinkChurn,
	}
}
