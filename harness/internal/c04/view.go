package c04

import (
	"context"
	"encoding/json"
	"fmt"
	"math/rand/v2"
	"sort"
	"time"

	corev1 "k8s.io/api/core/v1"
	"k8s.io/apimachinery/pkg/api/resource"
	metav1 "k8s.io/apimachinery/pkg/apis/meta/v1"
	"k8s.io/apimachinery/pkg/types"
	clock "k8s.io/utils/clock/testing"

	v1 "sigs.k8s.io/karpenter/pkg/apis/v1"
	fakecp "sigs.k8s.io/karpenter/pkg/cloudprovider/fake"
	"sigs.k8s.io/karpenter/pkg/controllers/state"
	"sigs.k8s.io/karpenter/pkg/operator/options"
	"sigs.k8s.io/karpenter/pkg/test"

	"verifharness/internal/core"
	"verifharness/internal/world"
)

// c04.view: what a real state.StateNode presents to the scheduler, for every combination of (NodeClaim?, Node?,
// registered / initialized labels, taints of every kind, zero-valued or missing status resources, deletion marks),
// built through the real Cluster.UpdateNodeClaim / UpdateNode / MarkForDeletion.

type ResIn struct {
	CPU  int64 `json:"cpu"`  // milli; 0 = reported as zero, -1 = key missing
	Mem  int64 `json:"mem"`  // Mi
	Pods int64 `json:"pods"` //
}

type ViewClaim struct {
	Labels        map[string]string `json:"labels"`
	Taints        []world.Taint     `json:"taints"`
	StartupTaints []world.Taint     `json:"startupTaints"`
	Alloc         ResIn             `json:"alloc"`
	Deleting      bool              `json:"deleting"`    // deletionTimestamp set
	Terminating   bool              `json:"terminating"` // InstanceTerminating condition true
}

type ViewNode struct {
	Labels   map[string]string `json:"labels"`
	Taints   []world.Taint     `json:"taints"`
	Alloc    ResIn             `json:"alloc"`
	Deleting bool              `json:"deleting"`
}

type ViewIn struct {
	Claim  *ViewClaim `json:"claim"`
	Node   *ViewNode  `json:"node"`
	Marked bool       `json:"marked"`
}

type ViewOut struct {
	Tracked     bool          `json:"tracked"` // cluster state holds a StateNode for the provider id
	Managed     bool          `json:"managed"`
	Registered  bool          `json:"registered"`
	Initialized bool          `json:"initialized"`
	Name        string        `json:"name"`
	Labels      [][2]string   `json:"labels"`
	Taints      []world.Taint `json:"taints"`
	Alloc       ResIn         `json:"alloc"`
	Marked      bool          `json:"markedForDeletion"`
	Active      bool          `json:"active"` // survives StateNodes.Active()
}

func resList(r ResIn) corev1.ResourceList {
	rl := corev1.ResourceList{}
	if r.CPU >= 0 {
		rl[corev1.ResourceCPU] = *resource.NewMilliQuantity(r.CPU, resource.DecimalSI)
	}
	if r.Mem >= 0 {
		rl[corev1.ResourceMemory] = *resource.NewQuantity(r.Mem*1024*1024, resource.BinarySI)
	}
	if r.Pods >= 0 {
		rl[corev1.ResourcePods] = *resource.NewQuantity(r.Pods, resource.DecimalSI)
	}
	return rl
}

func toK8sTaints(ts []world.Taint) []corev1.Taint {
	var out []corev1.Taint
	for _, t := range ts {
		out = append(out, corev1.Taint{Key: t.Key, Value: t.Value, Effect: corev1.TaintEffect(t.Effect)})
	}
	return out
}

func implView(raw json.RawMessage) (any, error) {
	var in ViewIn
	if err := json.Unmarshal(raw, &in); err != nil {
		return nil, err
	}
	ctx := options.ToContext(context.Background(), test.Options())
	clk := clock.NewFakeClock(world.T0)
	c := world.NewClient()
	cp := fakecp.NewCloudProvider()
	cluster := state.NewCluster(clk, c, cp)
	const pid = "fake:///view"
	if in.Claim != nil {
		nc := &v1.NodeClaim{
			ObjectMeta: metav1.ObjectMeta{Name: "claim-a", Labels: in.Claim.Labels, UID: types.UID("nc-1"), CreationTimestamp: metav1.NewTime(world.T0.Add(-time.Hour)),
				Finalizers: []string{v1.TerminationFinalizer}},
			Spec:   v1.NodeClaimSpec{Taints: toK8sTaints(in.Claim.Taints), StartupTaints: toK8sTaints(in.Claim.StartupTaints)},
			Status: v1.NodeClaimStatus{ProviderID: pid, Allocatable: resList(in.Claim.Alloc), Capacity: resList(in.Claim.Alloc)},
		}
		if in.Claim.Deleting {
			now := metav1.NewTime(world.T0)
			nc.DeletionTimestamp = &now
		}
		if in.Claim.Terminating {
			nc.StatusConditions().SetTrue(v1.ConditionTypeInstanceTerminating)
		}
		cluster.UpdateNodeClaim(nc)
	}
	if in.Node != nil {
		node := &corev1.Node{
			ObjectMeta: metav1.ObjectMeta{Name: "node-a", Labels: in.Node.Labels, UID: types.UID("node-1"), CreationTimestamp: metav1.NewTime(world.T0.Add(-time.Hour)),
				Finalizers: []string{v1.TerminationFinalizer}},
			Spec:   corev1.NodeSpec{ProviderID: pid, Taints: toK8sTaints(in.Node.Taints)},
			Status: corev1.NodeStatus{Allocatable: resList(in.Node.Alloc), Capacity: resList(in.Node.Alloc)},
		}
		if in.Node.Deleting {
			now := metav1.NewTime(world.T0)
			node.DeletionTimestamp = &now
		}
		if err := cluster.UpdateNode(ctx, node); err != nil {
			return nil, err
		}
	}
	if in.Marked {
		cluster.MarkForDeletion(pid)
	}
	out := ViewOut{Labels: [][2]string{}, Taints: []world.Taint{}}
	nodes := cluster.DeepCopyNodes()
	for _, sn := range nodes {
		if sn.ProviderID() != pid {
			continue
		}
		out.Tracked = true
		out.Managed, out.Registered, out.Initialized = sn.Managed(), sn.Registered(), sn.Initialized()
		out.Name = sn.Name()
		for k, v := range sn.Labels() {
			out.Labels = append(out.Labels, [2]string{k, v})
		}
		sort.Slice(out.Labels, func(i, j int) bool { return out.Labels[i][0] < out.Labels[j][0] })
		out.Taints = world.FromTaints(sn.Taints())
		a := sn.Allocatable()
		mem, pods := a[corev1.ResourceMemory], a[corev1.ResourcePods]
		out.Alloc = ResIn{CPU: milli(a, corev1.ResourceCPU), Mem: world.CeilMi(mem), Pods: pods.Value()}
		out.Marked = sn.MarkedForDeletion()
	}
	for _, sn := range nodes.Active() {
		if sn.ProviderID() == pid {
			out.Active = true
		}
	}
	return out, nil
}

var viewTaintUniverse = []world.Taint{
	{Key: "dedicated", Value: "x", Effect: "NoSchedule"},
	{Key: "dedicated", Value: "x", Effect: "PreferNoSchedule"},
	{Key: "startup", Value: "", Effect: "NoSchedule"},
	{Key: "startup", Value: "other", Effect: "NoSchedule"}, // MatchTaint ignores the value
	{Key: "startup", Value: "", Effect: "NoExecute"},
	{Key: "node.kubernetes.io/not-ready", Value: "", Effect: "NoSchedule"},
	{Key: "node.kubernetes.io/not-ready", Value: "", Effect: "NoExecute"},
	{Key: "node.kubernetes.io/not-ready", Value: "", Effect: "PreferNoSchedule"}, // not in the table
	{Key: "node.kubernetes.io/unreachable", Value: "", Effect: "NoSchedule"},
	{Key: "node.kubernetes.io/unreachable", Value: "", Effect: "NoExecute"}, // not in the table
	{Key: "node.cloudprovider.kubernetes.io/uninitialized", Value: "true", Effect: "NoSchedule"},
	{Key: "node.cloudprovider.kubernetes.io/uninitialized", Value: "false", Effect: "NoSchedule"},
	{Key: "karpenter.sh/unregistered", Value: "", Effect: "NoExecute"},
	{Key: "karpenter.sh/unregistered", Value: "", Effect: "NoSchedule"}, // not in the table
	{Key: "readiness.k8s.io/network", Value: "", Effect: "NoSchedule"},
	{Key: "readiness.k8s.io", Value: "", Effect: "NoSchedule"}, // prefix needs the slash
	{Key: "karpenter.sh/disrupted", Value: "", Effect: "NoSchedule"},
}

func pickTaints(r *rand.Rand, p float64) []world.Taint {
	out := []world.Taint{}
	for _, t := range viewTaintUniverse {
		if r.Float64() < p {
			out = append(out, t)
		}
	}
	return out
}

func genRes(r *rand.Rand, allowZero bool) ResIn {
	pick := func(v int64) int64 {
		if allowZero {
			switch x := r.Float64(); {
			case x < 0.2:
				return 0
			case x < 0.35:
				return -1
			}
		}
		return v
	}
	return ResIn{CPU: pick(int64(1000 * (1 + r.IntN(8)))), Mem: pick(int64(1024 * (1 + r.IntN(8)))), Pods: pick(int64(5 + r.IntN(30)))}
}

func genView(r *rand.Rand, t core.Tier) any {
	in := ViewIn{Marked: r.Float64() < 0.12}
	hasClaim := r.Float64() < 0.8
	hasNode := !hasClaim || r.Float64() < 0.75
	base := map[string]string{"node.kubernetes.io/instance-type": "it-0", "topology.kubernetes.io/zone": "z1", "karpenter.sh/capacity-type": "spot"}
	if hasClaim {
		c := &ViewClaim{Labels: map[string]string{"karpenter.sh/nodepool": "pool-0", "team": "red"}, Alloc: genRes(r, false),
			Deleting: r.Float64() < 0.08, Terminating: r.Float64() < 0.05}
		for k, v := range base {
			c.Labels[k] = v
		}
		c.Taints = []world.Taint{}
		c.StartupTaints = []world.Taint{}
		if r.Float64() < 0.6 {
			c.Taints = pickTaints(r, 0.15)
		}
		if r.Float64() < 0.6 {
			c.StartupTaints = append(c.StartupTaints, world.Taint{Key: "startup", Value: "", Effect: "NoSchedule"})
			if r.Float64() < 0.3 {
				c.StartupTaints = append(c.StartupTaints, world.Taint{Key: "dedicated", Value: "zzz", Effect: "PreferNoSchedule"})
			}
		}
		in.Claim = c
	}
	if hasNode {
		n := &ViewNode{Labels: map[string]string{"kubernetes.io/hostname": "host-a", "team": "blue"}, Taints: pickTaints(r, 0.25), Alloc: genRes(r, true), Deleting: r.Float64() < 0.08}
		for k, v := range base {
			n.Labels[k] = v
		}
		if hasClaim || r.Float64() < 0.3 {
			n.Labels["karpenter.sh/nodepool"] = "pool-0"
		}
		if r.Float64() < 0.1 {
			delete(n.Labels, "node.kubernetes.io/instance-type")
		}
		for _, k := range []string{v1.NodeRegisteredLabelKey, v1.NodeInitializedLabelKey} {
			switch x := r.Float64(); {
			case x < 0.45:
				n.Labels[k] = "true"
			case x < 0.55:
				n.Labels[k] = "false"
			}
		}
		in.Node = n
	}
	return in
}

// enumView: the full flag matrix over (claim?, node?, registered label, initialized label, marked) with one taint of every
// kind on both objects and zero cpu on the node.
func enumView(t core.Tier) []any {
	var out []any
	labelVals := []string{"", "true", "false"}
	for _, hasClaim := range []bool{true, false} {
		for _, hasNode := range []bool{true, false} {
			if !hasClaim && !hasNode {
				continue
			}
			for _, reg := range labelVals {
				for _, ini := range labelVals {
					for _, marked := range []bool{false, true} {
						for _, zero := range []int{0, 1, 2} {
							if !hasNode && (reg != "" || ini != "" || zero != 0) {
								continue
							}
							in := ViewIn{Marked: marked}
							if hasClaim {
								in.Claim = &ViewClaim{Labels: map[string]string{"karpenter.sh/nodepool": "pool-0", "node.kubernetes.io/instance-type": "it-0", "team": "red"},
									Taints:        []world.Taint{viewTaintUniverse[0], viewTaintUniverse[2], viewTaintUniverse[5]},
									StartupTaints: []world.Taint{{Key: "startup", Value: "", Effect: "NoSchedule"}}, Alloc: ResIn{CPU: 4000, Mem: 8192, Pods: 20}}
							}
							if hasNode {
								n := &ViewNode{Labels: map[string]string{"kubernetes.io/hostname": "host-a", "node.kubernetes.io/instance-type": "it-0", "team": "blue"},
									Taints: append([]world.Taint{}, viewTaintUniverse...), Alloc: ResIn{CPU: 3900, Mem: 8000, Pods: 19}}
								if hasClaim {
									n.Labels["karpenter.sh/nodepool"] = "pool-0"
								}
								if reg != "" {
									n.Labels[v1.NodeRegisteredLabelKey] = reg
								}
								if ini != "" {
									n.Labels[v1.NodeInitializedLabelKey] = ini
								}
								switch zero {
								case 1:
									n.Alloc.CPU = 0
								case 2:
									n.Alloc = ResIn{CPU: -1, Mem: -1, Pods: -1}
								}
								in.Node = n
							}
							out = append(out, in)
						}
					}
				}
			}
		}
	}
	return out
}

func viewOp() *core.Op {
	return &core.Op{
		Name: "c04.view",
		Doc:  "state.StateNode accessors (Managed/Registered/Initialized/Name/Labels/Taints/Allocatable/MarkedForDeletion, StateNodes.Active) on StateNodes built by the real Cluster.UpdateNodeClaim/UpdateNode/MarkForDeletion vs the model Karp.Provision.SNode; spec = startup and known-ephemeral taints hidden until initialized, zero-valued status resources fall back to the NodeClaim's, deleting nodes are not Active",
		N:    func(t core.Tier) int { return map[core.Tier]int{core.Quick: 3000, core.Thorough: 40000}[t] },
		Gen:  genView,
		Enum: enumView,
		Impl: implView,
		Rule: "non-trivial = a managed node that is not initialized (the in-flight view); the flag matrix (claim?, node?, registered label, initialized label, marked, zero resources) is enumerated completely",
		Nontrivial: func(raw json.RawMessage, impl any) bool {
			m, _ := impl.(map[string]any)
			managed, _ := m["managed"].(bool)
			ini, _ := m["initialized"].(bool)
			return managed && !ini
		},
		Labels: func(raw json.RawMessage, impl any) []string {
			var in ViewIn
			json.Unmarshal(raw, &in)
			m, _ := impl.(map[string]any)
			return []string{fmt.Sprintf("claim=%v node=%v", in.Claim != nil, in.Node != nil), fmt.Sprintf("registered=%v initialized=%v", m["registered"], m["initialized"]), fmt.Sprintf("active=%v", m["active"])}
		},
		Signature:      func(raw json.RawMessage, impl any) string { return "view" },
		ExhaustiveNote: "flag matrix claim? x node? x registered-label{absent,true,false} x initialized-label{absent,true,false} x marked x node-resources{set,zero cpu,missing}",
	}
}
