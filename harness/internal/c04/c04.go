// Package c04: correspondence ops for C04 (stub, not yet built).
package c04

import (
	"verifharness/internal/core"
	"verifharness/internal/registry"
)

func init() { registry.Register("C04", Ops) }

func Ops() []*core.Op { return nil }
